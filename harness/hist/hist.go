// Package hist drives operation histories through the real server (IMAP + LMTP on one data directory) and the
// Lean mailbox machine, comparing the result of every op and the full observable state after every op, and
// evaluates the property oracles on the real observations.
package hist

import (
	"fmt"
	"regexp"
	"sort"
	"strconv"
	"strings"

	"raven/verifh/hx"
	"raven/verifh/world"
)

// Op is one history step in the harness's replayable text form: kind + hex-encoded args.
type Op struct {
	Kind string
	Args []string // decoded
}

func (o Op) Line() string {
	a := make([]string, len(o.Args))
	for i, x := range o.Args {
		a[i] = hx.H(x)
	}
	return strings.TrimSpace(o.Kind + " " + strings.Join(a, " "))
}
func ParseOp(l string) Op {
	f := strings.Fields(l)
	o := Op{Kind: f[0]}
	for _, x := range f[1:] {
		o.Args = append(o.Args, hx.UnH(x))
	}
	return o
}
func (o Op) Human() string { return o.Kind + " " + strings.Join(o.Args, " ") }

type LinkD struct {
	UID   int
	Msg   int
	Flags []string
}
type BoxD struct {
	Name     string
	Next     int
	Validity int64
	Inc      int // model only
	Links    []LinkD
	Messages int // STATUS MESSAGES (real only)
	Unseen   int
}

func canonFlags(fl []string) []string {
	m := map[string]bool{}
	for _, f := range fl {
		if f != "" {
			m[f] = true
		}
	}
	var o []string
	for f := range m {
		o = append(o, f)
	}
	sort.Strings(o)
	return o
}

func (b BoxD) canon() string {
	var ls []string
	for _, l := range b.Links {
		ls = append(ls, fmt.Sprintf("%d:m%d:%s", l.UID, l.Msg, strings.Join(canonFlags(l.Flags), ",")))
	}
	return fmt.Sprintf("%s next=%d [%s]", b.Name, b.Next, strings.Join(ls, ";"))
}
func CanonDump(bs []BoxD) string {
	sort.Slice(bs, func(i, j int) bool { return bs[i].Name < bs[j].Name })
	var o []string
	for _, b := range bs {
		o = append(o, b.canon())
	}
	return strings.Join(o, " | ")
}

// H is one history in progress.
type H struct {
	W       *world.World
	User    string
	A       *world.Client // actor
	O       *world.Client // observer (EXAMINE only)
	M       *hx.Session
	Rep     *hx.Report
	Ops     []Op
	Failed  bool
	NextMsg int
	// oracle state (C03), over the real observations
	seenUID       map[string]map[int]int // "name|validity" -> uid -> msg
	maxUID        map[string]int
	lastNext      map[string]int
	incOf         map[string]int // "name|validity" -> model incarnation
	incTime       map[string]string
	Stream        string
	OnStep        func(h *H, op Op, real, model []BoxD) // extra oracles
	pendingAppend *appendUID
	LastImpl      string // canonical implementation answer of the last op
	Prev          []BoxD // real dump before the last op
	SpecTheorem   string // when set, the model's post-state is the property's specification (by this theorem)
	SkipValidity  bool   // UIDVALIDITY freshness is C03's business: other properties' runs do not judge it
	heldSel       string // the mailbox the observer left selected after its last dump (rotates), "" = none
	dumpN         int
}

func New(w *world.World, m *hx.Session, rep *hx.Report, user, stream string) *H {
	h := &H{W: w, User: user, M: m, Rep: rep, Stream: stream, NextMsg: 1,
		seenUID: map[string]map[int]int{}, maxUID: map[string]int{}, lastNext: map[string]int{}, incOf: map[string]int{}, incTime: map[string]string{}}
	h.A = w.Login(user)
	h.O = w.Login(user)
	h.M.Ask("m.init 1")
	h.Prev = h.RealDump()
	return h
}
func (h *H) Close() { h.A.Close(); h.O.Close() }

// NewReal is New without a model session: RealOp and RealDump only (the crash workload runs without the model).
func NewReal(w *world.World, rep *hx.Report, user string) *H {
	h := &H{W: w, User: user, Rep: rep, NextMsg: 1,
		seenUID: map[string]map[int]int{}, maxUID: map[string]int{}, lastNext: map[string]int{}, incOf: map[string]int{}, incTime: map[string]string{}}
	h.A = w.Login(user)
	h.O = w.Login(user)
	return h
}

// NewModelOnly is New for replaying ops on the model and comparing dumps taken by an observer login.
func NewModelOnly(w *world.World, m *hx.Session, rep *hx.Report, user string) *H {
	h := &H{W: w, User: user, M: m, Rep: rep, NextMsg: 1,
		seenUID: map[string]map[int]int{}, maxUID: map[string]int{}, lastNext: map[string]int{}, incOf: map[string]int{}, incTime: map[string]string{}}
	h.O = w.Login(user)
	h.A = h.O
	h.M.Ask("m.init 1")
	return h
}

func (h *H) replay() []string {
	o := []string{"newhist"}
	for _, op := range h.Ops {
		o = append(o, op.Line())
	}
	return o
}

func (h *H) fail(kind, what string) {
	if h.Failed {
		return
	}
	h.Failed = true
	h.Rep.Violate(kind, h.Stream, what, h.replay())
}

// MsgFn makes message number id; harnesses may replace it (the Subject must stay "m<id>": dumps identify messages by it).
var MsgFn = plainMsg

func Msg(id int) string { return MsgFn(id) }

func plainMsg(id int) string {
	return fmt.Sprintf("From: sender@example.org\r\nTo: rcpt@example.com\r\nSubject: m%d\r\nMessage-ID: <m%d@example.org>\r\nDate: Mon, 02 Jan 2006 15:04:05 +0000\r\n\r\nbody of message %d\r\n", id, id, id)
}

var reFetch = regexp.MustCompile(`^\* (\d+) FETCH \((.*)\)$`)
var reFlags = regexp.MustCompile(`FLAGS \(([^)]*)\)`)
var reUID = regexp.MustCompile(`UID (\d+)`)
var reSubj = regexp.MustCompile(`(?i)Subject: m(\d+)`)
var reExp = regexp.MustCompile(`^\* (\d+) EXPUNGE$`)
var reAppendUID = regexp.MustCompile(`\[APPENDUID (\d+) (\d+)\]`)

func hexFlags(fl []string) string {
	fl = canonFlags(fl)
	o := make([]string, len(fl))
	for i, f := range fl {
		o[i] = hx.H(f)
	}
	return strings.Join(o, ",")
}

// notes canonicalises the untagged FETCH/EXPUNGE responses of STORE / EXPUNGE.
func notes(r world.Resp, withUID bool) string {
	var o []string
	for _, l := range r.Untagged {
		if m := reExp.FindStringSubmatch(l); m != nil {
			o = append(o, "X:"+m[1])
		} else if m := reFetch.FindStringSubmatch(l); m != nil {
			fl := ""
			if f := reFlags.FindStringSubmatch(m[2]); f != nil {
				fl = hexFlags(strings.Fields(f[1]))
			}
			u := ""
			if withUID {
				if x := reUID.FindStringSubmatch(m[2]); x != nil {
					u = x[1]
				}
			}
			o = append(o, "F:"+m[1]+":"+u+":"+fl)
		}
	}
	return strings.Join(o, " ")
}

// canonModelNotes rewrites the model's notes into the same form (sorted flags; UID dropped for non-UID STORE).
func canonModelNotes(s string, withUID bool) string {
	var o []string
	for _, n := range strings.Fields(s) {
		p := strings.Split(n, ":")
		if p[0] == "X" {
			o = append(o, n)
			continue
		}
		if len(p) < 4 {
			o = append(o, n)
			continue
		}
		var fl []string
		if p[3] != "" {
			for _, f := range strings.Split(p[3], ",") {
				fl = append(fl, hx.UnH(f))
			}
		}
		u := p[2]
		if !withUID {
			u = ""
		}
		o = append(o, "F:"+p[1]+":"+u+":"+hexFlags(fl))
	}
	return strings.Join(o, " ")
}

func status(r world.Resp) string { return strings.ToLower(r.Status()) }

// Do executes one op on the implementation and on the model and compares results and state.
// RealOp performs op on the implementation and returns its canonical answer.
func (h *H) RealOp(op Op) (impl string) {
	a := op.Args
	sel := func(box string) bool { return h.A.Cmd("SELECT " + box).OK() }
	switch op.Kind {
	case "append": // box msgid flags...
		id, _ := strconv.Atoi(a[1])
		r := h.A.Append(a[0], strings.Join(a[2:], " "), Msg(id))
		impl = status(r)
		if m := reAppendUID.FindStringSubmatch(r.Tagged); m != nil && r.OK() {
			impl = "ok " + m[2]
			h.checkAppendUID(a[0], m[1], m[2], id)
		}
	case "deliver": // msgid
		id, _ := strconv.Atoi(a[0])
		_, data := h.W.Deliver("sender@example.org", []string{h.User}, Msg(id))
		impl = "no"
		if len(data) == 1 && strings.HasPrefix(data[0], "2") {
			impl = "ok"
		}
	case "copy", "uidcopy": // src set dst
		if !sel(a[0]) {
			impl = "no"
		} else if op.Kind == "copy" {
			impl = status(h.A.Cmd("COPY " + a[1] + " " + a[2]))
		} else {
			impl = status(h.A.Cmd("UID COPY " + a[1] + " " + a[2]))
		}
	case "store", "uidstore": // box set mode silent flags...
		uid := op.Kind == "uidstore"
		item := map[string]string{"set": "FLAGS", "add": "+FLAGS", "del": "-FLAGS"}[a[2]]
		if a[3] == "1" {
			item += ".SILENT"
		}
		if !sel(a[0]) {
			impl = "no"
		} else {
			pre := "STORE "
			if uid {
				pre = "UID STORE "
			}
			r := h.A.Cmd(pre + a[1] + " " + item + " (" + strings.Join(a[4:], " ") + ")")
			impl = strings.TrimSpace(status(r) + " " + notes(r, uid))
		}
	case "expunge", "close": // box
		if !sel(a[0]) {
			impl = "no"
		} else {
			r := h.A.Cmd(strings.ToUpper(op.Kind))
			impl = strings.TrimSpace(status(r) + " " + notes(r, false))
		}
	case "uidexpunge": // box set
		if !sel(a[0]) {
			impl = "no"
		} else {
			r := h.A.Cmd("UID EXPUNGE " + a[1])
			impl = strings.TrimSpace(status(r) + " " + notes(r, false))
		}
	case "xstore", "xuidstore", "xexpunge", "xuidexpunge", "xclose": // the same commands after EXAMINE: nothing may change
		if !h.A.Cmd("EXAMINE " + a[0]).OK() {
			impl = "no"
		} else {
			switch op.Kind {
			case "xstore":
				impl = status(h.A.Cmd("STORE " + a[1] + " +FLAGS (" + strings.Join(a[2:], " ") + ")"))
			case "xuidstore":
				impl = status(h.A.Cmd("UID STORE " + a[1] + " +FLAGS (" + strings.Join(a[2:], " ") + ")"))
			case "xexpunge":
				impl = status(h.A.Cmd("EXPUNGE"))
			case "xuidexpunge":
				impl = status(h.A.Cmd("UID EXPUNGE " + a[1]))
			case "xclose":
				impl = status(h.A.Cmd("CLOSE"))
			}
		}
	case "create":
		impl = status(h.A.Cmd("CREATE " + a[0]))
	case "delete":
		impl = status(h.A.Cmd("DELETE " + a[0]))
	case "rename":
		impl = status(h.A.Cmd("RENAME " + a[0] + " " + a[1]))
	case "sub":
		impl = status(h.A.Cmd("SUBSCRIBE " + a[0]))
	case "unsub":
		impl = status(h.A.Cmd("UNSUBSCRIBE " + a[0]))
	default:
		h.fail("broken-correspondence", "unknown op "+op.Kind)
	}
	return impl
}

// ModelOp performs op (the nth of the history, counted from 1) on the Lean model and returns its canonical answer.
func (h *H) ModelOp(op Op, nth int) (mline string) {
	a := op.Args
	mdl := func(l string) string {
		r, err := h.M.Ask(l)
		if err != nil {
			h.fail("broken-correspondence", "model driver: "+err.Error())
		}
		return r
	}
	hl := func(xs []string) string { return hx.HList(xs) }
	switch op.Kind {
	case "append":
		mline = mdl("m.add " + hx.H(a[0]) + " " + a[1] + " " + hl(a[2:]))
	case "deliver":
		mline = mdl("m.add " + hx.H("INBOX") + " " + a[0] + " .")
		if strings.HasPrefix(mline, "ok ") {
			mline = "ok"
		}
	case "copy", "uidcopy":
		mline = mdl("m." + op.Kind + " " + hx.H(a[0]) + " " + hx.H(a[1]) + " " + hx.H(a[2]))
	case "store", "uidstore":
		uid := op.Kind == "uidstore"
		silent := a[3] == "1"
		mline = mdl("m." + op.Kind + " " + hx.H(a[0]) + " " + hx.H(a[1]) + " " + a[2] + " " + hl(a[4:]))
		if strings.HasPrefix(mline, "ok") {
			rest := strings.TrimSpace(strings.TrimPrefix(mline, "ok"))
			if silent {
				// .SILENT suppresses FETCH and EXPUNGE notices alike
				rest = ""
			}
			mline = strings.TrimSpace("ok " + canonModelNotes(rest, uid))
		}
	case "expunge", "close":
		mline = mdl("m." + op.Kind + " " + hx.H(a[0]))
		mline = strings.TrimSpace(strings.ReplaceAll(expNotes(mline), " .", ""))
	case "uidexpunge":
		mline = strings.TrimSpace(strings.ReplaceAll(expNotes(mdl("m.uidexpunge "+hx.H(a[0])+" "+hx.H(a[1]))), " .", ""))
	case "xstore", "xuidstore", "xexpunge", "xuidexpunge", "xclose":
		mline = mdl("m.readonly " + op.Kind[1:] + " " + hx.H(a[0]))
	case "create":
		mline = mdl("m.create " + hx.H(a[0]) + " " + strconv.Itoa(nth+1))
	case "delete":
		mline = mdl("m.delete " + hx.H(a[0]))
	case "rename":
		mline = mdl("m.rename " + hx.H(a[0]) + " " + hx.H(a[1]) + " " + strconv.Itoa(nth+1))
	case "sub":
		mline = mdl("m.sub " + hx.H(a[0]))
	case "unsub":
		mline = mdl("m.unsub " + hx.H(a[0]))
	}
	return mline
}

func (h *H) Do(op Op) {
	if h.Failed {
		return
	}
	h.Ops = append(h.Ops, op)
	impl := h.RealOp(op)
	if h.Failed {
		return
	}
	mline := h.ModelOp(op, len(h.Ops))
	h.Rep.Hit("op:" + op.Kind)
	h.Rep.Hit("op:" + op.Kind + ":" + strings.Fields(impl + " x")[0])
	if strings.HasPrefix(op.Kind, "x") && h.Prev != nil {
		// C10.4 on the real observations: a command issued after EXAMINE must not change anything
		if now := CanonDump(h.RealDump()); now != CanonDump(h.Prev) {
			h.fail("impl-violation", fmt.Sprintf("%q: the mailbox was opened with EXAMINE and has been modified by this session\n  before: %s\n  after:  %s", op.Human(), CanonDump(h.Prev), now))
			return
		}
		// the property demands "never modified", not a particular status word: OK and NO are both acceptable answers
		impl = mline
	}
	if impl != mline {
		h.fail("broken-correspondence", fmt.Sprintf("after %d ops, %q: implementation answered %q, model %q", len(h.Ops), op.Human(), impl, mline))
		return
	}
	h.LastImpl = impl
	real := h.RealDump()
	model := h.ModelDump()
	defer func() { h.Prev = real }()
	// the property's oracle on the real observations comes first: a failure there is a violation by the implementation
	h.oracle(op, real, model)
	if h.Failed {
		return
	}
	rd, md := CanonDump(real), CanonDump(model)
	if rd != md && h.SpecTheorem != "" {
		// the model's post-state is the specification's (theorem SpecTheorem): the implementation violates it on this history
		h.fail("impl-violation", fmt.Sprintf("after %d ops, %q: the implementation's state is not the one the specification (%s) prescribes\n  implementation: %s\n  specification:  %s", len(h.Ops), op.Human(), h.SpecTheorem, rd, md))
		return
	}
	if rd != md {
		h.fail("broken-correspondence", fmt.Sprintf("after %d ops, %q: state differs\n  implementation: %s\n  model:          %s", len(h.Ops), op.Human(), rd, md))
		return
	}
	if h.OnStep != nil && !h.Failed {
		h.OnStep(h, op, real, model)
	}
}

func expNotes(m string) string {
	// model: "ok 1 2 3" or "ok ." -> "ok X:1 X:2 X:3"
	f := strings.Fields(m)
	if len(f) == 0 || f[0] != "ok" {
		return m
	}
	o := []string{"ok"}
	for _, n := range f[1:] {
		if n != "." {
			o = append(o, "X:"+n)
		}
	}
	return strings.Join(o, " ")
}

var reStatus = regexp.MustCompile(`^\* STATUS (.*) \(([^()]*)\)$`)

// RealDump observes every mailbox over IMAP in a second session: LIST, STATUS, EXAMINE + UID FETCH 1:*.
func (h *H) RealDump() []BoxD {
	var out []BoxD
	// the mailbox this session has had selected since before the last operation: what STATUS says about it now must be what a
	// fresh look finds (a session's own selection must not make its STATUS stale)
	held, heldLine := h.heldSel, ""
	if held != "" {
		for _, l := range h.O.Cmd("STATUS " + held + " (MESSAGES UIDNEXT UIDVALIDITY UNSEEN)").Untagged {
			if m := reStatus.FindStringSubmatch(l); m != nil {
				heldLine = m[2]
			}
		}
	}
	ls := h.O.Cmd(`LIST "" "*"`)
	var names []string
	for _, l := range ls.Untagged {
		if strings.HasPrefix(l, "* LIST") {
			if strings.Contains(l, `"/" `) {
				names = append(names, world.ListName(l))
			}
		}
	}
	for _, n := range names {
		b := BoxD{Name: n}
		st := h.O.Cmd("STATUS " + n + " (MESSAGES UIDNEXT UIDVALIDITY UNSEEN)")
		for _, l := range st.Untagged {
			if m := reStatus.FindStringSubmatch(l); m != nil {
				f := strings.Fields(m[2])
				for i := 0; i+1 < len(f); i += 2 {
					v, _ := strconv.ParseInt(f[i+1], 10, 64)
					switch f[i] {
					case "MESSAGES":
						b.Messages = int(v)
					case "UIDNEXT":
						b.Next = int(v)
					case "UIDVALIDITY":
						b.Validity = v
					case "UNSEEN":
						b.Unseen = int(v)
					}
				}
			}
		}
		if h.O.Cmd("EXAMINE " + n).OK() {
			r := h.O.Cmd("UID FETCH 1:* (FLAGS BODY.PEEK[HEADER.FIELDS (SUBJECT)])")
			for _, l := range r.Untagged {
				if !strings.Contains(l, " FETCH (") {
					continue
				}
				var ld LinkD
				if x := reUID.FindStringSubmatch(l); x != nil {
					ld.UID, _ = strconv.Atoi(x[1])
				}
				if f := reFlags.FindStringSubmatch(l); f != nil {
					ld.Flags = strings.Fields(f[1])
				}
				ld.Msg = -1
				if s := reSubj.FindStringSubmatch(l); s != nil {
					ld.Msg, _ = strconv.Atoi(s[1])
				}
				b.Links = append(b.Links, ld)
			}
		}
		out = append(out, b)
	}
	if heldLine != "" {
		for _, b := range out {
			if b.Name != held {
				continue
			}
			fresh := fmt.Sprintf("MESSAGES %d UIDNEXT %d UIDVALIDITY %d UNSEEN %d", b.Messages, b.Next, b.Validity, b.Unseen)
			if heldLine != fresh {
				h.fail("impl-violation", fmt.Sprintf("STATUS of %q in the session that has had it selected since before the last operation says (%s); the same session, asked while another mailbox is selected, says (%s)", held, heldLine, fresh))
			}
			h.Rep.Hit("status-while-selected")
		}
	}
	// leave another mailbox selected for the next round
	h.heldSel = ""
	if len(names) > 0 {
		n := names[h.dumpN%len(names)]
		h.dumpN++
		if h.O.Cmd("EXAMINE " + n).OK() {
			h.heldSel = n
		}
	}
	return out
}

var reBox = regexp.MustCompile(`^box (\S+) inc=(\d+) next=(\d+) \[(.*)\]$`)

func (h *H) ModelDump() []BoxD {
	d, _ := h.M.Ask("m.dump")
	var out []BoxD
	for _, part := range strings.Split(d, " | ") {
		m := reBox.FindStringSubmatch(strings.TrimSpace(part))
		if m == nil {
			continue
		}
		b := BoxD{Name: hx.UnH(m[1])}
		b.Inc, _ = strconv.Atoi(m[2])
		b.Next, _ = strconv.Atoi(m[3])
		if m[4] != "" {
			for _, ls := range strings.Split(m[4], ";") {
				p := strings.SplitN(ls, ":", 3)
				var ld LinkD
				ld.UID, _ = strconv.Atoi(p[0])
				ld.Msg, _ = strconv.Atoi(p[1])
				if len(p) > 2 && p[2] != "" {
					for _, f := range strings.Split(p[2], ",") {
						ld.Flags = append(ld.Flags, hx.UnH(f))
					}
				}
				b.Links = append(b.Links, ld)
			}
		}
		out = append(out, b)
	}
	return out
}

// ---------- C03 oracle on the real observations ----------

func (h *H) checkAppendUID(box, validity, uid string, msg int) {
	// evaluated after the op's dump: remember and check in oracle
	h.pendingAppend = &appendUID{box, validity, uid, msg}
}

type appendUID struct {
	box, validity, uid string
	msg                int
}

func (h *H) oracle(op Op, real, model []BoxD) {
	incByName := map[string]int{}
	for _, b := range model {
		incByName[b.Name] = b.Inc
	}
	for _, b := range real {
		key := fmt.Sprintf("%s|%d", b.Name, b.Validity)
		// validity freshness: one (name, validity) pair, one incarnation
		if inc, ok := h.incOf[key]; ok && inc != incByName[b.Name] && h.SkipValidity {
			delete(h.incOf, key)
			delete(h.seenUID, key)
			delete(h.maxUID, key)
			delete(h.lastNext, key)
		} else if ok && inc != incByName[b.Name] {
			what := fmt.Sprintf("mailbox %q denotes a different set of messages (incarnation %d, was %d) under the same UIDVALIDITY %d", b.Name, incByName[b.Name], inc, b.Validity)
			// (finding C03-F1 until repair 090198b: creations within one clock second got the same value from the clock)
			h.Rep.Violate("impl-violation", "UIDVALIDITY never used with that name before (Props.C03.validity_fresh)", what, h.replay())
			delete(h.incOf, key) // treat as new incarnation from here on
			delete(h.seenUID, key)
			delete(h.maxUID, key)
			delete(h.lastNext, key)
		}
		h.incOf[key] = incByName[b.Name]
		if h.seenUID[key] == nil {
			h.seenUID[key] = map[int]int{}
		}
		prev := -1
		for _, l := range b.Links {
			if l.UID <= prev {
				h.fail("impl-violation", fmt.Sprintf("mailbox %q is not listed in strictly ascending UID order: %d after %d", b.Name, l.UID, prev))
			}
			prev = l.UID
			if m, ok := h.seenUID[key][l.UID]; ok {
				if m != l.Msg {
					h.fail("impl-violation", fmt.Sprintf("UID %d of %q (UIDVALIDITY %d) was given to message m%d and is now message m%d: UID reused", l.UID, b.Name, b.Validity, m, l.Msg))
				}
			} else {
				if l.UID <= h.maxUID[key] {
					h.fail("impl-violation", fmt.Sprintf("message m%d was added to %q with UID %d, not greater than UID %d assigned there before", l.Msg, b.Name, l.UID, h.maxUID[key]))
				}
				h.seenUID[key][l.UID] = l.Msg
			}
			if l.UID > h.maxUID[key] {
				h.maxUID[key] = l.UID
			}
			if l.UID >= b.Next {
				h.fail("impl-violation", fmt.Sprintf("%q advertises UIDNEXT %d while UID %d exists", b.Name, b.Next, l.UID))
			}
		}
		if b.Next < h.lastNext[key] {
			h.fail("impl-violation", fmt.Sprintf("UIDNEXT of %q decreased from %d to %d", b.Name, h.lastNext[key], b.Next))
		}
		h.lastNext[key] = b.Next
		if b.Messages != len(b.Links) {
			h.fail("impl-violation", fmt.Sprintf("STATUS %q MESSAGES %d but UID FETCH 1:* lists %d", b.Name, b.Messages, len(b.Links)))
		}
	}
	if p := h.pendingAppend; p != nil {
		h.pendingAppend = nil
		ok := false
		for _, b := range real {
			if b.Name == p.box {
				if fmt.Sprint(b.Validity) != p.validity {
					h.fail("impl-violation", fmt.Sprintf("APPENDUID announced UIDVALIDITY %s but %q has %d", p.validity, p.box, b.Validity))
				}
				for _, l := range b.Links {
					if fmt.Sprint(l.UID) == p.uid && l.Msg == p.msg {
						ok = true
					}
				}
			}
		}
		if !ok {
			h.fail("impl-violation", fmt.Sprintf("APPENDUID announced UID %s for message m%d in %q but the message is not found under that UID", p.uid, p.msg, p.box))
		}
	}
}

// ---------- running, shrinking, replaying whole histories ----------

type Env struct {
	W            *world.World
	Driver       string
	Rep          *hx.Report
	Stream       string
	nUser        int
	OnStep       func(h *H, op Op, real, model []BoxD)
	SpecTheorem  string
	SkipValidity bool
}

// Run executes ops on a fresh user/store and a fresh model; it returns the history (Failed tells the verdict).
func (e *Env) Run(ops []Op, rep *hx.Report) *H {
	e.nUser++
	m, err := hx.StartModel(e.Driver)
	if err != nil {
		rep.Violate("broken-correspondence", "driver", err.Error(), nil)
		return &H{Failed: true}
	}
	defer m.Close()
	h := New(e.W, m, rep, fmt.Sprintf("u%d@example.com", e.nUser), e.Stream)
	h.OnStep = e.OnStep
	h.SpecTheorem = e.SpecTheorem
	h.SkipValidity = e.SkipValidity
	defer h.Close()
	for _, op := range ops {
		h.Do(op)
		if h.Failed {
			break
		}
	}
	return h
}

// RunShrunk runs ops; on failure it shrinks the history (greedy one-op removal) and records the minimal one.
func (e *Env) RunShrunk(ops []Op) bool {
	probe := hx.NewSilentReport(e.Rep)
	h := e.Run(ops, probe)
	e.Rep.Merge(probe)
	if !h.Failed && len(probe.Violations) == 0 {
		return true
	}
	cur := append([]Op(nil), h.Ops...)
	kind := ""
	if len(probe.Violations) > 0 {
		kind = probe.Violations[0].Kind
	}
	for i := len(cur) - 2; i >= 0 && len(cur) > 1; i-- {
		cand := append(append([]Op(nil), cur[:i]...), cur[i+1:]...)
		p2 := hx.NewSilentReport(e.Rep)
		h2 := e.Run(cand, p2)
		if (h2.Failed || len(p2.Violations) > 0) && len(p2.Violations) > 0 && p2.Violations[0].Kind == kind {
			cur = h2.Ops
			probe = p2
			if i > len(cur)-1 {
				i = len(cur) - 1
			}
		}
	}
	for _, v := range probe.Violations {
		e.Rep.Violate(v.Kind, v.Stream, v.What, v.Replay)
	}
	return false
}

// SplitHistories splits replay/corpus lines at "newhist".
func SplitHistories(lines []string) [][]Op {
	var out [][]Op
	var cur []Op
	for _, l := range lines {
		if l == "newhist" {
			if cur != nil {
				out = append(out, cur)
			}
			cur = []Op{}
			continue
		}
		cur = append(cur, ParseOp(l))
	}
	if cur != nil {
		out = append(out, cur)
	}
	return out
}
