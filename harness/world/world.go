// Package world runs the real raven services in-process on in-memory connections: the IMAP server
// (server.HandleConnection), LMTP sessions (lmtp.NewSession(...).Handle()), on one data directory,
// with a scripted recording authentication backend.
package world

import (
	"bufio"
	"fmt"
	"io"
	"net"
	"net/http"
	"net/http/httptest"
	"os"
	"strconv"
	"strings"
	"sync"
	"time"

	"raven/internal/db"
	"raven/internal/delivery/config"
	"raven/internal/delivery/lmtp"
	"raven/internal/delivery/storage"
	"raven/internal/server"
)

type tlsPipe struct{ net.Conn }

func (tlsPipe) IsTLS() bool { return true }

// Backend is the recording authentication backend. Script(n) decides the n-th answer.
type Backend struct {
	mu     sync.Mutex
	Srv    *httptest.Server
	Bodies []string
	Script func(n int, body string) (status int, delay time.Duration, garbage bool)
}

func NewBackend() *Backend {
	b := &Backend{}
	b.Srv = httptest.NewServer(http.HandlerFunc(func(w http.ResponseWriter, r *http.Request) {
		body, _ := io.ReadAll(r.Body)
		b.mu.Lock()
		n := len(b.Bodies)
		b.Bodies = append(b.Bodies, string(body))
		sc := b.Script
		b.mu.Unlock()
		status, delay, garbage := 200, time.Duration(0), false
		if sc != nil {
			status, delay, garbage = sc(n, string(body))
		}
		if delay > 0 {
			time.Sleep(delay)
		}
		if garbage {
			hj, ok := w.(http.Hijacker)
			if ok {
				c, _, _ := hj.Hijack()
				c.Write([]byte("\x00\x01garbage not http\r\n\r\n"))
				c.Close()
				return
			}
		}
		w.WriteHeader(status)
	}))
	return b
}
func (b *Backend) Take() []string {
	b.mu.Lock()
	defer b.mu.Unlock()
	o := b.Bodies
	b.Bodies = nil
	return o
}

type World struct {
	Dir     string
	Mgr     *db.DBManager
	Srv     *server.IMAPServer
	Stor    *storage.Storage
	LCfg    *config.Config
	Backend *Backend
	Panics  []string
	// NoRecover: serve IMAP connections exactly as cmd/server does (`go srv.HandleConnection(conn)`), without the harness-side
	// recover, so that a panic that escapes the connection root ends the process (C12 runs this in a child process)
	NoRecover bool
	mu        sync.Mutex
}

// New creates a world in dir (the process must already have chdir'ed into a private work dir: the IMAP
// side reads ./config/raven.yaml relative to the current directory).
func New(dir, domain string) (*World, error) {
	w := &World{Dir: dir}
	w.Backend = NewBackend()
	os.MkdirAll("config", 0755)
	if err := os.WriteFile("config/raven.yaml", []byte(fmt.Sprintf("domain: %q\nauth_server_url: %q\n", domain, w.Backend.Srv.URL)), 0644); err != nil {
		return nil, err
	}
	mgr, err := db.NewDBManager(dir + "/data")
	if err != nil {
		return nil, err
	}
	w.Mgr = mgr
	w.Srv = server.NewIMAPServer(mgr)
	w.Stor = storage.NewStorage(mgr)
	w.LCfg = config.DefaultConfig()
	return w, nil
}

// Reopen gives a second, independent view of the same data directory: its own database manager, IMAP server and storage, as
// a restarted (or a second) service process has them. The authentication backend and configuration are shared.
func (w *World) Reopen() (*World, error) {
	mgr, err := db.NewDBManager(w.Dir + "/data")
	if err != nil {
		return nil, err
	}
	return &World{Dir: w.Dir, Mgr: mgr, Srv: server.NewIMAPServer(mgr), Stor: storage.NewStorage(mgr), LCfg: w.LCfg, Backend: w.Backend}, nil
}

func (w *World) Close() {
	w.Backend.Srv.Close()
	w.Mgr.Close()
}

// ---------- IMAP client ----------

type Client struct {
	C    net.Conn
	R    *bufio.Reader
	N    int
	W    *World
	Dead bool
	Wait time.Duration
}

// IMAP opens a connection; tls=true marks the connection as TLS-protected (the IsTLS() double the server accepts).
func (w *World) IMAP(tls bool) *Client {
	a, b := net.Pipe()
	var sc net.Conn = a
	if tls {
		sc = tlsPipe{a}
	}
	if w.NoRecover {
		go w.Srv.HandleConnection(sc)
	} else {
		go func() {
			defer func() {
				if r := recover(); r != nil {
					w.mu.Lock()
					w.Panics = append(w.Panics, fmt.Sprint(r))
					w.mu.Unlock()
					a.Close()
				}
			}()
			w.Srv.HandleConnection(sc)
		}()
	}
	cl := &Client{C: b, R: bufio.NewReaderSize(b, 1<<16), W: w, Wait: 5 * time.Second}
	cl.C.SetReadDeadline(time.Now().Add(cl.Wait))
	cl.R.ReadString('\n') // greeting
	return cl
}

func (w *World) TakePanics() []string {
	w.mu.Lock()
	defer w.mu.Unlock()
	p := w.Panics
	w.Panics = nil
	return p
}

// Login authenticates (the backend accepts everything unless scripted otherwise).
func (w *World) Login(user string) *Client {
	c := w.IMAP(true)
	c.Cmd("LOGIN " + user + " pw")
	return c
}

// Resp is one command's response: untagged lines (literals spliced in as raw octets) and the tagged line.
type Resp struct {
	Untagged []string
	Tagged   string // without the tag: "OK ...", "NO ...", "BAD ..."; "" if none arrived
	Raw      string
	Err      string
}

func (r Resp) Status() string {
	f := strings.Fields(r.Tagged)
	if len(f) == 0 {
		return "NONE"
	}
	return f[0]
}
func (r Resp) OK() bool { return r.Status() == "OK" }

// Cmd sends "<tag> <cmd>\r\n" and reads until the tagged completion (or a continuation request).
func (c *Client) Cmd(cmd string) Resp {
	c.N++
	tag := "t" + strconv.Itoa(c.N)
	return c.Send(tag, tag+" "+VaryCase(cmd, c.N)+"\r\n")
}

// VaryCase respells the command word (and the sub-command after UID): command names are case-insensitive (RFC 3501 §9), so
// every third command goes out in lower case and every fifth in mixed case. Arguments are left alone.
func VaryCase(cmd string, n int) string {
	if n%3 != 0 && n%5 != 0 {
		return cmd
	}
	words := 1
	if len(cmd) >= 4 && strings.EqualFold(cmd[:4], "UID ") {
		words = 2
	}
	f := strings.SplitN(cmd, " ", words+1)
	for i := 0; i < words && i < len(f); i++ {
		if n%3 == 0 {
			f[i] = strings.ToLower(f[i])
		} else if len(f[i]) > 1 {
			f[i] = strings.ToUpper(f[i][:1]) + strings.ToLower(f[i][1:])
		}
	}
	return strings.Join(f, " ")
}

// Send writes raw bytes and reads the response for tag.
func (c *Client) Send(tag, raw string) Resp {
	var r Resp
	if c.Dead {
		r.Err = "dead"
		return r
	}
	c.C.SetWriteDeadline(time.Now().Add(c.Wait))
	if _, err := io.WriteString(c.C, raw); err != nil {
		r.Err = "write: " + err.Error()
		// a write that times out means the server is not reading (busy or stuck), not that the connection is gone
		if !strings.Contains(r.Err, "timeout") {
			c.Dead = true
		}
		return r
	}
	return c.ReadResp(tag)
}

// ReadResp reads lines (splicing literals) until "<tag> " or "+ ".
func (c *Client) ReadResp(tag string) Resp {
	var r Resp
	var raw strings.Builder
	for {
		c.C.SetReadDeadline(time.Now().Add(c.Wait))
		line, err := c.readLogical(&raw)
		if err != nil {
			r.Err = err.Error()
			r.Raw = raw.String()
			if !strings.Contains(r.Err, "timeout") {
				c.Dead = true
			}
			return r
		}
		if strings.HasPrefix(line, tag+" ") {
			r.Tagged = strings.TrimPrefix(line, tag+" ")
			r.Raw = raw.String()
			return r
		}
		if strings.HasPrefix(line, "+") {
			r.Tagged = line
			r.Raw = raw.String()
			return r
		}
		r.Untagged = append(r.Untagged, line)
	}
}

// readLogical reads one response line; a line ending in {n} is followed by n literal octets and the rest of the line.
func (c *Client) readLogical(raw *strings.Builder) (string, error) {
	var sb strings.Builder
	for {
		line, err := c.R.ReadString('\n')
		raw.WriteString(line)
		if err != nil {
			return sb.String() + line, err
		}
		t := strings.TrimRight(line, "\r\n")
		sb.WriteString(t)
		if n, ok := literalSuffix(t); ok {
			buf := make([]byte, n)
			if _, err := io.ReadFull(c.R, buf); err != nil {
				raw.Write(buf)
				return sb.String(), err
			}
			raw.Write(buf)
			sb.WriteString("\r\n")
			sb.Write(buf)
			continue
		}
		return sb.String(), nil
	}
}

func literalSuffix(t string) (int, bool) {
	if !strings.HasSuffix(t, "}") {
		return 0, false
	}
	i := strings.LastIndex(t, "{")
	if i < 0 {
		return 0, false
	}
	n, err := strconv.Atoi(t[i+1 : len(t)-1])
	if err != nil || n < 0 || n > 1<<26 {
		return 0, false
	}
	return n, true
}

func (c *Client) Close() { c.C.Close() }

// Append stores a message with a synchronising literal.
func (c *Client) Append(mailbox, flags, msg string) Resp {
	c.N++
	tag := "t" + strconv.Itoa(c.N)
	fl := ""
	if flags != "" {
		fl = " (" + flags + ")"
	}
	r := c.Send(tag, fmt.Sprintf("%s APPEND %s%s {%d}\r\n", tag, mailbox, fl, len(msg)))
	if !strings.HasPrefix(r.Tagged, "+") {
		return r
	}
	return c.Send(tag, msg+"\r\n")
}

// ---------- LMTP ----------

// LMTP feeds script to a fresh real session and returns everything it answered.
func (w *World) LMTP(script string) string {
	return w.LMTPCfg(w.LCfg, script)
}
func (w *World) LMTPCfg(cfg *config.Config, script string) string {
	return w.lmtpWith(w.Stor, cfg, script, 10*time.Second)
}

// DefaultLMTPConfig is the delivery service's default configuration.
func DefaultLMTPConfig() *config.Config { return config.DefaultConfig() }

func (w *World) lmtpWith(stor *storage.Storage, cfg *config.Config, script string, wait time.Duration) string {
	a, b := net.Pipe()
	done := make(chan struct{})
	go func() {
		defer close(done)
		defer a.Close()
		defer func() {
			if r := recover(); r != nil {
				w.mu.Lock()
				w.Panics = append(w.Panics, fmt.Sprint(r))
				w.mu.Unlock()
			}
		}()
		lmtp.NewSession(a, stor, cfg).Handle()
	}()
	go func() { io.WriteString(b, script) }()
	b.SetReadDeadline(time.Now().Add(wait))
	out, _ := io.ReadAll(b)
	b.Close()
	select {
	case <-done:
	case <-time.After(wait):
	}
	return string(out)
}

// Deliver runs one whole transaction and returns the per-recipient reply lines after the final dot.
func (w *World) Deliver(from string, rcpts []string, msg string) (rcptReplies []string, dataReplies []string) {
	return w.DeliverWith(w.Stor, from, rcpts, msg)
}

// DeliverWith is Deliver through a session bound to the given storage (another database manager on the same directory).
// Concurrent writers may have to wait for SQLite's busy timeout, hence the longer patience.
func (w *World) DeliverWith(stor *storage.Storage, from string, rcpts []string, msg string) (rcptReplies []string, dataReplies []string) {
	var sb strings.Builder
	sb.WriteString("LHLO client.test\r\nMAIL FROM:<" + from + ">\r\n")
	for _, r := range rcpts {
		sb.WriteString("RCPT TO:<" + r + ">\r\n")
	}
	sb.WriteString("DATA\r\n")
	sb.WriteString(DotStuff(msg))
	sb.WriteString(".\r\nQUIT\r\n")
	out := w.lmtpWith(stor, w.LCfg, sb.String(), 60*time.Second)
	lines := strings.Split(strings.TrimRight(out, "\r\n"), "\r\n")
	// greeting, LHLO multi-line (250- ... 250 ), MAIL, RCPT*, DATA(354), replies..., QUIT(221)
	i := 0
	next := func() string {
		if i < len(lines) {
			i++
			return lines[i-1]
		}
		return ""
	}
	next() // greeting
	for {
		l := next()
		if l == "" || !strings.HasPrefix(l, "250-") {
			break
		}
	}
	next() // MAIL
	for range rcpts {
		rcptReplies = append(rcptReplies, next())
	}
	d := next() // DATA
	if !strings.HasPrefix(d, "354") {
		dataReplies = append(dataReplies, d)
		return
	}
	for i < len(lines) {
		l := next()
		if strings.HasPrefix(l, "221") {
			break
		}
		dataReplies = append(dataReplies, l)
	}
	return
}

// DotStuff applies SMTP transparency: lines are CRLF-terminated, a leading dot is doubled.
func DotStuff(msg string) string {
	if msg == "" {
		return ""
	}
	if !strings.HasSuffix(msg, "\n") {
		msg += "\r\n"
	}
	lines := strings.SplitAfter(msg, "\n")
	var sb strings.Builder
	for _, l := range lines {
		if strings.HasPrefix(l, ".") {
			sb.WriteString(".")
		}
		sb.WriteString(l)
	}
	return sb.String()
}

// ListName extracts the mailbox name of a `* LIST (attrs) "/" name` / LSUB line, undoing quoted-string escaping.
func ListName(l string) string {
	i := strings.Index(l, `"/" `)
	if i < 0 {
		return l
	}
	return Unquote(strings.TrimSpace(l[i+4:]))
}

// Unquote undoes IMAP quoted-string syntax (atoms are returned as they are).
func Unquote(n string) string {
	if len(n) >= 2 && n[0] == '"' && n[len(n)-1] == '"' {
		n = n[1 : len(n)-1]
		var sb strings.Builder
		for i := 0; i < len(n); i++ {
			if n[i] == '\\' && i+1 < len(n) {
				i++
			}
			sb.WriteByte(n[i])
		}
		return sb.String()
	}
	return n
}
