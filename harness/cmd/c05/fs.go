package main

import "os"

func fsGlob(p string) (bool, error) {
	_, err := os.Stat(p)
	return err == nil, err
}
