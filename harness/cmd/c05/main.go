// C05 correspondence: two users and a role mailbox whose mailbox ids coincide; random command programs by both users
// (personal names, Roles/<own|foreign|missing|malformed>/<name> paths, colliding names), role assignment and
// un-assignment in between; every store is dumped before and after every command and the difference must be confined
// to the store and mailbox the session selected (or, for non-selected commands, to the user's own store); what FETCH and
// SEARCH return must come from the selected mailbox.
package main

import (
	"fmt"
	"hash/crc32"
	"regexp"
	"sort"
	"strconv"
	"strings"

	"raven/internal/db"
	"raven/verifh/hx"
	"raven/verifh/world"
)

var reUID = regexp.MustCompile(`UID (\d+)`)
var reFlags = regexp.MustCompile(`FLAGS \(([^)]*)\)`)
var reSubj = regexp.MustCompile(`(?i)Subject: (\S+)`)

type env struct {
	w            *world.World
	rep          *hx.Report
	roleID, a, b int64
	roleAddr     string
	obs          map[string]*world.Client // observers: "A", "B" personal; "R" via user C (always assigned)
}

func msg(tok string) string {
	return "From: s@example.org\r\nTo: r@example.com\r\nSubject: " + tok + "\r\n\r\nbody " + tok + "\r\n"
}

// dump of one store through an observer: mailbox -> "uid:subject:flags;..."
func (e *env) dump(store string) map[string]string {
	c := e.obs[store]
	prefix := ""
	if store == "R" {
		prefix = "Roles/" + e.roleAddr + "/"
	}
	out := map[string]string{}
	var names []string
	for _, l := range c.Cmd(`LIST "" "*"`).Untagged {
		i := strings.Index(l, `"/" `)
		if i < 0 {
			continue
		}
		n := world.ListName(l)
		if store == "R" {
			if strings.HasPrefix(n, prefix) {
				names = append(names, n)
			}
		} else if !strings.HasPrefix(n, "Roles") {
			names = append(names, n)
		}
	}
	for _, n := range names {
		if !c.Cmd("EXAMINE " + n).OK() {
			out[strings.TrimPrefix(n, prefix)] = "<unselectable>"
			continue
		}
		var ls []string
		for _, l := range c.Cmd("UID FETCH 1:* (FLAGS BODY.PEEK[HEADER.FIELDS (SUBJECT)] BODY.PEEK[TEXT])").Untagged {
			if !strings.Contains(l, " FETCH (") {
				continue
			}
			u, f, s := "", "", ""
			if m := reUID.FindStringSubmatch(l); m != nil {
				u = m[1]
			}
			if m := reFlags.FindStringSubmatch(l); m != nil {
				fl := strings.Fields(m[1])
				sort.Strings(fl)
				f = strings.Join(fl, ",")
			}
			if m := reSubj.FindStringSubmatch(l); m != nil {
				s = m[1]
			}
			// the body too: content of a store is what its messages say, not only which messages there are
			body := ""
			if i := strings.Index(l, "BODY[TEXT] "); i >= 0 {
				body = fmt.Sprintf("%08x/%d", crc32.ChecksumIEEE([]byte(l[i:])), len(l)-i)
			}
			ls = append(ls, u+":"+s+":"+f+":"+body)
		}
		out[strings.TrimPrefix(n, prefix)] = strings.Join(ls, ";")
	}
	return out
}

func diff(a, b map[string]string) []string {
	var d []string
	for k, v := range a {
		if b[k] != v {
			d = append(d, k)
		}
	}
	for k := range b {
		if _, ok := a[k]; !ok {
			d = append(d, k)
		}
	}
	sort.Strings(d)
	return d
}

type step struct {
	actor string // A | B | admin
	cmd   string
}

func (s step) line() string { return "step " + s.actor + " " + hx.H(s.cmd) }

func gen(rng *hx.Rng, n int) []step {
	var out []step
	boxes := []string{"INBOX", "INBOX", "Sent", "Trash", "common", "Roles/sales@example.com/INBOX", "Roles/sales@example.com/INBOX", "Roles/sales@example.com/Sent", "Roles/sales@example.com/common",
		"Roles/other@example.com/INBOX", "Roles/nosuch@example.com/INBOX", "Roles/sales@example.com", "Roles/", "Roles//INBOX", "Roles/sales@example.com/nosuch", "nosuch"}
	set := func() string { return rng.Pick([]string{"1", "1:*", "*", "2", "1:2", "1,2"}) }
	for len(out) < n {
		actor := rng.Pick([]string{"A", "A", "A", "B"})
		switch x := rng.Intn(100); {
		case x < 22:
			out = append(out, step{actor, rng.Pick([]string{"SELECT ", "SELECT ", "EXAMINE "}) + rng.Pick(boxes)})
		case x < 34:
			out = append(out, step{actor, rng.Pick([]string{"STORE ", "UID STORE "}) + set() + " " + rng.Pick([]string{"+FLAGS", "FLAGS", "-FLAGS", "+FLAGS.SILENT"}) + " (" + rng.Pick([]string{`\Deleted`, `\Seen`, "kw", `\Flagged`}) + ")"})
		case x < 42:
			out = append(out, step{actor, rng.Pick([]string{"EXPUNGE", "CLOSE", "EXPUNGE", "UID EXPUNGE 1:*", "CHECK", "NOOP", "UNSELECT"})})
		case x < 52:
			out = append(out, step{actor, rng.Pick([]string{"COPY ", "UID COPY "}) + set() + " " + rng.Pick([]string{"Sent", "common", "INBOX", "Trash", "nosuch"})})
		case x < 64:
			out = append(out, step{actor, rng.Pick([]string{"FETCH ", "UID FETCH "}) + set() + " (UID FLAGS BODY.PEEK[HEADER.FIELDS (SUBJECT)])"})
		case x < 72:
			out = append(out, step{actor, rng.Pick([]string{"SEARCH ALL", "SEARCH SUBJECT tok", "UID SEARCH ALL", "SEARCH UNSEEN", "SEARCH BODY body", "SEARCH LARGER 1", "SEARCH HEADER Subject tok"})})
		case x < 80:
			out = append(out, step{actor, "APPEND " + rng.Pick([]string{"INBOX", "Sent", "common", "Roles/sales@example.com/INBOX"})})
		case x < 86:
			out = append(out, step{actor, rng.Pick([]string{"CREATE ", "DELETE ", "SUBSCRIBE ", "STATUS "}) + rng.Pick([]string{"common", "x", "Roles/sales@example.com/x", "Roles/sales@example.com/INBOX"})})
		case x < 90:
			out = append(out, step{actor, "RENAME " + rng.Pick([]string{"common", "x", "INBOX"}) + " " + rng.Pick([]string{"y", "x", "Roles/sales@example.com/y"})})
		case x < 95:
			out = append(out, step{"admin", rng.Pick([]string{"unassign A", "assign A", "assign A", "deliver R", "deliver A", "deliver B", "deliver AB", "relogin A"})})
		case x < 97:
			// a second LOGIN on the same connection, as the other user or as the same one
			out = append(out, step{actor, "LOGIN " + rng.Pick([]string{"a@example.com", "b@example.com"}) + " pw"})
		default:
			out = append(out, step{actor, rng.Pick([]string{`LIST "" "*"`, `LSUB "" "*"`, "STATUS INBOX (MESSAGES)", "IDLE"})})
		}
	}
	return out
}

var tokN int

type session struct {
	c       *world.Client
	user    string
	ident   string // "A" | "B": whose identity the connection holds (a second LOGIN may change it)
	sel     string // "" or store:mailbox chosen by the last successful SELECT/EXAMINE ("A:INBOX", "R:INBOX")
	selBox  string
	selStor string
}

func main() {
	o, rep := hx.Init("C05")
	hx.Quiet()
	rep.Rule = "command programs by users A and B (3:1) over personal mailboxes and Roles/<own|foreign|missing|malformed>/<name> paths with names that collide between stores (INBOX, Sent, common), with role assignment / un-assignment, re-login and deliveries in between; before and after every command all three stores (A, B, role R) are dumped through independent observer sessions; the difference must be confined to the selected (store, mailbox) — COPY: plus the destination in the same store — or, outside the selected state, to the actor's own store; FETCH/SEARCH results must come from the selected mailbox. Distinct by program; non-trivial when a role mailbox was selected at least once"
	dir, cleanup := hx.WorkDir("c05")
	defer cleanup()
	w, err := world.New(dir, "example.com")
	if err != nil {
		rep.Violate("broken-correspondence", "world", err.Error(), nil)
		rep.Finish()
	}
	defer w.Close()
	var progs [][]step
	if o.Replay != "" {
		progs = parse(hx.ReadLines(o.Replay))
	} else {
		progs = parse(hx.ReadLines(o.Corpus + "/programs.ops"))
		rng := hx.NewRng(o.Seed)
		n, ml := 120, 16
		if o.Thorough {
			n, ml = 2500, 40
		}
		for i := 0; i < n; i++ {
			progs = append(progs, gen(rng.Fork(), 5+rng.Intn(ml-4)))
		}
	}
	for pi, prog := range progs {
		if len(rep.Violations) > 0 {
			break
		}
		runProg(rep, w, prog, pi)
	}
	rep.Finish()
}

func parse(ls []string) [][]step {
	var out [][]step
	var cur []step
	for _, l := range ls {
		f := strings.Fields(l)
		if f[0] == "newprog" {
			if cur != nil {
				out = append(out, cur)
			}
			cur = []step{}
		} else if f[0] == "step" && len(f) == 3 {
			cur = append(cur, step{f[1], hx.UnH(f[2])})
		}
	}
	if cur != nil {
		out = append(out, cur)
	}
	return out
}

// lookalike: a personal address that is a LIKE pattern of a role address (`_`, `%`) is somebody else: its mail goes to its own
// store and the holder of the role never sees it
func lookalike(rep *hx.Report, w *world.World, pi int, holder string, roleAddr string) {
	at := strings.Index(roleAddr, "@")
	for _, personal := range []string{roleAddr[:at-1] + "_" + roleAddr[at:], roleAddr[:2] + "%" + roleAddr[at:],
		// personal addresses that decorate the role's: a sub-address, a dot, another letter case, a longer local part
		roleAddr[:at] + "+eu" + roleAddr[at:], roleAddr[:at] + "+" + roleAddr[at:], roleAddr[:at] + ".eu" + roleAddr[at:], roleAddr[:at] + "x" + roleAddr[at:]} {
		tok := fmt.Sprintf("PRIVATE-%d-%s", pi, hx.H(personal)[:8])
		rep.Case("lookalike|"+personal, true)
		_, data := w.Deliver("s@example.org", []string{personal}, msg(tok))
		if len(data) != 1 || !strings.HasPrefix(data[0], "250") {
			continue // refused: nothing was filed anywhere
		}
		sees := func(user, box string) bool {
			c := w.Login(user)
			defer c.Close()
			if !c.Cmd("EXAMINE " + box).OK() {
				return false
			}
			for _, l := range c.Cmd("FETCH 1:* (BODY.PEEK[HEADER.FIELDS (SUBJECT)])").Untagged {
				if strings.Contains(l, tok) {
					return true
				}
			}
			return false
		}
		replay := []string{"lookalike " + hx.H(personal)}
		if sees(holder, "Roles/"+roleAddr+"/INBOX") {
			rep.Violate("impl-violation", "only its own stores", fmt.Sprintf("mail for the personal address %s was filed in the role mailbox %s: its holder %s reads %q", personal, roleAddr, holder, tok), replay)
		} else if !sees(personal, "INBOX") {
			rep.Violate("impl-violation", "only its own stores", fmt.Sprintf("mail for %s was accepted and is not in that user's INBOX", personal), replay)
		} else {
			rep.Hit("lookalike:own-store")
		}
	}
}

func runProg(rep *hx.Report, w *world.World, prog []step, pi int) {
	// fresh users and role per program: a<pi>, b<pi>, observer c<pi>, role sales<pi> — the command texts say "sales@example.com"
	// and are rewritten to this program's role address
	ua, ub, uc := fmt.Sprintf("a%d@example.com", pi), fmt.Sprintf("b%d@example.com", pi), fmt.Sprintf("c%d@example.com", pi)
	roleAddr := fmt.Sprintf("sales%d@example.com", pi)
	otherAddr := fmt.Sprintf("other%d@example.com", pi)
	shared := w.Mgr.GetSharedDB()
	for _, u := range []string{ua, ub, uc} {
		c := w.Login(u)
		c.Cmd("CREATE common")
		c.Close()
	}
	domID, _ := db.GetOrCreateDomain(shared, "example.com")
	roleID, err := db.CreateRoleMailbox(shared, roleAddr, domID, "")
	if err != nil {
		rep.Violate("broken-correspondence", "world", err.Error(), nil)
		return
	}
	otherID, _ := db.CreateRoleMailbox(shared, otherAddr, domID, "") // a role nobody in the program is assigned to (B is)
	ida, _ := db.GetUserByEmail(shared, ua)
	idb, _ := db.GetUserByEmail(shared, ub)
	idc, _ := db.GetUserByEmail(shared, uc)
	db.AssignUserToRoleMailbox(shared, idc, roleID, idc)
	db.AssignUserToRoleMailbox(shared, idb, otherID, idb)
	assignedA := true
	rw := func(s string) string {
		s = strings.ReplaceAll(s, "LOGIN a@example.com", "LOGIN "+ua)
		s = strings.ReplaceAll(s, "LOGIN b@example.com", "LOGIN "+ub)
		s = strings.ReplaceAll(s, "sales@example.com", roleAddr)
		return strings.ReplaceAll(s, "other@example.com", otherAddr)
	}
	e := &env{w: w, rep: rep, roleID: roleID, roleAddr: roleAddr, obs: map[string]*world.Client{}}
	e.obs["A"] = w.Login(ua)
	e.obs["B"] = w.Login(ub)
	e.obs["R"] = w.Login(uc) // logs in while assigned, so that LIST shows the role mailboxes
	db.AssignUserToRoleMailbox(shared, ida, roleID, ida)
	defer func() {
		for _, c := range e.obs {
			c.Close()
		}
	}()
	if pi < 6 {
		lookalike(rep, w, pi, ua, roleAddr)
	}
	// seed content: every store has INBOX message(s) with the same UIDs, and a mailbox "common"
	deliver := func(addr, store string) {
		tokN++
		w.Deliver("s@example.org", []string{addr}, msg(fmt.Sprintf("tok-%s-%d", store, tokN)))
	}
	for i := 0; i < 2; i++ {
		deliver(ua, "A")
		deliver(ub, "B")
		deliver(roleAddr, "R")
	}
	// the role store needs "common" too: created by the observer through a role selection is not possible, so deliver with a default folder
	sess := map[string]*session{"A": {c: w.Login(ua), user: ua, ident: "A"}, "B": {c: w.Login(ub), user: ub, ident: "B"}}
	defer func() {
		for _, s := range sess {
			s.c.Close()
		}
	}()
	roleSelected := false
	var done []step
	replay := func() []string {
		r := []string{"newprog"}
		for _, s := range done {
			r = append(r, s.line())
		}
		return r
	}
	dumpAll := func() map[string]map[string]string {
		// a role mailbox has one active assignee: the observer borrows the assignment for the dump and hands it back
		db.AssignUserToRoleMailbox(shared, idc, roleID, idc)
		r := e.dump("R")
		if assignedA {
			db.AssignUserToRoleMailbox(shared, ida, roleID, ida)
		} else {
			db.UnassignUserFromRoleMailbox(shared, idc, roleID)
		}
		return map[string]map[string]string{"A": e.dump("A"), "B": e.dump("B"), "R": r}
	}
	before := dumpAll()
	for _, st := range prog {
		done = append(done, st)
		rep.Hit("actor:" + st.actor)
		if st.actor == "admin" {
			switch st.cmd {
			case "unassign A":
				db.UnassignUserFromRoleMailbox(shared, ida, roleID)
				assignedA = false
			case "assign A":
				db.AssignUserToRoleMailbox(shared, ida, roleID, ida)
				assignedA = true
			case "deliver R":
				deliver(roleAddr, "R")
			case "deliver A":
				deliver(ua, "A")
			case "deliver B":
				deliver(ub, "B")
			case "deliver AB":
				// one message for both: its large part is kept once in the shared blob table, for two stores
				tokN++
				tok := fmt.Sprintf("tok-AB-%d", tokN)
				w.Deliver("s@example.org", []string{ua, ub}, "From: s@example.org\r\nTo: r@example.com\r\nSubject: "+tok+"\r\n\r\n"+strings.Repeat("shared text of "+tok+" kept out of line\r\n", 40))
			case "relogin A":
				sess["A"].c.Close()
				sess["A"] = &session{c: w.Login(ua), user: ua, ident: "A"}
			}
			before = dumpAll()
			continue
		}
		s := sess[st.actor]
		cmd := rw(st.cmd)
		verb := strings.ToUpper(strings.Fields(cmd)[0])
		var r world.Resp
		switch verb {
		case "APPEND":
			tokN++
			box := strings.Fields(cmd)[1]
			r = s.c.Append(box, "", msg(fmt.Sprintf("tok-app-%d", tokN)))
		case "IDLE":
			s.c.N++
			tag := fmt.Sprintf("t%d", s.c.N)
			r = s.c.Send(tag, tag+" IDLE\r\n")
			if strings.HasPrefix(r.Tagged, "+") {
				r = s.c.Send(tag, "DONE\r\n")
			}
		default:
			r = s.c.Cmd(cmd)
		}
		rep.Hit("cmd:" + verb + ":" + r.Status())
		if verb == "LOGIN" && r.OK() {
			// the connection now holds the identity it logged in with, and that identity has selected nothing
			s.ident = map[bool]string{true: "A", false: "B"}[strings.Contains(cmd, ua)]
			s.selStor, s.selBox = "", ""
			rep.Hit("second-login:accepted")
		}
		own := s.ident
		// track the selection exactly as the property defines it: the last *successful* SELECT/EXAMINE
		if verb == "SELECT" || verb == "EXAMINE" {
			path := strings.Fields(cmd)[1]
			if r.OK() {
				if strings.HasPrefix(path, "Roles/"+roleAddr+"/") {
					s.selStor, s.selBox = "R", strings.TrimPrefix(path, "Roles/"+roleAddr+"/")
					roleSelected = true
					if own == "B" || (own == "A" && !assignedA) {
						rep.Violate("impl-violation", "authorisation", fmt.Sprintf("user %s selected %s without being assigned to the role mailbox", own, path), replay())
						return
					}
				} else if strings.HasPrefix(path, "Roles/") {
					if !(own == "B" && strings.HasPrefix(path, "Roles/"+otherAddr+"/")) {
						rep.Violate("impl-violation", "authorisation", fmt.Sprintf("user %s selected %s, a role mailbox it is not assigned to / that does not exist", own, path), replay())
						return
					}
					s.selStor, s.selBox = "other", path
				} else {
					s.selStor, s.selBox = own, path
					if strings.EqualFold(path, "INBOX") {
						s.selBox = "INBOX"
					}
				}
			} else {
				s.selStor, s.selBox = "", "" // a failed SELECT leaves nothing selected
			}
		}
		if (verb == "CLOSE" || verb == "UNSELECT") && r.OK() {
			defer func() {}()
		}
		after := dumpAll()
		// ---- frame ----
		allowed := map[string]map[string]bool{"A": {}, "B": {}, "R": {}}
		selectedState := map[string]bool{"STORE": true, "EXPUNGE": true, "CLOSE": true, "COPY": true, "UID": true, "FETCH": true, "SEARCH": true, "CHECK": true, "NOOP": true, "IDLE": true, "UNSELECT": true}
		if selectedState[verb] {
			if s.selStor != "" && s.selStor != "other" {
				allowed[s.selStor][s.selBox] = true
				if verb == "COPY" || (verb == "UID" && strings.Contains(strings.ToUpper(cmd), "UID COPY")) {
					f := strings.Fields(cmd)
					allowed[s.selStor][f[len(f)-1]] = true
				}
			}
		} else {
			// not a selected-state command: the actor's own store only (any mailbox)
			allowed[own]["*"] = true
		}
		for _, store := range []string{"A", "B", "R"} {
			for _, box := range diff(before[store], after[store]) {
				if allowed[store]["*"] || allowed[store][box] {
					continue
				}
				selDesc := "nothing selected"
				if s.selStor != "" {
					selDesc = "selected " + s.selStor + ":" + s.selBox
				}
				rep.Violate("impl-violation", "frame (Props.C05.selected_state_uses_selected_store / frame)",
					fmt.Sprintf("user %s (%s) sent %q -> %s and mailbox %q of store %s changed:\n  before: %s\n  after:  %s", own, selDesc, cmd, r.Status(), box, store, before[store][box], after[store][box]), replay())
				return
			}
		}
		// ---- an acknowledged change of the selected role mailbox really is in the role store ----
		if verb == "STORE" && r.OK() && s.selStor == "R" && strings.Contains(cmd, "+FLAGS (kw)") && before["R"][s.selBox] != "" && strings.HasPrefix(strings.Fields(cmd)[1], "1") {
			if !strings.Contains(after["R"][s.selBox], "kw") {
				rep.Violate("impl-violation", "effect in the selected store", fmt.Sprintf("user %s selected R:%s, %q answered OK but the role mailbox shows %s", st.actor, s.selBox, cmd, after["R"][s.selBox]), replay())
				return
			}
		}
		// ---- reveal: an identity that has selected nothing is shown no message ----
		if (verb == "FETCH" || verb == "SEARCH" || verb == "UID") && s.selStor == "" {
			for _, l := range r.Untagged {
				if strings.Contains(l, " FETCH (") || (strings.HasPrefix(l, "* SEARCH") && len(strings.Fields(l)) > 2) {
					rep.Violate("impl-violation", "reveal", fmt.Sprintf("user %s has selected nothing (connection of %s) and %q -> %s returned %q", own, st.actor, cmd, r.Status(), l), replay())
					return
				}
			}
		}
		// ---- reveal: FETCH / SEARCH answers come from the selected mailbox ----
		if (verb == "FETCH" || (verb == "UID" && strings.Contains(cmd, "UID FETCH"))) && r.OK() && s.selStor != "" && s.selStor != "other" {
			content, observable := before[s.selStor][s.selBox]
			if !observable && s.selStor != "R" {
				// a personal mailbox that was renamed to a name under "Roles/…" while selected: the session keeps it selected (by
				// id), but no name reaches it any more — the observer's EXAMINE of that name goes to the role path. What it
				// answers cannot be compared with a dump; it must at least not come out of somebody else's store.
				for _, l := range r.Untagged {
					if m := reSubj.FindStringSubmatch(l); m != nil {
						for other, boxes := range before {
							if other == s.selStor {
								continue
							}
							for bn, c := range boxes {
								if strings.Contains(c, ":"+m[1]+":") {
									rep.Violate("impl-violation", "reveal", fmt.Sprintf("user %s (selected its own mailbox now named %s) %q returned message %q, which is in mailbox %s of store %s", st.actor, s.selBox, cmd, m[1], bn, other), replay())
									return
								}
							}
						}
					}
				}
				rep.Hit("reveal-unobservable-selection")
			} else {
				for _, l := range r.Untagged {
					if m := reSubj.FindStringSubmatch(l); m != nil && !strings.Contains(content, ":"+m[1]+":") {
						rep.Violate("impl-violation", "reveal", fmt.Sprintf("user %s (selected %s:%s) %q returned message %q which is not in the selected mailbox (%s)", st.actor, s.selStor, s.selBox, cmd, m[1], content), replay())
						return
					}
				}
				rep.Hit("reveal-checked")
			}
		}
		if verb == "SEARCH" && r.OK() && s.selStor != "" && s.selStor != "other" {
			n := 0
			c, observable := before[s.selStor][s.selBox]
			if c != "" {
				n = len(strings.Split(c, ";"))
			}
			for _, l := range r.Untagged {
				if !observable && s.selStor != "R" {
					break // a personal mailbox under a "Roles/…" name: not reachable by name, see the FETCH case above
				}
				if strings.HasPrefix(l, "* SEARCH") {
					for _, x := range strings.Fields(l)[2:] {
						k, _ := strconv.Atoi(x)
						if k < 1 || k > n {
							rep.Violate("impl-violation", "reveal", fmt.Sprintf("user %s (selected %s:%s, %d messages) %q returned %s", st.actor, s.selStor, s.selBox, n, cmd, l), replay())
							return
						}
					}
				}
			}
			// searching must not create stores as a side effect
			if _, err := shared.Exec("SELECT 1"); err == nil {
				if exists(w.Dir + "/data/user_db_0.db") {
					rep.Violate("impl-violation", "foreign store", fmt.Sprintf("%q opened (created) the store of user id 0", cmd), replay())
					return
				}
			}
		}
		if (verb == "CLOSE" || verb == "UNSELECT") && r.OK() {
			s.selStor, s.selBox = "", ""
		}
		// the selection is a mailbox, not a name: follow successful renames, drop deleted mailboxes
		if verb == "RENAME" && r.OK() {
			f := strings.Fields(cmd)
			if len(f) == 3 && !strings.EqualFold(f[1], "INBOX") {
				for _, x := range sess {
					if x.selStor == own && (x.selBox == f[1] || strings.HasPrefix(x.selBox, f[1]+"/")) {
						x.selBox = f[2] + strings.TrimPrefix(x.selBox, f[1])
					}
				}
			}
		}
		if verb == "DELETE" && r.OK() {
			f := strings.Fields(cmd)
			for _, x := range sess {
				if len(f) == 2 && x.selStor == own && x.selBox == f[1] {
					x.selStor, x.selBox = "other", "deleted"
				}
			}
		}
		before = after
	}
	var key strings.Builder
	for _, st := range prog {
		key.WriteString(st.line() + ";")
	}
	rep.Case(key.String(), roleSelected)
	if pi < 2 {
		var hs []string
		for _, st := range prog {
			hs = append(hs, st.actor+": "+st.cmd)
		}
		rep.Sample(strings.Join(hs, " ; "))
	}
}

func exists(p string) bool {
	matches, _ := fsGlob(p)
	return matches
}
