// C10 correspondence: CalculateNewFlags (both copies) against the Lean set algebra; histories of STORE / UID STORE x
// {FLAGS,+FLAGS,-FLAGS} x {.SILENT}, COPY, APPEND with flags, EXAMINE + mutating commands, observed by a second session;
// flag-derived observations (STATUS UNSEEN, SELECT [UNSEEN n], SEARCH by flag) against token membership.
package main

import (
	"fmt"
	"regexp"
	"sort"
	"strconv"
	"strings"

	"raven/internal/server/message"
	"raven/internal/server/utils"
	"raven/verifh/hist"
	"raven/verifh/hx"
	"raven/verifh/world"
)

// substring-related keywords on purpose: \Seenish ⊃ \Seen, \Deletedx ⊃ \Deleted, $NotJunk ⊃ Junk, NonJunkX …
var alphabet = []string{`\Seen`, `\Answered`, `\Flagged`, `\Deleted`, `\Draft`, `\Recent`, `\Seenish`, `\Deletedx`, "kw", "kw2", "$NotJunk", "$Forwarded", "Seen", "Flag", "Junk", "NonJunk"}

func pickFlags(rng *hx.Rng, max int) []string {
	n := rng.Intn(max + 1)
	var fl []string
	for i := 0; i < n; i++ {
		fl = append(fl, rng.Pick(alphabet))
	}
	return fl
}

func setOf(s string) string {
	f := strings.Fields(s)
	m := map[string]bool{}
	for _, x := range f {
		m[x] = true
	}
	var o []string
	for x := range m {
		o = append(o, x)
	}
	sort.Strings(o)
	return hx.HList(o)
}

func main() {
	o, rep := hx.Init("C10")
	hx.Quiet()
	rep.Rule = "pure: CalculateNewFlags (message and utils copies) on random current/new flag lists from a 16-flag alphabet (incl. the Junk / NonJunk keywords that trigger server-side moves) with substring-related keywords, three modes, compared as sets with the Lean algebra; histories: STORE/UID STORE in all modes and .SILENT, COPY, APPEND with flags, EXAMINE followed by mutating commands, every op's result and the state seen by a second session compared with the model, plus STATUS UNSEEN / [UNSEEN n] / SEARCH SEEN,UNSEEN,DELETED,KEYWORD against token membership of the observed flag sets. Distinct by op text; a history is non-trivial when it contains at least two flag changes"
	rng := hx.NewRng(o.Seed)
	if o.Replay == "" {
		pure(o, rep, rng)
	}
	dir, cleanup := hx.WorkDir("c10")
	defer cleanup()
	w, err := world.New(dir, "example.com")
	if err != nil {
		rep.Violate("broken-correspondence", "world", err.Error(), nil)
		rep.Finish()
	}
	defer w.Close()
	histories(o, rep, w, rng)
	if len(rep.Violations) == 0 && o.Replay == "" {
		rounds := 40
		if o.Thorough {
			rounds = 400
		}
		concurrentStores(rep, w, rounds)
	}
	rep.Finish()
}

// concurrentStores: "sets, adds and removes exactly the named flags … the result is what FETCH FLAGS reports in this and every
// later session" also when the STOREs come from several sessions at once. Five sessions change one message at the same time,
// each naming other flags (four add a keyword of their own, one removes \Seen): the changes commute, so after all five were
// answered OK a later session must see every one of the four keywords and no \Seen, whatever the interleaving was.
func concurrentStores(rep *hx.Report, w *world.World, rounds int) {
	u := "cstore@example.com"
	c0 := w.Login(u)
	c0.Append("INBOX", "", hist.Msg(9100))
	c0.Close()
	var cs []*world.Client
	for i := 0; i < 5; i++ {
		c := w.Login(u)
		c.Cmd("SELECT INBOX")
		cs = append(cs, c)
	}
	defer func() {
		for _, c := range cs {
			c.Close()
		}
	}()
	for r := 0; r < rounds && len(rep.Violations) == 0; r++ {
		rep.Case(fmt.Sprintf("concurrent-stores|%d", r), true)
		cs[0].Cmd(`STORE 1 FLAGS.SILENT (\Seen)`)
		start := make(chan struct{})
		done := make(chan string, 5)
		for i, c := range cs {
			cmd := fmt.Sprintf("STORE 1 +FLAGS.SILENT (r%dk%d)", r, i)
			if i == 4 {
				cmd = `STORE 1 -FLAGS.SILENT (\Seen)`
			}
			if (r+i)%3 == 0 {
				cmd = "UID " + cmd
			}
			go func(c *world.Client, cmd string) {
				<-start
				res := c.Cmd(cmd)
				if res.OK() {
					done <- ""
				} else {
					done <- cmd + " -> " + res.Tagged
				}
			}(c, cmd)
		}
		close(start)
		refused := ""
		for range cs {
			if d := <-done; d != "" {
				refused = d
			}
		}
		if refused != "" {
			rep.Hit("concurrent-stores:refused")
			continue // a reported failure is not a lost update
		}
		later := w.Login(u)
		later.Cmd("EXAMINE INBOX")
		fl := ""
		for _, l := range later.Cmd("FETCH 1 (FLAGS)").Untagged {
			if m := regexp.MustCompile(`FLAGS \(([^)]*)\)`).FindStringSubmatch(l); m != nil {
				fl = m[1]
			}
		}
		later.Close()
		have := map[string]bool{}
		for _, f := range strings.Fields(fl) {
			have[f] = true
		}
		var missing []string
		for i := 0; i < 4; i++ {
			if k := fmt.Sprintf("r%dk%d", r, i); !have[k] {
				missing = append(missing, k)
			}
		}
		if len(missing) > 0 || have[`\Seen`] {
			rep.Violate("impl-violation", "STORE from several sessions at once (Props.C10.store_exact; the changes commute)", fmt.Sprintf("round %d: four sessions added one keyword each and a fifth removed \\Seen, all five were answered OK; a later session sees FLAGS (%s): missing %v, \\Seen present: %v", r, fl, missing, have[`\Seen`]), []string{"concurrent-stores"})
		}
		rep.Hit("concurrent-stores:all-applied")
	}
}

func pure(o *hx.Opts, rep *hx.Report, rng *hx.Rng) {
	n := 3000
	if o.Thorough {
		n = 50000
	}
	var ops, impl []string
	for i := 0; i < n; i++ {
		cur := strings.Join(pickFlags(rng, 5), " ")
		nw := pickFlags(rng, 4)
		mode := rng.Pick([]string{"set", "add", "del"})
		item := map[string]string{"set": "FLAGS", "add": "+FLAGS", "del": "-FLAGS"}[mode]
		a := setOf(message.CalculateNewFlags(cur, nw, item))
		b := setOf(utils.CalculateNewFlags(cur, nw, item))
		if a != b {
			rep.Violate("impl-violation", "CalculateNewFlags", fmt.Sprintf("message.CalculateNewFlags and utils.CalculateNewFlags disagree on (%q, %v, %s)", cur, nw, item), []string{"calc " + mode + " " + hx.H(cur) + " " + hx.HList(nw)})
		}
		ops = append(ops, "calc "+mode+" "+hx.H(cur)+" "+hx.HList(nw))
		impl = append(impl, a)
		rep.Case(ops[len(ops)-1], len(nw) > 0 && cur != "")
		rep.Hit("pure:" + mode)
	}
	model, err := hx.RunModel(o.Driver, ops)
	if err != nil {
		rep.Violate("broken-correspondence", "driver", err.Error(), nil)
		return
	}
	for i := range model {
		var fl []string
		if model[i] != "." {
			for _, h := range strings.Fields(model[i]) {
				fl = append(fl, hx.UnH(h))
			}
		}
		model[i] = setOf(strings.Join(fl, " "))
	}
	rep.DiffOracle("CalculateNewFlags vs Model/Flags.newFlags", "Props.C10.store_algebra", ops, impl, model)
	rep.Sample(ops[0] + " => " + impl[0])
}

var reSearch = regexp.MustCompile(`^\* SEARCH(.*)$`)
var reUnseen = regexp.MustCompile(`\[UNSEEN (\d+)\]`)

func hasTok(fl []string, t string) bool {
	for _, f := range fl {
		if strings.EqualFold(f, t) {
			return true
		}
	}
	return false
}

func genHist(rng *hx.Rng, n int) []hist.Op {
	var ops []hist.Op
	msg := 1
	boxes := []string{"INBOX", "INBOX", "Sent", "a"}
	count := map[string]int{}
	op := func(k string, a ...string) { ops = append(ops, hist.Op{Kind: k, Args: a}) }
	op("create", "a")
	for i := 0; i < 2+rng.Intn(4); i++ {
		b := rng.Pick(boxes)
		op("append", append([]string{b, strconv.Itoa(msg)}, pickFlags(rng, 3)...)...)
		msg++
		count[b]++
	}
	set := func(b string) string {
		c := count[b]
		if c == 0 {
			c = 1
		}
		x, y := 1+rng.Intn(c), 1+rng.Intn(c)
		return rng.Pick([]string{strconv.Itoa(x), fmt.Sprintf("%d:%d", x, y), "1:*", "*", fmt.Sprintf("%d,%d", x, y)})
	}
	for len(ops) < n {
		b := rng.Pick(boxes)
		switch x := rng.Intn(100); {
		case x < 10:
			op("append", append([]string{b, strconv.Itoa(msg)}, pickFlags(rng, 3)...)...)
			msg++
			count[b]++
		case x < 55:
			fl := pickFlags(rng, 3)
			if len(fl) == 0 && rng.Chance(70) {
				fl = []string{rng.Pick(alphabet)}
			}
			op(rng.Pick([]string{"store", "uidstore"}), append([]string{b, set(b), rng.Pick([]string{"set", "add", "del"}), strconv.Itoa(rng.Intn(2))}, fl...)...)
		case x < 70:
			d := rng.Pick(boxes)
			op(rng.Pick([]string{"copy", "uidcopy"}), b, set(b), d)
			count[d]++
		case x < 78:
			op("expunge", b)
		case x < 90:
			switch rng.Intn(5) {
			case 0:
				op("xstore", b, set(b), rng.Pick(alphabet))
			case 1:
				op("xuidstore", b, set(b), rng.Pick(alphabet))
			case 2:
				op("xexpunge", b)
			case 3:
				op("xuidexpunge", b, set(b))
			default:
				op("xclose", b)
			}
		default:
			op("close", b)
		}
	}
	return ops
}

func histories(o *hx.Opts, rep *hx.Report, w *world.World, rng *hx.Rng) {
	env := &hist.Env{W: w, Driver: o.Driver, Rep: rep, SkipValidity: true, Stream: "history vs Model/Mail (flags)"}
	env.OnStep = func(h *hist.H, op hist.Op, real, model []hist.BoxD) {
		if len(real) == 0 {
			return
		}
		// exactly the addressed messages: every message of the mailbox outside the set keeps its flags
		if (op.Kind == "store" || op.Kind == "uidstore") && strings.HasPrefix(h.LastImpl, "ok") {
			var before, after *hist.BoxD
			for i := range h.Prev {
				if h.Prev[i].Name == op.Args[0] {
					before = &h.Prev[i]
				}
			}
			for i := range real {
				if real[i].Name == op.Args[0] {
					after = &real[i]
				}
			}
			if before != nil && after != nil {
				addressed := map[int]bool{} // by UID
				if op.Kind == "store" {
					r, _ := h.M.Ask("parseseq " + hx.H(op.Args[1]) + " " + strconv.Itoa(len(before.Links)))
					for _, x := range strings.Fields(r) {
						if k, err := strconv.Atoi(x); err == nil && k >= 1 && k <= len(before.Links) {
							addressed[before.Links[k-1].UID] = true
						}
					}
				} else {
					var us []string
					for _, l := range before.Links {
						us = append(us, strconv.Itoa(l.UID))
					}
					r, _ := h.M.Ask("parseuid " + hx.H(op.Args[1]) + " " + strings.Join(us, " "))
					for _, x := range strings.Fields(r) {
						if k, err := strconv.Atoi(x); err == nil {
							addressed[k] = true
						}
					}
				}
				am := map[int]hist.LinkD{}
				for _, l := range after.Links {
					am[l.UID] = l
				}
				for _, l := range before.Links {
					if addressed[l.UID] {
						continue
					}
					a, ok := am[l.UID]
					if !ok || fmt.Sprint(canon(a.Flags)) != fmt.Sprint(canon(l.Flags)) {
						rp := []string{"newhist"}
						for _, x := range h.Ops {
							rp = append(rp, x.Line())
						}
						h.Rep.Violate("impl-violation", "exact targets", fmt.Sprintf("%q changed message UID %d (m%d), which the set does not address: flags %v -> %v (present=%v)", op.Human(), l.UID, l.Msg, l.Flags, a.Flags, ok), rp)
						return
					}
				}
				h.Rep.Hit("exact-targets")
			}
		}
		// flag-derived observations of one mailbox per step, against token membership of the observed sets
		b := real[len(h.Ops)%len(real)]
		rp := func() []string {
			r := []string{"newhist"}
			for _, x := range h.Ops {
				r = append(r, x.Line())
			}
			return r
		}
		unseen, first := 0, 0
		var seenR, unseenR, delR, kwR []string
		for i, l := range b.Links {
			if !hasTok(l.Flags, `\Seen`) {
				unseen++
				if first == 0 {
					first = i + 1
				}
				unseenR = append(unseenR, strconv.Itoa(i+1))
			} else {
				seenR = append(seenR, strconv.Itoa(i+1))
			}
			if hasTok(l.Flags, `\Deleted`) {
				delR = append(delR, strconv.Itoa(i+1))
			}
			if hasTok(l.Flags, "kw") {
				kwR = append(kwR, strconv.Itoa(i+1))
			}
		}
		if b.Unseen != unseen {
			h.Rep.Violate("impl-violation", "flag observations", fmt.Sprintf("STATUS %q (UNSEEN) = %d but %d of its messages lack the \\Seen flag (flags %v)", b.Name, b.Unseen, unseen, flagsOf(b)), rp())
			return
		}
		r := h.O.Cmd("EXAMINE " + b.Name)
		got := 0
		for _, l := range r.Untagged {
			if m := reUnseen.FindStringSubmatch(l); m != nil {
				got, _ = strconv.Atoi(m[1])
			}
		}
		if got != first {
			h.Rep.Violate("impl-violation", "flag observations", fmt.Sprintf("SELECT %q announces [UNSEEN %d] but the first message without \\Seen is %d (flags %v)", b.Name, got, first, flagsOf(b)), rp())
			return
		}
		for _, q := range []struct {
			key  string
			want []string
		}{{"SEEN", seenR}, {"UNSEEN", unseenR}, {"DELETED", delR}, {"KEYWORD kw", kwR}} {
			var sr []string
			for _, l := range h.O.Cmd("SEARCH " + q.key).Untagged {
				if m := reSearch.FindStringSubmatch(l); m != nil {
					sr = strings.Fields(m[1])
				}
			}
			if fmt.Sprint(sr) != fmt.Sprint(q.want) {
				h.Rep.Violate("impl-violation", "flag observations", fmt.Sprintf("SEARCH %s in %q returns %v, messages carrying the flag are %v (flags %v)", q.key, b.Name, sr, q.want, flagsOf(b)), rp())
				return
			}
		}
		h.Rep.Hit("flag-observations")
	}
	run := func(ops []hist.Op, tag string) {
		env.RunShrunk(ops)
		var key strings.Builder
		ch := 0
		for _, op := range ops {
			if strings.Contains(op.Kind, "store") {
				ch++
			}
			key.WriteString(op.Line() + ";")
		}
		rep.Case(key.String(), ch >= 2)
		rep.Hit(tag)
	}
	if o.Replay != "" {
		for _, hs := range hist.SplitHistories(hx.ReadLines(o.Replay)) {
			run(hs, "replay")
		}
		return
	}
	for _, hs := range hist.SplitHistories(hx.ReadLines(o.Corpus + "/histories.ops")) {
		run(hs, "corpus")
	}
	n, maxLen := 100, 14
	if o.Thorough {
		n, maxLen = 2500, 35
	}
	for i := 0; i < n && len(rep.Violations) == 0; i++ {
		ops := genHist(rng.Fork(), 6+rng.Intn(maxLen-5))
		if i < 2 {
			var hs []string
			for _, op := range ops {
				hs = append(hs, op.Human())
			}
			rep.Sample(strings.Join(hs, " ; "))
		}
		run(ops, "generated")
	}
}

func canon(fl []string) []string {
	m := map[string]bool{}
	for _, f := range fl {
		m[f] = true
	}
	var o []string
	for f := range m {
		o = append(o, f)
	}
	sort.Strings(o)
	return o
}

func flagsOf(b hist.BoxD) [][]string {
	var o [][]string
	for _, l := range b.Links {
		o = append(o, l.Flags)
	}
	return o
}
