// C03 correspondence: random histories of deliveries, APPEND, COPY/UID COPY, Junk/NonJunk moves, \Deleted +
// EXPUNGE/CLOSE, CREATE/DELETE/RENAME (incl. RENAME INBOX) on the real server vs the Lean mailbox machine, with
// the UID oracle (ascending, never reused, UIDNEXT truthful, APPENDUID truthful, fresh UIDVALIDITY) evaluated on
// the real observations after every op.
package main

import (
	"fmt"
	"regexp"
	"strconv"
	"strings"
	"sync"
	"time"

	"raven/verifh/hist"
	"raven/verifh/hx"
	"raven/verifh/world"
)

var boxes = []string{"INBOX", "INBOX", "Sent", "Spam", "Trash", "a", "b", "a/b", "Work", "New", "n/m", "x/y", "Old"}
var created = []string{"a", "b", "a/b", "Work", "x/y", "Old"}

func gen(rng *hx.Rng, n int) []hist.Op {
	var ops []hist.Op
	msg := 1
	// a rough shadow of the store steers the generator towards ops that apply (it need not be exact)
	exist := map[string]bool{"INBOX": true, "Sent": true, "Spam": true, "Trash": true, "Drafts": true}
	count := map[string]int{}
	op := func(k string, a ...string) { ops = append(ops, hist.Op{Kind: k, Args: a}) }
	box := func() string {
		if rng.Chance(85) {
			var ex []string
			for _, b := range boxes {
				if exist[b] {
					ex = append(ex, b)
				}
			}
			// prefer mailboxes that hold messages
			for i := 0; i < 3; i++ {
				b := rng.Pick(ex)
				if count[b] > 0 {
					return b
				}
			}
			return rng.Pick(ex)
		}
		return rng.Pick(boxes)
	}
	set := func(b string) string {
		c := count[b]
		if c == 0 || rng.Chance(10) {
			return rng.Pick([]string{"1", "1:*", "*", "2", "4:5"})
		}
		x, y := 1+rng.Intn(c), 1+rng.Intn(c)
		return rng.Pick([]string{strconv.Itoa(x), fmt.Sprintf("%d:%d", x, y), fmt.Sprintf("%d:*", x), "*", "1:*", fmt.Sprintf("%d,%d", x, y), fmt.Sprintf("%d", c+1), fmt.Sprintf("%d:%d", x, c+2)})
	}
	for len(ops) < n {
		switch x := rng.Intn(100); {
		case x < 14:
			op("deliver", strconv.Itoa(msg))
			msg++
			count["INBOX"]++
		case x < 28:
			fl := []string{}
			if rng.Chance(40) {
				fl = append(fl, rng.Pick([]string{`\Seen`, `\Flagged`, `\Deleted`, `\Draft`, "kw"}))
			}
			b := box()
			op("append", append([]string{b, strconv.Itoa(msg)}, fl...)...)
			msg++
			if exist[b] {
				count[b]++
			}
		case x < 42:
			s, d := box(), box()
			op(rng.Pick([]string{"copy", "uidcopy"}), s, set(s), d)
			if exist[s] && exist[d] && count[s] > 0 {
				count[d]++
			}
		case x < 52:
			b := box()
			op(rng.Pick([]string{"store", "uidstore"}), b, set(b), "add", strconv.Itoa(rng.Intn(2)), `\Deleted`)
		case x < 62:
			b := box()
			op(rng.Pick([]string{"expunge", "close", "expunge"}), b)
			if count[b] > 0 {
				count[b]--
			}
		case x < 66:
			b := box()
			op("uidexpunge", b, set(b))
		case x < 73:
			// Junk / NonJunk server-side moves (one message per STORE: multi-message moves are finding C09-F2's class)
			b := box()
			c := count[b]
			if c == 0 {
				c = 1
			}
			op(rng.Pick([]string{"store", "uidstore"}), b, rng.Pick([]string{strconv.Itoa(1 + rng.Intn(c)), "*"}), "add", strconv.Itoa(rng.Intn(2)), rng.Pick([]string{"Junk", "NonJunk"}))
		case x < 80:
			c := rng.Pick(created)
			op("create", c)
			exist[c] = true
			if i := strings.Index(c, "/"); i > 0 {
				exist[c[:i]] = true
			}
		case x < 86:
			c := rng.Pick(created)
			op("delete", c)
			delete(exist, c)
			count[c] = 0
		case x < 95:
			from := rng.Pick(append(created, "INBOX", "INBOX", "Work"))
			to := rng.Pick(append(created, "New", "n/m"))
			op("rename", from, to)
			if exist[from] && !exist[to] {
				exist[to] = true
				count[to] = count[from]
				count[from] = 0
				if from != "INBOX" {
					delete(exist, from)
				}
			}
		default:
			b := box()
			op("store", b, set(b), rng.Pick([]string{"set", "add", "del"}), "0", rng.Pick([]string{`\Seen`, `\Flagged`, "kw"}))
		}
	}
	return ops
}

func main() {
	o, rep := hx.Init("C03")
	hx.Quiet()
	rep.Rule = "random histories over the C03 op alphabet (deliver, append, copy, uidcopy, store \\Deleted, expunge, close, uidexpunge, Junk/NonJunk moves, create, delete, rename incl. INBOX) on ≤ 9 mailboxes; result and full IMAP-observed state compared with the Lean machine after every op; UID oracle on the real observations; a history is non-trivial when at least 3 UIDs were assigned and distinct by its op lines"
	dir, cleanup := hx.WorkDir("c03")
	defer cleanup()
	w, err := world.New(dir, "example.com")
	if err != nil {
		rep.Violate("broken-correspondence", "world", err.Error(), nil)
		rep.Finish()
	}
	defer w.Close()
	env := &hist.Env{W: w, Driver: o.Driver, Rep: rep, Stream: "history vs Model/Mail"}
	run := func(ops []hist.Op, tag string) {
		ok := env.RunShrunk(ops)
		adds := 0
		var key strings.Builder
		for _, op := range ops {
			if op.Kind == "deliver" || op.Kind == "append" || op.Kind == "copy" || op.Kind == "uidcopy" {
				adds++
			}
			key.WriteString(op.Line() + ";")
		}
		rep.Case(key.String(), adds >= 3)
		rep.Hit(tag)
		if !ok {
			rep.Hit(tag + ":failed")
		}
	}
	if o.Replay != "" {
		for _, hs := range hist.SplitHistories(hx.ReadLines(o.Replay)) {
			run(hs, "replay")
		}
		rep.Finish()
	}
	for _, hs := range hist.SplitHistories(hx.ReadLines(o.Corpus + "/histories.ops")) {
		run(hs, "corpus")
	}
	// DELETE + CREATE of one name within a clock second (finding C03-F1 until repair 090198b; kept as a regression probe)
	run([]hist.Op{{Kind: "create", Args: []string{"tmp"}}, {Kind: "append", Args: []string{"tmp", "1"}}, {Kind: "delete", Args: []string{"tmp"}},
		{Kind: "create", Args: []string{"tmp"}}, {Kind: "append", Args: []string{"tmp", "2"}}}, "probe:C03-F1")
	rng := hx.NewRng(o.Seed)
	n, maxLen := 120, 12
	if o.Thorough {
		n, maxLen = 2000, 40
	}
	for i := 0; i < n && len(rep.Violations) == 0; i++ {
		ops := gen(rng.Fork(), 4+rng.Intn(maxLen-3))
		if i < 3 {
			var hs []string
			for _, op := range ops {
				hs = append(hs, op.Human())
			}
			rep.Sample(strings.Join(hs, " ; "))
		}
		run(ops, "generated")
	}
	if len(rep.Violations) == 0 {
		slowRecreate(rep, w)
		slowRenameOnto(rep, w)
		rounds := 40
		if o.Thorough {
			rounds = 600
		}
		concurrentWriters(rep, w, rounds)
	}
	rep.Note("histories=%d", rep.Evaluations)
	_ = fmt.Sprint
	rep.Finish()
}

var reValidity = regexp.MustCompile(`UIDVALIDITY (\d+)`)
var reAppUID = regexp.MustCompile(`APPENDUID (\d+) (\d+)`)

// slowRecreate: DELETE and CREATE of one name more than a clock second apart (so that finding C03-F1 does not apply): every
// incarnation of the name carries a UIDVALIDITY that name never had before, right after the user was provisioned and later
func slowRecreate(rep *hx.Report, w *world.World) {
	rep.Case("slow-recreate", true)
	c := w.Login("slowrecreate@example.com")
	defer c.Close()
	seen := map[string]int{}
	for inc := 0; inc < 3; inc++ {
		if !c.Cmd("CREATE Work").OK() {
			rep.Violate("broken-correspondence", "slow-recreate", "CREATE Work refused", nil)
			return
		}
		r := c.Append("Work", "", hist.Msg(7000+inc))
		st := c.Cmd("STATUS Work (UIDVALIDITY)")
		v := ""
		for _, l := range st.Untagged {
			if m := reValidity.FindStringSubmatch(l); m != nil {
				v = m[1]
			}
		}
		if prev, ok := seen[v]; ok {
			rep.Violate("impl-violation", "UIDVALIDITY never used with that name before (Props.C03)", fmt.Sprintf("incarnation %d of mailbox Work (created %d.2 s after incarnation %d was deleted) carries UIDVALIDITY %s again, and APPEND answers %q for a different message", inc, inc-prev, prev, v, r.Tagged), []string{"slow-recreate"})
			return
		}
		seen[v] = inc
		c.Cmd("DELETE Work")
		time.Sleep(1200 * time.Millisecond)
	}
	rep.Hit("slow-recreate:fresh")
}

// slowRenameOnto: a name that comes to denote a different set of messages by RENAME — INBOX renamed onto the same name again
// and again (each time the name's previous holder has been deleted or renamed away), and an ordinary mailbox renamed onto a
// name that was used before — more than a clock second apart each time (outside finding C03-F1): the name never carries a
// UIDVALIDITY it had before, and the renamed INBOX keeps neither the UIDs' meaning nor the validity of an earlier holder
func slowRenameOnto(rep *hx.Report, w *world.World) {
	rep.Case("slow-rename-onto", true)
	c := w.Login("slowrename@example.com")
	defer c.Close()
	validity := func(name string) string {
		v := ""
		for _, l := range c.Cmd("STATUS " + name + " (UIDVALIDITY)").Untagged {
			if m := reValidity.FindStringSubmatch(l); m != nil {
				v = m[1]
			}
		}
		return v
	}
	seenOld := map[string]int{}
	seenB := map[string]int{}
	for inc := 0; inc < 3; inc++ {
		// INBOX -> Old
		c.Append("INBOX", "", hist.Msg(7100+2*inc))
		c.Append("INBOX", "", hist.Msg(7101+2*inc))
		if !c.Cmd("RENAME INBOX Old").OK() {
			rep.Violate("broken-correspondence", "slow-rename-onto", "RENAME INBOX Old refused", nil)
			return
		}
		v := validity("Old")
		if prev, ok := seenOld[v]; ok {
			rep.Violate("impl-violation", "UIDVALIDITY never used with that name before (Props.C03)", fmt.Sprintf("mailbox Old, produced by the RENAME INBOX Old number %d (%d.2 s after number %d, whose Old had been removed), carries UIDVALIDITY %s again while it holds other messages", inc, inc-prev, prev, v), []string{"slow-rename-onto"})
			return
		}
		seenOld[v] = inc
		if vi := validity("INBOX"); vi == v && v != "" {
			rep.Note("INBOX and the mailbox it was renamed to share UIDVALIDITY %s", v)
		}
		if inc%2 == 0 {
			c.Cmd("DELETE Old")
		} else {
			c.Cmd(fmt.Sprintf("RENAME Old Gone%d", inc))
		}
		// A -> B, B used before
		c.Cmd("CREATE A")
		c.Append("A", "", hist.Msg(7200+inc))
		if !c.Cmd("RENAME A B").OK() {
			rep.Violate("broken-correspondence", "slow-rename-onto", "RENAME A B refused", nil)
			return
		}
		vb := validity("B")
		if prev, ok := seenB[vb]; ok {
			rep.Violate("impl-violation", "UIDVALIDITY never used with that name before (Props.C03)", fmt.Sprintf("mailbox B, produced by RENAME A B number %d (%d.2 s after number %d, whose B had been deleted), carries UIDVALIDITY %s again while it holds another message", inc, inc-prev, prev, vb), []string{"slow-rename-onto"})
			return
		}
		seenB[vb] = inc
		c.Cmd("DELETE B")
		time.Sleep(1200 * time.Millisecond)
	}
	rep.Hit("slow-rename-onto:fresh")
}

// concurrentWriters: two APPENDs and two deliveries on one INBOX at the same time ("every interleaving of two or more writers
// on the same mailbox"): UIDs stay distinct, and the UID announced by APPENDUID is the UID under which that message is found
func concurrentWriters(rep *hx.Report, w *world.World, rounds int) {
	u := "cw@example.com"
	c0 := w.Login(u)
	c0.Close()
	id := 20000
	for r := 0; r < rounds && len(rep.Violations) == 0; r++ {
		rep.Case(fmt.Sprintf("concurrent-writers|%d", r), true)
		type ap struct {
			id    int
			reply string
		}
		var mu sync.Mutex
		var aps []ap
		var wg sync.WaitGroup
		for i := 0; i < 4; i++ {
			id++
			wg.Add(1)
			go func(i, id int) {
				defer wg.Done()
				if i%2 == 0 {
					c := w.Login(u)
					rr := c.Append("INBOX", "", hist.Msg(id))
					c.Close()
					mu.Lock()
					aps = append(aps, ap{id, rr.Tagged})
					mu.Unlock()
				} else {
					w.Deliver("sender@example.org", []string{u}, hist.Msg(id))
				}
			}(i, id)
		}
		wg.Wait()
		c := w.Login(u)
		c.Cmd("EXAMINE INBOX")
		byUID := map[string]string{}
		dup := ""
		for _, l := range c.Cmd("UID FETCH 1:* (BODY.PEEK[HEADER.FIELDS (SUBJECT)])").Untagged {
			mu := regexp.MustCompile(`UID (\d+)`).FindStringSubmatch(l)
			ms := regexp.MustCompile(`Subject: m(\d+)`).FindStringSubmatch(l)
			if mu != nil && ms != nil {
				if _, ok := byUID[mu[1]]; ok {
					dup = mu[1]
				}
				byUID[mu[1]] = ms[1]
			}
		}
		c.Close()
		if dup != "" {
			rep.Violate("impl-violation", "no UID is given to a second message (Props.C03, concurrent writers)", fmt.Sprintf("round %d: UID %s is listed twice in INBOX of %s", r, dup, u), []string{"concurrent-writers"})
		}
		for _, a := range aps {
			if m := reAppUID.FindStringSubmatch(a.reply); m != nil {
				if byUID[m[2]] != fmt.Sprint(a.id) {
					rep.Violate("impl-violation", "APPENDUID is the UID under which the message is found (Props.C03, concurrent writers)", fmt.Sprintf("round %d: APPEND of m%d was answered %q but UID %s holds m%s", r, a.id, a.reply, m[2], byUID[m[2]]), []string{"concurrent-writers"})
				}
			}
		}
	}
}
