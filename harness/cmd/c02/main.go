// C02 correspondence. Messages from the C02 grammar are stored through both entry paths (LMTP DATA and IMAP APPEND) after random
// histories of other messages in this and another user's store. Three levels: (rows) the message_parts / message_headers rows equal
// the Lean model's flatten / extract of the generated tree; (bytes) BODY.PEEK[] fetched in two sessions is identical, and an
// independent MIME reader (Python email) sees the generated tree in it — media types, charsets, file names, content-ids, decoded
// leaf content up to a final line break — and the header fields in order; (history) the same holds whatever was stored before.
package main

import (
	"encoding/json"
	"fmt"
	"os"
	"os/exec"
	"reflect"
	"regexp"
	"strings"

	"raven/internal/db"
	"raven/verifh/hx"
	"raven/verifh/mimegen"
	"raven/verifh/world"
)

type item struct {
	token string
	tree  *mimegen.Node
	top   []string
	msg   string
	via   string
	user  string
	fetch string
}

func main() {
	o, rep := hx.Init("C02")
	hx.Quiet()
	rep.Rule = "messages generated from the C02 grammar (depth ≤ 3, 1..4 children, text and binary leaves, 7bit/8bit/binary/base64/quoted-printable, charsets present/absent, sizes 0, tiny, 1000..1050, 1024, 1025, several KiB, attachments with file names incl. blanks and specials, content-ids, folded/repeated/unknown/empty headers, dot lines, with/without final newline), stored alternately by LMTP and APPEND into two users' stores that already hold earlier generated messages; distinct by message text; non-trivial when the message is multipart or has an out-of-line part"
	dir, cleanup := hx.WorkDir("c02")
	defer cleanup()
	w, err := world.New(dir, "example.com")
	if err != nil {
		rep.Violate("broken-correspondence", "world", err.Error(), nil)
		rep.Finish()
	}
	defer w.Close()
	rng := hx.NewRng(o.Seed)
	n := 120
	if o.Thorough {
		n = 2500
	}
	users := []string{"u1@example.com", "u2@example.com", "u3echo@example.com"}
	clients := map[string]*world.Client{}
	second := map[string]*world.Client{}
	for _, u := range users {
		clients[u] = w.Login(u)
		second[u] = w.Login(u)
	}
	var items []*item
	for i := 0; i < n; i++ {
		it := &item{token: fmt.Sprintf("c02tok%d", i), tree: mimegen.Gen(rng, 3), user: users[rng.Intn(2)]}
		if i%7 == 3 {
			it.tree = mimegen.GenDeep(rng, 5+rng.Intn(5)) // containers nested five to nine deep
		}
		it.top = mimegen.TopHeaders(rng, it.token)
		it.msg = it.tree.Serialize(it.top)
		if rng.Bool() {
			it.via = "lmtp"
			_, data := w.Deliver("sender@example.org", []string{it.user}, it.msg)
			if len(data) != 1 || !strings.HasPrefix(data[0], "250") {
				rep.Violate("impl-violation", "store", fmt.Sprintf("well-formed message %s refused by LMTP: %v", it.token, data), []string{"msg " + hx.H(it.msg)})
				continue
			}
		} else {
			it.via = "append"
			if r := clients[it.user].Append("INBOX", "", it.msg); !r.OK() {
				rep.Violate("impl-violation", "store", fmt.Sprintf("well-formed message %s refused by APPEND: %s", it.token, r.Tagged), []string{"msg " + hx.H(it.msg)})
				continue
			}
		}
		items = append(items, it)
		rep.Hit("via:" + it.via)
		if it.tree.Multi {
			rep.Hit("shape:multipart")
		} else {
			rep.Hit("shape:single")
		}
	}
	// ---- the point the octet-level theorem excludes (Props.C02.tree_as_written: `fresh`): a part whose text contains lines
	// that look like the delimiters the *server* generates for the containers of this message (its boundaries are a function of
	// the part's row id, "----=_Part_<Subtype>_<id>"); a fresh user's first messages have small row ids ----
	for k, sub := range []string{"mixed", "alternative", "related"} {
		var lines []string
		for id := 1; id <= 40; id++ {
			lines = append(lines, fmt.Sprintf("------=_Part_%s%s_%d", strings.ToUpper(sub[:1]), sub[1:], id), "Content-Type: text/plain", "", fmt.Sprintf("a line of part one that looks like a part of its own (%d)", id))
		}
		tok := fmt.Sprintf("c02echo%d", k)
		tree := &mimegen.Node{Multi: true, Subtype: sub, Children: []*mimegen.Node{
			{CType: "text/plain", Charset: "utf-8", CTE: "7bit", Content: []byte("above\r\n" + strings.Join(lines, "\r\n") + "\r\nbelow\r\n")},
			{CType: "text/plain", Charset: "utf-8", CTE: "7bit", Content: []byte("the second and last part\r\n")}}}
		it := &item{token: tok, tree: tree, user: "u3echo@example.com", via: "append"}
		it.top = []string{"From: a@example.org", "To: u3echo@example.com", "Subject: " + tok}
		it.msg = tree.Serialize(it.top)
		if r := clients[it.user].Append("INBOX", "", it.msg); !r.OK() {
			rep.Violate("impl-violation", "store", fmt.Sprintf("well-formed message %s refused by APPEND: %s", it.token, r.Tagged), []string{"msg " + hx.H(it.msg)})
			continue
		}
		items = append(items, it)
		rep.Hit("shape:delimiter-like-lines")
	}
	// ---- Unix text attached as it is: the content of a leaf ends in a bare line feed right in front of the CRLF of the next
	// delimiter line (inline and out of line, first and middle part, by both routes) ----
	for k := 0; k < 4; k++ {
		script := "#!/bin/sh\necho one\necho two\n"
		if k%2 == 1 {
			script += strings.Repeat("# a comment line of an attached script that is kept out of line\n", 20)
		}
		tok := fmt.Sprintf("c02unix%d", k)
		first := &mimegen.Node{CType: "text/plain", Charset: "utf-8", CTE: "8bit", Content: []byte(script)}
		if k >= 2 {
			first.Filename, first.Disposition = "run.sh", "attachment"
		}
		tree := &mimegen.Node{Multi: true, Subtype: "mixed", Children: []*mimegen.Node{
			{CType: "text/plain", Charset: "utf-8", CTE: "7bit", Content: []byte("see the attached script\r\n")},
			first,
			{CType: "text/plain", Charset: "utf-8", CTE: "7bit", Content: []byte("the last part\r\n")}}}
		if k == 3 {
			tree.Children = tree.Children[1:]
		}
		it := &item{token: tok, tree: tree, user: users[k%2]}
		it.top = []string{"From: a@example.org", "To: " + it.user, "Subject: " + tok}
		it.msg = tree.Serialize(it.top)
		if k%2 == 0 {
			it.via = "append"
			if r := clients[it.user].Append("INBOX", "", it.msg); !r.OK() {
				rep.Violate("impl-violation", "store", fmt.Sprintf("well-formed message %s refused by APPEND: %s", it.token, r.Tagged), []string{"msg " + hx.H(it.msg)})
				continue
			}
		} else {
			it.via = "lmtp"
			if _, data := w.Deliver("sender@example.org", []string{it.user}, it.msg); len(data) != 1 || !strings.HasPrefix(data[0], "250") {
				rep.Violate("impl-violation", "store", fmt.Sprintf("well-formed message %s refused by LMTP: %v", it.token, data), []string{"msg " + hx.H(it.msg)})
				continue
			}
		}
		items = append(items, it)
		rep.Hit("shape:leaf-ends-in-bare-lf")
	}
	// ---- fetch every message in two sessions (after everything has been stored: the history is all the others) ----
	emlDir := dir + "/eml"
	os.MkdirAll(emlDir, 0755)
	seqOf := map[string]map[string]int{}
	for _, u := range users {
		clients[u].Cmd("SELECT INBOX")
		second[u].Cmd("EXAMINE INBOX")
		seqOf[u] = map[string]int{}
		for _, l := range clients[u].Cmd("FETCH 1:* (BODY.PEEK[HEADER.FIELDS (SUBJECT)])").Untagged {
			var k int
			if _, err := fmt.Sscanf(l, "* %d FETCH", &k); err == nil {
				if i := strings.Index(l, "Subject: "); i >= 0 {
					seqOf[u][strings.TrimSpace(strings.SplitN(l[i+9:], "\r\n", 2)[0])] = k
				}
			}
		}
	}
	lit := func(r world.Resp) (string, bool) {
		for _, l := range r.Untagged {
			if i := strings.Index(l, "}\r\n"); i >= 0 && strings.HasSuffix(l, ")") {
				return l[i+3 : len(l)-1], true
			}
		}
		return "", false
	}
	for idx, it := range items {
		k := seqOf[it.user][it.token]
		if k == 0 {
			rep.Violate("impl-violation", "store", "stored message "+it.token+" is not listed in INBOX", []string{"msg " + hx.H(it.msg)})
			continue
		}
		a, ok1 := lit(clients[it.user].Cmd(fmt.Sprintf("FETCH %d BODY.PEEK[]", k)))
		b, ok2 := lit(second[it.user].Cmd(fmt.Sprintf("FETCH %d BODY.PEEK[]", k)))
		nontriv := it.tree.Multi || len(it.msg) > 1100
		rep.Case(it.msg, nontriv)
		if !ok1 || !ok2 {
			rep.Violate("impl-violation", "fetch", "BODY.PEEK[] of "+it.token+" returned no literal", []string{"msg " + hx.H(it.msg)})
			continue
		}
		if a != b {
			rep.Violate("impl-violation", "refetch (Props.C02.refetch_identical)", fmt.Sprintf("two fetches of the same message (%s, via %s) return different octets:\n  first:  %q\n  second: %q", it.token, it.via, firstDiff(a, b), firstDiff(b, a)), []string{"msg " + hx.H(it.msg)})
			break
		}
		it.fetch = a
		os.WriteFile(fmt.Sprintf("%s/%05d.eml", emlDir, idx), []byte(a), 0644)
	}
	// ---- the strict reader: the octet-level reader of Model/Mime (Props.C02.fetched_text_reads_back: delimiters are
	// CRLF "--" boundary and nothing else, as RFC 2046 has them and as mime/multipart and the server's own BODYSTRUCTURE code
	// read them) finds in the fetched text the part tree that was submitted. The lenient reader below takes any line that
	// begins with the delimiter, whatever ended the line before it. ----
	{
		var ops []string
		var which []*item
		for _, it := range items {
			if it.fetch != "" && it.tree.Multi {
				ops = append(ops, "mm.observe "+hx.H(it.fetch))
				which = append(which, it)
			}
		}
		obs, err := hx.RunModel(o.Driver, ops)
		if err != nil {
			rep.Violate("broken-correspondence", "driver", err.Error(), nil)
			rep.Finish()
		}
		nstrict := 0
		for i, it := range which {
			f := strings.Fields(obs[i])
			if len(f) < 4 || f[0] != "ok" {
				rep.Violate("impl-violation", "tree (strict reader, Props.C02.fetched_text_reads_back)", fmt.Sprintf("message %s (via %s): a reader that takes CRLF \"--\" boundary for a delimiter cannot take the fetched text apart", it.token, it.via), []string{"msg " + hx.H(it.msg)})
				continue
			}
			got, want := strictShape(strings.TrimPrefix(f[3], "shape=")), shapeOfTree(it.tree)
			rep.Hit("strict-reader:" + f[1])
			if got != want {
				nstrict++
				if nstrict <= 2 {
					rep.Violate("impl-violation", "tree (strict reader, Props.C02.fetched_text_reads_back)", fmt.Sprintf("message %s (via %s): a reader that takes CRLF \"--\" boundary for a delimiter finds the parts %s in the fetched text, submitted were %s", it.token, it.via, got, want), []string{"msg " + hx.H(it.msg)})
				}
			}
		}
	}
	// ---- independent reader ----
	py := "python3"
	if _, err := exec.LookPath("python3-vt"); err == nil {
		py = "python3-vt"
	}
	out, err := exec.Command(py, "/verif/harness/pymime/digest.py", emlDir).Output()
	if err != nil {
		rep.Violate("broken-correspondence", "python reader", err.Error(), nil)
		rep.Finish()
	}
	var digs map[string]struct {
		Tree    any        `json:"tree"`
		Headers [][]string `json:"headers"`
	}
	json.Unmarshal(out, &digs)
	nviol := 0
	// what the shared blob store holds, leaf by leaf in the order of storing (both users' messages: the blob store is one):
	// decoded content (up to a final line break) -> where and under which transfer-encoding class it was submitted
	var trees []*mimegen.Node
	for _, it := range items {
		trees = append(trees, it.tree)
	}
	twins := mimegen.NewTwins(trees)
	held := map[string][]heldLeaf{}
	leaf0 := make([]int, len(items))
	count := 0
	for idx, it := range items {
		leaf0[idx] = count
		for _, l := range leavesOf(it.tree) {
			k := contentKey(l.Content)
			held[k] = append(held[k], heldLeaf{count, encClass(l.CTE)})
			count++
		}
	}
	for idx, it := range items {
		d, ok := digs[fmt.Sprintf("%05d.eml", idx)]
		if !ok || it.fetch == "" {
			continue
		}
		want := normDigest(it.tree.Digest())
		got := normDigest(d.Tree)
		if !reflect.DeepEqual(want, got) && treeDiff(want, got, "") != "equal" {
			what := fmt.Sprintf("message %s (via %s): the fetched message does not have the submitted part tree: %s", it.token, it.via, treeDiff(want, got, ""))
			if onlyCrossEncodedLeaves(want, got, it, leaf0[idx], held) {
				// class predicate of finding C02-F1: nothing differs but the content of leaves whose decoded content the same
				// store already held under another transfer encoding when they were stored
				rep.Finding("C02-F1", "cross-encoding de-duplication: "+what, []string{"msg " + hx.H(it.msg)})
				continue
			}
			nviol++
			if nviol <= 3 {
				rep.Violate("impl-violation", "tree (independent MIME reader vs Props.C02.tree_roundtrip)", what, []string{"msg " + hx.H(it.msg)})
			}
			continue
		}
		// a single-part message: the body octets are identical (no tolerance: not a line break more or less, no re-wrapping)
		if !it.tree.Multi {
			sb, fb := bodyOf(it.msg), bodyOf(it.fetch)
			if it.via == "lmtp" && !strings.HasSuffix(sb, "\n") {
				sb += "\r\n" // the DATA phase cannot carry a last line without a line end: world.DotStuff completes it, that is what was submitted
			}
			if sb != fb {
				what := fmt.Sprintf("single-part message %s (via %s, %s): the body octets differ: submitted %d octets ending %q, fetched %d octets ending %q", it.token, it.via, it.tree.CTE, len(sb), tailOf(sb, 24), len(fb), tailOf(fb, 24))
				if twins.CrossEncoded(it.tree) {
					rep.Finding("C02-F1", "cross-encoding de-duplication: "+what, []string{"msg " + hx.H(it.msg)})
				} else {
					nviol++
					if nviol <= 3 {
						rep.Violate("impl-violation", "single-part body octets (Props.C02.tree_roundtrip)", what, []string{"msg " + hx.H(it.msg)})
					}
				}
				continue
			}
			rep.Hit("single-part:identical")
		}
		// header fields: order, names, values up to surrounding white space (MIME headers of a multipart are regenerated)
		wantH := headerList(it.top)
		var gotH [][2]string
		for _, h := range d.Headers {
			ln := strings.ToLower(h[0])
			if ln == "content-type" || ln == "mime-version" || ln == "content-transfer-encoding" || ln == "content-id" || ln == "content-disposition" {
				continue // MIME header fields: judged through the part tree
			}
			gotH = append(gotH, [2]string{h[0], strings.TrimSpace(h[1])})
		}
		if !reflect.DeepEqual(wantH, gotH) {
			nviol++
			if nviol <= 3 {
				rep.Violate("impl-violation", "headers (Props.C02.headers_roundtrip)", fmt.Sprintf("message %s (via %s): header fields differ\n  submitted: %q\n  fetched:   %q", it.token, it.via, wantH, gotH), []string{"msg " + hx.H(it.msg)})
			}
		}
		rep.Hit("bytes-ok")
	}
	// ---- rows vs the Lean model ----
	rows(o, rep, w, items)
	if o.Replay == "" {
		probeCrossEncoding(rep, w)
	}
	if len(items) > 0 {
		rep.Sample(brief(normDigest(items[0].tree.Digest())))
		rep.Sample(brief(normDigest(items[len(items)/2].tree.Digest())))
	}
	// ---- a copy is the same message: after the lowest message has been expunged (sequence numbers and UIDs no longer
	// coincide), COPY by sequence number and UID COPY put into another mailbox what FETCH of that number / UID returns ----
	if o.Replay == "" {
		for _, u := range users[:2] {
			c := clients[u]
			c.Cmd("SELECT INBOX")
			c.Cmd(`STORE 1 +FLAGS.SILENT (\Deleted)`)
			c.Cmd("EXPUNGE")
			c.Cmd("CREATE Keep")
			count := 0
			for _, l := range c.Cmd("STATUS INBOX (MESSAGES)").Untagged {
				if m := regexp.MustCompile(`MESSAGES (\d+)`).FindStringSubmatch(l); m != nil {
					fmt.Sscan(m[1], &count)
				}
			}
			kept := 0
			for _, n := range []int{1, 2, count/2 + 1, count} {
				if n < 1 || n > count {
					continue
				}
				for _, verb := range []string{"COPY", "UID COPY"} {
					rep.Case(fmt.Sprintf("copy|%s|%s|%d", u, verb, n), true)
					fetch, arg := "FETCH", fmt.Sprint(n)
					if verb == "UID COPY" {
						fetch = "UID FETCH"
						for _, l := range c.Cmd(fmt.Sprintf("FETCH %d (UID)", n)).Untagged {
							if m := regexp.MustCompile(`UID (\d+)`).FindStringSubmatch(l); m != nil {
								arg = m[1]
							}
						}
					}
					a, ok1 := lit(c.Cmd(fmt.Sprintf("%s %s BODY.PEEK[]", fetch, arg)))
					if r := c.Cmd(fmt.Sprintf("%s %s Keep", verb, arg)); !r.OK() {
						rep.Violate("impl-violation", "copy (Props.C02: a stored message is returned as the same message)", fmt.Sprintf("user %s: %s %s Keep answered %q", u, verb, arg, r.Tagged), []string{"copy " + u})
						continue
					}
					kept++
					c2 := second[u]
					c2.Cmd("EXAMINE Keep")
					b, ok2 := lit(c2.Cmd(fmt.Sprintf("FETCH %d BODY.PEEK[]", kept)))
					if !ok1 || !ok2 || a != b {
						rep.Violate("impl-violation", "copy (Props.C02: a stored message is returned as the same message)", fmt.Sprintf("user %s: %s %s Keep answered OK; the message in INBOX begins %q (%d octets), message %d of Keep begins %q (%d octets)", u, verb, arg, clip(a, 90), len(a), kept, clip(b, 90), len(b)), []string{"copy " + u})
					}
					rep.Hit("copy:same-octets")
				}
			}
		}
	}
	rep.Finish()
}

type heldLeaf struct {
	pos int
	enc string
}

func bodyOf(msg string) string {
	if i := strings.Index(msg, "\r\n\r\n"); i >= 0 {
		return msg[i+4:]
	}
	return ""
}

func tailOf(s string, n int) string {
	if len(s) > n {
		return s[len(s)-n:]
	}
	return s
}

func leavesOf(n *mimegen.Node) []*mimegen.Node {
	if !n.Multi {
		return []*mimegen.Node{n}
	}
	var out []*mimegen.Node
	for _, c := range n.Children {
		out = append(out, leavesOf(c)...)
	}
	return out
}

// encClass: the three ways decodeContentForHashing reads a part's text
func encClass(cte string) string {
	switch strings.ToLower(strings.TrimSpace(cte)) {
	case "base64", "quoted-printable":
		return strings.ToLower(strings.TrimSpace(cte))
	}
	return "identity"
}

func contentKey(b []byte) string { return strings.TrimRight(string(b), "\r\n") }

// onlyCrossEncodedLeaves: the two digests have the same shape and differ only in the decoded content of leaves whose
// content the store already held (from an earlier message, or an earlier leaf of this one) under another encoding class.
func onlyCrossEncodedLeaves(want, got any, it *item, leaf0 int, held map[string][]heldLeaf) bool {
	leaves := leavesOf(it.tree)
	pos := 0
	found := false
	var walk func(a, b any) bool
	walk = func(a, b any) bool {
		la, oka := a.([]any)
		lb, okb := b.([]any)
		if !oka || !okb || len(la) == 0 || len(lb) == 0 || la[0] != lb[0] || len(la) != len(lb) {
			return false
		}
		if la[0] == "leaf" {
			if pos >= len(leaves) {
				return false
			}
			n := leaves[pos]
			pos++
			other := false
			for _, h := range held[contentKey(n.Content)] {
				if h.pos < leaf0+pos-1 && h.enc != encClass(n.CTE) {
					other = true
				}
			}
			for i := 1; i < len(la); i++ {
				if la[i] == lb[i] {
					continue
				}
				if i == 5 && sameUpToFinalBreak(hx.UnH(fmt.Sprint(la[i])), hx.UnH(fmt.Sprint(lb[i]))) {
					continue
				}
				if i != 5 || !other {
					return false
				}
				found = true
			}
			return true
		}
		if la[1] != lb[1] {
			return false
		}
		ca, _ := la[2].([]any)
		cb, _ := lb[2].([]any)
		if len(ca) != len(cb) {
			return false
		}
		for i := range ca {
			if !walk(ca[i], cb[i]) {
				return false
			}
		}
		return true
	}
	return walk(want, got) && found
}

func classNameOnCT(n *mimegen.Node) bool {
	if !n.Multi {
		return n.NameOnCT && n.Filename != ""
	}
	for _, c := range n.Children {
		if classNameOnCT(c) {
			return true
		}
	}
	return false
}

func headerList(top []string) [][2]string {
	var o [][2]string
	for _, l := range top {
		i := strings.Index(l, ":")
		// white space around the name and around the value's first physical line is not significant (Hdr.normalise)
		v := l[i+1:]
		first, rest, folded := strings.Cut(v, "\r\n")
		v = strings.TrimSpace(first)
		if folded {
			v += "\r\n" + rest
		}
		o = append(o, [2]string{strings.TrimSpace(l[:i]), strings.TrimSpace(v)})
	}
	return o
}

// normDigest: JSON round trip so that both sides have the same dynamic types; charset "" ~ "us-ascii" for text.
func normDigest(d any) any {
	b, _ := json.Marshal(d)
	var x any
	json.Unmarshal(b, &x)
	return fix(x)
}
func fix(x any) any {
	l, ok := x.([]any)
	if !ok {
		return x
	}
	if len(l) == 6 && l[0] == "leaf" {
		if l[2] == "us-ascii" {
			l[2] = ""
		}
		if l[5] == "" {
			l[5] = "-"
		}
		return l
	}
	for i := range l {
		l[i] = fix(l[i])
	}
	return l
}

// treeDiff names the first difference between two digests.
func treeDiff(a, b any, path string) string {
	la, oka := a.([]any)
	lb, okb := b.([]any)
	if !oka || !okb || len(la) == 0 || len(lb) == 0 || la[0] != lb[0] {
		return fmt.Sprintf("at part %q: submitted %s, fetched %s", path, brief(a), brief(b))
	}
	if la[0] == "leaf" {
		names := []string{"", "media type", "charset", "file name", "content-id", "decoded content"}
		for i := 1; i < 6 && i < len(la) && i < len(lb); i++ {
			if i == 5 && sameUpToFinalBreak(hx.UnH(fmt.Sprint(la[i])), hx.UnH(fmt.Sprint(lb[i]))) {
				continue
			}
			if la[i] != lb[i] {
				x, y := fmt.Sprint(la[i]), fmt.Sprint(lb[i])
				if i == 5 {
					x, y = hx.UnH(x), hx.UnH(y)
					k := 0
					for k < len(x) && k < len(y) && x[k] == y[k] {
						k++
					}
					s := k - 30
					if s < 0 {
						s = 0
					}
					return fmt.Sprintf("leaf %q: decoded content differs at octet %d of %d/%d: submitted …%q, fetched …%q", path, k, len(x), len(y), clip(x[s:], 80), clip(y[s:], 80))
				}
				return fmt.Sprintf("leaf %q: %s submitted %q, fetched %q", path, names[i], x, y)
			}
		}
		return "equal"
	}
	if la[1] != lb[1] {
		return fmt.Sprintf("container %q: subtype submitted %v, fetched %v", path, la[1], lb[1])
	}
	ca, _ := la[2].([]any)
	cb, _ := lb[2].([]any)
	if len(ca) != len(cb) {
		return fmt.Sprintf("container %q: %d children submitted, %d fetched", path, len(ca), len(cb))
	}
	for i := range ca {
		p := fmt.Sprint(i + 1)
		if path != "" {
			p = path + "." + p
		}
		if d := treeDiff(ca[i], cb[i], p); d != "equal" {
			return d
		}
	}
	return "equal"
}

// sameUpToFinalBreak: equal, or one is the other plus one final line break ("up to a final line break")
func sameUpToFinalBreak(a, b string) bool {
	return a == b || a == b+"\r\n" || b == a+"\r\n" || a == b+"\n" || b == a+"\n"
}

func clip(s string, n int) string {
	if len(s) > n {
		return s[:n]
	}
	return s
}

func brief(d any) string {
	b, _ := json.Marshal(d)
	s := string(b)
	if len(s) > 600 {
		s = s[:600] + "…"
	}
	return s
}

func firstDiff(a, b string) string {
	i := 0
	for i < len(a) && i < len(b) && a[i] == b[i] {
		i++
	}
	j := i + 80
	if j > len(a) {
		j = len(a)
	}
	s := i - 20
	if s < 0 {
		s = 0
	}
	return a[s:j]
}

// rows: message_parts rows (ids mapped to indices) against the Lean flatten of the generated tree.
func rows(o *hx.Opts, rep *hx.Report, w *world.World, items []*item) {
	shared := w.Mgr.GetSharedDB()
	var ops, impl, desc []string
	for _, it := range items {
		uid, err := db.GetUserByEmail(shared, it.user)
		if err != nil {
			continue
		}
		udb, err := w.Mgr.GetUserDB(uid)
		if err != nil {
			continue
		}
		var mid int64
		if err := udb.QueryRow("SELECT id FROM messages WHERE subject = ?", it.token).Scan(&mid); err != nil {
			continue
		}
		rs, err := udb.Query("SELECT id, part_number, parent_part_id, content_type, COALESCE(charset,''), COALESCE(filename,''), COALESCE(content_id,'') FROM message_parts WHERE message_id = ? ORDER BY id", mid)
		if err != nil {
			continue
		}
		idx := map[int64]int{}
		var out []string
		k := 0
		for rs.Next() {
			var id, num int64
			var parent *int64
			var ct, cs, fn, cid string
			rs.Scan(&id, &num, &parent, &ct, &cs, &fn, &cid)
			idx[id] = k
			k++
			p := "-"
			if parent != nil {
				p = fmt.Sprint(idx[*parent])
			}
			kind := "L"
			attrs := strings.ToLower(ct) + "|" + strings.ToLower(cs) + "|" + fn + "|" + cid
			if strings.HasPrefix(strings.ToLower(ct), "multipart/") {
				kind = "M"
				attrs = strings.ToLower(ct)
			}
			out = append(out, fmt.Sprintf("%s|%d|%s|%s", p, num, kind, hx.H(attrs)))
		}
		rs.Close()
		// header rows vs the Lean model of extractAllHeaders
		hr, err := udb.Query("SELECT header_name, header_value FROM message_headers WHERE message_id = ? ORDER BY id", mid)
		if err == nil {
			var hs []string
			for hr.Next() {
				var n, v string
				hr.Scan(&n, &v)
				var ls []string
				for _, l := range strings.Split(v, "\r\n") {
					ls = append(ls, hx.H(l))
				}
				hs = append(hs, hx.H(n)+"="+strings.Join(ls, ","))
			}
			hr.Close()
			block := strings.SplitN(it.msg, "\r\n\r\n", 2)[0]
			ops = append(ops, "h.extract "+hx.HList(strings.Split(block, "\r\n")))
			impl = append(impl, strings.Join(hs, " "))
			desc = append(desc, it.token+" headers")
			rep.Hit("header-rows")
		}
		toks := it.tree.Tokens()
		if !it.tree.Multi {
			// a single-part message is stored with the parser's default charset when none is given
			// …and keeps file name and content-id in its stored header fields only (they are checked at the byte level)
			n := *it.tree
			if n.Charset == "" {
				n.Charset = "us-ascii"
			}
			n.Filename, n.CID = "", ""
			toks = n.Tokens()
		}
		ops = append(ops, "t.flatten "+strings.Join(toks, " "))
		impl = append(impl, strings.Join(out, " "))
		desc = append(desc, it.token)
		rep.Hit("rows")
	}
	model, err := hx.RunModel(o.Driver, ops)
	if err != nil {
		rep.Violate("broken-correspondence", "driver", err.Error(), nil)
		return
	}
	nb := 0
	for i := range ops {
		if impl[i] != model[i] {
			if strings.HasPrefix(ops[i], "t.flatten") && nameLost(impl[i], model[i]) {
				continue // a lost file name is reported at the byte level
			}
			nb++
			if nb <= 3 {
				rep.Violate("broken-correspondence", "stored rows vs Model/PartTree.flatten / Model/Headers.extract", fmt.Sprintf("%s: rows %q, model %q", desc[i], impl[i], model[i]), []string{ops[i]})
			}
		}
	}
}

// nameLost: the rows differ only in a file name that the model has and the rows lack.
func nameLost(impl, model string) bool {
	a, b := strings.Fields(impl), strings.Fields(model)
	if len(a) != len(b) {
		return false
	}
	for i := range a {
		if a[i] == b[i] {
			continue
		}
		pa, pb := strings.Split(a[i], "|"), strings.Split(b[i], "|")
		if len(pa) != 4 || len(pb) != 4 || pa[0] != pb[0] || pa[1] != pb[1] || pa[2] != pb[2] {
			return false
		}
		fa, fb := strings.Split(hx.UnH(pa[3]), "|"), strings.Split(hx.UnH(pb[3]), "|")
		if len(fa) != 4 || len(fb) != 4 || fa[0] != fb[0] || fa[1] != fb[1] || fa[3] != fb[3] || fa[2] != "" {
			return false
		}
	}
	return true
}

// probeCrossEncoding: finding C02-F1 / C15-F1 — the same decoded content first stored as 8bit text, then as base64
func probeCrossEncoding(rep *hx.Report, w *world.World) {
	content := strings.Repeat("The same decoded content, long enough to go out of line. ", 30) + "\r\n"
	mk := func(cte, tok string) string {
		n := &mimegen.Node{Multi: true, Subtype: "mixed", Children: []*mimegen.Node{{CType: "text/plain", Charset: "utf-8", CTE: cte, Content: []byte(content)}}}
		return n.Serialize([]string{"From: a@example.org", "To: b@example.com", "Subject: " + tok})
	}
	c := w.Login("xenc@example.com")
	defer c.Close()
	c.Append("INBOX", "", mk("8bit", "xenc-first"))
	c.Append("INBOX", "", mk("base64", "xenc-second"))
	c.Cmd("SELECT INBOX")
	r := c.Cmd("FETCH 2 BODY.PEEK[1]")
	for _, l := range r.Untagged {
		if i := strings.Index(l, "}\r\n"); i >= 0 {
			got := l[i+3:]
			if strings.Contains(got, "The same decoded content") {
				rep.Finding("C02-F1", "a part submitted base64-encoded is returned as another message's 8bit text (still labelled base64): the shared blob is keyed by the decoded content and holds the first writer's encoded text", []string{"probe cross-encoding"})
			}
		}
	}
	rep.Hit("probe:C02-F1")
}

func shapeOfTree(n *mimegen.Node) string {
	if !n.Multi {
		return "L"
	}
	var cs []string
	for _, c := range n.Children {
		cs = append(cs, shapeOfTree(c))
	}
	return "(" + strings.Join(cs, " ") + ")"
}

var reStrictLB = regexp.MustCompile(`[LB][0-9-]+`)

// strictShape: the digest of Model/Mime.observe with sizes and boundary numbers dropped
func strictShape(d string) string {
	d = strings.ReplaceAll(d, ",", " ")
	return reStrictLB.ReplaceAllStringFunc(d, func(m string) string {
		if m[0] == 'L' {
			return "L"
		}
		return ""
	})
}
