// C14 correspondence: for messages of the C02 grammar, FETCH (RFC822.SIZE BODYSTRUCTURE ENVELOPE BODY.PEEK[] BODY.PEEK[HEADER]
// BODY.PEEK[TEXT]) and BODY.PEEK[p] for every section path of the generated tree, absent paths and partial ranges. Checked on the
// real answers: SIZE = |BODY[]|; HEADER ++ TEXT = BODY[] (and both equal the Lean split of BODY[]); every leaf at path p of
// BODYSTRUCTURE is returned by BODY[p] with the announced media type, encoding and size and with the submitted content; an
// absent path yields no data exactly when the Lean path mapping says so; ENVELOPE fields equal the header fields; partial
// fetches are the Lean slice. A second stream (addr.go) generates the address fields and judges the ENVELOPE address lists.
package main

import (
	"encoding/base64"
	"fmt"
	"io"
	"mime/quotedprintable"
	"regexp"
	"strings"

	"raven/internal/db"
	"raven/verifh/hx"
	"raven/verifh/mimegen"
	"raven/verifh/sx"
	"raven/verifh/world"
)

type probe struct {
	msg  *mimegen.Node
	text string
	tok  string
	seq  int
	cmd  string
	raw  string
	kind string // main | path | partial
	path string
	o, n int
}

func main() {
	o, rep := hx.Init("C14")
	hx.Quiet()
	repFinding = func(id, what string, p *probe) {
		rep.Finding(id, what, []string{"msg " + hx.H(p.text), "cmd " + hx.H(p.cmd)})
	}
	rep.Rule = "messages of the C02 grammar (depth ≤ 3) stored by APPEND; per message one FETCH of (RFC822.SIZE BODYSTRUCTURE ENVELOPE BODY.PEEK[] BODY.PEEK[HEADER] BODY.PEEK[TEXT]), BODY.PEEK[p] for every leaf path, every container path and three absent paths, and 4 partial ranges around the ends of one leaf; distinct by (message, command); non-trivial for section paths and partials"
	dir, cleanup := hx.WorkDir("c14")
	defer cleanup()
	w, err := world.New(dir, "example.com")
	if err != nil {
		rep.Violate("broken-correspondence", "world", err.Error(), nil)
		rep.Finish()
	}
	defer w.Close()
	rng := hx.NewRng(o.Seed)
	n := 60
	if o.Thorough {
		n = 1200
	}
	c := w.Login("alice@example.com")
	defer c.Close()
	var msgs []*mimegen.Node
	var texts, toks []string
	for i := 0; i < n; i++ {
		t := mimegen.Gen(rng, 3)
		if i%9 == 4 {
			t = mimegen.GenDeep(rng, 5+rng.Intn(4))
		}
		tok := fmt.Sprintf("c14tok%d", i)
		m := t.Serialize(mimegen.TopHeaders(rng, tok))
		if c.Append("INBOX", "", m).OK() {
			msgs = append(msgs, t)
			texts = append(texts, m)
			toks = append(toks, tok)
		}
	}
	c.Cmd("SELECT INBOX")
	twins := mimegen.NewTwins(msgs)
	var ps []*probe
	ask := func(p *probe) {
		r := c.Cmd(p.cmd)
		p.raw = r.Raw
		ps = append(ps, p)
	}
	for i, t := range msgs {
		seq := i + 1
		ask(&probe{msg: t, text: texts[i], tok: toks[i], seq: seq, kind: "main", cmd: fmt.Sprintf("FETCH %d (RFC822.SIZE BODYSTRUCTURE ENVELOPE BODY.PEEK[] BODY.PEEK[HEADER] BODY.PEEK[TEXT])", seq)})
		paths := allPaths(t, "", true)
		absent := []string{"9", "1.9", "0"}
		if len(paths) > 0 {
			absent = append(absent, paths[len(paths)-1]+".1.1")
		}
		for _, p := range append(paths, absent...) {
			ask(&probe{msg: t, text: texts[i], tok: toks[i], seq: seq, kind: "path", path: p, cmd: fmt.Sprintf("FETCH %d (BODYSTRUCTURE BODY.PEEK[%s])", seq, p)})
		}
		// all sections in one command (a client fetching several parts at once), in a rotated order: every item is what the
		// command for that section alone returned
		if len(paths) >= 2 {
			rot := append(append([]string{}, paths[i%len(paths):]...), paths[:i%len(paths)]...)
			if len(rot) > 12 {
				rot = rot[:12]
			}
			var its []string
			for _, p := range rot {
				its = append(its, "BODY.PEEK["+p+"]")
			}
			ask(&probe{msg: t, text: texts[i], tok: toks[i], seq: seq, kind: "multi", path: strings.Join(rot, " "), cmd: fmt.Sprintf("FETCH %d (%s)", seq, strings.Join(its, " "))})
		}
		leaves := t.Leaves("", true)
		for p, l := range leaves {
			L := len(l.Content)
			for _, rg := range [][2]int{{0, 5}, {L / 2, 10}, {L, 5}, {0, L + 50}} {
				ask(&probe{msg: t, text: texts[i], tok: toks[i], seq: seq, kind: "partial", path: p, o: rg[0], n: rg[1], cmd: fmt.Sprintf("FETCH %d (BODY.PEEK[%s] BODY.PEEK[%s]<%d.%d>)", seq, p, p, rg[0], rg[1])})
			}
			break
		}
	}
	// the strict reader first
	var ops []string
	for _, p := range ps {
		ops = append(ops, "r.parse "+hx.H(p.raw))
	}
	parsed, err := hx.RunModel(o.Driver, ops)
	if err != nil {
		rep.Violate("broken-correspondence", "driver", err.Error(), nil)
		rep.Finish()
	}
	// second batch: the Lean split / path mapping / slice for the same inputs
	var ops2 []string
	idx2 := map[int]int{}
	for i, p := range ps {
		its := sx.FetchItems(parsed[i])
		if len(its) != 1 {
			continue
		}
		it := its[0]
		switch p.kind {
		case "main":
			idx2[i] = len(ops2)
			ops2 = append(ops2, "s.split "+hx.H(it["BODY[]"].Str()))
		case "path":
			idx2[i] = len(ops2)
			ops2 = append(ops2, "t.map "+p.path+" "+strings.Join(p.msg.Tokens(), " "))
		case "partial":
			idx2[i] = len(ops2)
			ops2 = append(ops2, fmt.Sprintf("s.cut %s %d %d", hx.H(it["BODY["+p.path+"]"].Str()), p.o, p.n))
		}
	}
	model, err := hx.RunModel(o.Driver, ops2)
	if err != nil {
		rep.Violate("broken-correspondence", "driver", err.Error(), nil)
		rep.Finish()
	}
	// third batch: the octet-level reader of Model/Mime on every fetched message text (Props.C02.tree_as_written /
	// message_as_written): is the text in the image of the model's writer, do the theorem's side conditions hold for it, which
	// shape does a reader see, and what is the body of the leaf at every section path
	var ops3 []string
	idx3 := map[int]int{}
	for i, p := range ps {
		if p.kind != "main" {
			continue
		}
		if its := sx.FetchItems(parsed[i]); len(its) == 1 && its[0]["BODY[]"] != nil {
			idx3[p.seq] = len(ops3)
			ops3 = append(ops3, "mm.observe "+hx.H(its[0]["BODY[]"].Str()))
		}
	}
	obs, err := hx.RunModel(o.Driver, ops3)
	if err != nil {
		rep.Violate("broken-correspondence", "driver", err.Error(), nil)
		rep.Finish()
	}
	type seen struct {
		fresh, image bool
		shape        string
		leaf         map[string]string
	}
	seenOf := map[int]*seen{}
	for seq, k := range idx3 {
		f := strings.Fields(obs[k])
		if len(f) < 4 || f[0] != "ok" {
			seenOf[seq] = nil
			continue
		}
		sn := &seen{fresh: f[1] == "fresh=true", image: f[2] == "image=true", shape: strings.TrimPrefix(f[3], "shape="), leaf: map[string]string{}}
		for _, lf := range f[4:] {
			if kv := strings.SplitN(lf, ":", 2); len(kv) == 2 {
				sn.leaf[kv[0]] = hx.UnH(kv[1])
			}
		}
		seenOf[seq] = sn
	}
	// what the command for one section alone returned
	single := map[string]string{}
	for i, p := range ps {
		if p.kind != "path" {
			continue
		}
		if its := sx.FetchItems(parsed[i]); len(its) == 1 {
			if v := its[0]["BODY["+strings.ToUpper(p.path)+"]"]; v != nil && !v.IsNil() {
				single[fmt.Sprint(p.seq, " ", p.path)] = "S" + v.Str()
			} else {
				single[fmt.Sprint(p.seq, " ", p.path)] = "NIL"
			}
		}
	}
	classes := map[string]int{}
	for i, p := range ps {
		rep.Case(p.tok+" "+p.cmd, p.kind != "main")
		rep.Hit("kind:" + p.kind)
		viol := func(class, what string) {
			classes[class]++
			if classes[class] <= 2 && len(rep.Violations) < 10 {
				rep.Violate("impl-violation", "attribute agreement (Props.C14)", fmt.Sprintf("message %s, %q: %s", p.tok, p.cmd, what), []string{"msg " + hx.H(p.text), "cmd " + hx.H(p.cmd)})
			}
		}
		its := sx.FetchItems(parsed[i])
		if len(its) != 1 {
			viol("parse", "the response is not one well-formed FETCH line: "+clip(parsed[i], 120))
			continue
		}
		it := its[0]
		switch p.kind {
		case "multi":
			for _, pp := range strings.Fields(p.path) {
				want, ok := single[fmt.Sprint(p.seq, " ", pp)]
				if !ok {
					continue
				}
				got := "NIL"
				if v := it["BODY["+strings.ToUpper(pp)+"]"]; v != nil && !v.IsNil() {
					got = "S" + v.Str()
				}
				if got != want {
					viol("multi-section", fmt.Sprintf("BODY[%s] asked together with other sections returns %q (%d octets); asked alone it returns %q (%d octets)", pp, clip(got, 60), len(got)-1, clip(want, 60), len(want)-1))
				}
			}
			rep.Hit("multi-section:agrees")
		case "main":
			body, hdr, txt := it["BODY[]"].Str(), it["BODY[HEADER]"].Str(), it["BODY[TEXT]"].Str()
			if sz := it["RFC822.SIZE"]; sz == nil || sz.Num != len(body) {
				viol("size", fmt.Sprintf("RFC822.SIZE %v but BODY[] has %d octets", sz, len(body)))
			}
			if hdr+txt != body {
				viol("header+text", fmt.Sprintf("BODY[HEADER] (%d octets) followed by BODY[TEXT] (%d) is not BODY[] (%d): HEADER ends %q, TEXT starts %q", len(hdr), len(txt), len(body), tail(hdr, 12), clip(txt, 12)))
			}
			if m := strings.Fields(model[idx2[i]]); len(m) == 2 && (hx.UnH(m[0]) != hdr || hx.UnH(m[1]) != txt) && hdr+txt == body {
				rep.Violate("broken-correspondence", "BODY[HEADER]/BODY[TEXT] vs Model/Split", fmt.Sprintf("message %s: server splits after %d octets, model after %d", p.tok, len(hdr), len(hx.UnH(m[0]))), []string{"msg " + hx.H(p.text)})
			}
			envelope(p, it["ENVELOPE"], viol)
			if p.msg.Multi {
				sn, asked := seenOf[p.seq]
				switch {
				case !asked:
				case sn == nil:
					rep.Violate("broken-correspondence", "BODY[] vs Model/Mime (reader)", fmt.Sprintf("message %s: the octet-level reader of the model cannot take the fetched text apart", p.tok), []string{"msg " + hx.H(p.text)})
				default:
					if !sn.image {
						rep.Violate("broken-correspondence", "BODY[] vs Model/Mime (writer)", fmt.Sprintf("message %s: the fetched text is not what the model's writer produces from the parts a reader finds in it (delimiter lines, closing delimiter, line ends)", p.tok), []string{"msg " + hx.H(p.text)})
					}
					if sn.fresh {
						rep.Hit("mime:side-condition-holds")
					} else {
						rep.Hit("mime:side-condition-fails")
					}
					// the shape a reader of BODY[] sees is the shape BODYSTRUCTURE announces and the shape that was submitted
					want := shapeOfNode(p.msg)
					if got := shapeOfDigest(sn.shape); got != want {
						viol("shape", fmt.Sprintf("a reader of BODY[] finds the parts %s, submitted were %s (octet-level reader, Props.C02.message_as_written; side condition holds: %v)", got, want, sn.fresh))
					}
					if bs := it["BODYSTRUCTURE"]; bs != nil {
						if got := shapeOfBS(bs); got != shapeOfDigest(sn.shape) {
							rep.Violate("broken-correspondence", "BODYSTRUCTURE vs Model/Mime (reader)", fmt.Sprintf("message %s: BODYSTRUCTURE announces the shape %s, the model's reader finds %s in BODY[]", p.tok, got, shapeOfDigest(sn.shape)), []string{"msg " + hx.H(p.text)})
						}
					}
				}
			}
		case "path":
			val := it["BODY["+strings.ToUpper(p.path)+"]"]
			m := model[idx2[i]]
			if m == "MISMATCH" {
				rep.Violate("broken-correspondence", "Model/PartTree.mapPath vs subtreeAt", "the model disagrees with its own specification on "+p.path, []string{"msg " + hx.H(p.text)})
				continue
			}
			bs := it["BODYSTRUCTURE"]
			node := bsAt(bs, p.path, p.msg.Multi)
			if m == "none" {
				if !val.IsNil() {
					viol("absent-path", fmt.Sprintf("section %s does not exist in the message, yet BODY[%s] returns %d octets", p.path, p.path, len(val.Str())))
				}
				if node != nil {
					viol("absent-path", fmt.Sprintf("section %s does not exist in the submitted message but BODYSTRUCTURE has a part there", p.path))
				}
				rep.Hit("path:absent")
				continue
			}
			rep.Hit("path:present")
			if node == nil {
				viol("structure", fmt.Sprintf("BODYSTRUCTURE has no part at path %s", p.path))
				continue
			}
			leaf := p.msg.Leaves("", true)[p.path]
			if leaf == nil {
				continue // a container: BODY[p] is cut out of the reconstructed text (correspondence of the cut is not demanded here)
			}
			// media type, encoding, size announced vs returned
			if len(node.L) < 7 || node.L[0].Kind != "quoted" {
				viol("structure", fmt.Sprintf("part %s of BODYSTRUCTURE is not a leaf description", p.path))
				continue
			}
			mt := strings.ToLower(node.L[0].Str() + "/" + node.L[1].Str())
			if mt != strings.ToLower(leaf.CType) {
				viol("media-type", fmt.Sprintf("part %s announced as %s, submitted as %s", p.path, mt, leaf.CType))
			}
			enc := strings.ToLower(node.L[5].Str())
			size := node.L[6].Num
			got := val.Str()
			if twins.CrossEncoded(leaf) && (size != len(got) || !same(decode(got, enc), string(leaf.Content))) {
				// class predicate of finding C14-F3 (= C02-F1 / C15-F1): the shared blob store already held this content under
				// another transfer encoding and hands out the first writer's text
				rep.Finding("C14-F3", fmt.Sprintf("cross-encoding de-duplication: message %s part %s (announced encoding %q, %d octets): BODY[%s] returns %d octets that are another part's text", p.tok, p.path, enc, size, p.path, len(got)), []string{"msg " + hx.H(p.text), "cmd " + hx.H(p.cmd)})
				continue
			}
			if size != len(got) {
				if strings.HasSuffix(got, "\r\n") && size == len(got)-2 {
					// class predicate of finding C14-F1: the leaf's stored content ends with CRLF
					rep.Finding("C14-F1", fmt.Sprintf("message %s part %s: BODYSTRUCTURE announces %d octets, BODY[%s] returns %d (the final line break of the stored content is not counted)", p.tok, p.path, size, p.path, len(got)), []string{"msg " + hx.H(p.text), "cmd " + hx.H(p.cmd)})
				} else {
					viol("size", fmt.Sprintf("part %s: BODYSTRUCTURE announces %d octets, BODY[%s] returns %d", p.path, size, p.path, len(got)))
				}
			}
			// BODY[p] is the part a reader of BODY[] finds at p (up to the line end in front of the next delimiter)
			if sn := seenOf[p.seq]; sn != nil && p.msg.Multi {
				if inText, ok := sn.leaf[p.path]; ok {
					if got != inText && got != inText+"\r\n" && !sameUnfolded(got, inText, enc) {
						viol("body-vs-section", fmt.Sprintf("part %s: BODY[%s] returns %d octets, the part at %s of BODY[] has %d octets", p.path, p.path, len(got), p.path, len(inText)))
					} else {
						rep.Hit("mime:section-is-part-of-text")
					}
				}
			}
			dec := decode(got, enc)
			if !same(dec, string(leaf.Content)) {
				viol("content", fmt.Sprintf("part %s (announced encoding %q): decoded BODY[%s] is not the submitted content: %d vs %d octets", p.path, enc, p.path, len(dec), len(leaf.Content)))
			}
		case "partial":
			whole := it["BODY["+strings.ToUpper(p.path)+"]"].Str()
			part := it[fmt.Sprintf("BODY[%s]<%d>", strings.ToUpper(p.path), p.o)]
			want := model[idx2[i]]
			if want == "refuse" {
				continue
			}
			if part == nil {
				// origin at or beyond the end: the server answers BODY[p] NIL without <o> (finding class C13-F1 c); content-wise it is the empty slice
				if hx.UnH(want) != "" {
					viol("partial", fmt.Sprintf("BODY[%s]<%d.%d> is not answered; the slice has %d octets", p.path, p.o, p.n, len(hx.UnH(want))))
				}
				continue
			}
			if part.Str() != hx.UnH(want) {
				viol("partial", fmt.Sprintf("BODY[%s]<%d.%d> returns %q, the slice of BODY[%s] (%d octets) is %q", p.path, p.o, p.n, clip(part.Str(), 40), p.path, len(whole), clip(hx.UnH(want), 40)))
			}
			rep.Hit("partial-checked")
		}
	}
	for k, v := range classes {
		rep.Note("violations of class %s: %d", k, v)
	}
	if len(ps) > 1 {
		rep.Sample(ps[0].cmd)
		rep.Sample(ps[1].cmd)
	}
	// ---- the same decoded content in one encoding, folded differently (76 / 60 / 40 columns): single-part messages above the
	// out-of-line threshold; the announced size is the size of what BODY[] returns, whichever text the store hands out ----
	if o.Replay == "" {
		payload := []byte(strings.Repeat("The same decoded content in every one of these messages. ", 40))
		enc := base64.StdEncoding.EncodeToString(payload)
		fold := func(cols int) string {
			var sb strings.Builder
			for i := 0; i < len(enc); i += cols {
				j := i + cols
				if j > len(enc) {
					j = len(enc)
				}
				sb.WriteString(enc[i:j] + "\r\n")
			}
			return sb.String()
		}
		for k, cols := range []int{76, 60, 40, 76} {
			tok := fmt.Sprintf("c14fold%d", k)
			msg := "From: Sender Name <sender@example.org>\r\nTo: rcpt@example.com\r\nSubject: " + tok + "\r\nMIME-Version: 1.0\r\nContent-Type: application/octet-stream\r\nContent-Transfer-Encoding: base64\r\n\r\n" + fold(cols)
			if !c.Append("INBOX", "", msg).OK() {
				continue
			}
			c.Cmd("SELECT INBOX")
			seq := ""
			for _, l := range c.Cmd("SEARCH SUBJECT " + tok).Untagged {
				if f := strings.Fields(l); len(f) >= 3 {
					seq = f[len(f)-1]
				}
			}
			if seq == "" {
				continue
			}
			rep.Case("fold|"+tok, true)
			r := c.Cmd("FETCH " + seq + " (RFC822.SIZE BODY.PEEK[])")
			raw := strings.Join(r.Untagged, "\n")
			ms := regexp.MustCompile(`RFC822\.SIZE (\d+)`).FindStringSubmatch(raw)
			ml := regexp.MustCompile(`BODY\[\] \{(\d+)\}`).FindStringSubmatch(raw)
			if ms == nil || ml == nil {
				rep.Violate("impl-violation", "attribute agreement (Props.C14)", fmt.Sprintf("message %s: FETCH (RFC822.SIZE BODY.PEEK[]) did not return both items: %q", tok, clip(raw, 160)), []string{"msg " + hx.H(msg)})
				continue
			}
			if ms[1] != ml[1] {
				rep.Violate("impl-violation", "attribute agreement (Props.C14.size_is_sum: RFC822.SIZE = length of BODY[])", fmt.Sprintf("message %s (single part, base64 folded at %d columns, the same decoded content as earlier messages): RFC822.SIZE %s but BODY[] has %s octets", tok, cols, ms[1], ml[1]), []string{"msg " + hx.H(msg)})
			}
			rep.Hit("fold:size-checked")
		}
	}
	// ---- the same attributes in every store one session can open: a personal mailbox and two role mailboxes, whose stores
	// number their messages alike (each starts at 1) and hold messages of different lengths; sizes asked before and after the
	// other store was read, in one session and in a second one ----
	if o.Replay == "" {
		shared := w.Mgr.GetSharedDB()
		w.Login("holder@example.com").Close()
		domID, _ := db.GetOrCreateDomain(shared, "example.com")
		hid, _ := db.GetUserByEmail(shared, "holder@example.com")
		boxes := []string{"INBOX"}
		for i, addr := range []string{"desk1@example.com", "desk2@example.com"} {
			if id, err := db.CreateRoleMailbox(shared, addr, domID, ""); err == nil {
				db.AssignUserToRoleMailbox(shared, hid, id, hid)
				boxes = append(boxes, "Roles/"+addr+"/INBOX")
				for k := 0; k < 2; k++ {
					w.Deliver("s@example.org", []string{addr}, fmt.Sprintf("From: s@example.org\r\nTo: %s\r\nSubject: store %d message %d\r\n\r\n%s", addr, i, k, strings.Repeat("a line of the body\r\n", 3+40*i+7*k)))
				}
			}
		}
		for k := 0; k < 2; k++ {
			w.Deliver("s@example.org", []string{"holder@example.com"}, fmt.Sprintf("From: s@example.org\r\nTo: holder@example.com\r\nSubject: own message %d\r\n\r\n%s", k, strings.Repeat("personal\r\n", 100+k)))
		}
		for round := 0; round < 2; round++ {
			c := w.Login("holder@example.com")
			for _, box := range append(boxes, boxes[0]) {
				if !c.Cmd("SELECT " + box).OK() {
					rep.Violate("broken-correspondence", "world", "cannot select "+box, nil)
					continue
				}
				for seq := 1; seq <= 2; seq++ {
					rep.Case(fmt.Sprintf("stores|%d|%s|%d", round, box, seq), true)
					raw := strings.Join(c.Cmd(fmt.Sprintf("FETCH %d (RFC822.SIZE BODY.PEEK[])", seq)).Untagged, "\n")
					ms := regexp.MustCompile(`RFC822\.SIZE (\d+)`).FindStringSubmatch(raw)
					ml := regexp.MustCompile(`BODY\[\] \{(\d+)\}`).FindStringSubmatch(raw)
					if ms == nil || ml == nil || ms[1] != ml[1] {
						rep.Violate("impl-violation", "attribute agreement (Props.C14.size_is_sum: RFC822.SIZE = length of BODY[])", fmt.Sprintf("message %d of %s (a holder of two role mailboxes reading its stores one after the other): FETCH (RFC822.SIZE BODY.PEEK[]) answered %q", seq, box, clip(raw, 200)), []string{"stores " + box})
					}
					rep.Hit("stores:size-checked")
				}
			}
			c.Close()
		}
	}
	// ---- whatever BODYSTRUCTURE announces can be fetched: for messages that carry another message (forwarded as attachment,
	// in the encodings a message/rfc822 part may have), every leaf path the structure shows — also below an embedded message,
	// if the structure describes one — returns a body, not NIL ----
	if o.Replay == "" {
		c := w.Login("fwd@example.com")
		inner := "From: inner@example.org\r\nTo: x@example.com\r\nSubject: inner\r\nMIME-Version: 1.0\r\nContent-Type: multipart/alternative; boundary=in\r\n\r\n--in\r\nContent-Type: text/plain\r\n\r\ninner text part\r\n--in\r\nContent-Type: text/html\r\n\r\n<p>inner html part</p>\r\n--in--\r\n"
		for k, cte := range []string{"", "7bit", "8bit", "binary"} {
			hdr := "Content-Type: message/rfc822\r\n"
			if cte != "" {
				hdr += "Content-Transfer-Encoding: " + cte + "\r\n"
			}
			c.Append("INBOX", "", fmt.Sprintf("From: a@example.org\r\nTo: fwd@example.com\r\nSubject: forwarded %d\r\nMIME-Version: 1.0\r\nContent-Type: multipart/mixed; boundary=out\r\n\r\n--out\r\nContent-Type: text/plain\r\n\r\nsee the forwarded message\r\n--out\r\n%s\r\n%s--out--\r\n", k, hdr, inner))
		}
		c.Cmd("SELECT INBOX")
		for seq := 1; seq <= 4; seq++ {
			r := c.Cmd(fmt.Sprintf("FETCH %d (BODYSTRUCTURE)", seq))
			parsed, err := hx.RunModel(o.Driver, []string{"r.parse " + hx.H(r.Raw)})
			if err != nil || len(parsed) != 1 {
				break
			}
			its := sx.FetchItems(parsed[0])
			if len(its) != 1 || its[0]["BODYSTRUCTURE"] == nil {
				rep.Violate("impl-violation", "attribute agreement (Props.C14)", fmt.Sprintf("forwarded message %d: FETCH (BODYSTRUCTURE) is not one well-formed FETCH line: %q", seq, clip(r.Raw, 200)), []string{"forwarded"})
				continue
			}
			for _, lp := range announcedLeaves(its[0]["BODYSTRUCTURE"], "") {
				rep.Case(fmt.Sprintf("forwarded|%d|%s", seq, lp), true)
				f := c.Cmd(fmt.Sprintf("FETCH %d (BODY.PEEK[%s])", seq, lp))
				raw := strings.Join(f.Untagged, "\n")
				if !f.OK() || !strings.Contains(raw, "{") {
					rep.Violate("impl-violation", "attribute agreement (Props.C14: every leaf at path p of BODYSTRUCTURE is returned by BODY[p])", fmt.Sprintf("message %d (a forwarded message as message/rfc822): BODYSTRUCTURE shows a leaf at %s, and FETCH BODY.PEEK[%s] answers %q %q", seq, lp, lp, clip(raw, 120), f.Tagged), []string{"forwarded"})
				}
				rep.Hit("forwarded:leaf-fetched")
			}
		}
		c.Close()
	}
	// ---- ENVELOPE address lists over generated address fields ----
	if o.Replay == "" {
		ne := 150
		if o.Thorough {
			ne = 2500
		}
		envelopeStream(o, rep, w, rng.Fork(), ne)
	}
	rep.Finish()
}

// shapes: "(L L (L L))" — nesting and number of parts only
func shapeOfNode(n *mimegen.Node) string {
	if !n.Multi {
		return "L"
	}
	var cs []string
	for _, c := range n.Children {
		cs = append(cs, shapeOfNode(c))
	}
	return "(" + strings.Join(cs, " ") + ")"
}

var reLB = regexp.MustCompile(`[LB][0-9-]+`)

func shapeOfDigest(d string) string {
	d = strings.ReplaceAll(d, ",", " ")
	return reLB.ReplaceAllStringFunc(d, func(m string) string {
		if m[0] == 'L' {
			return "L"
		}
		return ""
	})
}

func shapeOfBS(bs *sx.V) string {
	if bs == nil || bs.Kind != "list" || len(bs.L) == 0 {
		return "?"
	}
	if bs.L[0].Kind != "list" {
		return "L"
	}
	var cs []string
	for _, c := range bs.L {
		if c.Kind != "list" {
			break
		}
		cs = append(cs, shapeOfBS(c))
	}
	return "(" + strings.Join(cs, " ") + ")"
}

// sameUnfolded: base64 text may be folded anew by the writer (76-column lines): equal up to line breaks
func sameUnfolded(a, b, enc string) bool {
	if enc != "base64" {
		return false
	}
	strip := func(s string) string { return strings.NewReplacer("\r", "", "\n", "").Replace(s) }
	return strip(a) == strip(b)
}

func envelope(p *probe, env *sx.V, viol func(string, string)) {
	if env == nil || env.Kind != "list" || len(env.L) != 10 {
		viol("envelope", "ENVELOPE is not a list of ten fields")
		return
	}
	hdr := func(name string) string {
		block := strings.SplitN(p.text, "\r\n\r\n", 2)[0]
		for _, l := range strings.Split(block, "\r\n") {
			if strings.HasPrefix(strings.ToLower(l), strings.ToLower(name)+":") {
				return strings.TrimSpace(l[len(name)+1:])
			}
		}
		return ""
	}
	if got := env.L[1].Str(); got != hdr("Subject") {
		viol("envelope", fmt.Sprintf("ENVELOPE subject %q, Subject header %q", got, hdr("Subject")))
	}
	if got := env.L[0].Str(); got != hdr("Date") {
		viol("envelope", fmt.Sprintf("ENVELOPE date %q, Date header %q", got, hdr("Date")))
	}
	if got := env.L[9].Str(); got != hdr("Message-ID") {
		viol("envelope", fmt.Sprintf("ENVELOPE message-id %q, Message-ID header %q", got, hdr("Message-ID")))
	}
	// From: "Sender Name <sender@example.org>" -> (("Sender Name" NIL "sender" "example.org"))
	if f := env.L[2]; f.Kind != "list" || len(f.L) != 1 || len(f.L[0].L) != 4 || f.L[0].L[0].Str() != "Sender Name" || f.L[0].L[2].Str() != "sender" || f.L[0].L[3].Str() != "example.org" {
		viol("envelope", "ENVELOPE from is not ((\"Sender Name\" NIL \"sender\" \"example.org\"))")
	}
	if t := env.L[5]; t.Kind != "list" || len(t.L) != 1 || len(t.L[0].L) != 4 || t.L[0].L[2].Str() != "rcpt" || t.L[0].L[3].Str() != "example.com" {
		viol("envelope", "ENVELOPE to is not ((NIL NIL \"rcpt\" \"example.com\"))")
	}
	// Cc: "Doe, John" <jd@example.org>, other@example.org  — a comma inside a quoted display name (finding C14-F2's class)
	if cc := hdr("Cc"); cc != "" {
		c := env.L[6]
		ok := c.Kind == "list" && len(c.L) == 2 && len(c.L[0].L) == 4 && c.L[0].L[2].Str() == "jd" && c.L[0].L[0].Str() == "Doe, John" && c.L[1].L[2].Str() == "other"
		if !ok {
			p2 := *p
			_ = p2
			viol("envelope", fmt.Sprintf("Cc %q is answered as %d address structures", cc, len(c.L)))
		}
	}
}

var repFinding func(id, what string, p *probe)

func init() {
	repFinding = func(id, what string, p *probe) {}
}

func allPaths(n *mimegen.Node, prefix string, root bool) []string {
	if !n.Multi {
		if root {
			return []string{"1"}
		}
		return []string{prefix}
	}
	var out []string
	if !root {
		out = append(out, prefix)
	}
	for i, c := range n.Children {
		p := fmt.Sprint(i + 1)
		if prefix != "" {
			p = prefix + "." + p
		}
		out = append(out, allPaths(c, p, false)...)
	}
	return out
}

// bsAt navigates BODYSTRUCTURE: a multipart is a list whose first element is a list; child i is element i-1.
func bsAt(bs *sx.V, path string, rootMulti bool) *sx.V {
	if bs == nil || bs.Kind != "list" {
		return nil
	}
	cur := bs
	parts := strings.Split(path, ".")
	for k, ps := range parts {
		var i int
		fmt.Sscan(ps, &i)
		isMulti := len(cur.L) > 0 && cur.L[0].Kind == "list"
		if !isMulti {
			if k == 0 && i == 1 && len(parts) == 1 && !rootMulti {
				return cur
			}
			return nil
		}
		if i < 1 || i > len(cur.L) || cur.L[i-1].Kind != "list" {
			return nil
		}
		cur = cur.L[i-1]
	}
	return cur
}

func decode(s, enc string) string {
	switch enc {
	case "base64":
		b, err := base64.StdEncoding.DecodeString(strings.NewReplacer("\r", "", "\n", "").Replace(s))
		if err != nil {
			return "<undecodable base64>"
		}
		return string(b)
	case "quoted-printable":
		b, err := io.ReadAll(quotedprintable.NewReader(strings.NewReader(s)))
		if err != nil {
			return "<undecodable qp>"
		}
		return string(b)
	}
	return s
}

func same(a, b string) bool {
	return a == b || a == b+"\r\n" || b == a+"\r\n" || a == b+"\n" || b == a+"\n"
}

func clip(s string, n int) string {
	if len(s) > n {
		return s[:n] + "…"
	}
	return s
}
func tail(s string, n int) string {
	if len(s) > n {
		return s[len(s)-n:]
	}
	return s
}

// announcedLeaves: the section paths of the leaves a BODYSTRUCTURE shows, descending into the body structure of an embedded
// message where a message/rfc822 part carries one (RFC 3501: envelope, body, lines after the basic fields)
func announcedLeaves(n *sx.V, path string) []string {
	if n == nil || n.Kind != "list" || len(n.L) == 0 {
		return nil
	}
	join := func(i int) string {
		if path == "" {
			return fmt.Sprint(i)
		}
		return fmt.Sprintf("%s.%d", path, i)
	}
	if n.L[0].Kind == "list" {
		var out []string
		for i, c := range n.L {
			if c.Kind != "list" {
				break
			}
			out = append(out, announcedLeaves(c, join(i+1))...)
		}
		return out
	}
	self := path
	if self == "" {
		self = "1"
	}
	if len(n.L) >= 10 && strings.EqualFold(n.L[0].S, "message") && strings.EqualFold(n.L[1].S, "rfc822") && n.L[8].Kind == "list" && len(n.L[8].L) > 0 {
		emb := n.L[8]
		if emb.L[0].Kind == "list" {
			return announcedLeaves(emb, self)
		}
		return announcedLeaves(emb, self+".1")
	}
	return []string{self}
}
