// The ENVELOPE address stream of C14: messages whose From / Sender / Reply-To / To / Cc / Bcc fields are generated from a list
// of intended (display name, mailbox, host) triples — display names plain, quoted, and quoted with commas, angle brackets,
// semicolons, parentheses and escaped quotes inside; one to three addresses per field, separated with and without blanks and
// folded over lines. The ENVELOPE of the stored message must carry exactly the intended triples (an absent Sender / Reply-To
// defaults to From, any other absent field is NIL), and exactly what the Lean model of parseAddressList (Model/Slices.lean)
// computes from the field's text.
package main

import (
	"fmt"
	"strings"

	"raven/verifh/hx"
	"raven/verifh/sx"
	"raven/verifh/world"
)

type triple struct{ name, mailbox, host string }

type addrField struct {
	name   string   // header field name
	want   []triple // intended structures
	value  string   // field value as written (possibly folded)
	folded bool
	exact  bool // the intended display names are also what a strict reading of RFC 5322 gives (no escapes inside)
}

type envMsg struct {
	tok    string
	text   string
	fields map[string]*addrField
}

var plainNames = []string{"Alice", "Bob Builder", "Dr. Who", "O'Neil", "caf\xc3\xa9 owner", "=?utf-8?q?caf=C3=A9?="}
var quotedNames = []string{"Doe, John", "a <b>", "x > y", "semi; colon", "(paren) name", "Last, First, Jr.", "<<", "a@b", "tab\there", ">", "<", "one,two<three>four"}
var escapedNames = []string{`John \"Johnny\" Doe`, `back\\slash`, `esc \", comma`, `\"<`}

func genTriple(rng *hx.Rng) (triple, string, bool) {
	mb := rng.Pick([]string{"jd", "first.last", "a+tag", "x", "user_1"})
	host := rng.Pick([]string{"example.org", "x.example.com", "h", "mail.example.net"})
	switch rng.Intn(6) {
	case 0:
		return triple{"", mb, host}, mb + "@" + host, true
	case 1:
		return triple{"", mb, host}, "<" + mb + "@" + host + ">", true
	case 2:
		n := rng.Pick(plainNames)
		return triple{n, mb, host}, n + " <" + mb + "@" + host + ">", true
	case 3, 4:
		n := rng.Pick(quotedNames)
		return triple{n, mb, host}, "\"" + n + "\" <" + mb + "@" + host + ">", true
	default:
		n := rng.Pick(escapedNames)
		// the server keeps the text between the outer quotes as it is written (escapes included)
		return triple{n, mb, host}, "\"" + n + "\" <" + mb + "@" + host + ">", false
	}
}

func genField(rng *hx.Rng, name string, lo, hi int) *addrField {
	n := lo + rng.Intn(hi-lo+1)
	if n == 0 {
		return nil
	}
	f := &addrField{name: name, exact: true}
	var parts []string
	for i := 0; i < n; i++ {
		t, text, exact := genTriple(rng)
		f.want = append(f.want, t)
		f.exact = f.exact && exact
		parts = append(parts, text)
	}
	for i, p := range parts {
		if i > 0 {
			switch rng.Intn(4) {
			case 0:
				f.value += ","
			case 1:
				f.value += ",\r\n "
				f.folded = true
			case 2:
				f.value += " , "
			default:
				f.value += ", "
			}
		}
		f.value += p
	}
	return f
}

func genEnvMsg(rng *hx.Rng, tok string) *envMsg {
	m := &envMsg{tok: tok, fields: map[string]*addrField{}}
	var b strings.Builder
	for _, spec := range []struct {
		name   string
		lo, hi int
	}{{"From", 1, 1}, {"Sender", 0, 1}, {"Reply-To", 0, 2}, {"To", 1, 3}, {"Cc", 0, 3}, {"Bcc", 0, 2}} {
		if f := genField(rng, spec.name, spec.lo, spec.hi); f != nil {
			m.fields[spec.name] = f
			b.WriteString(spec.name + ": " + f.value + "\r\n")
		}
	}
	b.WriteString("Subject: " + tok + "\r\nDate: Mon, 02 Jan 2006 15:04:05 +0000\r\nMessage-ID: <" + tok + "@example.org>\r\n\r\nbody of " + tok + "\r\n")
	m.text = b.String()
	return m
}

// triplesOf reads an ENVELOPE address list: NIL = none.
func triplesOf(v *sx.V) ([]triple, bool) {
	if v.IsNil() {
		return nil, true
	}
	if v.Kind != "list" {
		return nil, false
	}
	var out []triple
	for _, a := range v.L {
		if a.Kind != "list" || len(a.L) != 4 || !a.L[1].IsNil() {
			return nil, false
		}
		out = append(out, triple{a.L[0].Str(), a.L[2].Str(), a.L[3].Str()})
	}
	return out, true
}

func showTriples(ts []triple) string {
	if len(ts) == 0 {
		return "NIL"
	}
	var s []string
	for _, t := range ts {
		s = append(s, fmt.Sprintf("(%q %q %q)", t.name, t.mailbox, t.host))
	}
	return strings.Join(s, " ")
}

func sameTriples(a, b []triple) bool {
	if len(a) != len(b) {
		return false
	}
	for i := range a {
		if a[i] != b[i] {
			return false
		}
	}
	return true
}

// modelTriples reads the driver's answer to `x.addr`.
func modelTriples(ans string) ([]triple, bool) {
	if ans == "." {
		return nil, true
	}
	if ans == "panic" || ans == "" {
		return nil, false
	}
	var out []triple
	for _, p := range strings.Split(ans, ";") {
		f := strings.Split(p, "|")
		if len(f) != 3 {
			return nil, false
		}
		out = append(out, triple{hx.UnH(f[0]), hx.UnH(f[1]), hx.UnH(f[2])})
	}
	return out, true
}

// envelopeSlots: field name -> index in ENVELOPE; Sender and Reply-To default to From.
var envelopeSlots = []struct {
	name string
	idx  int
	dflt string
}{{"From", 2, ""}, {"Sender", 3, "From"}, {"Reply-To", 4, "From"}, {"To", 5, ""}, {"Cc", 6, ""}, {"Bcc", 7, ""}}

// envelopeStream stores n generated messages in a mailbox of their own and judges their ENVELOPEs.
func envelopeStream(o *hx.Opts, rep *hx.Report, w *world.World, rng *hx.Rng, n int) {
	c := w.Login("envelope@example.com")
	defer c.Close()
	var msgs []*envMsg
	for i := 0; i < n; i++ {
		m := genEnvMsg(rng, fmt.Sprintf("c14env%d", i))
		if c.Append("INBOX", "", m.text).OK() {
			msgs = append(msgs, m)
		}
	}
	c.Cmd("SELECT INBOX")
	var ops []string
	for i := range msgs {
		ops = append(ops, "r.parse "+hx.H(c.Cmd(fmt.Sprintf("FETCH %d (ENVELOPE)", i+1)).Raw))
	}
	parsed, err := hx.RunModel(o.Driver, ops)
	if err != nil {
		rep.Violate("broken-correspondence", "driver", err.Error(), nil)
		return
	}
	var ops2 []string
	for _, m := range msgs {
		for _, s := range envelopeSlots {
			v := ""
			if f := m.fields[s.name]; f != nil {
				v = strings.ReplaceAll(f.value, "\r\n ", " ")
			}
			ops2 = append(ops2, "x.addr "+hx.H(v))
		}
	}
	model, err := hx.RunModel(o.Driver, ops2)
	if err != nil {
		rep.Violate("broken-correspondence", "driver", err.Error(), nil)
		return
	}
	nv, nc := 0, 0
	for i, m := range msgs {
		cmd := fmt.Sprintf("FETCH %d (ENVELOPE)", i+1)
		rep.Case(m.tok+" "+cmd, true)
		rep.Hit("kind:envelope")
		its := sx.FetchItems(parsed[i])
		if len(its) != 1 || its[0]["ENVELOPE"] == nil || its[0]["ENVELOPE"].Kind != "list" || len(its[0]["ENVELOPE"].L) != 10 {
			rep.Violate("impl-violation", "attribute agreement (Props.C14)", fmt.Sprintf("message %s, %q: the answer is not one FETCH line with a ten-field ENVELOPE: %s", m.tok, cmd, clip(parsed[i], 160)), []string{"msg " + hx.H(m.text), "cmd " + hx.H(cmd)})
			continue
		}
		env := its[0]["ENVELOPE"]
		for k, s := range envelopeSlots {
			f := m.fields[s.name]
			src := s.name
			if f == nil && s.dflt != "" {
				f, src = m.fields[s.dflt], s.dflt+" (the default of an absent "+s.name+")"
			}
			var want []triple
			value := ""
			if f != nil {
				want, value = f.want, f.value
				rep.Hit(fmt.Sprintf("addresses:%d", len(f.want)))
				if f.folded {
					rep.Hit("addr:folded")
				}
			} else {
				rep.Hit("addresses:absent")
			}
			got, ok := triplesOf(env.L[s.idx])
			if !ok || !sameTriples(got, want) {
				nv++
				if nv <= 3 {
					rep.Violate("impl-violation", "ENVELOPE vs header fields (Props.C14.envelope_address_faithful)", fmt.Sprintf("message %s: ENVELOPE %s is %s, the %s field %q holds %s", m.tok, strings.ToLower(s.name), showTriples(got), src, value, showTriples(want)), []string{"msg " + hx.H(m.text), "cmd " + hx.H(cmd)})
				}
				continue
			}
			// the model of parseAddressList on the same text (an absent Sender / Reply-To is asked with the empty text: NIL)
			if m.fields[s.name] != nil {
				if mt, ok := modelTriples(model[i*len(envelopeSlots)+k]); !ok || !sameTriples(mt, got) {
					nc++
					if nc <= 3 {
						rep.Violate("broken-correspondence", "ENVELOPE vs Model/Slices.addressList", fmt.Sprintf("message %s: field %s %q: server %s, model %s", m.tok, s.name, value, showTriples(got), showTriples(mt)), []string{"msg " + hx.H(m.text)})
					}
				}
			}
		}
	}
}
