// C11 correspondence: histories of CREATE / DELETE / RENAME / SUBSCRIBE / UNSUBSCRIBE (with messages present) over
// adversarial mailbox names on the real server vs the Lean machine whose name set is proved exact; LIST "" "*", LSUB
// and STATUS compared after every op.
package main

import (
	"fmt"
	"sort"
	"strconv"
	"strings"

	"raven/verifh/hist"
	"raven/verifh/hx"
	"raven/verifh/world"
)

// TokenSafe atoms (no blank, quote, backslash, braces, parentheses): `_` and `%` are SQL LIKE wildcards, case twins,
// names that are prefixes of each other, INBOX look-alikes
var atoms = []string{"a", "A", "a_b", "axb", "a%b", "aqqb", "foo", "FOO", "Foo", "ab", "b", "inbox", "Inbox", "INBOXX", "sent", "Sent", "Trash", "x-y", "x.y", "é", "_", "%",
	// `?`, `*` and `[...]` are GLOB wildcards; each with a name it would match as a pattern
	"Q?", "QA", "[L]", "L", "[a-c]", "a*", "a?b"}

func genName(rng *hx.Rng, made []string) string {
	if len(made) > 0 && rng.Chance(55) {
		n := rng.Pick(made)
		switch rng.Intn(6) {
		case 0:
			return n + "/" + rng.Pick(atoms)
		case 1:
			if i := strings.LastIndex(n, "/"); i > 0 {
				return n[:i]
			}
		case 2:
			return n + "/"
		case 3:
			// the case twin of an existing name or of one of its ancestors: another mailbox altogether
			t := n
			if i := strings.Index(n, "/"); i > 0 && rng.Bool() {
				t = n[:i]
			}
			if u := strings.ToUpper(t); u != t && u != "INBOX" {
				return u
			}
			if l := strings.ToLower(t); l != t && l != "inbox" {
				return l
			}
		}
		return n
	}
	if rng.Chance(6) {
		// the path prefix SELECT / EXAMINE read as "a role mailbox": a name the user creates there must behave like any other
		// name — or be refused
		return rng.Pick([]string{"Roles", "Roles/", "Roles/" + rng.Pick([]string{"x@example.com", "team@example.com"}) + "/" + rng.Pick(atoms), "roles/" + rng.Pick(atoms), "Rolesx"})
	}
	d := 1 + rng.Intn(3)
	var p []string
	for i := 0; i < d; i++ {
		switch {
		case i > 0 && rng.Chance(20):
			p = append(p, p[rng.Intn(i)]) // the same segment again further down: a/b/a
		case i > 0 && rng.Chance(15):
			p = append(p, rng.Pick([]string{"x", "home", "q"})+p[rng.Intn(i)]) // a segment ending in an earlier one: work/homework
		default:
			p = append(p, rng.Pick(atoms))
		}
	}
	n := strings.Join(p, "/")
	if rng.Chance(8) {
		n += "/"
	}
	if rng.Chance(5) {
		n = `"` + n + `"`
	}
	return n
}

func genHist(rng *hx.Rng, n int) []hist.Op {
	var ops []hist.Op
	var made, subbed []string
	msg := 1
	op := func(k string, a ...string) { ops = append(ops, hist.Op{Kind: k, Args: a}) }
	for len(ops) < n {
		switch x := rng.Intn(100); {
		case x < 34:
			nm := genName(rng, made)
			op("create", nm)
			made = append(made, strings.Trim(strings.TrimSuffix(strings.Trim(nm, `"`), "/"), `"`))
		case x < 50:
			op("delete", genName(rng, made))
		case x < 70:
			a, b := genName(rng, append(made, "INBOX", "Sent")), genName(rng, made)
			op("rename", a, b)
			made = append(made, strings.Trim(b, `"`))
		case x < 80:
			nm := genName(rng, append(made, "INBOX", "nosuch"))
			op("sub", nm)
			subbed = append(subbed, nm)
		case x < 88:
			if len(subbed) > 0 && rng.Chance(70) {
				op("unsub", rng.Pick(subbed))
			} else {
				op("unsub", genName(rng, append(made, "INBOX", "Sent")))
			}
		default:
			if len(made) > 0 {
				op("append", rng.Pick(append(made, "INBOX")), strconv.Itoa(msg))
				msg++
			}
		}
	}
	return ops
}

func names(line string) []string {
	var o []string
	if line == "." {
		return o
	}
	for _, h := range strings.Fields(line) {
		o = append(o, hx.UnH(h))
	}
	sort.Strings(o)
	return o
}

func main() {
	o, rep := hx.Init("C11")
	hx.Quiet()
	rep.Rule = "random histories of CREATE/DELETE/RENAME/SUBSCRIBE/UNSUBSCRIBE/APPEND over names built from 22 TokenSafe atoms (SQL LIKE wildcards _ and %, upper/lower-case twins, prefixes of each other, INBOX look-alikes, non-ASCII), depth ≤ 4, trailing '/', quoted forms, renames into and out of hierarchies; after every op the tagged result, LIST \"\" \"*\", STATUS and content of every mailbox, and LSUB \"\" \"*\" are compared with the Lean machine. Distinct by op lines; non-trivial when at least one RENAME or DELETE succeeded"
	dir, cleanup := hx.WorkDir("c11")
	defer cleanup()
	w, err := world.New(dir, "example.com")
	if err != nil {
		rep.Violate("broken-correspondence", "world", err.Error(), nil)
		rep.Finish()
	}
	defer w.Close()
	env := &hist.Env{W: w, Driver: o.Driver, Rep: rep, SkipValidity: true, Stream: "name history vs Model/Mail (Props.C11)", SpecTheorem: "Props.C11.create_adds_exactly / delete_removes_only_it / rename_moves_exactly"}
	okRD := false
	env.OnStep = func(h *hist.H, op hist.Op, real, model []hist.BoxD) {
		if (op.Kind == "rename" || op.Kind == "delete") && strings.HasPrefix(h.LastImpl, "ok") {
			okRD = true
		}
		// LSUB "" "*" against the model's presented subscription list
		var got []string
		for _, l := range h.O.Cmd(`LSUB "" "*"`).Untagged {
			if strings.HasPrefix(l, "* LSUB") && !strings.Contains(l, `\Noselect`) {
				if strings.Contains(l, `"/" `) {
					got = append(got, world.ListName(l))
				}
			}
		}
		sort.Strings(got)
		ml, _ := h.M.Ask("m.lsubstar")
		want := names(ml)
		if fmt.Sprint(got) != fmt.Sprint(want) {
			rp := []string{"newhist"}
			for _, x := range h.Ops {
				rp = append(rp, x.Line())
			}
			h.Rep.Violate("impl-violation", "LSUB vs Props.C11.subs_only_by_subscribe / presented_subs", fmt.Sprintf("after %q: LSUB \"\" \"*\" shows %q, the subscription list built by SUBSCRIBE/UNSUBSCRIBE alone is presented as %q", op.Human(), got, want), rp)
		}
		h.Rep.Hit("LSUB")
	}
	run := func(ops []hist.Op, tag string) {
		okRD = false
		env.RunShrunk(ops)
		var key strings.Builder
		for _, op := range ops {
			key.WriteString(op.Line() + ";")
		}
		rep.Case(key.String(), okRD)
		rep.Hit(tag)
	}
	if o.Replay != "" {
		for _, hs := range hist.SplitHistories(hx.ReadLines(o.Replay)) {
			run(hs, "replay")
		}
		rep.Finish()
	}
	for _, hs := range hist.SplitHistories(hx.ReadLines(o.Corpus + "/histories.ops")) {
		run(hs, "corpus")
	}
	rng := hx.NewRng(o.Seed)
	n, maxLen := 150, 12
	if o.Thorough {
		n, maxLen = 3000, 30
	}
	for i := 0; i < n && len(rep.Violations) == 0; i++ {
		ops := genHist(rng.Fork(), 4+rng.Intn(maxLen-3))
		if i < 3 {
			var hs []string
			for _, op := range ops {
				hs = append(hs, op.Human())
			}
			rep.Sample(strings.Join(hs, " ; "))
		}
		run(ops, "generated")
	}
	probes(rep, w)
	rep.Finish()
}

func listNames(c *world.Client) []string {
	var o []string
	for _, l := range c.Cmd(`LIST "" "*"`).Untagged {
		if strings.Contains(l, `"/" `) {
			o = append(o, world.ListName(l))
		}
	}
	return o
}

func probes(rep *hx.Report, w *world.World) {
	has := func(xs []string, x string) bool {
		for _, y := range xs {
			if y == x {
				return true
			}
		}
		return false
	}
	// C11-F1: the command line is split on blanks: a quoted name with a space loses everything after the blank
	c := w.Login("tok@example.com")
	c.Cmd(`CREATE "My Folder"`)
	if ns := listNames(c); !has(ns, "My Folder") {
		rep.Finding("C11-F1", fmt.Sprintf(`CREATE "My Folder" does not create that name (the line is split on blanks): LIST shows %q`, ns), []string{`probe CREATE "My Folder"`})
	}
	rep.Hit("probe:C11-F1")
	c.Close()
	// (repaired) RENAME into the mailbox's own subtree
	c = w.Login("nest@example.com")
	c.Cmd("CREATE a")
	c.Cmd("RENAME a a/b")
	if ns := listNames(c); !has(ns, "a/b") || has(ns, "a/b/b") {
		rep.Violate("impl-violation", "probe:rename-into-subtree", fmt.Sprintf(`RENAME a a/b does not produce a/b: LIST shows %q`, ns), []string{"probe RENAME a a/b"})
	}
	rep.Hit("probe:rename-into-subtree")
	c.Close()
	// C11-F3: LSUB offers INBOX although it is not subscribed
	c = w.Login("lsub@example.com")
	c.Cmd("CREATE zz")
	c.Cmd("SUBSCRIBE zz")
	inb := false
	for _, l := range c.Cmd(`LSUB "" "*"`).Untagged {
		if strings.Contains(l, `"INBOX"`) {
			inb = true
		}
	}
	if inb {
		rep.Finding("C11-F3", `with only "zz" subscribed, LSUB "" "*" also lists INBOX (FilterMailboxes adds INBOX to every matching list)`, []string{"probe LSUB INBOX"})
	}
	rep.Hit("probe:C11-F3")
	c.Close()
}
