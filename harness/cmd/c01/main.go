// C01 correspondence: LMTP transactions (real Session on a pipe) with messages of every MIME shape — well-formed and with
// missing, empty, mismatching or unterminated boundaries — to recipient lists over existing users, new users, a role address,
// duplicates and another domain, after a prior history of the target mailboxes (APPEND, UID COPY into INBOX, RENAME of INBOX,
// EXPUNGE, earlier deliveries). Reply codes and the gain of every mailbox are compared with Model/Deliver.deliverAll; every
// accepted copy is then fetched over IMAP and must carry the submitted text.
package main

import (
	"encoding/base64"
	"fmt"
	"regexp"
	"strings"

	"raven/internal/blobstorage"
	"raven/internal/db"
	"raven/internal/delivery/config"
	"raven/internal/delivery/parser"
	"raven/internal/delivery/storage"
	"raven/verifh/fakes3"
	"raven/verifh/hx"
	"raven/verifh/world"
)

type shape struct {
	name    string
	raw     string
	markers []string // literal text that must be retrievable
	valid   bool     // From and a recipient header present
}

func b64(s string) string {
	e := base64.StdEncoding.EncodeToString([]byte(s))
	var sb strings.Builder
	for len(e) > 76 {
		sb.WriteString(e[:76] + "\r\n")
		e = e[76:]
	}
	sb.WriteString(e + "\r\n")
	return sb.String()
}

func filler(rng *hx.Rng, n int) string {
	var sb strings.Builder
	for sb.Len() < n {
		sb.WriteString("filler line " + fmt.Sprint(rng.Intn(100000)) + " of ordinary text\r\n")
	}
	return sb.String()
}

func shapes(rng *hx.Rng, tok string) []shape {
	head := "From: sender@example.org\r\nTo: someone@example.com\r\nSubject: " + tok + "\r\nDate: Mon, 02 Jan 2006 15:04:05 +0000\r\nMessage-ID: <" + tok + "@example.org>\r\n"
	m := func(i int) string { return fmt.Sprintf("MARK-%s-%d", tok, i) }
	big := filler(rng, 1500+rng.Intn(3000))
	B := "bnd" + tok
	multi := func(ct string, body string) string {
		return head + "MIME-Version: 1.0\r\nContent-Type: " + ct + "\r\n\r\n" + body
	}
	two := "--" + B + "\r\nContent-Type: text/plain\r\n\r\n" + m(1) + " first part\r\n--" + B + "\r\nContent-Type: text/html\r\n\r\n<p>" + m(2) + "</p>\r\n--" + B + "--\r\n"
	return []shape{
		{"single", head + "\r\n" + m(1) + " plain body\r\n", []string{m(1)}, true},
		{"single-utf8", head + "MIME-Version: 1.0\r\nContent-Type: text/plain; charset=utf-8\r\nContent-Transfer-Encoding: 8bit\r\n\r\n" + m(1) + " caf\xc3\xa9\r\n", []string{m(1)}, true},
		{"single-qp", head + "MIME-Version: 1.0\r\nContent-Type: text/plain\r\nContent-Transfer-Encoding: quoted-printable\r\n\r\n" + m(1) + " a=3Db soft=\r\nbreak\r\n", []string{m(1)}, true},
		{"single-b64", head + "MIME-Version: 1.0\r\nContent-Type: application/octet-stream\r\nContent-Transfer-Encoding: base64\r\n\r\n" + b64(m(1)+" binary"), nil, true},
		{"single-big", head + "\r\n" + m(1) + "\r\n" + big + m(2) + "\r\n", []string{m(1), m(2)}, true},
		{"single-empty-body", head + "\r\n", nil, true},
		{"multi2", multi("multipart/mixed; boundary="+B, two), []string{m(1), m(2)}, true},
		{"multi2-quoted-boundary", multi("multipart/mixed; boundary=\""+B+"\"", two), []string{m(1), m(2)}, true},
		{"multi2-preamble-epilogue", multi("multipart/mixed; boundary="+B, "This is a multi-part message.\r\n"+two+"epilogue text\r\n"), []string{m(1), m(2)}, true},
		{"multi-big-parts", multi("multipart/mixed; boundary="+B, "--"+B+"\r\nContent-Type: text/plain\r\n\r\n"+m(1)+"\r\n"+big+"--"+B+"\r\nContent-Type: application/octet-stream\r\nContent-Transfer-Encoding: base64\r\nContent-Disposition: attachment; filename=\"a.bin\"\r\n\r\n"+b64(big)+"--"+B+"--\r\n"), []string{m(1)}, true},
		{"nested", multi("multipart/mixed; boundary="+B, "--"+B+"\r\nContent-Type: multipart/alternative; boundary=in"+B+"\r\n\r\n--in"+B+"\r\nContent-Type: text/plain\r\n\r\n"+m(1)+"\r\n--in"+B+"\r\nContent-Type: text/html\r\n\r\n<b>"+m(2)+"</b>\r\n--in"+B+"--\r\n--"+B+"\r\nContent-Type: text/plain\r\n\r\n"+m(3)+"\r\n--"+B+"--\r\n"), []string{m(1), m(2), m(3)}, true},
		{"rfc822-attachment", multi("multipart/mixed; boundary="+B, "--"+B+"\r\nContent-Type: text/plain\r\n\r\n"+m(1)+"\r\n--"+B+"\r\nContent-Type: message/rfc822\r\n\r\nFrom: inner@example.org\r\nSubject: inner\r\n\r\n"+m(2)+" inner body\r\n--"+B+"--\r\n"), []string{m(1), m(2)}, true},
		{"multi-no-boundary-param", multi("multipart/mixed", m(1)+" body of a multipart without boundary parameter\r\n"), []string{m(1)}, true},
		{"multi-empty-boundary", multi("multipart/mixed; boundary=\"\"", m(1)+" body\r\n"), []string{m(1)}, true},
		{"multi-boundary-equals-only", multi("multipart/mixed; boundary=", m(1)+" body\r\n"), []string{m(1)}, true},
		{"multi-no-delimiters", multi("multipart/mixed; boundary="+B, m(1)+" text but not a single delimiter line\r\n"), []string{m(1)}, true},
		{"multi-mismatching-boundary", multi("multipart/mixed; boundary="+B, strings.ReplaceAll(two, B, "other"+B)), []string{m(1), m(2)}, true},
		{"multi-no-closing-delimiter", multi("multipart/mixed; boundary="+B, "--"+B+"\r\nContent-Type: text/plain\r\n\r\n"+m(1)+" first\r\n--"+B+"\r\nContent-Type: text/plain\r\n\r\n"+m(2)+" second, then the message just ends\r\n"), []string{m(1), m(2)}, true},
		{"multi-only-closing-delimiter", multi("multipart/mixed; boundary="+B, "--"+B+"--\r\n"), nil, true},
		{"multi-part-without-headers", multi("multipart/mixed; boundary="+B, "--"+B+"\r\n\r\n"+m(1)+" headerless part\r\n--"+B+"--\r\n"), []string{m(1)}, true},
		{"multi-odd-boundary-chars", multi("multipart/mixed; boundary=\"a'()+_,-./:=? b"+tok+"\"", strings.ReplaceAll(two, B, "a'()+_,-./:=? b"+tok)), []string{m(1), m(2)}, true},
		{"single-b64-undecodable-large", head + "MIME-Version: 1.0\r\nContent-Type: application/octet-stream\r\nContent-Transfer-Encoding: base64\r\n\r\n" + m(1) + " !!! this is not base64 !!!\r\n" + big, []string{m(1)}, true},
		{"multi-b64-undecodable-attachment", multi("multipart/mixed; boundary="+B, "--"+B+"\r\nContent-Type: text/plain\r\n\r\n"+m(1)+"\r\n--"+B+"\r\nContent-Type: application/pdf; name=\"x.pdf\"\r\nContent-Transfer-Encoding: base64\r\nContent-Disposition: attachment; filename=\"x.pdf\"\r\n\r\n"+m(2)+" ~~~ truncated or corrupt attachment ~~~\r\n"+big+"--"+B+"--\r\n"), []string{m(1), m(2)}, true},
		{"content-type-garbage", head + "Content-Type: ;;;\r\n\r\n" + m(1) + " body\r\n", []string{m(1)}, true},
		{"content-type-twice", head + "Content-Type: text/plain\r\nContent-Type: multipart/mixed; boundary=" + B + "\r\n\r\n" + m(1) + " body\r\n", []string{m(1)}, true},
		{"dot-lines", head + "\r\n.\r\n..\r\n.leading dot " + m(1) + "\r\n...\r\n", []string{m(1)}, true},
		{"no-to", "From: sender@example.org\r\nSubject: " + tok + "\r\n\r\n" + m(1) + "\r\n", nil, false},
		{"no-from", "To: someone@example.com\r\nSubject: " + tok + "\r\n\r\n" + m(1) + "\r\n", nil, false},
		{"cc-only", "From: sender@example.org\r\nCc: someone@example.com\r\nSubject: " + tok + "\r\n\r\n" + m(1) + "\r\n", []string{m(1)}, true},
		{"not-a-message", tok + " no header at all\r\n", nil, false},
		// lines longer than any read buffer, with dots where a buffered reader's pieces begin (offsets 4096 and 8192 of the
		// line) and a line of 4096k+1 octets that ends in a dot: content, not the end of data and not stuffing
		{"long-lines-dots-at-buffer-bounds", head + "\r\n" + strings.Repeat("x", 4096) + "..d" + m(1) + "\r\n" + strings.Repeat("y", 8192) + ".\r\n" + m(2) + " after\r\n" + strings.Repeat("z", 4096) + ".\r\n" + m(3) + " last\r\n",
			[]string{"xxx..d" + m(1), "yyy.\r\n" + m(2), "zzz.\r\n" + m(3)}, true},
	}
}

type env struct {
	w      *world.World
	rep    *hx.Report
	o      *hx.Opts
	rng    *hx.Rng
	nNew   int
	nArch  int
	users  []string
	ops    []string
	checks []func(string)
	fake   *fakes3.Fake               // an object store that can fail requests late
	s3Stor *storage.Storage           // the delivery side with that object store enabled
	s3Read *blobstorage.S3BlobStorage // the IMAP side's handle on it
	flakyN int // which late failure the next flaky transaction gets
}

var reExists = regexp.MustCompile(`\* (\d+) EXISTS`)

// copies returns how many messages in `box` (seen through login `as`) carry the token, and their sequence numbers
func copies(w *world.World, as, box, tok string) []int {
	c := w.Login(as)
	defer c.Close()
	if !c.Cmd("EXAMINE " + quote(box)).OK() {
		return nil
	}
	var out []int
	for _, l := range c.Cmd("FETCH 1:* (BODY.PEEK[HEADER.FIELDS (SUBJECT)])").Untagged {
		if strings.Contains(l, "Subject: "+tok+"\r\n") {
			var n int
			fmt.Sscanf(l, "* %d FETCH", &n)
			out = append(out, n)
		}
	}
	return out
}

func quote(s string) string { return `"` + s + `"` }

func userExists(w *world.World, email string) bool {
	p := strings.SplitN(email, "@", 2)
	var n int
	w.Mgr.GetSharedDB().QueryRow("SELECT COUNT(*) FROM users u JOIN domains d ON d.id = u.domain_id WHERE u.username = ? AND d.domain = ?", p[0], p[1]).Scan(&n)
	return n > 0
}

// history: a few operations on a user's INBOX before the next delivery
func (e *env) history(user string) []string {
	var done []string
	c := e.w.Login(user)
	defer c.Close()
	k := e.rng.Intn(4)
	for i := 0; i < k; i++ {
		switch e.rng.Intn(8) {
		case 0:
			c.Append("INBOX", "", "From: a@b\r\nTo: c@d\r\nSubject: history\r\n\r\nappended\r\n")
			done = append(done, "append")
		case 1:
			c.Cmd("SELECT INBOX")
			c.Cmd("UID COPY 1:2 INBOX") // UIDs 1 and 2 if still there: the copies take fresh UIDs at the top
			done = append(done, "uidcopy-into-inbox")
		case 2:
			c.Cmd("SELECT INBOX")
			c.Cmd(`STORE 1 +FLAGS (\Deleted)`)
			c.Cmd("EXPUNGE")
			done = append(done, "expunge-first")
		case 3:
			e.nArch++
			c.Cmd(fmt.Sprintf("RENAME INBOX Archive%d", e.nArch))
			done = append(done, "rename-inbox")
		case 4:
			c.Cmd("SELECT INBOX")
			c.Cmd(`STORE 1:* +FLAGS (\Deleted)`)
			c.Cmd("CLOSE")
			done = append(done, "expunge-all")
		case 5:
			c.Cmd("SELECT INBOX")
			c.Cmd("COPY 1 Filed")
			done = append(done, "copy-out")
		case 6:
			// the delivery folder is renamed away while the delivery service keeps running: the next message for it is
			// filed in a folder of that name again, not in the renamed one
			e.nArch++
			c.Cmd(fmt.Sprintf("RENAME Filed FiledOld%d", e.nArch))
			done = append(done, "rename-delivery-folder")
		case 7:
			e.nArch++
			c.Cmd(fmt.Sprintf("RENAME Spam SpamOld%d", e.nArch))
			done = append(done, "rename-spam-folder")
		}
	}
	return done
}

type txCase struct {
	shape     int
	rcpts     []string
	folder    int // 0 INBOX, 1 Filed (exists for old users), 2 a folder nobody has yet
	spam      bool
	hist      bool
	quota     bool // quota checking on, with a limit that full@example.com (recipient "FULL") has used up
	blobFault bool // the shared blob table refuses every new row during the transaction (trigger): fall back or refuse
	s3Flaky   bool // the object store is enabled and fails the first upload of the transaction after it has read the body
}

func (t txCase) line() string {
	l := fmt.Sprintf("tx %d %d %v %v %s", t.shape, t.folder, t.spam, t.hist, strings.Join(t.rcpts, ","))
	if t.blobFault {
		l += " blobfault"
	}
	if t.s3Flaky {
		l += " s3flaky"
	}
	if t.quota {
		l += " quota"
	}
	return l
}

func parseTx(l string) (txCase, bool) {
	f := strings.Fields(l)
	if len(f) < 6 || len(f) > 9 || f[0] != "tx" {
		return txCase{}, false
	}
	var t txCase
	for _, x := range f[6:] {
		t.quota = t.quota || x == "quota"
		t.blobFault = t.blobFault || x == "blobfault"
		t.s3Flaky = t.s3Flaky || x == "s3flaky"
	}
	fmt.Sscan(f[1], &t.shape)
	fmt.Sscan(f[2], &t.folder)
	t.spam = f[3] == "true"
	t.hist = f[4] == "true"
	t.rcpts = strings.Split(f[5], ",")
	return t, true
}

var txSeq int

// quotaLimit: more than any generated message, less than what full@example.com holds
const quotaLimit = 60000

func (e *env) play(t txCase) {
	if t.shape < 0 {
		// not a transaction: the recipient renames its delivery folder (-1: Filed, -2: Spam) over IMAP
		c := e.w.Login(t.rcpts[0])
		e.nArch++
		c.Cmd(fmt.Sprintf("RENAME %s %sOld%d", map[int]string{-1: "Filed", -2: "Spam"}[t.shape], map[int]string{-1: "Filed", -2: "Spam"}[t.shape], e.nArch))
		c.Close()
		return
	}
	txSeq++
	tok := fmt.Sprintf("c01tok%dx%d", e.o.Seed, txSeq)
	shs := shapes(e.rng, tok)
	sh := shs[t.shape%len(shs)]
	raw := sh.raw
	if t.spam {
		raw = "X-Spam-Status: Yes, score=9\r\n" + raw
	}
	rcpts := append([]string(nil), t.rcpts...)
	for i, r := range rcpts {
		if r == "NEW" {
			// every store stays open in the DBManager for the life of the process (about twenty descriptors each): at most
			// 150 distinct new users per run, later ones are the earlier ones again
			e.nNew++
			rcpts[i] = fmt.Sprintf("fresh%dx%d@example.com", e.o.Seed, e.nNew%150)
		}
		if r == "FULL" {
			rcpts[i] = "full@example.com"
		}
	}
	folder := []string{"INBOX", "Filed", fmt.Sprintf("Fresh%d", txSeq)}[t.folder%3]
	target := folder
	if t.spam {
		target = "Spam"
	}
	e.rep.Case(t.line(), sh.name != "single" || len(rcpts) > 1 || t.hist)
	e.rep.Hit("shape:" + sh.name)
	replay := []string{t.line()}
	var histDone []string
	if t.hist {
		for _, r := range rcpts {
			if userExists(e.w, r) && strings.HasPrefix(r, "u") && e.rng.Chance(70) {
				histDone = append(histDone, e.history(r)...)
			}
		}
		for _, h := range histDone {
			e.rep.Hit("history:" + h)
		}
	}
	// where each recipient's copy goes and through which login it can be seen
	type tgt struct{ owner, as, box string }
	var tgts []tgt
	for _, r := range rcpts {
		if r == "team@example.com" || r == "desk@example.com" {
			tgts = append(tgts, tgt{"role:" + hx.H(r), "u0@example.com", "Roles/" + r + "/" + target})
		} else {
			p := strings.SplitN(r, "@", 2)
			tgts = append(tgts, tgt{"user:" + hx.H(p[0]) + "@" + hx.H(p[1]), r, target})
		}
	}
	cfg := *e.w.LCfg
	cfg.Delivery.DefaultFolder = folder
	if t.quota {
		cfg.Delivery.QuotaEnabled = true
		cfg.Delivery.QuotaLimit = quotaLimit
		e.rep.Hit("quota:on")
	}
	if t.s3Flaky && e.fake != nil {
		// an object store that is up but fails one request late (the body has been sent): the upload is retried, falls back,
		// or the delivery is refused — whatever is acknowledged can be fetched
		e.fake.Mu.Lock()
		e.fake.Script = [][]string{{"put:409"}, {"500"}, {"put:500"}, {"put:drop"}}[e.flakyN%4]
		e.flakyN++
		e.fake.Mu.Unlock()
		oldStor := e.w.Stor
		e.w.Stor = e.s3Stor
		e.w.Srv.SetS3Storage(e.s3Read)
		defer func() { e.w.Stor = oldStor }()
		e.rep.Hit("object-store:flaky")
	}
	if t.blobFault {
		if _, err := e.w.Mgr.GetSharedDB().Exec("CREATE TRIGGER IF NOT EXISTS verif_refuse_blobs BEFORE INSERT ON blobs BEGIN SELECT RAISE(ABORT, 'injected: blob row refused'); END"); err == nil {
			e.rep.Hit("blob-table:refusing")
		}
	}
	rcptReplies, dataReplies := deliverCfg(e.w, &cfg, "sender@example.org", rcpts, raw)
	if t.blobFault {
		e.w.Mgr.GetSharedDB().Exec("DROP TRIGGER IF EXISTS verif_refuse_blobs")
	}
	for i, r := range rcptReplies {
		if !strings.HasPrefix(r, "250") {
			e.rep.Violate("broken-correspondence", "RCPT", fmt.Sprintf("%s: RCPT %s answered %q", t.line(), rcpts[i], r), replay)
			return
		}
	}
	// the parsers' verdicts (library code) are parameters of the model
	_, perr := parser.ParseMIMEMessage(raw)
	mimeOK := perr == nil
	var codes []string
	for _, r := range dataReplies {
		if len(r) >= 3 {
			codes = append(codes, r[:3])
		}
	}
	// what is in the mailboxes now
	gain := map[string]int{}
	seen := map[string]bool{}
	var got []string
	var order []string
	for _, tg := range tgts {
		if seen[tg.owner] {
			continue
		}
		seen[tg.owner] = true
		order = append(order, tg.owner)
		ns := copies(e.w, tg.as, tg.box, tok)
		gain[tg.owner] = len(ns)
		got = append(got, fmt.Sprintf("%s=%d", tg.owner, len(ns)))
		// a copy nowhere else in that store
		for _, other := range []string{"INBOX", "Filed", "Spam"} {
			ob := other
			if strings.HasPrefix(tg.box, "Roles/") {
				ob = tg.box[:strings.LastIndex(tg.box, "/")+1] + other
			}
			if ob != tg.box && len(copies(e.w, tg.as, ob, tok)) > 0 {
				e.rep.Violate("impl-violation", "folder chosen for the recipient", fmt.Sprintf("%s: a copy for %s appeared in %s, not only in %s", t.line(), tg.as, ob, tg.box), replay)
			}
		}
		// every accepted copy can be fetched and carries the submitted text
		if len(ns) > 0 {
			c := e.w.Login(tg.as)
			c.Cmd("EXAMINE " + quote(tg.box))
			for _, n := range ns {
				r := c.Cmd(fmt.Sprintf("FETCH %d (RFC822.SIZE BODY.PEEK[])", n))
				body := strings.Join(r.Untagged, "\n")
				i := strings.Index(body, "}\r\n")
				content := ""
				if i >= 0 {
					content = body[i+3:]
				}
				for _, mk := range sh.markers {
					if !strings.Contains(content, mk) {
						e.rep.Violate("impl-violation", "accepted ⇒ retrievable with the submitted content (Props.C01.accepted_has_parts)", fmt.Sprintf("%s (shape %s): accepted with 250 for %s, but the text %q of the submitted message is not in what FETCH BODY[] returns (%d octets: %q)", t.line(), sh.name, tg.as, mk, len(content), trunc(content, 300)), append(replay, "raw "+hx.H(raw)))
						break
					}
				}
				r2 := c.Cmd(fmt.Sprintf("FETCH %d (BODYSTRUCTURE ENVELOPE)", n))
				if !r2.OK() {
					e.rep.Violate("impl-violation", "accepted ⇒ retrievable", fmt.Sprintf("%s: FETCH %d (BODYSTRUCTURE ENVELOPE) of the accepted copy answered %q", t.line(), n, r2.Tagged), replay)
				}
			}
			c.Close()
		}
	}
	// the promise itself, read off the replies (no model involved): one reply per recipient, and every store gained exactly as
	// many copies as 2xx replies were given for it
	if len(codes) != len(rcpts) {
		e.rep.Violate("impl-violation", "one reply per recipient (Props.C01.reply_per_recipient)", fmt.Sprintf("%s: %d recipients, %d replies after end-of-data: %v", t.line(), len(rcpts), len(codes), dataReplies), append(replay, "raw "+hx.H(raw)))
		return
	}
	promised := map[string]int{}
	for i, tg := range tgts {
		if strings.HasPrefix(codes[i], "2") {
			promised[tg.owner]++
		}
		e.rep.Hit("reply:" + codes[i])
	}
	for _, o := range order {
		if promised[o] != gain[o] {
			e.rep.Violate("impl-violation", "2xx ⇔ exactly one new message (Props.C01.count_is_accepted)", fmt.Sprintf("%s (shape %s, recipients %v): replies %v promise %d new message(s) to %s, its folder gained %d", t.line(), sh.name, rcpts, codes, promised[o], o, gain[o]), append(replay, "raw "+hx.H(raw)))
			return
		}
	}
	if t.quota {
		// which recipient is over its quota is policy (C17); here only the promise counts. The run is informative when the full
		// store was refused and somebody else served in the same transaction
		refused, served := false, false
		for i := range rcpts {
			if rcpts[i] == "full@example.com" && codes[i] == "552" {
				refused = true
			} else if strings.HasPrefix(codes[i], "2") {
				served = true
			}
		}
		if refused && served {
			e.rep.Hit("quota:mixed-transaction")
		}
		return
	}
	valid := "0"
	if sh.valid {
		valid = "1"
	}
	mo := "0"
	if mimeOK {
		mo = "1"
	}
	var owners []string
	for _, tg := range tgts {
		owners = append(owners, tg.owner)
	}
	implLine := strings.Join(codes, " ") + " |"
	for _, o := range order {
		implLine += fmt.Sprintf(" %s=%d", o, gain[o])
	}
	e.ops = append(e.ops, fmt.Sprintf("d.tx %s %s %s %s", valid, mo, hx.H(target), strings.Join(owners, " ")))
	tl := t.line()
	hd := strings.Join(histDone, ",")
	e.checks = append(e.checks, func(model string) {
		if model == implLine {
			e.rep.Hit("replies:" + strings.Join(codes, ","))
			return
		}
		e.rep.Violate("impl-violation", "replies and mailbox gains vs Model/Deliver.deliverAll (Props.C01.count_is_accepted)", fmt.Sprintf("%s (shape %s, recipients %v, history [%s], parser verdict mimeOK=%v): implementation %q, specification %q", tl, sh.name, rcpts, hd, mimeOK, implLine, model), append(replay, "raw "+hx.H(raw)))
	})
}

func trunc(s string, n int) string {
	if len(s) > n {
		return s[:n] + "…"
	}
	return s
}

// deliverCfg is world.Deliver with a configuration
func deliverCfg(w *world.World, cfg *config.Config, from string, rcpts []string, msg string) ([]string, []string) {
	old := w.LCfg
	defer func() { w.LCfg = old }()
	w.LCfg = cfg
	return w.Deliver(from, rcpts, msg)
}

func main() {
	o, rep := hx.Init("C01")
	hx.Quiet()
	rep.Rule = "LMTP transactions: 30 message shapes (single part in four encodings, empty and large bodies, well-formed and nested multiparts, preamble/epilogue, message/rfc822, multipart without / with empty / with mismatching / without closing / with only the closing boundary, no delimiter at all, odd boundary characters, unparsable and doubled Content-Type, dot lines, missing To / From, no header) × recipient lists of 1..5 over {existing users, new users, role address, exact duplicates, another domain} × default folder {INBOX, existing other, not yet existing} × spam routing × a prior history of the target mailboxes (APPEND, UID COPY into INBOX, EXPUNGE first / all, RENAME INBOX, COPY out); distinct by (shape, recipients, folder, spam, history); non-trivial unless a plain message goes to one recipient without history"
	dir, cleanup := hx.WorkDir("c01")
	defer cleanup()
	w, err := world.New(dir, "example.com")
	if err != nil {
		rep.Violate("broken-correspondence", "world", err.Error(), nil)
		rep.Finish()
	}
	defer w.Close()
	e := &env{w: w, rep: rep, o: o, rng: hx.NewRng(o.Seed)}
	e.fake = fakes3.New()
	defer e.fake.Srv.Close()
	mkS3 := func() *blobstorage.S3BlobStorage {
		s3, err := blobstorage.NewS3BlobStorage(blobstorage.Config{Enabled: true, Endpoint: e.fake.Srv.URL, Region: "us-east-1", Bucket: "b", AccessKey: "k", SecretKey: "s", Timeout: 2})
		if err != nil {
			return nil
		}
		return s3
	}
	if s3 := mkS3(); s3 != nil {
		e.s3Stor = storage.NewStorageWithS3(w.Mgr, s3)
		e.s3Read = mkS3()
	} else {
		e.fake = nil
	}
	for i := 0; i < 4; i++ {
		u := fmt.Sprintf("u%d@example.com", i)
		e.users = append(e.users, u)
		c := w.Login(u)
		c.Cmd("CREATE Filed")
		c.Close()
	}
	shared := w.Mgr.GetSharedDB()
	domID, _ := db.GetOrCreateDomain(shared, "example.com")
	roleID, err := db.CreateRoleMailbox(shared, "team@example.com", domID, "")
	if err != nil {
		rep.Violate("broken-correspondence", "world", err.Error(), nil)
		rep.Finish()
	}
	u0, _ := db.GetUserByEmail(shared, "u0@example.com")
	db.AssignUserToRoleMailbox(shared, u0, roleID, u0)
	// a second role mailbox whose store has one mailbox more than the first (its mailbox row ids are shifted by one)
	if deskID, err := db.CreateRoleMailbox(shared, "desk@example.com", domID, ""); err == nil {
		db.AssignUserToRoleMailbox(shared, u0, deskID, u0)
		cfg := *w.LCfg
		cfg.Delivery.DefaultFolder = "DeskExtra"
		deliverCfg(w, &cfg, "sender@example.org", []string{"desk@example.com"}, "From: a@b\r\nTo: desk@example.com\r\nSubject: first\r\n\r\nfirst\r\n")
	}

	// full@example.com holds more than the quota limit used by the quota transactions
	{
		c := w.Login("full@example.com")
		for i := 0; i < 3; i++ {
			c.Append("INBOX", "", "From: a@b\r\nTo: full@example.com\r\nSubject: ballast\r\n\r\n"+strings.Repeat("ballast ballast ballast ballast ballast ballast ballast ballast\r\n", 400))
		}
		c.Close()
	}

	var txs []txCase
	if o.Replay != "" {
		for _, l := range hx.ReadLines(o.Replay) {
			if t, ok := parseTx(l); ok {
				txs = append(txs, t)
			}
		}
	} else {
		for _, l := range hx.ReadLines(o.Corpus + "/txs.ops") {
			if t, ok := parseTx(l); ok {
				txs = append(txs, t)
			}
		}
		nshape := len(shapes(e.rng, "x"))
		// every shape once to one existing user, once to a mixed list
		for s := 0; s < nshape; s++ {
			txs = append(txs, txCase{s, []string{"u1@example.com"}, 0, false, false, false, false, false})
			txs = append(txs, txCase{s, []string{"u2@example.com", "NEW", "team@example.com", "u2@example.com"}, 0, false, true, false, false, false})
		}
		// both role mailboxes in one transaction and in consecutive ones, into a folder neither has yet, and as spam
		txs = append(txs, txCase{0, []string{"team@example.com", "desk@example.com"}, 2, false, false, false, false, false})
		txs = append(txs, txCase{1, []string{"desk@example.com", "team@example.com", "u1@example.com"}, 2, false, false, false, false, false})
		txs = append(txs, txCase{0, []string{"team@example.com", "desk@example.com"}, 1, false, false, false, false, false})
		txs = append(txs, txCase{0, []string{"desk@example.com"}, 1, true, false, false, false, false})
		// the shared blob table refuses new rows while messages with out-of-line parts are delivered (every shape, so that the
		// large and the attachment-bearing ones are among them): accepted ⇒ retrievable, or refused
		for sidx := 0; sidx < nshape; sidx++ {
			txs = append(txs, txCase{shape: sidx, rcpts: []string{"u1@example.com", "NEW"}, blobFault: true})
		}
		// the object store enabled and failing one upload late, for every shape
		for sidx := 0; sidx < nshape; sidx++ {
			txs = append(txs, txCase{shape: sidx, rcpts: []string{"u2@example.com", "NEW"}, s3Flaky: true})
		}
		// the delivery folder of an existing user is renamed away between two deliveries to it
		txs = append(txs, txCase{0, []string{"u3@example.com"}, 1, false, false, false, false, false})
		txs = append(txs, txCase{-1, []string{"u3@example.com"}, 1, false, false, false, false, false})
		txs = append(txs, txCase{0, []string{"u3@example.com"}, 1, false, false, false, false, false})
		txs = append(txs, txCase{0, []string{"u3@example.com"}, 0, true, false, false, false, false})
		txs = append(txs, txCase{-2, []string{"u3@example.com"}, 0, true, false, false, false, false})
		txs = append(txs, txCase{0, []string{"u3@example.com"}, 0, true, false, false, false, false})
		// quota on: the over-quota recipient first, in the middle, last, twice, alone; the others are new users and the role
		for _, rc := range [][]string{{"FULL", "NEW"}, {"NEW", "FULL", "NEW"}, {"NEW", "FULL"}, {"FULL", "team@example.com", "FULL", "NEW"}, {"FULL"}, {"FULL", "FULL", "NEW", "NEW"}} {
			txs = append(txs, txCase{0, rc, 0, false, false, true, false, false})
		}
		n := 60
		if o.Thorough {
			n = 1500
		}
		pool := []string{"u0@example.com", "u1@example.com", "u2@example.com", "u3@example.com", "NEW", "NEW", "team@example.com", "desk@example.com", "other@other.org"}
		for i := 0; i < n; i++ {
			k := 1 + e.rng.Intn(5)
			var rc []string
			for j := 0; j < k; j++ {
				if j > 0 && e.rng.Chance(20) {
					if d := rc[e.rng.Intn(len(rc))]; d != "NEW" {
						rc = append(rc, d) // an exact duplicate
						continue
					}
				}
				rc = append(rc, e.rng.Pick(pool))
			}
			if e.rng.Chance(12) {
				// a quota transaction: the full store, new users and the role address in random order
				var q []string
				for j := 0; j < 1+e.rng.Intn(4); j++ {
					q = append(q, e.rng.Pick([]string{"FULL", "FULL", "NEW", "NEW", "team@example.com"}))
				}
				txs = append(txs, txCase{e.rng.Intn(nshape), q, e.rng.Intn(3), e.rng.Chance(15), false, true, false, false})
				continue
			}
			txs = append(txs, txCase{e.rng.Intn(nshape), rc, e.rng.Intn(3), e.rng.Chance(15), e.rng.Chance(60), false, false, false})
		}
	}
	for _, t := range txs {
		e.play(t)
		if len(rep.Violations) >= 4 {
			break
		}
	}
	if len(e.ops) > 0 {
		ans, err := hx.RunModel(o.Driver, e.ops)
		if err != nil {
			rep.Violate("broken-correspondence", "driver", err.Error(), nil)
		} else {
			for i, f := range e.checks {
				f(ans[i])
			}
		}
	}
	rep.Finish()
}
