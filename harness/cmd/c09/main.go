// C09 correspondence: (A) every set parser over the wire (FETCH, UID FETCH, STORE, SEARCH) against the Lean parsers that are
// proved to denote the RFC set; (B) histories with a simulated client that applies untagged EXPUNGE responses and must end
// up with the server's listing; (C) EXISTS / STATUS / SEARCH ALL / FETCH 1:* / UID FETCH 1:* describe one list.
package main

import (
	"fmt"
	"regexp"
	"sort"
	"strconv"
	"strings"
	"time"

	"raven/verifh/hist"
	"raven/verifh/hx"
	"raven/verifh/world"
)

var reFetchUID = regexp.MustCompile(`^\* (\d+) FETCH \(.*UID (\d+).*\)$`)
var reSearch = regexp.MustCompile(`^\* SEARCH(.*)$`)

func genSet(rng *hx.Rng, n int, top int) string {
	end := func() string {
		switch rng.Intn(10) {
		case 0, 1:
			return "*"
		case 2:
			return strconv.Itoa(n + 1 + rng.Intn(3))
		default:
			return strconv.Itoa(1 + rng.Intn(top+1))
		}
	}
	k := 1 + rng.Intn(3)
	var items []string
	for i := 0; i < k; i++ {
		if rng.Bool() {
			items = append(items, end())
		} else {
			items = append(items, end()+":"+end())
		}
	}
	return strings.Join(items, ",")
}

var malformed = []string{"0", "0:2", "1:0", "-1", "1:", ":2", "1::2", "a", "1,a", "1:2:3", "+2", ",", "1,,2", "**", "1:*:2", "99999999999999999999", "1;2"}

var isMalformed = func() map[string]bool {
	m := map[string]bool{}
	for _, x := range malformed {
		m[x] = true
	}
	return m
}()

func main() {
	o, rep := hx.Init("C09")
	hx.Quiet()
	rep.Rule = "A: sets generated from the RFC 3501 sequence-set grammar (numbers within and beyond the range, `*`, ranges in both orders, comma lists) plus a malformed stream, issued as FETCH / UID FETCH / STORE / SEARCH against mailboxes of 0..9 messages with UID gaps; B: histories with \\Deleted, EXPUNGE, UID EXPUNGE, CLOSE, Junk moves, COPY and a simulated client replaying the notices; C: EXISTS, STATUS, SEARCH ALL, FETCH 1:* and UID FETCH 1:* compared after every op. A case is distinct by its command text and mailbox shape, non-trivial when the set has a range, star or list (A) or the history expunged something (B)"
	dir, cleanup := hx.WorkDir("c09")
	defer cleanup()
	w, err := world.New(dir, "example.com")
	if err != nil {
		rep.Violate("broken-correspondence", "world", err.Error(), nil)
		rep.Finish()
	}
	defer w.Close()
	rng := hx.NewRng(o.Seed)
	if o.Replay == "" || strings.Contains(strings.Join(hx.ReadLines(o.Replay), " "), "setcase") {
		sets(o, rep, w, rng)
	}
	histories(o, rep, w, rng)
	if o.Replay == "" && len(rep.Violations) == 0 {
		for k := 0; k < 4; k++ {
			watcher(rep, w, rng.Fork(), 40)
		}
	}
	rep.Finish()
}

// ---------- A: set addressing over the wire ----------

func sets(o *hx.Opts, rep *hx.Report, w *world.World, rng *hx.Rng) {
	var ops, impl, desc []string
	nrank := 0
	shapes := 4
	perShape := 120
	if o.Thorough {
		shapes, perShape = 10, 600
	}
	type cs struct {
		n    int
		del  []int
		sets []string
	}
	var cases []cs
	if o.Replay != "" {
		for _, l := range hx.ReadLines(o.Replay) {
			f := strings.Fields(l)
			if f[0] == "setcase" {
				n, _ := strconv.Atoi(f[1])
				var del []int
				for _, d := range strings.Split(hx.UnH(f[2]), ",") {
					if x, err := strconv.Atoi(d); err == nil {
						del = append(del, x)
					}
				}
				cases = append(cases, cs{n, del, []string{hx.UnH(f[3])}})
			}
		}
	} else {
		for sh := 0; sh < shapes; sh++ {
			n := []int{0, 1, 3, 5, 9, 2, 4, 6, 7, 8}[sh%10]
			var del []int
			for i := 1; i <= n; i++ {
				if rng.Chance(25) {
					del = append(del, i)
				}
			}
			if n >= 3 {
				// always a gap below the top: the highest UID then exceeds the number of messages, and `*` means two different
				// numbers in a sequence set and in a UID set
				var d2 []int
				has2 := false
				for _, d := range del {
					if d == n {
						continue // the top UID stays
					}
					if d == 2 {
						has2 = true
					}
					d2 = append(d2, d)
				}
				if !has2 {
					d2 = append(d2, 2)
					sort.Ints(d2)
				}
				del = d2
			}
			var ss []string
			for i := 0; i < perShape; i++ {
				ss = append(ss, genSet(rng, n-len(del), n+1))
			}
			ss = append(ss, malformed...)
			ss = append(ss, "1", "*", "1:*", "*:1", "2:1", "1,2", "*,1")
			cases = append(cases, cs{n, del, ss})
		}
	}
	for ci, c := range cases {
		user := fmt.Sprintf("sets%d@example.com", ci)
		cl := w.Login(user)
		for i := 1; i <= c.n; i++ {
			cl.Append("INBOX", "", hist.Msg(i))
		}
		if len(c.del) > 0 {
			cl.Cmd("SELECT INBOX")
			var ds []string
			for _, d := range c.del {
				ds = append(ds, strconv.Itoa(d))
			}
			cl.Cmd("UID STORE " + strings.Join(ds, ",") + ` +FLAGS.SILENT (\Deleted)`)
			cl.Cmd("EXPUNGE")
		}
		cl.Cmd("SELECT INBOX")
		var uids []int
		for _, l := range cl.Cmd("UID FETCH 1:* (UID)").Untagged {
			if m := reFetchUID.FindStringSubmatch(l); m != nil {
				u, _ := strconv.Atoi(m[2])
				uids = append(uids, u)
			}
		}
		N := len(uids)
		ul := make([]string, N)
		for i, u := range uids {
			ul[i] = strconv.Itoa(u)
		}
		uidArgs := strings.Join(ul, " ")
		if N == 0 {
			uidArgs = "."
		}
		var dl []string
		for _, d := range c.del {
			dl = append(dl, strconv.Itoa(d))
		}
		for _, set := range c.sets {
			tag := fmt.Sprintf("setcase %d %s %s", c.n, hx.H(strings.Join(dl, ",")), hx.H(set))
			nontriv := strings.ContainsAny(set, ":*,")
			// FETCH set (UID): validated syntactically, then the shared parser; each response labelled with its rank
			r := cl.Cmd("FETCH " + set + " (UID)")
			got := []string{strings.ToLower(r.Status())}
			for _, l := range r.Untagged {
				if m := reFetchUID.FindStringSubmatch(l); m != nil {
					got = append(got, m[1]+":"+m[2])
				}
			}
			ops = append(ops, "fetchseq "+hx.H(set)+" "+uidArgs)
			impl = append(impl, strings.Join(got, " "))
			desc = append(desc, tag+" # FETCH")
			rep.Case("FETCH "+set+" N="+strconv.Itoa(N), nontriv)
			rep.Hit("A:FETCH:" + got[0])
			// UID FETCH set (UID)
			r = cl.Cmd("UID FETCH " + set + " (UID)")
			got = []string{strings.ToLower(r.Status())}
			for _, l := range r.Untagged {
				if m := reFetchUID.FindStringSubmatch(l); m != nil {
					got = append(got, m[2])
					// the response carries the message's sequence number: its rank in ascending UID order
					k, _ := strconv.Atoi(m[1])
					if u, _ := strconv.Atoi(m[2]); k < 1 || k > N || uids[k-1] != u {
						nrank++
						if nrank <= 3 {
							rep.Violate("impl-violation", "numbering (Props.C09.ranks_are_positions)", fmt.Sprintf("%s: UID FETCH %s answered %q, but UID %s is message %d of %v", tag, set, l, m[2], rankOf(uids, u), uids), []string{tag})
						}
					}
				}
			}
			ops = append(ops, "uidfetch "+hx.H(set)+" "+uidArgs)
			impl = append(impl, strings.Join(got, " "))
			desc = append(desc, tag+" # UID FETCH")
			rep.Case("UID FETCH "+set+" N="+strconv.Itoa(N), nontriv)
			rep.Hit("A:UIDFETCH")
			// STORE set +FLAGS (kw): the messages answered for are the ones addressed
			r = cl.Cmd("STORE " + set + " +FLAGS (kw)")
			got = []string{strings.ToLower(r.Status())}
			for _, l := range r.Untagged {
				if strings.Contains(l, " FETCH (") {
					got = append(got, strings.Fields(l)[1])
				}
			}
			ops = append(ops, "storeseq "+hx.H(set)+" "+strconv.Itoa(N))
			impl = append(impl, strings.Join(got, " "))
			desc = append(desc, tag+" # STORE")
			rep.Case("STORE "+set+" N="+strconv.Itoa(N), nontriv)
			rep.Hit("A:STORE:" + got[0])
			// SEARCH set / SEARCH UID set / UID SEARCH UID set: the same sets denote the same messages as search keys
			ranksOf := func(r world.Resp) []int {
				var out []int
				for _, l := range r.Untagged {
					if m := reSearch.FindStringSubmatch(l); m != nil {
						for _, x := range strings.Fields(m[1]) {
							k, _ := strconv.Atoi(x)
							out = append(out, k)
						}
					}
				}
				sort.Ints(out)
				return out
			}
			if !isMalformed[set] {
				r = cl.Cmd("SEARCH " + set)
				got = []string{strings.ToLower(r.Status())}
				for _, k := range ranksOf(r) {
					u := 0
					if k >= 1 && k <= N {
						u = uids[k-1]
					}
					got = append(got, fmt.Sprintf("%d:%d", k, u))
				}
				ops = append(ops, "fetchseq "+hx.H(set)+" "+uidArgs)
				impl = append(impl, strings.Join(got, " "))
				desc = append(desc, tag+" # SEARCH <set>")
				rep.Case("SEARCH "+set+" N="+strconv.Itoa(N), nontriv)
				rep.Hit("A:SEARCH:" + got[0])
				r = cl.Cmd("SEARCH UID " + set)
				got = []string{strings.ToLower(r.Status())}
				for _, k := range ranksOf(r) {
					u := 0
					if k >= 1 && k <= N {
						u = uids[k-1]
					}
					got = append(got, strconv.Itoa(u))
				}
				ops = append(ops, "uidfetch "+hx.H(set)+" "+uidArgs)
				impl = append(impl, strings.Join(got, " "))
				desc = append(desc, tag+" # SEARCH UID <set>")
				r = cl.Cmd("UID SEARCH UID " + set)
				got = []string{strings.ToLower(r.Status())}
				for _, u := range ranksOf(r) {
					got = append(got, strconv.Itoa(u))
				}
				ops = append(ops, "uidfetch "+hx.H(set)+" "+uidArgs)
				impl = append(impl, strings.Join(got, " "))
				desc = append(desc, tag+" # UID SEARCH UID <set>")
				rep.Case("SEARCH UID "+set+" N="+strconv.Itoa(N), nontriv)
				rep.Hit("A:SEARCHUID:" + got[0])
			}
		}
		cl.Close()
	}
	model, err := hx.RunModel(o.Driver, ops)
	if err != nil {
		rep.Violate("broken-correspondence", "driver", err.Error(), nil)
		return
	}
	nbad := 0
	for i := range ops {
		if strings.Contains(desc[i], "SEARCH") {
			// as a search key the set is judged where it is a valid set (what SEARCH answers to a malformed key is C19's subject);
			// the order of the answer is not part of the denotation
			if !strings.HasPrefix(model[i], "ok") {
				continue
			}
			a, b := uniq(strings.Fields(impl[i])), uniq(strings.Fields(model[i])) // FETCH answers once per mention, SEARCH lists a set
			impl[i], model[i] = strings.Join(a, " "), strings.Join(b, " ")
		}
		if impl[i] != model[i] {
			nbad++
			if nbad <= 3 {
				rep.Violate("impl-violation", "set addressing over the wire vs Model/SeqSet (Props.C09.seq_sets_denote / uid_sets_denote)",
					fmt.Sprintf("%s: implementation %q, specification-equivalent model %q", desc[i], impl[i], model[i]), []string{strings.Split(desc[i], " #")[0]})
			}
		}
	}
	if len(ops) > 0 {
		rep.Sample(desc[0] + " => " + impl[0])
		rep.Sample(desc[len(ops)/2] + " => " + impl[len(ops)/2])
	}
}

func uniq(xs []string) []string {
	sort.Strings(xs)
	var out []string
	for i, x := range xs {
		if i == 0 || x != xs[i-1] {
			out = append(out, x)
		}
	}
	return out
}

func rankOf(uids []int, u int) int {
	for i, x := range uids {
		if x == u {
			return i + 1
		}
	}
	return 0
}

// ---------- B + C: histories ----------

func genHist(rng *hx.Rng, n int) []hist.Op {
	var ops []hist.Op
	msg := 1
	boxes := []string{"INBOX", "INBOX", "Sent", "Spam", "a"}
	count := map[string]int{}
	op := func(k string, a ...string) { ops = append(ops, hist.Op{Kind: k, Args: a}) }
	op("create", "a")
	for i := 0; i < 3+rng.Intn(4); i++ {
		b := rng.Pick(boxes)
		op("append", b, strconv.Itoa(msg))
		msg++
		count[b]++
	}
	set := func(b string) string { return genSet(rng, count[b], count[b]+1) }
	for len(ops) < n {
		b := rng.Pick(boxes)
		switch x := rng.Intn(100); {
		case x < 15:
			op("append", b, strconv.Itoa(msg))
			msg++
			count[b]++
		case x < 45:
			op(rng.Pick([]string{"store", "uidstore"}), b, set(b), rng.Pick([]string{"add", "add", "set", "del"}), strconv.Itoa(rng.Intn(2)), `\Deleted`)
		case x < 65:
			op("expunge", b)
		case x < 75:
			op("uidexpunge", b, set(b))
		case x < 80:
			op("close", b)
		case x < 90:
			op(rng.Pick([]string{"copy", "uidcopy"}), b, set(b), rng.Pick(boxes))
		default:
			c := count[b]
			if c == 0 {
				c = 1
			}
			// the Junk / NonJunk keywords move the message; over several messages at once the mailbox is renumbered while the
			// command runs, and the notices carry the numbers of the moment (non-silent in half of the cases)
			target := strconv.Itoa(1 + rng.Intn(c))
			if rng.Chance(45) {
				target = set(b)
			}
			op(rng.Pick([]string{"store", "uidstore"}), b, target, "add", rng.Pick([]string{"0", "1"}), rng.Pick([]string{"Junk", "NonJunk"}))
		}
	}
	return ops
}

// watcher: one session keeps INBOX selected while messages arrive from outside (deliveries, another session's APPEND) and
// other sessions flag messages \Deleted; it expunges, UID-expunges and NOOPs at random. Its own view — the count it has been
// told through EXISTS, minus the EXPUNGE notices it has received — must be the server's count after every NOOP: "EXISTS, STATUS
// MESSAGES, SEARCH ALL, FETCH 1:* … all describe that same set".
func watcher(rep *hx.Report, w *world.World, rng *hx.Rng, steps int) {
	u := "watch@example.com"
	c0 := w.Login(u)
	for i := 0; i < 3; i++ {
		c0.Append("INBOX", "", hist.Msg(9300+i))
	}
	W := w.Login(u)
	defer W.Close()
	defer c0.Close()
	count := -1
	badNotice := ""
	apply := func(r world.Resp) {
		for _, l := range r.Untagged {
			f := strings.Fields(l)
			if len(f) == 3 && f[0] == "*" && f[2] == "EXISTS" {
				count, _ = strconv.Atoi(f[1])
			}
			if len(f) == 3 && f[0] == "*" && f[2] == "EXPUNGE" {
				if k, _ := strconv.Atoi(f[1]); k < 1 || k > count {
					badNotice = fmt.Sprintf("untagged %q while the session has been told of %d messages", l, count)
				}
				count--
			}
		}
	}
	apply(W.Cmd("SELECT INBOX"))
	truth := func() int {
		n := -1
		for _, l := range c0.Cmd("STATUS INBOX (MESSAGES)").Untagged {
			if m := regexp.MustCompile(`MESSAGES (\d+)`).FindStringSubmatch(l); m != nil {
				n, _ = strconv.Atoi(m[1])
			}
		}
		return n
	}
	var trail []string
	id := 9400
	// every run starts with arrivals the session has not been told about when it begins to idle
	script := []int{0, 7, 2, 7, 3, 7}
	for i := 0; i < steps && len(rep.Violations) == 0; i++ {
		kind := rng.Intn(8)
		if i < len(script) {
			kind = script[i]
		}
		switch kind {
		case 7:
			// the session idles for one poll and ends it with DONE: what arrived before the IDLE (not announced yet) is still
			// announced afterwards, what IDLE announces is applied like any other notice
			W.N++
			tag := fmt.Sprintf("t%d", W.N)
			r := W.Send(tag, tag+" IDLE\r\n")
			apply(r)
			if strings.HasPrefix(r.Tagged, "+") {
				if rng.Bool() {
					id++
					// the pipe has no buffer: what the server says while idling has to be read for it to go on
					got := make(chan world.Resp, 1)
					go func() {
						old := W.Wait
						W.Wait = 700 * time.Millisecond
						got <- W.ReadResp(tag)
						W.Wait = old
					}()
					w.Deliver("sender@example.org", []string{u}, hist.Msg(id))
					apply(<-got)
					trail = append(trail, "IDLE(deliver)DONE")
				} else {
					trail = append(trail, "IDLE,DONE")
				}
				apply(W.Send(tag, "DONE\r\n"))
			} else {
				trail = append(trail, "IDLE:"+r.Status())
			}
			rep.Hit("watcher:IDLE")
		case 0, 1:
			id++
			w.Deliver("sender@example.org", []string{u}, hist.Msg(id))
			trail = append(trail, "deliver")
		case 2:
			id++
			c0.Append("INBOX", "", hist.Msg(id))
			trail = append(trail, "append-by-other")
		case 3:
			o2 := w.Login(u)
			o2.Cmd("SELECT INBOX")
			if rng.Bool() {
				o2.Cmd("STORE * +FLAGS.SILENT (\\Deleted)") // the newest message: possibly one the watcher has not been told about yet
			} else {
				o2.Cmd(fmt.Sprintf("STORE %d +FLAGS.SILENT (\\Deleted)", 1+rng.Intn(3)))
			}
			o2.Close()
			trail = append(trail, "flag-deleted-by-other")
		case 4:
			apply(W.Cmd("EXPUNGE"))
			trail = append(trail, "EXPUNGE")
		case 5:
			apply(W.Cmd("UID EXPUNGE 1:*"))
			trail = append(trail, "UID-EXPUNGE")
		case 6:
			apply(W.Cmd("STORE 1 +FLAGS.SILENT (\\Deleted)"))
			trail = append(trail, "STORE-own")
		}
		if badNotice != "" {
			rep.Violate("impl-violation", "client replay (the selected session's own view)", fmt.Sprintf("after %v: %s — a client cannot apply a removal of a message it was never told about", trail, badNotice), []string{"watcher " + strings.Join(trail, ",")})
			return
		}
		beforeIdle := i+1 < len(script) && script[i+1] == 7 // no update between the arrival and the IDLE
		if (rng.Chance(45) && !beforeIdle) || i == steps-1 || (i < len(script) && script[i] == 7) {
			apply(W.Cmd("NOOP"))
			trail = append(trail, "NOOP")
			rep.Case(fmt.Sprintf("watcher|%d|%s", i, strings.Join(trail, ",")), true)
			if t := truth(); t != count {
				rep.Violate("impl-violation", "one list (the selected session's own view: EXISTS minus the EXPUNGE notices it received)", fmt.Sprintf("after %v the session that has INBOX selected has been told of %d messages; STATUS MESSAGES (another session) says %d", trail, count, t), []string{"watcher " + strings.Join(trail, ",")})
				return
			}
			rep.Hit("watcher:view-agrees")
		}
	}
}

func histories(o *hx.Opts, rep *hx.Report, w *world.World, rng *hx.Rng) {
	env := &hist.Env{W: w, Driver: o.Driver, Rep: rep, SkipValidity: true, Stream: "history vs Model/Mail + client replay"}
	env.OnStep = func(h *hist.H, op hist.Op, real, model []hist.BoxD) {
		// B: the client's previous view of the op's mailbox, with the untagged EXPUNGE notices applied in order,
		// must be the server's listing minus what was added
		switch op.Kind {
		case "expunge", "uidexpunge", "store", "uidstore":
			box := op.Args[0]
			var before, after []int
			for _, b := range h.Prev {
				if b.Name == box {
					for _, l := range b.Links {
						before = append(before, l.UID)
					}
				}
			}
			for _, b := range real {
				if b.Name == box {
					for _, l := range b.Links {
						after = append(after, l.UID)
					}
				}
			}
			view := append([]int(nil), before...)
			silent := (op.Kind == "store" || op.Kind == "uidstore") && op.Args[3] == "1"
			for _, n := range strings.Fields(h.LastImpl) {
				if strings.HasPrefix(n, "X:") {
					k, _ := strconv.Atoi(n[2:])
					if k < 1 || k > len(view) {
						h.Rep.Violate("impl-violation", "client replay", fmt.Sprintf("%q: untagged %d EXPUNGE while the client's view has %d messages", op.Human(), k, len(view)), replay(h))
						return
					}
					view = append(view[:k-1], view[k:]...)
					h.Rep.Hit("B:notice")
				}
			}
			if !silent && fmt.Sprint(view) != fmt.Sprint(after) {
				// (once the class predicate of a finding about multi-message Junk stores; since repair 89bd974 an ordinary violation)
				what := fmt.Sprintf("%q: client view after applying the EXPUNGE notices %v, server listing %v", op.Human(), view, after)
				h.Rep.Violate("impl-violation", "client replay", what, replay(h))
			}
		}
		// C: one list
		if len(real) > 0 {
			b := real[len(h.Ops)%len(real)]
			r := h.O.Cmd("EXAMINE " + b.Name)
			exists := -1
			for _, l := range r.Untagged {
				f := strings.Fields(l)
				if len(f) == 3 && f[2] == "EXISTS" {
					exists, _ = strconv.Atoi(f[1])
				}
			}
			var sr []string
			for _, l := range h.O.Cmd("SEARCH ALL").Untagged {
				if m := reSearch.FindStringSubmatch(l); m != nil {
					sr = strings.Fields(m[1])
				}
			}
			var fu []string
			for _, l := range h.O.Cmd("FETCH 1:* (UID)").Untagged {
				if m := reFetchUID.FindStringSubmatch(l); m != nil {
					fu = append(fu, m[1]+":"+m[2])
				}
			}
			var want, wantS []string
			for i, l := range b.Links {
				want = append(want, fmt.Sprintf("%d:%d", i+1, l.UID))
				wantS = append(wantS, strconv.Itoa(i+1))
			}
			if exists != len(b.Links) || b.Messages != len(b.Links) || fmt.Sprint(sr) != fmt.Sprint(wantS) || fmt.Sprint(fu) != fmt.Sprint(want) {
				h.Rep.Violate("impl-violation", "one list", fmt.Sprintf("%q: EXISTS %d, STATUS MESSAGES %d, SEARCH ALL %v, FETCH 1:* %v, UID FETCH 1:* lists %d messages %v", b.Name, exists, b.Messages, sr, fu, len(b.Links), want), replay(h))
			}
			h.Rep.Hit("C:one-list")
		}
	}
	run := func(ops []hist.Op, tag string) {
		env.RunShrunk(ops)
		var key strings.Builder
		exp := false
		for _, op := range ops {
			if strings.Contains(op.Kind, "expunge") || op.Kind == "close" {
				exp = true
			}
			key.WriteString(op.Line() + ";")
		}
		rep.Case(key.String(), exp)
		rep.Hit(tag)
	}
	if o.Replay != "" {
		for _, hs := range hist.SplitHistories(onlyHist(hx.ReadLines(o.Replay))) {
			run(hs, "replay")
		}
		return
	}
	for _, hs := range hist.SplitHistories(hx.ReadLines(o.Corpus + "/histories.ops")) {
		run(hs, "corpus")
	}
	n, maxLen := 100, 14
	if o.Thorough {
		n, maxLen = 2500, 35
	}
	for i := 0; i < n && len(rep.Violations) == 0; i++ {
		ops := genHist(rng.Fork(), 6+rng.Intn(maxLen-5))
		if i < 2 {
			var hs []string
			for _, op := range ops {
				hs = append(hs, op.Human())
			}
			rep.Sample(strings.Join(hs, " ; "))
		}
		run(ops, "generated")
	}
	probes(o, rep, w)
}

func onlyHist(ls []string) []string {
	var o []string
	for _, l := range ls {
		if !strings.HasPrefix(l, "setcase") {
			o = append(o, l)
		}
	}
	return o
}

func replay(h *hist.H) []string {
	o := []string{"newhist"}
	for _, op := range h.Ops {
		o = append(o, op.Line())
	}
	return o
}

// probes of the known findings
func probes(o *hx.Opts, rep *hx.Report, w *world.World) {
	// C09-F1: NOOP in one session after another session expunged a message that was not the last
	a := w.Login("noop@example.com")
	b := w.Login("noop@example.com")
	for i := 1; i <= 3; i++ {
		a.Append("INBOX", "", hist.Msg(i))
	}
	a.Cmd("SELECT INBOX")
	b.Cmd("SELECT INBOX")
	b.Cmd(`STORE 1 +FLAGS.SILENT (\Deleted)`)
	b.Cmd("EXPUNGE")
	view := []int{1, 2, 3}
	for _, l := range a.Cmd("NOOP").Untagged {
		f := strings.Fields(l)
		if len(f) == 3 && f[2] == "EXPUNGE" {
			k, _ := strconv.Atoi(f[1])
			if k >= 1 && k <= len(view) {
				view = append(view[:k-1], view[k:]...)
			}
		}
	}
	var after []int
	for _, l := range a.Cmd("UID FETCH 1:* (UID)").Untagged {
		if m := reFetchUID.FindStringSubmatch(l); m != nil {
			u, _ := strconv.Atoi(m[2])
			after = append(after, u)
		}
	}
	sort.Ints(after)
	if fmt.Sprint(view) != fmt.Sprint(after) {
		rep.Finding("C09-F1", fmt.Sprintf("NOOP after another session expunged message 1 of 3 announces removal from the top: client view %v, server listing %v", view, after), []string{"probe C09-F1"})
	}
	rep.Hit("probe:C09-F1")
	a.Close()
	b.Close()
}
