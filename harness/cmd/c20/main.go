// C20 correspondence: every waiting state of the three services is reached by a command prefix on a connection whose read
// deadlines are recorded and scaled down (so that "30 minutes of silence" takes seconds); then the client disconnects or falls
// silent and the handler must return — releasing its goroutine, its database handles and the socket — within the bound the
// Lean lifetime model gives for that state. LMTP and SASL servers are shut down with connections and transactions in flight.
package main

import (
	"bufio"
	"crypto/ecdsa"
	"crypto/elliptic"
	"crypto/rand"
	"crypto/tls"
	"crypto/x509"
	"crypto/x509/pkix"
	"encoding/base64"
	"encoding/pem"
	"fmt"
	"io"
	"math/big"
	"net"
	"os"
	"runtime"
	"strings"
	"sync"
	"sync/atomic"
	"time"

	"raven/internal/delivery/lmtp"
	"raven/internal/sasl"
	"raven/internal/server/extension"
	"raven/verifh/hx"
	"raven/verifh/world"
)

const scale = 1000

// scaledConn records every read deadline the server asks for and applies it divided by `scale`
type scaledConn struct {
	net.Conn
	mu        sync.Mutex
	requested []time.Duration
}

func (c *scaledConn) IsTLS() bool { return true }
func (c *scaledConn) note(t time.Time) time.Time {
	if t.IsZero() {
		return t
	}
	d := time.Until(t)
	c.mu.Lock()
	c.requested = append(c.requested, d)
	c.mu.Unlock()
	return time.Now().Add(d / scale)
}
func (c *scaledConn) SetReadDeadline(t time.Time) error { return c.Conn.SetReadDeadline(c.note(t)) }
func (c *scaledConn) SetDeadline(t time.Time) error {
	t2 := c.note(t)
	c.Conn.SetWriteDeadline(time.Time{})
	return c.Conn.SetReadDeadline(t2)
}
func (c *scaledConn) last() (time.Duration, bool) {
	c.mu.Lock()
	defer c.mu.Unlock()
	if len(c.requested) == 0 {
		return 0, false
	}
	return c.requested[len(c.requested)-1], true
}
func (c *scaledConn) maxSince(i int) time.Duration {
	c.mu.Lock()
	defer c.mu.Unlock()
	var m time.Duration
	for _, d := range c.requested[i:] {
		if d > m {
			m = d
		}
	}
	return m
}
func (c *scaledConn) count() int {
	c.mu.Lock()
	defer c.mu.Unlock()
	return len(c.requested)
}

type scenario struct {
	svc    string // imap | lmtp
	name   string // prefix name
	state  string // model state the prefix ends in
	prefix func(cl *world.Client, raw net.Conn) bool
}

func send(raw net.Conn, s string) {
	raw.SetWriteDeadline(time.Now().Add(3 * time.Second))
	io.WriteString(raw, s)
}

func readLine(cl *world.Client) string {
	cl.C.SetReadDeadline(time.Now().Add(3 * time.Second))
	l, _ := cl.R.ReadString('\n')
	return l
}

// busyMailbox delivers to life@example.com every 300 ms for the given time
var busyMailbox func(d time.Duration, gen int64)

// busyGen is advanced when a scenario is over: the deliveries of that scenario stop
var busyGen atomic.Int64

func imapScenarios() []scenario {
	login := func(cl *world.Client) bool { return cl.Cmd("LOGIN life@example.com pw").OK() }
	return []scenario{
		{"imap", "greeting", "imapCmd", func(cl *world.Client, raw net.Conn) bool { return true }},
		{"imap", "capability", "imapCmd", func(cl *world.Client, raw net.Conn) bool { return cl.Cmd("CAPABILITY").OK() }},
		{"imap", "authenticated", "imapCmd", func(cl *world.Client, raw net.Conn) bool { return login(cl) }},
		{"imap", "selected", "imapCmd", func(cl *world.Client, raw net.Conn) bool { return login(cl) && cl.Cmd("SELECT INBOX").OK() }},
		{"imap", "after-fetch", "imapCmd", func(cl *world.Client, raw net.Conn) bool {
			return login(cl) && cl.Cmd("SELECT INBOX").OK() && cl.Cmd("FETCH 1:* (FLAGS BODY.PEEK[])").OK()
		}},
		{"imap", "half-a-line", "imapCmd", func(cl *world.Client, raw net.Conn) bool {
			ok := login(cl)
			send(raw, "a9 FETCH 1 (FLA")
			return ok
		}},
		{"imap", "append-literal-awaited", "imapLiteral", func(cl *world.Client, raw net.Conn) bool {
			ok := login(cl)
			r := cl.Send("a7", "a7 APPEND INBOX {100}\r\n")
			return ok && strings.HasPrefix(r.Tagged, "+")
		}},
		{"imap", "append-literal-half-sent", "imapLiteral", func(cl *world.Client, raw net.Conn) bool {
			ok := login(cl)
			r := cl.Send("a7", "a7 APPEND INBOX (\\Seen) {100}\r\n")
			send(raw, "From: a@b\r\nSubject: half\r\n")
			return ok && strings.HasPrefix(r.Tagged, "+")
		}},
		{"imap", "authenticate-response-awaited", "imapAuthWait", func(cl *world.Client, raw net.Conn) bool {
			r := cl.Send("a3", "a3 AUTHENTICATE PLAIN\r\n")
			return strings.HasPrefix(r.Tagged, "+")
		}},
		{"imap", "authenticate-response-fills-the-buffer", "imapAuthWait", func(cl *world.Client, raw net.Conn) bool {
			// 8192 octets and more without a line end: the server's read buffer is full; whatever it makes of them, the
			// session must still end when the client goes away or falls silent
			r := cl.Send("a3", "a3 AUTHENTICATE PLAIN\r\n")
			ok := strings.HasPrefix(r.Tagged, "+")
			go send(raw, strings.Repeat("QUJD", 2048+512))
			time.Sleep(150 * time.Millisecond)
			return ok
		}},
		{"imap", "idle", "imapIdle", func(cl *world.Client, raw net.Conn) bool {
			ok := login(cl) && cl.Cmd("SELECT INBOX").OK()
			r := cl.Send("a5", "a5 IDLE\r\n")
			return ok && strings.HasPrefix(r.Tagged, "+")
		}},
		{"imap", "idle-busy-mailbox", "imapIdle", func(cl *world.Client, raw net.Conn) bool {
			// the selected mailbox keeps changing while the client is gone or silent: the limit counts the client's silence,
			// not the mailbox's
			ok := login(cl) && cl.Cmd("SELECT INBOX").OK()
			r := cl.Send("a5", "a5 IDLE\r\n")
			if busyMailbox != nil {
				go busyMailbox(8*time.Second, busyGen.Load())
			}
			return ok && strings.HasPrefix(r.Tagged, "+")
		}},
		{"imap", "idle-after-done-and-again", "imapIdle", func(cl *world.Client, raw net.Conn) bool {
			ok := login(cl) && cl.Cmd("SELECT INBOX").OK()
			r := cl.Send("a5", "a5 IDLE\r\n")
			ok = ok && strings.HasPrefix(r.Tagged, "+")
			time.Sleep(700 * time.Millisecond)
			r = cl.Send("a5", "DONE\r\n")
			ok = ok && r.OK()
			r = cl.Send("a6", "a6 IDLE\r\n")
			return ok && strings.HasPrefix(r.Tagged, "+")
		}},
	}
}

func lmtpScenarios() []scenario {
	say := func(cl *world.Client, raw net.Conn, line, want string) bool {
		send(raw, line)
		for {
			l := readLine(cl)
			if l == "" {
				return false
			}
			if len(l) >= 4 && l[3] == ' ' {
				return strings.HasPrefix(l, want)
			}
		}
	}
	upto := func(n int) func(cl *world.Client, raw net.Conn) bool {
		return func(cl *world.Client, raw net.Conn) bool {
			steps := []struct{ l, w string }{{"LHLO client.example\r\n", "250"}, {"MAIL FROM:<s@example.org>\r\n", "250"}, {"RCPT TO:<life@example.com>\r\n", "250"}, {"DATA\r\n", "354"}}
			for i := 0; i < n; i++ {
				if !say(cl, raw, steps[i].l, steps[i].w) {
					return false
				}
			}
			return true
		}
	}
	return []scenario{
		{"lmtp", "greeting", "lmtpCmd", upto(0)},
		{"lmtp", "after-lhlo", "lmtpCmd", upto(1)},
		{"lmtp", "after-mail", "lmtpCmd", upto(2)},
		{"lmtp", "after-rcpt", "lmtpCmd", upto(3)},
		{"lmtp", "data-awaited", "lmtpData", upto(4)},
		{"lmtp", "data-half-sent", "lmtpData", func(cl *world.Client, raw net.Conn) bool {
			ok := upto(4)(cl, raw)
			send(raw, "From: s@example.org\r\nTo: life@example.com\r\nSubject: half\r\n\r\nfirst line\r\nsecond li")
			return ok
		}},
		{"lmtp", "after-delivery", "lmtpCmd", func(cl *world.Client, raw net.Conn) bool {
			ok := upto(4)(cl, raw)
			return ok && say(cl, raw, "From: s@example.org\r\nTo: life@example.com\r\nSubject: whole\r\n\r\nbody\r\n.\r\n", "250")
		}},
	}
}

// backendConns counts the HTTP client connections this process holds open (net/http keeps a read loop per connection)
func backendConns() int {
	buf := make([]byte, 1<<24)
	n := runtime.Stack(buf, true)
	return strings.Count(string(buf[:n]), "net/http.(*persistConn).readLoop(")
}

// ravenGoroutines counts goroutines currently inside the services' connection code
// mutesAttached: the silent SASL clients of muteSASL are still attached (their handlers wait, as they should, for the
// real 30 s read deadline while the rest of the check runs); their goroutines are judged by muteSASL's own verdict
var mutesAttached bool

func ravenGoroutines() (int, string) {
	buf := make([]byte, 1<<22)
	n := runtime.Stack(buf, true)
	cnt := 0
	sample := ""
	for _, g := range strings.Split(string(buf[:n]), "\n\n") {
		if mutesAttached && strings.Contains(g, "sasl.(*Server).handleConnection") && !strings.Contains(g, "raven/internal/server") && !strings.Contains(g, "lmtp.(*Session)") {
			continue
		}
		if strings.Contains(g, "raven/internal/server.") || strings.Contains(g, "raven/internal/server/") || strings.Contains(g, "lmtp.(*Session)") || strings.Contains(g, "sasl.(*Server).handleConnection") {
			cnt++
			if sample == "" {
				lines := strings.Split(g, "\n")
				if len(lines) > 6 {
					lines = lines[:6]
				}
				sample = strings.Join(lines, " / ")
			}
		}
	}
	return cnt, sample
}

func main() {
	o, rep := hx.Init("C20")
	hx.Quiet()
	rep.Rule = "every waiting state of IMAP (greeting, command wait before and after login / selection / a large FETCH, half a command line, APPEND literal awaited and half sent, AUTHENTICATE response awaited, IDLE, IDLE re-entered) and LMTP (greeting, after LHLO / MAIL / RCPT, DATA awaited, DATA half sent, after a delivery) × {client closes, client falls silent (deadlines recorded and scaled by 1000)}; SASL connections closed in every state before Shutdown; LMTP and SASL Shutdown with connections and a transaction in flight, late dials, Start returning; distinct by (service, prefix, mode); all non-trivial"
	dir, cleanup := hx.WorkDir("c20")
	defer cleanup()
	w, err := world.New(dir, "example.com")
	if err != nil {
		rep.Violate("broken-correspondence", "world", err.Error(), nil)
		rep.Finish()
	}
	defer w.Close()
	// a mailbox with something in it
	c := w.Login("life@example.com")
	for i := 0; i < 3; i++ {
		c.Append("INBOX", "", fmt.Sprintf("From: a@b\r\nSubject: m%d\r\n\r\n%s\r\n", i, strings.Repeat("line of text\r\n", 200)))
	}
	c.Cmd("LOGOUT")
	c.Close()
	lmtpTimeout := w.LCfg.LMTP.Timeout

	var ops []string
	var checks []func(string)
	ask := func(op string, f func(ans string)) { ops = append(ops, op); checks = append(checks, f) }

	// the limit of a silent IDLE is a duration the code compares with, not a read deadline: it is tied to the model as it
	// stands in the source and then scaled like the deadlines
	idleLimit := extension.IdleTimeout
	ask("t.bound imapIdle 0", func(ans string) {
		if want := fmt.Sprint(idleLimit.Milliseconds() + 550); ans != want {
			rep.Violate("broken-correspondence", "IDLE limit vs Model/Lifetime.idleLimitMs (Props.C20.deadlines)", fmt.Sprintf("extension.IdleTimeout is %v (+ one 550 ms round = %s ms), the model's bound is %s ms", idleLimit, want, ans), nil)
		}
	})
	extension.IdleTimeout = idleLimit / scale

	only := map[string]bool{}
	if o.Replay != "" {
		for _, l := range hx.ReadLines(o.Replay) {
			f := strings.Fields(l)
			if len(f) >= 2 && f[0] == "scenario" {
				only[f[1]] = true
			}
		}
	}
	// SASL deadlines run on real sockets in real time (30 s): two silent clients — one that never says a word, one that went
	// silent after its first line — are attached now and judged when everything else is done
	muteDone := muteSASL(w, dir, rep, len(only) > 0)
	busyMailbox = func(d time.Duration, gen int64) {
		for end, i := time.Now().Add(d), 0; time.Now().Before(end) && busyGen.Load() == gen; i++ {
			w.Deliver("s@example.org", []string{"life@example.com"}, fmt.Sprintf("From: s@example.org\r\nTo: life@example.com\r\nSubject: busy %d\r\n\r\nx\r\n", i))
			time.Sleep(300 * time.Millisecond)
		}
	}
	scs := append(imapScenarios(), lmtpScenarios()...)
	rounds := 1
	if o.Thorough {
		rounds = 4
	}
	for round := 0; round < rounds; round++ {
		for _, sc := range scs {
			for _, mode := range []string{"close", "silent", "reset-mid-write"} {
				id := sc.svc + "/" + sc.name + "/" + mode
				if len(only) > 0 && !only[id] {
					continue
				}
				if mode == "reset-mid-write" && sc.name != "selected" {
					continue
				}
				rep.Case(id, true)
				busyGen.Add(1)
				a, b := net.Pipe()
				conn := &scaledConn{Conn: a}
				done := make(chan struct{})
				go func() {
					defer close(done)
					if sc.svc == "imap" {
						w.Srv.HandleConnection(conn)
					} else {
						lmtp.NewSession(conn, w.Stor, w.LCfg).Handle()
						a.Close() // what lmtp.Server.handleConnection defers
					}
				}()
				cl := &world.Client{C: b, R: bufio.NewReaderSize(b, 1<<16), W: w, Wait: 3 * time.Second}
				readLine(cl) // greeting
				if !sc.prefix(cl, b) {
					rep.Violate("broken-correspondence", "prefix", id+": the command prefix did not reach its state", []string{"scenario " + id})
					b.Close()
					<-done
					continue
				}
				time.Sleep(30 * time.Millisecond) // let the server arrive at its read
				mark := conn.count()
				lastD, _ := conn.last()
				t0 := time.Now()
				replay := []string{"scenario " + id}
				switch mode {
				case "close":
					b.Close()
					select {
					case <-done:
						rep.Hit("close:ended")
					case <-time.After(5 * time.Second):
						n, g := ravenGoroutines()
						rep.Violate("impl-violation", "disconnect ends the session (Props.C20.eof_closes)", fmt.Sprintf("%s: the client closed the connection in state %s and the handler is still running 5 s later (%d goroutines in service code: %s)", id, sc.state, n, g), replay)
					}
					st := sc.state
					ask("t.fail "+st+" eof", func(ans string) {
						if ans != "closed" && ans != "imapCmd" && ans != "lmtpCmd" {
							rep.Violate("broken-correspondence", "model", "t.fail "+st+" eof = "+ans, replay)
						}
					})
				case "reset-mid-write":
					// ask for a lot and go away without reading it
					send(b, "a8 FETCH 1:* (BODY.PEEK[])\r\n")
					time.Sleep(20 * time.Millisecond)
					b.Close()
					select {
					case <-done:
						rep.Hit("midwrite:ended")
					case <-time.After(5 * time.Second):
						rep.Violate("impl-violation", "disconnect ends the session (Props.C20.eof_closes)", id+": the client went away while a response was being written and the handler is still running 5 s later", replay)
					}
				case "silent":
					st := sc.state
					// silent = sends nothing; what the server writes is still taken off the wire (net.Pipe has no buffer of its
					// own, a TCP peer's kernel does)
					drained := make(chan struct{})
					go func() { io.Copy(io.Discard, b); close(drained) }()
					// what deadline does the server hold at this wait?
					obsMs := lastD.Round(10 * time.Millisecond).Milliseconds()
					if st == "imapIdle" {
						// polling: the largest deadline requested while idling
						time.Sleep(1300 * time.Millisecond)
						obsMs = conn.maxSince(mark).Round(10 * time.Millisecond).Milliseconds()
					}
					ask(fmt.Sprintf("t.deadline %s %d", st, lmtpTimeout), func(ans string) {
						rep.Hit("deadline:" + st + "=" + ans)
						if fmt.Sprint(obsMs) != ans {
							rep.Violate("broken-correspondence", "read deadline vs Model/Lifetime.deadlineMs (Props.C20.deadlines)", fmt.Sprintf("%s: the server waits with a read deadline of %d ms, the model says %s", id, obsMs, ans), replay)
						}
					})
					// wait: the model's bound for this state, scaled, plus slack
					bound := map[string]time.Duration{"imapCmd": 30 * time.Minute, "imapLiteral": 35 * time.Minute, "imapAuthWait": 30*time.Minute + 30*time.Second,
						"imapIdle": idleLimit, "lmtpCmd": time.Duration(lmtpTimeout) * time.Second, "lmtpData": 2 * time.Duration(lmtpTimeout) * time.Second}[st]
					ask(fmt.Sprintf("t.bound %s %d", st, lmtpTimeout), func(ans string) {
						if st != "imapIdle" && ans != fmt.Sprint(bound.Milliseconds()) {
							rep.Violate("broken-correspondence", "model", fmt.Sprintf("t.bound %s = %s, the harness waits for %d ms", st, ans, bound.Milliseconds()), replay)
						}
					})
					wait := bound/scale + 1500*time.Millisecond
					if st == "imapIdle" {
						wait += 2 * time.Second // the rounds of the IDLE loop (500 ms sleep, 50 ms read) run in real time
					}
					select {
					case <-done:
						rep.Hit("silent:ended")
						el := time.Since(t0)
						if el+150*time.Millisecond < lastD/scale {
							rep.Violate("broken-correspondence", "timing", fmt.Sprintf("%s: session ended after %v, before its deadline %v/%d", id, el, lastD, scale), replay)
						}
						if st == "imapIdle" && el+150*time.Millisecond < idleLimit/scale {
							rep.Violate("broken-correspondence", "timing", fmt.Sprintf("%s: the idling session was ended after %v, before the limit %v/%d", id, el, idleLimit, scale), replay)
						}
					case <-time.After(wait):
						n, g := ravenGoroutines()
						rep.Violate("impl-violation", "silence ends the session (Props.C20.silence_closes / idle_silence_closes)", fmt.Sprintf("%s: silent in state %s for the equivalent of %v (model bound %v) and the handler is still running (%d goroutines in service code: %s)", id, st, wait*scale, bound, n, g), replay)
						b.Close()
						<-done
					}
					// the socket: the server side is closed, so the drain has seen the end of the stream
					select {
					case <-drained:
					case <-time.After(time.Second):
						rep.Violate("impl-violation", "socket released", id+": the handler returned but the connection was left open", replay)
					}
					b.Close()
				}
			}
		}
		// goroutines and database handles after everything has ended
		var n int
		var g string
		for i := 0; i < 30; i++ { // up to 3 s for the last handlers to return (a loaded machine schedules them late)
			time.Sleep(100 * time.Millisecond)
			if n, g = ravenGoroutines(); n == 0 {
				break
			}
		}
		if n != 0 {
			rep.Violate("impl-violation", "goroutines released", fmt.Sprintf("%d goroutines are still inside service code after every session has ended: %s", n, g), nil)
		}
		if st := w.Mgr.GetSharedDB().Stats(); st.InUse != 0 {
			rep.Violate("impl-violation", "database handles released", fmt.Sprintf("shared database: %d connections still in use after every session has ended", st.InUse), nil)
		}
	}

	if len(only) == 0 {
		// sockets: what a session opened towards the authentication backend is released with it. A shared client may keep a
		// bounded number of idle connections; a number that grows with the logins is a leak (each holds two goroutines and a
		// descriptor until the other side gives up)
		rep.Case("imap/backend-connections-after-logins", true)
		base := backendConns()
		for i := 0; i < 25; i++ {
			c := w.Login(fmt.Sprintf("life%d@example.com", i%3))
			c.Cmd("LOGOUT")
			c.Close()
		}
		time.Sleep(300 * time.Millisecond)
		if n := backendConns(); n > base+4 {
			rep.Violate("impl-violation", "sockets released", fmt.Sprintf("25 further IMAP logins (each session ended) left %d more connections to the authentication backend open (%d → %d): one per login, never closed", n-base, base, n), []string{"scenario imap/backend-connections-after-logins"})
		}
		transportEnds(w, dir, rep)
		shutdownLMTP(w, dir, rep, ask, o.Thorough)
		shutdownSASL(w, dir, rep, o.Thorough)
	}

	if muteDone != nil {
		muteDone()
		mutesAttached = false
		// now that the silent clients have been dropped, nothing at all may be left inside service code
		gone := false
		var n int
		var g string
		for i := 0; i < 20 && !gone; i++ {
			time.Sleep(100 * time.Millisecond)
			n, g = ravenGoroutines()
			gone = n == 0
		}
		if !gone {
			rep.Violate("impl-violation", "goroutines released", fmt.Sprintf("%d goroutines are still inside service code after every session has ended and every silent SASL client has been dropped: %s", n, g), nil)
		}
	}
	if len(ops) > 0 {
		ans, err := hx.RunModel(o.Driver, ops)
		if err != nil {
			rep.Violate("broken-correspondence", "driver", err.Error(), nil)
		} else {
			for i, f := range checks {
				f(ans[i])
			}
		}
	}
	rep.Sample("scenarios: " + fmt.Sprint(len(scs)) + " prefixes × {close, silent}; deadlines scaled by 1000")
	rep.Finish()
}

// transportEnds: the ways a real TCP connection goes away — orderly close, and a reset (SO_LINGER 0: the peer was killed, a
// middlebox cut the connection) — on plain TCP and under TLS, with the session inside IDLE and at the command wait. Under TLS a
// reset reaches the server as ECONNRESET inside the record layer's error, not as EOF.
func transportEnds(w *world.World, dir string, rep *hx.Report) {
	key, _ := ecdsa.GenerateKey(elliptic.P256(), rand.Reader)
	tpl := &x509.Certificate{SerialNumber: big.NewInt(1), Subject: pkix.Name{CommonName: "localhost"}, NotBefore: time.Now().Add(-time.Hour), NotAfter: time.Now().Add(24 * time.Hour), DNSNames: []string{"localhost"}}
	der, _ := x509.CreateCertificate(rand.Reader, tpl, tpl, &key.PublicKey, key)
	kb, _ := x509.MarshalECPrivateKey(key)
	cert, err := tls.X509KeyPair(pem.EncodeToMemory(&pem.Block{Type: "CERTIFICATE", Bytes: der}), pem.EncodeToMemory(&pem.Block{Type: "EC PRIVATE KEY", Bytes: kb}))
	if err != nil {
		rep.Violate("broken-correspondence", "tls", err.Error(), nil)
		return
	}
	ln, err := net.Listen("tcp", "127.0.0.1:0")
	if err != nil {
		rep.Note("no loopback TCP in this sandbox: transport-level endings not exercised (%v)", err)
		return
	}
	defer ln.Close()
	for _, useTLS := range []bool{false, true} {
		for _, state := range []string{"idle", "command-wait", "authenticate-long-response"} {
			for _, how := range []string{"close", "reset"} {
				id := fmt.Sprintf("tcp/tls=%v/%s/%s", useTLS, state, how)
				rep.Case(id, true)
				replay := []string{"scenario " + id}
				done := make(chan struct{})
				go func() {
					defer close(done)
					sc, err := ln.Accept()
					if err != nil {
						return
					}
					if useTLS {
						// what HandleSSLConnection / a TLS-terminating front end hands to the command loop: a *tls.Conn
						w.Srv.HandleConnection(tls.Server(sc, &tls.Config{Certificates: []tls.Certificate{cert}}))
					} else {
						w.Srv.HandleConnection(tcpTLS{sc})
					}
				}()
				raw, err := net.Dial("tcp", ln.Addr().String())
				if err != nil {
					rep.Violate("broken-correspondence", "tcp", err.Error(), replay)
					return
				}
				var cc net.Conn = raw
				if useTLS {
					cc = tls.Client(raw, &tls.Config{InsecureSkipVerify: true})
				}
				cl := &world.Client{C: cc, R: bufio.NewReaderSize(cc, 1<<16), W: w, Wait: 4 * time.Second}
				readLine(cl)
				ok := true
				if state == "authenticate-long-response" {
					// the continuation is answered with more octets than the server's read buffer holds and no line end; a
					// zero-length read on a TCP or TLS connection returns at once, so a loop that waits for the line end spins
					r := cl.Send("a3", "a3 AUTHENTICATE PLAIN\r\n")
					ok = strings.HasPrefix(r.Tagged, "+")
					cc.SetWriteDeadline(time.Now().Add(2 * time.Second))
					io.WriteString(cc, strings.Repeat("QUJD", 2048+512))
				} else {
					ok = cl.Cmd("LOGIN life@example.com pw").OK() && cl.Cmd("SELECT INBOX").OK()
				}
				if state == "idle" {
					r := cl.Send("a5", "a5 IDLE\r\n")
					ok = ok && strings.HasPrefix(r.Tagged, "+")
				}
				if !ok {
					rep.Violate("broken-correspondence", "prefix", id+": the command prefix did not reach its state", replay)
					raw.Close()
					<-done
					continue
				}
				time.Sleep(700 * time.Millisecond) // inside a poll
				if how == "reset" {
					raw.(*net.TCPConn).SetLinger(0)
				}
				raw.Close()
				select {
				case <-done:
					rep.Hit("transport:" + how + ":ended")
				case <-time.After(6 * time.Second):
					n, g := ravenGoroutines()
					rep.Violate("impl-violation", "disconnect ends the session (Props.C20.eof_closes)", fmt.Sprintf("%s: the client's TCP connection was %s and the handler is still running 6 s later (%d goroutines in service code: %s)", id, map[string]string{"close": "closed", "reset": "reset"}[how], n, g), replay)
				}
			}
		}
	}
}

// tcpTLS marks a plain TCP connection as TLS-protected (the IsTLS double) so that LOGIN is allowed on it
type tcpTLS struct{ net.Conn }

func (tcpTLS) IsTLS() bool { return true }

// muteSASL attaches silent clients to a SASL server and returns the function that judges them: each must have been
// dropped by the server 30 s (the read deadline) after it fell silent, and Shutdown must then return at once
func muteSASL(w *world.World, dir string, rep *hx.Report, skip bool) func() {
	if skip {
		return nil
	}
	sock := dir + "/sasl-mute.sock"
	srv := sasl.NewServer(sock, "", w.Backend.Srv.URL, "example.com")
	go srv.Start()
	for i := 0; i < 100; i++ {
		if c, err := net.Dial("unix", sock); err == nil {
			c.Close()
			break
		}
		time.Sleep(10 * time.Millisecond)
	}
	type mute struct {
		what string
		c    net.Conn
		gone chan time.Duration
	}
	var ms []*mute
	t0 := time.Now()
	mutesAttached = true
	for _, pre := range []struct{ what, send string }{{"a client that never sends anything", ""}, {"a client that sent half a line", "VERSION\t1"}, {"a client that went silent after VERSION", "VERSION\t1\t2\n"}} {
		c, err := net.Dial("unix", sock)
		if err != nil {
			rep.Violate("broken-correspondence", "sasl server", "cannot connect: "+err.Error(), nil)
			return nil
		}
		io.WriteString(c, pre.send)
		m := &mute{pre.what, c, make(chan time.Duration, 1)}
		ms = append(ms, m)
		go func() {
			buf := make([]byte, 256)
			for {
				if _, err := m.c.Read(buf); err != nil {
					m.gone <- time.Since(t0)
					return
				}
			}
		}()
	}
	// an authentication in flight against a backend that accepts the connection and then says nothing (a hung process behind a
	// TCP balancer), over https: the request is bounded like any other; the client has gone away meanwhile. Judged at the end,
	// like the silent clients: by then the bound (10 s) has long passed, and Shutdown returns
	stall, _ := net.Listen("tcp", "127.0.0.1:0")
	var held []net.Conn
	var heldMu sync.Mutex
	go func() {
		for {
			c, err := stall.Accept()
			if err != nil {
				return
			}
			heldMu.Lock()
			held = append(held, c)
			heldMu.Unlock()
		}
	}()
	sock2 := dir + "/sasl-stalled.sock"
	srv2 := sasl.NewServer(sock2, "", "https://"+stall.Addr().String()+"/auth", "example.com")
	go srv2.Start()
	for i := 0; i < 100; i++ {
		if c, err := net.Dial("unix", sock2); err == nil {
			io.WriteString(c, "VERSION\t1\t2\nCPID\t1\nAUTH\t1\tPLAIN\tservice=smtp\tresp="+base64.StdEncoding.EncodeToString([]byte("\x00stalled@example.com\x00pw"))+"\n")
			time.Sleep(300 * time.Millisecond)
			c.Close()
			break
		}
		time.Sleep(10 * time.Millisecond)
	}
	return func() {
		{
			id := "sasl/authentication-in-flight/backend-stalls-in-the-tls-handshake"
			rep.Case(id, true)
			if d := 13*time.Second - time.Since(t0); d > 0 {
				time.Sleep(d)
			}
			sd := make(chan error, 1)
			go func() { sd <- srv2.Shutdown() }()
			select {
			case <-sd:
				rep.Hit("sasl-shutdown:after-stalled-backend")
			case <-time.After(3 * time.Second):
				rep.Violate("impl-violation", "Shutdown returns / a session ends within a bounded time (Props.C20)", fmt.Sprintf("%v after a client sent AUTH and went away, with an https authentication backend that accepts the connection and never answers, the session still waits for it: sasl.Server.Shutdown has not returned within 3 s", time.Since(t0).Round(time.Second)), []string{"scenario " + id})
			}
			stall.Close()
			heldMu.Lock()
			for _, c := range held {
				c.Close()
			}
			heldMu.Unlock()
		}
		for _, m := range ms {
			id := "sasl/silent/" + m.what
			rep.Case(id, true)
			wait := 34*time.Second - time.Since(t0)
			if wait < time.Second {
				wait = time.Second
			}
			select {
			case d := <-m.gone:
				rep.Hit("sasl-silent:dropped")
				if d < 25*time.Second {
					rep.Note("%s was dropped after %v (deadline 30 s)", m.what, d.Round(time.Second))
				}
			case <-time.After(wait):
				rep.Violate("impl-violation", "silence ends the session (Props.C20.silence_closes_partial, SASL 30 s)", fmt.Sprintf("%s is still attached to the SASL service %v after it fell silent (read deadline 30 s)", m.what, time.Since(t0).Round(time.Second)), []string{"scenario " + id})
			}
			m.c.Close()
		}
		sd := make(chan error, 1)
		go func() { sd <- srv.Shutdown() }()
		select {
		case <-sd:
			rep.Hit("sasl-shutdown:after-silent-clients")
		case <-time.After(3 * time.Second):
			rep.Violate("impl-violation", "Shutdown returns", "sasl.Server.Shutdown has not returned 3 s after the last silent client was closed", []string{"scenario sasl/silent"})
		}
	}
}

func dialLMTP(sock string) (net.Conn, *bufio.Reader, bool) {
	c, err := net.DialTimeout("unix", sock, time.Second)
	if err != nil {
		return nil, nil, false
	}
	r := bufio.NewReader(c)
	c.SetReadDeadline(time.Now().Add(2 * time.Second))
	l, err := r.ReadString('\n')
	if err != nil || !strings.HasPrefix(l, "220") {
		c.Close()
		return nil, nil, false
	}
	return c, r, true
}

func lmtpSay(c net.Conn, r *bufio.Reader, line, want string) bool {
	c.SetWriteDeadline(time.Now().Add(2 * time.Second))
	io.WriteString(c, line)
	for {
		c.SetReadDeadline(time.Now().Add(3 * time.Second))
		l, err := r.ReadString('\n')
		if err != nil {
			return false
		}
		if len(l) >= 4 && l[3] == ' ' {
			return strings.HasPrefix(l, want)
		}
	}
}

func shutdownLMTP(w *world.World, dir string, rep *hx.Report, ask func(string, func(string)), thorough bool) {
	for variant := 0; variant < 3; variant++ {
		id := fmt.Sprintf("lmtp/shutdown/%d", variant)
		rep.Case(id, true)
		replay := []string{"scenario " + id}
		cfg := *w.LCfg
		cfg.LMTP.UnixSocket = fmt.Sprintf("%s/lmtp-%d.sock", dir, variant)
		cfg.LMTP.TCPAddress = ""
		srv := lmtp.NewServer(w.Mgr, &cfg)
		started := make(chan error, 1)
		go func() { started <- srv.Start() }()
		for i := 0; i < 100; i++ {
			if _, err := os.Stat(cfg.LMTP.UnixSocket); err == nil {
				break
			}
			time.Sleep(10 * time.Millisecond)
		}
		var accepted []bool
		// a transaction in flight
		c1, r1, ok1 := dialLMTP(cfg.LMTP.UnixSocket)
		accepted = append(accepted, ok1)
		if !ok1 {
			rep.Violate("broken-correspondence", "lmtp server", id+": cannot connect before shutdown", replay)
			continue
		}
		subj := fmt.Sprintf("inflight-%d-%d", variant, time.Now().UnixNano())
		okp := lmtpSay(c1, r1, "LHLO x\r\n", "250") && lmtpSay(c1, r1, "MAIL FROM:<s@example.org>\r\n", "250") && lmtpSay(c1, r1, "RCPT TO:<life@example.com>\r\n", "250")
		if variant >= 1 {
			okp = okp && lmtpSay(c1, r1, "DATA\r\n", "354")
			io.WriteString(c1, "From: s@example.org\r\nTo: life@example.com\r\nSubject: "+subj+"\r\n\r\nhalf of the bo")
		}
		if !okp {
			rep.Violate("broken-correspondence", "lmtp server", id+": prefix failed", replay)
		}
		// Shutdown must return
		sd := make(chan error, 1)
		t0 := time.Now()
		go func() { sd <- srv.Shutdown() }()
		select {
		case <-sd:
			rep.Hit("lmtp-shutdown:returned")
		case <-time.After(5 * time.Second):
			rep.Violate("impl-violation", "Shutdown returns (Props.C20.shutdown_stops_listening)", fmt.Sprintf("%s: lmtp.Server.Shutdown has not returned after %v with one connection in flight", id, time.Since(t0)), replay)
		}
		// late dial
		_, _, ok2 := dialLMTP(cfg.LMTP.UnixSocket)
		accepted = append(accepted, false, ok2) // shutdown event, late dial
		if ok2 {
			rep.Violate("impl-violation", "no accept after shutdown (Props.C20.no_accept_after_shutdown)", id+": a connection made after Shutdown returned was served", replay)
		}
		// the transaction in flight: completed and acknowledged, or not acknowledged
		acked := false
		switch variant {
		case 0:
			c1.Close()
		case 1:
			io.WriteString(c1, "dy\r\n.\r\n")
			c1.SetReadDeadline(time.Now().Add(4 * time.Second))
			l, err := r1.ReadString('\n')
			acked = err == nil && strings.HasPrefix(l, "250")
			rep.Hit(fmt.Sprintf("inflight-finished:acked=%v", acked))
			c1.Close()
		case 2:
			c1.Close() // abandoned in the middle of DATA
		}
		// Start returns once the connection is gone
		select {
		case <-started:
			rep.Hit("lmtp-start:returned")
		case <-time.After(5 * time.Second):
			rep.Violate("impl-violation", "Start returns after shutdown (Props.C20.start_returns_iff)", id+": lmtp.Server.Start has not returned 5 s after Shutdown and the end of the last connection", replay)
		}
		// acknowledged ⇒ stored; abandoned ⇒ nothing with that subject
		c := w.Login("life@example.com")
		c.Cmd("SELECT INBOX")
		r := c.Cmd("SEARCH SUBJECT " + subj)
		found := false
		for _, l := range r.Untagged {
			if strings.HasPrefix(l, "* SEARCH") && len(strings.Fields(l)) > 2 {
				found = true
			}
		}
		c.Close()
		if acked && !found {
			rep.Violate("impl-violation", "in-flight transaction (acknowledged ⇒ stored)", id+": the transaction finished after Shutdown was acknowledged with 250 but its message is not in the mailbox", replay)
		}
		if !acked && found && variant == 2 {
			rep.Violate("impl-violation", "in-flight transaction (abandoned ⇒ nothing delivered)", id+": the transaction was abandoned in the middle of DATA and a message appeared", replay)
		}
		evs := "t.srv dial shutdown dial connDone acceptorExit"
		acc := accepted
		ask(evs, func(ans string) {
			f := strings.Fields(ans)
			if len(f) < 3 || f[0] != fmt.Sprint(acc[0]) || f[2] != fmt.Sprint(acc[2]) || !strings.Contains(ans, "started_returned=true") {
				rep.Violate("broken-correspondence", "accept/shutdown vs Model/Lifetime.srun", fmt.Sprintf("%s: dial outcomes %v, model %s", id, acc, ans), replay)
			}
		})
	}
}

func shutdownSASL(w *world.World, dir string, rep *hx.Report, thorough bool) {
	variants := 2
	if thorough {
		variants = 3
	}
	for variant := 0; variant < variants; variant++ {
		id := fmt.Sprintf("sasl/shutdown/%d", variant)
		rep.Case(id, true)
		replay := []string{"scenario " + id}
		sock := fmt.Sprintf("%s/sasl-%d.sock", dir, variant)
		srv := sasl.NewServer(sock, "", w.Backend.Srv.URL, "example.com")
		started := make(chan error, 1)
		go func() { started <- srv.Start() }()
		for i := 0; i < 100; i++ {
			if c, err := net.Dial("unix", sock); err == nil {
				c.Close()
				break
			}
			time.Sleep(10 * time.Millisecond)
		}
		if variant == 0 {
			rep.Case("sasl/backend-connections-after-auths", true)
			base := backendConns()
			for i := 0; i < 25; i++ {
				c, err := net.Dial("unix", sock)
				if err != nil {
					break
				}
				io.WriteString(c, "VERSION\t1\t2\nCPID\t1\nAUTH\t1\tPLAIN\tservice=smtp\tresp=AGxpZmVAZXhhbXBsZS5jb20AcHc=\n")
				c.SetReadDeadline(time.Now().Add(2 * time.Second))
				r := bufio.NewReader(c)
				for {
					l, err := r.ReadString('\n')
					if err != nil || strings.HasPrefix(l, "OK") || strings.HasPrefix(l, "FAIL") {
						break
					}
				}
				c.Close()
			}
			time.Sleep(300 * time.Millisecond)
			if n := backendConns(); n > base+4 {
				rep.Violate("impl-violation", "sockets released", fmt.Sprintf("25 SASL authentications (each connection closed) left %d more connections to the authentication backend open (%d → %d)", n-base, base, n), []string{"scenario sasl/backend-connections-after-auths"})
			}
		}
		// connections in every state
		var conns []net.Conn
		for _, pre := range []string{"", "VERSION\t1\t2\nCPID\t1\n", "VERSION\t1\t2\nCPID\t1\nAUTH\t1\tLOGIN\tservice=smtp\n", "VERSION\t1\t2\nCPID\t1\nAUTH\t1\tPLAIN\tservice=smtp\n", "AUTH\t1\tPLAIN\tresp=AGE"} {
			c, err := net.Dial("unix", sock)
			if err != nil {
				rep.Violate("broken-correspondence", "sasl server", id+": cannot connect", replay)
				continue
			}
			io.WriteString(c, pre)
			conns = append(conns, c)
		}
		time.Sleep(100 * time.Millisecond)
		limit := 3 * time.Second
		switch variant {
		case 0: // every client gone before the shutdown
			for _, c := range conns {
				c.Close()
			}
		case 1: // clients go away shortly after
			go func() {
				time.Sleep(300 * time.Millisecond)
				for _, c := range conns {
					c.Close()
				}
			}()
		case 2: // clients stay silent: the 30 s read deadline is the bound
			limit = 33 * time.Second
		}
		sd := make(chan error, 1)
		t0 := time.Now()
		go func() { sd <- srv.Shutdown() }()
		select {
		case <-sd:
			rep.Hit(fmt.Sprintf("sasl-shutdown:returned-v%d", variant))
		case <-time.After(limit):
			n, g := ravenGoroutines()
			rep.Violate("impl-violation", "Shutdown returns; sessions of departed clients end (Props.C20.eof_closes / conns_monotone_after_shutdown)", fmt.Sprintf("%s: sasl.Server.Shutdown has not returned after %v (%d goroutines in service code: %s)", id, time.Since(t0), n, g), replay)
		}
		if c, err := net.DialTimeout("unix", sock, 500*time.Millisecond); err == nil {
			c.SetReadDeadline(time.Now().Add(500 * time.Millisecond))
			io.WriteString(c, "VERSION\t1\t2\n")
			buf := make([]byte, 64)
			if n, _ := c.Read(buf); n > 0 {
				rep.Violate("impl-violation", "no accept after shutdown (Props.C20.no_accept_after_shutdown)", id+": a connection made after Shutdown returned was served", replay)
			}
			c.Close()
		}
		select {
		case <-started:
			rep.Hit("sasl-start:returned")
		case <-time.After(3 * time.Second):
			rep.Violate("impl-violation", "Start returns after shutdown (Props.C20.start_returns_iff)", id+": sasl.Server.Start has not returned 3 s after Shutdown", replay)
		}
		for _, c := range conns {
			c.Close()
		}
	}
}
