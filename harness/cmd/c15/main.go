// C15 correspondence: the real blobstorage package + AWS SDK against an in-memory S3-compatible object store with scripted
// faults (5xx, timeouts, dropped connections, missing objects); sequences of stored parts with equal / unequal content, several
// transfer encodings and wrappings, sizes around the threshold, under every combination of S3 enabled / disabled on the delivery
// and on the IMAP side. After every step every stored message is fetched and compared with what was submitted, and the blobs
// table is audited against the Lean blob-store model (reference counts, first writer's text).
package main

import (
	"crypto/sha256"
	"database/sql"
	"encoding/base64"
	"encoding/hex"
	"fmt"
	"io"
	"mime/quotedprintable"
	"net"
	"os"
	"path/filepath"
	"strings"
	"sync"
	"time"

	"raven/internal/blobstorage"
	"raven/internal/db"
	"raven/internal/delivery/storage"
	"raven/verifh/fakes3"
	"raven/verifh/hx"
	"raven/verifh/mimegen"
	"raven/verifh/world"
)

var _ = net.Dial

// ---------- parts ----------

type part struct {
	content []byte
	cte     string
	wrap    int
	name    string
}

func (p part) encoded() string {
	switch p.cte {
	case "base64":
		e := base64.StdEncoding.EncodeToString(p.content)
		var sb strings.Builder
		for i := 0; i < len(e); i += p.wrap {
			j := i + p.wrap
			if j > len(e) {
				j = len(e)
			}
			sb.WriteString(e[i:j] + "\r\n")
		}
		return sb.String()
	case "quoted-printable":
		var sb strings.Builder
		w := quotedprintable.NewWriter(&sb)
		w.Write(p.content)
		w.Close()
		return sb.String()
	}
	return string(p.content)
}

func decode(s, enc string) string {
	switch strings.ToLower(enc) {
	case "base64":
		b, err := base64.StdEncoding.DecodeString(strings.NewReplacer("\r", "", "\n", "").Replace(s))
		if err != nil {
			return "<undecodable>"
		}
		return string(b)
	case "quoted-printable":
		b, _ := io.ReadAll(quotedprintable.NewReader(strings.NewReader(s)))
		return string(b)
	}
	return s
}

func same(a, b string) bool {
	return a == b || a == b+"\r\n" || b == a+"\r\n"
}

type stored struct {
	user  string
	seq   int
	parts []part
	tok   string
}

func main() {
	o, rep := hx.Init("C15")
	hx.Quiet()
	rep.Rule = "store / read-back sequences of up to 8 two-part messages whose parts draw their content from a small pool (so that equal content recurs), in 7bit / 8bit / base64 (two wrappings) / quoted-printable, sizes 900..1100 and several KiB, with and without file names, under the four combinations of S3 on/off for the delivery side and the IMAP side, with fault scripts of ≤ 4 consecutive object-store faults (500, timeout, dropped connection, missing object) placed at a store or at a read; after every step every message is fetched; the blobs table is audited against the Lean model. Distinct by (configuration, sequence, script); non-trivial when a part is out of line"
	rng := hx.NewRng(o.Seed)
	nseq := 10
	if o.Thorough {
		nseq = 150
	}
	for cfgi := 0; cfgi < 4; cfgi++ {
		dS3, iS3 := cfgi&1 == 1, cfgi&2 == 2
		for si := 0; si < nseq; si++ {
			faultAt, faults := "", []string(nil)
			if (dS3 || iS3) && si%3 != 0 {
				faultAt = rng.Pick([]string{"store", "read"})
				k := 1 + rng.Intn(4)
				kind := rng.Pick([]string{"500", "timeout", "drop", "missing"})
				if kind == "timeout" {
					k = 1 + rng.Intn(2)
				}
				for i := 0; i < k; i++ {
					faults = append(faults, kind)
				}
			}
			runSeq(rep, rng.Fork(), o, dS3, iS3, faultAt, faults, fmt.Sprintf("cfg%d-seq%d", cfgi, si))
			if len(rep.Violations) > 2 {
				rep.Finish()
			}
		}
	}
	undecodableTwins(rep)
	concurrentTwins(rep)
	localBlobStoreRefuses(rep, false)
	localBlobStoreRefuses(rep, true)
	rep.Finish()
}

// localBlobStoreRefuses: "a backend failure while storing falls back to another place or fails the whole operation" for the
// *local* backend: the shared blob table refuses every new row (a trigger raises an error, as a full disk, a lock that is
// not released or a constraint would) while messages with out-of-line parts are delivered and appended. Every message that
// is acknowledged must return its parts' own octets; one that cannot be stored must be refused.
func localBlobStoreRefuses(rep *hx.Report, withS3 bool) {
	dir, err := os.MkdirTemp(filepath.Dir(hxWorkDir()), "raven-verif-c15r-")
	if err != nil {
		return
	}
	defer os.RemoveAll(dir)
	old, _ := os.Getwd()
	os.Chdir(dir)
	defer os.Chdir(old)
	w, err := world.New(dir, "example.com")
	if err != nil {
		rep.Violate("broken-correspondence", "world", err.Error(), nil)
		return
	}
	defer w.Close()
	if withS3 {
		// the object store is up and takes every object; only the row that records where the object went is refused
		f := fakes3.New()
		defer f.Srv.Close()
		mkS3 := func() *blobstorage.S3BlobStorage {
			s, err := blobstorage.NewS3BlobStorage(blobstorage.Config{Enabled: true, Endpoint: f.Srv.URL, Region: "us-east-1", Bucket: "b", AccessKey: "k", SecretKey: "s", Timeout: 1})
			if err != nil {
				return nil
			}
			return s
		}
		if s3 := mkS3(); s3 != nil {
			w.Stor = storage.NewStorageWithS3(w.Mgr, s3)
			w.Srv.SetS3Storage(mkS3())
			rep.Hit("local-blob-refusal:with-object-store")
		}
	}
	shared := w.Mgr.GetSharedDB()
	if _, err := shared.Exec("CREATE TRIGGER verif_refuse_blobs BEFORE INSERT ON blobs BEGIN SELECT RAISE(ABORT, 'injected: blob row refused'); END"); err != nil {
		rep.Note("local-blob-refusal probe skipped: %v", err)
		return
	}
	mk := func(user, tok, cte string, n int) string {
		var body strings.Builder
		for i := 0; body.Len() < n; i++ {
			fmt.Fprintf(&body, "%s line %d of the large part\r\n", tok, i)
		}
		content := body.String()
		return "From: a@example.org\r\nTo: " + user + "\r\nSubject: " + tok + "\r\nMIME-Version: 1.0\r\nContent-Type: multipart/mixed; boundary=rf\r\n\r\n--rf\r\nContent-Type: text/plain\r\n\r\nsmall " + tok + "\r\n--rf\r\nContent-Type: text/plain; name=\"" + tok + ".txt\"\r\nContent-Transfer-Encoding: " + cte + "\r\nContent-Disposition: attachment; filename=\"" + tok + ".txt\"\r\n\r\n" + content + "--rf--\r\n"
	}
	user := "refuse@example.com"
	c := w.Login(user)
	defer c.Close()
	type sent struct {
		tok, cte string
		acked    bool
	}
	var all []sent
	for i, cte := range []string{"8bit", "7bit", "binary", "8bit"} {
		tok := fmt.Sprintf("REFUSE-%d", i)
		if withS3 {
			tok = fmt.Sprintf("REFUSES3-%d", i)
		}
		rep.Case("local-blob-refusal|"+tok, true)
		acked := false
		if i%2 == 0 {
			_, data := w.Deliver("a@example.org", []string{user}, mk(user, tok, cte, 3000))
			acked = len(data) == 1 && strings.HasPrefix(data[0], "250")
		} else {
			acked = c.Append("INBOX", "", mk(user, tok, cte, 3000)).OK()
		}
		all = append(all, sent{tok, cte, acked})
		if acked {
			rep.Hit("local-blob-refusal:acknowledged")
		} else {
			rep.Hit("local-blob-refusal:refused")
		}
	}
	shared.Exec("DROP TRIGGER verif_refuse_blobs")
	c.Cmd("SELECT INBOX")
	for _, m := range all {
		seq := ""
		for _, l := range c.Cmd("SEARCH SUBJECT " + m.tok).Untagged {
			if f := strings.Fields(l); len(f) >= 3 {
				seq = f[2]
			}
		}
		if !m.acked {
			if seq != "" {
				rep.Violate("impl-violation", "a failure while storing fails the whole operation (Props.C15.store_fault_partial)", fmt.Sprintf("message %s was refused while the blob table refused rows, and is listed in INBOX", m.tok), []string{"local-blob-refusal"})
			}
			continue
		}
		if seq == "" {
			rep.Violate("impl-violation", "a failure while storing falls back or fails (Props.C15.store_fault_partial)", fmt.Sprintf("message %s was acknowledged while the blob table refused rows, and is not in INBOX", m.tok), []string{"local-blob-refusal"})
			continue
		}
		for _, item := range []string{"BODY.PEEK[2]", "BODY.PEEK[]"} {
			txt := strings.Join(c.Cmd("FETCH "+seq+" ("+item+")").Untagged, "\n")
			if !strings.Contains(txt, m.tok+" line 40 of the large part") {
				rep.Violate("impl-violation", "a failure while storing falls back to another place or fails the whole operation (Props.C15.store_fault_partial)", fmt.Sprintf("message %s (%s part of 3000 octets) was acknowledged while the shared blob table refused every new row; %s does not return the part's text (%d octets answered): neither stored elsewhere nor refused", m.tok, m.cte, item, len(txt)), []string{"local-blob-refusal"})
				return
			}
			rep.Hit("local-blob-refusal:own-content")
		}
	}
}

func runSeq(rep *hx.Report, rng *hx.Rng, o *hx.Opts, dS3, iS3 bool, faultAt string, faults []string, name string) {
	dir, cleanup := hx.WorkDir("c15")
	defer cleanup()
	w, err := world.New(dir, "example.com")
	if err != nil {
		rep.Violate("broken-correspondence", "world", err.Error(), nil)
		return
	}
	defer w.Close()
	f := fakes3.New()
	defer f.Srv.Close()
	mk := func() *blobstorage.S3BlobStorage {
		s, err := blobstorage.NewS3BlobStorage(blobstorage.Config{Enabled: true, Endpoint: f.Srv.URL, Region: "us-east-1", Bucket: "b", AccessKey: "k", SecretKey: "s", Timeout: 1})
		if err != nil {
			rep.Violate("broken-correspondence", "s3", err.Error(), nil)
			return nil
		}
		return s
	}
	if dS3 {
		w.Stor = storage.NewStorageWithS3(w.Mgr, mk())
	}
	if iS3 {
		w.Srv.SetS3Storage(mk())
	}
	pool := [][]byte{}
	for i := 0; i < 4; i++ {
		size := []int{900, 1100, 1500, 5000, 1024, 1025}[rng.Intn(6)]
		pool = append(pool, []byte(strings.Repeat(fmt.Sprintf("pool%d-%d line of text\r\n", i, rng.Intn(1000)), size/22+1)[:size]))
	}
	var all []*stored
	var blobParts []string // for the model: key:text of every out-of-line part, in store order
	keyN, textN := map[string]int{}, map[string]int{}
	desc := fmt.Sprintf("%s delivery-S3=%v imap-S3=%v fault=%s%v", name, dS3, iS3, faultAt, faults)
	nmsg := 3 + rng.Intn(6)
	faultStep := rng.Intn(nmsg)
	crossEnc := false
	seenEnc := map[string]string{} // decoded content -> first encoded text
	for step := 0; step < nmsg; step++ {
		st := &stored{user: fmt.Sprintf("u%d@example.com", rng.Intn(2)), tok: fmt.Sprintf("%s-m%d", name, step)}
		for k := 0; k < 2; k++ {
			p := part{content: pool[rng.Intn(len(pool))], cte: rng.Pick([]string{"8bit", "8bit", "base64", "base64", "7bit"}), wrap: []int{76, 60}[rng.Intn(2)]}
			if rng.Chance(25) {
				p.name = "att.txt"
			}
			st.parts = append(st.parts, p)
		}
		node := &mimegen.Node{Multi: true, Subtype: "mixed"}
		for _, p := range st.parts {
			n := &mimegen.Node{CType: "text/plain", Charset: "utf-8", CTE: p.cte, Content: p.content, Filename: p.name}
			if p.name != "" {
				n.Disposition = "attachment"
			}
			node.Children = append(node.Children, n)
		}
		// mimegen wraps base64 at 76; for the other wrapping build the text by hand
		msg := node.Serialize([]string{"From: a@example.org", "To: " + st.user, "Subject: " + st.tok})
		for _, p := range st.parts {
			if p.cte == "base64" && p.wrap != 76 {
				msg = strings.Replace(msg, part{content: p.content, cte: "base64", wrap: 76}.encoded(), p.encoded(), 1)
			}
		}
		if faultAt == "store" && step == faultStep {
			f.Mu.Lock()
			f.Script = append([]string(nil), faults...)
			f.Mu.Unlock()
		}
		// every third message goes to both users in one transaction: each recipient's copy carries the parts
		rcpts := []string{st.user}
		if step%3 == 1 && faultAt != "store" {
			rcpts = []string{"u0@example.com", "u1@example.com"}
			st.user = rcpts[0]
			rep.Hit("store:two-recipients")
		}
		_, data := w.Deliver("a@example.org", rcpts, msg)
		if faultAt == "store" && step == faultStep && iS3 {
			// the IMAP side stores too (APPEND), through its own handle on the object store, under the same faults: whatever
			// becomes of this message, the parts stored before stay readable afterwards
			f.Mu.Lock()
			f.Script = append([]string(nil), faults...)
			f.Mu.Unlock()
			ca := w.Login(st.user)
			ca.Append("Drafts", "", strings.Replace(msg, "Subject: "+st.tok, "Subject: appended-"+st.tok, 1))
			ca.Close()
			rep.Hit("store:append-under-fault")
		}
		f.Mu.Lock()
		f.Script = nil
		f.Mu.Unlock()
		accepted := len(data) == len(rcpts)
		for _, d := range data {
			accepted = accepted && strings.HasPrefix(d, "250")
		}
		if !accepted {
			// a failed operation is an acceptable outcome of a store fault — but then nothing may be listed
			rep.Hit("store:refused")
			continue
		}
		rep.Hit("store:ok")
		if len(rcpts) == 2 {
			// the second recipient's copy is a stored message of its own
			st2 := &stored{user: rcpts[1], tok: st.tok, parts: st.parts}
			c2 := w.Login(st2.user)
			for _, l := range c2.Cmd("SELECT INBOX").Untagged {
				fl := strings.Fields(l)
				if len(fl) == 3 && fl[2] == "EXISTS" {
					fmt.Sscan(fl[1], &st2.seq)
				}
			}
			c2.Close()
			all = append(all, st2)
			for _, p := range st2.parts {
				if enc := p.encoded(); len(enc) > 1024 || p.name != "" {
					kh := sha256.Sum256(p.content)
					ks := hex.EncodeToString(kh[:])
					if _, ok := keyN[ks]; !ok {
						keyN[ks] = len(keyN) + 1
					}
					txt := strings.TrimSuffix(enc, "\r\n")
					if _, ok := textN[txt]; !ok {
						textN[txt] = len(textN) + 1
					}
					blobParts = append(blobParts, fmt.Sprintf("%d:%d", keyN[ks], textN[txt]))
				}
			}
		}
		c := w.Login(st.user)
		// the message just delivered is the last of its INBOX
		for _, l := range c.Cmd("SELECT INBOX").Untagged {
			fl := strings.Fields(l)
			if len(fl) == 3 && fl[2] == "EXISTS" {
				fmt.Sscan(fl[1], &st.seq)
			}
		}
		// SEARCH reads the message too: it finds it there, or — when content of the mailbox cannot be read — says so
		sr := c.Cmd("SEARCH SUBJECT " + st.tok)
		hit := 0
		for _, l := range sr.Untagged {
			fl := strings.Fields(l)
			if len(fl) == 3 {
				fmt.Sscan(fl[2], &hit)
			}
		}
		switch {
		case sr.OK() && hit == st.seq:
			rep.Hit("search:found")
		case sr.Status() == "NO" && dS3 && !iS3:
			rep.Hit("search:error-reported")
		default:
			rep.Violate("impl-violation", "read-back through SEARCH (Props.C15.read_fault_reported)", fmt.Sprintf("%s: SEARCH SUBJECT %s answered %q / %v; the message is number %d of the mailbox and no read was failed", desc, st.tok, sr.Tagged, sr.Untagged, st.seq), []string{"seq " + name})
		}
		c.Close()
		all = append(all, st)
		for _, p := range st.parts {
			enc := p.encoded()
			if len(enc) > 1024 || p.name != "" {
				kh := sha256.Sum256(p.content)
				ks := hex.EncodeToString(kh[:])
				if _, ok := keyN[ks]; !ok {
					keyN[ks] = len(keyN) + 1
				}
				// the multipart reader hands the part's text to the store without the line break that precedes the delimiter
				txt := strings.TrimSuffix(enc, "\r\n")
				if _, ok := textN[txt]; !ok {
					textN[txt] = len(textN) + 1
				}
				blobParts = append(blobParts, fmt.Sprintf("%d:%d", keyN[ks], textN[txt]))
				if first, ok := seenEnc[ks]; ok && first != p.cte && (first == "base64") != (p.cte == "base64") {
					crossEnc = true
				}
				if _, ok := seenEnc[ks]; !ok {
					seenEnc[ks] = p.cte
				}
				rep.Hit("part:out-of-line")
			} else {
				rep.Hit("part:inline")
			}
		}
		// ---- read everything back ----
		if faultAt == "read" && step == faultStep {
			f.Mu.Lock()
			f.Script = append([]string(nil), faults...)
			f.Mu.Unlock()
		}
		for _, s := range all {
			if s.seq == 0 {
				continue
			}
			c := w.Login(s.user)
			c.Wait = 12 * time.Second
			c.Cmd("EXAMINE INBOX")
			for k, p := range s.parts {
				r := c.Cmd(fmt.Sprintf("FETCH %d BODY.PEEK[%d]", s.seq, k+1))
				got, found := "", false
				for _, l := range r.Untagged {
					if i := strings.Index(l, "}\r\n"); i >= 0 && strings.HasSuffix(l, ")") {
						got, found = l[i+3:len(l)-1], true
					}
				}
				ok := found && same(decode(got, p.cte), string(p.content))
				if ok {
					rep.Hit("read:own-octets")
					continue
				}
				f.Mu.Lock()
				readFaulted := len(f.GetFail) > 0
				f.Mu.Unlock()
				what := fmt.Sprintf("%s: part %d of message %s (%s, %d octets) reads back %d octets (NIL=%v) that are not its own", desc, k+1, s.tok, p.cte, len(p.content), len(got), !found)
				if r.Status() == "NO" && len(r.Untagged) == 0 {
					// the read was reported as an error (Props.C15.read_fault_reported): right when the object store failed the
					// read or the reader has none, wrong when nothing stood in the way
					if readFaulted || (dS3 && !iS3) {
						rep.Hit("read:error-reported")
					} else {
						rep.Violate("impl-violation", "read-back (Props.C15.read_fault_reported: an error only when the content cannot be read)", fmt.Sprintf("%s: FETCH %d BODY.PEEK[%d] of message %s answered %q although no read was failed and the reader has every backend the writer used", desc, s.seq, k+1, s.tok, r.Tagged), []string{"seq " + name})
					}
					continue
				}
				switch {
				case crossEnc && found && len(got) > 0:
					rep.Finding("C15-F1", "cross-encoding de-duplication: "+what, []string{"seq " + name})
				case readFaulted || (dS3 && !iS3):
					// what finding C15-F2 was until the repair: a read that failed, answered OK with nothing or with something else
					rep.Violate("impl-violation", "read-back (Props.C15.read_fault_reported: a failure while reading is an error, never empty or foreign content)", what+fmt.Sprintf("; the command was answered %q", r.Tagged), []string{"seq " + name})
				default:
					rep.Violate("impl-violation", "read-back (Props.C15.no_fault_readback_partial)", what, []string{"seq " + name})
				}
			}
			// the whole message goes through the reconstruction, a different reader of the same blobs: every part's text, as
			// it was submitted, is in it
			rw := c.Cmd(fmt.Sprintf("FETCH %d BODY.PEEK[]", s.seq))
			whole := strings.Join(rw.Untagged, "\n")
			if rw.Status() == "NO" && len(rw.Untagged) == 0 {
				f.Mu.Lock()
				readFaulted := len(f.GetFail) > 0
				f.Mu.Unlock()
				if readFaulted || (dS3 && !iS3) {
					rep.Hit("read-whole:error-reported")
				} else {
					rep.Violate("impl-violation", "read-back of the whole message (Props.C15.read_fault_reported: an error only when the content cannot be read)", fmt.Sprintf("%s: FETCH %d BODY.PEEK[] of message %s answered %q although no read was failed", desc, s.seq, s.tok, rw.Tagged), []string{"seq " + name})
				}
				c.Close()
				continue
			}
			for k, p := range s.parts {
				enc := strings.TrimRight(p.encoded(), "\r\n")
				if len(enc) == 0 || strings.Contains(whole, enc) {
					continue
				}
				// an equivalent re-encoding is C02's business; what matters here is that the content is there at all
				if p.cte == "base64" || strings.Contains(whole, enc[:min(len(enc), 40)]) {
					continue
				}
				f.Mu.Lock()
				readFaulted := len(f.GetFail) > 0
				f.Mu.Unlock()
				what := fmt.Sprintf("%s: BODY[] of message %s does not contain the text of its part %d (%s, %d octets; BODY[] has %d octets)", desc, s.tok, k+1, p.cte, len(p.content), len(whole))
				switch {
				case crossEnc:
				case readFaulted || (dS3 && !iS3):
					rep.Violate("impl-violation", "read-back of the whole message (Props.C15.read_fault_reported: a failure while reading is an error, never empty or foreign content)", what+fmt.Sprintf("; the command was answered %q", rw.Tagged), []string{"seq " + name})
				default:
					rep.Violate("impl-violation", "read-back of the whole message (Props.C15.no_fault_readback_partial)", what, []string{"seq " + name})
				}
			}
			c.Close()
		}
		f.Mu.Lock()
		f.Script = nil
		f.GetFail = map[string]bool{}
		f.Mu.Unlock()
	}
	rep.Case(desc+fmt.Sprint(len(all)), len(blobParts) > 0)
	rep.Hit(fmt.Sprintf("config:d=%v,i=%v", dS3, iS3))
	if faultAt != "" {
		rep.Hit("fault:" + faultAt + ":" + faults[0])
	}
	// ---- blobs table audit against the Lean model (only when no store fault moved parts elsewhere) ----
	if faultAt != "store" && len(blobParts) > 0 {
		m, err := hx.RunModel(o.Driver, []string{"b.run " + strings.Join(blobParts, " ")})
		if err != nil {
			rep.Violate("broken-correspondence", "driver", err.Error(), nil)
			return
		}
		want := map[string]string{}
		for _, e := range strings.Fields(m[0]) {
			kv := strings.SplitN(e, "=", 2)
			want[kv[0]] = strings.SplitN(kv[1], ":", 2)[0]
		}
		rows, err := w.Mgr.GetSharedDB().Query("SELECT sha256_hash, reference_count FROM blobs")
		if err == nil {
			got := map[string]string{}
			for rows.Next() {
				var h string
				var n int
				rows.Scan(&h, &n)
				if k, ok := keyN[h]; ok {
					got[fmt.Sprint(k)] = fmt.Sprint(n)
				} else {
					got["unknown:"+h[:8]] = fmt.Sprint(n)
				}
			}
			rows.Close()
			if fmt.Sprint(got) != fmt.Sprint(want) {
				rep.Violate("impl-violation", "blobs table (Props.C15.refcount_exact)", fmt.Sprintf("%s: reference counts %v, number of stored parts per content %v", desc, got, want), []string{"seq " + name})
			}
			rep.Hit("blobs-audited")
		}
	}
	if len(rep.Samples) < 3 {
		rep.Sample(desc)
	}
}

// undecodableTwins: out-of-line parts that are labelled base64 but do not decode (truncated or corrupt attachments) are still
// somebody's content: two different ones, for two users, each read back as itself — whatever key the de-duplication uses
func undecodableTwins(rep *hx.Report) {
	dir, err := os.MkdirTemp(filepath.Dir(hxWorkDir()), "raven-verif-c15t-")
	if err != nil {
		return
	}
	defer os.RemoveAll(dir)
	old, _ := os.Getwd()
	os.Chdir(dir)
	defer os.Chdir(old)
	w, err := world.New(dir, "example.com")
	if err != nil {
		rep.Violate("broken-correspondence", "world", err.Error(), nil)
		return
	}
	defer w.Close()
	mk := func(user, tok, junk string) string {
		var body strings.Builder
		body.WriteString(tok + " " + junk + "\r\n")
		for i := 0; body.Len() < 1500; i++ {
			fmt.Fprintf(&body, "%s filler line %d ~!@ not base64 at all\r\n", tok, i)
		}
		return "From: a@example.org\r\nTo: " + user + "\r\nSubject: " + tok + "\r\nMIME-Version: 1.0\r\nContent-Type: multipart/mixed; boundary=tw\r\n\r\n--tw\r\nContent-Type: text/plain\r\n\r\nsee attachment\r\n--tw\r\nContent-Type: application/pdf; name=\"" + tok + ".pdf\"\r\nContent-Transfer-Encoding: base64\r\nContent-Disposition: attachment; filename=\"" + tok + ".pdf\"\r\n\r\n" + body.String() + "--tw--\r\n"
	}
	type tw struct{ user, tok string }
	tws := []tw{{"ta@example.com", "TWIN-one"}, {"tb@example.com", "TWIN-two"}, {"ta@example.com", "TWIN-three"}}
	for i, t := range tws {
		rep.Case("undecodable-twin|"+t.tok, true)
		_, data := w.Deliver("a@example.org", []string{t.user}, mk(t.user, t.tok, []string{"!!!", "=A=", "~~~~"}[i]))
		if len(data) != 1 || !strings.HasPrefix(data[0], "250") {
			rep.Hit("twin:refused")
			continue
		}
	}
	for _, t := range tws {
		c := w.Login(t.user)
		c.Cmd("SELECT INBOX")
		for _, item := range []string{"BODY.PEEK[2]", "BODY.PEEK[]"} {
			seq := ""
			for _, l := range c.Cmd("SEARCH SUBJECT " + t.tok).Untagged {
				if f := strings.Fields(l); len(f) == 3 {
					seq = f[2]
				}
			}
			if seq == "" {
				continue
			}
			r := c.Cmd("FETCH " + seq + " (" + item + ")")
			txt := strings.Join(r.Untagged, "\n")
			for _, other := range tws {
				if other.tok != t.tok && strings.Contains(txt, other.tok+" filler") {
					rep.Violate("impl-violation", "de-duplication is invisible (Props.C15)", fmt.Sprintf("%s of message %s (user %s) returns the attachment of message %s: two different parts that do not decode as the base64 they are labelled were stored as one blob", item, t.tok, t.user, other.tok), []string{"twins"})
					c.Close()
					return
				}
			}
			if !strings.Contains(txt, t.tok+" filler") {
				rep.Violate("impl-violation", "out-of-line storage is invisible (Props.C15)", fmt.Sprintf("%s of message %s does not return its own attachment text", item, t.tok), []string{"twins"})
				c.Close()
				return
			}
			rep.Hit("twin:own-content")
		}
		c.Close()
	}
}

func hxWorkDir() string {
	d, _ := os.Getwd()
	return d
}

// concurrentTwins: the same new out-of-line content arrives in several deliveries at once (a newsletter to many recipients,
// through two database managers as the delivery and IMAP services have them), next to private attachments of the same size. A
// schedule rather than luck: another connection holds the write lock of the shared database for a moment, so that every
// delivery gets past its look-up by hash — reads are not blocked — and queues up at its first write. Every acknowledged
// message reads back its own octets, and the reference count of the shared content is the number of messages that carry it.
func concurrentTwins(rep *hx.Report) {
	dir, cleanup := hx.WorkDir("c15c")
	defer cleanup()
	w, err := world.New(dir, "example.com")
	if err != nil {
		rep.Violate("broken-correspondence", "world", err.Error(), nil)
		return
	}
	defer w.Close()
	mgr2, err := db.NewDBManager(dir + "/data")
	if err != nil {
		rep.Violate("broken-correspondence", "world", err.Error(), nil)
		return
	}
	defer mgr2.Close()
	stor2 := storage.NewStorage(mgr2)
	for round := 0; round < 4; round++ {
		k := []int{2, 4, 6, 3}[round]
		news := fmt.Sprintf("NEWS-%d ", round) + strings.Repeat(fmt.Sprintf("newsletter line %d\r\n", round), 70)
		var users []string
		for i := 0; i < k; i++ {
			u := fmt.Sprintf("ct%dx%d@example.com", round, i)
			w.Login(u).Close()
			users = append(users, u)
		}
		var hold *sql.Tx
		hdb, err := sql.Open("sqlite3", "file:"+dir+"/data/shared.db?_txlock=immediate&_busy_timeout=5000")
		if err == nil {
			if tx, err := hdb.Begin(); err == nil {
				hold = tx
			}
		}
		acked := make([]bool, k)
		var wg sync.WaitGroup
		for i := 0; i < k; i++ {
			wg.Add(1)
			go func(i int) {
				defer wg.Done()
				big := news
				if i%3 == 2 {
					big = fmt.Sprintf("BIGPRIV-%d-%d ", round, i) + strings.Repeat(fmt.Sprintf("private line %d %d\r\n", round, i), 70)
				}
				m := fmt.Sprintf("From: sender@example.org\r\nTo: rcpt@example.com\r\nSubject: ct %d %d\r\nMIME-Version: 1.0\r\nContent-Type: multipart/mixed; boundary=nb\r\n\r\n--nb\r\nContent-Type: text/plain\r\n\r\nPRIV-%d-%d small\r\n--nb\r\nContent-Type: text/plain; name=\"big.txt\"\r\nContent-Disposition: attachment; filename=\"big.txt\"\r\n\r\n%s--nb--\r\n", round, i, round, i, big)
				st := w.Stor
				if i%2 == 1 {
					st = stor2
				}
				_, data := w.DeliverWith(st, "sender@example.org", []string{users[i]}, m)
				acked[i] = len(data) == 1 && strings.HasPrefix(data[0], "2")
			}(i)
		}
		if hold != nil {
			time.Sleep(400 * time.Millisecond)
			hold.Commit()
		}
		wg.Wait()
		if hdb != nil {
			hdb.Close()
		}
		for i, u := range users {
			rep.Case(fmt.Sprintf("concurrent-twins|%d|%d", round, i), true)
			if !acked[i] {
				rep.Hit("concurrent-twins:refused")
				continue
			}
			c := w.Login(u)
			c.Cmd("EXAMINE INBOX")
			txt := strings.Join(c.Cmd("FETCH 1:* (BODY.PEEK[])").Untagged, "\n")
			c.Close()
			want := fmt.Sprintf("NEWS-%d ", round)
			if i%3 == 2 {
				want = fmt.Sprintf("BIGPRIV-%d-%d ", round, i)
			}
			if !strings.Contains(txt, fmt.Sprintf("PRIV-%d-%d small", round, i)) || !strings.Contains(txt, want) || strings.Count(txt, "line") < 70 {
				rep.Violate("impl-violation", "each part returns its own octets (Props.C15.no_fault_readback_partial: the same new content stored by several writers at once)", fmt.Sprintf("round %d: the message for %s was acknowledged and does not read back with its own attachment (%q…): BODY[] has %d octets: %q", round, u, want, len(txt), clipTo(txt, 300)), []string{"concurrent-twins"})
				return
			}
			rep.Hit("concurrent-twins:own-octets")
		}
	}
}

func clipTo(s string, n int) string {
	if len(s) > n {
		return s[len(s)-n:]
	}
	return s
}
