package main

import (
	"fmt"
	"strings"

	"raven/verifh/hx"
)

// case-mapping changes the byte length of these: İ (ToLower grows), ɐ (ToUpper grows), ſ ı K (shrink)
var oddCase = []string{"İ", "ɐ", "ſ", "ı", "\u212a", "ǰ", "ß"}

var addrValues = []string{
	"alice@example.org", "Bob <bob@example.com>", ">a<", "a <", "<>", "<", ">", "> <", "<<a>>", "a@b, , <c@d>", ",", ",,,",
	"x> y <z@w>", "\"Quoted, Name\" <q@x>", "grp: a@b, c@d;", "@", "a@", "@b", "a@b@c", "<a@b> trailing", "  ", "\t<\t>\t",
	"İ <i@x>", "ɐɐɐɐ>ɐ<", "=?utf-8?q?x?= <e@x>", "a\x80\xff <h@x>", "(comment) c@d", "<a@b>,<c@d>,<e@f>", "no-at-sign", "<unclosed@x",
}

var ctValues = []string{
	"text/plain", "text/plain; charset=", "text/", "/", ";;;", "", "multipart/mixed", "multipart/mixed; boundary=", "multipart/mixed; boundary=\"",
	"multipart/mixed; boundary=\"abc", "multipart/mixed; boundary=b", "multipart/mixed; boundary=\"b\"", "multipart/mixed; BOUNDARY=b; x=y",
	"multipart/mixed; boundary=İİİİİİİİİİ", "multipart/mixed; xİİİİİİİİİİİİİİİİİİİİ boundary=", "multipart/alternative;\r\n boundary=b", "multipart/mixed; boundary=b boundary=c",
	"message/rfc822", "multipart/", "multipart/mixed; boundary=--", "text/plain; name=\"a\\\"b\"; charset=\"x", "application/octet-stream; name=", "MULTIPART/MIXED; boundary=b",
	"multipart/mixed; boundary=\"b\"; ɐɐɐɐ", "multipart/mixed;boundary=b;", "text/html; charset=utf-8; format=flowed; delsp=yes; a=b; c=d",
}

var cteValues = []string{"", "7bit", "base64", "quoted-printable", "BASE64", "x-unknown", "8bit", "binary", " base64 "}

var bodies = []string{
	"hello\r\n", "", "\r\n", "line one\r\nline two\r\n", "--b\r\n\r\npart one\r\n--b\r\nContent-Type: text/html\r\n\r\n<p>two</p>\r\n--b--\r\n",
	"--b\r\n\r\nno closing delimiter\r\n", "--b--\r\n", "--b\r\n--b\r\n--b--\r\n", "--b\r\nContent-Type: multipart/mixed; boundary=c\r\n\r\n--c\r\n\r\ninner\r\n--c--\r\n--b--\r\n",
	"--b\r\nContent-Type: multipart/mixed\r\n\r\ninner without boundary\r\n--b--\r\n", "--b\r\nheader without end", "--b\nLF only\n--b--\n",
	"aGVsbG8=\r\n", "!!!not base64!!!\r\n", "trailing equals =\r\n=", "=ZZ=\r\n", "--b\r\nContent-Transfer-Encoding: base64\r\n\r\n@@@@\r\n--b--\r\n",
	"* 1 FETCH (FLAGS ())\r\nt1 OK done\r\n", "{5}\r\nabcde", "\x00\x01\x02\xff\xfe", "--\r\n----\r\n",
}

var fetchItems = []string{
	"FLAGS", "UID", "INTERNALDATE", "RFC822.SIZE", "ENVELOPE", "BODY", "BODYSTRUCTURE", "RFC822", "RFC822.HEADER", "RFC822.TEXT", "BODY[]", "BODY.PEEK[]",
	"BODY[HEADER]", "BODY[TEXT]", "BODY[1]", "BODY[2]", "BODY[1.1]", "BODY[1.2.3]", "BODY[0]", "BODY[-1]", "BODY[1.MIME]", "BODY[1.HEADER]", "BODY[2.MIME]", "BODY[1.TEXT]",
	"BODY[HEADER.FIELDS (SUBJECT)]", "BODY[HEADER.FIELDS ()]", "BODY[HEADER.FIELDS (", "BODY[HEADER.FIELDS.NOT (FROM)]", "BODY[", "BODY[]<", "BODY.PEEK[1", "BODY[1]<", "BODY[1]<>",
	"BODY[1]<.>", "BODY[1]<a.b>", "BODY[1]<0.0>", "BODY[1]<-5.10>", "BODY[1]<5.-3>", "BODY[1]<-1.-1>", "BODY[1]<1.9223372036854775807>", "BODY[1]<9223372036854775807.5>",
	"BODY[1]<99999999999999999999.1>", "BODY[1]<2.3>", "BODY[1]<100000.5>", "BODY[TEXT]<-5.10>", "BODY[TEXT]<5.-3>", "BODY[TEXT]<1.9223372036854775807>", "BODY[TEXT]<3.4>",
	"BODY[]<-1.5>", "BODY[HEADER]<-2.2>", "BODY[99999999999999999999]", "BODY[1.]", "BODY[.1]", "BODY[1..2]", "ALL", "FAST", "FULL", "()", "(", ")", "(FLAGS", "FLAGS)",
	"(ɐɐɐɐ BODY[1])", "(İİİİ BODY[1])", "body[ſſſſ1]", "(BODY[1] BODY[ıııı])", "BODY[1]<\u212a.1>", "X-UNKNOWN", "(FLAGS FLAGS FLAGS)", "BODY[1]BODY[2]", "BODY[TEXT]BODY[HEADER]",
	"(BODY[1]<0.5> BODY[2]<1.1> BODY[TEXT]<2.2>)",
}

var searchKeys = []string{
	"ALL", "OR FROM x", "OR", "NOT", "HEADER", "HEADER a", "HEADER a b", "LARGER -1", "LARGER 99999999999999999999", "LARGER", "SMALLER x", "UID *:*", "UID", "UID 1:*:2",
	"1:*:2", ",", ":", "*", "*:*", "0", "99999999999999999999", "1:99999999999999999999", "BEFORE 32-Foo-99999", "BEFORE", "ON 1-Jan-2006", "SENTSINCE x", "SUBJECT \"unterminated",
	"SUBJECT \"\"", "CHARSET", "CHARSET UTF-8", "CHARSET X SEEN", "KEYWORD", "KEYWORD \\", "UNKEYWORD \"", "(", ")", "((((", "(SEEN", "NOT NOT NOT", "OR OR OR", "OR (", "TEXT \x80\xff",
	"FROM İİİİ", "BODY ɐ", "TO", "OR SEEN", "OR FROM", "NOT FROM", "NOT HEADER", "NOT HEADER x", "OR HEADER a b SEEN", "OR SEEN HEADER a", "HEADER \"\" \"\"",
}

var otherCmds = []string{
	"STORE $N", "STORE $N +FLAGS", "STORE $N +FLAGS (", "STORE $N FLAGS.SILENT (\\Seen", "STORE $N +FLAGS ()", "STORE $N XFLAGS (\\Seen)", "STORE * +FLAGS (\\Seen)", "STORE 0 +FLAGS (\\Seen)",
	"STORE 1:99999999999999999999 +FLAGS (\\Seen)", "STORE $N +FLAGS \\Seen", "STORE $N -FLAGS (\\Seen \\Seen)", "STORE", "STORE , FLAGS ()", "STORE $N +FLAGS (\\Seen))", "STORE $N +FLAGS ((\\Seen)",
	"COPY", "COPY $N", "COPY $N \"", "COPY $N \"\"", "COPY $N INBOX", "COPY 1:* nosuch", "COPY : INBOX", "COPY $N INBOX extra tokens",
	"UID", "UID FETCH", "UID FETCH 1", "UID FETCH 1:* ", "UID STORE", "UID STORE 1", "UID STORE 1 +FLAGS", "UID COPY", "UID COPY 1", "UID SEARCH", "UID EXPUNGE", "UID EXPUNGE x", "UID X", "UID FETCH * (UID)",
	"UID FETCH 99999999999999999999 FLAGS", "UID FETCH -1 FLAGS", "UID MOVE 1 x",
	"LIST", "LIST \"\"", "LIST \"\" \"", "LIST \"\" \"\"", "LIST ( ) \"\" *", "LIST \"\" {3}", "LSUB", "LSUB \"\"", "LSUB x", "STATUS", "STATUS INBOX", "STATUS INBOX (", "STATUS INBOX ()", "STATUS INBOX (FOO)",
	"STATUS INBOX MESSAGES", "STATUS \"\" (MESSAGES)", "STATUS INBOX (MESSAGES", "RENAME", "RENAME a", "RENAME INBOX", "RENAME \"\" \"\"", "RENAME INBOX INBOX", "CREATE", "CREATE \"\"", "CREATE /", "CREATE a//b",
	"CREATE a/", "CREATE /a", "CREATE \"", "DELETE", "DELETE \"\"", "DELETE INBOX", "SUBSCRIBE", "UNSUBSCRIBE", "SUBSCRIBE \"", "SELECT", "SELECT \"\"", "SELECT \"", "EXAMINE", "SELECT INBOX extra",
	"APPEND", "APPEND INBOX", "APPEND INBOX {", "APPEND INBOX {}", "APPEND INBOX {-1}", "APPEND INBOX {0}", "APPEND INBOX {99999999999999999999}", "APPEND INBOX {999999999999}", "APPEND INBOX }{",
	"APPEND INBOX (\\Seen {3}", "APPEND INBOX {x}", "APPEND INBOX (\\Seen) \"bad date\" {3}", "APPEND \"\" {3}", "APPEND nosuch {3}",
	"FETCH 50000000:1 FLAGS", "UID FETCH 50000000:1 FLAGS", "STORE 50000000:1 +FLAGS (\\Seen)", "COPY 50000000:1 INBOX", "FETCH 1:50000000 FLAGS", "SEARCH 50000000:1", "FETCH 1,50000000:2 FLAGS",
	"FETCH", "FETCH $N", "FETCH x FLAGS", "FETCH 0 FLAGS", "FETCH : FLAGS", "FETCH 1:99999999999999999999 FLAGS", "FETCH -1 FLAGS", "FETCH 1,,2 FLAGS", "FETCH * FLAGS", "FETCH *:* FLAGS", "FETCH 2:1 FLAGS",
	"SEARCH", "EXPUNGE extra", "CLOSE extra", "CHECK", "NOOP x", "IDLE x", "CAPABILITY x", "NAMESPACE", "ID NIL", "ID (", "ENABLE", "UNSELECT", "STARTTLS", "LOGOUT x",
	"AUTHENTICATE", "AUTHENTICATE PLAIN", "AUTHENTICATE PLAIN =", "AUTHENTICATE PLAIN AA==", "AUTHENTICATE FOO", "LOGIN", "LOGIN a", "LOGIN \"a", "LOGIN {5}", "LOGIN a b c",
	"RAW \r\n", "RAW x\r\n", "RAW  \r\n", "RAW x  \r\n", "RAW \x00\x00\x00\r\n", "RAW t1 \x80\xff\r\n", "RAW t1\tFETCH\t1\tFLAGS\r\n", "RAW t1 FETCH 1 FLAGS\n", "RAW t1 FETCH 1 FLAGS\r", "RAW * OK\r\n", "RAW + \r\n",
}

var rawImap = []string{
	"", "\r\n", "\n\n\n", "\x00", "\xff\xfe\xfd\r\n", "a\r\n", "a b\r\n", "a  \r\n", " \r\n", "a LOGIN\r\n", "a LOGIN x\r\n", "a LOGIN \"x\r\n", "a LOGIN {3}\r\n", "a LOGIN {3}\r\nabc\r\n", "a AUTHENTICATE PLAIN\r\n*\r\n",
	"a AUTHENTICATE PLAIN\r\n!!!\r\n", "a AUTHENTICATE PLAIN\r\n\r\n", "a AUTHENTICATE PLAIN AHgAeQ==\r\n", "a AUTHENTICATE\r\n", "a STARTTLS\r\n", "a CAPABILITY\r\na NOOP\r\n", "a SELECT INBOX\r\n", "a FETCH 1 BODY[]\r\n",
	"a UID FETCH\r\n", "a IDLE\r\nDONE\r\n", "a IDLE\r\nx\r\n", "a LOGOUT\r\n", "a ID (\"name\" \"x\")\r\n", "GET / HTTP/1.0\r\n\r\n", "\x16\x03\x01\x02\x00\x01\x00\x01\xfc\x03\x03", "a LOGIN a@example.com pw\r\na SELECT INBOX\r\na FETCH 1:* (BODY[1]<-5.10>)\r\n",
}

var lmtpScripts = []string{
	"", "\r\n", "LHLO\r\n", "LHLO x\r\nMAIL\r\n", "LHLO x\r\nMAIL FROM\r\n", "LHLO x\r\nMAIL FROM:\r\n", "LHLO x\r\nMAIL FROM:<\r\n", "LHLO x\r\nMAIL FROM:>\r\n", "LHLO x\r\nMAIL FROM:<> SIZE=\r\n", "LHLO x\r\nMAIL FROM:<a@b> SIZE=-1\r\n",
	"LHLO x\r\nMAIL FROM:<a@b> SIZE=99999999999999999999\r\n", "LHLO x\r\nMAIL FROM:<a@b>\r\nRCPT\r\n", "LHLO x\r\nMAIL FROM:<a@b>\r\nRCPT TO\r\n", "LHLO x\r\nMAIL FROM:<a@b>\r\nRCPT TO:\r\n", "LHLO x\r\nMAIL FROM:<a@b>\r\nRCPT TO:<\r\n",
	"LHLO x\r\nMAIL FROM:<a@b>\r\nRCPT TO:<>\r\n", "LHLO x\r\nMAIL FROM:<a@b>\r\nRCPT TO:<@>\r\n", "LHLO x\r\nMAIL FROM:<a@b>\r\nRCPT TO:<a@>\r\n", "LHLO x\r\nMAIL FROM:<a@b>\r\nRCPT TO:<@example.com>\r\n", "LHLO x\r\nMAIL FROM:<a@b>\r\nRCPT TO:<u@example.com>\r\nDATA\r\n.\r\n",
	"LHLO x\r\nMAIL FROM:<a@b>\r\nRCPT TO:<u@example.com>\r\nDATA\r\n\r\n.\r\n", "LHLO x\r\nMAIL FROM:<a@b>\r\nRCPT TO:<u@example.com>\r\nDATA\r\n:\r\n.\r\n", "LHLO x\r\nMAIL FROM:<a@b>\r\nRCPT TO:<u@example.com>\r\nDATA\r\nContent-Type: multipart/mixed\r\n\r\nx\r\n.\r\n",
	"LHLO x\r\nMAIL FROM:<a@b>\r\nRCPT TO:<u@example.com>\r\nDATA\r\nContent-Type: multipart/mixed; boundary=\r\n\r\n--\r\n.\r\n", "LHLO x\r\nMAIL FROM:<a@b>\r\nRCPT TO:<u@example.com>\r\nDATA\r\nFrom: >a<\r\nTo: <\r\n\r\nx\r\n.\r\n",
	"LHLO x\r\nMAIL FROM:<a@b>\r\nRCPT TO:<u@example.com>\r\nDATA\r\n..\r\n.\r\n", "LHLO x\r\nMAIL FROM:<a@b>\r\nRCPT TO:<u@example.com>\r\nDATA\r\nunterminated", "LHLO x\r\nDATA\r\n", "DATA\r\n", "RSET\r\nNOOP\r\nVRFY x\r\nHELP\r\nEHLO x\r\nHELO x\r\n",
	"\x00\x00\r\n", "LHLO \xff\xfe\r\n", "lhlo x\r\nmail from:<a@b>\r\nrcpt to:<u@example.com>\r\ndata\r\nx\r\n.\r\nquit\r\n", "LHLO x\r\nMAIL FROM:<a@b>\r\nRCPT TO:<u@example.com>\r\nDATA\r\nContent-Type: text/plain; charset=\"\r\nContent-Transfer-Encoding: base64\r\n\r\n####\r\n.\r\n",
	"LHLO x\r\nMAIL FROM:<a@b>\r\nRCPT TO:<İ@example.com>\r\nRCPT TO:<ɐ@EXAMPLE.COM>\r\nDATA\r\nx\r\n.\r\n", "LHLO x\r\nMAIL FROM:<a@b>\r\nRCPT TO:<u+tag@example.com>\r\nRCPT TO:<\"quoted\"@example.com>\r\nDATA\r\nx\r\n.\r\n",
	"LHLO x\r\nMAIL FROM:<a@b>\r\nRCPT TO:<u@example.com>\r\nDATA\r\nReceived: x\r\n\tfolded\r\n folded\r\nSubject:\r\n\r\n\r\n.\r\n", "LHLO x\r\nMAIL FROM:<a@b>\r\nRCPT TO:<u@example.com>\r\nDATA\r\n--b\r\nContent-Type: multipart/mixed; boundary=b\r\n\r\n--b--\r\n.\r\n",
}

func init() {
	// truncated multiparts: a boundary parameter, delimiters, and no closing delimiter
	for _, body := range []string{"--b\r\nContent-Type: text/plain\r\n\r\nfirst part and then the message just ends\r\n", "--b\r\n\r\nx\r\n--b\r\nContent-Type: multipart/mixed; boundary=c\r\n\r\n--c\r\n\r\ninner never closed\r\n", "preamble only, the boundary never occurs\r\n"} {
		lmtpScripts = append(lmtpScripts, "LHLO x\r\nMAIL FROM:<a@b>\r\nRCPT TO:<u@example.com>\r\nDATA\r\nFrom: a@b\r\nTo: u@example.com\r\nSubject: truncated\r\nMIME-Version: 1.0\r\nContent-Type: multipart/mixed; boundary=b\r\n\r\n"+body+".\r\n")
		bodies = append(bodies, body)
	}
}

var saslLines = []string{
	"", "\n", "\t\n", "VERSION\n", "VERSION\t1\n", "VERSION\tx\ty\n", "CPID\n", "CPID\tx\n", "AUTH\n", "AUTH\t1\n", "AUTH\t1\tPLAIN\n", "AUTH\t1\tPLAIN\tresp=\n", "AUTH\t1\tPLAIN\tresp==\n", "AUTH\t1\tPLAIN\tresp=!!!\n",
	"AUTH\t1\tPLAIN\tresp=AA==\n", "AUTH\t1\tPLAIN\tresp=AAA=\n", "AUTH\t1\tPLAIN\tresp=AAAA\n", "AUTH\t1\tPLAIN\tresp=AHgA\n", "AUTH\tx\tPLAIN\tresp=AHgAeQ==\n", "AUTH\t1\tLOGIN\n", "AUTH\t1\tLOGIN\nCONT\t1\t\nCONT\t1\t\n",
	"AUTH\t1\tLOGIN\nCONT\t1\t!!!\n", "AUTH\t1\tLOGIN\nCONT\n", "AUTH\t1\tLOGIN\nCONT\t2\tAA==\n", "CONT\t1\tAA==\n", "CONT\n", "AUTH\t1\tFOO\n", "AUTH\t1\tPLAIN\tservice\n", "AUTH\t1\tPLAIN\t=\n", "AUTH\t1\tPLAIN\tresp\n",
	"AUTH\t99999999999999999999\tPLAIN\tresp=AHgAeQ==\n", "AUTH\t-1\tPLAIN\tresp=AHgAeQ==\n", "\x00\x00\n", "\xff\xfe\n", "AUTH\t1\tPLAIN\tresp=AHgAeQ==\tresp=AHgAeQ==\n", "AUTH\t1\tPLAIN\tnologin\tresp=AHgAeQ==\n",
	"AUTH\t1\tplain\tresp=AHgAeQ==\n", "auth\t1\tPLAIN\tresp=AHgAeQ==\n", "AUTH 1 PLAIN resp=AHgAeQ==\n", "CANCEL\t1\n", "CANCEL\n", "AUTH\t1\tLOGIN\nCANCEL\t1\nCONT\t1\tAA==\n",
}

func mutate(rng *hx.Rng, s string) string {
	if s == "" {
		return s
	}
	b := []byte(s)
	switch rng.Intn(7) {
	case 0: // drop a byte
		i := rng.Intn(len(b))
		b = append(b[:i:i], b[i+1:]...)
	case 1: // duplicate a slice
		i := rng.Intn(len(b))
		j := i + rng.Intn(len(b)-i)
		b = append(b[:j:j], append([]byte(s[i:j]), b[j:]...)...)
	case 2: // insert an odd character
		i := rng.Intn(len(b) + 1)
		ins := rng.Pick(append(oddCase, "\"", "\\", "(", ")", "{", "}", "<", ">", "[", "]", "\x00", "\r", "\n", "\x80", "*", ":", ",", "-", "%", "99999999999999999999", " ", "\t"))
		b = append(b[:i:i], append([]byte(ins), b[i:]...)...)
	case 3: // truncate
		b = b[:rng.Intn(len(b)+1)]
	case 4: // swap case
		i := rng.Intn(len(b))
		if b[i] >= 'a' && b[i] <= 'z' {
			b[i] -= 32
		} else if b[i] >= 'A' && b[i] <= 'Z' {
			b[i] += 32
		}
	case 5: // replace a digit run by an extreme number
		for i := range b {
			if b[i] >= '0' && b[i] <= '9' {
				return string(b[:i]) + rng.Pick([]string{"-1", "0", "4294967296", "9223372036854775807", "9223372036854775808", "-9223372036854775808", "18446744073709551616"}) + string(b[i+1:])
			}
		}
	case 6: // repeat
		n := 2 + rng.Intn(40)
		i := rng.Intn(len(b))
		b = append(b[:i:i], append([]byte(strings.Repeat(string(b[i]), n)), b[i:]...)...)
	}
	return string(b)
}

func message(rng *hx.Rng) (string, string) {
	class := "plain"
	from := "alice@example.org"
	if rng.Chance(60) {
		from = rng.Pick(addrValues)
		class = "odd-address"
	}
	if rng.Chance(15) {
		from = mutate(rng, from)
	}
	var h []string
	h = append(h, "From: "+from)
	if rng.Chance(70) {
		h = append(h, "To: "+rng.Pick(addrValues))
	}
	if rng.Chance(30) {
		h = append(h, "Cc: "+rng.Pick(addrValues)+",\r\n "+rng.Pick(addrValues))
	}
	if rng.Chance(20) {
		h = append(h, rng.Pick([]string{"Reply-To", "Sender", "Bcc"})+": "+rng.Pick(addrValues))
	}
	h = append(h, "Subject: "+rng.Pick([]string{"hello", "", "=?utf-8?B?4pyT?=", "with \"quotes\" and \\ and {5}", strings.Repeat("long ", 300), "8bit \xe9\xe8"}))
	if rng.Chance(70) {
		h = append(h, "Date: "+rng.Pick([]string{"Mon, 02 Jan 2006 15:04:05 +0000", "garbage", "", "Mon, 99 Jan 99999 99:99:99 +9999"}))
	}
	body := rng.Pick(bodies)
	if rng.Chance(55) {
		ct := rng.Pick(ctValues)
		if rng.Chance(20) {
			ct = mutate(rng, ct)
		}
		h = append(h, "MIME-Version: 1.0", "Content-Type: "+ct)
		class = "odd-mime"
		if cte := rng.Pick(cteValues); cte != "" {
			h = append(h, "Content-Transfer-Encoding: "+cte)
		}
	} else if strings.HasPrefix(body, "--") {
		body = "plain body\r\n"
	}
	if rng.Chance(10) {
		h = append(h, rng.Pick([]string{"no colon line", ": empty name", "X-Empty:", " leading space", "X\x00Y: z", "Content-Disposition: attachment; filename=", "Content-ID: <", "Message-ID: <>"}))
		class = "odd-header"
	}
	if rng.Chance(8) {
		// nested multiparts
		d := 2 + rng.Intn(25)
		var sb strings.Builder
		for i := 0; i < d; i++ {
			fmt.Fprintf(&sb, "--n%d\r\nContent-Type: multipart/mixed; boundary=n%d\r\n\r\n", i, i+1)
		}
		fmt.Fprintf(&sb, "--n%d\r\n\r\nleaf\r\n--n%d--\r\n", d, d)
		for i := d - 1; i >= 0; i-- {
			fmt.Fprintf(&sb, "--n%d--\r\n", i)
		}
		h = append(h, "MIME-Version: 1.0", "Content-Type: multipart/mixed; boundary=n0")
		body = sb.String()
		class = "deep-nesting"
	}
	msg := strings.Join(h, "\r\n") + "\r\n\r\n" + body
	switch rng.Intn(25) {
	case 0:
		msg = strings.ReplaceAll(msg, "\r\n", "\n")
		class = "lf-only"
	case 1:
		msg = strings.Join(h, "\r\n") // no blank line at all
		class = "headers-only"
	case 2:
		msg = "\r\n\r\n\r\n"
		class = "blank"
	case 3:
		msg = "X: " + strings.Repeat("a", 70000) + "\r\n\r\nbody\r\n"
		class = "long-line"
	}
	return msg, class
}

func generate(rng *hx.Rng, thorough bool) []kase {
	var out []kase
	nmsg, nraw := 60, 1
	if thorough {
		nmsg, nraw = 1500, 12
	}
	// the modelled cores on plain messages: every partial range, every address value
	for i, it := range fetchItems {
		if strings.HasPrefix(it, "BODY[1]<") {
			out = append(out, kase{kind: "imap", msg: "From: a@example.org\r\nSubject: s\r\n\r\nhello world, partial ranges\r\n", cmds: []string{"FETCH $N " + it}, class: "partial-range"})
		}
		_ = i
	}
	for _, body := range []string{"--b\r\nContent-Type: text/plain\r\n\r\nfirst part and then the message just ends\r\n", "--b\r\n\r\nx\r\n--b\r\nContent-Type: multipart/mixed; boundary=c\r\n\r\n--c\r\n\r\ninner never closed\r\n"} {
		out = append(out, kase{kind: "imap", msg: "From: a@example.org\r\nTo: u@example.com\r\nSubject: truncated\r\nMIME-Version: 1.0\r\nContent-Type: multipart/mixed; boundary=b\r\n\r\n" + body, cmds: []string{"FETCH $N BODY[]", "FETCH $N BODYSTRUCTURE"}, class: "truncated-multipart"})
	}
	// containers without any part — at the top, nested, nested twice — and containers whose boundary never occurs in their body:
	// every structure-building fetch item on each (these take the fall-back paths of the BODYSTRUCTURE builder)
	for _, body := range []string{
		"--b--\r\n",
		"--b\r\nContent-Type: multipart/alternative; boundary=c\r\n\r\n--c--\r\n--b--\r\n",
		"--b\r\nContent-Type: text/plain\r\n\r\ntext\r\n--b\r\nContent-Type: multipart/alternative; boundary=c\r\n\r\n--c--\r\n\r\n--b--\r\n",
		"--b\r\nContent-Type: multipart/mixed; boundary=c\r\n\r\n--c\r\nContent-Type: multipart/related; boundary=d\r\n\r\n--d--\r\n--c--\r\n--b--\r\n",
		"--b\r\nContent-Type: multipart/alternative; boundary=c\r\n\r\nthe boundary c never occurs here\r\n--b--\r\n",
		"--b\r\nContent-Type: multipart/alternative; boundary=\"\"\r\n\r\nempty boundary\r\n--b--\r\n",
		"--b\r\nContent-Type: multipart/alternative\r\n\r\nno boundary parameter\r\n--b--\r\n",
		"--b\r\nContent-Type: message/rfc822\r\n\r\nContent-Type: multipart/mixed; boundary=e\r\n\r\n--e--\r\n--b--\r\n",
	} {
		out = append(out, kase{kind: "imap", msg: "From: a@example.org\r\nTo: u@example.com\r\nSubject: empty container\r\nMIME-Version: 1.0\r\nContent-Type: multipart/mixed; boundary=b\r\n\r\n" + body,
			cmds: []string{"FETCH $N BODYSTRUCTURE", "FETCH $N BODY", "FETCH $N FULL", "FETCH $N (BODY[] BODY[1] BODY[2] BODY[1.1] BODY[2.1])", "SEARCH BODY text", "FETCH $N (ENVELOPE RFC822.SIZE)"}, class: "empty-container"})
	}
	out = append(out, kase{kind: "imap", msg: "From: a@example.org\r\nSubject: s\r\n\r\nranges\r\n", cmds: []string{"FETCH 50000000:1 FLAGS", "STORE 50000000:1 +FLAGS (\\Seen)", "COPY 50000000:1 INBOX", "UID FETCH 50000000:1 FLAGS", "FETCH 1:50000000 FLAGS"}, class: "huge-range"})
	// the same with numbers no loop can walk: 10^15, 2^32, 2^63-1, in both orders, in every command that takes a set
	out = append(out, kase{kind: "imap", msg: "From: a@example.org\r\nSubject: s\r\n\r\nranges\r\n", cmds: []string{"FETCH 1:999999999999999 FLAGS", "STORE 999999999999999:2 +FLAGS (\\Seen)", "COPY 1:4294967296 INBOX",
		"FETCH 1:9223372036854775807 FLAGS", "UID FETCH 1:999999999999999 FLAGS", "UID STORE 999999999999999:1 +FLAGS (\\Seen)", "SEARCH 1:999999999999999", "SEARCH UID 999999999999999:1", "UID COPY 1:9223372036854775807 INBOX",
		"FETCH 1,2,1:999999999999999,3 FLAGS", "UID EXPUNGE 1:999999999999999"}, class: "huge-range"})
	for _, a := range addrValues {
		out = append(out, kase{kind: "imap", msg: "From: " + a + "\r\nSubject: s\r\n\r\nx\r\n", cmds: []string{"FETCH $N ENVELOPE"}, class: "odd-address"})
	}
	for i := 0; i < nmsg; i++ {
		msg, class := message(rng)
		var cmds []string
		k := 6 + rng.Intn(8)
		for j := 0; j < k; j++ {
			switch rng.Intn(10) {
			case 0, 1, 2, 3:
				it := rng.Pick(fetchItems)
				if rng.Chance(15) {
					it = mutate(rng, it)
				}
				cmds = append(cmds, rng.Pick([]string{"FETCH $N ", "FETCH $N ", "UID FETCH 1:* ", "FETCH 1:* "})+it)
			case 4, 5:
				sk := rng.Pick(searchKeys)
				if rng.Chance(15) {
					sk = mutate(rng, sk)
				}
				cmds = append(cmds, rng.Pick([]string{"SEARCH ", "UID SEARCH "})+sk)
			case 6:
				cmds = append(cmds, "FETCH $N ("+rng.Pick(fetchItems)+" "+rng.Pick(fetchItems)+" "+rng.Pick(fetchItems)+")")
			default:
				c := rng.Pick(otherCmds)
				if rng.Chance(15) && !strings.HasPrefix(c, "RAW") {
					c = mutate(rng, c)
				}
				cmds = append(cmds, c)
			}
		}
		// CR / LF inside a command line would split it: those go through RAW only
		for j, c := range cmds {
			if !strings.HasPrefix(c, "RAW ") && strings.ContainsAny(c, "\r\n") {
				cmds[j] = strings.NewReplacer("\r", "", "\n", "").Replace(c)
			}
		}
		out = append(out, kase{kind: "imap", msg: msg, cmds: cmds, class: class})
	}
	for r := 0; r < nraw; r++ {
		for _, s := range rawImap {
			if r > 0 {
				s = mutate(rng, s)
			}
			out = append(out, kase{kind: "rawimap", msg: s, class: "raw-imap"})
		}
		for _, s := range lmtpScripts {
			if r > 0 {
				s = mutate(rng, s)
			}
			out = append(out, kase{kind: "lmtp", msg: s, class: "lmtp"})
		}
		for _, s := range saslLines {
			if r > 0 {
				s = mutate(rng, s)
			}
			out = append(out, kase{kind: "sasl", msg: "VERSION\t1\t2\nCPID\t1\n" + s, class: "sasl"})
		}
	}
	return out
}
