// C12 correspondence and witness search: malformed inputs against the three real services, each served from its real
// connection root (server.HandleConnection, lmtp.Server / sasl.Server accept loops on UNIX sockets), in a child process so
// that a panic that escapes a root — which ends the process — is observed by the parent as exactly that. After every input a
// canary session on each service must still be served. The modelled slicing cores (Model/Slices: partial ranges, address
// lists) are compared value by value with the Lean model.
package main

import (
	"bufio"
	"encoding/base64"
	"fmt"
	"io"
	"log"
	"net"
	"os"
	"os/exec"
	"strconv"
	"strings"
	"sync"
	"syscall"
	"time"

	"raven/internal/delivery/lmtp"
	"raven/internal/sasl"
	"raven/verifh/hx"
	"raven/verifh/sx"
	"raven/verifh/world"
)

// ---------------------------------------------------------------- child

type childEnv struct {
	w        *world.World
	dir      string
	lmtpSock string
	saslSock string
	users    int
}

func dialWait(sock string) {
	for i := 0; i < 100; i++ {
		if c, err := net.Dial("unix", sock); err == nil {
			c.Close()
			return
		}
		time.Sleep(20 * time.Millisecond)
	}
}

// talk sends script to a UNIX socket and returns what came back until the peer closed or fell silent.
func talk(sock, script string, idle time.Duration) (out string, closed bool, err error) {
	return talkUntil(sock, script, idle, "")
}

// talkUntil also returns as soon as `until` has been received
func talkUntil(sock, script string, idle time.Duration, until string) (out string, closed bool, err error) {
	c, err := net.DialTimeout("unix", sock, 2*time.Second)
	if err != nil {
		return "", false, err
	}
	defer c.Close()
	go func() {
		c.SetWriteDeadline(time.Now().Add(5 * time.Second))
		io.WriteString(c, script)
	}()
	var sb strings.Builder
	buf := make([]byte, 65536)
	deadline := time.Now().Add(8 * time.Second)
	for time.Now().Before(deadline) {
		c.SetReadDeadline(time.Now().Add(idle))
		n, e := c.Read(buf)
		sb.Write(buf[:n])
		if until != "" && strings.Contains(sb.String(), until) {
			return sb.String(), false, nil
		}
		if e != nil {
			if ne, ok := e.(net.Error); ok && ne.Timeout() {
				return sb.String(), false, nil
			}
			return sb.String(), true, nil
		}
	}
	return sb.String(), false, nil
}

func (e *childEnv) canary() string {
	// IMAP: a fresh authenticated session is served
	c := e.w.Login("canary@example.com")
	r1 := c.Cmd("SELECT INBOX")
	r2 := c.Cmd("NOOP")
	c.Close()
	if !r1.OK() || !r2.OK() {
		return fmt.Sprintf("imap-canary-failed(%s|%s|%s)", r1.Tagged, r2.Tagged, r1.Err+r2.Err)
	}
	out, _, err := talkUntil(e.lmtpSock, "LHLO canary\r\nQUIT\r\n", 2*time.Second, "221")
	if err != nil || !strings.Contains(out, "250") || !strings.Contains(out, "221") {
		return fmt.Sprintf("lmtp-canary-failed(%q %v)", out, err)
	}
	resp := base64.StdEncoding.EncodeToString([]byte("\x00canary@example.com\x00pw"))
	out, _, err = talkUntil(e.saslSock, "VERSION\t1\t2\nCPID\t1\nAUTH\t1\tPLAIN\tservice=smtp\tresp="+resp+"\n", 2*time.Second, "OK\t1")
	if err != nil || !strings.Contains(out, "OK\t1") {
		return fmt.Sprintf("sasl-canary-failed(%q %v)", out, err)
	}
	return "ok"
}

// panicLog collects what the connection roots log when they recover from a panic
type panicLog struct {
	mu    sync.Mutex
	lines []string
}

func (p *panicLog) Write(b []byte) (int, error) {
	if strings.Contains(string(b), "panicked") {
		p.mu.Lock()
		p.lines = append(p.lines, strings.TrimSpace(string(b)))
		p.mu.Unlock()
	}
	return len(b), nil
}
func (p *panicLog) take() []string {
	p.mu.Lock()
	defer p.mu.Unlock()
	l := p.lines
	p.lines = nil
	return l
}

func child() {
	dir := os.Args[2]
	os.Chdir(dir)
	hx.Quiet()
	pl := &panicLog{}
	log.SetOutput(pl)
	w, err := world.New(dir, "example.com")
	if err != nil {
		fmt.Fprintln(hx.Stdout, "fatal "+err.Error())
		os.Exit(3)
	}
	w.NoRecover = true
	e := &childEnv{w: w, dir: dir, lmtpSock: dir + "/lmtp.sock", saslSock: dir + "/sasl.sock"}
	os.Remove(e.lmtpSock)
	os.Remove(e.saslSock)
	cfg := *w.LCfg
	cfg.LMTP.UnixSocket = e.lmtpSock
	cfg.LMTP.TCPAddress = ""
	ls := lmtp.NewServer(w.Mgr, &cfg)
	go ls.Start()
	ss := sasl.NewServer(e.saslSock, "", w.Backend.Srv.URL, "example.com")
	go ss.Start()
	dialWait(e.lmtpSock)
	dialWait(e.saslSock)
	out := bufio.NewWriter(hx.Stdout)
	in := bufio.NewReaderSize(os.Stdin, 1<<26)
	fmt.Fprintln(out, "ready")
	out.Flush()
	for {
		line, err := in.ReadString('\n')
		if err != nil {
			return
		}
		f := strings.Fields(line)
		if len(f) < 2 {
			continue
		}
		id := f[0]
		var res []string
		switch f[1] {
		case "imap":
			// imap <message> <cmd>… : store the message in a fresh user's INBOX, then run the commands ($N = its number)
			e.users++
			user := fmt.Sprintf("m%d@example.com", e.users%40)
			c := w.Login(user)
			c.Wait = 4 * time.Second
			msg := hx.UnH(f[2])
			n := 0
			if msg != "" {
				r := c.Append("INBOX", "", msg)
				st := strings.ToLower(r.Status())
				if strings.Contains(r.Err, "timeout") && !c.Dead {
					// neither an answer nor a close: does the session go on?
					c.Wait = 2 * time.Second
					if !c.Cmd("NOOP").OK() {
						st = "silent"
					}
					c.Wait = 4 * time.Second
				}
				res = append(res, "append:"+st)
				if st == "silent" {
					c.Close()
					can := e.canary()
					fmt.Fprintf(out, "res %s %s %s\n", id, can, strings.Join(res, " "))
					out.Flush()
					continue
				}
			}
			sel := c.Cmd("SELECT INBOX")
			for _, l := range sel.Untagged {
				var k int
				if _, err := fmt.Sscanf(l, "* %d EXISTS", &k); err == nil {
					n = k
				}
			}
			for _, hc := range f[3:] {
				cmd := strings.ReplaceAll(hx.UnH(hc), "$N", fmt.Sprint(n))
				var r world.Resp
				if strings.HasPrefix(cmd, "RAW ") {
					// raw bytes carry their own (or no) tag: a tagged NOOP behind them shows whether the session goes on
					c.N++
					tag := fmt.Sprintf("zz%d", c.N)
					raw := cmd[4:]
					if !strings.HasSuffix(raw, "\n") {
						raw += "\r\n" // keep the NOOP on a line of its own
					}
					r = c.Send(tag, raw+tag+" NOOP\r\n")
				} else {
					r = c.Cmd(cmd)
				}
				st := strings.ToLower(r.Status())
				switch {
				case c.Dead:
					st = "closed"
				case strings.Contains(r.Err, "timeout"):
					// no tagged answer (a line without a command is answered "* BAD"): does the session go on?
					st = "silent"
					c.Wait = 2 * time.Second
					if c.Cmd("NOOP").OK() {
						st = "untagged"
					}
					c.Wait = 4 * time.Second
				case strings.HasPrefix(r.Tagged, "+"):
					st = "cont"
				}
				res = append(res, st+":"+hx.H(r.Raw))
				if c.Dead {
					break
				}
				if st == "silent" || st == "cont" || st == "untagged" {
					// a command left waiting for more input: give the session up
					break
				}
			}
			c.Close()
		case "rawimap":
			// raw bytes to a fresh, unauthenticated connection
			c := w.IMAP(true)
			c.Wait = 1500 * time.Millisecond
			r := c.Send("zz9", hx.UnH(f[2])+"zz9 NOOP\r\n")
			st := strings.ToLower(r.Status())
			if c.Dead {
				st = "closed"
			} else if strings.Contains(r.Err, "timeout") {
				st = "silent"
			}
			res = append(res, st+":"+hx.H(r.Raw))
			c.Close()
		case "lmtp":
			script := hx.UnH(f[2])
			o, closed, err := talk(e.lmtpSock, script, 350*time.Millisecond)
			st := fmt.Sprintf("%v", closed)
			if !closed && err == nil && strings.Contains(script, "\r\n.\r\n") && strings.Contains(o, "\r\n354 ") {
				// the end of data was sent after a 354: replies must follow (one per recipient); wait for them in earnest
				after := o[strings.LastIndex(o, "\r\n354 ")+2:]
				if strings.Count(after, "\r\n") < 2 {
					o2, closed2, _ := talkUntil(e.lmtpSock, script, 5*time.Second, "\r\n354 ")
					_ = o2
					o3, closed3, _ := talk(e.lmtpSock, script+"NOOP\r\n", 4*time.Second)
					after3 := ""
					if i := strings.LastIndex(o3, "\r\n354 "); i >= 0 {
						after3 = o3[i+2:]
					}
					if !closed2 && !closed3 && strings.Count(after3, "\r\n") < 2 {
						st = "stuck-after-data"
					}
				}
			}
			res = append(res, fmt.Sprintf("%s:%v:%s", st, err != nil, hx.H(o)))
		case "burst":
			// more simultaneous connections than the process has descriptors left for: the listener's accept fails for a
			// while; when the clients are gone the service answers again. With an odd number of free descriptors (one per
			// side of a connection) at least one connection is waiting for an accept that cannot have its descriptor.
			bf := strings.Fields(hx.UnH(f[2]))
			sock := e.saslSock
			if bf[0] == "lmtp" {
				sock = e.lmtpSock
			}
			room, _ := strconv.Atoi(bf[1])
			var lim syscall.Rlimit
			syscall.Getrlimit(syscall.RLIMIT_NOFILE, &lim)
			ents, _ := os.ReadDir("/proc/self/fd")
			low := lim
			low.Cur = uint64(len(ents) - 1 + room) // ReadDir's own descriptor is gone again
			syscall.Setrlimit(syscall.RLIMIT_NOFILE, &low)
			var conns []net.Conn
			refused := 0
			for i := 0; i < 3*room && refused < 4; i++ {
				c, err := net.DialTimeout("unix", sock, 300*time.Millisecond)
				if err != nil {
					refused++
					time.Sleep(30 * time.Millisecond)
					continue
				}
				conns = append(conns, c)
			}
			time.Sleep(300 * time.Millisecond)
			for _, c := range conns {
				c.Close()
			}
			syscall.Setrlimit(syscall.RLIMIT_NOFILE, &lim)
			time.Sleep(300 * time.Millisecond)
			res = append(res, fmt.Sprintf("held-%d-refused-%d:", len(conns), refused))
		case "sasl":
			o, closed, err := talk(e.saslSock, hx.UnH(f[2]), 250*time.Millisecond)
			res = append(res, fmt.Sprintf("%v:%v:%s", closed, err != nil, hx.H(o)))
		}
		can := e.canary()
		for _, l := range pl.take() {
			if i := strings.Index(l, "panicked: "); i >= 0 {
				l = l[i+10:]
			}
			res = append(res, "recovered:"+hx.H(l))
		}
		fmt.Fprintf(out, "res %s %s %s\n", id, can, strings.Join(res, " "))
		out.Flush()
	}
}

// ---------------------------------------------------------------- parent

type kase struct {
	kind   string // imap | rawimap | lmtp | sasl
	msg    string
	cmds   []string
	class  string
	expect func(res []string) string // "" = fine
}

func (k kase) line(id int) string {
	switch k.kind {
	case "imap":
		var hs []string
		for _, c := range k.cmds {
			hs = append(hs, hx.H(c))
		}
		return fmt.Sprintf("%d imap %s %s", id, hx.H(k.msg), strings.Join(hs, " "))
	default:
		return fmt.Sprintf("%d %s %s", id, k.kind, hx.H(k.msg))
	}
}

type proc struct {
	cmd    *exec.Cmd
	in     io.WriteCloser
	out    *bufio.Reader
	errBuf *strings.Builder
	dir    string
	clean  func()
}

func startChild() (*proc, error) {
	dir, err := os.MkdirTemp(workBase(), "raven-verif-c12-")
	if err != nil {
		return nil, err
	}
	cmd := exec.Command(selfExe(), "-child", dir)
	cmd.Env = append(os.Environ(), "GOMEMLIMIT=6GiB", "GOTRACEBACK=single")
	in, _ := cmd.StdinPipe()
	so, _ := cmd.StdoutPipe()
	eb := &strings.Builder{}
	se, _ := cmd.StderrPipe()
	if err := cmd.Start(); err != nil {
		return nil, err
	}
	go func() {
		buf := make([]byte, 8192)
		for {
			n, err := se.Read(buf)
			if eb.Len() < 1<<16 {
				eb.Write(buf[:n])
			}
			if err != nil {
				return
			}
		}
	}()
	p := &proc{cmd: cmd, in: in, out: bufio.NewReaderSize(so, 1<<26), errBuf: eb, dir: dir, clean: func() { os.RemoveAll(dir) }}
	l, err := p.out.ReadString('\n')
	if err != nil || strings.TrimSpace(l) != "ready" {
		p.kill()
		return nil, fmt.Errorf("child did not start: %q %v %s", l, err, eb.String())
	}
	return p, nil
}

func workBase() string {
	if st, err := os.Stat("/dev/shm"); err == nil && st.IsDir() {
		return "/dev/shm"
	}
	os.MkdirAll("/verif/.work", 0755)
	return "/verif/.work"
}

func (p *proc) kill() {
	p.in.Close()
	p.cmd.Process.Kill()
	p.cmd.Wait()
	p.clean()
}

// ask returns the result fields, or died=true when the process went away (with the head of its stderr)
func (p *proc) ask(line string) (canary string, res []string, died bool, why string) {
	if _, err := io.WriteString(p.in, line+"\n"); err != nil {
		return "", nil, true, "write: " + err.Error()
	}
	type ans struct {
		l   string
		err error
	}
	ch := make(chan ans, 1)
	go func() {
		l, err := p.out.ReadString('\n')
		ch <- ans{l, err}
	}()
	select {
	case a := <-ch:
		if a.err != nil {
			time.Sleep(100 * time.Millisecond)
			return "", nil, true, firstPanicLines(p.errBuf.String())
		}
		f := strings.Fields(a.l)
		if len(f) < 3 || f[0] != "res" {
			return "", nil, true, "protocol: " + a.l
		}
		return f[2], f[3:], false, ""
	case <-time.After(90 * time.Second):
		return "", nil, true, "no answer from the service process within 90 s (stuck)"
	}
}

func firstPanicLines(s string) string {
	i := strings.Index(s, "panic:")
	if i < 0 {
		i = strings.Index(s, "fatal error:")
	}
	if i < 0 {
		if len(s) > 300 {
			s = s[len(s)-300:]
		}
		return "process ended: " + s
	}
	s = s[i:]
	lines := strings.Split(s, "\n")
	var keep []string
	for _, l := range lines {
		if strings.HasPrefix(l, "panic:") || strings.HasPrefix(l, "fatal error:") || strings.Contains(l, "raven/internal") {
			keep = append(keep, strings.TrimSpace(l))
		}
		if len(keep) >= 4 {
			break
		}
	}
	return strings.Join(keep, " | ")
}

// selfExe: the absolute path of this binary (the parent may have changed directory)
func selfExe() string {
	if p, err := os.Executable(); err == nil {
		return p
	}
	return os.Args[0]
}

func main() {
	if len(os.Args) > 2 && os.Args[1] == "-child" {
		child()
		return
	}
	o, rep := hx.Init("C12")
	hx.Quiet()
	rep.Rule = "stored messages with mutated From/To/Cc values, Content-Type parameters, boundaries, transfer encodings, line endings and nesting × FETCH items, sections and partial ranges (negative, overflowing, non-numeric), SEARCH keys, STORE/COPY/APPEND/LIST/STATUS/AUTHENTICATE/LOGIN argument mutations, raw pre-authentication byte strings, LMTP scripts and SASL lines; every case followed by a canary session on IMAP, LMTP and SASL; distinct by (kind, message, commands); non-trivial when the input is outside the grammar of its protocol or the message outside RFC 5322/2045"
	rng := hx.NewRng(o.Seed)
	var cases []kase
	if o.Replay != "" {
		cases = parseCases(hx.ReadLines(o.Replay))
	} else {
		cases = append(cases, parseCases(hx.ReadLines(o.Corpus+"/cases.ops"))...)
		cases = append(cases, generate(rng, o.Thorough)...)
		for _, b := range []string{"sasl 21", "lmtp 21", "sasl 22", "lmtp 22"} {
			cases = append(cases, kase{kind: "burst", msg: b, class: "descriptor-burst"})
		}
	}
	p, err := startChild()
	if err != nil {
		rep.Violate("broken-correspondence", "child", err.Error(), nil)
		rep.Finish()
	}
	var modelOps []string
	var modelChecks []func(ans string)
	type crash struct {
		k   kase
		why string
	}
	var crashes []crash
	recSeen := map[string]bool{}
	for i, k := range cases {
		line := k.line(i)
		rep.Case(k.kind+"|"+k.msg+"|"+strings.Join(k.cmds, "|"), k.class != "plain")
		rep.Hit("class:" + k.class)
		canary, res, died, why := p.ask(line)
		if died {
			rep.Hit("process-died")
			crashes = append(crashes, crash{k, why})
			p.kill()
			if p, err = startChild(); err != nil {
				rep.Violate("broken-correspondence", "child", err.Error(), nil)
				rep.Finish()
			}
			continue
		}
		if canary != "ok" {
			rep.Violate("impl-violation", "canary (service keeps answering)", fmt.Sprintf("after %s the next session is not served: %s", describe(k), canary), []string{replayLine(k)})
			p.kill()
			if p, err = startChild(); err != nil {
				rep.Finish()
			}
			continue
		}
		for _, r := range res {
			st := strings.SplitN(r, ":", 2)[0]
			if st == "recovered" {
				// contained by the connection root: the property holds, the panic is still worth a note
				rep.Hit("recovered-panic")
				msg := hx.UnH(strings.SplitN(r, ":", 2)[1])
				if !recSeen[msg] && len(recSeen) < 12 {
					recSeen[msg] = true
					rep.Note("contained by the connection root (connection dropped, service up): %s — %s", msg, trunc(describe(k), 400))
				}
				continue
			}
			rep.Hit(k.kind + ":" + st)
			if st == "stuck-after-data" {
				rep.Violate("impl-violation", "liveness (answer or close)", fmt.Sprintf("%s: the end of data is never answered and the connection stays open (4 s)", describe(k)), []string{replayLine(k)})
			}
			if r == "append:silent" {
				rep.Violate("impl-violation", "liveness (answer or close)", fmt.Sprintf("%s: APPEND of the message gets no tagged answer and the connection stays open", describe(k)), []string{replayLine(k)})
			}
			if st == "silent" && k.kind == "imap" {
				// neither an answer nor a close: the command hangs
				rep.Violate("impl-violation", "liveness (answer or close)", fmt.Sprintf("%s: no tagged answer and the connection stays open", describe(k)), []string{replayLine(k)})
			}
		}
		// value-level correspondence for the modelled cores
		ops, chk := modelTie(k, res, rep)
		modelOps = append(modelOps, ops...)
		modelChecks = append(modelChecks, chk...)
		if len(rep.Violations) >= 5 {
			break
		}
	}
	p.kill()
	// confirm every crash alone, on a fresh process
	seen := map[string]bool{}
	for _, c := range crashes {
		if len(seen) >= 4 {
			break
		}
		q, err := startChild()
		if err != nil {
			break
		}
		_, _, died, why := q.ask(c.k.line(0))
		q.kill()
		if !died {
			rep.Note("process ended during %s (%s) but not when the case runs alone", describe(c.k), c.why)
			continue
		}
		key := why
		if seen[key] {
			continue
		}
		seen[key] = true
		rep.Violate("impl-violation", "process liveness (Props.C12.roots_recover / process_survives)", fmt.Sprintf("%s ends the whole service process: %s", describe(c.k), why), []string{replayLine(c.k)})
	}
	if len(modelOps) > 0 {
		ans, err := hx.RunModel(o.Driver, modelOps)
		if err != nil {
			rep.Violate("broken-correspondence", "driver", err.Error(), nil)
		} else {
			for i, chk := range modelChecks {
				chk(ans[i])
			}
		}
	}
	rep.Finish()
}

func describe(k kase) string {
	switch k.kind {
	case "imap":
		m := k.msg
		if len(m) > 160 {
			m = m[:160] + "…"
		}
		return fmt.Sprintf("message %q + commands %q", m, k.cmds)
	}
	m := k.msg
	if len(m) > 300 {
		m = m[:300] + "…"
	}
	return fmt.Sprintf("%s input %q", k.kind, m)
}

func replayLine(k kase) string { return "case " + k.line(0)[2:] }

func parseCases(lines []string) []kase {
	var out []kase
	for _, l := range lines {
		f := strings.Fields(l)
		if len(f) < 3 || f[0] != "case" {
			continue
		}
		k := kase{kind: f[1], msg: hx.UnH(f[2]), class: "corpus"}
		for _, c := range f[3:] {
			k.cmds = append(k.cmds, hx.UnH(c))
		}
		out = append(out, k)
	}
	return out
}

// modelTie: for FETCH BODY[1]<s.l> on a single-part message and for ENVELOPE address lists, what the Lean model computes
func modelTie(k kase, res []string, rep *hx.Report) (ops []string, chk []func(string)) {
	if k.kind != "imap" {
		return
	}
	off := 0
	if k.msg != "" {
		off = 1
		if len(res) == 0 || res[0] != "append:ok" {
			return // $N is then some earlier message
		}
	}
	for i, c := range k.cmds {
		if off+i >= len(res) {
			break
		}
		if i > 0 && !keepsMessage(k.cmds[i-1]) {
			// an earlier command may have changed who is logged in, what is selected or which messages there are ($N is then
			// no longer the stored message): the value tie ends here, the liveness check goes on
			break
		}
		parts := strings.SplitN(res[off+i], ":", 2)
		if len(parts) != 2 || parts[0] != "ok" {
			continue
		}
		raw := hx.UnH(parts[1])
		cmd := c
		var s, l int64
		// the value tie needs to know what BODY[1] is: only for well-formed plain messages (what the store makes of blank or
		// header-less messages is C02's business)
		wellFormed := (k.class == "partial-range" || k.class == "plain" || k.class == "corpus") && strings.HasPrefix(k.msg, "From: ")
		if n, _ := fmt.Sscanf(cmd, "FETCH $N BODY[1]<%d.%d>", &s, &l); n == 2 && strings.HasSuffix(cmd, ">") && wellFormed && singlePartBody(k.msg) != "" {
			body := singlePartBody(k.msg)
			ops = append(ops, fmt.Sprintf("x.partial %s %d %d", hx.H(body), s, l))
			kk := k
			chk = append(chk, func(ans string) {
				rep.Hit("tie:partial")
				got := partialOf(raw)
				if got != ans {
					rep.Violate("impl-violation", "partial range vs Model/Slices.partialCut (Props.C12.partial_exact)", fmt.Sprintf("%q on body %q: implementation %s, model %s", cmd, trunc(body, 60), got, ans), []string{replayLine(kk)})
				}
			})
		}
		if cmd == "FETCH $N ENVELOPE" {
			from := headerValue(k.msg, "From")
			if from == "" || strings.ContainsAny(from, "\"\\\x00") || !asciiSpaceOnly(from) {
				continue
			}
			var parsed string
			ops = append(ops, "r.parse "+hx.H(raw), "x.addr "+hx.H(from))
			kk := k
			chk = append(chk, func(ans string) { parsed = ans }, func(ans string) {
				rep.Hit("tie:address")
				got := fromOf(parsed)
				if got != ans {
					rep.Violate("broken-correspondence", "address list vs Model/Slices.addressList (Props.C12.address_total)", fmt.Sprintf("From value %q: implementation %s, model %s", from, got, ans), []string{replayLine(kk)})
				}
			})
		}
	}
	return
}

// keepsMessage: commands after which message $N of the selected INBOX is still the stored message, whatever they were
// answered: reads, and COPY (which appends behind it)
func keepsMessage(cmd string) bool {
	f := strings.Fields(strings.ToUpper(cmd))
	if len(f) == 0 {
		return false
	}
	switch f[0] {
	case "FETCH", "SEARCH", "NOOP", "CHECK", "LIST", "LSUB", "STATUS", "CAPABILITY", "NAMESPACE", "COPY":
		return true
	case "UID":
		return len(f) > 1 && (f[1] == "FETCH" || f[1] == "SEARCH" || f[1] == "COPY")
	}
	return false
}

func trunc(s string, n int) string {
	if len(s) > n {
		return s[:n] + "…"
	}
	return s
}

// asciiSpaceOnly: Go's TrimSpace also strips Unicode spaces (U+0085, U+00A0, …); the model trims ASCII white space only
func asciiSpaceOnly(s string) bool {
	for _, r := range s {
		if r > 127 && (r == 0x85 || r == 0xA0 || r == 0x1680 || (r >= 0x2000 && r <= 0x200a) || r == 0x2028 || r == 0x2029 || r == 0x202f || r == 0x205f || r == 0x3000) {
			return false
		}
	}
	return true
}

// singlePartBody: the body of a plain single-part message as the store returns it for BODY[1] ("" = not of that shape)
func singlePartBody(msg string) string {
	i := strings.Index(msg, "\r\n\r\n")
	if i < 0 {
		return ""
	}
	h := strings.ToLower(msg[:i])
	if strings.Contains(h, "content-type") || strings.Contains(h, "content-transfer-encoding") || strings.Contains(h, "mime-version") {
		return ""
	}
	b := msg[i+4:]
	if b == "" || strings.ContainsAny(b, "\x00") {
		return ""
	}
	return b
}

// partialOf renders the answer for BODY[1]… in the model's format: "<origin|-> <hex>"
func partialOf(raw string) string {
	i := strings.Index(raw, "BODY[1]")
	if i < 0 {
		return "absent"
	}
	rest := raw[i+7:]
	origin := "-"
	if strings.HasPrefix(rest, "<") {
		j := strings.Index(rest, ">")
		origin = rest[1:j]
		rest = rest[j+1:]
	}
	rest = strings.TrimPrefix(rest, " ")
	if strings.HasPrefix(rest, "NIL") {
		return origin + " -"
	}
	if strings.HasPrefix(rest, "{") {
		j := strings.Index(rest, "}\r\n")
		var n int
		fmt.Sscanf(rest[1:j], "%d", &n)
		return origin + " " + hx.H(rest[j+3:j+3+n])
	}
	return "unreadable"
}

func headerValue(msg, name string) string {
	// the value tie is about well-formed header blocks: CRLF line ends throughout. A message whose lines end in bare LF (or a
	// mixture) is read by the server's library in its own way; that is not this tie's business
	head := msg
	if i := strings.Index(msg, "\r\n\r\n"); i >= 0 {
		head = msg[:i]
	}
	if strings.Contains(strings.ReplaceAll(head, "\r\n", ""), "\n") || strings.Contains(strings.ReplaceAll(head, "\r\n", ""), "\r") {
		return ""
	}
	lines := strings.Split(head, "\r\n")
	for i, l := range lines {
		if strings.HasPrefix(strings.ToLower(l), strings.ToLower(name)+":") {
			if i+1 < len(lines) && (strings.HasPrefix(lines[i+1], " ") || strings.HasPrefix(lines[i+1], "\t")) {
				return "" // folded: not this tie's business
			}
			return strings.TrimSpace(l[len(name)+1:])
		}
	}
	return ""
}

// fromOf renders the From address list of an ENVELOPE answer (as parsed by the proved reader, `r.parse`) in the model's format
func fromOf(parsed string) string {
	its := sx.FetchItems(parsed)
	if len(its) != 1 || its[0]["ENVELOPE"] == nil || len(its[0]["ENVELOPE"].L) < 3 {
		return "unreadable:" + trunc(parsed, 80)
	}
	from := its[0]["ENVELOPE"].L[2]
	if from.IsNil() {
		return "."
	}
	var out []string
	for _, a := range from.L {
		if len(a.L) != 4 {
			return "unreadable"
		}
		out = append(out, hx.H(a.L[0].Str())+"|"+hx.H(a.L[2].Str())+"|"+hx.H(a.L[3].Str()))
	}
	return strings.Join(out, ";")
}
