// C16 correspondence: whole LMTP byte streams (pipelined in one write, or line by line) fed to the real Session; the
// reply-code stream must equal the Lean machine's. Which assembled messages are parsable is decided by the real
// parser.ParseMessage + ValidateMessage on the messages the model assembles (the parse outcome is a parameter of the
// model). Stored octets of accepted messages are compared with the submitted ones.
package main

import (
	"bytes"
	"fmt"
	"strconv"
	"strings"

	"raven/internal/delivery/config"
	"raven/internal/delivery/parser"
	"raven/verifh/hx"
	"raven/verifh/world"
)

func mixCase(rng *hx.Rng, s string) string {
	b := []byte(s)
	for i := range b {
		if rng.Chance(35) {
			if b[i] >= 'A' && b[i] <= 'Z' {
				b[i] += 32
			} else if b[i] >= 'a' && b[i] <= 'z' {
				b[i] -= 32
			}
		}
	}
	return string(b)
}

var bodyLines = []string{"hello", ".", "..", "...", ".hidden", "QUIT", "RSET", "DATA", "MAIL FROM:<evil@x>", "RCPT TO:<evil@x>", "", " ", "a.b", "line with spaces ", "\tTab", "8bit \xe9\xff", "0123456789012345678901234567890123456789"}

// genBody returns the message (as it should be stored) and its on-the-wire form
func genBody(rng *hx.Rng, maxSize int, id int) (msg string, wire string, kind string) {
	eol := "\r\n"
	bare := rng.Chance(12)
	if bare {
		eol = "\n"
	}
	var hdr []string
	kind = "valid"
	switch rng.Intn(10) {
	case 0:
		hdr = []string{"Subject: no from " + strconv.Itoa(id), "To: x@example.com"}
		kind = "no-from"
	case 1:
		// the offending line ends up in error texts: command words in it must stay message content
		hdr = []string{rng.Pick([]string{"this is not a header line", "QUIT", "I QUIT this list", "RSET everything", "DATA", "quit: lower case is a header", "NOOP QUIT RSET", "MAIL FROM:<evil@x>", "250 OK", "221 Bye"})}
		kind = "garbage-header"
	case 2:
		hdr = []string{"From: s@example.org", "Subject: no recipients " + strconv.Itoa(id)}
		kind = "no-to"
	default:
		hdr = []string{"From: s@example.org", "To: r@example.com", "Subject: c16-" + strconv.Itoa(id)}
	}
	var lines []string
	lines = append(lines, hdr...)
	lines = append(lines, "")
	n := rng.Intn(8)
	for i := 0; i < n; i++ {
		lines = append(lines, rng.Pick(bodyLines))
	}
	if maxSize >= 30000 && kind == "valid" {
		// lines longer than the reader's buffer, with dots where a buffer-sized piece would begin
		k := 1 + rng.Intn(2)
		lines = append(lines, strings.Repeat("x", 4096*k)+rng.Pick([]string{".", "..", ".tail", "..two dots", "", "QUIT"}))
		if rng.Chance(50) {
			lines = append(lines, strings.Repeat("y", 4095)+".", "HELP", "RSET", "after the long lines")
		}
	}
	if rng.Chance(15) {
		// push it over the limit
		for i := 0; i < maxSize/40+2; i++ {
			lines = append(lines, rng.Pick(bodyLines[len(bodyLines)-1:]))
		}
		kind = "oversize"
	}
	var m, w strings.Builder
	for _, l := range lines {
		m.WriteString(l + eol)
		if strings.HasPrefix(l, ".") {
			w.WriteString(".")
		}
		w.WriteString(l + eol)
	}
	term := ".\r\n"
	if bare || rng.Chance(10) {
		term = ".\n"
	}
	return m.String(), w.String() + term, kind
}

func genStream(rng *hx.Rng, maxSize, maxRcpt int, base int) (string, []string) {
	var sb strings.Builder
	var want []string // subjects of messages expected to be accepted (for the stored-octets check)
	eol := func() string {
		if rng.Chance(10) {
			return "\n"
		}
		return "\r\n"
	}
	cmd := func(s string) { sb.WriteString(s + eol()) }
	if rng.Chance(92) {
		cmd(mixCase(rng, "LHLO") + " client.example")
	}
	ntx := 1 + rng.Intn(4)
	for t := 0; t < ntx; t++ {
		if rng.Chance(8) {
			cmd("RSET")
		}
		if rng.Chance(6) {
			cmd(rng.Pick([]string{"NOOP", "HELP", "VRFY x", "BOGUS", "", "   ", "LHLO again"}))
		}
		if rng.Chance(90) {
			p := ""
			if rng.Chance(25) {
				p = " SIZE=123"
			}
			if rng.Chance(15) {
				p += " BODY=8BITMIME"
			}
			cmd(mixCase(rng, "MAIL FROM:") + rng.Pick([]string{"<s@example.org>", "<s@example.org>", " <s@example.org>", "s@example.org"}) + p)
			if rng.Chance(8) {
				cmd("MAIL FROM:<again@example.org>")
			}
		}
		nr := rng.Intn(maxRcpt + 2)
		for i := 0; i < nr; i++ {
			addr := fmt.Sprintf("u%d@example.com", rng.Intn(4))
			if rng.Chance(6) {
				addr = rng.Pick([]string{"noat", "a@b@c", "@example.com"})
			}
			p := ""
			if rng.Chance(20) {
				p = " NOTIFY=NEVER"
			}
			cmd(mixCase(rng, "RCPT TO:") + rng.Pick([]string{"<" + addr + ">", "<" + addr + ">", " <" + addr + ">", addr}) + p)
		}
		if rng.Chance(6) {
			cmd("RCPT FROM:<x@y>")
		}
		if rng.Chance(90) {
			cmd(mixCase(rng, "DATA"))
			msg, wire, kind := genBody(rng, maxSize, base+t)
			sb.WriteString(wire)
			_ = msg
			_ = kind
		}
	}
	// streams end with QUIT (a session that is left waiting costs its whole timeout); 1 in 50 does not
	if rng.Chance(98) {
		cmd("QUIT")
	}
	if rng.Chance(10) {
		cmd("NOOP")
	}
	return sb.String(), want
}

func codes(out string) string {
	var o []string
	for _, l := range strings.Split(out, "\n") {
		l = strings.TrimRight(l, "\r")
		if len(l) >= 3 {
			if _, err := strconv.Atoi(l[:3]); err == nil {
				o = append(o, l[:3])
				continue
			}
		}
		if l != "" {
			o = append(o, "?"+l)
		}
	}
	if len(o) == 0 {
		return "."
	}
	return strings.Join(o, " ")
}

func main() {
	o, rep := hx.Init("C16")
	hx.Quiet()
	rep.Rule = "byte streams of 1..4 LMTP transactions generated from the command grammar (case variants, ESMTP parameters, bracket/blank variants, RSET, repeated MAIL, NOOP/HELP/VRFY/unknown, missing LHLO/MAIL, 0..max+1 recipients incl. syntactically odd ones) with bodies made of dot lines, command look-alikes, bare LF, 8-bit octets, header-less / From-less / recipient-less and over-size messages, both terminators; sent pipelined in one write; the reply-code stream is compared with the Lean machine (max_size ∈ {64, 1024, 30000 — the last with body lines longer than the 4096-byte read buffer and dots at its multiples —}, max_recipients ∈ {1,3}). Distinct by stream; non-trivial when the stream contains a DATA phase"
	dir, cleanup := hx.WorkDir("c16")
	defer cleanup()
	w, err := world.New(dir, "example.com")
	if err != nil {
		rep.Violate("broken-correspondence", "world", err.Error(), nil)
		rep.Finish()
	}
	defer w.Close()
	type cs struct {
		mx, mr int
		stream string
	}
	var cases []cs
	if o.Replay != "" {
		for _, l := range hx.ReadLines(o.Replay) {
			f := strings.Fields(l)
			if f[0] == "stream" && len(f) == 4 {
				a, _ := strconv.Atoi(f[1])
				b, _ := strconv.Atoi(f[2])
				cases = append(cases, cs{a, b, hx.UnH(f[3])})
			}
		}
	} else {
		for _, l := range hx.ReadLines(o.Corpus + "/streams.ops") {
			f := strings.Fields(l)
			if f[0] == "stream" && len(f) == 4 {
				a, _ := strconv.Atoi(f[1])
				b, _ := strconv.Atoi(f[2])
				cases = append(cases, cs{a, b, hx.UnH(f[3])})
			}
		}
		rng := hx.NewRng(o.Seed)
		n := 400
		if o.Thorough {
			n = 12000
		}
		for i := 0; i < n; i++ {
			mx := []int{64, 1024, 1024, 30000}[rng.Intn(4)] // 30000: room for lines longer than a 4096-byte read buffer
			mr := []int{1, 3}[rng.Intn(2)]
			s, _ := genStream(rng, mx, mr, i*10)
			cases = append(cases, cs{mx, mr, s})
		}
	}
	// phase 1: which messages does the model assemble? the real parser decides which of them are acceptable
	var q1 []string
	for _, c := range cases {
		q1 = append(q1, fmt.Sprintf("l.msgs %d %d %s", c.mx, c.mr, hx.H(c.stream)))
	}
	a1, err := hx.RunModel(o.Driver, q1)
	if err != nil {
		rep.Violate("broken-correspondence", "driver", err.Error(), nil)
		rep.Finish()
	}
	var ops, impl []string
	for i, c := range cases {
		var accepted []string
		if a1[i] != "." {
			for _, h := range strings.Fields(a1[i]) {
				m := hx.UnH(h)
				pm, err := parser.ParseMessage(bytes.NewReader([]byte(m)))
				if err == nil && parser.ValidateMessage(pm, int64(c.mx)) == nil {
					accepted = append(accepted, m)
					rep.Hit("message:accepted")
				} else {
					rep.Hit("message:rejected")
				}
			}
		}
		cfg := config.DefaultConfig()
		cfg.LMTP.MaxSize = int64(c.mx)
		cfg.LMTP.MaxRecipients = c.mr
		cfg.LMTP.Timeout = 2
		out := w.LMTPCfg(cfg, c.stream)
		ops = append(ops, fmt.Sprintf("l.run %d %d %s %s", c.mx, c.mr, hx.H(c.stream), hx.HList(accepted)))
		impl = append(impl, codes(out))
		rep.Case(c.stream, strings.Contains(strings.ToUpper(c.stream), "DATA"))
		rep.Hit("streams")
	}
	model, err := hx.RunModel(o.Driver, ops)
	if err != nil {
		rep.Violate("broken-correspondence", "driver", err.Error(), nil)
		rep.Finish()
	}
	nbad := 0
	for i := range ops {
		if impl[i] != model[i] {
			nbad++
			if nbad <= 3 {
				c := cases[i]
				rep.Violate("impl-violation", "LMTP reply stream vs Model/Lmtp (Props.C16: order_and_limits, transparent, oversize_stays_in_step, one_reply_per_recipient)", fmt.Sprintf("stream %q (max_size %d, max_recipients %d): implementation replies %s, the specified dialogue is %s", c.stream, c.mx, c.mr, impl[i], model[i]),
					[]string{fmt.Sprintf("stream %d %d %s", c.mx, c.mr, hx.H(c.stream))})
			}
		}
	}
	for i := 0; i < 3 && i < len(cases); i++ {
		rep.Sample(fmt.Sprintf("%q => %s", cases[len(cases)-1-i].stream, impl[len(cases)-1-i]))
	}
	if o.Replay == "" {
		stored(rep, w)
		quotaOrder(rep, w)
	}
	rep.Finish()
}

// quotaOrder: with quota checking on and one recipient over its quota, the replies after the terminating dot still come one
// per recipient in RCPT order: the over-quota recipient's position carries the refusal, every other position a 2xx.
func quotaOrder(rep *hx.Report, w *world.World) {
	c := w.Login("full16@example.com")
	for i := 0; i < 3; i++ {
		c.Append("INBOX", "", "From: a@b\r\nTo: full16@example.com\r\nSubject: ballast\r\n\r\n"+strings.Repeat("ballast ballast ballast ballast ballast ballast ballast ballast\r\n", 400))
	}
	c.Close()
	cfg := config.DefaultConfig()
	cfg.LMTP.Timeout = 2
	cfg.LMTP.MaxRecipients = 10
	cfg.Delivery.QuotaEnabled = true
	cfg.Delivery.QuotaLimit = 60000
	n := 0
	for _, order := range [][]bool{{false, true, false}, {true, false}, {false, false, true}, {true, true, false}, {false, true, true, false}, {true}} {
		var sb strings.Builder
		sb.WriteString("LHLO c\r\nMAIL FROM:<s@example.org>\r\n")
		for _, full := range order {
			if full {
				sb.WriteString("RCPT TO:<full16@example.com>\r\n")
			} else {
				n++
				sb.WriteString(fmt.Sprintf("RCPT TO:<q16new%d@example.com>\r\n", n))
			}
		}
		sb.WriteString("DATA\r\nFrom: s@example.org\r\nTo: r@example.com\r\nSubject: quota order\r\n\r\nbody\r\n.\r\nQUIT\r\n")
		out := w.LMTPCfg(cfg, sb.String())
		cs := strings.Fields(codes(out))
		// greeting, 5 LHLO lines, MAIL, one per RCPT, 354, one per recipient, 221
		at := 1 + 5 + 1 + len(order) + 1
		replay := []string{"quota-order " + fmt.Sprint(order)}
		if len(cs) != at+len(order)+1 {
			rep.Violate("impl-violation", "one reply per recipient in RCPT order (Props.C16.one_reply_per_recipient)", fmt.Sprintf("recipients (over quota: %v): %d reply codes instead of %d: %v", order, len(cs), at+len(order)+1, cs), replay)
			return
		}
		for i, full := range order {
			if ok := strings.HasPrefix(cs[at+i], "2"); ok == full {
				rep.Violate("impl-violation", "one reply per recipient in RCPT order (Props.C16.one_reply_per_recipient)", fmt.Sprintf("recipients (over quota: %v): replies after the dot are %v: position %d does not belong to its recipient", order, cs[at:at+len(order)], i+1), replay)
				return
			}
		}
		rep.Hit("quota-order")
	}
}

// stored: what was submitted (before dot-stuffing) is what IMAP returns as the body, for bodies made of dot lines,
// command look-alikes and bare LF.
func stored(rep *hx.Report, w *world.World) {
	body := []string{".", "..", "...", ".hidden", "QUIT", "DATA", "MAIL FROM:<x@y>", "plain", ""}
	msg := "From: s@example.org\r\nTo: stored@example.com\r\nSubject: stored\r\n\r\n" + strings.Join(body, "\r\n") + "\r\n"
	_, data := w.Deliver("s@example.org", []string{"stored@example.com"}, msg)
	if len(data) != 1 || !strings.HasPrefix(data[0], "250") {
		rep.Violate("impl-violation", "stored octets", fmt.Sprintf("delivery of the transparency message answered %v", data), []string{"stored"})
		return
	}
	c := w.Login("stored@example.com")
	defer c.Close()
	c.Cmd("SELECT INBOX")
	r := c.Cmd("FETCH 1 BODY.PEEK[TEXT]")
	got := ""
	for _, l := range r.Untagged {
		if i := strings.Index(l, "}\r\n"); i >= 0 {
			got = l[i+3:]
			got = strings.TrimSuffix(got, ")")
		}
	}
	want := strings.Join(body, "\r\n") + "\r\n"
	if got != want {
		rep.Violate("impl-violation", "stored octets", fmt.Sprintf("submitted body %q, BODY[TEXT] returns %q", want, got), []string{"stored"})
	}
	rep.Hit("stored-octets")
}
