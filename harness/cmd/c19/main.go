// C19 correspondence: search programs generated from the RFC 3501 search-key grammar up to a bounded depth against mailboxes
// whose messages differ in flags, keywords, sizes, header fields, body text, internal and sent dates and UIDs (with gaps); the
// real SEARCH / UID SEARCH answers are compared with the Lean evaluator (proved equal to the reference evaluator on the
// supported fragment) and, outside the fragment, must be errors.
package main

import (
	"fmt"
	"regexp"
	"strings"
	"time"

	"raven/verifh/hx"
	"raven/verifh/world"
)

var reFetch = regexp.MustCompile(`^\* (\d+) FETCH \(`)
var reUID = regexp.MustCompile(`UID (\d+)`)
var reFlags = regexp.MustCompile(`FLAGS \(([^)]*)\)`)
var reIDate = regexp.MustCompile(`INTERNALDATE "([^"]*)"`)

type gen struct{ rng *hx.Rng }

// the last subjects hold a search word only behind a false start of itself ("aab" in "aaab", "mamma" in "mamamma", "0012" in
// "00012", "abcabd" in "abcabcabd"): a matcher that does not fall back correctly after a partial match misses them
var subjects = []string{"hello world", "Invoice 42", "Re: hello", "meeting notes", "", "xaaab mamamma", "ref 00012 abcabcabd", "2", "priority 1:2 *"}
var words = []string{"hello", "world", "invoice", "alice", "example.org", "zzz", "42", "notes", "body", "unique", "aab", "mamma", "0012", "abcabd", "2"}
var flagKeys = []string{"ALL", "ANSWERED", "DELETED", "DRAFT", "FLAGGED", "NEW", "OLD", "RECENT", "SEEN", "UNANSWERED", "UNDELETED", "UNDRAFT", "UNFLAGGED", "UNSEEN"}
var dates = []string{"1-Jan-2006", "2-Jan-2006", "02-Jan-2006", "3-Jan-2006", "1-Feb-2030", "26-Sep-2026", "1-Jan-1999"}

func (g gen) set(n int) string {
	e := func() string {
		if g.rng.Chance(20) {
			return "*"
		}
		return fmt.Sprint(1 + g.rng.Intn(n+2))
	}
	switch g.rng.Intn(4) {
	case 0:
		return e()
	case 1:
		return e() + ":" + e()
	case 2:
		return e() + "," + e() + ":" + e()
	}
	return e() + ":*"
}

func (g gen) simple(n int, uids []int) string {
	switch g.rng.Intn(12) {
	case 0, 1, 2:
		return g.rng.Pick(flagKeys)
	case 3:
		return g.rng.Pick([]string{"KEYWORD", "UNKEYWORD"}) + " " + g.rng.Pick([]string{"kw", "Junk", "NonJunk", "$Forwarded", "nosuch"})
	case 4:
		return g.set(n)
	case 5:
		u := 1
		if len(uids) > 0 {
			u = uids[g.rng.Intn(len(uids))]
		}
		return "UID " + g.rng.Pick([]string{fmt.Sprint(u), fmt.Sprintf("%d:*", u), fmt.Sprintf("1:%d", u), fmt.Sprintf("%d,%d", u, u+1), "*"})
	case 6:
		return g.rng.Pick([]string{"LARGER", "SMALLER"}) + " " + g.rng.Pick([]string{"0", "150", "200", "260", "400", "100000"})
	case 7:
		return g.rng.Pick([]string{"FROM", "TO", "CC", "SUBJECT", "BCC"}) + " " + g.rng.Pick(words)
	case 8:
		return g.rng.Pick([]string{"BODY", "TEXT"}) + " " + g.rng.Pick(append(words, `"two words"`, `"line of"`))
	case 9:
		return g.rng.Pick([]string{"BEFORE", "ON", "SINCE", "SENTBEFORE", "SENTON", "SENTSINCE"}) + " " + g.rng.Pick(dates)
	case 10:
		return "SUBJECT " + g.rng.Pick([]string{`"hello world"`, `"Re:"`, `""`})
	}
	return g.rng.Pick(flagKeys)
}

// key: any search key of the language, nested up to depth d
func (g gen) key(n int, uids []int, d int) string {
	if d <= 0 {
		return g.simple(n, uids)
	}
	switch g.rng.Intn(12) {
	case 0, 1:
		return "NOT " + g.key(n, uids, d-1)
	case 2, 3:
		return "OR " + g.key(n, uids, d-1) + " " + g.key(n, uids, d-1)
	case 4:
		return "HEADER " + g.rng.Pick([]string{"Subject", "X-Tag", "x-tag", "From", "Nosuch"}) + " " + g.rng.Pick(append(words, `""`, "tagged"))
	case 5, 6:
		k := 1 + g.rng.Intn(3)
		var its []string
		for j := 0; j < k; j++ {
			its = append(its, g.key(n, uids, d-1))
		}
		return "(" + strings.Join(its, " ") + ")"
	}
	return g.simple(n, uids)
}

func (g gen) item(n int, uids []int) string { return g.key(n, uids, 1+g.rng.Intn(3)) }

// outside the language: incomplete keys (an argument or a sub-key missing, also inside a group), unclosed groups, unknown words
func (g gen) unsupported(n int, uids []int) string {
	return g.rng.Pick([]string{"BOGUS", "SEEN BOGUS", "OR SEEN", "OR", "NOT", "OR FROM x", "KEYWORD", "HEADER Subject", "FROM", "LARGER", "NOT NOT", "OR OR SEEN FLAGGED", "MODSEQ 5",
		"X-GM-RAW hello", "(SEEN", "SEEN)", "(OR SEEN)", "NOT (FROM)", "OR (SEEN) (NOT)", "(SEEN (FLAGGED)", "OR SEEN NOT", "(BOGUS)", "NOT BOGUS", "(HEADER a)", "OR FLAGGED (KEYWORD)"})
}

func main() {
	o, rep := hx.Init("C19")
	hx.Quiet()
	rep.Rule = "search programs of 1..3 keys generated from the RFC 3501 search-key grammar nested to depth 3 (14 flag keys, KEYWORD/UNKEYWORD, sequence sets and UID sets with ranges, stars, comma lists and out-of-range numbers, LARGER/SMALLER, FROM/TO/CC/BCC/SUBJECT/BODY/TEXT with atoms and quoted strings, HEADER incl. the empty string, six date keys, NOT and OR over any keys, parenthesised groups) plus a stream of programs outside the language (incomplete keys, also inside groups, unclosed groups, unknown words), each as SEARCH and as UID SEARCH, against mailboxes of 0..13 messages built by APPEND / COPY / STORE / EXPUNGE histories; distinct by (mailbox, program); non-trivial when the program has a NOT, OR, set, date or substring key"
	dir, cleanup := hx.WorkDir("c19")
	defer cleanup()
	w, err := world.New(dir, "example.com")
	if err != nil {
		rep.Violate("broken-correspondence", "world", err.Error(), nil)
		rep.Finish()
	}
	defer w.Close()
	rng := hx.NewRng(o.Seed)
	g := gen{rng}
	nbox, nprog := 6, 90
	if o.Thorough {
		nbox, nprog = 60, 300
	}
	var replayProgs []string
	if o.Replay != "" {
		for _, l := range hx.ReadLines(o.Replay) {
			f := strings.Fields(l)
			if f[0] == "prog" {
				replayProgs = append(replayProgs, hx.UnH(f[1]))
			}
		}
		nbox = 3
	} else {
		for _, l := range hx.ReadLines(o.Corpus + "/progs.ops") {
			f := strings.Fields(l)
			if f[0] == "prog" {
				replayProgs = append(replayProgs, hx.UnH(f[1]))
			}
		}
	}
	for bi := 0; bi < nbox && len(rep.Violations) < 3; bi++ {
		user := fmt.Sprintf("s%d@example.com", bi)
		c := w.Login(user)
		n := []int{5, 13, 0, 1, 3, 8}[bi%6] // 13: UIDs and sequence numbers of different digit counts
		for i := 0; i < n; i++ {
			subj := subjects[rng.Intn(len(subjects))]
			extra := ""
			if rng.Chance(40) {
				extra = "X-Tag: tagged " + rng.Pick(words) + "\r\n"
			}
			if rng.Chance(30) {
				extra += "Cc: alice@example.org,\r\n bob@example.org\r\n"
			}
			if rng.Chance(35) {
				// a field name occurring more than once: the searched text may be in a later occurrence only
				extra += "X-Tag: second " + rng.Pick(words) + "\r\n"
				if rng.Bool() {
					extra += "Cc: unique@example.net\r\n"
				}
				if rng.Bool() {
					extra += "Subject: notes 42\r\n"
				}
			}
			date := rng.Pick([]string{"Mon, 02 Jan 2006 15:04:05 +0000", "Sun, 01 Jan 2006 23:59:59 -0700", "Tue, 03 Jan 2006 00:00:01 +0200", "garbage date", ""})
			dl := ""
			if date != "" {
				dl = "Date: " + date + "\r\n"
			}
			body := strings.Repeat("line of body text "+rng.Pick(words)+"\r\n", 1+rng.Intn(12))
			if rng.Chance(30) {
				body += "two words here\r\n"
			}
			m := "From: " + rng.Pick([]string{"alice@example.org", "Bob <bob@example.com>"}) + "\r\nTo: rcpt@example.com\r\nSubject: " + subj + "\r\n" + extra + dl + "\r\n" + body
			fl := ""
			for _, f := range []string{`\Seen`, `\Flagged`, `\Deleted`, `\Answered`, `\Draft`, "kw", "NonJunkX", "$Forwarded"} {
				if rng.Chance(30) {
					fl += " " + f
				}
			}
			c.Append("INBOX", strings.TrimSpace(fl), m)
		}
		c.Cmd("SELECT INBOX")
		if n > 2 {
			// UID gaps and \Recent through a copy
			c.Cmd(`STORE 2 +FLAGS.SILENT (\Deleted)`)
			if rng.Bool() {
				c.Cmd("COPY 1 INBOX")
				c.Cmd("EXPUNGE")
			}
		}
		// the message view the model needs: seq, uid, flags, internal date, sent date, reconstructed text
		c.Cmd("SELECT INBOX")
		var setup []string
		setup = append(setup, "q.reset")
		var uids []int
		N := 0
		for _, l := range c.Cmd("FETCH 1:* (UID FLAGS INTERNALDATE BODY.PEEK[])").Untagged {
			m := reFetch.FindStringSubmatch(l)
			if m == nil {
				continue
			}
			N++
			i := strings.Index(l, "}\r\n")
			head, raw := l, ""
			if i >= 0 {
				head = l[:i]
				raw = l[i+3 : len(l)-1]
			}
			u := reUID.FindStringSubmatch(head)
			f := reFlags.FindStringSubmatch(head)
			d := reIDate.FindStringSubmatch(head)
			var uid int
			fmt.Sscan(u[1], &uid)
			uids = append(uids, uid)
			fl := "."
			if f != nil && strings.TrimSpace(f[1]) != "" {
				var hs []string
				for _, x := range strings.Fields(f[1]) {
					hs = append(hs, hx.H(x))
				}
				fl = strings.Join(hs, ",")
			}
			idate := "0-0-0"
			if d != nil {
				if t, err := time.Parse("02-Jan-2006 15:04:05 -0700", d[1]); err == nil {
					idate = fmt.Sprintf("%d-%d-%d", t.Year(), int(t.Month()), t.Day())
				}
			}
			sdate := "~"
			for _, hl := range strings.Split(strings.SplitN(raw, "\r\n\r\n", 2)[0], "\r\n") {
				if strings.HasPrefix(strings.ToUpper(hl), "DATE:") {
					v := strings.TrimSpace(hl[5:])
					t, err := time.Parse(time.RFC1123Z, v)
					if err != nil {
						t, err = time.Parse(time.RFC1123, v)
					}
					if err == nil {
						sdate = fmt.Sprintf("%d-%d-%d", t.Year(), int(t.Month()), t.Day())
					}
					break
				}
			}
			setup = append(setup, fmt.Sprintf("q.msg %s %s %s %s %s %s", m[1], u[1], fl, idate, sdate, hx.H(raw)))
		}
		type q struct {
			prog     string
			uid      bool
			impl     string
			fragment bool
		}
		var qs []q
		progs := append([]string(nil), replayProgs...)
		frag := map[string]bool{}
		if o.Replay == "" {
			for i := 0; i < nprog; i++ {
				k := 1 + rng.Intn(3)
				var its []string
				for j := 0; j < k; j++ {
					its = append(its, g.item(N, uids))
				}
				p := strings.Join(its, " ")
				progs = append(progs, p)
				frag[p] = true
			}
			for i := 0; i < nprog/5; i++ {
				progs = append(progs, g.unsupported(N, uids))
			}
			progs = append(progs, "CHARSET UTF-8 SEEN", "CHARSET KOI8-R SEEN")
		}
		for _, p := range progs {
			for _, uidMode := range []bool{false, true} {
				cmd := "SEARCH " + p
				if uidMode {
					cmd = "UID SEARCH " + p
				}
				r := c.Cmd(cmd)
				ans := strings.ToLower(r.Status())
				if c.Dead || r.Err != "" {
					ans = "connection-lost"
					pn := w.TakePanics()
					rep.Violate("impl-violation", "liveness (Props.C19.never_panics)", fmt.Sprintf("%q ends the connection (%s) %v", cmd, r.Err, pn), []string{"prog " + hx.H(p)})
					c = w.Login(user)
					c.Cmd("SELECT INBOX")
				}
				if r.OK() {
					ans = "hits ."
					for _, l := range r.Untagged {
						if strings.HasPrefix(l, "* SEARCH") {
							if f := strings.Fields(l)[2:]; len(f) > 0 {
								ans = "hits " + strings.Join(f, " ")
							}
						}
					}
				} else if ans == "no" || ans == "bad" {
					ans = "bad"
				}
				qs = append(qs, q{p, uidMode, ans, frag[p]})
			}
		}
		ops := append([]string(nil), setup...)
		for _, x := range qs {
			u := "0"
			if x.uid {
				u = "1"
			}
			ops = append(ops, "q.search "+u+" "+hx.H(x.prog))
		}
		model, err := hx.RunModel(o.Driver, ops)
		if err != nil {
			rep.Violate("broken-correspondence", "driver", err.Error(), nil)
			rep.Finish()
		}
		model = model[len(setup):]
		nb := map[string]int{}
		for i, x := range qs {
			nontriv := strings.Contains(x.prog, "NOT") || strings.Contains(x.prog, "OR") || strings.ContainsAny(x.prog, ":*,") || strings.Contains(x.prog, "-20") || strings.Contains(x.prog, "BODY") || strings.Contains(x.prog, "SUBJECT")
			rep.Case(fmt.Sprintf("%d|%v|%s", bi, x.uid, x.prog), nontriv)
			cmd := "SEARCH"
			if x.uid {
				cmd = "UID SEARCH"
			}
			rep.Hit(cmd + ":" + strings.Fields(x.impl)[0])
			mparts := strings.SplitN(model[i], " | ", 2)
			if len(mparts) != 2 {
				rep.Violate("broken-correspondence", "driver", "unexpected answer "+model[i], nil)
				continue
			}
			code, spec := mparts[0], mparts[1]
			if strings.HasPrefix(x.prog, "CHARSET ") {
				// charset handling sits in front of the evaluator: US-ASCII / UTF-8 accepted, anything else an error
				if strings.Contains(x.prog, "KOI8") && x.impl != "bad" && !x.uid {
					rep.Violate("impl-violation", "charset", fmt.Sprintf("%s %s with an unsupported charset answered %q", cmd, x.prog, x.impl), []string{"prog " + hx.H(x.prog)})
				}
				continue
			}
			if x.impl == spec {
				rep.Hit("meets-spec")
				continue
			}
			what := fmt.Sprintf("mailbox %d (%d messages, UIDs %v): %s %s -> implementation %q, specification %q", bi, N, uids, cmd, x.prog, x.impl, spec)
			// The recorded gaps are exactly where the model of the code (Model/SearchImpl.search) leaves the specification
			// (searchSpec): programs outside the supported fragment that are evaluated instead of refused. They are findings only
			// when the implementation does what that model says; anything else is a new violation.
			if spec == "bad" && x.impl == code {
				if x.uid {
					nb["F1"]++
					if nb["F1"] <= 2 {
						rep.Finding("C19-F1", "UID SEARCH does not refuse programs outside the search-key language: "+what, []string{"prog " + hx.H(x.prog)})
					}
				} else {
					nb["F2"]++
					if nb["F2"] <= 2 {
						rep.Finding("C19-F2", "a bare unknown word in SEARCH is skipped instead of drawing an error: "+what, []string{"prog " + hx.H(x.prog)})
					}
				}
				continue
			}
			nb["viol"]++
			if nb["viol"] > 3 {
				continue
			}
			rep.Violate("impl-violation", "SEARCH vs Model/SearchImpl.searchSpec (Props.C19.eval_correct_fragment / impl_meets_spec_on_supported / spec_unsupported_is_error)", what, []string{"prog " + hx.H(x.prog)})
		}
		if bi == 0 && len(qs) > 4 {
			rep.Sample(fmt.Sprintf("SEARCH %s => %s", qs[0].prog, qs[0].impl))
			rep.Sample(fmt.Sprintf("UID SEARCH %s => %s", qs[3].prog, qs[3].impl))
		}
		c.Close()
	}
	rep.Finish()
}
