// C17 correspondence: the product of delivery settings x recipient classes x spam-header variants played against the
// real LMTP session; RCPT and DATA replies and the place where the message lands (store, folder) are compared with
// the Lean policy model whose RCPT decision is proved equal to the documented one.
package main

import (
	"database/sql"
	"fmt"
	"os"
	"path/filepath"
	"strconv"
	"strings"

	"raven/internal/db"
	"raven/internal/delivery/config"
	"raven/verifh/hx"
	"raven/verifh/world"
)

type cell struct {
	allowed int // 0 none, 1 [example.com mail.example.com], 2 [other.org]
	reject  bool
	class   int
	atLimit bool
	big     bool
	quota   int // 0 off, 1 on/under, 2 on/over
	spam    int
	folder  int // default_folder: 0 INBOX, 1 existing Filed, 2 not-yet-existing folder
	domCase bool
}

var classes = []struct {
	name, addr          string
	isRole, userIn, dis bool
}{
	{"existing-user", "alice@example.com", false, true, false},
	{"unknown-user", "nobody%d@example.com", false, false, false},
	{"local-part-in-other-domain", "twin%d@example.com", false, false, false},
	{"role-address", "sales@example.com", true, false, false},
	{"disabled-user", "dis@example.com", false, false, true},
	{"no-at", "noat", false, false, false},
	{"two-at", "a@b@c", false, false, false},
	{"other-domain-user", "bob@other.org", false, true, false},
	{"unlisted-sub-domain", "fresh%d@sub.example.com", false, false, false},
	{"look-alike-domain", "fresh%d@notexample.com", false, false, false},
	// unknown addresses whose local part is an SQL LIKE pattern for, or a case variant of, an existing user's (known<n>@…)
	{"like-pattern-of-a-user", "kn_wn%d@example.com", false, false, false},
	{"percent-pattern-of-a-user", "know%%%d@example.com", false, false, false},
	{"case-variant-of-a-user", "KNOWN%d@example.com", false, false, false},
}

var spamVariants = []struct {
	name   string
	hdrs   string
	rs, ss string // "~" absent
}{
	{"absent", "", "~", "~"},
	{"rspamd-reject", "X-Rspamd-Action: reject\r\n", "reject", "~"},
	{"rspamd-add-header-case", "x-rspamd-action:  Add Header \r\n", "Add Header", "~"},
	{"rspamd-rewrite", "X-RSPAMD-ACTION: rewrite subject\r\n", "rewrite subject", "~"},
	{"rspamd-no-action", "X-Rspamd-Action: no action\r\n", "no action", "~"},
	{"rspamd-greylist", "X-Rspamd-Action: greylist\r\n", "greylist", "~"},
	{"status-yes", "X-Spam-Status: Yes, score=12.1\r\n", "~", "Yes, score=12.1"},
	{"status-yes-folded", "X-Spam-Status: YES,\r\n score=12.1 required=5\r\n", "~", "YES, score=12.1 required=5"},
	{"status-no", "X-Spam-Status: No, score=0.1\r\n", "~", "No, score=0.1"},
	{"both-first-wins", "X-Rspamd-Action: no action\r\nX-Rspamd-Action: reject\r\n", "no action", "~"},
	// filtered on two hops: the field occurs twice with the same verdict
	{"rspamd-reject-twice", "X-Rspamd-Action: reject\r\nX-Rspamd-Action: reject\r\n", "reject", "~"},
	{"rspamd-add-header-twice-apart", "X-Rspamd-Action: add header\r\nX-Other: x\r\nX-Rspamd-Action: add header\r\n", "add header", "~"},
	{"status-yes-twice", "X-Spam-Status: Yes, score=8\r\nX-Spam-Status: Yes, score=9\r\n", "~", "Yes, score=8"},
	// either header alone decides: a harmless action does not overrule a positive status, nor the other way round
	{"no-action-but-status-yes", "X-Rspamd-Action: no action\r\nX-Spam-Status: Yes, score=9.0\r\n", "no action", "Yes, score=9.0"},
	{"greylist-but-status-yes", "X-Spam-Status: yes\r\nX-Rspamd-Action: greylist\r\n", "greylist", "yes"},
	{"soft-reject-but-status-yes-folded", "X-Rspamd-Action: soft reject\r\nX-Spam-Status: YES,\r\n score=7\r\n", "soft reject", "YES, score=7"},
	{"reject-but-status-no", "X-Rspamd-Action: reject\r\nX-Spam-Status: No, score=0.1\r\n", "reject", "No, score=0.1"},
	{"no-action-and-status-no", "X-Rspamd-Action: no action\r\nX-Spam-Status: No\r\n", "no action", "No"},
}

func main() {
	o, rep := hx.Init("C17")
	hx.Quiet()
	rep.Rule = "cells of the product allowed_domains{empty, hit list, miss list} x reject_unknown_user x recipient class{existing, unknown, same local part in another domain, role address, disabled, no @, two @, user of another domain, user in an unlisted sub-domain of an allowed domain, look-alike domain} x recipient count{below, at max_recipients} x size{≤, > max_size} x quota{off, on-under, on-over} x 15 spam-header variants x default_folder{INBOX, existing other, not yet existing} x domain letter case, each played as one LMTP transaction; RCPT code, DATA code and the (store, folder) that gained the message are compared with the model. Distinct by cell; non-trivial when the recipient reaches DATA"
	dir, cleanup := hx.WorkDir("c17")
	defer cleanup()
	w, err := world.New(dir, "example.com")
	if err != nil {
		rep.Violate("broken-correspondence", "world", err.Error(), nil)
		rep.Finish()
	}
	defer w.Close()
	// directory: alice@example.com, filler@example.com, bob@other.org exist; dis@example.com disabled; sales@example.com is a role
	for _, u := range []string{"alice@example.com", "filler@example.com", "fillero@other.org", "bob@other.org", "dis@example.com"} {
		c := w.Login(u)
		c.Cmd("CREATE Filed")
		c.Close()
	}
	shared := w.Mgr.GetSharedDB()
	if _, err := shared.Exec("UPDATE users SET enabled = 0 WHERE username = 'dis'"); err != nil {
		rep.Violate("broken-correspondence", "world", err.Error(), nil)
		rep.Finish()
	}
	domID, _ := db.GetOrCreateDomain(shared, "example.com")
	roleID, err := db.CreateRoleMailbox(shared, "sales@example.com", domID, "")
	if err != nil {
		rep.Violate("broken-correspondence", "world", err.Error(), nil)
		rep.Finish()
	}
	roleFileID = roleID
	aliceID, _ := db.GetUserByEmail(shared, "alice@example.com")
	db.AssignUserToRoleMailbox(shared, aliceID, roleID, aliceID)

	if v2, err := w.Reopen(); err == nil {
		view2 = v2
		defer v2.Mgr.Close()
	}
	var cells []cell
	rng := hx.NewRng(o.Seed)
	if o.Replay != "" {
		for _, l := range hx.ReadLines(o.Replay) {
			if c, ok := parseCell(l); ok {
				cells = append(cells, c)
			}
		}
	} else {
		for _, l := range hx.ReadLines(o.Corpus + "/cells.ops") {
			if c, ok := parseCell(l); ok {
				cells = append(cells, c)
			}
		}
		// every single-factor variation of a base cell, then random cells (quick) or the whole product (thorough)
		if o.Thorough {
			base := len(cells) // the corpus cells always run
			for a := 0; a < 3; a++ {
				for _, rj := range []bool{false, true} {
					for cl := range classes {
						for _, lim := range []bool{false, true} {
							for _, big := range []bool{false, true} {
								for q := 0; q < 3; q++ {
									for sp := range spamVariants {
										if q > 0 && sp != 0 && sp != (a+cl+q)%len(spamVariants) {
											continue // the quota dimension with two header variants per cell, the others with all
										}
										cells = append(cells, cell{a, rj, cl, lim, big, q, sp, rng.Intn(3), rng.Chance(20)})
									}
								}
							}
						}
					}
				}
			}
			// one world serves the whole run and every cell adds users whose stores stay open (the manager never closes a
			// store): past a couple of thousand cells a run slows down quadratically. A random 1 800 of the product per run;
			// other seeds take other cells.
			if prod := cells[base:]; len(prod) > 1800 {
				for i := len(prod) - 1; i > 0; i-- {
					j := rng.Intn(i + 1)
					prod[i], prod[j] = prod[j], prod[i]
				}
				cells = cells[:base+1800]
			}
		} else {
			for a := 0; a < 3; a++ {
				for _, rj := range []bool{false, true} {
					for cl := range classes {
						cells = append(cells, cell{a, rj, cl, false, false, 0, 0, 0, false})
						cells = append(cells, cell{a, rj, cl, false, false, 0, 0, 0, true})
					}
				}
			}
			for sp := range spamVariants {
				for f := 0; f < 3; f++ {
					cells = append(cells, cell{0, false, 0, false, false, 0, sp, f, false})
					cells = append(cells, cell{0, false, 3, false, false, 0, sp, f, false})
				}
			}
			for i := 0; i < 250; i++ {
				cells = append(cells, cell{rng.Intn(3), rng.Bool(), rng.Intn(len(classes)), rng.Chance(25), rng.Chance(20), rng.Intn(3), rng.Intn(len(spamVariants)), rng.Intn(3), rng.Chance(20)})
			}
		}
	}
	for i, c := range cells {
		play(rep, w, o, c, i)
		if len(rep.Violations) >= 3 {
			break
		}
	}
	if o.Replay == "" {
		quotaProbe(rep, w, o.Driver)
		writtenProbe(rep, w, o.Driver, dir)
		sizeProbe(rep, w, o.Driver)
	}
	rep.Finish()
}

func (c cell) line() string {
	b := func(x bool) int {
		if x {
			return 1
		}
		return 0
	}
	return fmt.Sprintf("cell %d %d %d %d %d %d %d %d %d", c.allowed, b(c.reject), c.class, b(c.atLimit), b(c.big), c.quota, c.spam, c.folder, b(c.domCase))
}
func parseCell(l string) (cell, bool) {
	f := strings.Fields(l)
	if len(f) != 10 || f[0] != "cell" {
		return cell{}, false
	}
	n := make([]int, 9)
	for i := range n {
		n[i], _ = strconv.Atoi(f[i+1])
	}
	return cell{n[0], n[1] == 1, n[2], n[3] == 1, n[4] == 1, n[5], n[6], n[7], n[8] == 1}, true
}

var seq int

// view2: a second database manager / IMAP server on the same directory
var view2 *world.World

// roleFileID: the id of the role mailbox sales@example.com (its store is data/role_db_<id>.db)
var roleFileID int64

func play(rep *hx.Report, w *world.World, o *hx.Opts, c cell, idx int) {
	seq++
	cl := classes[c.class]
	addr := cl.addr
	if strings.Contains(addr, "%d") {
		addr = fmt.Sprintf(addr, seq)
	}
	if strings.HasSuffix(cl.name, "-of-a-user") {
		// the user the pattern would match exists, in the same domain
		w.Login(fmt.Sprintf("known%d@example.com", seq)).Close()
	}
	if cl.name == "local-part-in-other-domain" {
		// the same local part exists, but in another domain
		w.Login(fmt.Sprintf("twin%d@other.org", seq)).Close()
	}
	if c.domCase && strings.Contains(addr, "@example.com") {
		// domains are case-insensitive; only the address's spelling on the wire changes
		addr = strings.Replace(addr, "@example.com", "@Example.COM", 1)
	}
	cfg := config.DefaultConfig()
	cfg.LMTP.Timeout = 3
	cfg.LMTP.MaxRecipients = 3
	cfg.LMTP.MaxSize = 600
	cfg.Delivery.RejectUnknownUser = c.reject
	cfg.Delivery.AllowedDomains = [][]string{{}, {"example.com", "mail.example.com"}, {"other.org"}}[c.allowed]
	folder := []string{"INBOX", "Filed", fmt.Sprintf("New%d", seq)}[c.folder]
	cfg.Delivery.DefaultFolder = folder
	if c.quota > 0 {
		cfg.Delivery.QuotaEnabled = true
		cfg.Delivery.QuotaLimit = 1 << 30
		if c.quota == 2 {
			cfg.Delivery.QuotaLimit = 10 // less than any message: whatever the store holds, the recipient is over quota
		}
	}
	token := fmt.Sprintf("c17tok%d", seq)
	sv := spamVariants[c.spam]
	msg := "From: s@example.org\r\nTo: r@example.com\r\n" + sv.hdrs + "Subject: " + token + "\r\n\r\nbody\r\n"
	if c.big {
		msg += strings.Repeat("0123456789012345678901234567890123456789\r\n", 16)
	}
	fillers := 0
	if c.atLimit {
		fillers = 3
	}
	var sb strings.Builder
	sb.WriteString("LHLO c\r\nMAIL FROM:<s@example.org>\r\n")
	fillerAddr := "filler@example.com"
	if c.allowed == 2 {
		fillerAddr = "fillero@other.org" // the fillers must pass the cell's own policy
	}
	for i := 0; i < fillers; i++ {
		sb.WriteString("RCPT TO:<" + fillerAddr + ">\r\n")
	}
	sb.WriteString("RCPT TO:<" + addr + ">\r\n")
	sb.WriteString("DATA\r\n" + msg + ".\r\nQUIT\r\n")
	out := w.LMTPCfg(cfg, sb.String())
	lines := strings.Split(strings.TrimRight(out, "\r\n"), "\r\n")
	// greeting, 5 LHLO, MAIL, fillers, target, DATA(354|503), replies, 221
	code := func(i int) string {
		if i < len(lines) && len(lines[i]) >= 3 {
			return lines[i][:3]
		}
		return "---"
	}
	rcptCode := code(7 + fillers)
	// model: RCPT decision
	b := func(x bool) string {
		if x {
			return "1"
		}
		return "0"
	}
	al := "."
	if len(cfg.Delivery.AllowedDomains) > 0 {
		var hs []string
		for _, d := range cfg.Delivery.AllowedDomains {
			hs = append(hs, hx.H(d))
		}
		al = strings.Join(hs, ",")
	}
	q := []string{fmt.Sprintf("p.rcpt %s %s 3 %d %s %s %s", al, b(c.reject), fillers, hx.H(addr), b(cl.isRole), b(cl.userIn)),
		fmt.Sprintf("p.folder %s %s %s", hx.H(folder), optH(sv.rs), optH(sv.ss)),
		fmt.Sprintf("p.owner %s %s %s", hx.H(addr), b(cl.isRole), b(cl.dis)), // as written on the wire: the model puts the domain in lower case, like parseRcptTo
		fmt.Sprintf("p.size 600 %d", len(msg)),
		fmt.Sprintf("p.quota %s %d 0 %d", b(cfg.Delivery.QuotaEnabled), cfg.Delivery.QuotaLimit, len(msg))}
	m, err := hx.RunModel(o.Driver, q)
	if err != nil {
		rep.Violate("broken-correspondence", "driver", err.Error(), nil)
		return
	}
	wantRcpt, wantFolder, wantOwner, sizeOk := m[0], hx.UnH(m[1]), m[2], m[3] == "true"
	quotaOK := m[4] == "true" || strings.HasPrefix(wantOwner, "role:") // role mailboxes have no quota
	desc := fmt.Sprintf("allowed_domains=%v reject_unknown_user=%v recipient=%s(%s) recipients-before=%d size=%d quota=%d spam=%s default_folder=%s", cfg.Delivery.AllowedDomains, c.reject, addr, cl.name, fillers, len(msg), c.quota, sv.name, folder)
	rep.Case(c.line(), wantRcpt == "250")
	rep.Hit("class:" + cl.name)
	rep.Hit("rcpt:" + rcptCode)
	viol := func(what string) {
		rep.Violate("impl-violation", "policy vs Model/Policy (Props.C17.rcpt_policy_matches_docs / filing_exact)", desc+": "+what, []string{c.line()})
	}
	if rcptCode != wantRcpt {
		viol(fmt.Sprintf("RCPT answered %s, the documented policy says %s", rcptCode, wantRcpt))
		return
	}
	if wantRcpt != "250" {
		// refused at RCPT: nothing may be filed anywhere for this token
		if where := find(w, token, folder); len(where) > 0 && fillers == 0 {
			viol(fmt.Sprintf("recipient refused at RCPT but the message was filed in %v", where))
		}
		return
	}
	dataCode := code(9 + fillers + fillers) // 354 at 8+fillers; replies follow: fillers first, then the target
	_ = dataCode
	// replies after the dot: one per accepted recipient; the target is the last
	var after []string
	for i := 9 + fillers; i < len(lines); i++ {
		if strings.HasPrefix(lines[i], "221") {
			break
		}
		after = append(after, code(i))
	}
	if len(after) != fillers+1 {
		viol(fmt.Sprintf("%d replies after the terminating dot for %d accepted recipients: %v", len(after), fillers+1, after))
		return
	}
	got := after[len(after)-1]
	wantData := "250"
	if !sizeOk {
		wantData = "554"
	} else if wantOwner == "none" {
		wantData = "550"
	} else if !quotaOK {
		wantData = "552"
	}
	rep.Hit("data:" + got)
	if wantOwner == "none" && !quotaOK && (got == "550" || got == "552") {
		// no store can be found for the address and the quota is exceeded: refused either way; which of the two refusals is
		// reported first is not documented
		got = wantData
	}
	if got != wantData {
		viol(fmt.Sprintf("reply after DATA is %s, expected %s", got, wantData))
		return
	}
	where := find(w, token, folder)
	if wantData != "250" {
		if len(where) > 0 {
			viol(fmt.Sprintf("message refused (%s) but filed in %v", got, where))
		}
		return
	}
	place := ""
	if strings.HasPrefix(wantOwner, "role:") {
		place = "role:" + hx.UnH(wantOwner[5:]) + "/" + wantFolder
	} else {
		p := strings.SplitN(wantOwner[5:], "@", 2)
		place = "user:" + hx.UnH(p[0]) + "@" + hx.UnH(p[1]) + "/" + wantFolder
	}
	if len(where) != 1 || where[0] != place {
		viol(fmt.Sprintf("accepted message should be filed in exactly %s, found in %v", place, where))
	}
	// the same through a second database manager on the directory (what another service process, or this one after a
	// restart, sees): a message filed through a wrong handle looks right only from inside the manager that holds it
	if view2 != nil && (strings.HasPrefix(wantOwner, "role:") || idx%4 == 0) {
		if where2 := find(view2, token, folder); strings.Join(where2, ",") != strings.Join(where, ",") {
			viol(fmt.Sprintf("accepted message is filed in %v as this process sees it, but a second database manager on the same directory finds it in %v", where, where2))
		}
		rep.Hit("second-view")
	}
	// and on disk: the message rows are in the file of exactly that store (a manager that hands out a wrong handle is
	// consistent with itself, and so is every manager that opens its stores in the same order)
	if strings.HasPrefix(wantOwner, "role:") {
		files, _ := filepath.Glob(w.Dir + "/data/*_db_*.db")
		var holding []string
		for _, f := range files {
			d, err := sql.Open("sqlite3", "file:"+f+"?mode=ro")
			if err != nil {
				continue
			}
			var n int
			d.QueryRow("SELECT COUNT(*) FROM message_headers WHERE header_name = 'Subject' AND header_value = ?", token).Scan(&n)
			d.Close()
			if n > 0 {
				holding = append(holding, filepath.Base(f))
			}
		}
		want := fmt.Sprintf("role_db_%d.db", roleFileID)
		if len(holding) != 1 || holding[0] != want {
			viol(fmt.Sprintf("mail for the role address is accepted and its rows are in %v; the role's own store is %s", holding, want))
		}
		rep.Hit("on-disk")
	}
	rep.Hit("filed:" + wantFolder)
}

func optH(s string) string {
	if s == "~" {
		return "~"
	}
	return hx.H(s)
}

var reCount = strings.NewReplacer()

// find looks for the message with the token in every store and folder a delivery of this harness could reach.
func find(w *world.World, token, folder string) []string {
	var out []string
	users := []string{"alice@example.com", "bob@other.org", "dis@example.com", "filler@example.com", "a@b", "a@c"}
	if strings.Contains(token, "tok") {
		users = append(users, fmt.Sprintf("nobody%s@example.com", strings.TrimPrefix(token, "c17tok")))
		users = append(users, fmt.Sprintf("fresh%s@sub.example.com", strings.TrimPrefix(token, "c17tok")), fmt.Sprintf("fresh%s@notexample.com", strings.TrimPrefix(token, "c17tok")))
		users = append(users, fmt.Sprintf("twin%s@example.com", strings.TrimPrefix(token, "c17tok")), fmt.Sprintf("twin%s@other.org", strings.TrimPrefix(token, "c17tok")))
		k := strings.TrimPrefix(token, "c17tok")
		users = append(users, "known"+k+"@example.com", "kn_wn"+k+"@example.com", "know%"+k+"@example.com", "KNOWN"+k+"@example.com")
	}
	folders := []string{"INBOX", "Spam", "Filed"}
	if folder != "INBOX" && folder != "Filed" {
		folders = append(folders, folder)
	}
	has := func(c *world.Client, box string) bool {
		if !c.Cmd("EXAMINE " + box).OK() {
			return false
		}
		// FETCH, not SEARCH: it is the plainest way to read every message's Subject in user and role stores alike
		for _, l := range c.Cmd("FETCH 1:* (BODY.PEEK[HEADER.FIELDS (SUBJECT)])").Untagged {
			if strings.Contains(l, "Subject: "+token+"\r\n") {
				return true
			}
		}
		return false
	}
	for _, u := range users {
		if !userExists(w, u) {
			continue
		}
		c := w.Login(u)
		for _, f := range folders {
			if has(c, f) {
				if u == "filler@example.com" {
					continue // the filler recipients legitimately receive their own copy
				}
				out = append(out, "user:"+u+"/"+f)
			}
		}
		if u == "alice@example.com" {
			for _, f := range folders {
				if has(c, "Roles/sales@example.com/"+f) {
					out = append(out, "role:sales@example.com/"+f)
				}
			}
		}
		c.Close()
	}
	return out
}

func userExists(w *world.World, email string) bool {
	p := strings.SplitN(email, "@", 2)
	var n int
	w.Mgr.GetSharedDB().QueryRow("SELECT COUNT(*) FROM users u JOIN domains d ON d.id = u.domain_id WHERE u.username = ? AND d.domain = ?", p[0], p[1]).Scan(&n)
	return n > 0
}

// quotaProbe: the boundary of the quota rule on the store of exactly that address — what the store holds plus the message
// equal to the limit is accepted, one octet less of limit is refused with 552 and nothing is filed; a user with the same
// local part in another domain is judged on its own store
func quotaProbe(rep *hx.Report, w *world.World, driver string) {
	mk := func(tok string, n int) string {
		return "From: s@example.org\r\nTo: r@example.com\r\nSubject: " + tok + "\r\n\r\n" + strings.Repeat("x", n) + "\r\n"
	}
	deliver := func(limit int64, to, msg string) string {
		cfg := config.DefaultConfig()
		cfg.LMTP.Timeout = 3
		cfg.Delivery.QuotaEnabled = true
		cfg.Delivery.QuotaLimit = limit
		out := w.LMTPCfg(cfg, "LHLO c\r\nMAIL FROM:<s@example.org>\r\nRCPT TO:<"+to+">\r\nDATA\r\n"+msg+".\r\nQUIT\r\n")
		lines := strings.Split(strings.TrimRight(out, "\r\n"), "\r\n")
		if len(lines) >= 10 && len(lines[9]) >= 3 {
			return lines[9][:3]
		}
		return "---"
	}
	user, twin := "quotab@example.com", "quotab@other.org"
	m1, m2, m3 := mk("q1", 100), mk("q2", 50), mk("q3", 20)
	type st struct {
		what        string
		limit       int64
		to, msg     string
		usage, size int
	}
	steps := []st{
		{"first message, limit = its size", int64(len(m1)), user, m1, 0, len(m1)},
		{"second message, limit = held + size", int64(len(m1) + len(m2)), user, m2, len(m1), len(m2)},
		{"third message, limit one octet short", int64(len(m1) + len(m2) + len(m3) - 1), user, m3, len(m1) + len(m2), len(m3)},
		{"same local part in another domain, judged on its own (empty) store", int64(len(m1) + len(m2) + len(m3) - 1), twin, m3, 0, len(m3)},
	}
	var ops []string
	var got []string
	for _, x := range steps {
		rep.Case("quota-boundary|"+x.what, true)
		got = append(got, deliver(x.limit, x.to, x.msg))
		ops = append(ops, fmt.Sprintf("p.quota 1 %d %d %d", x.limit, x.usage, x.size))
	}
	m, err := hx.RunModel(driver, ops)
	if err != nil {
		rep.Violate("broken-correspondence", "driver", err.Error(), nil)
		return
	}
	for i, x := range steps {
		want := "552"
		if m[i] == "true" {
			want = "250"
		}
		if got[i] != want {
			rep.Violate("impl-violation", "quota (Props.C17.quota_enforced)", fmt.Sprintf("%s: quota_limit %d, the store of %s holds %d octets, the message has %d: answered %s, the documented rule says %s", x.what, x.limit, x.to, x.usage, x.size, got[i], want), []string{"probe quota"})
		}
	}
	rep.Hit("probe:quota-boundary")
}

// writtenProbe: the configuration as an operator writes it — a YAML file read by config.LoadConfig, the way cmd/delivery starts —
// decides as the same values set in code do: for domain lists in the spellings a file can hold (flow and block lists, quoted
// entries, single-label and underscore host names, an A-label, many labels) one recipient inside and one outside the list.
func writtenProbe(rep *hx.Report, w *world.World, driver, dir string) {
	lists := []struct {
		yaml  string
		items []string
	}{
		{"[example.com]", []string{"example.com"}},
		{"[localhost]", []string{"localhost"}},
		{"\n    - intra_net.example\n    - \"mailhost\"", []string{"intra_net.example", "mailhost"}},
		{"['xn--bcher-kva.example', a.b.c.d.example.com]", []string{"xn--bcher-kva.example", "a.b.c.d.example.com"}},
		{"[localhost, example.com]", []string{"localhost", "example.com"}},
		{"[corp, 10.example]", []string{"corp", "10.example"}},
	}
	for li, l := range lists {
		for _, reject := range []bool{false, true} {
			path := fmt.Sprintf("%s/written-%d-%v.yaml", dir, li, reject)
			text := fmt.Sprintf("lmtp:\n  tcp_address: \"127.0.0.1:0\"\n  max_size: 600\n  timeout: 3\n  max_recipients: 3\ndatabase:\n  path: %q\ndelivery:\n  default_folder: INBOX\n  reject_unknown_user: %v\n  allowed_domains: %s\n", dir, reject, l.yaml)
			if err := os.WriteFile(path, []byte(text), 0o600); err != nil {
				continue
			}
			cfg, err := config.LoadConfig(path)
			if err != nil {
				rep.Violate("impl-violation", "policy vs Model/Policy (Props.C17.rcpt_policy_matches_docs): configuration file", fmt.Sprintf("the configuration %q is refused: %v", text, err), []string{"written " + hx.H(text)})
				return
			}
			var hs []string
			for _, d := range l.items {
				hs = append(hs, hx.H(d))
			}
			addrs := []string{"mallory@elsewhere.org", "mallory@sub." + l.items[0]}
			for _, d := range l.items {
				addrs = append(addrs, fmt.Sprintf("w%d@%s", li, d))
			}
			for _, addr := range addrs {
				out := w.LMTPCfg(cfg, "LHLO c\r\nMAIL FROM:<s@example.org>\r\nRCPT TO:<"+addr+">\r\nQUIT\r\n")
				lines := strings.Split(strings.TrimRight(out, "\r\n"), "\r\n")
				got := "---"
				if len(lines) > 7 && len(lines[7]) >= 3 {
					got = lines[7][:3]
				}
				in := "0"
				if userExists(w, addr) {
					in = "1"
				}
				m, err := hx.RunModel(driver, []string{fmt.Sprintf("p.rcpt %s %s 3 0 %s 0 %s", strings.Join(hs, ","), map[bool]string{false: "0", true: "1"}[reject], hx.H(addr), in)})
				if err != nil {
					rep.Violate("broken-correspondence", "driver", err.Error(), nil)
					return
				}
				rep.Case(fmt.Sprintf("written|%d|%v|%s", li, reject, addr), m[0] == "250")
				rep.Hit("written-config:rcpt:" + got)
				if got != m[0] {
					rep.Violate("impl-violation", "policy vs Model/Policy (Props.C17.rcpt_policy_matches_docs): configuration file", fmt.Sprintf("configuration file with allowed_domains: %s reject_unknown_user: %v (loaded as %v): RCPT TO:<%s> answered %s, the documented policy says %s", strings.TrimSpace(l.yaml), reject, cfg.Delivery.AllowedDomains, addr, got, m[0]), []string{"written " + hx.H(text), "rcpt " + hx.H(addr)})
					return
				}
			}
		}
	}
}

// sizeProbe: max_size bounds the message, not its transfer: a message of exactly max_size octets is accepted and filed, one
// octet more is refused — also when many of its lines begin with a dot, which a conforming client doubles on the wire.
func sizeProbe(rep *hx.Report, w *world.World, driver string) {
	const max = 900
	w.Login("size17@example.com").Close()
	for k, dots := range []int{0, 1, 5, 40} {
		for _, d := range []int{-1, 0, 1, 6} {
			tok := fmt.Sprintf("c17size%dx%d", k, d+1)
			head := "From: s@example.org\r\nTo: size17@example.com\r\nSubject: " + tok + "\r\n\r\n"
			body := strings.Repeat(".a line that begins with a dot\r\n", dots)
			want := max + d
			if len(head)+len(body)+2 > want {
				continue
			}
			msg := head + body + strings.Repeat("x", want-len(head)-len(body)-2) + "\r\n"
			cfg := config.DefaultConfig()
			cfg.LMTP.Timeout = 3
			cfg.LMTP.MaxSize = max
			out := w.LMTPCfg(cfg, "LHLO c\r\nMAIL FROM:<s@example.org>\r\nRCPT TO:<size17@example.com>\r\nDATA\r\n"+world.DotStuff(msg)+".\r\nQUIT\r\n")
			lines := strings.Split(strings.TrimRight(out, "\r\n"), "\r\n")
			got := "---"
			if len(lines) >= 10 && len(lines[9]) >= 3 {
				got = lines[9][:3]
			}
			m, err := hx.RunModel(driver, []string{fmt.Sprintf("p.size %d %d", max, len(msg))})
			if err != nil {
				rep.Violate("broken-correspondence", "driver", err.Error(), nil)
				return
			}
			rep.Case(fmt.Sprintf("size|%d|%d", dots, d), true)
			accepted := strings.HasPrefix(got, "2")
			if accepted != (m[0] == "true") {
				rep.Violate("impl-violation", "policy vs Model/Policy (Props.C17.size_limit)", fmt.Sprintf("max_size %d, a message of %d octets of which %d lines begin with a dot (doubled on the wire): the reply after the dot is %s, the documented rule (size ≤ max_size) says accepted=%s", max, len(msg), dots, got, m[0]), []string{"size " + tok})
				return
			}
			c := w.Login("size17@example.com")
			c.Cmd("EXAMINE INBOX")
			filed := false
			for _, l := range c.Cmd("SEARCH SUBJECT " + tok).Untagged {
				filed = filed || len(strings.Fields(l)) > 2
			}
			c.Close()
			if accepted != filed {
				rep.Violate("impl-violation", "policy vs Model/Policy (Props.C17.size_limit / filing_exact)", fmt.Sprintf("max_size %d, message %s of %d octets: reply %s, filed: %v", max, tok, len(msg), got, filed), []string{"size " + tok})
				return
			}
			rep.Hit("size-probe:" + got)
		}
	}
}
