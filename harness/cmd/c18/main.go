// C18 correspondence: utils.MatchWildcard / BuildCanonicalPattern / FilterMailboxes and LIST/LSUB over the
// wire against the Lean model (whose matcher is proved equal to the RFC 3501 relation), plus a time budget
// per match on adversarial patterns (the model's cost theorem says (|p|+1)(|n|+1) cells).
package main

import (
	"fmt"
	"sort"
	"strings"
	"time"

	"raven/internal/db"
	"raven/internal/server/utils"
	"raven/verifh/hx"
	"raven/verifh/world"
)

var alphabet = []string{"a", "B", "/", "*", "%"}

func words(maxLen int, alpha []string) []string {
	out := []string{""}
	prev := []string{""}
	for l := 1; l <= maxLen; l++ {
		var cur []string
		for _, p := range prev {
			for _, a := range alpha {
				cur = append(cur, p+a)
			}
		}
		out = append(out, cur...)
		prev = cur
	}
	return out
}

func main() {
	o, rep := hx.Init("C18")
	hx.Quiet()
	rng := hx.NewRng(o.Seed)
	rep.Rule = "exhaustive (name, pattern) over {a,B,/,*,%} up to a length bound + INBOX case variants + random (reference, pattern, name-list) triples; a case is non-trivial when the pattern contains a wildcard and distinct by its (op,args) line; adversarial patterns are timed against a per-match budget; LIST/LSUB replies over the wire are compared as sets with the model's filter"

	var ops, impl []string
	add := func(op, res string, nontrivial bool) {
		ops = append(ops, op)
		impl = append(impl, res)
		rep.Case(op, nontrivial)
	}
	b := func(v bool) string {
		if v {
			return "true"
		}
		return "false"
	}

	// corpus / replay first
	var fixed []string
	if o.Replay != "" {
		fixed = hx.ReadLines(o.Replay)
	} else if o.Corpus != "" {
		fixed = hx.ReadLines(o.Corpus + "/cases.ops")
	}
	for _, l := range fixed {
		f := strings.Fields(l)
		switch {
		case len(f) == 3 && f[0] == "wmatch":
			add(l, b(utils.MatchWildcard(hx.UnH(f[1]), hx.UnH(f[2]), "/")), true)
		case len(f) == 3 && f[0] == "canon":
			add(l, hx.H(utils.BuildCanonicalPattern(hx.UnH(f[1]), hx.UnH(f[2]), "/")), true)
		case len(f) >= 3 && f[0] == "filter":
			var names []string
			for _, n := range f[3:] {
				if n != "." {
					names = append(names, hx.UnH(n))
				}
			}
			add(l, hx.HList(utils.FilterMailboxes(names, hx.UnH(f[1]), hx.UnH(f[2]))), true)
		}
		rep.Hit("corpus")
	}

	if o.Replay == "" {
		// 1. exhaustive matcher table
		nl, pl := 4, 4
		if o.Thorough {
			nl, pl = 6, 5
		}
		names := words(nl, []string{"a", "B", "/"})
		pats := words(pl, alphabet)
		for _, p := range pats {
			wild := strings.ContainsAny(p, "*%")
			for _, n := range names {
				add("wmatch "+hx.H(n)+" "+hx.H(p), b(utils.MatchWildcard(n, p, "/")), wild)
			}
		}
		rep.Hit("exhaustive-pairs")
		rep.Distribution["exhaustive-pairs"] = len(names) * len(pats)
		// INBOX variants
		inb := []string{"INBOX", "inbox", "InBox", "INBOXX", "INBO", "inbox/a", "Inbox/a", "a/INBOX"}
		ipat := []string{"INBOX", "inbox", "Inbox", "*", "%", "I*", "i*", "inb%", "INB%", "%X", "%x", "*/a", "inbox/*", "INBOX/%", "*box", "*BOX"}
		for _, n := range inb {
			for _, p := range ipat {
				add("wmatch "+hx.H(n)+" "+hx.H(p), b(utils.MatchWildcard(n, p, "/")), true)
				rep.Hit("inbox-variants")
			}
		}
		// 2. canonical pattern, exhaustive small
		refs := words(3, []string{"a", "/", "%"})
		for _, r := range refs {
			for _, p := range words(2, []string{"a", "/", "*"}) {
				add("canon "+hx.H(r)+" "+hx.H(p), hx.H(utils.BuildCanonicalPattern(r, p, "/")), r != "" && p != "")
				rep.Hit("canonical")
			}
		}
		// 3. FilterMailboxes on random lists
		nf := 1500
		if o.Thorough {
			nf = 40000
		}
		pool := append(words(3, []string{"a", "B", "/"}), "INBOX", "inbox", "Inbox", "INBOX/a", "a/INBOX", "Sent", "Drafts")
		for i := 0; i < nf; i++ {
			k := rng.Intn(6)
			var list []string
			for j := 0; j < k; j++ {
				n := rng.Pick(pool)
				if n != "" {
					list = append(list, n)
				}
			}
			ref := rng.Pick([]string{"", "", "a", "a/", "/", "B/", "i", "IN"})
			pat := rng.Pick(append(ipat, rng.Pick(pats), rng.Pick(pats)))
			if pat == "" {
				pat = "*"
			}
			add("filter "+hx.H(ref)+" "+hx.H(pat)+" "+hx.HList(list), hx.HList(utils.FilterMailboxes(list, ref, pat)), len(list) > 0)
			rep.Hit("filter-random")
		}
	}

	model, err := hx.RunModel(o.Driver, ops)
	if err != nil {
		rep.Violate("broken-correspondence", "driver", err.Error(), nil)
		rep.Finish()
	}
	rep.DiffOracle("pattern.go vs Model/ListMatch", "Props.C18.match_iff_rfc/filter_exact", ops, impl, model)
	for i := 0; i < len(ops) && i < 4; i++ {
		rep.Sample(ops[len(ops)*i/4] + " => " + impl[len(ops)*i/4])
	}

	if o.Replay == "" {
		timing(o, rep)
		wire(o, rep, rng)
		wireRoles(o, rep)
	}
	rep.Finish()
}

// timing: the model proves the table-driven matcher writes (|p|+1)(|n|+1) cells; the implementation gets a
// generous wall-clock budget per match that a polynomial matcher meets by orders of magnitude.
func timing(o *hx.Opts, rep *hx.Report) {
	ks := []int{8, 12, 16, 24, 40}
	if o.Thorough {
		ks = append(ks, 60, 100)
	}
	budget := 200 * time.Millisecond
	for _, k := range ks {
		for _, fam := range []struct{ name, unit, tail, text string }{
			{"star-a", "*a", "b", "a"}, {"pct-a", "%a", "b", "a"}, {"mixed", "*a%", "/b", "a"}, {"star-star", "**", "b", "a"},
		} {
			p := strings.Repeat(fam.unit, k) + fam.tail
			n := strings.Repeat(fam.text, 2*k)
			if len(p) > 200 {
				p = p[:200]
			}
			done := make(chan bool, 1)
			t0 := time.Now()
			go func() {
				r := utils.MatchWildcard(n, p, "/")
				// the same pattern one level down, through the entry LIST uses (reference + pattern -> canonical pattern ->
				// match of every name): patterns with a hierarchy level must cost no more
				utils.FilterMailboxes([]string{"x/" + n, "x/y/" + n}, "", "x/"+p)
				utils.FilterMailboxes([]string{"x/" + n}, "x/", p)
				utils.FilterMailboxes([]string{"x/" + n + "/" + n}, "x", "%/"+p)
				done <- r
			}()
			select {
			case <-done:
				el := time.Since(t0)
				rep.Case("time "+fam.name+" "+fmt.Sprint(k), true)
				rep.Hit("adversarial-timed")
				if el > budget {
					rep.Violate("impl-violation", "cost", fmt.Sprintf("match of %q (k=%d) against %d octets took %v, budget %v", fam.unit+"^k"+fam.tail, k, len(n), el, budget),
						[]string{"wmatch " + hx.H(n) + " " + hx.H(p)})
					return
				}
			case <-time.After(4 * time.Second):
				rep.Case("time "+fam.name+" "+fmt.Sprint(k), true)
				rep.Violate("impl-violation", "cost", fmt.Sprintf("match of %q (k=%d) against %d octets did not finish within 4s (super-polynomial backtracking)", fam.unit+"^k"+fam.tail, k, len(n)),
					[]string{"wmatch " + hx.H(n) + " " + hx.H(p)})
				return
			}
		}
	}
}

// wire: LIST and LSUB of the real server against the model's filter over the mailbox / subscription set.
func wire(o *hx.Opts, rep *hx.Report, rng *hx.Rng) {
	dir, cleanup := hx.WorkDir("c18")
	defer cleanup()
	w, err := world.New(dir, "example.com")
	if err != nil {
		rep.Violate("broken-correspondence", "world", err.Error(), nil)
		return
	}
	defer w.Close()
	c := w.Login("alice@example.com")
	defer c.Close()
	boxes := []string{"INBOX", "Sent", "Drafts", "Trash", "Spam"}
	for _, n := range []string{"a", "a/b", "a/b/c", "B", "Ba", "aB/a", "x/y", "w/p/q/r"} {
		if c.Cmd("CREATE " + n).OK() {
			boxes = append(boxes, n)
		}
	}
	// parents are created implicitly: read the real set back once through LIST "" "*" and check it is a superset
	have := map[string]bool{}
	for _, l := range c.Cmd(`LIST "" "*"`).Untagged {
		have[listName(l)] = true
	}
	for _, n := range boxes {
		if !have[n] {
			rep.Violate("impl-violation", "wire", "LIST \"\" \"*\" does not show created mailbox "+n, []string{"LIST * after CREATE " + n})
		}
	}
	var all []string
	for n := range have {
		all = append(all, n)
	}
	sort.Strings(all)
	// "w" and "w/p/q/r" are subscribed, the two levels between them are not: implied parents below a subscribed ancestor
	subs := []string{"INBOX", "a/b/c", "B", "x/y", "aB/a", "w", "w/p/q/r"}
	for _, s := range subs {
		c.Cmd("SUBSCRIBE " + s)
	}
	shown := append([]string(nil), subs...)
	isSub := map[string]bool{}
	for _, s := range subs {
		isSub[s] = true
	}
	for _, s := range subs {
		parts := strings.Split(s, "/")
		for i := 1; i < len(parts); i++ {
			if anc := strings.Join(parts[:i], "/"); !isSub[anc] {
				isSub[anc] = true
				shown = append(shown, anc)
			}
		}
	}
	pats := []string{"*", "%", "a*", "a/%", "a/*", "%/%", "*/c", "inbox", "INB*", "i%", "B%", "%a", "x/%", "*y", "%/b/%", "S*", "s*"}
	refs := []string{"", "a", "a/", "x", "x/", "a/b/"}
	n := 40
	if o.Thorough {
		n = len(pats) * len(refs)
	}
	var ops, impl []string
	fixed := [][2]string{{"", "w/%"}, {"w/p/", "%"}, {"w", "%/%"}, {"", "%/%/%"}, {"w/", "%"}, {"", "w/%/%"}, {"w/", "*"}, {"", "%/%/%/%"}, {"a/", "%"}, {"", "a/%/%"}}
	pats = append(pats, "w/%", "%/%/%", "w/*")
	refs = append(refs, "w/", "w/p/")
	n += len(fixed)
	if o.Thorough {
		n = len(pats)*len(refs) + len(fixed)
	}
	for i := 0; i < n; i++ {
		var p, r string
		switch {
		case i < len(fixed):
			r, p = fixed[i][0], fixed[i][1]
		case o.Thorough:
			j := i - len(fixed)
			p, r = pats[j%len(pats)], refs[(j/len(pats))%len(refs)]
		default:
			p, r = rng.Pick(pats), rng.Pick(refs)
		}
		resp := c.Cmd(fmt.Sprintf("LIST %q %q", r, p))
		var got []string
		for _, l := range resp.Untagged {
			got = append(got, listName(l))
		}
		sort.Strings(got)
		ops = append(ops, "filter "+hx.H(r)+" "+hx.H(p)+" "+hx.HList(all))
		impl = append(impl, "set:"+strings.Join(got, ","))
		rep.Case("LIST "+r+" "+p, true)
		rep.Hit("wire-LIST")
		// LSUB: subscribed matches (implied \Noselect parents excluded from the comparison)
		resp = c.Cmd(fmt.Sprintf("LSUB %q %q", r, p))
		got = nil
		for _, l := range resp.Untagged {
			got = append(got, listName(l))
		}
		sort.Strings(got)
		// subscribed names and the implied (\Noselect) parents of subscribed names, all matched against reference + pattern
		// (RFC 3501 6.3.9: the \Noselect parents are for patterns with %; a * reaches the subscribed children themselves)
		// the model's LSUB (Model/Lsub.shown: FilterMailboxes over the subscriptions plus the implied parents of Props.C18.lsub_implied_exact)
		_ = shown
		ops = append(ops, "lsub "+hx.H(r)+" "+hx.H(p)+" "+hx.HList(subs))
		impl = append(impl, "set:"+strings.Join(got, ","))
		rep.Case("LSUB "+r+" "+p, true)
		rep.Hit("wire-LSUB")
	}
	model, err := hx.RunModel(o.Driver, ops)
	if err != nil {
		rep.Violate("broken-correspondence", "driver", err.Error(), nil)
		return
	}
	for i := range model {
		var names []string
		if model[i] != "." {
			for _, h := range strings.Fields(model[i]) {
				names = append(names, hx.UnH(h))
			}
		}
		sort.Strings(names)
		model[i] = "set:" + strings.Join(names, ",")
	}
	rep.DiffOracle("LIST/LSUB over the wire vs Model/ListMatch.filter", "Props.C18.filter_exact", ops, impl, model)
	if len(ops) > 0 {
		rep.Sample("wire " + ops[0] + " => " + impl[0])
	}
}

// listName extracts the mailbox name of `* LIST (attrs) "/" "name"`.
func listName(l string) string {
	return world.ListName(l)
}

// wireRoles: a user who holds role mailboxes sees them as Roles, Roles/<address>, Roles/<address>/<mailbox> next to personal
// mailboxes whose names begin like "Roles": LIST returns exactly the names of LIST "" "*" that match reference+pattern, and the
// role part of LSUB (role mailboxes are subscribed by assignment) is exactly the role names that match.
func wireRoles(o *hx.Opts, rep *hx.Report) {
	dir, cleanup := hx.WorkDir("c18r")
	defer cleanup()
	w, err := world.New(dir, "example.com")
	if err != nil {
		rep.Violate("broken-correspondence", "world", err.Error(), nil)
		return
	}
	defer w.Close()
	w.Login("rolly@example.com").Close()
	shared := w.Mgr.GetSharedDB()
	domID, _ := db.GetOrCreateDomain(shared, "example.com")
	uid, _ := db.GetUserByEmail(shared, "rolly@example.com")
	for _, addr := range []string{"sales@example.com", "r@example.com"} {
		id, err := db.CreateRoleMailbox(shared, addr, domID, "")
		if err != nil {
			rep.Violate("broken-correspondence", "world", err.Error(), nil)
			return
		}
		db.AssignUserToRoleMailbox(shared, uid, id, uid)
	}
	c := w.Login("rolly@example.com")
	defer c.Close()
	for _, n := range []string{"R", "Ro", "Reports", "Role", "Rolex/INBOX", "roles"} {
		c.Cmd("CREATE " + n)
	}
	have := map[string]bool{}
	for _, l := range c.Cmd(`LIST "" "*"`).Untagged {
		have[listName(l)] = true
	}
	var all, roleNames []string
	for n := range have {
		all = append(all, n)
		if strings.HasPrefix(n, "Roles") {
			roleNames = append(roleNames, n)
		}
	}
	sort.Strings(all)
	sort.Strings(roleNames)
	if len(roleNames) < 5 {
		rep.Violate("impl-violation", "wire", fmt.Sprintf("LIST \"\" \"*\" of a user assigned to two role mailboxes shows only the role names %v", roleNames), []string{"roles LIST *"})
		return
	}
	pats := []string{"*", "%", "R*", "Ro%", "Role%", "Role%/%", "Rol*/INBOX", "Roles", "Roles*", "Roles/%", "Roles/*", "%/%", "%/%/%", "*INBOX", "r*", "R%/%/I*", "Roles/%/Sent", "R%", "*@example.com", "%s/r@*"}
	refs := []string{"", "Roles/", "Roles/sales@example.com/", "R", "Ro"}
	var ops, impl []string
	var roleOnly []bool
	for _, r := range refs {
		for _, p := range pats {
			for _, verb := range []string{"LIST", "LSUB"} {
				var got []string
				for _, l := range c.Cmd(fmt.Sprintf("%s %q %q", verb, r, p)).Untagged {
					if n := listName(l); verb == "LIST" || strings.HasPrefix(n, "Roles") {
						got = append(got, n)
					}
				}
				sort.Strings(got)
				names := all
				if verb == "LSUB" {
					names = roleNames
				}
				ops = append(ops, "filter "+hx.H(r)+" "+hx.H(p)+" "+hx.HList(names))
				impl = append(impl, "set:"+strings.Join(got, ","))
				roleOnly = append(roleOnly, verb == "LSUB")
				rep.Case("roles "+verb+" "+r+" "+p, true)
				rep.Hit("wire-roles-" + verb)
			}
		}
	}
	model, err := hx.RunModel(o.Driver, ops)
	if err != nil {
		rep.Violate("broken-correspondence", "driver", err.Error(), nil)
		return
	}
	for i := range model {
		var names []string
		if model[i] != "." {
			for _, h := range strings.Fields(model[i]) {
				// the filter lists INBOX whenever the pattern matches it (finding C11-F3); the role part is compared
				if n := hx.UnH(h); !roleOnly[i] || strings.HasPrefix(n, "Roles") {
					names = append(names, n)
				}
			}
		}
		sort.Strings(names)
		model[i] = "set:" + strings.Join(names, ",")
	}
	rep.DiffOracle("LIST/LSUB of a role holder over the wire vs Model/ListMatch.filter", "Props.C18.filter_exact", ops, impl, model)
}
