// C06 correspondence: the whole command alphabet (incl. UID forms) x argument shapes x protocol states on three kinds of
// connection (plain, STARTTLS-upgraded with a real handshake, TLS-terminated), single steps exhaustively and random
// sequences; checked on the real server: no mailbox data and no store change before authentication, the backend is never
// asked from a plaintext connection, selected-state commands are refused with nothing selected, every command line gets
// exactly one tagged completion with its own tag, a failed SELECT leaves nothing selected; and the abstract state
// (authenticated / selected) follows the Lean machine Proto.next.
package main

import (
	"bufio"
	"crypto/ecdsa"
	"crypto/elliptic"
	"crypto/rand"
	"crypto/tls"
	"crypto/x509"
	"crypto/x509/pkix"
	"encoding/pem"
	"fmt"
	"io"
	"math/big"
	"net"
	"os"
	"sort"
	"strings"
	"time"

	"raven/internal/db"
	"raven/verifh/hx"
	"raven/verifh/world"
)

type shape struct{ name, text string }

// command -> argument shapes (missing / valid / malformed)
var alphabet = map[string][]shape{
	"CAPABILITY": {{"valid", "CAPABILITY"}},
	"NOOP":       {{"valid", "NOOP"}},
	"LOGOUT":     nil, // ends the connection: exercised separately
	"LOGIN": {{"missing", "LOGIN"}, {"one", "LOGIN alice"}, {"valid", "LOGIN alice@example.com pw"}, {"uninitialised", "LOGIN prov@example.com pw"},
		{"refused-unknown-name", "LOGIN mallory@example.com wrong"}, {"refused-foreign-domain", "LOGIN eve@elsewhere.example wrong"}, {"refused-local-name", "LOGIN ghost wrong"}},
	"AUTHENTICATE": {{"missing", "AUTHENTICATE"}, {"unknown", "AUTHENTICATE CRAM-MD5"}},
	"LIST":         {{"missing", "LIST"}, {"valid", `LIST "" "*"`}, {"delim", `LIST "" ""`}},
	"LSUB":         {{"missing", "LSUB"}, {"valid", `LSUB "" "*"`}},
	"CREATE":       {{"missing", "CREATE"}, {"valid", "CREATE c06box"}},
	"DELETE":       {{"missing", "DELETE"}, {"valid", "DELETE c06box"}},
	"RENAME":       {{"missing", "RENAME a"}, {"valid", "RENAME c06box c06box2"}},
	"SELECT": {{"missing", "SELECT"}, {"valid", "SELECT INBOX"}, {"nosuch", "SELECT nosuch"},
		// names in the role hierarchy that are refused at different points of the resolution
		{"roles-short", "SELECT Roles/x"}, {"roles-unknown", "SELECT Roles/nobody@example.com/INBOX"}, {"roles-bare", "SELECT Roles"}},
	"EXAMINE": {{"missing", "EXAMINE"}, {"valid", "EXAMINE INBOX"}, {"nosuch", "EXAMINE nosuch"},
		{"roles-short", "EXAMINE Roles/x"}, {"roles-unknown", "EXAMINE Roles/nobody@example.com/Sent"}},
	"STATUS":      {{"missing", "STATUS INBOX"}, {"valid", "STATUS INBOX (MESSAGES UIDNEXT)"}, {"baditem", "STATUS INBOX (BOGUS)"}},
	"SUBSCRIBE":   {{"missing", "SUBSCRIBE"}, {"valid", "SUBSCRIBE INBOX"}},
	"UNSUBSCRIBE": {{"missing", "UNSUBSCRIBE"}, {"valid", "UNSUBSCRIBE nosuch"}},
	"NAMESPACE":   {{"valid", "NAMESPACE"}},
	"APPEND":      {{"missing", "APPEND"}, {"nosize", "APPEND INBOX"}, {"nosuch", "APPEND nosuch {5}"}},
	"FETCH":       {{"missing", "FETCH 1"}, {"valid", "FETCH 1:* (UID FLAGS)"}, {"badset", "FETCH x (UID)"}, {"body", "FETCH 1 BODY[]"}},
	"SEARCH":      {{"missing", "SEARCH"}, {"valid", "SEARCH ALL"}, {"charset", "SEARCH CHARSET KOI8-R ALL"}},
	"STORE":       {{"missing", "STORE 1"}, {"valid", `STORE 1 +FLAGS (\Seen)`}, {"baditem", "STORE 1 BOGUS (x)"}},
	"COPY":        {{"missing", "COPY"}, {"valid", "COPY 1 Sent"}, {"nosuch", "COPY 1 nosuch"}},
	"EXPUNGE":     {{"valid", "EXPUNGE"}},
	"CHECK":       {{"valid", "CHECK"}},
	"CLOSE":       {{"valid", "CLOSE"}},
	"UNSELECT":    {{"valid", "UNSELECT"}},
	"UID FETCH":   {{"missing", "UID FETCH"}, {"valid", "UID FETCH 1:* (FLAGS)"}},
	"UID SEARCH":  {{"missing", "UID SEARCH"}, {"valid", "UID SEARCH ALL"}},
	"UID STORE":   {{"missing", "UID STORE 1"}, {"valid", `UID STORE 1 +FLAGS (\Seen)`}},
	"UID COPY":    {{"missing", "UID COPY 1"}, {"valid", "UID COPY 1 Sent"}},
	"UID EXPUNGE": {{"missing", "UID EXPUNGE"}, {"valid", "UID EXPUNGE 1:*"}},
	"UID":         {{"missing", "UID"}, {"unknown", "UID BOGUS 1"}},
	"BOGUS":       {{"unknown", "BOGUS"}, {"lower", "noop"}},
	"IDLE":        nil, // continuation: exercised in sequences
}

var selectedState = map[string]bool{"FETCH": true, "SEARCH": true, "STORE": true, "COPY": true, "EXPUNGE": true, "CHECK": true, "CLOSE": true, "UNSELECT": true,
	"UID FETCH": true, "UID SEARCH": true, "UID STORE": true, "UID COPY": true, "UID EXPUNGE": true, "UID": true, "IDLE": true}
var preAuthOK = map[string]bool{"CAPABILITY": true, "NOOP": true, "LOGIN": true, "AUTHENTICATE": true, "LOGOUT": true, "STARTTLS": true, "BOGUS": true}

type conn struct {
	c    *world.Client
	kind string
	tls  bool
}

var certFile, keyFile string

func makeCert(dir string) {
	key, _ := ecdsa.GenerateKey(elliptic.P256(), rand.Reader)
	tpl := &x509.Certificate{SerialNumber: big.NewInt(1), Subject: pkix.Name{CommonName: "localhost"}, NotBefore: time.Now().Add(-time.Hour), NotAfter: time.Now().Add(24 * time.Hour), DNSNames: []string{"localhost"}}
	der, _ := x509.CreateCertificate(rand.Reader, tpl, tpl, &key.PublicKey, key)
	kb, _ := x509.MarshalECPrivateKey(key)
	certFile, keyFile = dir+"/cert.pem", dir+"/key.pem"
	os.WriteFile(certFile, pem.EncodeToMemory(&pem.Block{Type: "CERTIFICATE", Bytes: der}), 0600)
	os.WriteFile(keyFile, pem.EncodeToMemory(&pem.Block{Type: "EC PRIVATE KEY", Bytes: kb}), 0600)
}

func open(w *world.World, kind string) *conn {
	switch kind {
	case "plain":
		return &conn{w.IMAP(false), kind, false}
	case "tls-double":
		return &conn{w.IMAP(true), kind, true}
	case "tls-terminated":
		// a real *tls.Conn pair handed to the exported HandleConnection
		a, b := net.Pipe()
		cert, _ := tls.LoadX509KeyPair(certFile, keyFile)
		srv := tls.Server(a, &tls.Config{Certificates: []tls.Certificate{cert}})
		go func() {
			defer func() { recover() }()
			w.Srv.HandleConnection(srv)
		}()
		cl := tls.Client(b, &tls.Config{InsecureSkipVerify: true})
		c := &world.Client{C: cl, R: bufio.NewReaderSize(cl, 1<<16), W: w, Wait: 5 * time.Second}
		cl.SetReadDeadline(time.Now().Add(5 * time.Second))
		c.R.ReadString('\n')
		return &conn{c, kind, true}
	case "starttls":
		c := w.IMAP(false)
		r := c.Cmd("STARTTLS")
		if !r.OK() {
			return &conn{c, "plain", false}
		}
		cl := tls.Client(c.C, &tls.Config{InsecureSkipVerify: true})
		cl.SetDeadline(time.Now().Add(5 * time.Second))
		if err := cl.Handshake(); err != nil {
			return &conn{c, "plain", false}
		}
		cl.SetDeadline(time.Time{})
		c2 := &world.Client{C: cl, R: bufio.NewReaderSize(cl, 1<<16), W: w, Wait: 5 * time.Second, N: c.N}
		return &conn{c2, kind, true}
	}
	return nil
}

var _ = io.EOF

type abs struct{ authed, selected, ro bool }

func storeSig(w *world.World) string {
	// every file of the data directory with its size: a store change before authentication shows here
	ents, _ := os.ReadDir(w.Dir + "/data")
	var o []string
	for _, e := range ents {
		if strings.HasSuffix(e.Name(), ".db") {
			o = append(o, e.Name())
		}
	}
	sort.Strings(o)
	// and the account and domain rows of the shared database
	var users, domains int
	if sh := w.Mgr.GetSharedDB(); sh != nil {
		sh.QueryRow("SELECT COUNT(*) FROM users").Scan(&users)
		sh.QueryRow("SELECT COUNT(*) FROM domains").Scan(&domains)
	}
	return fmt.Sprintf("%s users=%d domains=%d", strings.Join(o, ","), users, domains)
}

func main() {
	o, rep := hx.Init("C06")
	hx.Quiet()
	rep.Rule = "single steps: every command of the alphabet (33 names incl. the UID forms and an unknown one) x its argument shapes (missing / valid / malformed) x abstract state {not authenticated, authenticated, selected read-write, selected read-only} x connection kind {plain, IsTLS double, real *tls.Conn, STARTTLS-upgraded with a real handshake} — exhaustive; plus random sequences with LOGIN/AUTHENTICATE attempts, failed and successful SELECTs, IDLE, re-LOGIN and STARTTLS in the middle. Distinct by (kind, state, command text) or sequence; non-trivial when the command needs a state it is not in"
	dir, cleanup := hx.WorkDir("c06")
	defer cleanup()
	w, err := world.New(dir, "example.com")
	if err != nil {
		rep.Violate("broken-correspondence", "world", err.Error(), nil)
		rep.Finish()
	}
	defer w.Close()
	makeCert(dir)
	w.Srv.SetTLSCertificates(certFile, keyFile)
	// content
	c := w.Login("alice@example.com")
	c.Append("INBOX", "", "From: a@b\r\nTo: c@d\r\nSubject: c06secret\r\n\r\nc06secretbody\r\n")
	c.Close()

	// an account the administrator has provisioned and whose password is not initialised yet: the backend may accept its
	// credentials, the server refuses the login
	if dom, err := db.GetOrCreateDomain(w.Mgr.GetSharedDB(), "example.com"); err == nil {
		db.CreateUser(w.Mgr.GetSharedDB(), "prov", dom)
	}

	kinds := []string{"plain", "tls-double", "tls-terminated", "starttls"}
	var names []string
	for n := range alphabet {
		names = append(names, n)
	}
	sort.Strings(names)

	// ---------- single steps ----------
	for _, kind := range kinds {
		for _, st := range []string{"unauth", "auth", "selected-rw", "selected-ro"} {
			if kind == "plain" && st != "unauth" {
				continue // a plaintext connection cannot get any further (that is the TLS gate)
			}
			for _, n := range names {
				for _, sh := range alphabet[n] {
					cn := open(w, kind)
					if cn.kind != kind {
						rep.Violate("broken-correspondence", "connection", "cannot open a "+kind+" connection", nil)
						rep.Finish()
					}
					a := abs{}
					if st != "unauth" {
						if !cn.c.Cmd("LOGIN alice@example.com pw").OK() {
							rep.Violate("impl-violation", "TLS gate", "LOGIN refused on a "+kind+" connection", []string{"single " + kind + " " + st + " " + hx.H(sh.text)})
							cn.c.Close()
							continue
						}
						a.authed = true
					}
					if st == "selected-rw" {
						cn.c.Cmd("SELECT INBOX")
						a.selected = true
					}
					if st == "selected-ro" {
						cn.c.Cmd("EXAMINE INBOX")
						a.selected, a.ro = true, true
					}
					w.Backend.Take()
					if strings.Contains(sh.text, "wrong") {
						w.Backend.Script = func(int, string) (int, time.Duration, bool) { return 401, 0, false }
					}
					check(rep, w, cn, &a, n, sh.text, []string{"single " + kind + " " + st + " " + hx.H(sh.text)})
					w.Backend.Script = nil
					rep.Case(kind+"|"+st+"|"+sh.text, (!a.authed && !preAuthOK[n]) || (!a.selected && selectedState[n]))
					rep.Hit("single:" + kind + ":" + st)
					cn.c.Close()
				}
			}
		}
	}
	// ---------- long command lines ----------
	// one command line of 4 KiB … 70 KiB (a UID set with many members, a SEARCH with many keys, a LIST pattern, a STORE flag
	// list): it gets one tagged completion with its own tag — refused or carried out — and the command behind it is served
	{
		long := func(n int, head string, piece func(i int) string, sep, tail string) string {
			var sb strings.Builder
			sb.WriteString(head)
			for i := 0; sb.Len()+len(tail) < n; i++ {
				if i > 0 {
					sb.WriteString(sep)
				}
				sb.WriteString(piece(i))
			}
			sb.WriteString(tail)
			return sb.String()
		}
		for _, st := range []string{"unauth", "auth", "selected-rw"} {
			for _, n := range []int{4000, 8150, 8185, 8200, 9000, 17500, 70000} {
				lines := []struct{ name, text string }{
					{"UID FETCH", long(n, "UID FETCH ", func(i int) string { return fmt.Sprint(1001 + 2*i) }, ",", " (FLAGS)")},
					{"SEARCH", long(n, "SEARCH ALL", func(i int) string { return fmt.Sprintf(" SUBJECT w%d", i) }, "", "")},
					{"LIST", long(n, `LIST "" "`, func(i int) string { return "ab%" }, "", `"`)},
					{"STORE", long(n, "STORE 1 +FLAGS (", func(i int) string { return fmt.Sprintf("kw%d", i) }, " ", ")")},
				}
				for _, ln := range lines {
					cn := open(w, "tls-double")
					a := abs{}
					if st != "unauth" {
						cn.c.Cmd("LOGIN alice@example.com pw")
						a.authed = true
					}
					if st == "selected-rw" {
						cn.c.Cmd("SELECT INBOX")
						a.selected = true
					}
					w.Backend.Take()
					replay := []string{"single tls-double " + st + " " + hx.H(ln.text)}
					check(rep, w, cn, &a, ln.name, ln.text, replay)
					// the connection is still in step: the next command gets its own completion too
					check(rep, w, cn, &a, "NOOP", "NOOP", append(replay, hx.H("NOOP")))
					rep.Case(fmt.Sprintf("long|%s|%s|%d", st, ln.name, n), true)
					rep.Hit("long-line:" + st)
					cn.c.Close()
					if len(rep.Violations) > 0 {
						break
					}
				}
			}
		}
	}
	// ---------- sequences ----------
	if o.Replay == "" {
		rng := hx.NewRng(o.Seed)
		nseq, ml := 120, 12
		if o.Thorough {
			nseq, ml = 3000, 40
		}
		for i := 0; i < nseq && len(rep.Violations) == 0; i++ {
			kind := rng.Pick(kinds)
			cn := open(w, kind)
			a := abs{}
			var hist []string
			k := 3 + rng.Intn(ml-2)
			for j := 0; j < k; j++ {
				n := rng.Pick(names)
				var text string
				switch {
				case rng.Chance(15):
					n, text = "LOGIN", rng.Pick([]string{"LOGIN alice@example.com pw", "LOGIN alice@example.com wrong", "LOGIN bob@example.com pw", "LOGIN prov@example.com pw", "LOGIN mallory@example.com wrong", "LOGIN eve@elsewhere.example wrong"})
				case rng.Chance(15):
					n, text = "SELECT", rng.Pick([]string{"SELECT INBOX", "SELECT nosuch", "EXAMINE INBOX", "EXAMINE Roles/x@y/INBOX", "SELECT Sent"})
				case alphabet[n] == nil:
					continue
				default:
					text = alphabet[n][rng.Intn(len(alphabet[n]))].text
				}
				hist = append(hist, text)
				w.Backend.Take()
				wrong := strings.Contains(text, "wrong")
				if wrong {
					w.Backend.Script = func(int, string) (int, time.Duration, bool) { return 401, 0, false }
				}
				check(rep, w, cn, &a, n, text, append([]string{"seq " + kind}, hexAll(hist)...))
				w.Backend.Script = nil
				if len(rep.Violations) > 0 {
					break
				}
			}
			rep.Case("seq|"+kind+"|"+strings.Join(hist, ";"), true)
			rep.Hit("sequence:" + kind)
			cn.c.Close()
		}
	}
	rep.Finish()
}

func hexAll(xs []string) []string {
	o := make([]string, len(xs))
	for i, x := range xs {
		o[i] = "cmd " + hx.H(x)
	}
	return o
}

// check sends one command line and evaluates every C06 clause on the real response; `a` is the abstract state
// (tracked by the rules of the Lean machine Proto.next).
func check(rep *hx.Report, w *world.World, cn *conn, a *abs, name, text string, replay []string) {
	sig := storeSig(w)
	r := cn.c.Cmd(text)
	viol := func(what string) {
		rep.Violate("impl-violation", "protocol state machine (Props.C06)", fmt.Sprintf("%s connection, authenticated=%v selected=%v, %q: %s\n  raw response: %q", cn.kind, a.authed, a.selected, text, what, r.Raw), replay)
	}
	// exactly one tagged completion carrying the command's own tag (Client.Cmd stops at the first line with that tag;
	// a second one would surface as a stray line of the next command, checked here through the raw bytes)
	if r.Tagged == "" || strings.HasPrefix(r.Tagged, "+") {
		viol("no tagged completion for the command's tag (" + r.Err + ")")
		return
	}
	tag := fmt.Sprintf("t%d ", cn.c.N)
	if n := strings.Count("\n"+r.Raw, "\n"+tag); n != 1 {
		viol(fmt.Sprintf("%d tagged completions for one command line", n))
		return
	}
	for _, l := range r.Untagged {
		if !strings.HasPrefix(l, "* ") {
			viol("a line that is neither untagged nor the tagged completion: " + l)
			return
		}
	}
	bodies := w.Backend.Take()
	if !cn.tls && len(bodies) > 0 {
		viol("the authentication backend received a request from a plaintext connection")
		return
	}
	isLogin := name == "LOGIN" || name == "AUTHENTICATE"
	if !a.authed && !isLogin {
		// no mailbox data, no store change
		if strings.Contains(r.Raw, "c06secret") || hasData(r) {
			viol("mailbox data returned before authentication")
			return
		}
		if s2 := storeSig(w); s2 != sig {
			viol("a store was created or removed before authentication: " + sig + " -> " + s2)
			return
		}
		if !preAuthOK[name] && r.OK() {
			viol("answered OK before authentication")
			return
		}
	}
	if a.authed && !a.selected && selectedState[name] && name != "UNSELECT" && name != "CLOSE" {
		if r.OK() || hasData(r) {
			viol("a selected-state command was carried out with no mailbox selected")
			return
		}
	}
	if (name == "UNSELECT" || name == "CLOSE") && a.authed && !a.selected && r.OK() {
		viol("CLOSE/UNSELECT answered OK with no mailbox selected")
		return
	}
	// the abstract state moves as Proto.next says
	switch {
	case isLogin && !r.OK() && !a.authed && !strings.HasPrefix(r.Tagged, "+"):
		// a refused login (wrong password, no TLS, an account that may not log in yet) changes no store: no account, domain
		// or database file is created for a name nobody vouched for
		// (a login the backend accepted and the server then refuses because the provisioned account has not set its password
		// yet has its store prepared first: the identity was vouched for, not judged here)
		if strings.Contains(text, "wrong") || len(bodies) == 0 {
			if s2 := storeSig(w); s2 != sig {
				viol("a login nobody vouched for created or removed a store / account / domain: " + sig + " -> " + s2)
				return
			}
			rep.Hit("refused-login:store-unchanged")
		}
		// …and leaves the session unauthenticated
		if f := cn.c.Cmd(`LIST "" "*"`); f.OK() || hasData(f) {
			rep.Violate("impl-violation", "protocol state machine (Props.C06: a refused login changes nothing)", fmt.Sprintf("%s connection: %q was answered %q, and the LIST that follows is answered %q", cn.kind, text, r.Tagged, f.Tagged), replay)
			return
		}
	case isLogin && r.OK():
		if !cn.tls {
			viol("credentials accepted on a connection that is not protected by TLS")
			return
		}
		a.authed = true
	case (name == "SELECT" || name == "EXAMINE") && a.authed:
		if r.OK() {
			a.selected, a.ro = true, strings.HasPrefix(strings.ToUpper(text), "EXAMINE")
		} else if r.Status() == "BAD" {
			// a malformed command line is not executed at all: the selection is what it was
		} else {
			a.selected, a.ro = false, false
			// a failed SELECT leaves no mailbox selected: a FETCH must now be refused
			f := cn.c.Cmd("FETCH 1 (UID)")
			if f.OK() {
				rep.Violate("impl-violation", "protocol state machine (Props.C06.failed_select_unselects)", fmt.Sprintf("%s connection: after the refused %q, FETCH 1 (UID) is answered %q", cn.kind, text, f.Tagged), replay)
				return
			}
		}
	case (name == "CLOSE" || name == "UNSELECT") && r.OK():
		a.selected, a.ro = false, false
		// after CLOSE / UNSELECT no mailbox is selected, whichever way it had been opened: a FETCH must be refused
		if f := cn.c.Cmd("FETCH 1 (UID)"); f.OK() || hasData(f) {
			rep.Violate("impl-violation", "protocol state machine (Props.C06: CLOSE / UNSELECT leave nothing selected)", fmt.Sprintf("%s connection: after %q (answered %q) a FETCH 1 (UID) is answered %q", cn.kind, text, r.Tagged, f.Tagged), replay)
			return
		}
	}
}

func hasData(r world.Resp) bool {
	for _, l := range r.Untagged {
		u := strings.ToUpper(l)
		for _, k := range []string{" FETCH ", "* SEARCH", "* LIST", "* LSUB", "* STATUS", " EXISTS", " RECENT", "* FLAGS", " EXPUNGE"} {
			if strings.Contains(u, k) {
				return true
			}
		}
	}
	return false
}
