package main

import (
	"fmt"
	"os"
	"strings"

	"raven/verifh/hx"
	"raven/verifh/world"
)

func main() {
	hx.Quiet()
	dir, _ := os.MkdirTemp("/dev/shm", "xprobe")
	defer os.RemoveAll(dir)
	os.Chdir(dir)
	w, err := world.New(dir, "example.com")
	if err != nil {
		panic(err)
	}
	var lines []string
	for i := 1; i <= 30; i++ {
		lines = append(lines, fmt.Sprintf("------=_Part_Mixed_%d", i), "Content-Type: text/plain", "", fmt.Sprintf("injected %d", i))
	}
	msg := "From: a@example.org\r\nTo: b@example.com\r\nSubject: probe\r\nMIME-Version: 1.0\r\nContent-Type: multipart/mixed; boundary=\"outer\"\r\n\r\n" +
		"--outer\r\nContent-Type: text/plain\r\n\r\nabove\r\n" + strings.Join(lines, "\r\n") + "\r\nbelow\r\n--outer\r\nContent-Type: text/plain\r\n\r\nsecond\r\n--outer--\r\n"
	c := w.Login("probe@example.com")
	r := c.Append("INBOX", "", msg)
	fmt.Fprintln(hx.Stdout, "APPEND:", r.Tagged)
	c.Cmd("SELECT INBOX")
	for _, cmd := range []string{"FETCH 1 BODYSTRUCTURE", "FETCH 1 BODY.PEEK[]", "FETCH 1 BODY.PEEK[2]", "FETCH 1 BODY.PEEK[3]"} {
		rr := c.Cmd(cmd)
		for _, l := range rr.Untagged {
			if len(l) > 1500 {
				l = l[:1500]
			}
			fmt.Fprintln(hx.Stdout, cmd, "=>", l)
		}
	}
}
