// C13 correspondence: the raw byte stream of the real server is read by the strict Lean reader (Model/Resp.lean, proved
// to accept everything built from the token constructors); on top of the parse, every requested FETCH item must appear
// exactly once, directly followed by a value of the right kind. Stored data: headers with quotes, backslashes, parentheses,
// braces, 8-bit text, very long and folded values; bodies that look like responses; all FETCH item pairs; LIST / LSUB /
// STATUS on every creatable mailbox name.
package main

import (
	"fmt"
	"sort"
	"strings"

	"raven/verifh/hx"
	"raven/verifh/world"
)

var nasty = []string{`plain`, `with "quotes"`, `back\slash`, `both \" mixed`, `(parens) and )unbalanced(`, `{5}`, `{3}abc`, `brace } {`, "8bit \xe9\xe8 caf\xc3\xa9", `NIL`, `)`, `"`, `\`, `a@b <c@d>, "x, y" <e@f>`, strings.Repeat("long ", 300), "folded\r\n continuation \"q\"", `* 1 FETCH (FLAGS ())`, `t1 OK done`, "",
	// long runs of quoted-specials at both alignments: wherever an implementation cuts, pads or wraps a long value, an escape pair sits there
	strings.Repeat(`"`, 1500), "a" + strings.Repeat(`"`, 1500), strings.Repeat(`\`, 2100), "a" + strings.Repeat(`\`, 2100), strings.Repeat(`x"\`, 700),
	// carriage returns on their own inside a value
	"bare\rcarriage return", "two\r\rof them \"q\"", "ends in one\r"}

func messages() []string {
	var out []string
	for i, v := range nasty {
		h := "From: " + pick(i, `"A \"q\" B" <a@example.org>`, `a@example.org`, `(comment) <a@example.org>`, `"back\\slash" <a@example.org>`) + "\r\n" +
			"To: r@example.com\r\nSubject: " + v + "\r\nX-Odd: " + nasty[(i+7)%len(nasty)] + "\r\nMessage-ID: <m" + fmt.Sprint(i) + "@x>\r\nDate: Mon, 02 Jan 2006 15:04:05 +0000\r\n"
		body := pick(i, "plain body\r\n", "* 5 FETCH (BODY[] {3}\r\nabc)\r\nt1 OK FETCH completed\r\n", "{10}\r\n)))(((\"\\\r\n", "line1\r\n.\r\n..\r\n", "8bit \xff\xfe body\r\n", "")
		out = append(out, h+"\r\n"+body)
	}
	// display names of every address field, wholly or partly quoted, with backslashes in front of ordinary characters,
	// doubled backslashes, escaped and bare quotes, parentheses, 8-bit and control octets
	names := []string{`"C:\Users\eve"`, `"Mallory \(sales\)"`, `"trailing backslash \\"`, `"a \" b"`, `"tab\there"`, "\"bare\x01control\"", "\"nul\x00inside\"",
		`half "quoted" name`, `"unterminated`, `back\slash unquoted`, "\"caf\xe9 8bit\"", `"paren ) in ( name"`, `"{5}" `, `"" `, `"\\"`}
	for i, nm := range names {
		field := []string{"From", "Sender", "Reply-To", "To", "Cc", "Bcc"}[i%6]
		h := "From: base@example.org\r\nTo: r@example.com\r\n"
		if field == "From" || field == "To" {
			h = map[string]string{"From": "To: r@example.com\r\n", "To": "From: base@example.org\r\n"}[field]
		}
		out = append(out, h+field+": "+nm+" <x"+fmt.Sprint(i)+"@example.org>, "+nm+" <y@example.org>\r\nSubject: name "+fmt.Sprint(i)+"\r\n\r\nbody\r\n")
	}
	// multiparts
	out = append(out, "From: a@b\r\nTo: c@d\r\nSubject: mp \"q\"\r\nMIME-Version: 1.0\r\nContent-Type: multipart/mixed; boundary=\"XX\"\r\n\r\n--XX\r\nContent-Type: text/plain; charset=\"utf-8\"; name=\"we\\\"ird (name).txt\"\r\n\r\npart one {5}\r\n--XX\r\nContent-Type: application/octet-stream; name=\"a)b.bin\"\r\nContent-Disposition: attachment; filename=\"a)b.bin\"\r\nContent-Transfer-Encoding: base64\r\n\r\nQUJD\r\n--XX--\r\n")
	out = append(out, "From: a@b\r\nTo: c@d\r\nSubject: nested\r\nMIME-Version: 1.0\r\nContent-Type: multipart/mixed; boundary=o\r\n\r\n--o\r\nContent-Type: multipart/alternative; boundary=i\r\n\r\n--i\r\nContent-Type: text/plain\r\n\r\nt\r\n--i\r\nContent-Type: text/html\r\n\r\n<p>\"h\"</p>\r\n--i--\r\n--o\r\nContent-Type: text/plain\r\nContent-ID: <id(1)@x>\r\nContent-Description: de\"sc\r\n\r\nlast\r\n--o--\r\n")
	// line feeds that are content (not line endings) in a CRLF message, in a body and in a multipart leaf: a literal counts them once
	out = append(out, "From: a@b\r\nTo: c@d\r\nSubject: bare lf\r\n\r\nfirst line\r\nlone\nline feed\n\nand more\r\nlast\r\n")
	out = append(out, "From: a@b\r\nTo: c@d\r\nSubject: bare lf in part\r\nMIME-Version: 1.0\r\nContent-Type: multipart/mixed; boundary=lf\r\n\r\n--lf\r\nContent-Type: text/plain\r\nContent-Transfer-Encoding: binary\r\n\r\nleaf with\nlone\nline feeds\r\n--lf\r\nContent-Type: text/plain\r\n\r\nsecond\r\n--lf--\r\n")
	return out
}

func pick(i int, xs ...string) string { return xs[i%len(xs)] }

var items = []string{"FLAGS", "UID", "INTERNALDATE", "RFC822.SIZE", "ENVELOPE", "BODY", "BODYSTRUCTURE", "RFC822", "RFC822.HEADER", "RFC822.TEXT",
	"BODY[]", "BODY.PEEK[]", "BODY[HEADER]", "BODY[TEXT]", "BODY.PEEK[HEADER.FIELDS (SUBJECT FROM)]", "BODY[HEADER.FIELDS.NOT (TO)]", "BODY[1]", "BODY[2]", "BODY[1.1]", "BODY[1.MIME]",
	"BODY[]<0.10>", "BODY[TEXT]<2.5>", "BODY[HEADER]<0.2000>", "BODY[1]<1.3>", "BODY[9]"}

// response name of a requested item
func respName(it string) string {
	n := strings.Replace(it, "BODY.PEEK[", "BODY[", 1)
	if i := strings.Index(n, "<"); i >= 0 {
		// <o.n> is answered as <o>
		j := strings.Index(n[i:], ".")
		if j > 0 {
			n = n[:i+j] + ">"
		}
	}
	return strings.ToUpper(n)
}

func kindOK(name, val string) bool {
	switch {
	case name == "FLAGS":
		return strings.HasPrefix(val, "(")
	case name == "UID" || name == "RFC822.SIZE":
		return strings.HasPrefix(val, "#")
	case name == "INTERNALDATE":
		return strings.HasPrefix(val, "q")
	case name == "ENVELOPE" || name == "BODY" || name == "BODYSTRUCTURE":
		return strings.HasPrefix(val, "(")
	default: // nstring
		return val == "N" || strings.HasPrefix(val, "q") || strings.HasPrefix(val, "l")
	}
}

// top-level tokens of "( a b ( c ) d )" -> [a b (c) d]
func topLevel(fields []string) ([]string, bool) {
	if len(fields) < 2 || fields[0] != "(" || fields[len(fields)-1] != ")" {
		return nil, false
	}
	var out []string
	depth := 0
	cur := ""
	for _, f := range fields[1 : len(fields)-1] {
		if f == "(" {
			depth++
		}
		if depth > 0 {
			cur += f + " "
		} else {
			out = append(out, f)
		}
		if f == ")" {
			depth--
			if depth == 0 {
				out = append(out, strings.TrimSpace(cur))
				cur = ""
			}
		}
	}
	return out, depth == 0
}

func main() {
	o, rep := hx.Init("C13")
	hx.Quiet()
	rep.Rule = "21 stored messages whose header values and bodies contain quotes, backslashes, parentheses, braces, literal look-alikes, 8-bit octets, very long and folded values, response look-alikes, quoted MIME parameters and nested multiparts; FETCH with every single item, every pair (quick: every pair on 4 messages, a sample on the rest; thorough: all pairs on all messages plus sampled triples), the three macros, UID FETCH, STORE/SEARCH/SELECT/STATUS/LIST/LSUB answers on every creatable mailbox name of an adversarial set; the raw bytes of every response go through the Lean strict reader. Distinct by (message, command); non-trivial when the command requests a structured or literal-valued item"
	dir, cleanup := hx.WorkDir("c13")
	defer cleanup()
	w, err := world.New(dir, "example.com")
	if err != nil {
		rep.Violate("broken-correspondence", "world", err.Error(), nil)
		rep.Finish()
	}
	defer w.Close()
	c := w.Login("alice@example.com")
	defer c.Close()
	msgs := messages()
	for _, m := range msgs {
		if r := c.Append("INBOX", `\Seen kw`, m); !r.OK() {
			// a message the server refuses is simply not part of the stored data
			rep.Hit("append-refused")
		}
	}
	c.Cmd("SELECT INBOX")
	n := 0
	for _, l := range c.Cmd("STATUS INBOX (MESSAGES)").Untagged {
		fmt.Sscanf(l, `* STATUS "INBOX" (MESSAGES %d)`, &n)
	}
	type q struct {
		cmd   string
		items []string
		raw   string
	}
	var qs []q
	ask := func(cmd string, its []string) {
		r := c.Cmd(cmd)
		raw := r.Raw
		if r.Err != "" {
			raw += "\x00<<" + r.Err + ">>"
		}
		qs = append(qs, q{cmd, its, raw})
	}
	rng := hx.NewRng(o.Seed)
	if o.Replay != "" {
		for _, l := range hx.ReadLines(o.Replay) {
			f := strings.Fields(l)
			if len(f) == 2 && f[0] == "cmd" {
				ask(hx.UnH(f[1]), itemsOf(hx.UnH(f[1])))
			}
		}
	} else {
		// past failures first
		for _, l := range hx.ReadLines(o.Corpus + "/cmds.ops") {
			f := strings.Fields(l)
			if len(f) == 2 && f[0] == "cmd" {
				ask(hx.UnH(f[1]), itemsOf(hx.UnH(f[1])))
			}
		}
		for m := 1; m <= n; m++ {
			for _, it := range items {
				ask(fmt.Sprintf("FETCH %d %s", m, it), []string{it})
			}
			for _, mac := range []string{"ALL", "FAST", "FULL"} {
				ask(fmt.Sprintf("FETCH %d %s", m, mac), nil)
			}
			for i := range items {
				for j := range items {
					if i == j || respName(items[i]) == respName(items[j]) {
						continue
					}
					if !o.Thorough && m > 4 && !rng.Chance(4) {
						continue
					}
					ask(fmt.Sprintf("FETCH %d (%s %s)", m, items[i], items[j]), []string{items[i], items[j]})
				}
			}
			if o.Thorough {
				for k := 0; k < 60; k++ {
					a, b, d := rng.Intn(len(items)), rng.Intn(len(items)), rng.Intn(len(items))
					if respName(items[a]) == respName(items[b]) || respName(items[a]) == respName(items[d]) || respName(items[b]) == respName(items[d]) {
						continue
					}
					ask(fmt.Sprintf("UID FETCH %d:* (%s %s %s)", m, items[a], items[b], items[d]), nil)
				}
			}
		}
		ask("FETCH 1:* (FLAGS UID ENVELOPE)", nil)
		ask("UID FETCH 1:* (BODY.PEEK[HEADER.FIELDS (SUBJECT X-ODD)] BODYSTRUCTURE)", nil)
		ask(`STORE 1:3 +FLAGS (\Flagged $kw)`, nil)
		ask("SEARCH ALL", nil)
		ask("SEARCH SUBJECT quotes", nil)
		// mailbox names
		names := []string{`a\b`, `a\\b`, `back\`, `br{ace`, `{5}`, `par(en`, `par)en`, `100%`, `st*ar`, `é`, "x\xffy", `NIL`, `a&b`, `q'q`, `~tilde`, `a/b\c/d`, `[brack]`, `]`, `#hash`, `+`, `=`}
		for _, nm := range names {
			c.Cmd("CREATE " + nm)
			c.Cmd("SUBSCRIBE " + nm)
		}
		ask(`LIST "" "*"`, nil)
		ask(`LSUB "" "*"`, nil)
		ask(`LIST "" "%"`, nil)
		ask(`LIST "" ""`, nil)
		for _, nm := range names {
			ask("STATUS "+nm+" (MESSAGES UIDNEXT UIDVALIDITY UNSEEN RECENT)", nil)
			ask("SELECT "+nm, nil)
			ask("EXAMINE "+nm, nil)
		}
		ask("SELECT INBOX", nil)
		ask("CAPABILITY", nil)
		ask("NAMESPACE", nil)
		ask("NOOP", nil)
		ask("BOGUS", nil)
	}
	var ops []string
	for _, x := range qs {
		ops = append(ops, "r.parse "+hx.H(x.raw))
	}
	res, err := hx.RunModel(o.Driver, ops)
	if err != nil {
		rep.Violate("broken-correspondence", "driver", err.Error(), nil)
		rep.Finish()
	}
	bad := map[string]int{}
	for i, x := range qs {
		structured := strings.ContainsAny(x.cmd, "[") || strings.Contains(x.cmd, "ENVELOPE") || strings.Contains(x.cmd, "BODY") || strings.Contains(x.cmd, "RFC822")
		rep.Case(x.cmd, structured)
		rep.Hit("cmd:" + strings.Fields(x.cmd)[0])
		viol := func(class, what string) {
			bad[class]++
			if bad[class] <= 2 && len(rep.Violations) < 12 {
				rep.Violate("impl-violation", "response grammar (Model/Resp strict reader; Props.C13)", fmt.Sprintf("%q: %s\n  raw: %q", x.cmd, what, trunc(x.raw, 700)), []string{"cmd " + hx.H(x.cmd)})
			}
		}
		if !strings.HasPrefix(res[i], "ok") {
			viol("malformed", "the response is not well-formed: "+res[i]+" (number of well-formed lines before the first malformed one)")
			continue
		}
		// item accounting on FETCH data lines
		if len(x.items) > 0 {
			for _, line := range strings.Split(strings.TrimPrefix(res[i], "ok "), " | ") {
				f := strings.Fields(line)
				if len(f) < 4 || f[0] != "D" || f[2] != "a"+hx.H("FETCH") {
					continue
				}
				toks, ok := topLevel(f[3:])
				if !ok || len(toks)%2 != 0 {
					viol("pairs", fmt.Sprintf("FETCH data is not a list of item/value pairs: %s", line))
					continue
				}
				seen := map[string]int{}
				for k := 0; k+1 < len(toks); k += 2 {
					if !strings.HasPrefix(toks[k], "a") {
						viol("pairs", fmt.Sprintf("a value where an item name is expected: %s", line))
						continue
					}
					name := strings.ToUpper(hx.UnH(toks[k][1:]))
					seen[name]++
					if !kindOK(name, toks[k+1]) {
						viol("kind", fmt.Sprintf("item %s is followed by a value of the wrong kind (%s)", name, trunc(toks[k+1], 60)))
					}
				}
				var want []string
				for _, it := range x.items {
					want = append(want, respName(it))
				}
				sort.Strings(want)
				for _, wn := range want {
					if seen[wn] != 1 && seen[wn] == 0 && substringDispatchClass(wn, want) {
						// class predicate of finding C13-F1 (FETCH items are recognised by substring search on the item list)
						rep.Hit("C13-F1:" + strings.SplitN(wn, "<", 2)[0])
						rep.Finding("C13-F1", fmt.Sprintf("%q: requested item %s is not answered under its own name (items present: %v)", x.cmd, wn, keys(seen)), []string{"cmd " + hx.H(x.cmd)})
						continue
					}
					if seen[wn] != 1 {
						rep.Hit("missing-item:" + wn)
						viol("items", fmt.Sprintf("requested item %s appears %d times in the response (items present: %v)", wn, seen[wn], keys(seen)))
					}
				}
				for nm, k := range seen {
					if k > 1 {
						viol("items", fmt.Sprintf("item %s appears %d times", nm, k))
					}
				}
			}
		}
	}
	for c, k := range bad {
		rep.Note("violations of class %s: %d", c, k)
	}
	if len(qs) > 0 {
		rep.Sample(fmt.Sprintf("%q => %s", qs[0].cmd, trunc(res[0], 200)))
		rep.Sample(fmt.Sprintf("%q => %s", qs[len(qs)/2].cmd, trunc(res[len(qs)/2], 200)))
	}
	rep.Finish()
}

// substringDispatchClass: the missing item is one of those the substring-based item dispatch of processFetchForMessage
// cannot tell apart or does not implement.
// itemsOf recovers the requested items of a "FETCH n item" / "FETCH n (item item …)" command line (nil for anything else):
// blanks separate items except inside brackets and parentheses
func itemsOf(cmd string) []string {
	f := strings.SplitN(cmd, " ", 3)
	if len(f) != 3 || strings.ToUpper(f[0]) != "FETCH" {
		return nil
	}
	arg := strings.TrimSpace(f[2])
	if strings.HasPrefix(arg, "(") && strings.HasSuffix(arg, ")") {
		arg = arg[1 : len(arg)-1]
	} else if strings.ContainsAny(arg, " ") && !strings.Contains(arg, "[") {
		return nil
	}
	var out []string
	depth, cur := 0, ""
	for _, ch := range arg {
		switch {
		case ch == '[' || ch == '(':
			depth++
		case ch == ']' || ch == ')':
			depth--
		}
		if ch == ' ' && depth == 0 {
			if cur != "" {
				out = append(out, cur)
			}
			cur = ""
			continue
		}
		cur += string(ch)
	}
	if cur != "" {
		out = append(out, cur)
	}
	for _, it := range out {
		switch strings.ToUpper(it) {
		case "ALL", "FAST", "FULL":
			return nil
		}
	}
	return out
}

func substringDispatchClass(missing string, requested []string) bool {
	others := func(pred func(string) bool) bool {
		for _, r := range requested {
			if r != missing && pred(r) {
				return true
			}
		}
		return false
	}
	switch {
	case missing == "RFC822":
		return true // answered under the name BODY[]
	case strings.HasPrefix(missing, "BODY[HEADER.FIELDS.NOT"):
		return true // not implemented: read as a mangled HEADER.FIELDS
	case strings.Contains(missing, "]<"):
		return true // partial ranges: dropped for BODY[] / BODY[HEADER] / BODY[TEXT], answered without <o> when the part is shorter
	case missing == "BODY":
		return others(func(r string) bool { return strings.Contains(r, "BODY[") || r == "BODYSTRUCTURE" })
	case missing == "BODY[HEADER]":
		return others(func(r string) bool { return strings.Contains(r, "HEADER.FIELDS") })
	}
	return false
}

func keys(m map[string]int) []string {
	var o []string
	for k := range m {
		o = append(o, k)
	}
	sort.Strings(o)
	return o
}

func trunc(s string, n int) string {
	if len(s) > n {
		return s[:n] + "…"
	}
	return s
}
