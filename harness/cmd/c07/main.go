// C07 correspondence: crash images of the real code. A deterministic workload (first contact with new users, deliveries to
// several recipients, APPEND of multipart mail with out-of-line parts, COPY, STORE, EXPUNGE, CREATE / RENAME / DELETE,
// SUBSCRIBE) runs in a child process with a small LD_PRELOAD shim (shim.c) that counts the storage I/O calls SQLite makes
// through libc — pwrite, fsync, fdatasync, unlink, ftruncate, rename — with one process-wide counter and kills the process with
// SIGKILL when it is about to make call number N (strace's inject= counts per thread, which leaves most instants unreachable). The acknowledgements it had handed out by then are on a pipe. A fresh
// process then opens the same directory and audits it: every store opens, every user can log in, every listed message is
// complete, the state of the history user is the model's state after the acknowledged operations (or after the one in flight
// as well), acknowledged deliveries are present exactly once, UIDs obey the rules, and new deliveries and APPENDs succeed.
package main

import (
	"bufio"
	_ "embed"
	"encoding/json"
	"fmt"
	"os"
	"os/exec"
	"sort"
	"strings"
	"sync"
	"time"

	"raven/verifh/hist"
	"raven/verifh/hx"
	"raven/verifh/world"
)

//go:embed shim.c.txt
var shimSrc []byte

var shimPath string

type step struct {
	Kind string   `json:"kind"` // login | op | mdeliver
	User string   `json:"user,omitempty"`
	Op   string   `json:"op,omitempty"` // hist op line
	ID   int      `json:"id,omitempty"` // message id of an mdeliver
	To   []string `json:"to,omitempty"` // its recipients
}

// bigMsg: every third message is multipart with an out-of-line (> 1 KiB) text part and a base64 attachment
func bigMsg(id int) string {
	if id%3 != 0 {
		return fmt.Sprintf("From: sender@example.org\r\nTo: rcpt@example.com\r\nSubject: m%d\r\nMessage-ID: <m%d@example.org>\r\nDate: Mon, 02 Jan 2006 15:04:05 +0000\r\n\r\nbody of message %d MARK-%d-a\r\n", id, id, id, id)
	}
	var big strings.Builder
	for i := 0; big.Len() < 2500; i++ {
		fmt.Fprintf(&big, "line %d of the large part of message %d\r\n", i, id)
	}
	b := fmt.Sprintf("bnd%d", id)
	return fmt.Sprintf("From: sender@example.org\r\nTo: rcpt@example.com\r\nSubject: m%d\r\nMessage-ID: <m%d@example.org>\r\nDate: Mon, 02 Jan 2006 15:04:05 +0000\r\nMIME-Version: 1.0\r\nContent-Type: multipart/mixed; boundary=%s\r\n\r\n--%s\r\nContent-Type: text/plain\r\n\r\nMARK-%d-a\r\n%s--%s\r\nContent-Type: text/html\r\n\r\n<p>MARK-%d-b</p>\r\n--%s--\r\n", id, id, b, b, id, big.String(), b, id, b)
}

func markers(id int) []string {
	if id%3 != 0 {
		return []string{fmt.Sprintf("MARK-%d-a", id)}
	}
	return []string{fmt.Sprintf("MARK-%d-a", id), fmt.Sprintf("MARK-%d-b", id)}
}

const histUser = "crash@example.com"

// workload: deterministic from the seed
func workload(seed uint64, long bool) []step {
	rng := hx.NewRng(seed)
	var st []step
	st = append(st, step{Kind: "login", User: histUser})
	id := 0
	nid := func() int { id++; return id }
	op := func(format string, a ...any) { st = append(st, step{Kind: "op", Op: fmt.Sprintf(format, a...)}) }
	// a fixed backbone that visits every operation kind, then random ops
	op("append INBOX %d", nid())
	op("deliver %d", nid())
	op("append INBOX %d \\Seen", nid())
	st = append(st, step{Kind: "mdeliver", ID: nid(), To: []string{"new1@example.com", histUser, "new2@example.com"}})
	op("create Work")
	op("copy INBOX 1:2 Work")
	op("store INBOX 2 add 0 \\Flagged")
	op("sub Work")
	op("store INBOX 1 add 1 \\Deleted")
	op("expunge INBOX")
	op("rename Work Done")
	op("append Done %d kw", nid())
	op("create Tmp")
	op("delete Tmp")
	st = append(st, step{Kind: "login", User: "late@example.com"})
	op("uidcopy Done 1:* INBOX")
	op("rename INBOX Old")
	op("deliver %d", nid())
	n := 6
	if long {
		n = 30
	}
	boxes := []string{"INBOX", "Done", "Old"}
	for i := 0; i < n; i++ {
		switch rng.Intn(9) {
		case 0:
			op("append %s %d", rng.Pick(boxes), nid())
		case 1:
			op("deliver %d", nid())
		case 2:
			st = append(st, step{Kind: "mdeliver", ID: nid(), To: []string{fmt.Sprintf("new%d@example.com", 3+i), "new1@example.com"}})
		case 3:
			op("copy %s %d %s", rng.Pick(boxes), 1+rng.Intn(3), rng.Pick(boxes))
		case 4:
			op("store %s %d %s 0 %s", rng.Pick(boxes), 1+rng.Intn(3), rng.Pick([]string{"add", "del", "set"}), rng.Pick([]string{"\\Seen", "\\Deleted", "kw", "\\Flagged"}))
		case 5:
			op("expunge %s", rng.Pick(boxes))
		case 6:
			op("create Box%d", i)
		case 7:
			op("sub %s", rng.Pick(boxes))
		case 8:
			op("uidstore %s 1:* add 1 \\Answered", rng.Pick(boxes))
		}
	}
	return st
}

// ---------------------------------------------------------------- the workload process

func childWorkload(dir, stepsFile string) {
	os.Chdir(dir)
	hx.Quiet()
	hist.MsgFn = bigMsg
	var steps []step
	b, _ := os.ReadFile(stepsFile)
	json.Unmarshal(b, &steps)
	out := hx.Stdout
	w, err := world.New(dir, "example.com")
	if err != nil {
		fmt.Fprintf(out, "fatal %v\n", err)
		os.Exit(3)
	}
	rep := hx.NewSilentReport(&hx.Report{})
	var h *hist.H
	// in the dry run the shim keeps its running count in a file: note it after every step, so that the parent knows which
	// storage calls belong to which step
	calls := func() string {
		cf := os.Getenv("CRASH_COUNT")
		if cf == "" {
			return ""
		}
		b, _ := os.ReadFile(cf)
		return " calls=" + strings.TrimSpace(string(b))
	}
	for i, s := range steps {
		switch s.Kind {
		case "login":
			c := w.Login(s.User)
			ok := c.Cmd("NOOP").OK()
			c.Close()
			if s.User == histUser && h == nil {
				h = hist.NewReal(w, rep, histUser)
			}
			fmt.Fprintf(out, "ack %d login %v%s\n", i, ok, calls())
		case "op":
			impl := h.RealOp(mkOp(s.Op))
			fmt.Fprintf(out, "ack %d op %s%s\n", i, strings.Fields(impl + " -")[0], calls())
		case "mdeliver":
			// per-recipient acknowledgements, in the order the client receives them
			_, data := w.Deliver("sender@example.org", s.To, hist.Msg(s.ID))
			var codes []string
			for _, d := range data {
				if len(d) >= 3 {
					codes = append(codes, d[:3])
				}
			}
			fmt.Fprintf(out, "ack %d mdeliver %s%s\n", i, strings.Join(codes, ","), calls())
		}
	}
	fmt.Fprintf(out, "done\n")
	w.Close()
	os.Exit(0)
}

// ---------------------------------------------------------------- the audit process

type verdict struct {
	Problems []string `json:"problems"`
	Class    string   `json:"class"` // which model state the image matched: acked | acked+inflight | clean
	Notes    []string `json:"notes"`
}

func childAudit(dir, stepsFile string, acked int, driver string) {
	os.Chdir(dir)
	hx.Quiet()
	hist.MsgFn = bigMsg
	var steps []step
	b, _ := os.ReadFile(stepsFile)
	json.Unmarshal(b, &steps)
	v := verdict{}
	bad := func(format string, a ...any) { v.Problems = append(v.Problems, fmt.Sprintf(format, a...)) }
	finish := func() {
		j, _ := json.Marshal(v)
		fmt.Fprintln(hx.Stdout, string(j))
		os.Exit(0)
	}
	w, err := world.New(dir, "example.com")
	if err != nil {
		bad("the data directory does not open after the crash: %v", err)
		finish()
	}
	// who has been in contact with the system (acknowledged or in flight)
	users := map[string]bool{}
	for i, s := range steps {
		if i > acked {
			break
		}
		switch s.Kind {
		case "login":
			users[s.User] = true
		case "mdeliver":
			for _, t := range s.To {
				users[t] = true
			}
		}
	}
	var ul []string
	for u := range users {
		ul = append(ul, u)
	}
	sort.Strings(ul)
	// 1. every store opens, every user can log in
	for _, u := range ul {
		c := w.Login(u)
		r := c.Cmd(`LIST "" "*"`)
		if !r.OK() {
			bad("user %s cannot use the store after the crash: LIST answered %q %s", u, r.Tagged, r.Err)
		} else {
			hasInbox := false
			for _, l := range r.Untagged {
				if strings.HasSuffix(strings.TrimSpace(l), "INBOX") || strings.Contains(l, `"INBOX"`) {
					hasInbox = true
				}
			}
			if !hasInbox {
				bad("user %s has no INBOX after the crash (LIST: %v)", u, r.Untagged)
			}
		}
		c.Close()
	}
	// 2. the history user's state against the model
	rep := hx.NewSilentReport(&hx.Report{})
	if users[histUser] && acked >= 1 {
		m, err := hx.StartModel(driver)
		if err != nil {
			bad("model driver: %v", err)
			finish()
		}
		h := hist.NewModelOnly(w, m, rep, histUser)
		nth := 0
		apply := func(s step) {
			switch s.Kind {
			case "op":
				nth++
				h.ModelOp(mkOp(s.Op), nth)
			case "mdeliver":
				for _, t := range s.To {
					if t == histUser {
						nth++
						h.ModelOp(mkOp(fmt.Sprintf("deliver %d", s.ID)), nth)
					}
				}
			}
		}
		for i := 0; i < acked && i < len(steps); i++ {
			apply(steps[i])
		}
		// UIDNEXT is compared apart: a crash between the allocation of a UID and the insertion of the link leaves the UID
		// burnt (UIDNEXT one higher, no message), which the UID rules allow — it must never be lower than the model's
		noNext := func(bs []hist.BoxD) (string, map[string]int) {
			nx := map[string]int{}
			cp := append([]hist.BoxD(nil), bs...)
			for i := range cp {
				nx[cp[i].Name] = cp[i].Next
				cp[i].Next = 0
			}
			return hist.CanonDump(cp), nx
		}
		realBoxes := h.RealDump()
		skBoxes := h.ModelDump()
		var sk1Boxes []hist.BoxD
		real, realNext := noNext(realBoxes)
		sk, skNext := noNext(skBoxes)
		matchedNext := skNext
		upper := map[string]int{}
		for k, v := range skNext {
			upper[k] = v
		}
		v.Class = "acked"
		var sk1 string
		var sk1Next map[string]int
		if acked < len(steps) {
			apply(steps[acked])
			sk1Boxes = h.ModelDump()
			sk1, sk1Next = noNext(sk1Boxes)
			for k, n := range sk1Next {
				if n > upper[k] {
					upper[k] = n
				}
			}
		}
		if real != sk {
			switch {
			case acked < len(steps) && real == sk1:
				v.Class = "acked+inflight"
				matchedNext = sk1Next
			case acked < len(steps) && between(realBoxes, skBoxes, sk1Boxes) == "":
				// the step in flight was never acknowledged: it may be partly applied, as long as everything it shares with
				// the acknowledged state is intact, nothing foreign appears and no message is lost
				v.Class = "acked+part-of-inflight"
				v.Notes = append(v.Notes, "in-flight step partly applied: "+describe(steps[acked]))
			case acked < len(steps):
				bad("%s; the store of %s after the crash is neither the state after the %d acknowledged steps nor that state plus the step in flight (%s), nor in between\n  image:          %s\n  acknowledged:   %s\n  with in-flight: %s", between(realBoxes, skBoxes, sk1Boxes), histUser, acked, describe(steps[acked]), real, sk, sk1)
			default:
				bad("the store of %s after a clean stop is not the state after all %d steps\n  image: %s\n  model: %s", histUser, acked, real, sk)
			}
		}
		for name, n := range realNext {
			if m, ok := matchedNext[name]; ok && n < m {
				bad("mailbox %s: UIDNEXT %d after the crash is lower than the %d it had reached", name, n, m)
			}
			if u, ok := upper[name]; ok && n > u+1 && acked >= len(steps) {
				bad("mailbox %s: UIDNEXT %d after a clean stop, the model says %d", name, n, u)
			}
			if m, ok := matchedNext[name]; ok && n > m {
				v.Notes = append(v.Notes, fmt.Sprintf("%s: UIDNEXT %d > %d (a UID burnt by the crash)", name, n, m))
			}
		}
		// 3. every listed message is complete: its own text comes back
		c := w.Login(histUser)
		for _, bx := range h.RealDump() {
			if !c.Cmd("EXAMINE " + bx.Name).OK() {
				bad("mailbox %s is listed but cannot be opened", bx.Name)
				continue
			}
			last := 0
			for _, l := range bx.Links {
				if l.UID <= last {
					bad("mailbox %s: UIDs not strictly ascending (%d after %d)", bx.Name, l.UID, last)
				}
				last = l.UID
				if l.UID >= bx.Next {
					bad("mailbox %s: UID %d is not below UIDNEXT %d", bx.Name, l.UID, bx.Next)
				}
				if l.Msg < 0 {
					bad("mailbox %s: the message with UID %d is listed but has no readable Subject (incomplete message)", bx.Name, l.UID)
					continue
				}
				r := c.Cmd(fmt.Sprintf("UID FETCH %d (BODY.PEEK[])", l.UID))
				body := strings.Join(r.Untagged, "\n")
				for _, mk := range markers(l.Msg) {
					if !strings.Contains(body, mk) {
						bad("mailbox %s: message m%d (UID %d) is listed but its text %q does not come back (%d octets)", bx.Name, l.Msg, l.UID, mk, len(body))
						break
					}
				}
			}
			if bx.Messages != len(bx.Links) {
				bad("mailbox %s: STATUS MESSAGES %d but %d messages listed", bx.Name, bx.Messages, len(bx.Links))
			}
		}
		c.Close()
		m.Close()
	}
	// 4. acknowledged deliveries to the other recipients are there exactly once; unacknowledged ones at most once
	for i, s := range steps {
		if s.Kind != "mdeliver" || i > acked {
			continue
		}
		for _, t := range s.To {
			if t == histUser {
				continue
			}
			c := w.Login(t)
			n := 0
			if c.Cmd("EXAMINE INBOX").OK() {
				for _, l := range c.Cmd("FETCH 1:* (BODY.PEEK[])").Untagged {
					if strings.Contains(l, fmt.Sprintf("Subject: m%d\r\n", s.ID)) {
						n++
						for _, mk := range markers(s.ID) {
							if !strings.Contains(l, mk) {
								bad("delivery m%d to %s is listed but incomplete: %q missing", s.ID, t, mk)
							}
						}
					}
				}
			}
			c.Close()
			if i < acked && n != 1 {
				bad("delivery m%d to %s was acknowledged with 250 before the crash and is present %d times", s.ID, t, n)
			}
			if i == acked && n > 1 {
				bad("delivery m%d to %s (in flight at the crash) is present %d times", s.ID, t, n)
			}
		}
	}
	// 5. life goes on: a delivery and an APPEND for every user, a login for a user never seen
	for _, u := range append(ul, "afterwards@example.com") {
		_, data := w.Deliver("sender@example.org", []string{u}, hist.Msg(9000))
		if len(data) != 1 || !strings.HasPrefix(data[0], "250") {
			bad("after the crash a delivery to %s is answered %v", u, data)
		}
		c := w.Login(u)
		if r := c.Append("INBOX", "", hist.Msg(9001)); !r.OK() {
			bad("after the crash APPEND for %s is answered %q %s", u, r.Tagged, r.Err)
		}
		if c.Cmd("SELECT INBOX").OK() {
			found := 0
			for _, l := range c.Cmd("FETCH 1:* (BODY.PEEK[HEADER.FIELDS (SUBJECT)])").Untagged {
				if strings.Contains(l, "Subject: m9000\r\n") || strings.Contains(l, "Subject: m9001\r\n") {
					found++
				}
			}
			if found != 2 {
				bad("after the crash the new delivery and APPEND for %s are not both in INBOX (%d of 2)", u, found)
			}
		} else {
			bad("after the crash %s cannot select INBOX", u)
		}
		c.Close()
	}
	w.Close()
	finish()
}

// between: is the image a partial application of the step in flight? "" if so, else what is wrong. Every link and mailbox the
// two model states agree on must be there unchanged; every link of the image must be a link of one of them; no message may
// have fewer copies than in both.
func between(img, a, b []hist.BoxD) string {
	type key struct {
		box string
		uid int
	}
	links := func(bs []hist.BoxD) (map[key]string, map[string]bool, map[int]int) {
		m := map[key]string{}
		boxes := map[string]bool{}
		cnt := map[int]int{}
		for _, bx := range bs {
			boxes[bx.Name] = true
			for _, l := range bx.Links {
				fl := append([]string(nil), l.Flags...)
				sort.Strings(fl)
				m[key{bx.Name, l.UID}] = fmt.Sprintf("m%d:%s", l.Msg, strings.Join(fl, ","))
				cnt[l.Msg]++
			}
		}
		return m, boxes, cnt
	}
	li, bi, ci := links(img)
	la, ba, ca := links(a)
	lb, bb, cb := links(b)
	for k, v := range la {
		if lb[k] == v && li[k] != v {
			return fmt.Sprintf("%s UID %d (%s) belongs to the acknowledged state and is untouched by the step in flight, but the image has %q", k.box, k.uid, v, li[k])
		}
	}
	for k, v := range li {
		if la[k] != v && lb[k] != v {
			return fmt.Sprintf("%s UID %d (%s) is in neither model state", k.box, k.uid, v)
		}
	}
	for n := range ba {
		if bb[n] && !bi[n] {
			return "mailbox " + n + " is gone"
		}
	}
	for n := range bi {
		if !ba[n] && !bb[n] {
			return "mailbox " + n + " is in neither model state"
		}
	}
	for m, n := range ca {
		min := n
		if cb[m] < min {
			min = cb[m]
		}
		if ci[m] < min {
			return fmt.Sprintf("message m%d has %d copies, fewer than before (%d) and after (%d) the step in flight", m, ci[m], n, cb[m])
		}
	}
	return ""
}

// mkOp reads a plain "kind arg arg…" line (hist.ParseOp expects hex arguments)
func mkOp(l string) hist.Op {
	f := strings.Fields(l)
	return hist.Op{Kind: f[0], Args: f[1:]}
}

func describe(s step) string {
	switch s.Kind {
	case "op":
		return s.Op
	case "mdeliver":
		return fmt.Sprintf("deliver m%d to %v", s.ID, s.To)
	}
	return s.Kind + " " + s.User
}

// ---------------------------------------------------------------- the parent

func workBase() string {
	if st, err := os.Stat("/dev/shm"); err == nil && st.IsDir() {
		return "/dev/shm"
	}
	os.MkdirAll("/verif/.work", 0755)
	return "/verif/.work"
}

type runResult struct {
	callsAt []int // dry run: the storage-call count after each acknowledged step
	acks    []string
	done    bool
	killed  bool
	errOut  string
}

func runWorkload(dir, stepsFile string, killAt int, countFile string) runResult {
	cmd := exec.Command(selfExe(), "-child-workload", dir, stepsFile)
	cmd.Env = append(os.Environ(), "LD_PRELOAD="+shimPath, fmt.Sprintf("CRASH_AT=%d", killAt))
	if countFile != "" {
		cmd.Env = append(cmd.Env, "CRASH_COUNT="+countFile)
	}
	so, _ := cmd.StdoutPipe()
	var eb strings.Builder
	cmd.Stderr = &eb
	var res runResult
	if err := cmd.Start(); err != nil {
		res.errOut = err.Error()
		return res
	}
	sc := bufio.NewScanner(so)
	sc.Buffer(make([]byte, 1<<20), 1<<20)
	for sc.Scan() {
		l := sc.Text()
		if strings.HasPrefix(l, "ack ") {
			if i := strings.Index(l, " calls="); i >= 0 {
				var n int
				fmt.Sscan(l[i+7:], &n)
				res.callsAt = append(res.callsAt, n)
				l = l[:i]
			}
			res.acks = append(res.acks, l)
		}
		if l == "done" {
			res.done = true
		}
	}
	err := cmd.Wait()
	res.killed = err != nil
	res.errOut = eb.String()
	return res
}

func countSyscalls(dir, stepsFile string) (int, runResult, error) {
	cf := dir + ".count"
	defer os.Remove(cf)
	res := runWorkload(dir, stepsFile, 0, cf)
	b, err := os.ReadFile(cf)
	if err != nil {
		return 0, res, err
	}
	var n int
	fmt.Sscan(strings.TrimSpace(string(b)), &n)
	return n, res, nil
}

func audit(dir, stepsFile string, acked int, driver string) (verdict, error) {
	cmd := exec.Command(selfExe(), "-child-audit", dir, stepsFile, fmt.Sprint(acked), driver)
	var eb strings.Builder
	cmd.Stderr = &eb
	out, err := cmd.Output()
	var v verdict
	lines := strings.Split(strings.TrimSpace(string(out)), "\n")
	if jerr := json.Unmarshal([]byte(lines[len(lines)-1]), &v); jerr != nil {
		return v, fmt.Errorf("audit process: %v %v %s", err, jerr, eb.String())
	}
	return v, nil
}

// selfExe: the absolute path of this binary (the parent may have changed directory)
func selfExe() string {
	if p, err := os.Executable(); err == nil {
		return p
	}
	return os.Args[0]
}

func main() {
	if len(os.Args) > 3 && os.Args[1] == "-child-workload" {
		childWorkload(os.Args[2], os.Args[3])
		return
	}
	if len(os.Args) > 5 && os.Args[1] == "-child-audit" {
		var k int
		fmt.Sscan(os.Args[4], &k)
		childAudit(os.Args[2], os.Args[3], k, os.Args[5])
		return
	}
	o, rep := hx.Init("C07")
	rep.Rule = "one deterministic workload per seed (first contact with five users, single and three-recipient deliveries, APPEND of plain and multipart mail with a part above the out-of-line threshold, COPY, UID COPY, STORE / UID STORE, EXPUNGE, CREATE / RENAME (also of INBOX) / DELETE, SUBSCRIBE, then random operations) killed when about to make storage I/O call number N (pwrite, fsync, fdatasync, unlink, ftruncate, rename, counted process-wide) for N sampled over the whole run — quick: about 60 crash points, thorough: every point of a longer workload — plus the clean stop; each image audited by a fresh process; distinct by crash point; all non-trivial"
	base, err := os.MkdirTemp(workBase(), "raven-verif-c07-")
	if err != nil {
		rep.Violate("broken-correspondence", "workdir", err.Error(), nil)
		rep.Finish()
	}
	defer os.RemoveAll(base)
	cleanup := func() { os.RemoveAll(base) }
	shimPath = base + "/crashshim.so"
	os.WriteFile(base+"/shim.c", shimSrc, 0644)
	if out, err := exec.Command("gcc", "-shared", "-fPIC", "-O1", "-o", shimPath, base+"/shim.c", "-ldl").CombinedOutput(); err != nil {
		rep.Violate("broken-correspondence", "crash shim", fmt.Sprintf("cannot compile the LD_PRELOAD shim: %v %s", err, out), nil)
		cleanup()
		rep.Finish()
	}
	steps := workload(o.Seed, o.Thorough)
	stepsFile := base + "/steps.json"
	sb, _ := json.Marshal(steps)
	os.WriteFile(stepsFile, sb, 0644)

	// dry run: how many crash points are there, and what does a complete run acknowledge
	dry := base + "/dry"
	os.MkdirAll(dry, 0755)
	total, full, err := countSyscalls(dry, stepsFile)
	if err != nil || !full.done || total == 0 {
		rep.Violate("broken-correspondence", "dry run", fmt.Sprintf("the workload did not complete in the dry run: %v (acks %d, storage calls %d)", err, len(full.acks), total), nil)
		cleanup()
		rep.Finish()
	}
	rep.Note("workload of %d steps makes %d storage I/O system calls", len(steps), total)
	for i, a := range full.acks {
		f := strings.Fields(a)
		if len(f) >= 4 && (f[3] == "no" || f[3] == "bad" || f[3] == "false") {
			rep.Note("step %d (%s) is answered %s in the uninterrupted run", i, describe(steps[i]), f[3])
		}
	}
	// the clean stop first
	var points []int
	if o.Replay != "" {
		for _, l := range hx.ReadLines(o.Replay) {
			f := strings.Fields(l)
			if len(f) == 2 && f[0] == "kill" {
				var n int
				fmt.Sscan(f[1], &n)
				points = append(points, n)
			}
		}
	} else {
		points = append(points, 0) // no kill: clean stop and restart
		// quick: a few crash points inside every step of the workload (so that short multi-statement steps such as RENAME of
		// INBOX are hit as surely as the thousand-call store creations), thorough: every point
		if !o.Thorough && len(full.callsAt) == len(full.acks) {
			rng := hx.NewRng(o.Seed)
			prev := 0
			for si, end := range full.callsAt {
				n := end - prev
				k := 4
				if n > 300 {
					k = 7
				}
				// steps made of several statements outside one transaction get a dense sample: their windows are a few calls wide
				if si < len(steps) && steps[si].Kind == "op" {
					switch strings.Fields(steps[si].Op)[0] {
					case "rename", "delete", "expunge", "copy", "uidcopy":
						if k = n / 3; k > 80 {
							k = 80
						}
					}
				}
				if n < k {
					k = n
				}
				seen := map[int]bool{}
				for j := 0; j < k; j++ {
					p := prev + 1 + rng.Intn(n)
					if n >= 8 && j < 2 {
						// the middle half of a step is where its statements are
						p = prev + 1 + n/4 + rng.Intn(n/2+1)
					}
					if !seen[p] {
						seen[p] = true
						points = append(points, p)
					}
				}
				prev = end
			}
		}
		stride := total / 60
		if !o.Thorough && len(points) > 1 {
			stride = total + 1 // the stratified points are the quick sample
		}
		if o.Thorough {
			stride = 1
			if total > 2500 {
				stride = total / 2500
			}
		}
		if stride < 1 {
			stride = 1
		}
		rng := hx.NewRng(o.Seed)
		for n := 1; n <= total; n += stride {
			p := n
			if stride > 1 {
				p = n + rng.Intn(stride)
			}
			if p <= total {
				points = append(points, p)
			}
		}
	}
	type job struct{ n int }
	jobs := make(chan int)
	var mu sync.Mutex
	var wg sync.WaitGroup
	workers := 8
	nviol := 0
	for wk := 0; wk < workers; wk++ {
		wg.Add(1)
		go func() {
			defer wg.Done()
			for n := range jobs {
				dir := fmt.Sprintf("%s/k%d", base, n)
				os.MkdirAll(dir, 0755)
				res := runWorkload(dir, stepsFile, n, "")
				acked := len(res.acks)
				// the acknowledgements must be a prefix of the uninterrupted run's
				prefixOK := acked <= len(full.acks)
				for i := 0; prefixOK && i < acked; i++ {
					if res.acks[i] != full.acks[i] {
						prefixOK = false
					}
				}
				var v verdict
				var aerr error
				if prefixOK {
					v, aerr = audit(dir, stepsFile, acked, o.Driver)
				}
				os.RemoveAll(dir)
				mu.Lock()
				rep.Case(fmt.Sprintf("kill@%d", n), true)
				switch {
				case n == 0:
					rep.Hit("clean-stop")
				case res.done:
					rep.Hit("kill-after-end")
				default:
					rep.Hit("killed")
				}
				if acked < len(steps) {
					rep.Hit("in-flight:" + steps[acked].Kind + ":" + strings.Fields(steps[acked].Op + steps[acked].User + " x")[0])
				}
				replay := []string{fmt.Sprintf("kill %d", n)}
				if !prefixOK {
					rep.Violate("broken-correspondence", "determinism", fmt.Sprintf("kill@%d: the acknowledgements %v are not a prefix of the uninterrupted run's", n, res.acks), replay)
				} else if aerr != nil {
					rep.Violate("broken-correspondence", "audit", fmt.Sprintf("kill@%d: %v", n, aerr), replay)
				} else {
					rep.Hit("image:" + v.Class)
					if len(v.Problems) > 0 && nviol < 6 {
						nviol++
						inflight := "nothing (the workload had ended)"
						if acked < len(steps) {
							inflight = describe(steps[acked])
						}
						rep.Violate("impl-violation", "crash image audit (Props.C07)", fmt.Sprintf("process killed at storage I/O system call %d of %d, %d steps acknowledged, in flight: %s — %s", n, total, acked, inflight, strings.Join(v.Problems, "; ")), replay)
					}
				}
				mu.Unlock()
			}
		}()
	}
	for _, n := range points {
		jobs <- n
	}
	close(jobs)
	wg.Wait()
	rep.Sample(fmt.Sprintf("%d crash points of %d; steps: %d", len(points), total, len(steps)))
	cleanup()
	rep.Finish()
}

var _ = time.Second
