// C08 correspondence and witness search: concurrent writers on the real code — goroutines on one database manager, two
// managers on one directory (as the separate IMAP and delivery services are), and separate processes — with every reply kept.
// Afterwards the stores are audited against what the Durable model proves for every schedule: each acknowledged message is
// there exactly once with its own text, no two messages of a mailbox share a UID, UIDNEXT is above all of them, STATUS agrees
// with the listing, every acknowledged flag addition is in effect, and nobody was refused for a reason that is not its own.
package main

import (
	"database/sql"
	"fmt"
	"os"
	"os/exec"
	"regexp"
	"sort"
	"strings"
	"sync"
	"time"

	"raven/internal/db"
	"raven/internal/delivery/storage"
	"raven/verifh/hx"
	"raven/verifh/world"
)

func msg(id int) string {
	return fmt.Sprintf("From: sender@example.org\r\nTo: rcpt@example.com\r\nSubject: m%d\r\nMessage-ID: <m%d@example.org>\r\nDate: Mon, 02 Jan 2006 15:04:05 +0000\r\n\r\nbody of message %d MARK-%d\r\n", id, id, id, id)
}

type outcome struct {
	writer int
	kind   string // deliver | append | copy | store | expunge | create
	id     int    // message id (adds), keyword number (store)
	to     string
	ok     bool
	reply  string
}

type round struct {
	name string
	out  []outcome
	mu   sync.Mutex
}

func (r *round) add(o outcome) { r.mu.Lock(); r.out = append(r.out, o); r.mu.Unlock() }

var reFetchUID = regexp.MustCompile(`UID (\d+)`)
var reAppendUID = regexp.MustCompile(`APPENDUID \d+ (\d+)`)
var reSubject = regexp.MustCompile(`Subject: m(\d+)\r\n`)
var reFlagsList = regexp.MustCompile(`FLAGS \(([^)]*)\)`)

type listing struct {
	uids   []int
	msgs   []int
	flags  map[int][]string // by uid
	bodyOK map[int]bool
	status int
	next   int
}

func list(w *world.World, user, box string) (listing, bool) {
	l := listing{flags: map[int][]string{}, bodyOK: map[int]bool{}}
	c := w.Login(user)
	defer c.Close()
	st := c.Cmd("STATUS " + box + " (MESSAGES UIDNEXT)")
	for _, x := range st.Untagged {
		fmt.Sscanf(x[strings.Index(x, "(MESSAGES"):], "(MESSAGES %d UIDNEXT %d)", &l.status, &l.next)
	}
	if !c.Cmd("EXAMINE " + box).OK() {
		return l, false
	}
	for _, x := range c.Cmd("UID FETCH 1:* (FLAGS BODY.PEEK[])").Untagged {
		u := reFetchUID.FindStringSubmatch(x)
		if u == nil {
			continue
		}
		var uid, m int
		fmt.Sscan(u[1], &uid)
		m = -1
		if s := reSubject.FindStringSubmatch(x); s != nil {
			fmt.Sscan(s[1], &m)
		}
		l.uids = append(l.uids, uid)
		l.msgs = append(l.msgs, m)
		if f := reFlagsList.FindStringSubmatch(x); f != nil {
			l.flags[uid] = strings.Fields(f[1])
		}
		l.bodyOK[uid] = m >= 0 && strings.Contains(x, fmt.Sprintf("MARK-%d", m))
	}
	return l, true
}

// auditBox applies the invariants of Props.C08 to one mailbox
func auditBox(rep *hx.Report, rd *round, w *world.World, user, box string, replay []string) listing {
	l, ok := list(w, user, box)
	if !ok {
		rep.Violate("impl-violation", "audit", fmt.Sprintf("%s: %s of %s cannot be opened after the round", rd.name, box, user), replay)
		return l
	}
	seen := map[int]bool{}
	last := 0
	for i, u := range l.uids {
		if seen[u] {
			rep.Violate("impl-violation", "UIDs distinct (Props.C08.uids_distinct)", fmt.Sprintf("%s: two messages of %s/%s share UID %d", rd.name, user, box, u), replay)
		}
		seen[u] = true
		if u <= last {
			rep.Violate("impl-violation", "UIDs ascending", fmt.Sprintf("%s: %s/%s lists UID %d after %d", rd.name, user, box, u, last), replay)
		}
		last = u
		if u >= l.next {
			rep.Violate("impl-violation", "UIDNEXT above every UID (Props.C08.uids_distinct)", fmt.Sprintf("%s: %s/%s has UID %d but UIDNEXT %d", rd.name, user, box, u, l.next), replay)
		}
		if !l.bodyOK[u] {
			rep.Violate("impl-violation", "own content", fmt.Sprintf("%s: %s/%s UID %d (m%d) does not return its own text", rd.name, user, box, u, l.msgs[i]), replay)
		}
	}
	if l.status != len(l.uids) {
		rep.Violate("impl-violation", "counters agree with the stored messages", fmt.Sprintf("%s: %s/%s STATUS MESSAGES %d but %d messages listed", rd.name, user, box, l.status, len(l.uids)), replay)
	}
	return l
}

// account: every acknowledged addition to (user, box) is there exactly once; every addition there was acknowledged or at
// least attempted; every refusal must be the writer's own fault (there is none in these workloads)
func account(rep *hx.Report, rd *round, l listing, user, box string, replay []string) {
	cnt := map[int]int{}
	for _, m := range l.msgs {
		cnt[m]++
	}
	attempted := map[int]bool{}
	for _, o := range rd.out {
		if o.to != user+"/"+box {
			continue
		}
		switch o.kind {
		case "deliver", "append":
			attempted[o.id] = true
			if o.ok && cnt[o.id] != 1 {
				rep.Violate("impl-violation", "acknowledged ⇒ present exactly once (Props.C08.ack_exactly_once)", fmt.Sprintf("%s: %s of m%d into %s/%s was acknowledged (%s) and the message is there %d times", rd.name, o.kind, o.id, user, box, o.reply, cnt[o.id]), replay)
			}
			if !o.ok {
				rep.Hit("refused:" + o.kind)
				if cnt[o.id] > 0 {
					rep.Violate("impl-violation", "not applied ⇒ reported as failed, and conversely", fmt.Sprintf("%s: %s of m%d into %s/%s was refused (%s) and the message is there all the same", rd.name, o.kind, o.id, user, box, o.reply), replay)
				}
				if !strings.HasPrefix(o.reply, "4") {
					rep.Violate("impl-violation", "no spurious permanent failure (Props.C08.no_spurious_failure)", fmt.Sprintf("%s: %s of m%d into %s/%s, which succeeds on its own, was answered with a permanent failure while other sessions were active: %s", rd.name, o.kind, o.id, user, box, o.reply), replay)
				}
			}
		}
	}
	for m, n := range cnt {
		if m >= 0 && !attempted[m] && n > 0 && m < 900000 {
			_ = n
		}
	}
}

func deliverVia(stor *storage.Storage, w *world.World, to string, id int) (bool, string) {
	// through a real LMTP session bound to the given storage (manager)
	old := w.Stor
	_ = old
	_, data := w.DeliverWith(stor, "sender@example.org", []string{to}, msg(id))
	if len(data) == 1 {
		return strings.HasPrefix(data[0], "2"), data[0]
	}
	return false, fmt.Sprint(data)
}

func childDeliver(dir string, args []string) {
	// separate process: deliver messages id0..id0+n-1 to addr through an own database manager
	os.Chdir(dir)
	hx.Quiet()
	var id0, n int
	fmt.Sscan(args[1], &id0)
	fmt.Sscan(args[2], &n)
	mgr, err := db.NewDBManager(dir + "/data")
	if err != nil {
		fmt.Fprintln(hx.Stdout, "fatal", err)
		os.Exit(3)
	}
	w := &world.World{Dir: dir, Mgr: mgr, Stor: storage.NewStorage(mgr)}
	w.LCfg = world.DefaultLMTPConfig()
	for i := 0; i < n; i++ {
		_, data := w.Deliver("sender@example.org", []string{args[0]}, msg(id0+i))
		r := fmt.Sprint(data)
		if len(data) == 1 {
			r = data[0]
		}
		fmt.Fprintf(hx.Stdout, "res %d %s\n", id0+i, strings.ReplaceAll(r, "\n", " "))
	}
	mgr.Close()
	os.Exit(0)
}

// selfExe: the absolute path of this binary (the parent may have changed directory)
func selfExe() string {
	if p, err := os.Executable(); err == nil {
		return p
	}
	return os.Args[0]
}

func main() {
	if len(os.Args) > 5 && os.Args[1] == "-child-deliver" {
		childDeliver(os.Args[2], os.Args[3:])
		return
	}
	o, rep := hx.Init("C08")
	hx.Quiet()
	rep.Rule = "rounds of k = 2..16 concurrent writers with every reply kept: deliveries to one recipient; deliveries to different recipients; first deliveries to a user (and a domain) that does not exist yet; the same through two database managers on one directory and through separate processes; deliveries ∥ APPEND ∥ UID COPY into the same mailbox; STORE +FLAGS of distinct keywords on one message from several sessions; STORE ∥ EXPUNGE; concurrent CREATE of one name; then the audit of every mailbox touched; distinct by (round kind, k, repetition); all non-trivial"
	dir, cleanup := hx.WorkDir("c08")
	defer cleanup()
	w, err := world.New(dir, "example.com")
	if err != nil {
		rep.Violate("broken-correspondence", "world", err.Error(), nil)
		rep.Finish()
	}
	defer w.Close()
	// the second manager, as the delivery service has it
	mgr2, err := db.NewDBManager(dir + "/data")
	if err != nil {
		rep.Violate("broken-correspondence", "world", "second manager: "+err.Error(), nil)
		rep.Finish()
	}
	defer mgr2.Close()
	stor2 := storage.NewStorage(mgr2)
	reps := 3
	ks := []int{2, 4, 8}
	if o.Thorough {
		reps = 12
		ks = []int{2, 3, 4, 8, 16}
	}
	only := ""
	if o.Replay != "" {
		for _, l := range hx.ReadLines(o.Replay) {
			f := strings.Fields(l)
			if len(f) >= 2 && f[0] == "round" {
				only = f[1]
			}
		}
	}
	nextID := 1
	ids := func(n int) int { a := nextID; nextID += n; return a }
	userN := 0
	run := func(kind string, k int, body func(rd *round, k int) (users []string, boxes []string)) {
		if only != "" && only != kind {
			return
		}
		for r := 0; r < reps && len(rep.Violations) < 6; r++ {
			rd := &round{name: fmt.Sprintf("%s k=%d #%d", kind, k, r)}
			rep.Case(rd.name, true)
			rep.Hit("round:" + kind)
			replay := []string{"round " + kind}
			users, boxes := body(rd, k)
			for i, u := range users {
				l := auditBox(rep, rd, w, u, boxes[i], replay)
				account(rep, rd, l, u, boxes[i], replay)
			}
			for _, o := range rd.out {
				if o.ok {
					rep.Hit("ok:" + o.kind)
				}
			}
		}
	}
	newUser := func() string { userN++; return fmt.Sprintf("c%dx%d@example.com", o.Seed, userN) }
	existing := func() string {
		u := newUser()
		c := w.Login(u)
		c.Close()
		return u
	}

	for _, k := range ks {
		// 1. k deliveries to one existing recipient, one manager
		run("deliver-same", k, func(rd *round, k int) ([]string, []string) {
			u := existing()
			base := ids(k)
			var wg sync.WaitGroup
			for i := 0; i < k; i++ {
				wg.Add(1)
				go func(i int) {
					defer wg.Done()
					ok, r := deliverVia(w.Stor, w, u, base+i)
					rd.add(outcome{i, "deliver", base + i, u + "/INBOX", ok, r})
				}(i)
			}
			wg.Wait()
			return []string{u}, []string{"INBOX"}
		})
		// 1b. a delivery into a folder that another session has just deleted: the delivery service that filed mail there a
		// moment ago makes it anew (as a freshly started one does); other deliveries to the same store go on meanwhile
		run("deliver-into-deleted-folder", k, func(rd *round, k int) ([]string, []string) {
			u := existing()
			base := ids(k + 2)
			spam := func(id int) (bool, string) {
				m := strings.Replace(msg(id), "\r\n\r\n", "\r\nX-Spam-Status: Yes, score=9.9\r\n\r\n", 1)
				_, data := w.DeliverWith(w.Stor, "sender@example.org", []string{u}, m)
				if len(data) == 1 {
					return strings.HasPrefix(data[0], "2"), data[0]
				}
				return false, fmt.Sprint(data)
			}
			spam(base + k) // the service has filed into this user's Spam before (not judged: the DELETE takes it away)
			c := w.Login(u)
			del := c.Cmd("DELETE Spam")
			c.Close()
			rep.Hit("folder-deleted:" + del.Status())
			var wg sync.WaitGroup
			for i := 0; i < k-1; i++ {
				wg.Add(1)
				go func(i int) {
					defer wg.Done()
					ok, r := deliverVia(w.Stor, w, u, base+i)
					rd.add(outcome{i, "deliver", base + i, u + "/INBOX", ok, r})
				}(i)
			}
			ok, r := spam(base + k + 1)
			rd.add(outcome{k, "deliver", base + k + 1, u + "/Spam", ok, r})
			wg.Wait()
			return []string{u, u}, []string{"INBOX", "Spam"}
		})
		// 1c. two sessions on one mailbox move the same messages to Spam by the Junk keyword, one with a single STORE over the
		// whole range, the other message by message from the top: every message ends up exactly once, in INBOX or in Spam
		run("junk-moves-from-two-sessions", k, func(rd *round, k int) ([]string, []string) {
			u := existing()
			n := 6 + k
			base := ids(n)
			c0 := w.Login(u)
			for i := 0; i < n; i++ {
				c0.Append("INBOX", "", msg(base+i))
			}
			c0.Close()
			var wg sync.WaitGroup
			wg.Add(2)
			go func() {
				defer wg.Done()
				c := w.Login(u)
				c.Cmd("SELECT INBOX")
				c.Cmd(fmt.Sprintf("STORE 1:%d +FLAGS.SILENT (Junk)", n))
				c.Close()
			}()
			go func() {
				defer wg.Done()
				c := w.Login(u)
				c.Cmd("SELECT INBOX")
				for uid := n; uid > n/2; uid-- {
					c.Cmd(fmt.Sprintf("UID STORE %d +FLAGS.SILENT (Junk)", uid))
				}
				c.Close()
			}()
			wg.Wait()
			seen := map[int]int{}
			for _, box := range []string{"INBOX", "Spam"} {
				if l, ok := list(w, u, box); ok {
					for _, m := range l.msgs {
						seen[m]++
					}
				}
			}
			for i := 0; i < n; i++ {
				if seen[base+i] != 1 {
					rep.Violate("impl-violation", "every acknowledged message present exactly once (Props.C08.ack_exactly_once)", fmt.Sprintf("%s: after two sessions moved the messages of %s/INBOX to Spam by the Junk keyword (one STORE 1:%d, the other UID STORE from the top), m%d is there %d times in INBOX and Spam together", rd.name, u, n, base+i, seen[base+i]), []string{"round junk-moves-from-two-sessions"})
					break
				}
			}
			return nil, nil
		})
		// 2. the same through two managers
		run("deliver-same-two-managers", k, func(rd *round, k int) ([]string, []string) {
			u := existing()
			base := ids(k)
			var wg sync.WaitGroup
			for i := 0; i < k; i++ {
				wg.Add(1)
				go func(i int) {
					defer wg.Done()
					st := w.Stor
					if i%2 == 1 {
						st = stor2
					}
					ok, r := deliverVia(st, w, u, base+i)
					rd.add(outcome{i, "deliver", base + i, u + "/INBOX", ok, r})
				}(i)
			}
			wg.Wait()
			return []string{u}, []string{"INBOX"}
		})
		// 3. first contact: nobody has seen this user yet (two managers)
		run("deliver-first-contact", k, func(rd *round, k int) ([]string, []string) {
			u := newUser()
			base := ids(k)
			var wg sync.WaitGroup
			for i := 0; i < k; i++ {
				wg.Add(1)
				go func(i int) {
					defer wg.Done()
					st := w.Stor
					if i%2 == 1 {
						st = stor2
					}
					ok, r := deliverVia(st, w, u, base+i)
					rd.add(outcome{i, "deliver", base + i, u + "/INBOX", ok, r})
				}(i)
			}
			wg.Wait()
			return []string{u}, []string{"INBOX"}
		})
		// 4. first contact with a new domain, different users
		run("deliver-new-domain", k, func(rd *round, k int) ([]string, []string) {
			userN++
			dom := fmt.Sprintf("dom%dx%d.example", o.Seed, userN)
			base := ids(k)
			var us, bs []string
			var wg sync.WaitGroup
			for i := 0; i < k; i++ {
				u := fmt.Sprintf("p%d@%s", i, dom)
				us = append(us, u)
				bs = append(bs, "INBOX")
				wg.Add(1)
				go func(i int, u string) {
					defer wg.Done()
					st := w.Stor
					if i%2 == 1 {
						st = stor2
					}
					ok, r := deliverVia(st, w, u, base+i)
					rd.add(outcome{i, "deliver", base + i, u + "/INBOX", ok, r})
				}(i, u)
			}
			wg.Wait()
			return us, bs
		})
		// 5. deliveries ∥ APPEND ∥ UID COPY into one mailbox
		run("mixed-adds", k, func(rd *round, k int) ([]string, []string) {
			u := existing()
			seed := ids(2)
			c0 := w.Login(u)
			c0.Append("INBOX", "", msg(seed))
			c0.Append("INBOX", "", msg(seed+1))
			c0.Close()
			rd.add(outcome{-1, "append", seed, u + "/INBOX", true, "OK"})
			rd.add(outcome{-1, "append", seed + 1, u + "/INBOX", true, "OK"})
			base := ids(k)
			var wg sync.WaitGroup
			for i := 0; i < k; i++ {
				wg.Add(1)
				go func(i int) {
					defer wg.Done()
					switch i % 3 {
					case 0:
						st := w.Stor
						if i%2 == 1 {
							st = stor2
						}
						ok, r := deliverVia(st, w, u, base+i)
						rd.add(outcome{i, "deliver", base + i, u + "/INBOX", ok, r})
					case 1:
						c := w.Login(u)
						r := c.Append("INBOX", "", msg(base+i))
						c.Close()
						rd.add(outcome{i, "append", base + i, u + "/INBOX", r.OK(), strings.TrimSpace(r.Tagged + " " + r.Err)})
					case 2:
						c := w.Login(u)
						c.Cmd("SELECT INBOX")
						r := c.Cmd("UID COPY 1 INBOX")
						c.Close()
						rd.add(outcome{i, "copy", seed, u + "/INBOX", r.OK(), strings.TrimSpace(r.Tagged + " " + r.Err)})
					}
				}(i)
			}
			wg.Wait()
			// copies of the seed message: 1 + acknowledged copies (checked here, the generic account handles the adds)
			l, _ := list(w, u, "INBOX")
			// the UID announced by APPENDUID is the UID under which that message is found (C03, under concurrency)
			for _, o := range rd.out {
				if o.kind != "append" || !o.ok {
					continue
				}
				if m := reAppendUID.FindStringSubmatch(o.reply); m != nil {
					var uid int
					fmt.Sscan(m[1], &uid)
					found := -2
					for i, x := range l.uids {
						if x == uid {
							found = l.msgs[i]
						}
					}
					if found != o.id {
						rep.Violate("impl-violation", "APPENDUID names the appended message (C03, concurrent writers)", fmt.Sprintf("%s: APPEND of m%d was answered %q, but UID %d holds m%d", rd.name, o.id, o.reply, uid, found), []string{"round mixed-adds"})
					}
				}
			}
			n := 0
			for _, m := range l.msgs {
				if m == seed {
					n++
				}
			}
			acks, tried := 0, 0
			for _, o := range rd.out {
				if o.kind == "copy" {
					tried++
					if o.ok {
						acks++
					}
				}
			}
			if n < 1+acks || n > 1+tried {
				rep.Violate("impl-violation", "acknowledged ⇒ present exactly once (Props.C08.ack_exactly_once)", fmt.Sprintf("%s: %d UID COPYs of m%d acknowledged (%d tried), %d copies in the mailbox besides… expected %d..%d in all", rd.name, acks, seed, tried, n, 1+acks, 1+tried), []string{"round mixed-adds"})
			}
			// drop the seed message from the generic exactly-once accounting (it legitimately occurs several times)
			var keep []outcome
			for _, o := range rd.out {
				if !(o.kind == "append" && o.id == seed) {
					keep = append(keep, o)
				}
			}
			rd.out = keep
			return []string{u}, []string{"INBOX"}
		})
		// 5b. the same new out-of-line part arrives in several deliveries at once (a newsletter), next to deliveries with
		// large parts of their own: every message reads back with its own parts
		run("same-new-blob", k, func(rd *round, k int) ([]string, []string) {
			base := ids(k)
			news := fmt.Sprintf("NEWS-%d ", base) + strings.Repeat(fmt.Sprintf("newsletter line %d\r\n", base), 70)
			var us, bs []string
			var wg sync.WaitGroup
			for i := 0; i < k; i++ {
				us = append(us, existing())
				bs = append(bs, "INBOX")
			}
			// a schedule rather than luck: another session holds the write lock of the shared database for a moment (as a
			// long COPY or a delivery's own writes would), so that all the deliveries get past their look-ups — reads are
			// not blocked — and queue up at their first write
			var hold *sql.Tx
			if hdb, err := sql.Open("sqlite3", "file:"+dir+"/data/shared.db?_txlock=immediate&_busy_timeout=5000"); err == nil {
				defer hdb.Close()
				if tx, err := hdb.Begin(); err == nil {
					hold = tx
				}
			}
			for i := 0; i < k; i++ {
				u := us[i]
				wg.Add(1)
				go func(i int, u string) {
					defer wg.Done()
					id := base + i
					big := news
					if i%3 == 2 {
						big = fmt.Sprintf("BIGPRIV-%d ", id) + strings.Repeat(fmt.Sprintf("private line %d\r\n", id), 70)
					}
					m := fmt.Sprintf("From: sender@example.org\r\nTo: rcpt@example.com\r\nSubject: m%d\r\nMIME-Version: 1.0\r\nContent-Type: multipart/mixed; boundary=nb\r\n\r\n--nb\r\nContent-Type: text/plain\r\n\r\nMARK-%d PRIV-%d\r\n--nb\r\nContent-Type: text/plain\r\n\r\n%s--nb--\r\n", id, id, id, big)
					st := w.Stor
					if i%2 == 1 {
						st = stor2
					}
					_, data := w.DeliverWith(st, "sender@example.org", []string{u}, m)
					ok, r := len(data) == 1 && strings.HasPrefix(data[0], "2"), fmt.Sprint(data)
					rd.add(outcome{i, "deliver", id, u + "/INBOX", ok, r})
				}(i, u)
			}
			if hold != nil {
				time.Sleep(400 * time.Millisecond)
				hold.Commit()
			}
			wg.Wait()
			for i, u := range us {
				id := base + i
				c := w.Login(u)
				c.Cmd("EXAMINE INBOX")
				txt := strings.Join(c.Cmd("FETCH 1:* (BODY.PEEK[])").Untagged, "\n")
				c.Close()
				want := fmt.Sprintf("NEWS-%d ", base)
				if i%3 == 2 {
					want = fmt.Sprintf("BIGPRIV-%d ", id)
				}
				if !strings.Contains(txt, fmt.Sprintf("PRIV-%d", id)) || !strings.Contains(txt, want) {
					foreign := ""
					for j := range us {
						if j != i && strings.Contains(txt, fmt.Sprintf("BIGPRIV-%d ", base+j)) {
							foreign = fmt.Sprintf(" — it carries the private part of m%d, delivered to %s", base+j, us[j])
						}
					}
					rep.Violate("impl-violation", "every acknowledged message with its own content (Props.C08.own_content)", fmt.Sprintf("%s: m%d for %s was acknowledged and does not read back with its own large part (%q expected)%s", rd.name, id, u, strings.TrimSpace(want), foreign), []string{"round same-new-blob"})
				}
			}
			return us, bs
		})
		// 6. k sessions each add their own keyword to one message: every acknowledged addition must be in effect
		run("store-keywords", k, func(rd *round, k int) ([]string, []string) {
			u := existing()
			seed := ids(1)
			c0 := w.Login(u)
			c0.Append("INBOX", "", msg(seed))
			c0.Close()
			rd.add(outcome{-1, "append", seed, u + "/INBOX", true, "OK"})
			var wg sync.WaitGroup
			for i := 0; i < k; i++ {
				wg.Add(1)
				go func(i int) {
					defer wg.Done()
					c := w.Login(u)
					c.Cmd("SELECT INBOX")
					r := c.Cmd(fmt.Sprintf("STORE 1 +FLAGS.SILENT (kw%d)", i))
					c.Close()
					rd.add(outcome{i, "store", i, u + "/INBOX", r.OK(), strings.TrimSpace(r.Tagged + " " + r.Err)})
				}(i)
			}
			wg.Wait()
			l, _ := list(w, u, "INBOX")
			have := map[string]bool{}
			for _, fl := range l.flags {
				for _, f := range fl {
					have[f] = true
				}
			}
			var lost []string
			for _, o := range rd.out {
				if o.kind == "store" && o.ok && !have[fmt.Sprintf("kw%d", o.id)] {
					lost = append(lost, fmt.Sprintf("kw%d", o.id))
				}
			}
			if len(lost) > 0 {
				sort.Strings(lost)
				rep.Violate("impl-violation", "acknowledged flag addition in effect (Props.C08.conditional_store_keeps_acked)", fmt.Sprintf("%s: %d of %d concurrent STORE +FLAGS were answered OK but their keyword is not on the message afterwards (%v)", rd.name, len(lost), k, lost), []string{"round store-keywords"})
			}
			return []string{u}, []string{"INBOX"}
		})
		// 7. concurrent CREATE of one name: exactly one OK
		run("create-same", k, func(rd *round, k int) ([]string, []string) {
			u := existing()
			var wg sync.WaitGroup
			for i := 0; i < k; i++ {
				wg.Add(1)
				go func(i int) {
					defer wg.Done()
					c := w.Login(u)
					r := c.Cmd("CREATE Shared")
					c.Close()
					rd.add(outcome{i, "create", 0, u + "/Shared", r.OK(), r.Tagged})
				}(i)
			}
			wg.Wait()
			n := 0
			for _, o := range rd.out {
				if o.ok {
					n++
				}
			}
			c := w.Login(u)
			cnt := 0
			for _, l := range c.Cmd(`LIST "" "Shared"`).Untagged {
				if strings.HasPrefix(l, "* LIST") {
					cnt++
				}
			}
			c.Close()
			if n != 1 || cnt != 1 {
				rep.Violate("impl-violation", "not applied ⇒ reported as failed", fmt.Sprintf("%s: %d of %d concurrent CREATE Shared were answered OK and the name is listed %d times", rd.name, n, k, cnt), []string{"round create-same"})
			}
			return []string{u}, []string{"Shared"}
		})
	}
	// 8. separate processes on the data directory
	if only == "" || only == "processes" {
		for r := 0; r < reps && len(rep.Violations) < 6; r++ {
			for _, k := range []int{2, 4} {
				rd := &round{name: fmt.Sprintf("processes k=%d #%d", k, r)}
				rep.Case(rd.name, true)
				rep.Hit("round:processes")
				u := existing()
				if r%2 == 1 {
					u = newUser() // first contact from several processes at once
				}
				per := 4
				var wg sync.WaitGroup
				for i := 0; i < k; i++ {
					base := ids(per)
					wg.Add(1)
					go func(i, base int) {
						defer wg.Done()
						cmd := exec.Command(selfExe(), "-child-deliver", dir, u, fmt.Sprint(base), fmt.Sprint(per))
						out, _ := cmd.Output()
						got := 0
						for _, l := range strings.Split(string(out), "\n") {
							f := strings.SplitN(l, " ", 3)
							if len(f) == 3 && f[0] == "res" {
								var id int
								fmt.Sscan(f[1], &id)
								rd.add(outcome{i, "deliver", id, u + "/INBOX", strings.HasPrefix(f[2], "2"), f[2]})
								got++
							}
						}
						for j := got; j < per; j++ {
							rd.add(outcome{i, "deliver", base + j, u + "/INBOX", false, "451 process ended: " + strings.TrimSpace(string(out))})
						}
					}(i, base)
				}
				wg.Wait()
				l := auditBox(rep, rd, w, u, "INBOX", []string{"round processes"})
				account(rep, rd, l, u, "INBOX", []string{"round processes"})
			}
		}
	}
	_ = time.Second
	rep.Finish()
}
