// C04 correspondence: generated credentials over all octets through LOGIN, AUTHENTICATE PLAIN and the SASL socket, with
// a recording backend scripted per attempt. Checked: the body the backend receives (bytes = the Lean encoder's, and
// decoded by encoding/json = the supplied address and password), the accept decision (200 only), the store the session is
// then bound to, the state after a refusal, and the SASL answer line.
package main

import (
	"bufio"
	"encoding/base64"
	"encoding/json"
	"fmt"
	"net"
	"os"
	"strings"
	"time"
	"unicode/utf8"

	"raven/internal/sasl"
	"raven/verifh/hx"
	"raven/verifh/world"
)

var pieces = []string{"alice", "bob", "a", "x", "user.name", "ÄÖ", "é", `"`, `\`, `","password":"x`, "{", "}", "<", ">", "&", "'", " ", "\t", "\n", "\r", "\x01", "\x7f", "\xff", "\xc3", " ", "@", "@", "@example.com", "@other.org", "%", "*", "(", ")", "NIL", "=", "+"}

func genCred(rng *hx.Rng, simple bool) string {
	if simple {
		return rng.Pick([]string{"alice", "bob", "carol@example.com", "dave@other.org", "erin"})
	}
	n := 1 + rng.Intn(4)
	var sb strings.Builder
	for i := 0; i < n; i++ {
		sb.WriteString(rng.Pick(pieces))
	}
	return sb.String()
}

func tokenSafe(s string) bool {
	if s == "" {
		return false
	}
	for _, c := range []byte(s) {
		if c <= ' ' || c == '"' || c == '\\' || c == '{' || c == '(' || c == ')' || c == '%' || c == '*' || c >= 0x7f {
			return false
		}
	}
	return true
}

type attempt struct {
	via      string // login | plain | sasl
	user, pw string
	status   int // backend script: 200, 401, 500, 0 = garbage, -1 = close connection, -2 = slow then 200
}

func (a attempt) line() string {
	return fmt.Sprintf("attempt %s %s %s %d", a.via, hx.H(a.user), hx.H(a.pw), a.status)
}

func main() {
	o, rep := hx.Init("C04")
	hx.Quiet()
	rep.Rule = "login attempts through LOGIN (token-safe credentials), AUTHENTICATE PLAIN and SASL PLAIN with user names and passwords assembled from 36 pieces covering quotes, backslashes, JSON fragments, braces, <>&, blanks, TAB/LF/CR, control octets, DEL, invalid UTF-8, U+2028, zero to three '@' and two domains, against a backend scripted per attempt (200, 401, 500, garbage, dropped connection, slow); distinct by (entry point, user, password, script); non-trivial when a credential contains a character outside [A-Za-z0-9.@]"
	dir, cleanup := hx.WorkDir("c04")
	defer cleanup()
	w, err := world.New(dir, "example.com")
	if err != nil {
		rep.Violate("broken-correspondence", "world", err.Error(), nil)
		rep.Finish()
	}
	defer w.Close()
	var cur attempt
	w.Backend.Script = func(n int, body string) (int, time.Duration, bool) {
		switch cur.status {
		case 0:
			return 200, 0, true
		case -1:
			return 200, 0, true // garbage and close are the same to the client: a malformed reply
		case -2:
			return 200, 300 * time.Millisecond, false
		case -3:
			return 200, 10500 * time.Millisecond, false // slower than the clients' 10 s timeout: must be refused
		}
		return cur.status, 0, false
	}
	sock := dir + "/sasl.sock"
	ss := sasl.NewServer(sock, "", w.Backend.Srv.URL, "example.com")
	go ss.Start()
	defer ss.Shutdown()
	for i := 0; i < 50; i++ {
		if c, err := net.Dial("unix", sock); err == nil {
			c.Close()
			break
		}
		time.Sleep(20 * time.Millisecond)
	}

	var atts []attempt
	rng := hx.NewRng(o.Seed)
	if o.Replay != "" {
		atts = parse(hx.ReadLines(o.Replay))
	} else {
		atts = parse(hx.ReadLines(o.Corpus + "/attempts.ops"))
		// names that are patterns of one another for a LIKE comparison: each must be bound to its own store
		for _, u := range []string{"axb", "a_b", "a%b", "a%", "%", "_x_", "axb@other.org", "a_b@other.org", "%@other.org"} {
			via := "plain"
			if tokenSafe(u) {
				via = rng.Pick([]string{"plain", "login"})
			}
			atts = append(atts, attempt{via, u, "pw", 200})
		}
		// domains that differ only by letter case, and domains that collide only under Unicode case folding (U+212A KELVIN
		// SIGN, U+0130, U+017F LONG S): the second of each pair is another address and must not open the first one's store
		for _, u := range []string{"alice@kite.org", "alice@\u212aite.org", "bob@ix.org", "bob@\u0130x.org", "carol@sos.org", "carol@\u017fos.org",
			"dave@Example.COM", "dave@example.com", "K@kite.org", "\u212a@kite.org"} {
			atts = append(atts, attempt{"plain", u, "pw", 200})
		}
		// decorated local parts next to the plain one: a sub-address (`+detail`), dots, another letter case — each is an address
		// of its own: what the backend verified is what the session is bound to
		for _, u := range []string{"erin@example.com", "erin+mallory@example.com", "erin+@example.com", "erin+a+b@example.com", "e.r.i.n@example.com", "Erin@example.com", "frank", "frank+tag", "+frank"} {
			atts = append(atts, attempt{"plain", u, "pw", 200})
		}
		n := 400
		if o.Thorough {
			n = 12000
		}
		for i := 0; i < n; i++ {
			a := attempt{via: rng.Pick([]string{"plain", "plain", "sasl", "sasl", "login"})}
			a.user = genCred(rng, rng.Chance(25))
			a.pw = genCred(rng, rng.Chance(40))
			a.status = []int{200, 200, 200, 401, 500, 0, -1, -2, 403, 204}[rng.Intn(10)]
			if a.via == "login" && (!tokenSafe(a.user) || !tokenSafe(a.pw)) {
				a.via = "plain"
			}
			if strings.Contains(a.user, "\x00") || strings.Contains(a.pw, "\x00") {
				continue
			}
			atts = append(atts, a)
		}
	}
	if o.Thorough && o.Replay == "" {
		atts = append(atts, attempt{"plain", "slow@example.com", "pw", -3}, attempt{"sasl", "slow@example.com", "pw", -3})
	}
	probe := 0
	// a second phase under a changed configuration: the default domain of config/raven.yaml is replaced while the server keeps
	// running (no restart), and names without "@" are resolved again — what the backend is asked about and what the session is
	// bound to follow the configuration together
	dom := "example.com"
	phases := [][]attempt{atts}
	if o.Replay == "" {
		phases = append(phases, []attempt{{"plain", "gina", "pw", 200}, {"login", "gina", "pw", 200}, {"plain", "gina@example.com", "pw", 200}, {"plain", "harry", "pw", 401}, {"login", "harry", "pw", 200}})
	}
	for phase, list := range phases {
		if phase == 1 {
			dom = "second.example"
			if err := os.WriteFile("config/raven.yaml", []byte(fmt.Sprintf("domain: %q\nauth_server_url: %q\n", dom, w.Backend.Srv.URL)), 0644); err != nil {
				break
			}
			rep.Hit("configuration:default-domain-changed")
		}
		for _, a := range list {
			cur = a
			w.Backend.Take()
			nontriv := strings.IndexFunc(a.user+a.pw, func(r rune) bool {
				return !(r >= 'a' && r <= 'z' || r >= 'A' && r <= 'Z' || r >= '0' && r <= '9' || r == '.' || r == '@')
			}) >= 0
			rep.Case(a.line(), nontriv)
			rep.Hit("via:" + a.via)
			viol := func(kind, what string) {
				rep.Violate(kind, "authentication vs Model/Auth (Props.C04)", fmt.Sprintf("%s user=%q password=%q backend=%d: %s", a.via, a.user, a.pw, a.status, what), []string{a.line()})
			}
			// what the model says the backend must receive
			op := "a.body"
			if a.via == "sasl" {
				op = "a.sbody"
			}
			m, err := hx.RunModel(o.Driver, []string{op + " " + hx.H(a.user) + " " + hx.H(dom) + " " + hx.H(a.pw), "a.bind " + hx.H(a.user) + " " + hx.H(dom)})
			if err != nil {
				rep.Violate("broken-correspondence", "driver", err.Error(), nil)
				break
			}
			wantBody := m[0]
			if a.user == "" || a.pw == "" {
				wantBody = "refuse" // PLAIN with an empty field is refused before the backend is asked
			}
			accepted := false
			var answer string
			switch a.via {
			case "login", "plain":
				c := w.IMAP(true)
				if a.status == -3 {
					c.Wait = 15 * time.Second
				}
				var r world.Resp
				if a.via == "login" {
					r = c.Cmd("LOGIN " + a.user + " " + a.pw)
				} else {
					c.N++
					tag := fmt.Sprintf("t%d", c.N)
					r = c.Send(tag, tag+" AUTHENTICATE PLAIN\r\n")
					if strings.HasPrefix(r.Tagged, "+") {
						r = c.Send(tag, base64.StdEncoding.EncodeToString([]byte("\x00"+a.user+"\x00"+a.pw))+"\r\n")
					}
				}
				accepted = r.OK()
				answer = r.Tagged
				if accepted {
					// the store the session is bound to: where does a mailbox created now appear?
					probe++
					name := fmt.Sprintf("probe%d", probe)
					c.Cmd("CREATE " + name)
					u, d := owner(w, name)
					b := strings.Fields(m[1])
					if len(b) == 2 && (u != hx.UnH(b[0]) || !sameDomain(d, hx.UnH(b[1]))) {
						viol("broken-correspondence", fmt.Sprintf("session bound to store of %q@%q, model binding %q@%q", u, d, hx.UnH(b[0]), hx.UnH(b[1])))
					}
					// and that is the address the backend verified (C04.2 on the real observations)
					bodies := w.Backend.Bodies
					if len(bodies) == 1 {
						var got struct{ Email, Password string }
						if json.Unmarshal([]byte(bodies[0]), &got) == nil && !sameAddress(got.Email, u+"@"+d) {
							viol("impl-violation", fmt.Sprintf("the backend verified %q but the session is bound to the store of %q", got.Email, u+"@"+d))
						}
					}
					rep.Hit("bound")
				} else {
					// a refused attempt leaves the session unauthenticated
					if c.Cmd(`LIST "" "*"`).OK() {
						viol("impl-violation", "after the refusal the session answers LIST with OK")
					}
				}
				c.Close()
			case "sasl":
				conn, err := net.Dial("unix", sock)
				if err != nil {
					viol("broken-correspondence", "cannot reach the SASL socket: "+err.Error())
					continue
				}
				id := fmt.Sprint(1000 + probe)
				probe++
				fmt.Fprintf(conn, "AUTH\t%s\tPLAIN\tservice=smtp\tresp=%s\n", id, base64.StdEncoding.EncodeToString([]byte("\x00"+a.user+"\x00"+a.pw)))
				conn.SetReadDeadline(time.Now().Add(15 * time.Second))
				rd := bufio.NewReader(conn)
				line, _ := rd.ReadString('\n')
				// anything more than one line?
				conn.SetReadDeadline(time.Now().Add(60 * time.Millisecond))
				extra, _ := rd.ReadString('\n')
				conn.Close()
				answer = line
				f := strings.Split(strings.TrimSuffix(line, "\n"), "\t")
				if extra != "" || !strings.HasSuffix(line, "\n") || len(f) < 2 || f[1] != id || (f[0] != "OK" && f[0] != "FAIL" && f[0] != "CONT") {
					viol("impl-violation", fmt.Sprintf("SASL answer is not a single OK/FAIL/CONT line carrying id %s: %q followed by %q", id, line, extra))
					continue
				}
				accepted = f[0] == "OK"
				if accepted && (len(f) != 3 || f[2] != "user="+a.user) {
					viol("impl-violation", fmt.Sprintf("SASL OK line %q does not name the authenticated user", line))
				}
			}
			bodies := w.Backend.Take()
			if wantBody == "refuse" {
				rep.Hit("inadmissible")
				if accepted {
					viol("impl-violation", "credentials that cannot be passed unaltered were accepted: "+answer)
				}
				if len(bodies) > 0 {
					// asking the backend about an altered identity is the defect; a refusal without asking is the fix
					var got struct{ Email, Password string }
					_ = json.Unmarshal([]byte(bodies[0]), &got)
					viol("impl-violation", fmt.Sprintf("the backend was asked about credentials that cannot be passed unaltered; it received %q", bodies[0]))
				}
				continue
			}
			if len(bodies) != 1 {
				viol("broken-correspondence", fmt.Sprintf("backend received %d requests, expected 1 (answer %q)", len(bodies), answer))
				continue
			}
			// the body, decoded by an independent JSON reader, is exactly the supplied address and password
			email := a.user
			if !strings.Contains(a.user, "@") {
				email = a.user + "@" + dom
			}
			var got map[string]any
			if err := json.Unmarshal([]byte(bodies[0]), &got); err != nil || len(got) != 2 || got["email"] != email || got["password"] != a.pw || !utf8.ValidString(bodies[0]) {
				viol("impl-violation", fmt.Sprintf("the backend received %q, which does not decode to exactly email=%q password=%q", bodies[0], email, a.pw))
				continue
			}
			if hx.H(bodies[0]) != wantBody {
				viol("broken-correspondence", fmt.Sprintf("request body %q, model body %q", bodies[0], hx.UnH(wantBody)))
				continue
			}
			want := a.status == 200 || a.status == -2
			rep.Hit(fmt.Sprintf("backend:%d", a.status))
			if accepted != want {
				viol("impl-violation", fmt.Sprintf("backend behaviour %d but the attempt was answered %q", a.status, strings.TrimSpace(answer)))
			}
		}
	}
	if o.Replay == "" {
		saslReuse(rep, w, sock, &cur)
		disabledAccount(rep, w, &cur)
	}
	if len(atts) > 0 {
		rep.Sample(atts[len(atts)/2].line())
		rep.Sample(fmt.Sprintf("%s user=%q pw=%q status=%d", atts[len(atts)-1].via, atts[len(atts)-1].user, atts[len(atts)-1].pw, atts[len(atts)-1].status))
	}
	rep.Finish()
}

// saslReuse: several requests on one SASL connection, as a mail server's process reuses it for one client after the other.
// Every request is answered by one line with its own id; a request that carries no response is answered CONT and asks the
// backend nothing; a request that carries one asks the backend about exactly the credentials in *that* request.
func saslReuse(rep *hx.Report, w *world.World, sock string, cur *attempt) {
	conn, err := net.Dial("unix", sock)
	if err != nil {
		rep.Violate("broken-correspondence", "sasl", "cannot reach the SASL socket: "+err.Error(), nil)
		return
	}
	defer conn.Close()
	rd := bufio.NewReader(conn)
	b64 := func(u, p string) string { return base64.StdEncoding.EncodeToString([]byte("\x00" + u + "\x00" + p)) }
	type rq struct {
		line         string
		id           string
		status       int
		wantVerb     string
		wantUser, pw string // "" = the backend must not be asked
	}
	seq := []rq{
		{"AUTH\t11\tPLAIN\tservice=smtp\tresp=" + b64("alice", "alicepw"), "11", 200, "OK", "alice", "alicepw"},
		{"AUTH\t12\tPLAIN\tservice=smtp", "12", 200, "CONT", "", ""},
		{"AUTH\t13\tLOGIN\tservice=smtp", "13", 200, "CONT", "", ""},
		{"AUTH\t14\tPLAIN\tservice=smtp\tresp=" + b64("bob", "bobpw"), "14", 401, "FAIL", "bob", "bobpw"},
		{"AUTH\t15\tPLAIN", "15", 200, "CONT", "", ""},
		{"AUTH\t16\tPLAIN\tresp=" + b64("carol@example.com", "c pw"), "16", 200, "OK", "carol@example.com", "c pw"},
		{"AUTH\t17\tPLAIN\tservice=imap\tnologin", "17", 200, "CONT", "", ""},
	}
	var replay []string
	for _, q := range seq {
		replay = append(replay, "sasl-line "+hx.H(q.line))
		rep.Case("sasl-reuse|"+q.id, true)
		cur.status = q.status
		w.Backend.Take()
		fmt.Fprintf(conn, "%s\n", q.line)
		conn.SetReadDeadline(time.Now().Add(15 * time.Second))
		line, _ := rd.ReadString('\n')
		f := strings.Split(strings.TrimSuffix(line, "\n"), "\t")
		bodies := w.Backend.Take()
		if len(f) < 2 || f[1] != q.id || f[0] != q.wantVerb {
			rep.Violate("impl-violation", "authentication vs Model/Auth (Props.C04: one answer per request, for the credentials of that request)", fmt.Sprintf("request %q on a connection that has carried other requests before was answered %q (expected %s with id %s); the backend received %v", q.line, line, q.wantVerb, q.id, bodies), replay)
			return
		}
		if q.wantUser == "" {
			if len(bodies) != 0 {
				rep.Violate("impl-violation", "authentication vs Model/Auth (Props.C04: nothing is verified that the client did not supply)", fmt.Sprintf("request %q carries no credentials, yet the backend was asked %v", q.line, bodies), replay)
				return
			}
			rep.Hit("sasl-reuse:cont")
			continue
		}
		email := q.wantUser
		if !strings.Contains(email, "@") {
			email += "@example.com"
		}
		var got map[string]any
		if len(bodies) != 1 || json.Unmarshal([]byte(bodies[0]), &got) != nil || got["email"] != email || got["password"] != q.pw {
			rep.Violate("impl-violation", "authentication vs Model/Auth (Props.C04: the credentials of this request, unaltered)", fmt.Sprintf("request %q: the backend received %v, expected exactly email=%q password=%q", q.line, bodies, email, q.pw), replay)
			return
		}
		rep.Hit("sasl-reuse:" + strings.ToLower(q.wantVerb))
	}
	cur.status = 200
}

func parse(ls []string) []attempt {
	var o []attempt
	for _, l := range ls {
		f := strings.Fields(l)
		if len(f) == 5 && f[0] == "attempt" {
			var st int
			fmt.Sscan(f[4], &st)
			o = append(o, attempt{f[1], hx.UnH(f[2]), hx.UnH(f[3]), st})
		}
	}
	return o
}

// owner finds the user whose store holds the mailbox.
// sameDomain: domains are compared without regard to the case of ASCII letters (RFC 5321 2.4) and octet by octet otherwise:
// a server that files user@Example.COM with user@example.com is right, one that folds U+212A to "k" is not
func sameDomain(a, b string) bool {
	if len(a) != len(b) {
		return false
	}
	for i := 0; i < len(a); i++ {
		x, y := a[i], b[i]
		if x >= 'A' && x <= 'Z' {
			x += 'a' - 'A'
		}
		if y >= 'A' && y <= 'Z' {
			y += 'a' - 'A'
		}
		if x != y {
			return false
		}
	}
	return true
}

func sameAddress(a, b string) bool {
	i, j := strings.LastIndexByte(a, '@'), strings.LastIndexByte(b, '@')
	if i < 0 || j < 0 {
		return a == b
	}
	return a[:i] == b[:j] && sameDomain(a[i+1:], b[j+1:])
}

func owner(w *world.World, mailbox string) (string, string) {
	shared := w.Mgr.GetSharedDB()
	rows, err := shared.Query("SELECT u.id, u.username, d.domain FROM users u JOIN domains d ON d.id = u.domain_id")
	if err != nil {
		return "?", "?"
	}
	type urow struct {
		id   int64
		u, d string
	}
	var us []urow
	for rows.Next() {
		var r urow
		rows.Scan(&r.id, &r.u, &r.d)
		us = append(us, r)
	}
	rows.Close()
	for _, r := range us {
		udb, err := w.Mgr.GetUserDB(r.id)
		if err != nil {
			continue
		}
		var n int
		udb.QueryRow("SELECT COUNT(*) FROM mailboxes WHERE name = ?", mailbox).Scan(&n)
		if n > 0 {
			return r.u, r.d
		}
	}
	return "?", "?"
}

// disabledAccount: an account that exists and has been disabled by the administrator, verified by the backend all the same
// (the directory and the mail store disagree for a while), logging in after other accounts have been provisioned: the attempt
// is refused, or the session is that address's own — never somebody else's.
func disabledAccount(rep *hx.Report, w *world.World, cur *attempt) {
	*cur = attempt{"login", "dis1@example.com", "pw", 200}
	for round := 0; round < 3; round++ {
		dis := fmt.Sprintf("dis%d@example.com", round)
		c := w.Login(dis)
		c.Cmd("CREATE mine")
		c.Close()
		if _, err := w.Mgr.GetSharedDB().Exec("UPDATE users SET enabled = 0 WHERE username = ?", strings.SplitN(dis, "@", 2)[0]); err != nil {
			return
		}
		// other accounts are provisioned meanwhile, each with a mailbox of its own
		for k := 0; k <= round; k++ {
			o := w.Login(fmt.Sprintf("fresh%d-%d@example.com", round, k))
			o.Cmd("CREATE private-of-another")
			o.Close()
		}
		rep.Case("disabled-account|"+dis, true)
		c = w.IMAP(true)
		r := c.Cmd("LOGIN " + dis + " pw")
		if !r.OK() {
			rep.Hit("disabled-account:refused")
			if c.Cmd(`LIST "" "*"`).OK() {
				rep.Violate("impl-violation", "authentication vs Model/Auth (Props.C04)", fmt.Sprintf("disabled account %s: after the refusal %q the session answers LIST with OK", dis, r.Tagged), []string{"disabled " + dis})
			}
			c.Close()
			continue
		}
		name := fmt.Sprintf("disprobe%d", round)
		c.Cmd("CREATE " + name)
		u, d := owner(w, name)
		if !sameAddress(u+"@"+d, dis) {
			rep.Violate("impl-violation", "authentication vs Model/Auth (Props.C04.binding_is_verified_address)", fmt.Sprintf("the backend verified %q (an account disabled in the mail store) and the session is bound to the store of %q", dis, u+"@"+d), []string{"disabled " + dis})
			c.Close()
			return
		}
		rep.Hit("disabled-account:own-store")
		c.Close()
	}
}
