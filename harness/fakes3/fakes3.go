// Package fakes3 is an in-process S3-compatible object store for the harnesses: it keeps objects in memory, logs every
// request, and fails requests according to a script (500, timeout, dropped connection, missing object) — after it has read the
// request body, as a real store that fails late does.
package fakes3

import (
	"fmt"
	"io"
	"net/http"
	"net/http/httptest"
	"strings"
	"sync"
	"time"
)

// ---------- fake object store ----------

type Fake struct {
	Mu      sync.Mutex
	Objs    map[string][]byte
	Log     []string
	Script  []string // per request: ok | 500 | 409 | timeout | drop | missing ; consumed in order, then ok; "put:<act>" waits for the next PUT
	Srv     *httptest.Server
	GetFail map[string]bool // keys whose GET/HEAD was failed by the script
}

func New() *Fake {
	f := &Fake{Objs: map[string][]byte{}, GetFail: map[string]bool{}}
	f.Srv = httptest.NewServer(http.HandlerFunc(f.handle))
	return f
}

func (f *Fake) handle(w http.ResponseWriter, r *http.Request) {
	body, _ := io.ReadAll(r.Body)
	f.Mu.Lock()
	act := "ok"
	isObj := strings.Count(strings.Trim(r.URL.Path, "/"), "/") >= 1
	if isObj && len(f.Script) > 0 {
		if strings.HasPrefix(f.Script[0], "put:") {
			if r.Method == "PUT" {
				act = f.Script[0][4:]
				f.Script = f.Script[1:]
			}
		} else {
			act = f.Script[0]
			f.Script = f.Script[1:]
		}
	}
	f.Log = append(f.Log, r.Method+" "+r.URL.Path+" -> "+act)
	key := r.URL.Path
	if act != "ok" && (r.Method == "GET" || r.Method == "HEAD") {
		f.GetFail[key] = true
	}
	f.Mu.Unlock()
	switch act {
	case "500":
		w.WriteHeader(500)
		return
	case "409":
		// an error the SDK does not retry by itself
		w.Header().Set("Content-Type", "application/xml")
		w.WriteHeader(409)
		w.Write([]byte(`<?xml version="1.0" encoding="UTF-8"?><Error><Code>OperationAborted</Code><Message>A conflicting conditional operation is currently in progress against this resource.</Message></Error>`))
		return
	case "timeout":
		time.Sleep(1500 * time.Millisecond)
		w.WriteHeader(500)
		return
	case "drop":
		if hj, ok := w.(http.Hijacker); ok {
			c, _, _ := hj.Hijack()
			c.Close()
			return
		}
	case "missing":
		if r.Method == "GET" || r.Method == "HEAD" {
			w.WriteHeader(404)
			return
		}
	}
	f.Mu.Lock()
	defer f.Mu.Unlock()
	switch r.Method {
	case "PUT":
		if isObj {
			f.Objs[key] = body
		}
		w.WriteHeader(200)
	case "HEAD":
		if _, ok := f.Objs[key]; ok {
			w.WriteHeader(200)
		} else {
			w.WriteHeader(404)
		}
	case "GET":
		if b, ok := f.Objs[key]; ok {
			w.Header().Set("Content-Length", fmt.Sprint(len(b)))
			w.WriteHeader(200)
			w.Write(b)
		} else {
			w.WriteHeader(404)
		}
	default:
		w.WriteHeader(200)
	}
}
