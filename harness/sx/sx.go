// Package sx reads the canonical response trees printed by the Lean driver's `r.parse` op:
// N, #n, a<hex>, q<hex>, l<hex>, ( … ).
package sx

import (
	"strconv"
	"strings"

	"raven/verifh/hx"
)

type V struct {
	Kind string // nil num atom quoted literal list
	Num  int
	S    string
	L    []*V
}

// ParseLine parses the tokens of one data line (after the leading "D").
func ParseLine(fields []string) []*V {
	pos := 0
	var vals func() []*V
	var one func() *V
	one = func() *V {
		t := fields[pos]
		pos++
		switch {
		case t == "(":
			v := &V{Kind: "list"}
			for pos < len(fields) && fields[pos] != ")" {
				v.L = append(v.L, one())
			}
			pos++
			return v
		case t == "N":
			return &V{Kind: "nil"}
		case strings.HasPrefix(t, "#"):
			n, _ := strconv.Atoi(t[1:])
			return &V{Kind: "num", Num: n}
		case strings.HasPrefix(t, "a"):
			return &V{Kind: "atom", S: hx.UnH(t[1:])}
		case strings.HasPrefix(t, "q"):
			return &V{Kind: "quoted", S: hx.UnH(t[1:])}
		case strings.HasPrefix(t, "l"):
			return &V{Kind: "literal", S: hx.UnH(t[1:])}
		}
		return &V{Kind: "?", S: t}
	}
	vals = func() []*V {
		var o []*V
		for pos < len(fields) {
			o = append(o, one())
		}
		return o
	}
	return vals()
}

// FetchItems returns item name -> value of every FETCH data line in a driver answer "ok D … | D … | S …".
func FetchItems(answer string) []map[string]*V {
	var out []map[string]*V
	if !strings.HasPrefix(answer, "ok") {
		return nil
	}
	for _, line := range strings.Split(strings.TrimPrefix(answer, "ok "), " | ") {
		f := strings.Fields(line)
		if len(f) < 4 || f[0] != "D" {
			continue
		}
		vs := ParseLine(f[1:])
		if len(vs) != 3 || vs[1].Kind != "atom" || vs[1].S != "FETCH" || vs[2].Kind != "list" {
			continue
		}
		m := map[string]*V{}
		l := vs[2].L
		for i := 0; i+1 < len(l); i += 2 {
			if l[i].Kind == "atom" {
				m[strings.ToUpper(l[i].S)] = l[i+1]
			}
		}
		out = append(out, m)
	}
	return out
}

// Str returns the string content of an nstring value ("" for NIL).
func (v *V) Str() string {
	if v == nil || v.Kind == "nil" {
		return ""
	}
	return v.S
}

// IsNil reports NIL or absence.
func (v *V) IsNil() bool { return v == nil || v.Kind == "nil" }
