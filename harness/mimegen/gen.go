// Package mimegen generates well-formed RFC 5322 / MIME messages from a grammar (the C02 grammar): header folding, repeated and
// unknown headers, 8-bit octets, lines starting with dots, bodies with and without final newline, nesting up to depth 4,
// 7bit / 8bit / binary / base64 / quoted-printable leaves, leaf sizes around the 1024-octet threshold, attachments with file names.
package mimegen

import (
	"bytes"
	"encoding/base64"
	"fmt"
	"mime/quotedprintable"
	"strings"

	"raven/verifh/hx"
)

type Node struct {
	Multi    bool
	Subtype  string
	Children []*Node
	// leaf
	CType, Charset, CTE, Filename, CID, Disposition string
	NameOnCT                                        bool   // file name given only as Content-Type name=
	Content                                         []byte // decoded content
	boundary                                        string
	Spell                                           int // how the MIME header names of this entity are spelled (0: canonical)
}

// hn spells a MIME header name the way mail software does: Content-Type, Content-type (PHP mail()), content-type, CONTENT-TYPE
func hn(name string, spell int) string {
	switch spell {
	case 1:
		p := strings.Split(name, "-")
		for i := 1; i < len(p); i++ {
			p[i] = strings.ToLower(p[i])
		}
		return strings.Join(p, "-")
	case 2:
		return strings.ToLower(name)
	case 3:
		return strings.ToUpper(name)
	}
	return name
}

func pickSpell(rng *hx.Rng) int {
	if rng.Chance(80) {
		return 0
	}
	return 1 + rng.Intn(3)
}

var textTypes = []string{"text/plain", "text/plain", "text/html", "text/calendar"}
var binTypes = []string{"application/octet-stream", "image/png", "application/pdf"}

func genText(rng *hx.Rng, size int, finalNL bool) []byte {
	words := []string{"hello", "world", ".", "..", ".leading dot", "From here", "--not-a-boundary", "a=b", "tab\there", "trailing ", "caf\xc3\xa9", "x", "1234567890"}
	var b bytes.Buffer
	for b.Len() < size {
		l := rng.Pick(words)
		for rng.Chance(50) && len(l) < 60 {
			l += " " + rng.Pick(words)
		}
		b.WriteString(l + "\r\n")
	}
	out := b.Bytes()
	if len(out) > size && size > 2 {
		// cut to the size without ever leaving a bare CR or an empty last line
		out = out[:size-2:size-2]
		for len(out) > 0 && (out[len(out)-1] == '\r' || out[len(out)-1] == '\n') {
			out = out[:len(out)-1]
		}
		out = append(out, '\r', '\n')
	}
	if !finalNL && len(out) >= 2 {
		out = append(out[:len(out)-2:len(out)-2], 'Z')
	}
	return out
}

func genBin(rng *hx.Rng, size int) []byte {
	out := make([]byte, size)
	for i := range out {
		out[i] = byte(rng.U64())
	}
	return out
}

func sizePick(rng *hx.Rng) int {
	switch rng.Intn(10) {
	case 0:
		return 0
	case 1:
		return 1 + rng.Intn(20)
	case 2, 3:
		return 1000 + rng.Intn(51) // around the out-of-line threshold
	case 4:
		return 1024
	case 5:
		return 1025
	case 6:
		return 3000 + rng.Intn(3000)
	default:
		return 20 + rng.Intn(300)
	}
}

// wsPool: contents of earlier out-of-line identity-encoded text leaves (see GenLeaf)
var wsPool [][]byte

func GenLeaf(rng *hx.Rng) *Node {
	n := &Node{Spell: pickSpell(rng)}
	size := sizePick(rng)
	if rng.Chance(65) {
		n.CType = rng.Pick(textTypes)
		n.Charset = rng.Pick([]string{"utf-8", "us-ascii", "", "iso-8859-1", "UTF-8"})
		n.CTE = rng.Pick([]string{"7bit", "8bit", "", "quoted-printable", "base64", "binary"})
		n.Content = genText(rng, size, rng.Chance(75))
		if (n.CTE == "8bit" || n.CTE == "binary") && size > 0 && rng.Chance(35) {
			// a line feed that is content, not a line ending, in a message whose lines end in CRLF
			n.Content = append([]byte("stray\nline feed inside a line\r\n"), n.Content...)
		}
		if (n.CTE == "8bit" || n.CTE == "binary" || n.CTE == "7bit") && size > 40 && rng.Chance(12) {
			// a Unix text file attached as it is: every line ends in a bare line feed, there is no CRLF in the part at all
			n.Content = bytes.ReplaceAll(n.Content, []byte("\r\n"), []byte("\n"))
		}
		if rng.Chance(15) {
			n.Filename = rng.Pick([]string{"notes.txt", "read me.txt", "a(b).txt"})
			n.Disposition = rng.Pick([]string{"attachment", "inline"})
		}
		if encClass(n.CTE) == "identity" {
			// white-space twins: the content of an earlier out-of-line leaf with blank octets added in front or behind (more
			// than one final line break): another content, to be stored and returned as such
			if len(wsPool) > 0 && rng.Chance(10) {
				p := wsPool[rng.Intn(len(wsPool))]
				switch rng.Intn(4) {
				case 0:
					n.Content = append([]byte("\r\n"), p...)
				case 1:
					n.Content = append([]byte("  "), p...)
				case 2:
					n.Content = append(append([]byte(nil), p...), []byte("\r\n\r\n")...)
				default:
					n.Content = append(append([]byte(nil), p...), []byte(" \r\n \r\n")...)
				}
				if n.Filename == "" {
					n.Filename, n.Disposition = "twin.txt", "attachment"
				}
			} else if (len(n.Content) > 1024 || n.Filename != "") && len(n.Content) > 4 && len(wsPool) < 64 {
				wsPool = append(wsPool, n.Content)
			}
		}
	} else {
		n.CType = rng.Pick(binTypes)
		n.CTE = "base64"
		n.Content = genBin(rng, size)
		if rng.Chance(80) {
			n.Filename = rng.Pick([]string{"file.bin", "pic.png", "doc v2.pdf", "we;ird.bin"})
			n.Disposition = rng.Pick([]string{"attachment", "attachment", "inline"})
			if rng.Chance(12) {
				n.NameOnCT = true
				n.Disposition = ""
			}
		}
		if rng.Chance(30) {
			n.CID = fmt.Sprintf("<cid%d@example.org>", rng.Intn(1000))
		}
	}
	return n
}

func Gen(rng *hx.Rng, depth int) *Node {
	if depth <= 0 || rng.Chance(35) {
		return GenLeaf(rng)
	}
	n := &Node{Multi: true, Subtype: rng.Pick([]string{"mixed", "alternative", "related", "mixed"}), Spell: pickSpell(rng)}
	k := 1 + rng.Intn(4)
	for i := 0; i < k; i++ {
		n.Children = append(n.Children, Gen(rng, depth-1))
	}
	return n
}

// GenDeep: containers nested `depth` deep (real mail reaches six or seven levels: forwarded digests of signed
// alternative/related messages), one or two leaves beside the container at every level, leaves at the bottom
func GenDeep(rng *hx.Rng, depth int) *Node {
	if depth <= 0 {
		return GenLeaf(rng)
	}
	n := &Node{Multi: true, Subtype: rng.Pick([]string{"mixed", "alternative", "related", "mixed"})}
	inner := GenDeep(rng, depth-1)
	switch rng.Intn(3) {
	case 0:
		n.Children = []*Node{inner}
	case 1:
		n.Children = []*Node{GenLeaf(rng), inner}
	default:
		n.Children = []*Node{GenLeaf(rng), inner, GenLeaf(rng)}
	}
	return n
}

var bcount int

func (n *Node) encoded() string {
	switch strings.ToLower(n.CTE) {
	case "base64":
		e := base64.StdEncoding.EncodeToString(n.Content)
		var sb strings.Builder
		for i := 0; i < len(e); i += 76 {
			j := i + 76
			if j > len(e) {
				j = len(e)
			}
			sb.WriteString(e[i:j] + "\r\n")
		}
		return sb.String()
	case "quoted-printable":
		var b bytes.Buffer
		w := quotedprintable.NewWriter(&b)
		w.Write(n.Content)
		w.Close()
		return b.String()
	}
	return string(n.Content)
}

func (n *Node) partHeaders() string {
	var sb strings.Builder
	if n.Multi {
		bcount++
		n.boundary = fmt.Sprintf("=_gen_%d_%s", bcount, n.Subtype)
		sb.WriteString(fmt.Sprintf("%s: multipart/%s;\r\n boundary=\"%s\"\r\n", hn("Content-Type", n.Spell), n.Subtype, n.boundary))
		return sb.String()
	}
	ct := hn("Content-Type", n.Spell) + ": " + n.CType
	if n.Charset != "" {
		ct += "; charset=" + n.Charset
	}
	if n.NameOnCT && n.Filename != "" {
		ct += fmt.Sprintf("; name=\"%s\"", n.Filename)
	}
	sb.WriteString(ct + "\r\n")
	if n.CTE != "" {
		sb.WriteString(hn("Content-Transfer-Encoding", n.Spell) + ": " + n.CTE + "\r\n")
	}
	if n.CID != "" {
		sb.WriteString(hn("Content-ID", n.Spell) + ": " + n.CID + "\r\n")
	}
	if n.Disposition != "" {
		d := hn("Content-Disposition", n.Spell) + ": " + n.Disposition
		if n.Filename != "" {
			d += fmt.Sprintf("; filename=\"%s\"", n.Filename)
		}
		sb.WriteString(d + "\r\n")
	}
	return sb.String()
}

func (n *Node) body() string {
	if !n.Multi {
		return n.encoded()
	}
	var sb strings.Builder
	for _, c := range n.Children {
		sb.WriteString("--" + n.boundary + "\r\n")
		sb.WriteString(c.partHeaders())
		sb.WriteString("\r\n")
		b := c.body()
		sb.WriteString(b)
		if !strings.HasSuffix(b, "\r\n") {
			sb.WriteString("\r\n")
		} else if !c.Multi {
			// the CRLF before the delimiter belongs to the delimiter: a leaf whose content ends in CRLF needs one more
			sb.WriteString("\r\n")
		}
	}
	sb.WriteString("--" + n.boundary + "--\r\n")
	return sb.String()
}

// TopHeaders returns the message's own header lines (without MIME headers); extra exercises folding, repetition, unknown names.
func TopHeaders(rng *hx.Rng, token string) []string {
	h := []string{"From: Sender Name <sender@example.org>", "To: rcpt@example.com", "Subject: " + token}
	if rng.Chance(50) {
		h = append(h, "Received: from a.example.org\r\n\tby b.example.org; Mon, 02 Jan 2006 15:04:05 +0000", "Received: from c.example.org\r\n by d.example.org;\r\n Mon, 02 Jan 2006 15:04:06 +0000")
	}
	if rng.Chance(50) {
		h = append(h, "X-Unknown-Header:   spaced value  ", "X-Empty:", "x-lower: v")
	}
	if rng.Chance(6) {
		// one header line longer than the line buffers programs use by default (64 KiB), with fields after it
		h = append(h, "References: "+strings.Repeat("<id-0123456789@example.org> ", 2500)+"<last@example.org>")
	}
	if rng.Chance(30) {
		h = append(h, "X-Long: "+strings.Repeat("word ", 30)+"\r\n "+strings.Repeat("more ", 20))
	}
	if rng.Chance(40) {
		// the same field with the same value more than once, adjacent and apart
		h = append(h, "X-Label: urgent", "Comments: same words", "Comments: same words")
	}
	h = append(h, "Date: Mon, 02 Jan 2006 15:04:05 +0000", "Message-ID: <"+token+"@example.org>")
	if len(h) > 6 && rng.Chance(60) {
		h = append(h, "X-Label: urgent")
	}
	if rng.Chance(40) {
		h = append(h, "Cc: \"Doe, John\" <jd@example.org>, other@example.org")
	}
	return h
}

// Serialize renders the whole message.
func (n *Node) Serialize(top []string) string {
	var sb strings.Builder
	for _, l := range top {
		sb.WriteString(l + "\r\n")
	}
	sb.WriteString(hn("MIME-Version", n.Spell) + ": 1.0\r\n")
	sb.WriteString(n.partHeaders())
	sb.WriteString("\r\n")
	sb.WriteString(n.body())
	return sb.String()
}

// Attrs is the canonical attribute string of a node (what the Lean tree carries).
func (n *Node) Attrs() string {
	if n.Multi {
		return "multipart/" + n.Subtype
	}
	return strings.ToLower(n.CType) + "|" + strings.ToLower(n.Charset) + "|" + n.Filename + "|" + n.CID
}

// Tokens: the pre-order token form the Lean driver reads.
func (n *Node) Tokens() []string {
	if !n.Multi {
		return []string{"L:" + hx.H(n.Attrs())}
	}
	out := []string{fmt.Sprintf("M:%s:%d", hx.H(n.Attrs()), len(n.Children))}
	for _, c := range n.Children {
		out = append(out, c.Tokens()...)
	}
	return out
}

// StripFinalBreak removes one final line break ("up to a final line break").
func StripFinalBreak(b []byte) []byte {
	if bytes.HasSuffix(b, []byte("\r\n")) {
		return b[:len(b)-2]
	}
	if bytes.HasSuffix(b, []byte("\n")) {
		return b[:len(b)-1]
	}
	return b
}

// Digest: the canonical structure compared with what an independent MIME reader sees in the fetched message.
func (n *Node) Digest() any {
	if n.Multi {
		var cs []any
		for _, c := range n.Children {
			cs = append(cs, c.Digest())
		}
		return []any{"multi", n.Subtype, cs}
	}
	cs := strings.ToLower(n.Charset)
	return []any{"leaf", strings.ToLower(n.CType), cs, n.Filename, n.CID, hx.H(string(n.Content))}
}

// Leaves in pre-order with their IMAP section paths.
func (n *Node) Leaves(prefix string, isRoot bool) map[string]*Node {
	out := map[string]*Node{}
	if !n.Multi {
		p := prefix
		if isRoot {
			p = "1"
		}
		out[p] = n
		return out
	}
	for i, c := range n.Children {
		p := fmt.Sprint(i + 1)
		if prefix != "" {
			p = prefix + "." + p
		}
		for k, v := range c.Leaves(p, false) {
			out[k] = v
		}
	}
	return out
}

// ---- cross-encoding twins (class predicate of findings C02-F1 / C14-F3 / C15-F1) ----

// Twins records, for a sequence of stored trees that share one blob store, where each decoded leaf content was submitted
// and under which transfer-encoding class (the three ways the store's hashing reads a part's text).
type Twins struct {
	leaf0 []int
	pos   map[*Node]int
	held  map[string][]heldLeaf
}

type heldLeaf struct {
	pos int
	enc string
}

func leavesInOrder(n *Node) []*Node {
	if !n.Multi {
		return []*Node{n}
	}
	var out []*Node
	for _, c := range n.Children {
		out = append(out, leavesInOrder(c)...)
	}
	return out
}

func encClass(cte string) string {
	switch c := strings.ToLower(strings.TrimSpace(cte)); c {
	case "base64", "quoted-printable":
		return c
	}
	return "identity"
}

func contentKey(b []byte) string { return strings.TrimRight(string(b), "\r\n") }

// NewTwins indexes the trees in the order they were stored.
func NewTwins(trees []*Node) *Twins {
	t := &Twins{pos: map[*Node]int{}, held: map[string][]heldLeaf{}}
	n := 0
	for _, tr := range trees {
		t.leaf0 = append(t.leaf0, n)
		for _, l := range leavesInOrder(tr) {
			t.pos[l] = n
			k := contentKey(l.Content)
			t.held[k] = append(t.held[k], heldLeaf{n, encClass(l.CTE)})
			n++
		}
	}
	return t
}

// CrossEncoded: the store already held this leaf's decoded content (up to a final line break) under another
// transfer-encoding class when the leaf was stored — from an earlier message or an earlier leaf of the same message.
func (t *Twins) CrossEncoded(leaf *Node) bool {
	p, ok := t.pos[leaf]
	if !ok {
		return false
	}
	for _, h := range t.held[contentKey(leaf.Content)] {
		if h.pos < p && h.enc != encClass(leaf.CTE) {
			return true
		}
	}
	return false
}
