#!/usr/bin/env python3
"""Independent MIME reader: prints, for every *.eml file of a directory, the canonical digest of its part tree
(media types, charsets, file names, content-ids, decoded leaf content up to one final line break) as one JSON line."""
import email, email.policy, json, os, sys, binascii

def strip(b):
    if b.endswith(b"\r\n"): return b[:-2]
    if b.endswith(b"\n"): return b[:-1]
    return b

def dig(m):
    if m.is_multipart():
        return ["multi", m.get_content_subtype().lower(), [dig(c) for c in m.get_payload()]]
    payload = m.get_payload(decode=True) or b""
    cs = m.get_content_charset() or ""
    fn = m.get_filename() or ""
    cid = m.get("Content-ID", "") or ""
    h = binascii.hexlify(payload).decode() or "-"
    return ["leaf", m.get_content_type().lower(), cs.lower(), fn, cid, h]

d = sys.argv[1]
out = {}
for f in sorted(os.listdir(d)):
    if f.endswith(".eml"):
        raw = open(os.path.join(d, f), "rb").read()
        m = email.message_from_bytes(raw, policy=email.policy.compat32)
        hdrs = [[k, v] for k, v in m.items()]
        out[f] = {"tree": dig(m), "headers": hdrs}
json.dump(out, sys.stdout)
