// facts re-reads /repo with go/ast on every run and regenerates Lean data files (lean/RavenModel/Gen/*.lean):
//
//	Dispatch  – the `switch cmd` of handleClient and of uid.HandleUID: command label -> handler
//	Access    – per dispatched command, every database-accessor call reachable from its handler (following calls inside the
//	            server packages), each with the guards that dominate it (authentication, selection, read-only) and its kind
//	Auth      – every assignment `state.Authenticated = true` and every call of authenticateUser, with the TLS guard that dominates it
//	Goroutines– every `go` statement of the three services: root function and whether it installs a deferred recover
//	Consts    – literals the models are parametric in
//
// The theorems in Props/C05, C06, C12, C20 quantify over these tables, so the kernel re-checks them against what the code says now.
package main

import (
	"bytes"
	"flag"
	"fmt"
	"go/ast"
	"go/parser"
	"go/printer"
	"go/token"
	"os"
	"path/filepath"
	"sort"
	"strings"
)

var fset = token.NewFileSet()

func src(n ast.Node) string {
	var b bytes.Buffer
	printer.Fprint(&b, fset, n)
	return strings.Join(strings.Fields(b.String()), " ")
}

type pkgFuncs map[string]*ast.FuncDecl

var funcFile = map[string]string{} // pkg.func -> base name of its file
var pkgs = map[string]pkgFuncs{}   // package name -> funcs (server sub-packages are uniquely named)
var pkgDir = map[string]string{}

func load(root string) {
	filepath.Walk(root, func(p string, info os.FileInfo, err error) error {
		if err != nil || info.IsDir() || !strings.HasSuffix(p, ".go") || strings.HasSuffix(p, "_test.go") {
			return nil
		}
		f, err := parser.ParseFile(fset, p, nil, 0)
		if err != nil {
			fmt.Fprintln(os.Stderr, "parse:", err)
			os.Exit(1)
		}
		name := f.Name.Name
		if strings.Contains(p, "/cmd/") {
			name = "cmd_" + filepath.Base(filepath.Dir(p))
		}
		if pkgs[name] == nil {
			pkgs[name] = pkgFuncs{}
			pkgDir[name] = filepath.Dir(p)
		}
		for _, d := range f.Decls {
			if gd, ok := d.(*ast.GenDecl); ok && (gd.Tok == token.VAR || gd.Tok == token.CONST) {
				for _, sp := range gd.Specs {
					if vs, ok := sp.(*ast.ValueSpec); ok {
						for i, id := range vs.Names {
							if i < len(vs.Values) {
								pkgVars[name+"."+id.Name] = vs.Values[i]
							}
						}
					}
				}
			}
			if fd, ok := d.(*ast.FuncDecl); ok && fd.Body != nil {
				n := fd.Name.Name
				if fd.Recv != nil {
					n = strings.TrimPrefix(src(fd.Recv.List[0].Type), "*") + "." + n
				}
				pkgs[name][n] = fd
				funcFile[name+"."+n] = filepath.Base(p)
			}
		}
		return nil
	})
}

// ---------- guards ----------

type guards struct{ auth, sel, rw, tls bool }

// condGuards: which facts hold in the *else/continuation* after `if cond { ...return }`
func afterReturnGuard(cond string) guards {
	var g guards
	c := strings.ReplaceAll(cond, " ", "")
	if strings.Contains(c, "!state.Authenticated") {
		g.auth = true
	}
	if strings.Contains(c, "state.SelectedMailboxID==0") {
		g.sel = true
	}
	if c == "state.ReadOnly" || strings.Contains(c, "||state.ReadOnly") {
		g.rw = true
	}
	if c == "!isTLS" {
		g.tls = true
	}
	return g
}

// insideGuard: which facts hold inside `if cond { body }`
func insideGuard(cond string) guards {
	var g guards
	c := strings.ReplaceAll(cond, " ", "")
	for _, conj := range strings.Split(c, "&&") {
		if conj == "state.Authenticated" {
			g.auth = true
		}
		if conj == "state.SelectedMailboxID>0" || conj == "state.SelectedMailboxID!=0" {
			g.sel = true
		}
	}
	return g
}

func (a guards) or(b guards) guards {
	return guards{a.auth || b.auth, a.sel || b.sel, a.rw || b.rw, a.tls || b.tls}
}

type access struct {
	kind string // selected | user | userOther | shared | role
	at   string // function it occurs in
	g    guards
}

type authEvent struct {
	what string // "set" (state.Authenticated = true) | "call" (authenticateUser)
	at   string
	g    guards
}

type walker struct {
	acc   []access
	auth  []authEvent
	seen  map[string]bool
	depth int
}

func endsInReturn(b *ast.BlockStmt) bool {
	if len(b.List) == 0 {
		return false
	}
	_, ok := b.List[len(b.List)-1].(*ast.ReturnStmt)
	return ok
}

func (w *walker) fn(pkg, name string, g guards) {
	key := fmt.Sprintf("%s.%s|%v", pkg, name, g)
	if w.seen[key] || w.depth > 12 {
		return
	}
	w.seen[key] = true
	fd := pkgs[pkg][name]
	if fd == nil {
		return
	}
	w.depth++
	w.block(pkg, pkg+"."+name, fd.Body.List, g)
	w.depth--
}

func (w *walker) block(pkg, at string, stmts []ast.Stmt, g guards) guards {
	for _, st := range stmts {
		switch s := st.(type) {
		case *ast.IfStmt:
			if s.Init != nil {
				w.exprs(pkg, at, s.Init, g)
			}
			w.exprs(pkg, at, s.Cond, g)
			inner := g.or(insideGuard(src(s.Cond)))
			w.block(pkg, at, s.Body.List, inner)
			if s.Else != nil {
				switch e := s.Else.(type) {
				case *ast.BlockStmt:
					w.block(pkg, at, e.List, g)
				case *ast.IfStmt:
					w.block(pkg, at, []ast.Stmt{e}, g)
				}
			}
			if endsInReturn(s.Body) && s.Else == nil {
				g = g.or(afterReturnGuard(src(s.Cond)))
			}
		case *ast.BlockStmt:
			w.block(pkg, at, s.List, g)
		case *ast.ForStmt:
			if s.Cond != nil {
				w.exprs(pkg, at, s.Cond, g)
			}
			w.block(pkg, at, s.Body.List, g)
		case *ast.RangeStmt:
			w.exprs(pkg, at, s.X, g)
			w.block(pkg, at, s.Body.List, g)
		case *ast.SwitchStmt:
			if s.Tag != nil {
				w.exprs(pkg, at, s.Tag, g)
			}
			for _, c := range s.Body.List {
				if cc, ok := c.(*ast.CaseClause); ok {
					w.block(pkg, at, cc.Body, g)
				}
			}
		case *ast.TypeSwitchStmt:
			for _, c := range s.Body.List {
				if cc, ok := c.(*ast.CaseClause); ok {
					w.block(pkg, at, cc.Body, g)
				}
			}
		case *ast.SelectStmt:
			for _, c := range s.Body.List {
				if cc, ok := c.(*ast.CommClause); ok {
					w.block(pkg, at, cc.Body, g)
				}
			}
		default:
			w.exprs(pkg, at, st, g)
		}
	}
	return g
}

// exprs looks at every call and assignment inside one simple statement / expression
func (w *walker) exprs(pkg, at string, n ast.Node, g guards) {
	ast.Inspect(n, func(x ast.Node) bool {
		switch e := x.(type) {
		case *ast.FuncLit:
			w.block(pkg, at, e.Body.List, g)
			return false
		case *ast.AssignStmt:
			for i, l := range e.Lhs {
				if src(l) == "state.Authenticated" && i < len(e.Rhs) && src(e.Rhs[i]) == "true" {
					w.auth = append(w.auth, authEvent{"set", at, g})
				}
			}
		case *ast.CallExpr:
			switch f := e.Fun.(type) {
			case *ast.SelectorExpr:
				switch f.Sel.Name {
				case "GetSelectedDB":
					w.acc = append(w.acc, access{"selected", at, g})
				case "GetUserDB":
					k := "userOther"
					if len(e.Args) == 1 && src(e.Args[0]) == "state.UserID" {
						k = "user"
					}
					w.acc = append(w.acc, access{k, at, g})
				case "GetSharedDB":
					w.acc = append(w.acc, access{"shared", at, g})
				case "GetRoleMailboxDB":
					w.acc = append(w.acc, access{"role", at, g})
				default:
					// cross-package call into another server package: pkg.Func(...)
					if id, ok := f.X.(*ast.Ident); ok {
						if fs, ok := pkgs[id.Name]; ok && fs[f.Sel.Name] != nil && strings.Contains(pkgDir[id.Name], "/internal/server") {
							w.fn(id.Name, f.Sel.Name, g)
						} else if !ok {
							// a method of this package called on a receiver variable (s.announceNewMessages)
							for n := range pkgs[pkg] {
								if strings.HasSuffix(n, "."+f.Sel.Name) && !strings.HasPrefix(funcFile[pkg+"."+n], "testing_") {
									w.fn(pkg, n, g)
								}
							}
						}
					}
				}
			case *ast.Ident:
				if f.Name == "authenticateUser" {
					w.auth = append(w.auth, authEvent{"call", at, g})
				}
				if pkgs[pkg][f.Name] != nil {
					w.fn(pkg, f.Name, g)
				}
			}
		}
		return true
	})
}

// ---------- dispatch ----------

type disp struct {
	cmd, pkg, fn string
	body         []ast.Stmt // the whole case clause: what the dispatch loop itself does around the handler
	in           string     // package of the dispatching function
}

func dispatchOf(pkg, fn, tag string) []disp {
	var out []disp
	fd := pkgs[pkg][fn]
	if fd == nil {
		return nil
	}
	// what the dispatching loop does on its own before the switch, for every command alike (s.dropStaleSelection(state)):
	// the receiver-method calls that stand as statements in front of the switch in its block
	var prologue []ast.Stmt
	ast.Inspect(fd.Body, func(n ast.Node) bool {
		blk, ok := n.(*ast.BlockStmt)
		if !ok {
			return true
		}
		for i, st := range blk.List {
			if sw, ok := st.(*ast.SwitchStmt); ok && sw.Tag != nil && src(sw.Tag) == tag {
				for _, pre := range blk.List[:i] {
					if es, ok := pre.(*ast.ExprStmt); ok {
						if ce, ok := es.X.(*ast.CallExpr); ok {
							if se, ok := ce.Fun.(*ast.SelectorExpr); ok {
								if id, ok := se.X.(*ast.Ident); ok && pkgs[id.Name] == nil {
									prologue = append(prologue, pre)
								}
							}
						}
					}
				}
			}
		}
		return true
	})
	ast.Inspect(fd.Body, func(n ast.Node) bool {
		sw, ok := n.(*ast.SwitchStmt)
		if !ok || sw.Tag == nil || src(sw.Tag) != tag {
			return true
		}
		for _, c := range sw.Body.List {
			cc := c.(*ast.CaseClause)
			labels := []string{"default"}
			if cc.List != nil {
				labels = nil
				for _, l := range cc.List {
					labels = append(labels, strings.Trim(src(l), `"`))
				}
			}
			// first call in the clause that names a handler
			hp, hf := "", ""
			for _, st := range cc.Body {
				ast.Inspect(st, func(x ast.Node) bool {
					if hf != "" {
						return false
					}
					if _, ok := x.(*ast.FuncLit); ok {
						return false // a callback handed to the handler is not the handler
					}
					if ce, ok := x.(*ast.CallExpr); ok {
						switch f := ce.Fun.(type) {
						case *ast.SelectorExpr:
							if id, ok := f.X.(*ast.Ident); ok && pkgs[id.Name] != nil && pkgs[id.Name][f.Sel.Name] != nil {
								hp, hf = id.Name, f.Sel.Name
							}
						case *ast.Ident:
							if pkgs[pkg][f.Name] != nil {
								hp, hf = pkg, f.Name
							}
						}
					}
					return true
				})
			}
			for _, l := range labels {
				out = append(out, disp{l, hp, hf, append(append([]ast.Stmt(nil), prologue...), cc.Body...), pkg})
			}
		}
		return false
	})
	return out
}

// ---------- goroutines ----------

type goFact struct {
	pkg, in, target string
	recovers        bool
}

// callsRecoverDirectly: the body calls recover() itself (not inside a nested function literal), which is what makes a
// deferred call of that function stop a panic
func callsRecoverDirectly(body *ast.BlockStmt) bool {
	found := false
	ast.Inspect(body, func(n ast.Node) bool {
		if _, ok := n.(*ast.FuncLit); ok {
			return false
		}
		if ce, ok := n.(*ast.CallExpr); ok {
			if id, ok := ce.Fun.(*ast.Ident); ok && id.Name == "recover" {
				found = true
			}
		}
		return true
	})
	return found
}

// hasDeferredRecover: a top-level `defer func() { … recover() … }()` or `defer helper(…)` where helper calls recover() itself
func hasDeferredRecover(pkg string, body *ast.BlockStmt) bool {
	for _, st := range body.List {
		d, ok := st.(*ast.DeferStmt)
		if !ok {
			continue
		}
		switch f := d.Call.Fun.(type) {
		case *ast.FuncLit:
			if callsRecoverDirectly(f.Body) {
				return true
			}
		default:
			if t := resolve(pkg, f); t != nil && callsRecoverDirectly(t.Body) {
				return true
			}
		}
	}
	return false
}

// pkgOf finds the package a resolved declaration lives in
func pkgOf(fd *ast.FuncDecl) string {
	for pkg, fs := range pkgs {
		for _, d := range fs {
			if d == fd {
				return pkg
			}
		}
	}
	return ""
}

func goroutines() []goFact {
	var out []goFact
	for pkg, fs := range pkgs {
		for name, fd := range fs {
			ast.Inspect(fd.Body, func(n ast.Node) bool {
				g, ok := n.(*ast.GoStmt)
				if !ok {
					return true
				}
				gf := goFact{pkg: pkg, in: name, target: src(g.Call.Fun)}
				switch f := g.Call.Fun.(type) {
				case *ast.FuncLit:
					gf.target = "func-literal"
					gf.recovers = hasDeferredRecover(pkg, f.Body)
					// a literal that only calls one function: look into that function too
					if !gf.recovers {
						ast.Inspect(f.Body, func(x ast.Node) bool {
							if ce, ok := x.(*ast.CallExpr); ok {
								if t := resolve(pkg, ce.Fun); t != nil && hasDeferredRecover(pkgOf(t), t.Body) {
									gf.recovers = true
								}
							}
							return true
						})
					}
				default:
					if t := resolve(pkg, g.Call.Fun); t != nil {
						gf.recovers = hasDeferredRecover(pkgOf(t), t.Body)
					}
				}
				out = append(out, gf)
				return true
			})
		}
	}
	sort.Slice(out, func(i, j int) bool {
		return out[i].pkg+out[i].in+out[i].target < out[j].pkg+out[j].in+out[j].target
	})
	return out
}

// ---------- reads from the object store ----------

// retrieveSite: a call of (*S3BlobStorage).Retrieve and whether its error is handed on: the call is an assignment directly
// followed by `if err != nil { … return …, <something that is not nil> }`. A site that looks at the error only to skip the
// content (`if c, err := x.Retrieve(id); err == nil { … }`) turns an unreadable object into an empty part.
type retrieveSite struct {
	at         string
	propagates bool
}

func retrieveSites() []retrieveSite {
	var out []retrieveSite
	isRetrieve := func(e ast.Expr) bool {
		ce, ok := e.(*ast.CallExpr)
		if !ok {
			return false
		}
		se, ok := ce.Fun.(*ast.SelectorExpr)
		return ok && se.Sel.Name == "Retrieve"
	}
	for pkg, fs := range pkgs {
		if pkg == "helpers" {
			continue
		}
		for name, fd := range fs {
			if strings.HasPrefix(funcFile[pkg+"."+name], "testing_") {
				continue
			}
			found := map[ast.Node]bool{}
			// the propagating shape, statement lists first
			ast.Inspect(fd.Body, func(n ast.Node) bool {
				var list []ast.Stmt
				switch b := n.(type) {
				case *ast.BlockStmt:
					list = b.List
				case *ast.CaseClause:
					list = b.Body
				case *ast.CommClause:
					list = b.Body
				}
				for i, st := range list {
					as, ok := st.(*ast.AssignStmt)
					if !ok || len(as.Rhs) != 1 || !isRetrieve(as.Rhs[0]) {
						continue
					}
					found[as.Rhs[0]] = true
					site := retrieveSite{at: pkg + "." + name}
					if i+1 < len(list) {
						if ifs, ok := list[i+1].(*ast.IfStmt); ok && strings.Contains(src(ifs.Cond), "err != nil") {
							for _, s2 := range ifs.Body.List {
								if rs, ok := s2.(*ast.ReturnStmt); ok && len(rs.Results) > 0 && src(rs.Results[len(rs.Results)-1]) != "nil" {
									site.propagates = true
								}
							}
						}
					}
					out = append(out, site)
				}
				return true
			})
			// every other call
			ast.Inspect(fd.Body, func(n ast.Node) bool {
				if e, ok := n.(ast.Expr); ok && isRetrieve(e) && !found[n] {
					out = append(out, retrieveSite{at: pkg + "." + name})
				}
				return true
			})
		}
	}
	sort.Slice(out, func(i, j int) bool { return out[i].at < out[j].at })
	return out
}

// ---------- HTTP clients ----------

// httpClientFact: every http.Client the services build (composite literal), and every use of the package-level client
// (http.Get / Post / DefaultClient), with whether an overall Timeout bounds a request — dial, TLS handshake, headers and body
type httpClientFact struct {
	at         string
	hasTimeout bool
}

func httpClients() []httpClientFact {
	var out []httpClientFact
	note := func(at string, n ast.Node) {
		ast.Inspect(n, func(x ast.Node) bool {
			switch y := x.(type) {
			case *ast.CompositeLit:
				if src(y.Type) == "http.Client" {
					f := httpClientFact{at: at}
					for _, el := range y.Elts {
						if kv, ok := el.(*ast.KeyValueExpr); ok && src(kv.Key) == "Timeout" && src(kv.Value) != "0" {
							f.hasTimeout = true
						}
					}
					out = append(out, f)
				}
			case *ast.SelectorExpr:
				if c := src(y); c == "http.Get" || c == "http.Post" || c == "http.PostForm" || c == "http.Head" || c == "http.DefaultClient" {
					out = append(out, httpClientFact{at: at + " " + c})
				}
			}
			return true
		})
	}
	for pkg, fs := range pkgs {
		if pkg == "helpers" {
			continue
		}
		for name, fd := range fs {
			if strings.HasPrefix(funcFile[pkg+"."+name], "testing_") {
				continue
			}
			note(pkg+"."+name, fd.Body)
		}
	}
	for name, v := range pkgVars {
		if !strings.HasPrefix(name, "helpers.") {
			note(name, v)
		}
	}
	sort.Slice(out, func(i, j int) bool { return out[i].at < out[j].at })
	return out
}

// ---------- accept loops ----------

// acceptFact: a `for` loop that takes connections off a listener (`conn, err := x.Accept()`), and what the statement guarding
// the error does: does control leave the loop (return, or break / goto out of it) on an error that is not the service's own
// shutdown (a `case <-ch:` of a select)? A loop that leaves on any error stops serving after one failed accept.
type acceptFact struct {
	pkg, in       string
	leavesOnError bool
	continues     bool
}

func acceptLoops() []acceptFact {
	var out []acceptFact
	for pkg, fs := range pkgs {
		if pkg == "helpers" {
			continue // test support
		}
		for name, fd := range fs {
			ast.Inspect(fd.Body, func(n ast.Node) bool {
				loop, ok := n.(*ast.ForStmt)
				if !ok {
					return true
				}
				for i, st := range loop.Body.List {
					as, ok := st.(*ast.AssignStmt)
					if !ok || len(as.Rhs) != 1 || !strings.HasSuffix(src(as.Rhs[0]), ".Accept()") {
						continue
					}
					af := acceptFact{pkg: pkg, in: name}
					if i+1 < len(loop.Body.List) {
						if ifs, ok := loop.Body.List[i+1].(*ast.IfStmt); ok && strings.Contains(src(ifs.Cond), "err != nil") {
							af.leavesOnError, af.continues = leaves(ifs.Body, false, 0, 0)
						} else {
							af.leavesOnError = true // the error is not looked at where it arises
						}
					}
					out = append(out, af)
				}
				return true
			})
		}
	}
	sort.Slice(out, func(i, j int) bool { return out[i].pkg+out[i].in < out[j].pkg+out[j].in })
	return out
}

// leaves: (a statement that ends the enclosing loop is reachable outside a receive case, a `continue` of the loop exists).
// bd counts the statements a plain `break` would end (for, range, select, switch), ld the loops a plain `continue` would continue.
func leaves(n ast.Node, inRecv bool, bd, ld int) (leave, cont bool) {
	all := func(sts []ast.Stmt, recv bool, bd, ld int) (leave, cont bool) {
		for _, st := range sts {
			l, c := leaves(st, recv, bd, ld)
			leave, cont = leave || l, cont || c
		}
		return
	}
	switch x := n.(type) {
	case *ast.ReturnStmt:
		return !inRecv, false
	case *ast.BranchStmt:
		switch x.Tok {
		case token.CONTINUE:
			return false, ld == 0 || x.Label != nil
		case token.GOTO:
			return !inRecv, false
		case token.BREAK:
			return !inRecv && (bd == 0 || x.Label != nil), false
		}
	case *ast.CommClause:
		recv := inRecv
		if x.Comm != nil && strings.Contains(src(x.Comm), "<-") {
			recv = true
		}
		return all(x.Body, recv, bd, ld)
	case *ast.ForStmt:
		return all(x.Body.List, inRecv, bd+1, ld+1)
	case *ast.RangeStmt:
		return all(x.Body.List, inRecv, bd+1, ld+1)
	case *ast.SelectStmt:
		return all(x.Body.List, inRecv, bd+1, ld)
	case *ast.SwitchStmt:
		return all(x.Body.List, inRecv, bd+1, ld)
	case *ast.TypeSwitchStmt:
		return all(x.Body.List, inRecv, bd+1, ld)
	case *ast.BlockStmt:
		return all(x.List, inRecv, bd, ld)
	case *ast.IfStmt:
		l1, c1 := leaves(x.Body, inRecv, bd, ld)
		l2, c2 := false, false
		if x.Else != nil {
			l2, c2 = leaves(x.Else, inRecv, bd, ld)
		}
		return l1 || l2, c1 || c2
	case *ast.CaseClause:
		return all(x.Body, inRecv, bd, ld)
	case *ast.LabeledStmt:
		return leaves(x.Stmt, inRecv, bd, ld)
	}
	return
}

// ---------- the clock of a silent IDLE ----------

// idleClock: in extension.HandleIdle the limit is `time.Since(<v>) >= IdleTimeout`; how often is <v> assigned at all, and how
// often inside a loop (every assignment in the loop restarts the client's silence)?
func idleClock() (v string, assigns, inLoop int) {
	fd := pkgs["extension"]["HandleIdle"]
	if fd == nil {
		return "", 0, 0
	}
	ast.Inspect(fd.Body, func(n ast.Node) bool {
		if be, ok := n.(*ast.BinaryExpr); ok && strings.Contains(src(be.Y), "IdleTimeout") {
			if ce, ok := be.X.(*ast.CallExpr); ok && src(ce.Fun) == "time.Since" && len(ce.Args) == 1 {
				v = src(ce.Args[0])
			}
		}
		return true
	})
	if v == "" {
		return
	}
	var walk func(n ast.Node, loop bool)
	walk = func(n ast.Node, loop bool) {
		ast.Inspect(n, func(x ast.Node) bool {
			switch y := x.(type) {
			case *ast.ForStmt:
				if y.Init != nil {
					walk(y.Init, loop)
				}
				if y.Post != nil {
					walk(y.Post, true)
				}
				walk(y.Body, true)
				return false
			case *ast.RangeStmt:
				walk(y.Body, true)
				return false
			case *ast.AssignStmt:
				for _, l := range y.Lhs {
					if src(l) == v {
						assigns++
						if loop {
							inLoop++
						}
					}
				}
			case *ast.UnaryExpr:
				if y.Op == token.AND && src(y.X) == v {
					assigns += 100 // its address escapes: anything may write it
				}
			}
			return true
		})
	}
	walk(fd.Body, false)
	return
}

func resolve(pkg string, fun ast.Expr) *ast.FuncDecl {
	switch f := fun.(type) {
	case *ast.Ident:
		return pkgs[pkg][f.Name]
	case *ast.SelectorExpr:
		// method on a receiver variable (s.handleConnection) or pkg.Func
		if id, ok := f.X.(*ast.Ident); ok {
			if fs, ok := pkgs[id.Name]; ok && fs[f.Sel.Name] != nil {
				return fs[f.Sel.Name]
			}
		}
		for n, fd := range pkgs[pkg] {
			if strings.HasSuffix(n, "."+f.Sel.Name) {
				return fd
			}
		}
		// method of a type of another package (server.HandleConnection)
		for _, fs := range pkgs {
			for n, fd := range fs {
				if strings.HasSuffix(n, "."+f.Sel.Name) {
					return fd
				}
			}
		}
	}
	return nil
}

// ---------- emit ----------

func lb(s string) string { return fmt.Sprintf("(b!%q)", s) }
func bl(b bool) string {
	if b {
		return "true"
	}
	return "false"
}

func main() {
	repo := flag.String("repo", "/repo", "")
	out := flag.String("out", "", "")
	flag.Parse()
	load(*repo + "/internal")
	load(*repo + "/cmd")
	os.MkdirAll(*out, 0755)
	// delete stale files first
	old, _ := filepath.Glob(*out + "/*.lean")
	for _, f := range old {
		os.Remove(f)
	}

	top := dispatchOf("server", "handleClient", "cmd")
	uid := dispatchOf("uid", "HandleUID", "subCmd")
	var b strings.Builder
	b.WriteString("import RavenModel.Base.Bytes\n/-! GENERATED by harness/facts from /repo — do not edit. -/\nnamespace Raven.Gen\nopen Raven\n\n")
	b.WriteString("structure Guards where\n  auth : Bool\n  sel : Bool\n  rw : Bool\nderiving Repr, DecidableEq\n\n")
	b.WriteString("inductive Kind where | selected | user | userOther | shared | role\nderiving Repr, DecidableEq\n\n")
	b.WriteString("structure Access where\n  kind : Kind\n  guards : Guards\nderiving Repr, DecidableEq\n\n")
	b.WriteString("structure Command where\n  name : Bytes\n  uidSub : Bool       -- a sub-command of UID\n  handler : Bytes\n  accesses : List Access\nderiving Repr\n\n")
	b.WriteString("def commands : List Command := [\n")
	emit := func(d disp, isUID bool, inherited guards) {
		w := &walker{seen: map[string]bool{}}
		if d.fn != "" {
			// the clause as a whole: the handler and whatever the dispatching loop does before and after it
			var body []ast.Stmt
			for _, st := range d.body {
				if as, ok := st.(*ast.AssignStmt); ok && len(as.Rhs) == 1 {
					if _, isLit := as.Rhs[0].(*ast.FuncLit); isLit {
						continue // a callback handed to the handler (the command loop itself, after STARTTLS) is not this command's doing
					}
				}
				body = append(body, st)
			}
			w.block(d.in, d.in+".dispatch", body, inherited)
		}
		var as []string
		seen := map[string]bool{}
		for _, a := range w.acc {
			s := fmt.Sprintf("⟨.%s, ⟨%s, %s, %s⟩⟩", a.kind, bl(a.g.auth), bl(a.g.sel), bl(a.g.rw))
			if !seen[s] {
				seen[s] = true
				as = append(as, s)
			}
		}
		sort.Strings(as)
		fmt.Fprintf(&b, "  { name := %s, uidSub := %s, handler := %s, accesses := [%s] },\n", lb(d.cmd), bl(isUID), lb(d.pkg+"."+d.fn), strings.Join(as, ", "))
	}
	for _, d := range top {
		emit(d, false, guards{})
	}
	// UID sub-handlers inherit the guards HandleUID establishes before its switch
	var uidG guards
	if fd := pkgs["uid"]["HandleUID"]; fd != nil {
		for _, st := range fd.Body.List {
			if ifs, ok := st.(*ast.IfStmt); ok && endsInReturn(ifs.Body) {
				uidG = uidG.or(afterReturnGuard(src(ifs.Cond)))
			}
		}
	}
	for _, d := range uid {
		emit(d, true, uidG)
	}
	b.WriteString("]\n\n")

	// authentication events
	b.WriteString("structure AuthEvent where\n  isSet : Bool        -- `state.Authenticated = true` (else: a call of authenticateUser)\n  at' : Bytes\n  tlsGuard : Bool     -- dominated by `if !isTLS { …; return }`\nderiving Repr\n\n")
	b.WriteString("def authEvents : List AuthEvent := [\n")
	var evs []string
	for name := range pkgs["auth"] {
		w := &walker{seen: map[string]bool{}}
		fd := pkgs["auth"][name]
		w.depth = 0
		w.block("auth", "auth."+name, fd.Body.List, guards{})
		for _, e := range w.auth {
			if e.at != "auth."+name {
				continue // reported at its own function
			}
			evs = append(evs, fmt.Sprintf("  { isSet := %s, at' := %s, tlsGuard := %s },\n", bl(e.what == "set"), lb(e.at), bl(e.g.tls)))
		}
	}
	// assignments anywhere else in the server packages
	for pkg, fs := range pkgs {
		if pkg == "auth" || !strings.Contains(pkgDir[pkg], "/internal/server") {
			continue
		}
		for name, fd := range fs {
			ast.Inspect(fd.Body, func(n ast.Node) bool {
				if as, ok := n.(*ast.AssignStmt); ok {
					for i, l := range as.Lhs {
						if src(l) == "state.Authenticated" && i < len(as.Rhs) && src(as.Rhs[i]) == "true" {
							evs = append(evs, fmt.Sprintf("  { isSet := true, at' := %s, tlsGuard := false },\n", lb(pkg+"."+name)))
						}
					}
				}
				return true
			})
		}
	}
	sort.Strings(evs)
	seenEv := map[string]bool{}
	for _, e := range evs {
		if !seenEv[e] {
			seenEv[e] = true
			b.WriteString(e)
		}
	}
	b.WriteString("]\n\n")

	// goroutines
	b.WriteString("structure GoFact where\n  pkg : Bytes\n  inFunc : Bytes\n  target : Bytes\n  recovers : Bool\nderiving Repr\n\n")
	b.WriteString("def goroutines : List GoFact := [\n")
	for _, g := range goroutines() {
		fmt.Fprintf(&b, "  { pkg := %s, inFunc := %s, target := %s, recovers := %s },\n", lb(g.pkg), lb(g.in), lb(g.target), bl(g.recovers))
	}
	b.WriteString("]\n\n")

	// accept loops
	b.WriteString("structure AcceptFact where\n  pkg : Bytes\n  inFunc : Bytes\n  leavesOnError : Bool\n  continues : Bool\nderiving Repr\n\n")
	b.WriteString("def acceptLoops : List AcceptFact := [\n")
	for _, a := range acceptLoops() {
		fmt.Fprintf(&b, "  { pkg := %s, inFunc := %s, leavesOnError := %s, continues := %s },\n", lb(a.pkg), lb(a.in), bl(a.leavesOnError), bl(a.continues))
	}
	b.WriteString("]\n\n")
	{
		v, n, k := idleClock()
		fmt.Fprintf(&b, "/-- the variable the silent-IDLE limit is measured from, its assignments, and those inside a loop -/\ndef idleClock : Bytes × Nat × Nat := (%s, %d, %d)\n\n", lb(v), n, k)
	}

	// reads from the object store
	b.WriteString("/-- every call of the object store's Retrieve: the function it is in, and whether its error is handed on -/\ndef retrieveSites : List (Bytes × Bool) := [\n")
	for _, r := range retrieveSites() {
		fmt.Fprintf(&b, "  (%s, %s),\n", lb(r.at), bl(r.propagates))
	}
	b.WriteString("]\n\n")

	// HTTP clients
	b.WriteString("/-- every HTTP client of the services, and whether an overall Timeout bounds its requests -/\ndef httpClients : List (Bytes × Bool) := [\n")
	for _, h := range httpClients() {
		fmt.Fprintf(&b, "  (%s, %s),\n", lb(h.at), bl(h.hasTimeout))
	}
	b.WriteString("]\n\n")

	// moves between mailboxes
	b.WriteString("/-- functions that move a link from one mailbox to another, and whether they consult RowsAffected of what they removed -/\ndef moveChecks : List (Bytes × Bool) := [\n")
	for _, name := range []string{"message.MoveMessageToMailbox"} {
		pkg, fn, _ := strings.Cut(name, ".")
		checked := false
		if fd := pkgs[pkg][fn]; fd != nil {
			ast.Inspect(fd.Body, func(n ast.Node) bool {
				if se, ok := n.(*ast.SelectorExpr); ok && se.Sel.Name == "RowsAffected" {
					checked = true
				}
				return true
			})
		}
		fmt.Fprintf(&b, "  (%s, %s),\n", lb(name), bl(checked))
	}
	b.WriteString("]\n\n")

	// Go-syntax quoting in what the protocol services send
	b.WriteString("/-- uses of Go's own string quoting (strconv.Quote*, the %q verb) in the IMAP, LMTP and SASL packages: its escapes (\\x.., \\u...., \\t) are not those of an IMAP quoted string or of any of the three protocols -/\ndef goQuoting : List Bytes := [\n")
	{
		var uses []string
		for pkg, fs := range pkgs {
			dir := pkgDir[pkg]
			if !(strings.Contains(dir, "/internal/server") || strings.Contains(dir, "/internal/sasl") || strings.Contains(dir, "/internal/delivery/lmtp")) {
				continue
			}
			for name, fd := range fs {
				if strings.HasPrefix(funcFile[pkg+"."+name], "testing_") {
					continue
				}
				ast.Inspect(fd.Body, func(n ast.Node) bool {
					switch x := n.(type) {
					case *ast.SelectorExpr:
						if c := src(x); strings.HasPrefix(c, "strconv.Quote") || c == "strconv.AppendQuote" {
							uses = append(uses, pkg+"."+name+" "+c)
						}
					case *ast.BasicLit:
						if x.Kind == token.STRING && strings.Contains(x.Value, "%q") {
							uses = append(uses, pkg+"."+name+" %q")
						}
					}
					return true
				})
			}
		}
		sort.Strings(uses)
		for _, u := range uses {
			fmt.Fprintf(&b, "  %s,\n", lb(u))
		}
	}
	b.WriteString("]\n\n")

	// row ids taken from inserts
	b.WriteString("/-- every `LastInsertId()` with the kind of the INSERT statement that precedes it in its function (plain, or-ignore, on-conflict, or-replace, none): after an insert that did not insert, SQLite's last row id is that of some earlier insert on the connection -/\ndef insertIds : List (Bytes × Bytes) := [\n")
	{
		var rows []string
		for pkg, fs := range pkgs {
			if pkg == "helpers" || strings.HasPrefix(pkg, "cmd_") {
				continue
			}
			for name, fd := range fs {
				if strings.HasPrefix(funcFile[pkg+"."+name], "testing_") {
					continue
				}
				type lit struct {
					pos  token.Pos
					kind string
				}
				var inserts []lit
				var calls []token.Pos
				ast.Inspect(fd.Body, func(n ast.Node) bool {
					switch x := n.(type) {
					case *ast.BasicLit:
						if x.Kind == token.STRING {
							u := strings.ToUpper(x.Value)
							if strings.Contains(u, "INSERT") {
								k := "plain"
								switch {
								case strings.Contains(u, "OR IGNORE"):
									k = "or-ignore"
								case strings.Contains(u, "ON CONFLICT"):
									k = "on-conflict"
								case strings.Contains(u, "OR REPLACE"):
									k = "or-replace"
								}
								inserts = append(inserts, lit{x.Pos(), k})
							}
						}
					case *ast.SelectorExpr:
						if x.Sel.Name == "LastInsertId" {
							calls = append(calls, x.Pos())
						}
					}
					return true
				})
				for _, c := range calls {
					k := "none"
					for _, in := range inserts {
						if in.pos < c {
							k = in.kind
						}
					}
					rows = append(rows, fmt.Sprintf("  (%s, %s),\n", lb(pkg+"."+name), lb(k)))
				}
			}
		}
		sort.Strings(rows)
		for _, r := range rows {
			b.WriteString(r)
		}
	}
	b.WriteString("]\n\n")

	// calls that end the process from inside the service packages (not cmd/*, not the test-support files)
	b.WriteString("structure ExitFact where\n  pkg : Bytes\n  inFunc : Bytes\n  call : Bytes\nderiving Repr\n\n")
	b.WriteString("def exitCalls : List ExitFact := [\n")
	var exits []string
	for pkg, fs := range pkgs {
		if strings.HasPrefix(pkg, "cmd_") {
			continue
		}
		for name, fd := range fs {
			if strings.HasPrefix(funcFile[pkg+"."+name], "testing_") {
				continue
			}
			ast.Inspect(fd.Body, func(n ast.Node) bool {
				if ce, ok := n.(*ast.CallExpr); ok {
					c := src(ce.Fun)
					if c == "panic" || c == "os.Exit" || strings.HasPrefix(c, "log.Fatal") || strings.HasPrefix(c, "log.Panic") {
						exits = append(exits, fmt.Sprintf("  { pkg := %s, inFunc := %s, call := %s },\n", lb(pkg), lb(name), lb(c)))
					}
				}
				return true
			})
		}
	}
	sort.Strings(exits)
	for _, e := range exits {
		b.WriteString(e)
	}
	b.WriteString("]\n\nend Raven.Gen\n")
	if err := os.WriteFile(*out+"/Facts.lean", []byte(b.String()), 0644); err != nil {
		fmt.Fprintln(os.Stderr, err)
		os.Exit(1)
	}
	if err := os.WriteFile(*out+"/Plan.lean", []byte(emitPlan()), 0644); err != nil {
		fmt.Fprintln(os.Stderr, err)
		os.Exit(1)
	}
}
