package main

// plan.go – the second regenerated file, Gen/Plan.lean: for the operations whose *statement order* the hand-written models
// mirror (Model/Durable, Model/Deliver, Model/Mail), the flattened, source-ordered trace of their effects as the code has them
// now: SQL statements (verb, table, RETURNING / LIKE markers), transaction brackets, replies to the client, calls into the
// storage layer.  Calls into the repository's own functions are inlined (depth-limited), so a helper that is split off or
// merged does not change the trace.  Also: the read deadlines armed by each waiting loop, and the numeric limits the models
// are parametric in.  Props/C01, C03, C04, C07, C20 state their obligations over these tables.

import (
	"fmt"
	"go/ast"
	"go/token"
	"regexp"
	"sort"
	"strconv"
	"strings"
)

type tracer struct {
	rangeOf map[string][]string // loop variable -> the string literals it ranges over
	ev      []string
	stack   map[string]bool
	depth   int
	cur     []*ast.FuncDecl // the functions being traced, innermost last
}

// localString: the string literal a local variable of the function being traced is initialised with (query := "SELECT …")
func (t *tracer) localString(name string) (string, bool) {
	if len(t.cur) == 0 {
		return "", false
	}
	var out string
	found := false
	ast.Inspect(t.cur[len(t.cur)-1].Body, func(n ast.Node) bool {
		if as, ok := n.(*ast.AssignStmt); ok && !found {
			for i, l := range as.Lhs {
				if id, ok := l.(*ast.Ident); ok && id.Name == name && i < len(as.Rhs) {
					if txt, ok := literalText(as.Rhs[i]); ok {
						out, found = txt, true
					}
				}
			}
		}
		return !found
	})
	return out, found
}

var sqlMethods = map[string]int{"Exec": 0, "Query": 0, "QueryRow": 0, "Prepare": 0, "ExecContext": 1, "QueryContext": 1, "QueryRowContext": 1}

var wsRe = regexp.MustCompile(`\s+`)

// literalText returns the concatenated string literals of an expression ("" when it contains none)
func literalText(e ast.Expr) (string, bool) {
	var parts []string
	found := false
	ast.Inspect(e, func(n ast.Node) bool {
		if bl, ok := n.(*ast.BasicLit); ok && bl.Kind == token.STRING {
			if s, err := strconv.Unquote(bl.Value); err == nil {
				parts = append(parts, s)
				found = true
			}
		}
		return true
	})
	return strings.Join(parts, " "), found
}

// stringList: the elements of a []string composite literal, or of the local variable initialised with one
func (t *tracer) stringList(e ast.Expr) ([]string, bool) {
	lits := func(cl *ast.CompositeLit) ([]string, bool) {
		var out []string
		for _, el := range cl.Elts {
			bl, ok := el.(*ast.BasicLit)
			if !ok || bl.Kind != token.STRING {
				return nil, false
			}
			v, err := strconv.Unquote(bl.Value)
			if err != nil {
				return nil, false
			}
			out = append(out, v)
		}
		return out, len(out) > 0
	}
	switch v := e.(type) {
	case *ast.CompositeLit:
		return lits(v)
	case *ast.Ident:
		if len(t.cur) == 0 {
			return nil, false
		}
		var out []string
		found := false
		ast.Inspect(t.cur[len(t.cur)-1].Body, func(n ast.Node) bool {
			if as, ok := n.(*ast.AssignStmt); ok && !found {
				for i, l := range as.Lhs {
					if id, ok := l.(*ast.Ident); ok && id.Name == v.Name && i < len(as.Rhs) {
						if cl, ok := as.Rhs[i].(*ast.CompositeLit); ok {
							out, found = lits(cl)
						}
					}
				}
			}
			return !found
		})
		return out, found
	}
	return nil, false
}

// sqlSummary: "VERB table [RETURNING] [LIKE(col)]" – robust against re-formatting of the statement text
func sqlSummary(text string) string {
	t := strings.TrimSpace(wsRe.ReplaceAllString(text, " "))
	up := strings.ToUpper(t)
	f := strings.Fields(t)
	if len(f) == 0 {
		return "?"
	}
	verb := strings.ToUpper(f[0])
	table := ""
	after := func(kw string) string {
		i := strings.Index(up, " "+kw+" ")
		if i < 0 {
			if strings.HasPrefix(up, kw+" ") {
				i = -1
			} else {
				return ""
			}
		}
		rest := strings.Fields(t[i+len(kw)+2-0:])
		if i == -1 {
			rest = strings.Fields(t[len(kw)+1:])
		}
		if len(rest) == 0 {
			return ""
		}
		return strings.Trim(rest[0], "(),;")
	}
	switch verb {
	case "INSERT", "REPLACE":
		table = after("INTO")
	case "UPDATE":
		table = after("UPDATE")
		if strings.EqualFold(table, "OR") { // UPDATE OR IGNORE t
			r := strings.Fields(t)
			if len(r) > 3 {
				table = r[3]
			}
		}
	case "DELETE", "SELECT":
		table = after("FROM")
	case "CREATE", "DROP", "ALTER", "PRAGMA":
		if len(f) > 1 {
			table = strings.Join(f[1:min(len(f), 3)], " ")
		}
	}
	s := verb + " " + table
	if verb == "INSERT" && strings.Contains(up, "INSERT OR IGNORE") {
		s = "INSERT-OR-IGNORE " + table
	}
	if verb == "INSERT" && strings.Contains(up, "INSERT OR REPLACE") {
		s = "INSERT-OR-REPLACE " + table
	}
	if strings.Contains(up, " ON CONFLICT") {
		s += " ON-CONFLICT"
	}
	if strings.Contains(up, " RETURNING ") {
		s += " RETURNING"
	}
	if m := regexp.MustCompile(`(?i)([\w.|' ()]+?)\s+(NOT\s+)?LIKE\b`).FindStringSubmatch(t); m != nil {
		col := strings.Fields(m[1])
		c := col[len(col)-1]
		if strings.Contains(m[1], "||") {
			c = "delimited"
		}
		s += " LIKE(" + strings.Trim(c, "()") + ")"
	}
	if strings.Contains(up, "MAX(UID)") {
		s += " MAX(uid)"
	}
	if strings.Contains(up, "DISTINCT") {
		s += " DISTINCT"
	}
	return s
}

var replyRe = regexp.MustCompile(`(?i)^(sendResponse|SendResponse|sendRawResponse|rejectTransaction|sendContinuation|SendContinuation)$`)

func (t *tracer) emit(s string) { t.ev = append(t.ev, s) }

func (t *tracer) fn(pkg, name, pre string) {
	key := pkg + "." + name
	if t.stack[key] || t.depth > 7 {
		return
	}
	fd := pkgs[pkg][name]
	if fd == nil {
		return
	}
	t.stack[key] = true
	t.depth++
	t.cur = append(t.cur, fd)
	t.node(pkg, fd.Body, pre)
	t.cur = t.cur[:len(t.cur)-1]
	t.depth--
	delete(t.stack, key)
}

func (t *tracer) node(pkg string, n ast.Node, pre string) {
	if n == nil {
		return
	}
	ast.Inspect(n, func(x ast.Node) bool {
		switch e := x.(type) {
		case *ast.DeferStmt:
			t.call(pkg, e.Call, pre+"defer ")
			return false
		case *ast.IfStmt:
			if c := src(e.Cond); strings.Contains(c, "StatusCode") {
				if e.Init != nil {
					t.node(pkg, e.Init, pre)
				}
				t.emit(pre + "cond " + c)
				t.node(pkg, e.Body, pre)
				if e.Else != nil {
					t.node(pkg, e.Else, pre)
				}
				return false
			}
		case *ast.ForStmt:
			t.node(pkg, e.Init, pre)
			t.emit(pre + "loop {")
			t.node(pkg, e.Cond, pre)
			t.node(pkg, e.Body, pre)
			t.node(pkg, e.Post, pre)
			t.emit(pre + "}")
			return false
		case *ast.RangeStmt:
			t.node(pkg, e.X, pre)
			if id, ok := e.Value.(*ast.Ident); ok {
				if list, ok := t.stringList(e.X); ok {
					if t.rangeOf == nil {
						t.rangeOf = map[string][]string{}
					}
					t.rangeOf[id.Name] = list
				}
			}
			t.emit(pre + "loop {")
			t.node(pkg, e.Body, pre)
			t.emit(pre + "}")
			return false
		case *ast.ReturnStmt:
			if len(e.Results) == 1 && src(e.Results[0]) == "true" {
				t.emit(pre + "return true")
			}
		case *ast.GoStmt:
			t.call(pkg, e.Call, pre+"go ")
			return false
		case *ast.AssignStmt:
			for _, r := range e.Rhs {
				t.node(pkg, r, pre)
			}
			for i, l := range e.Lhs {
				ls := src(l)
				if strings.HasPrefix(ls, "state.") && !strings.Contains(ls, "[") {
					v := ""
					if i < len(e.Rhs) {
						v = src(e.Rhs[i])
						if len(v) > 24 {
							v = "..."
						}
					}
					t.emit(pre + "set " + ls + " = " + v)
				}
			}
			return false
		case *ast.CallExpr:
			t.call(pkg, e, pre)
			return false
		}
		return true
	})
}

func (t *tracer) call(pkg string, e *ast.CallExpr, pre string) {
	// arguments first (they are evaluated before the call)
	if fl, ok := e.Fun.(*ast.FuncLit); ok {
		for _, a := range e.Args {
			t.node(pkg, a, pre)
		}
		t.node(pkg, fl.Body, pre)
		return
	}
	if se, ok := e.Fun.(*ast.SelectorExpr); ok {
		t.node(pkg, se.X, pre)
	}
	for _, a := range e.Args {
		t.node(pkg, a, pre)
	}
	name := src(e.Fun)
	sel := name
	recv := ""
	if se, ok := e.Fun.(*ast.SelectorExpr); ok {
		sel = se.Sel.Name
		recv = src(se.X)
	}
	if idx, ok := sqlMethods[sel]; ok && recv != "" {
		if len(e.Args) > idx {
			txt, found := literalText(e.Args[idx])
			if id, ok := e.Args[idx].(*ast.Ident); ok && !found {
				if list, ok := t.rangeOf[id.Name]; ok {
					// the statement text is the loop variable of `for _, x := range []string{…}`: one event per element
					for _, q := range list {
						t.emit(pre + "sql " + sqlSummary(q))
					}
					return
				}
				txt, found = t.localString(id.Name)
			}
			if found {
				up := strings.ToUpper(strings.TrimSpace(txt))
				for _, v := range []string{"SELECT", "INSERT", "UPDATE", "DELETE", "CREATE", "PRAGMA", "REPLACE", "DROP", "ALTER", "BEGIN", "COMMIT"} {
					if strings.HasPrefix(up, v) {
						t.emit(pre + "sql " + sqlSummary(txt))
						return
					}
				}
			} else if sel != "Prepare" {
				t.emit(pre + "sql ?")
				return
			}
		}
	}
	if sel == "Do" && strings.Contains(strings.ToLower(recv), "client") {
		t.emit(pre + "backend request")
		return
	}
	switch sel {
	case "Begin", "BeginTx":
		if recv != "" {
			t.emit(pre + "tx begin")
			return
		}
	case "Commit":
		if recv != "" && len(e.Args) == 0 {
			t.emit(pre + "tx commit")
			return
		}
	case "Rollback":
		if recv != "" && len(e.Args) == 0 {
			t.emit(pre + "tx rollback")
			return
		}
	}
	if replyRe.MatchString(sel) {
		kind := ""
		for _, a := range e.Args {
			if txt, found := literalText(a); found {
				f := strings.Fields(txt)
				for _, w := range f {
					w = strings.Trim(w, "%s ")
					if w == "OK" || w == "NO" || w == "BAD" || w == "BYE" {
						kind = " " + w
						break
					}
				}
				if kind == "" && len(f) > 0 && strings.HasPrefix(f[0], "*") {
					kind = " untagged"
				}
				if kind != "" {
					break
				}
			} else if bl, ok := a.(*ast.BasicLit); ok && bl.Kind == token.INT {
				kind = " " + bl.Value
				break
			}
		}
		t.emit(pre + "reply" + kind)
		return
	}
	// calls into the repository's own code: named, then inlined
	switch f := e.Fun.(type) {
	case *ast.Ident:
		if pkgs[pkg][f.Name] != nil {
			t.inline(pkg, f.Name, pre)
		}
	case *ast.SelectorExpr:
		if id, ok := f.X.(*ast.Ident); ok {
			if fs, ok := pkgs[id.Name]; ok && fs[f.Sel.Name] != nil {
				t.inline(id.Name, f.Sel.Name, pre)
				return
			}
		}
		// a method: of the receiver's own type in this package, of the storage layer, of the database manager
		cands := []string{}
		rs := src(f.X)
		switch {
		case strings.HasSuffix(rs, "storage"):
			cands = append(cands, "storage")
		case strings.Contains(rs, "dbManager") || strings.Contains(rs, "DBManager") || strings.Contains(rs, "dbMgr"):
			cands = append(cands, "db")
		case rs == "deps":
			cands = append(cands, "server")
		case strings.Contains(rs, "s3") || strings.Contains(rs, "S3"):
			cands = append(cands, "blobstorage")
		default:
			if _, isIdent := f.X.(*ast.Ident); isIdent {
				cands = append(cands, pkg)
			}
		}
		if f.Sel.Name == "Close" || f.Sel.Name == "Error" || f.Sel.Name == "String" {
			cands = nil // methods every other type has too: not ours by name alone
		}
		for _, p := range cands {
			var hits []string
			for n := range pkgs[p] {
				if strings.HasSuffix(n, "."+f.Sel.Name) {
					hits = append(hits, n)
				}
			}
			if len(hits) == 1 && !strings.HasPrefix(funcFile[p+"."+hits[0]], "testing_") {
				t.inline(p, hits[0], pre)
				return
			}
		}
	}
}

var keepAlways = map[string]bool{"db.DBManager.initUserDB": true, "message.CalculateNewFlags": true, "parser.ParseMIMEMessage": true, "parser.ParseMessage": true, "parser.ReadDataCommand": true,
	"parser.ValidateMessage": true, "db.DBManager.GetUserDB": true, "db.DBManager.GetRoleMailboxDB": true, "db.DBManager.GetSharedDB": true}
var noInline = map[string]bool{"db.DBManager.GetUserDB": true, "db.DBManager.GetRoleMailboxDB": true, "db.DBManager.GetSharedDB": true,
	"db.DBManager.initUserDB": true, "db.DBManager.initSharedDB": true}

// inline names the call and splices the callee's own effects in; a callee without effects leaves no trace
func (t *tracer) inline(pkg, name, pre string) {
	key := pkg + "." + name
	mark := len(t.ev)
	t.emit(pre + "call " + key)
	if !noInline[key] {
		t.fn(pkg, name, pre)
	}
	effects := false
	for _, e := range t.ev[mark+1:] {
		_ = e
		effects = true
		break
	}
	if !effects && !keepAlways[key] {
		t.ev = t.ev[:mark]
	}
}

// pruneEmptyLoops drops `loop {` `}` pairs with nothing between them (repeatedly)
func pruneEmptyLoops(ev []string) []string {
	for {
		var out []string
		changed := false
		for i := 0; i < len(ev); i++ {
			if i+1 < len(ev) && strings.HasSuffix(ev[i], "loop {") && strings.HasSuffix(ev[i+1], "}") && !strings.Contains(ev[i+1], "{") {
				i++
				changed = true
				continue
			}
			out = append(out, ev[i])
		}
		ev = out
		if !changed {
			return ev
		}
	}
}

type traceRoot struct{ label, pkg, fn string }

var traceRoots = []traceRoot{
	{"lmtp.handleDATA", "lmtp", "Session.handleDATA"},
	{"storage.DeliverMessage", "storage", "Storage.DeliverMessage"},
	{"db.AddMessageToMailboxPerUser", "db", "AddMessageToMailboxPerUser"},
	{"db.CreateMailboxPerUser", "db", "CreateMailboxPerUser"},
	{"db.DeleteMailboxPerUser", "db", "DeleteMailboxPerUser"},
	{"db.RenameMailboxPerUser", "db", "RenameMailboxPerUser"},
	{"message.HandleAppendWithReader", "message", "HandleAppendWithReader"},
	{"message.HandleCopy", "message", "HandleCopy"},
	{"uid.handleUIDCopy", "uid", "handleUIDCopy"},
	{"message.HandleExpunge", "message", "HandleExpunge"},
	{"uid.handleUIDExpunge", "uid", "handleUIDExpunge"},
	{"selection.HandleClose", "selection", "HandleClose"},
	{"message.HandleStore", "message", "HandleStore"},
	{"mailbox.HandleCreate", "mailbox", "HandleCreate"},
	{"mailbox.HandleDelete", "mailbox", "HandleDelete"},
	{"mailbox.HandleRename", "mailbox", "HandleRename"},
	{"mailbox.HandleSubscribe", "mailbox", "HandleSubscribe"},
	{"mailbox.HandleUnsubscribe", "mailbox", "HandleUnsubscribe"},
	{"message.ApplyFlagChange", "message", "ApplyFlagChange"},
	{"db.DBManager.GetUserDB", "db", "DBManager.GetUserDB"},
	{"db.DBManager.GetRoleMailboxDB", "db", "DBManager.GetRoleMailboxDB"},
	{"db.DBManager.initUserDB", "db", "DBManager.initUserDB"},
	{"auth.authenticateUser", "auth", "authenticateUser"},
	{"sasl.authenticate", "sasl", "Server.authenticate"},
	{"db.GetUserByUsername", "db", "GetUserByUsername"},
	{"db.GetUserByEmail", "db", "GetUserByEmail"},
	{"db.GetRoleMailboxByEmail", "db", "GetRoleMailboxByEmail"},
	{"db.RoleMailboxExists", "db", "RoleMailboxExists"},
	{"db.GetOrCreateUserInitialized", "db", "GetOrCreateUserInitialized"},
	{"db.GetOrCreateDomain", "db", "GetOrCreateDomain"},
	{"db.IsUserAssignedToRoleMailbox", "db", "IsUserAssignedToRoleMailbox"},
	{"db.GetMailboxByNamePerUser", "db", "GetMailboxByNamePerUser"},
	{"db.MailboxExistsPerUser", "db", "MailboxExistsPerUser"},
	{"db.GetUnseenCountPerUser", "db", "GetUnseenCountPerUser"},
	{"db.GetMessageCountPerUser", "db", "GetMessageCountPerUser"},
	{"extension.HandleIdle", "extension", "HandleIdle"},
	{"extension.HandleNoop", "extension", "HandleNoop"},
	{"server.announceNewMessages", "server", "IMAPServer.announceNewMessages"},
	{"selection.HandleUnselect", "selection", "HandleUnselect"},
	{"selection.HandleSelect", "selection", "HandleSelect"},
	{"message.HandleSearch", "message", "HandleSearch"},
}

// ---------- deadlines ----------

type deadlineFact struct {
	at, call string
	ms       int64 // -1: not a compile-time product of literals and time.* units
	varName  string
}

var unitMs = map[string]int64{"time.Millisecond": 1, "time.Second": 1000, "time.Minute": 60000, "time.Hour": 3600000}

// durationMs evaluates products of integer literals and time units; a package-level variable / constant is looked up
func durationMs(pkg string, e ast.Expr, depth int) (int64, string, bool) {
	switch v := e.(type) {
	case *ast.BasicLit:
		if v.Kind == token.INT {
			n, err := strconv.ParseInt(v.Value, 0, 64)
			return n, "", err == nil
		}
	case *ast.ParenExpr:
		return durationMs(pkg, v.X, depth)
	case *ast.BinaryExpr:
		if v.Op == token.MUL {
			a, _, ok1 := durationMs(pkg, v.X, depth)
			b, _, ok2 := durationMs(pkg, v.Y, depth)
			return a * b, "", ok1 && ok2
		}
	case *ast.SelectorExpr:
		if ms, ok := unitMs[src(v)]; ok {
			return ms, "", true
		}
	case *ast.CallExpr:
		if src(v.Fun) == "time.Duration" && len(v.Args) == 1 {
			return durationMs(pkg, v.Args[0], depth)
		}
	case *ast.Ident:
		if depth < 3 {
			if init := pkgVars[pkg+"."+v.Name]; init != nil {
				ms, _, ok := durationMs(pkg, init, depth+1)
				return ms, v.Name, ok
			}
		}
	}
	return -1, "", false
}

var pkgVars = map[string]ast.Expr{}     // pkg.Name -> initialiser (package-level var / const)
var pkgFiles = map[string][]*ast.File{} // filled by loadVars

func deadlines() []deadlineFact {
	var out []deadlineFact
	for pkg, fs := range pkgs {
		if strings.HasPrefix(pkg, "cmd_") {
			continue
		}
		for name, fd := range fs {
			if strings.HasPrefix(funcFile[pkg+"."+name], "testing_") {
				continue
			}
			ast.Inspect(fd.Body, func(n ast.Node) bool {
				ce, ok := n.(*ast.CallExpr)
				if !ok {
					return true
				}
				se, ok := ce.Fun.(*ast.SelectorExpr)
				if !ok || (se.Sel.Name != "SetReadDeadline" && se.Sel.Name != "SetDeadline") || len(ce.Args) != 1 {
					return true
				}
				d := deadlineFact{at: pkg + "." + name, call: se.Sel.Name, ms: -1}
				arg := src(ce.Args[0])
				if arg == "time.Time{}" {
					d.ms = 0 // the deadline is lifted
				} else if c, ok := ce.Args[0].(*ast.CallExpr); ok && strings.HasSuffix(src(c.Fun), ".Add") && len(c.Args) == 1 {
					if ms, vn, ok := durationMs(pkg, c.Args[0], 0); ok {
						d.ms, d.varName = ms, vn
					} else {
						d.varName = src(c.Args[0])
					}
				}
				out = append(out, d)
				return true
			})
		}
	}
	sort.Slice(out, func(i, j int) bool {
		a, b := out[i], out[j]
		if a.at != b.at {
			return a.at < b.at
		}
		if a.ms != b.ms {
			return a.ms < b.ms
		}
		return a.call < b.call
	})
	return out
}

func emitPlan() string {
	var b strings.Builder
	b.WriteString("import RavenModel.Base.Bytes\n/-! GENERATED by harness/facts (plan.go) from /repo — do not edit. -/\nnamespace Raven.Gen\nopen Raven\n\n")
	b.WriteString("/-- per operation: its effects in source order, calls into the repository's own code inlined -/\ndef traces : List (Bytes × List Bytes) := [\n")
	for _, r := range traceRoots {
		t := &tracer{stack: map[string]bool{}}
		t.fn(r.pkg, r.fn, "")
		t.ev = pruneEmptyLoops(t.ev)
		fmt.Fprintf(&b, "  (%s, [\n", lb(r.label))
		for _, e := range t.ev {
			fmt.Fprintf(&b, "    %s,\n", lb(e))
		}
		b.WriteString("  ]),\n")
	}
	b.WriteString("]\n\n")
	b.WriteString("structure Deadline where\n  at' : Bytes\n  call : Bytes\n  ms : Int        -- 0: the deadline is lifted; -1: not computable from literals\n  var : Bytes     -- the package variable that holds the duration, if any\nderiving Repr\n\n")
	b.WriteString("def deadlines : List Deadline := [\n")
	for _, d := range deadlines() {
		fmt.Fprintf(&b, "  { at' := %s, call := %s, ms := %d, var := %s },\n", lb(d.at), lb(d.call), d.ms, lb(d.varName))
	}
	b.WriteString("]\n\nend Raven.Gen\n")
	return b.String()
}
