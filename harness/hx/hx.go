// Package hx holds what every per-property correspondence driver shares: the PRNG, the pipe to the
// Lean model driver, the report written for bin/check, known-findings handling and replay files.
package hx

import (
	"bufio"
	"bytes"
	"encoding/hex"
	"encoding/json"
	"flag"
	"fmt"
	"io"
	"log"
	"os"
	"os/exec"
	"sort"
	"strings"
	"time"
)

// ---------- PRNG: every random choice derives from one splitmix64 state ----------

type Rng struct{ s uint64 }

// NewRng scrambles the seed first: the stream advances by a fixed increment, so seeds must not be laid out along it
// (seed k+1 would replay seed k shifted by one draw).
func NewRng(seed uint64) *Rng {
	z := seed + 0x1234567
	z = (z ^ (z >> 33)) * 0xFF51AFD7ED558CCD
	z = (z ^ (z >> 33)) * 0xC4CEB9FE1A85EC53
	return &Rng{s: z ^ (z >> 33)}
}
func (r *Rng) U64() uint64 {
	r.s += 0x9E3779B97F4A7C15
	z := r.s
	z = (z ^ (z >> 30)) * 0xBF58476D1CE4E5B9
	z = (z ^ (z >> 27)) * 0x94D049BB133111EB
	return z ^ (z >> 31)
}
func (r *Rng) Intn(n int) int {
	if n <= 0 {
		return 0
	}
	return int(r.U64() % uint64(n))
}
func (r *Rng) Bool() bool              { return r.U64()&1 == 1 }
func (r *Rng) Chance(p int) bool       { return r.Intn(100) < p } // p percent
func (r *Rng) Pick(xs []string) string { return xs[r.Intn(len(xs))] }
func (r *Rng) Fork() *Rng              { return NewRng(r.U64()) }

// ---------- hex wire format ----------

func H(s string) string {
	if s == "" {
		return "-"
	}
	return hex.EncodeToString([]byte(s))
}
func UnH(s string) string {
	if s == "-" {
		return ""
	}
	b, _ := hex.DecodeString(s)
	return string(b)
}
func HList(xs []string) string {
	if len(xs) == 0 {
		return "."
	}
	o := make([]string, len(xs))
	for i, x := range xs {
		o[i] = H(x)
	}
	return strings.Join(o, " ")
}

// ---------- Lean model driver (batch) ----------

// RunModel pipes the op lines through the compiled Lean driver and returns one output line per op.
func RunModel(driver string, ops []string) ([]string, error) {
	if len(ops) == 0 {
		return nil, nil
	}
	cmd := exec.Command(driver)
	cmd.Stdin = strings.NewReader(strings.Join(ops, "\n") + "\n")
	var out bytes.Buffer
	cmd.Stdout = &out
	cmd.Stderr = os.Stderr
	if err := cmd.Run(); err != nil {
		return nil, fmt.Errorf("model driver: %v", err)
	}
	lines := strings.Split(strings.TrimRight(out.String(), "\n"), "\n")
	if len(lines) != len(ops) {
		return lines, fmt.Errorf("model driver answered %d lines for %d ops", len(lines), len(ops))
	}
	return lines, nil
}

// Session is an interactive model driver (one line in, one line out) for histories whose next op
// depends on the previous answer.
type Session struct {
	cmd *exec.Cmd
	in  *bufio.Writer
	out *bufio.Reader
}

func StartModel(driver string) (*Session, error) {
	cmd := exec.Command(driver)
	stdin, err := cmd.StdinPipe()
	if err != nil {
		return nil, err
	}
	stdout, err := cmd.StdoutPipe()
	if err != nil {
		return nil, err
	}
	cmd.Stderr = os.Stderr
	if err := cmd.Start(); err != nil {
		return nil, err
	}
	return &Session{cmd: cmd, in: bufio.NewWriter(stdin), out: bufio.NewReaderSize(stdout, 1<<20)}, nil
}
func (s *Session) Ask(op string) (string, error) {
	if _, err := s.in.WriteString(op + "\n"); err != nil {
		return "", err
	}
	if err := s.in.Flush(); err != nil {
		return "", err
	}
	line, err := s.out.ReadString('\n')
	return strings.TrimRight(line, "\n"), err
}
func (s *Session) Close() { s.in.Flush(); s.cmd.Process.Kill(); s.cmd.Wait() }

// ---------- report ----------

type Violation struct {
	Kind   string   `json:"kind"` // impl-violation | broken-correspondence
	Stream string   `json:"stream"`
	What   string   `json:"what"`
	Replay []string `json:"replay"`
}

type Known struct {
	ID   string `json:"id"`
	What string `json:"what"`
}

type Report struct {
	Property        string         `json:"property"`
	Tier            string         `json:"tier"`
	Seed            uint64         `json:"seed"`
	Evaluations     int            `json:"evaluations"`
	Distinct        int            `json:"distinct_nontrivial"`
	Rule            string         `json:"rule"`
	Samples         []string       `json:"samples"`
	Distribution    map[string]int `json:"distribution"`
	Violations      []Violation    `json:"violations"`
	KnownReproduced []Known        `json:"known_findings_reproduced"`
	Notes           []string       `json:"notes"`
	WallS           float64        `json:"wall_s"`

	distinct map[string]bool
	start    time.Time
	known    map[string]string
	out      string
}

type Opts struct {
	Tier, Driver, Out, Known, Corpus, Replay string
	Seed                                     uint64
	Thorough                                 bool
}

// Init parses the common flags and returns options plus an empty report.
func Init(property string) (*Opts, *Report) {
	o := &Opts{}
	flag.StringVar(&o.Tier, "tier", "quick", "quick|thorough")
	flag.Uint64Var(&o.Seed, "seed", 1, "PRNG seed")
	flag.StringVar(&o.Driver, "driver", "/verif/lean/.lake/build/bin/ravenmodel", "Lean model driver")
	flag.StringVar(&o.Out, "out", "", "report file")
	flag.StringVar(&o.Known, "known", "/verif/known_findings.txt", "known findings file")
	flag.StringVar(&o.Corpus, "corpus", "", "corpus dir")
	flag.StringVar(&o.Replay, "replay", "", "replay file")
	flag.Parse()
	o.Thorough = o.Tier == "thorough"
	r := &Report{Property: property, Tier: o.Tier, Seed: o.Seed, Distribution: map[string]int{},
		distinct: map[string]bool{}, start: time.Now(), known: map[string]string{}, out: o.Out}
	if b, err := os.ReadFile(o.Known); err == nil {
		for _, l := range strings.Split(string(b), "\n") {
			l = strings.TrimSpace(l)
			if !strings.HasPrefix(l, "finding:") {
				continue
			}
			f := strings.Fields(l)
			var prop, id string
			for _, w := range f {
				if strings.HasPrefix(w, "property=") {
					prop = w[9:]
				}
				if strings.HasPrefix(w, "id=") {
					id = w[3:]
				}
			}
			if prop == property && id != "" {
				r.known[id] = l
			}
		}
	}
	return o, r
}

// NewSilentReport returns a scratch report sharing the known-findings table of r (used while shrinking).
func NewSilentReport(r *Report) *Report {
	return &Report{Property: r.Property, Distribution: map[string]int{}, distinct: map[string]bool{}, known: r.known, start: time.Now()}
}

// Merge adds the known-finding reproductions and distribution of a scratch report (not its violations).
func (r *Report) Merge(o *Report) {
	for _, k := range o.KnownReproduced {
		found := false
		for _, x := range r.KnownReproduced {
			if x.ID == k.ID {
				found = true
			}
		}
		if !found {
			r.KnownReproduced = append(r.KnownReproduced, k)
		}
	}
	for k, v := range o.Distribution {
		r.Distribution[k] += v
	}
}

// Case records one explored case; key identifies distinctness, nontrivial follows the driver's stated rule.
func (r *Report) Case(key string, nontrivial bool) {
	r.Evaluations++
	if nontrivial && !r.distinct[key] {
		r.distinct[key] = true
		r.Distinct++
	}
}
func (r *Report) Hit(bucket string) { r.Distribution[bucket]++ }
func (r *Report) Sample(s string) {
	if len(r.Samples) < 12 {
		r.Samples = append(r.Samples, s)
	}
}
func (r *Report) Note(f string, a ...any) { r.Notes = append(r.Notes, fmt.Sprintf(f, a...)) }

// Violate records a violation outside every finding class.
func (r *Report) Violate(kind, stream, what string, replay []string) {
	if len(r.Violations) < 20 {
		r.Violations = append(r.Violations, Violation{kind, stream, what, replay})
	}
}

// Finding is called by a probe whose witness failed on the implementation: it is a KNOWN-FINDING when the
// id is listed in known_findings.txt for this property and a violation otherwise.
func (r *Report) Finding(id, what string, replay []string) {
	if _, ok := r.known[id]; ok {
		for _, k := range r.KnownReproduced {
			if k.ID == id {
				return
			}
		}
		r.KnownReproduced = append(r.KnownReproduced, Known{id, what})
		return
	}
	r.Violate("impl-violation", "probe:"+id, what, replay)
}
func (r *Report) IsKnown(id string) bool { _, ok := r.known[id]; return ok }

func (r *Report) Finish() {
	r.WallS = time.Since(r.start).Seconds()
	if r.Samples == nil {
		r.Samples = []string{}
	}
	keys := make([]string, 0, len(r.Distribution))
	for k := range r.Distribution {
		keys = append(keys, k)
	}
	sort.Strings(keys)
	b, err := json.MarshalIndent(r, "", " ")
	if err != nil {
		fmt.Fprintln(os.Stderr, "report: ", err)
	}
	if r.out != "" {
		if err := os.WriteFile(r.out, b, 0644); err != nil {
			fmt.Fprintln(os.Stderr, "report: ", err)
		}
	} else {
		Stdout.Write(b)
	}
	if os.Getenv("VERIF_FDS") != "" {
		ents, _ := os.ReadDir("/proc/self/fd")
		kinds := map[string]int{}
		for _, e := range ents {
			l, _ := os.Readlink("/proc/self/fd/" + e.Name())
			if i := strings.LastIndex(l, "/"); i >= 0 && strings.HasPrefix(l, "/") {
				l = l[i+1:]
			}
			if i := strings.Index(l, ":"); i >= 0 {
				l = l[:i]
			}
			kinds[l]++
		}
		fmt.Fprintln(os.Stderr, "open descriptors:", len(ents), kinds)
	}
	// os.Exit skips deferred calls: remove the scratch directory here
	if workDir != "" {
		os.Chdir("/")
		os.RemoveAll(workDir)
	}
	if len(r.Violations) > 0 {
		os.Exit(1)
	}
	os.Exit(0)
}

// Diff compares implementation and model answers op by op and reports the first disagreements.
func (r *Report) Diff(stream string, ops, impl, model []string) int {
	n := 0
	for i := range ops {
		if i >= len(model) || impl[i] != model[i] {
			n++
			m := "<missing>"
			if i < len(model) {
				m = model[i]
			}
			if n <= 5 {
				r.Violate("broken-correspondence", stream, fmt.Sprintf("op %q: implementation %q, model %q", ops[i], impl[i], m), []string{ops[i]})
			}
		}
	}
	return n
}

// DiffOracle is Diff for streams in which the model's answer is the property's specification itself (a theorem,
// named in `theorem`, proves the executable model equal to the spec): a disagreement is then a concrete input on
// which the implementation violates the property, and is reported as such with the op as replay.
func (r *Report) DiffOracle(stream, theorem string, ops, impl, model []string) int {
	n := 0
	for i := range ops {
		if i >= len(model) || impl[i] != model[i] {
			n++
			m := "<missing>"
			if i < len(model) {
				m = model[i]
			}
			if n <= 5 {
				r.Violate("impl-violation", stream, fmt.Sprintf("op %q: implementation %q, specification (by %s) %q", ops[i], impl[i], theorem, m), []string{ops[i]})
			}
		}
	}
	return n
}

// ReadLines reads a corpus / replay file, skipping header lines that start with '#'.
func ReadLines(path string) []string {
	b, err := os.ReadFile(path)
	if err != nil {
		return nil
	}
	var out []string
	for _, l := range strings.Split(string(b), "\n") {
		l = strings.TrimSpace(l)
		if l == "" || strings.HasPrefix(l, "#") {
			continue
		}
		out = append(out, l)
	}
	return out
}

// Quiet sends the servers' debug chatter (fmt.Printf/log) to /dev/null; the drivers report on stderr / files.
func Quiet() {
	devnull, err := os.OpenFile("/dev/null", os.O_WRONLY, 0)
	if err == nil {
		os.Stdout = devnull
	}
	log.SetOutput(io.Discard)
}

// Stdout is the process's real standard output (os.Stdout is redirected by Quiet).
var Stdout = os.Stdout

var workDir string

// WorkDir creates a private scratch directory on tmpfs (fallback /verif/.work) and chdirs into it.
func WorkDir(id string) (string, func()) {
	base := "/dev/shm"
	if st, err := os.Stat(base); err != nil || !st.IsDir() {
		base = "/verif/.work"
		os.MkdirAll(base, 0755)
	}
	dir, err := os.MkdirTemp(base, "raven-verif-"+id+"-")
	if err != nil {
		panic(err)
	}
	os.Chdir(dir)
	workDir = dir
	return dir, func() { os.Chdir("/"); os.RemoveAll(dir) }
}
