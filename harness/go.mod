module raven/verifh

go 1.25

require (
	github.com/mattn/go-sqlite3 v1.14.32
	raven v0.0.0
)

require (
	github.com/aws/aws-sdk-go-v2 v1.41.0 // indirect
	github.com/aws/aws-sdk-go-v2/aws/protocol/eventstream v1.7.4 // indirect
	github.com/aws/aws-sdk-go-v2/config v1.32.6 // indirect
	github.com/aws/aws-sdk-go-v2/credentials v1.19.6 // indirect
	github.com/aws/aws-sdk-go-v2/feature/ec2/imds v1.18.16 // indirect
	github.com/aws/aws-sdk-go-v2/internal/configsources v1.4.16 // indirect
	github.com/aws/aws-sdk-go-v2/internal/endpoints/v2 v2.7.16 // indirect
	github.com/aws/aws-sdk-go-v2/internal/ini v1.8.4 // indirect
	github.com/aws/aws-sdk-go-v2/internal/v4a v1.4.16 // indirect
	github.com/aws/aws-sdk-go-v2/service/internal/accept-encoding v1.13.4 // indirect
	github.com/aws/aws-sdk-go-v2/service/internal/checksum v1.9.7 // indirect
	github.com/aws/aws-sdk-go-v2/service/internal/presigned-url v1.13.16 // indirect
	github.com/aws/aws-sdk-go-v2/service/internal/s3shared v1.19.16 // indirect
	github.com/aws/aws-sdk-go-v2/service/s3 v1.95.0 // indirect
	github.com/aws/aws-sdk-go-v2/service/signin v1.0.4 // indirect
	github.com/aws/aws-sdk-go-v2/service/sso v1.30.8 // indirect
	github.com/aws/aws-sdk-go-v2/service/ssooidc v1.35.12 // indirect
	github.com/aws/aws-sdk-go-v2/service/sts v1.41.5 // indirect
	github.com/aws/smithy-go v1.24.0 // indirect
	gopkg.in/yaml.v2 v2.4.0 // indirect
)

replace raven => /repo
