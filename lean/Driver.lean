import RavenModel.Base.Bytes
import RavenModel.Model.ListMatch
import RavenModel.Model.SeqSet
import RavenModel.Model.Flags
import RavenModel.Model.Mail
import RavenModel.Model.Lmtp
import RavenModel.Model.Policy
import RavenModel.Model.Auth
import RavenModel.Model.AuthJson
import RavenModel.Model.Resp
import RavenModel.Model.PartTree
import RavenModel.Model.Headers
import RavenModel.Model.Split
import RavenModel.Model.Blob
import RavenModel.Model.SearchImpl
import RavenModel.Model.Slices
import RavenModel.Model.Lifetime
import RavenModel.Model.Deliver
import RavenModel.Model.Mime
import RavenModel.Model.Lsub
/-! Line protocol: one op per line (`op arg …`, byte-string args hex encoded, `-` = empty, `.` = empty list),
one canonical line out. Stateful ops (`m.*`) act on the driver's mailbox-machine state. -/
open Raven

def boolS (b : Bool) : String := if b then "true" else "false"
def hexList (l : List Bytes) : String := if l.isEmpty then "." else " ".intercalate (l.map hexOut)
def natList (l : List Nat) : String := if l.isEmpty then "." else " ".intercalate (l.map toString)
def unhexList (l : List String) : List Bytes := (l.filter (· ≠ ".")).map unhex

def opsC18 : List String → Option String
  | ["wmatch", t, p] => some (boolS (ListMatch.matchWildcard (unhex t) (unhex p)))
  | ["wback", t, p] => some (boolS (Wild.wmatch (ListMatch.normInbox (unhex p)) (ListMatch.normInbox (unhex t))))
  | ["canon", r, p] => some (hexOut (ListMatch.canonical (unhex r) (unhex p)))
  | "filter" :: r :: p :: names => some (hexList (ListMatch.filter (unhexList names) (unhex r) (unhex p)))
  | "lsub" :: r :: p :: subs =>
    let (m, i) := Lsub.shown (unhexList subs) (unhex r) (unhex p)
    some (hexList (m ++ i.filter (fun x => !m.contains x)))
  | ["cells", t, p] => some (toString (Wild.cellsWritten (unhex p) (unhex t)))
  | _ => none

def natArgs (l : List String) : List Nat := (l.filter (· ≠ ".")).filterMap String.toNat?

def opsC09 : List String → Option String
  | ["parseseq", s, n] => some (natList (SeqSet.parseSeq (unhex s) n.toNat!))
  | "parseuid" :: s :: uids => some (natList (SeqSet.parseUid (unhex s) (natArgs uids)))
  | ["fetchsetok", s] => some (boolS (SeqSet.fetchSetOk (unhex s)))
  | "fetchseq" :: s :: uids =>
    -- FETCH <set> (UID): BAD on a syntactically invalid set, else one response per addressed rank, labelled rank:uid
    let us := natArgs uids
    if !SeqSet.fetchSetOk (unhex s) then some "bad"
    else some (" ".intercalate ("ok" :: (SeqSet.parseSeq (unhex s) us.length).filterMap (fun r => (us[r - 1]?).map (fun u => s!"{r}:{u}"))))
  | "uidfetch" :: s :: uids =>
    some (" ".intercalate ("ok" :: (SeqSet.parseUid (unhex s) (natArgs uids)).map toString))
  | ["storeseq", s, n] =>
    let rs := SeqSet.parseSeq (unhex s) n.toNat!
    if rs.isEmpty then some "bad" else some (" ".intercalate ("ok" :: rs.map toString))
  | _ => none

def modeOfS : String → Option Flags.Mode
  | "set" => some .set | "add" => some .add | "del" => some .del | _ => none

def opsC10 : List String → Option String
  | "calc" :: m :: cur :: new =>
    match modeOfS m with
    | some mode => some (hexList (Flags.newFlags (GoStr.fields (unhex cur)) (unhexList new) mode))
    | none => none
  | ["fields", s] => some (hexList (GoStr.fields (unhex s)))
  | _ => none

/-- LMTP: `l.msgs` lists the messages the model assembles from a stream; `l.run` gives the reply codes when the messages
listed as accepted are the parsable ones and a recipient is deliverable iff it has exactly one `@` -/
def countAt (r : Bytes) : Nat := (r.filter (· = 64)).length

def lmtpMsgs (cfg : Lmtp.Cfg) : Lmtp.St → List Bytes → List Bytes
  | _, [] => []
  | st, l :: ls =>
    let env : Lmtp.Env := ⟨fun _ => true, fun _ _ => true⟩
    let st' := (Lmtp.stepLine cfg env st l).1
    match st.mode with
    | .data acc _ false => if Lmtp.isTerm l && !st.quit then acc :: lmtpMsgs cfg st' ls else lmtpMsgs cfg st' ls
    | _ => lmtpMsgs cfg st' ls

def opsC16 : List String → Option String
  | ["l.msgs", mx, mr, stream] =>
    some (hexList (lmtpMsgs ⟨mx.toNat!, mr.toNat!⟩ Lmtp.St.init (Lmtp.lines (unhex stream))))
  | "l.run" :: mx :: mr :: stream :: accepted =>
    let acc := unhexList accepted
    let env : Lmtp.Env := ⟨fun m => acc.contains m, fun _ r => countAt r = 1⟩
    some (natList (Lmtp.run ⟨mx.toNat!, mr.toNat!⟩ env (unhex stream)))
  | ["l.rcpt", a] => some (match Lmtp.parseRcptTo (unhex a) with | some t => "some " ++ hexOut t | none => "none")
  | ["l.mail", a] => some (match Lmtp.parseMailFrom (unhex a) with | some t => "some " ++ hexOut t | none => "none")
  | _ => none

def optB (s : String) : Option Bytes := if s = "~" then none else some (unhex s)

/-- delivery policy: `p.rcpt allowed… | rejectUnknown maxRcpt count addr isRole userIn` -/
def opsC17 : List String → Option String
  | ["p.rcpt", allowed, rej, mr, cnt, addr, isRole, userIn] =>
    let al := if allowed = "." then [] else (allowed.splitOn ",").map unhex
    let cfg : Policy.Cfg := ⟨al, rej = "1", mr.toNat!, 0, false, 0, []⟩
    let dir : Policy.Dir := ⟨fun _ _ => userIn = "1", fun _ _ => false, fun _ => isRole = "1"⟩
    some (toString (Policy.rcptWire cfg dir cnt.toNat! (unhex addr)))
  | ["p.folder", dflt, rs, ss] =>
    some (hexOut (Policy.targetFolder ⟨[], false, 0, 0, false, 0, unhex dflt⟩ (optB rs) (optB ss)))
  | ["p.owner", addr, isRole, disabled] =>
    let dir : Policy.Dir := ⟨fun _ _ => false, fun _ _ => disabled = "1", fun _ => isRole = "1"⟩
    some (match Policy.ownerWire dir (unhex addr) with
      | none => "none"
      | some (.role a) => "role:" ++ hexOut a
      | some (.user l d) => "user:" ++ hexOut l ++ "@" ++ hexOut d)
  | ["p.quota", en, lim, usage, sz] =>
    some (boolS (Policy.quotaImpl ⟨[], false, 0, 0, en = "1", lim.toNat!, []⟩ usage.toNat! sz.toNat!))
  | ["p.size", mx, sz] => some (boolS (Policy.sizeOk ⟨[], false, 0, mx.toNat!, false, 0, []⟩ sz.toNat!))
  | _ => none

def utf8Chars (b : Bytes) : Option (List Char) := (String.fromUTF8? (ByteArray.mk b.toArray)).map String.toList

/-- authentication: `a.body user dom pw` = the request body (hex) or `refuse` for names / passwords that are not admitted -/
def opsC04 : List String → Option String
  | ["a.body", user, dom, pw] =>
    let u := unhex user
    if !Auth.admissible u then some "refuse" else
    match utf8Chars (Auth.emailFor u (unhex dom)), utf8Chars (unhex pw) with
    | some e, some p => some (hexOut (String.ofList (Json.mkBody e p)).toUTF8.toList)
    | _, _ => some "refuse"
  | ["a.sbody", user, dom, pw] =>   -- SASL: no binding, hence no restriction on the number of `@`; control characters refused
    let u := unhex user
    if u.any Auth.isCtl then some "refuse" else
    match utf8Chars (Auth.emailFor u (unhex dom)), utf8Chars (unhex pw) with
    | some e, some p => some (hexOut (String.ofList (Json.mkBody e p)).toUTF8.toList)
    | _, _ => some "refuse"
  | ["a.bind", user, dom] => let (l, d) := Auth.bind (unhex user) (unhex dom); some (hexOut l ++ " " ++ hexOut d)
  | ["a.plain", dec] => some (match Auth.plainSplit (unhex dec) with | some (u, p) => hexOut u ++ " " ++ hexOut p | none => "none")
  | ["a.okline", id, user] => some (hexOut (Auth.okLine (unhex id) (unhex user)))
  | ["a.ctl", user] => some (boolS ((unhex user).any Auth.isCtl))
  | _ => none

/-- response trees in a compact canonical form: N, #n, a<hex>, q<hex>, l<hex>, ( … ) -/
partial def showR : Resp.R → String
  | .nil => "N"
  | .num n => s!"#{n}"
  | .atom a => "a" ++ hexOut a
  | .quoted q => "q" ++ hexOut q
  | .literal l => "l" ++ hexOut l
  | .list xs => "( " ++ " ".intercalate (xs.map showR) ++ " )"

def showLine : Resp.Line → String
  | .cont => "C"
  | .status t w => "S " ++ hexOut t ++ " " ++ hexOut w
  | .data vs => "D " ++ " ".intercalate (vs.map showR)

/-- `r.parse <raw bytes of a response>`: the strict reader of Model/Resp.lean, or the number of well-formed lines before the
first malformed one -/
def opsC13 : List String → Option String
  | ["r.parse", raw] =>
    let b := unhex raw
    let fuel := b.length + 8
    match Resp.readResponse fuel fuel b with
    | some ls => some ("ok " ++ " | ".intercalate (ls.map showLine))
    | none => some s!"fail {Resp.goodLines fuel fuel b}"
  | ["r.nstring", s] => some (hexOut (Resp.render (if (unhex s) = [] then .nil else if (unhex s).all (fun c => c ≠ 13 ∧ c ≠ 10 ∧ c ≠ 0) then .quoted (unhex s) else .literal (unhex s))))
  | _ => none

/-- part trees travel as pre-order tokens `M:<attrs>:<n>` (n children follow) / `L:<attrs>` -/
partial def parseTree : List String → Option (PartTree.Tree × List String)
  | [] => none
  | tok :: rest =>
    match tok.splitOn ":" with
    | ["L", a] => some (.leaf (unhex a), rest)
    | ["M", a, n] =>
      let rec kids (k : Nat) (toks : List String) (acc : List PartTree.Tree) : Option (List PartTree.Tree × List String) :=
        match k with
        | 0 => some (acc.reverse, toks)
        | k+1 => match parseTree toks with
          | some (t, r) => kids k r (t :: acc)
          | none => none
      (kids n.toNat! rest []).map (fun (cs, r) => (PartTree.Tree.multi (unhex a) cs, r))
    | _ => none

def showRow (r : PartTree.Row) : String :=
  (match r.parent with | some p => toString p | none => "-") ++ "|" ++ toString r.num ++ "|" ++ (if r.isMulti then "M" else "L") ++ "|" ++ hexOut r.a

def pathOf (s : String) : List Nat := if s = "." then [] else (s.splitOn ".").filterMap String.toNat?

def opsMime : List String → Option String
  | "t.flatten" :: toks => (parseTree toks).map (fun (t, _) => " ".intercalate ((PartTree.flatten t).map showRow))
  | "t.map" :: path :: toks =>
    (parseTree toks).map (fun (t, _) =>
      match PartTree.mapPath (PartTree.flatten t) (pathOf path), PartTree.subtreeAt t (pathOf path) with
      | some j, some (.leaf a) => s!"row {j} spec L {hexOut a}"
      | some j, some (.multi a _) => s!"row {j} spec M {hexOut a}"
      | none, none => "none"
      | _, _ => "MISMATCH")
  | ["mm.observe", m] => some (Mime.observe (unhex m))
  | ["s.split", m] => some (hexOut (Split.header (unhex m)) ++ " " ++ hexOut (Split.text (unhex m)))
  | ["s.cut", m, o, n] => some (match Split.cut (unhex m) o.toInt! n.toNat! with | some r => hexOut r | none => "refuse")
  | "h.extract" :: lines =>
    some (" ".intercalate ((Hdr.extract none (unhexList lines)).map (fun h => hexOut h.name ++ "=" ++ ",".intercalate (h.lines.map hexOut))))
  | _ => none

/-- blob store: `b.run k:t k:t …` stores the parts in order and prints `key=refs:text` for every key present -/
def opsBlob : List String → Option String
  | "b.run" :: parts =>
    let ps : List Blob.Part := parts.filterMap (fun s => match s.splitOn ":" with
      | [k, t] => some ⟨k.toNat!, t.toNat!⟩
      | _ => none)
    let st := Blob.storeAll ps
    some (" ".intercalate (st.map (fun e => s!"{e.key}={e.refs}:{e.text}")))
  | _ => none

/-! mailbox machine -/
open Mail in
def resS : Res → String | .ok => "ok" | .no => "no" | .bad => "bad"

open Mail in
def noteS : Note → String
  | .fetch r u fl => s!"F:{r}:{u}:{",".intercalate (fl.map hexOut)}"
  | .expunge r => s!"X:{r}"

open Mail in
def dumpBox (b : Mbox) : String :=
  let ls := b.links.map (fun l => s!"{l.uid}:{l.msg}:{",".intercalate (l.flags.map hexOut)}")
  s!"box {hexOut b.name} inc={b.inc} next={b.uidNext} [{";".intercalate ls}]"

open Mail in
def dumpStore (s : Store) : String :=
  " | ".intercalate (s.boxes.map dumpBox) ++ " | subs " ++ hexList s.subs

open Mail in
def seqRanks (s : Store) (box : Bytes) (set : Bytes) : List Nat :=
  match s.find box with
  | none => []
  | some b => SeqSet.parseSeq set b.links.length

open Mail in
def uidList (s : Store) (box : Bytes) (set : Bytes) : List Nat :=
  match s.find box with
  | none => []
  | some b => SeqSet.parseUid set (b.links.map (·.uid))

open Mail in
def opsMail (s : Store) : List String → Option (Store × String)
  | ["m.init", now] => some (Store.init now.toNat!, "ok")
  | "m.add" :: box :: msg :: flags =>
    let (s', r) := s.add (unhex box) msg.toNat! (unhexList flags)
    some (s', match r with | some u => s!"ok {u}" | none => "no")
  | ["m.copy", src, set, dst] =>
    let (s', r) := s.copy (unhex src) (seqRanks s (unhex src) (unhex set)) (unhex dst)
    some (s', resS r)
  | ["m.uidcopy", src, set, dst] =>
    let (s', r) := s.uidCopy (unhex src) (uidList s (unhex src) (unhex set)) (unhex dst)
    some (s', resS r)
  | "m.store" :: box :: set :: m :: flags =>
    match modeOfS m with
    | none => none
    | some mode =>
      let ranks := seqRanks s (unhex box) (unhex set)
      if ranks.isEmpty then some (s, "bad")
      else
        let (s', ns) := s.storeSeq (unhex box) (unhexList flags) mode ranks
        some (s', "ok " ++ " ".intercalate (ns.map noteS))
  | "m.uidstore" :: box :: set :: m :: flags =>
    match modeOfS m with
    | none => none
    | some mode =>
      let (s', ns) := s.storeUid (unhex box) (unhexList flags) mode (uidList s (unhex box) (unhex set))
      some (s', "ok " ++ " ".intercalate (ns.map noteS))
  | ["m.expunge", box] => let (s', ns) := s.expunge (unhex box); some (s', "ok " ++ natList ns)
  | ["m.uidexpunge", box, set] =>
    let (s', ns) := s.uidExpunge (unhex box) (uidList s (unhex box) (unhex set)); some (s', "ok " ++ natList ns)
  | ["m.close", box] => let (s', _) := s.expunge (unhex box); some (s', "ok")
  | ["m.create", a, now] => let (s', r) := s.create (unhex a) now.toNat!; some (s', resS r)
  | ["m.delete", a] => let (s', r) := s.delete (unhex a); some (s', resS r)
  | ["m.rename", a, b, now] => let (s', r) := s.rename (unhex a) (unhex b) now.toNat!; some (s', resS r)
  | ["m.sub", a] => let (s', r) := s.subscribe (unhex a); some (s', resS r)
  | ["m.unsub", a] => let (s', r) := s.unsubscribe (unhex a); some (s', resS r)
  | ["m.readonly", cmd, box] =>
    -- a mailbox opened with EXAMINE: STORE / EXPUNGE and their UID forms are refused, CLOSE removes nothing; no change
    if !s.has (unhex box) then some (s, "no") else some (s, if cmd = "close" then "ok" else "no")
  | ["m.dump"] => some (s, dumpStore s)
  | ["m.lsub"] => some (s, hexList s.shownSubs)
  | ["m.lsubstar"] => some (s, hexList (ListMatch.filter s.shownSubs [] [42]))
  | ["m.liststar"] => some (s, hexList (ListMatch.filter (s.boxes.map (·.name)) [] [42]))
  | ["m.log"] => some (s, " ".intercalate (s.log.reverse.map (fun e => s!"{e.inc}:{hexOut e.name}:{e.uid}:{e.msg}")))
  | _ => none

/-- selected-state commands need an existing mailbox: SELECT fails otherwise and the command is answered NO -/
def needsBox : List String → Option String
  | op :: box :: _ =>
    if op ∈ ["m.copy", "m.uidcopy", "m.store", "m.uidstore", "m.expunge", "m.uidexpunge", "m.close"] then some box else none
  | _ => none

structure DState where
  store : Mail.Store
  box : List Search.Msg

def ymd (s : String) : Option (Nat × Nat × Nat) :=
  match s.splitOn "-" with
  | [y, m, d] => some (y.toNat!, m.toNat!, d.toNat!)
  | _ => none

/-- SEARCH: `q.reset`, `q.msg seq uid flags(csv hex) idate(y-m-d) sdate(y-m-d|~) raw`, `q.search uidmode criteria` -/
def opsSearch (st : DState) : List String → Option (DState × String)
  | ["q.reset"] => some ({ st with box := [] }, "ok")
  | ["q.msg", seq, uid, flags, idate, sdate, raw] =>
    let fl := if flags = "." then [] else (flags.splitOn ",").map unhex
    let m : Search.Msg := { seq := seq.toNat!, uid := uid.toNat!, flags := fl, idate := (ymd idate).getD (0, 0, 0), sdate := ymd sdate,
                            raw := unhex raw, maxSeq := 0, maxUid := 0 }
    some ({ st with box := st.box ++ [m] }, "ok")
  | ["q.search", uidMode, crit] =>
    let mxS := (st.box.map (·.seq)).foldl max 0
    let mxU := (st.box.map (·.uid)).foldl max 0
    let box := st.box.map (fun m => { m with maxSeq := mxS, maxUid := mxU })
    let shw (a : Search.Answer) : String := match a with
      | .bad => "bad"
      | .hits ns => "hits " ++ natList ns
    -- the code's model, then the specification
    some (st, shw (Search.search (uidMode = "1") (unhex crit) box) ++ " | " ++ shw (Search.searchSpec (uidMode = "1") (unhex crit) box))
  | ["q.tokens", crit] => some (st, hexList (Search.tokenise (unhex crit)))
  | _ => none

/-- C12 slicing cores: `x.partial payload start len`, `x.addr value`, `x.cut msg` -/
def opsSlices : List String → Option String
  | ["x.partial", p, s, l] =>
    match s.toInt?, l.toInt? with
    | some si, some li =>
      some (match Slices.partialCut (unhex p) si li with
        | none => "panic"
        | some (o, b) => (match o with | some n => toString n | none => "-") ++ " " ++ hexOut b)
    | _, _ => none
  | ["x.addr", v] =>
    some (match Slices.addressList (unhex v) with
      | none => "panic"
      | some [] => "."
      | some l => ";".intercalate (l.map fun (n, m, h) => hexOut n ++ "|" ++ hexOut m ++ "|" ++ hexOut h))
  | ["x.cut", m] =>
    some (match Slices.headerCut (unhex m), Slices.bodyCut (unhex m) with
      | some h, some b => hexOut h ++ " " ++ hexOut b
      | _, _ => "panic")
  | _ => none

/-- C01: `d.tx valid mimeOK folder owner…` (owner = `none` | `role:<hex>` | `user:<hex>@<hex>`): the replies, then the gain of
every mailbox named by an owner -/
def ownerOf (s : String) : Option Policy.Owner :=
  if s.startsWith "role:" then some (.role (unhex (s.drop 5).toString))
  else if s.startsWith "user:" then
    match (s.drop 5).toString.splitOn "@" with
    | [l, d] => some (.user (unhex l) (unhex d))
    | _ => none
  else none
def ownerName : Policy.Owner → String
  | .role a => "role:" ++ hexOut a
  | .user l d => "user:" ++ hexOut l ++ "@" ++ hexOut d
def opsDeliver : List String → Option String
  | "d.tx" :: valid :: mime :: folder :: owners =>
    let os := owners.map ownerOf
    let tx : Deliver.Tx := { valid := valid = "1", mimeOK := mime = "1", folder := unhex folder, owners := os }
    let (c, rs) := Deliver.deliverAll tx (fun _ => 0)
    let keys := (os.filterMap id).eraseDups
    some (" ".intercalate (rs.map toString) ++ " |" ++ String.join (keys.map fun o => " " ++ ownerName o ++ "=" ++ toString (c (o, tx.folder))))
  | ["d.parts", kind, n] =>
    some (toString (Deliver.partRows (match kind with | "single" => .single | "noboundary" => .multipartNoBoundary | _ => .multipart n.toNat!)))
  | _ => none

/-- C20 lifetime: `t.deadline state lmtpTimeout`, `t.fail state eof|deadline`, `t.bound state lmtpTimeout`, `t.srv events…` -/
def stOf : String → Option Lifetime.St
  | "imapCmd" => some .imapCmd | "imapLiteral" => some .imapLiteral | "imapAuthWait" => some .imapAuthWait
  | "imapIdle" => some .imapIdle | "lmtpCmd" => some .lmtpCmd | "lmtpData" => some .lmtpData | "saslCmd" => some .saslCmd
  | "closed" => some .closed | _ => none
def stName : Lifetime.St → String
  | .imapCmd => "imapCmd" | .imapLiteral => "imapLiteral" | .imapAuthWait => "imapAuthWait" | .imapIdle => "imapIdle"
  | .lmtpCmd => "lmtpCmd" | .lmtpData => "lmtpData" | .saslCmd => "saslCmd" | .closed => "closed"
def optNat : Option Nat → String | some n => toString n | none => "none"
def opsLife : List String → Option String
  | ["t.deadline", s, t] => (stOf s).map fun st => optNat (Lifetime.deadlineMs t.toNat! st)
  | ["t.bound", s, t] => (stOf s).map fun st => optNat (Lifetime.silenceBound t.toNat! st)
  | ["t.fail", s, f] => (stOf s).bind fun st =>
      match f with
      | "eof" => some (stName (Lifetime.fail st .eof))
      | "deadline" => some (stName (Lifetime.fail st .deadline))
      | _ => none
  | "t.srv" :: evs =>
    let es := evs.filterMap fun e => match e with
      | "dial" => some Lifetime.SEv.dial | "connDone" => some .connDone | "shutdown" => some .shutdown | "acceptorExit" => some .acceptorExit | _ => none
    let (s, as) := Lifetime.srun { listening := true, stopping := false, conns := 0, acceptors := 1 } es
    some (" ".intercalate (as.map boolS) ++ " | conns=" ++ toString s.conns ++ " started_returned=" ++ boolS (Lifetime.startReturned s))
  | _ => none

def step (st0 : DState) (line : String) : DState × String :=
  let args := (line.trimAscii.toString.splitOn " ").filter (· ≠ "")
  match opsSearch st0 args with
  | some r => r
  | none =>
  let (s', out) := stepStore st0.store args
  ({ st0 with store := s' }, out)
where
  stepStore (st : Mail.Store) (args : List String) : Mail.Store × String :=
  match needsBox args with
  | some box => if !st.has (unhex box) then (st, "no") else
    match opsMail st args with
    | some r => r
    | none => (st, "bad-op")
  | none =>
  match opsMail st args with
  | some r => r
  | none =>
    match (opsC18 args <|> opsC09 args <|> opsC10 args <|> opsC16 args <|> opsC17 args <|> opsC04 args <|> opsC13 args <|> opsMime args <|> opsBlob args <|> opsSlices args <|> opsLife args <|> opsDeliver args) with
    | some r => (st, r)
    | none => (st, "bad-op")

partial def loop (h : IO.FS.Stream) (out : IO.FS.Stream) (st : DState) : IO Unit := do
  let line ← h.getLine
  if line.isEmpty then return ()
  let (st', r) := step st line
  out.putStrLn r
  out.flush
  loop h out st'

def main : IO Unit := do
  loop (← IO.getStdin) (← IO.getStdout) { store := Mail.Store.init 0, box := [] }
