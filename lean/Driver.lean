import RavenModel.Base.Bytes
import RavenModel.Model.ListMatch
/-! Line protocol: one op per line (`op arg …`, byte-string args hex encoded, `-` = empty), one canonical line out. -/
open Raven

def boolS (b : Bool) : String := if b then "true" else "false"
def hexList (l : List Bytes) : String := if l.isEmpty then "." else " ".intercalate (l.map hexOut)

def opsC18 : List String → Option String
  | ["wmatch", t, p] => some (boolS (ListMatch.matchWildcard (unhex t) (unhex p)))
  | ["wback", t, p] => some (boolS (Wild.wmatch (ListMatch.normInbox (unhex p)) (ListMatch.normInbox (unhex t))))
  | ["canon", r, p] => some (hexOut (ListMatch.canonical (unhex r) (unhex p)))
  | "filter" :: r :: p :: names => some (hexList (ListMatch.filter ((names.filter (· ≠ ".")).map unhex) (unhex r) (unhex p)))
  | ["cells", t, p] => some (toString (Wild.cellsWritten (unhex p) (unhex t)))
  | _ => none

def step (line : String) : String :=
  let args := (line.trimAscii.toString.splitOn " ").filter (· ≠ "")
  match opsC18 args with
  | some r => r
  | none => "bad-op"

partial def loop (h : IO.FS.Stream) (out : IO.FS.Stream) : IO Unit := do
  let line ← h.getLine
  if line.isEmpty then return ()
  out.putStrLn (step line)
  out.flush
  loop h out

def main : IO Unit := do
  loop (← IO.getStdin) (← IO.getStdout)
