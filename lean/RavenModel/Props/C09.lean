import RavenModel.Model.SessionView
import RavenModel.Model.Notify
import RavenModel.Model.Plan
import RavenModel.Model.Expunge
import RavenModel.Model.MailInv
/-! # C09 — sequence numbers, counts and expunge notices describe the same mailbox -/
namespace Raven.Props.C09
open Raven Raven.Mail Raven.SeqSet

/-- C09.1a  `ParseSequenceSetWithDB` (FETCH, STORE, COPY): every well-formed sequence set — `n`, `n:m`, `n:*`, `*`,
comma lists, reversed ranges — addresses exactly the message numbers it denotes, cut to `1..N`. -/
theorem seq_sets_denote (s : List Item) (hne : s ≠ []) (hok : ∀ i ∈ s, i.ok) (N n : Nat) (hN : N < 9223372036854775808) :
    n ∈ parseSeq (printSet s) N ↔ denotes s N n ∧ 1 ≤ n ∧ n ≤ N :=
  parseSeq_denotes s hne hok N n hN

/-- C09.1b  `ParseUIDSequenceSetWithDB` (UID FETCH/STORE/COPY/EXPUNGE): a UID set addresses exactly the existing UIDs
it denotes, `*` standing for the largest UID in use. -/
theorem uid_sets_denote (s : List Item) (hne : s ≠ []) (hok : ∀ i ∈ s, i.ok) (uids : List Nat) (n : Nat) :
    n ∈ parseUid (printSet s) uids ↔ n ∈ uids ∧ denotes s (maxOf uids) n ∧ maxOf uids ≠ 0 :=
  parseUid_denotes s hne hok uids n

/-- C09.2  in every reachable store the three ways the server ranks a message coincide: its index in ascending UID
order (`OFFSET`, `ROW_NUMBER`) and `COUNT(uid <= its uid)`; hence EXISTS, STATUS MESSAGES, FETCH 1:* and UID FETCH 1:*
number one and the same list. -/
theorem ranks_agree (now : Nat) (ops : List Op) :
    ∀ b ∈ (run (Store.init now) ops).boxes, ∀ (i : Nat) (l : Link), b.links[i]? = some l →
      rankOf b.links l.uid = i + 1 := by
  intro b hb i l hl
  have hi := inv_run _ ops (inv_init now)
  have asc := (hi.box b hb).asc
  unfold rankOf
  have h1 : (b.links.filter (fun x => x.uid ≤ l.uid)).length = ((b.links.map (·.uid)).filter (· ≤ l.uid)).length := by
    rw [List.filter_map, List.length_map]; rfl
  rw [h1]
  apply count_le_eq_index _ asc i l.uid
  simp [List.getElem?_map, hl]

/-- C09.3  EXPUNGE / CLOSE / UID EXPUNGE remove exactly the addressed messages whose flag *set* contains `\Deleted`, in the
named mailbox only. -/
theorem expunge_exact (s : Store) (box : Bytes) (b : Mbox) (h : s.find box = some b) :
    (s.expunge box).1 = s.modify box (fun b => { b with links := b.links.filter (fun l => !isDeleted l) }) ∧
    ∀ uids, (s.uidExpunge box uids).1 =
      s.modify box (fun b => { b with links := b.links.filter (fun l => !(isDeleted l && uids.contains l.uid)) }) := by
  simp [Store.expunge, Store.uidExpunge, Store.expungeBy, h]

/-- C09.4  a client that applies the untagged EXPUNGE responses in order to its previous view obtains exactly the
server's new numbering — for every mailbox content and every choice of doomed messages. -/
theorem expunge_replay (doomed : Link → Bool) (links : List Link) :
    replay links (notices doomed 1 0 links) = links.filter (fun l => !doomed l) :=
  Mail.expunge_replay doomed links

/-- C09.4'  the notices an EXPUNGE emits are those of C09.4 for the links it removes. -/
theorem expunge_notices (s : Store) (box : Bytes) (b : Mbox) (h : s.find box = some b) :
    (s.expunge box).2 = notices isDeleted 1 0 b.links := by
  simp [Store.expunge, Store.expungeBy, h]

-- non-vacuity
example : parseSeq (b!"3:2,1,9") 4 = [2, 3, 1] := by decide
example : parseUid (b!"3:*") [1, 3, 7] = [3, 7] := by decide
example : notices (fun l => l.uid % 2 = 0) 1 0 [⟨1, 0, []⟩, ⟨2, 0, []⟩, ⟨4, 0, []⟩, ⟨5, 0, []⟩] = [2, 2] := by decide

/-! ## the counting and expunging statements (plan regenerated from /repo on every run) -/

/-- C09.7  EXISTS / STATUS MESSAGES count link rows (no `DISTINCT`: two copies of one message in a mailbox are two
messages), and EXPUNGE / CLOSE pick their victims by the delimited flag test, never by an open substring of the flag list. -/
theorem plan_counts_rows :
    Plan.free (b!"DISTINCT") (Plan.trace (b!"db.GetMessageCountPerUser")) = true ∧
    Plan.sqlOnly (Plan.trace (b!"db.GetMessageCountPerUser")) = [(b!"sql SELECT message_mailbox")] ∧
    [(b!"message.HandleExpunge"), (b!"selection.HandleClose"), (b!"db.GetUnseenCountPerUser")].all (fun f =>
      (Plan.trace f).all (fun e => !GoStr.containsSub e (b!"LIKE(") || GoStr.containsSub e (b!"LIKE(delimited)"))) = true := by
  decide

/-! ## the view of a session that keeps the mailbox selected while messages arrive (`Model/SessionView`) -/

/-- C09.8  the notices of the session's own EXPUNGE / UID EXPUNGE can be applied by the client — every number lies within
what it has been told of by then — and applying them leaves it with exactly the mailbox as it is: for every mailbox, every
set of arrivals the session had not asked about yet, every choice of doomed messages (since repair 525a68f the pending
`* n EXISTS` goes out first). -/
theorem expunge_notices_applicable (s : SessionView.St) (d : Mail.Link → Bool) :
    SessionView.applicable s.srv.length (SessionView.expungeNotices s d) = true ∧
    (SessionView.step s (.expunge d)).view = (SessionView.step s (.expunge d)).srv :=
  SessionView.expunge_view s d

/-- C09.8'  for every interleaving of arrivals, own expunges and polls, what the session has been told of is the front of the
mailbox (what arrived since is behind it, nothing is missing or out of place in front). -/
theorem session_view_is_front (xs : List Mail.Link) (evs : List SessionView.Ev) :
    SessionView.Inv (SessionView.run ⟨xs, xs⟩ evs) :=
  SessionView.inv_run _ evs (SessionView.inv_select xs)

/-- C09.8''  before the repair the notices were numbered in a mailbox the client had not been told of: refuted by one known
message, one arrival flagged \Deleted by another session, and an EXPUNGE (`* 2 EXPUNGE` for a client that knows of one). -/
theorem old_expunge_notices_refuted : ¬ SessionView.notices_applicable_old := SessionView.notices_applicable_old_refuted

/-- …and held only when nothing that had arrived unannounced was among the doomed -/
theorem old_expunge_notices_partial (s : SessionView.St) (d : Mail.Link → Bool) (extra : List Mail.Link)
    (hs : s.srv = s.view ++ extra) (hx : ∀ l ∈ extra, d l = false) :
    SessionView.applicable s.view.length (SessionView.expungeNotices s d) = true :=
  (SessionView.expunge_known_partial s d extra hs hx).1

/-! ## arrivals, NOOP and IDLE (`Model/Notify`) -/

/-- C09.9  whatever arrived and whenever — before the session idled, while it idled, after DONE — and however often it
idled, polled or was polled in between: after a NOOP the session has been told of exactly the messages there are. -/
theorem noop_after_anything_tells_all (n : Nat) (es : List Notify.Ev) (h : ∀ e ∈ es, Notify.current e = true) :
    (Notify.run (Notify.select n) (es ++ [.noop])).told = (Notify.run (Notify.select n) (es ++ [.noop])).srv := by
  simp only [Notify.run, List.foldl_append, List.foldl_cons, List.foldl_nil]
  exact Notify.noop_tells_all _ (Notify.inv_run es _ (Notify.inv_select n) h)

/-- …which is false of a server whose IDLE stores its own counter in the session when it ends: a message that arrived
between the last update and the IDLE is never announced (select 0; arrive; IDLE; DONE; NOOP: told 0 of 1). -/
theorem idle_writeback_refuted :
    (Notify.run (Notify.select 0) [.arrive, .idleBegin, .idleEndWriteBack, .noop]).told ≠
    (Notify.run (Notify.select 0) [.arrive, .idleBegin, .idleEndWriteBack, .noop]).srv := by decide

/-- non-vacuity: a history with arrivals on both sides of an IDLE -/
example : (Notify.run (Notify.select 2) [.arrive, .idleBegin, .arrive, .idlePoll, .idleEnd, .arrive, .noop]).told = 5 := by decide

/-- C09.9'  the code is the current machine, not the refuted one (plan regenerated from /repo on every run): `HandleIdle`
assigns nothing in the session; `HandleNoop` and the command loop's `announceNewMessages` store the count they have just
announced, after announcing it. -/
theorem plan_idle_keeps_session_counters :
    Plan.free (b!"set state.") (Plan.trace (b!"extension.HandleIdle")) = true ∧
    (Plan.trace (b!"extension.HandleIdle")).contains (b!"reply untagged") = true ∧
    Plan.before (Plan.lastIdx (· = (b!"reply untagged")) (Plan.trace (b!"extension.HandleNoop")))
      (Plan.idx (b!"set state.LastMessageCount = currentCount") (Plan.trace (b!"extension.HandleNoop"))) = true ∧
    Plan.before (Plan.idx (b!"reply untagged") (Plan.trace (b!"server.announceNewMessages")))
      (Plan.idx (b!"set state.LastMessageCount = count") (Plan.trace (b!"server.announceNewMessages"))) = true := by
  decide

end Raven.Props.C09
