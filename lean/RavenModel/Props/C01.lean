import RavenModel.Model.Plan
import RavenModel.Model.Deliver
/-! # C01 — an LMTP acceptance is a durable, per-recipient promise -/
namespace Raven.Props.C01
open Raven Raven.Policy Raven.Deliver

/-- C01.1  one reply per accepted recipient, in RCPT order -/
theorem reply_count (tx : Tx) (c : Counts) : (deliverAll tx c).2.length = tx.owners.length :=
  deliverFrom_length tx tx.owners c

/-- C01.2  for every mailbox of every store: what it holds after the end of data is what it held before plus the number of
2xx replies given for it — for any recipient list (duplicates and addresses resolving to one store included), any verdict of
the parsers. Both halves of the promise are corollaries. -/
theorem count_is_accepted (tx : Tx) (c : Counts) (k : Key) :
    (deliverAll tx c).1 k = c k + acceptedFor tx k tx.owners (deliverAll tx c).2 :=
  deliverFrom_count tx k tx.owners c

/-- no 2xx reply for a mailbox ⇒ that mailbox is unchanged (a recipient answered 4xx/5xx has no new message) -/
theorem refused_no_message (tx : Tx) (c : Counts) (k : Key) (h : acceptedFor tx k tx.owners (deliverAll tx c).2 = 0) :
    (deliverAll tx c).1 k = c k := by
  rw [count_is_accepted, h]; rfl

/-- a refused transaction (unparsable message, no From, no recipient header, too large) changes no mailbox at all and answers
554 for every recipient -/
theorem invalid_changes_nothing (tx : Tx) (c : Counts) (h : tx.valid = false) :
    (deliverAll tx c).1 = c ∧ ∀ r ∈ (deliverAll tx c).2, r = 554 := by
  have key : ∀ (os : List (Option Owner)) (c : Counts), (deliverFrom tx c os).1 = c ∧ ∀ r ∈ (deliverFrom tx c os).2, r = 554 := by
    intro os
    induction os with
    | nil => intro c; simp [deliverFrom]
    | cons o os ih =>
      intro c
      have ha : attempt tx c o = (c, 554) := by simp [attempt, h]
      simp only [deliverFrom, ha]
      refine ⟨(ih c).1, ?_⟩
      intro r hr
      simp only [List.mem_cons] at hr
      rcases hr with rfl | hr
      · rfl
      · exact (ih c).2 r hr
  exact key tx.owners c

/-- replies are 250, 550 or 554 -/
theorem reply_codes (tx : Tx) (c : Counts) : ∀ r ∈ (deliverAll tx c).2, r = 250 ∨ r = 550 ∨ r = 554 :=
  deliverFrom_codes tx tx.owners c

/-- C01.3  an accepted message has at least one part row, whatever the shape of its Content-Type: there is content to fetch -/
theorem accepted_has_parts (ct : Ct) : 1 ≤ partRows ct := by cases ct <;> simp [partRows]

/-- non-vacuity: two recipients resolving to one mailbox, one unresolvable, one other -/
example :
    let a : Owner := .user (b!"a") (b!"x")
    let r : Owner := .role (b!"team@x")
    let tx : Tx := { valid := true, mimeOK := true, folder := (b!"INBOX"), owners := [some a, none, some a, some r] }
    (deliverAll tx (fun _ => 0)).2 = [250, 550, 250, 250] ∧ (deliverAll tx (fun _ => 0)).1 (a, (b!"INBOX")) = 2 ∧
    (deliverAll tx (fun _ => 0)).1 (r, (b!"INBOX")) = 1 ∧ (deliverAll tx (fun _ => 0)).1 (a, (b!"Spam")) = 0 := by decide

/-! ## the order of the code's statements (plan regenerated from /repo on every run) -/

/-- C01.6  link last, reply after the link: in the plan of `Session.handleDATA` (with `DeliverMessage`, the MIME store and
`AddMessageToMailboxPerUser` inlined) the message row, the header / address / blob / part rows, the UID allocation, the
`message_mailbox` row and the `250` occur in exactly this order, the link and the allocation once each — the step order of
the delivery machine (`Durable`, C07/C08) and of `Deliver.deliverAll` is the code's. -/
theorem plan_link_last : Plan.deliveryOrder (Plan.trace (b!"lmtp.handleDATA")) = true := by decide

/-- C01.6'  the acknowledgement comes after the last write, nothing is written in a deferred call or a goroutine. -/
theorem plan_ack_after_writes : Plan.ackAfterCommit (Plan.trace (b!"lmtp.handleDATA")) = true := by decide

/-- C01.6''  the steps of the plan, as numbers, are non-decreasing (the list form of `plan_link_last`) -/
theorem plan_phases_sorted :
    ((Plan.trace (b!"lmtp.handleDATA")).filterMap Plan.deliveryPhase).Pairwise (· ≤ ·) :=
  Plan.nondecreasing_pairwise _ (by decide)

end Raven.Props.C01
