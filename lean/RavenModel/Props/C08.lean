import RavenModel.Model.Plan
import RavenModel.Gen.Facts
import RavenModel.Model.Interleave
/-! # C08 — concurrent sessions never lose, duplicate or mix up messages -/
namespace Raven.Props.C08
open Raven.Durable Raven.Interleave

/-- C08.1–3  for every number of sessions and **every schedule** of their statements (and crashes): UIDs — linked or allocated —
are pairwise distinct and below UIDNEXT, every acknowledged addition is listed exactly once with its own complete message, and
no session is refused because of another. This is `Durable.inv_run`, read for schedules. It rests on the UID being allocated
by one atomic statement. -/
theorem any_schedule (sched : List Ev) : Inv (sched.foldl step init) := inv_run sched

theorem uids_distinct (sched : List Ev) : ((sched.foldl step init).links.map (·.1)).Nodup :=
  (List.nodup_append.mp (inv_run sched).uidsNodup).2.1

theorem ack_exactly_once (sched : List Ev) :
    (∀ c ∈ (sched.foldl step init).acked, ∃ u, (u, c) ∈ (sched.foldl step init).links) ∧
    ((sched.foldl step init).links.map (·.2)).Nodup :=
  ⟨(inv_run sched).ackedLinked, (inv_run sched).msgOnce⟩

theorem own_content (sched : List Ev) : ∀ l ∈ (sched.foldl step init).links, complete (sched.foldl step init) l.2 :=
  (inv_run sched).visibleComplete

/-- an addition that succeeds on its own succeeds in every schedule -/
theorem no_spurious_failure (sched : List Ev) : (sched.foldl step init).failed = [] := (inv_run sched).noFailure

/-- why the allocation must be one statement: with `SELECT uid_next` and `UPDATE … uid_next + 1` as two statements, the
schedule read₁ read₂ bump₁ bump₂ insert₁ insert₂ makes the second writer's INSERT hit UNIQUE(mailbox_id, uid) — a permanent
failure for a delivery that would succeed on its own -/
theorem two_statement_allocation_refuted :
    ([Ev2.read 1, .read 2, .bump 1, .bump 2, .insert 1, .insert 2].foldl step2 ⟨1, [], [], []⟩).failed = [2] := by decide

/-- C08.4 partial  a flag addition that is one atomic statement is in effect when it is acknowledged, whatever ran before… -/
theorem atomic_store_keeps_flags (s : StF) (w f : Nat) : f ∈ (stepFAtomic s w f).flags ∧ ∀ g ∈ s.flags, g ∈ (stepFAtomic s w f).flags := by
  simp [stepFAtomic, List.mem_eraseDups]
  intro g hg; exact Or.inr hg

/-- …whereas an unconditional read – compute – write back loses an acknowledged update: both sessions are told OK, one
keyword is gone (what STORE did before its repair) -/
theorem read_modify_write_loses_update :
    let s := [EvF.read 1, .read 2, .write 1 10, .write 2 20].foldl stepF ⟨[], [], []⟩
    s.acked = [(2, 20), (1, 10)] ∧ s.flags = [20] := by decide

/-- C08.4  the flag update as coded (conditional write, recomputed when another session got in between): for every number of
sessions and every schedule of their reads and conditional writes, every flag addition that was answered OK is on the message -/
theorem conditional_store_keeps_acked (sched : List EvC) :
    ∀ a ∈ (sched.foldl stepC ⟨[], [], []⟩).acked, a.2 ∈ (sched.foldl stepC ⟨[], [], []⟩).flags :=
  runC_acked sched ⟨[], [], []⟩ (by intro a ha; simp at ha)

/-- the schedule that lost an update before: the second writer is not answered OK until it has re-read -/
example : ([EvC.read 1, .read 2, .cas 1 10, .cas 2 20, .cas 2 20].foldl stepC ⟨[], [], []⟩).flags = [20, 10] ∧
    ([EvC.read 1, .read 2, .cas 1 10, .cas 2 20].foldl stepC ⟨[], [], []⟩).acked = [(1, 10)] := by decide

/-- C08.5  the double-checked handle cache never installs two handles for one store, for any sequence of requests -/
theorem cache_single_handle (ids : List Nat) : ((getAll ⟨[], 0⟩ ids).handles.map (·.1)).Nodup :=
  getAll_nodup ids ⟨[], 0⟩ (by simp)

/-- non-vacuity: three sessions interleaved -/
example : (([Ev.start 1, .start 2, .adv 1, .adv 2, .start 3, .adv 2, .adv 1, .adv 3, .adv 3, .adv 2, .adv 1, .adv 3] : List Ev).foldl step init).links.length = 3 := by decide

/-! ## the statements behind the conditional flag write and COPY (plan regenerated from /repo on every run) -/

/-- C08.11  `ApplyFlagChange` is the compare-and-swap loop the model's `casStore` step describes: **inside** the retry loop the new
flag list is computed from the flags last read, written under the condition that they are still the stored ones, and re-read
when they are not — a value computed once outside the loop would write a stale list over another session's change. -/
theorem plan_flag_change_recomputes :
    Raven.Plan.trace (b!"message.ApplyFlagChange") =
      [(b!"loop {"), (b!"call message.CalculateNewFlags"), (b!"sql UPDATE message_mailbox"), (b!"sql SELECT message_mailbox"), (b!"}")] := by
  decide

/-- C08.12  COPY and UID COPY read the destination's UID counter, insert the links and write the counter back inside one
transaction (a counter read before `BEGIN` can be stale by the time the links are written). -/
theorem plan_copy_in_one_transaction :
    [(b!"message.HandleCopy"), (b!"uid.handleUIDCopy")].all (fun op =>
      let tx := Raven.Plan.inTx (Raven.Plan.trace op)
      Raven.Plan.before (Raven.Plan.idx (b!"sql SELECT mailboxes") tx) (Raven.Plan.idx (b!"sql INSERT message_mailbox") tx) &&
      Raven.Plan.before (Raven.Plan.idx (b!"sql INSERT message_mailbox") tx) (Raven.Plan.idx (b!"sql UPDATE mailboxes") tx)) = true := by
  decide

/-- C08.13  opening a store — a process's first contact with it: after a crash, after a restart, or while another process is
in the middle of an operation on it — creates what is missing and **deletes and rewrites nothing**; whether the store is
complete is decided by the marker (`userDBInitialized`) before anything is created. -/
theorem plan_open_deletes_nothing :
    [(b!"db.DBManager.GetUserDB"), (b!"db.DBManager.GetRoleMailboxDB"), (b!"db.DBManager.initUserDB")].all (fun f =>
      let t := Raven.Plan.trace f
      !t.isEmpty && Raven.Plan.free (b!"sql DELETE") t && Raven.Plan.free (b!"sql UPDATE") t && Raven.Plan.free (b!"sql DROP") t) = true ∧
    [(b!"db.DBManager.GetUserDB"), (b!"db.DBManager.GetRoleMailboxDB")].all (fun f =>
      Raven.Plan.before (Raven.Plan.idx (b!"call db.userDBInitialized") (Raven.Plan.trace f))
        (Raven.Plan.idx (b!"call db.DBManager.initUserDB") (Raven.Plan.trace f))) = true := by
  decide

/-! ## moving a message between mailboxes (the Junk / NonJunk keywords) from several sessions at once -/

/-- one link in the source mailbox, `dst` links in the destination -/
structure MoveSt where
  src : Bool
  dst : Nat
deriving DecidableEq, Repr

/-- a session that found the message in the source mailbox and now runs its move transaction (the transactions of one store
are serialised): the repaired one files the message only if it has just removed it from the source, the old one filed it
whatever its DELETE removed -/
inductive MoveEv where | checked | unchecked
deriving DecidableEq, Repr

def moveStep (s : MoveSt) : MoveEv → MoveSt
  | .checked => if s.src then { src := false, dst := s.dst + 1 } else s
  | .unchecked => { src := false, dst := s.dst + 1 }

def moveCopies (s : MoveSt) : Nat := (if s.src then 1 else 0) + s.dst

/-- C08.x  however many sessions move one message at once and in whatever order their transactions run, it is there exactly
once — in the source or in the destination — when each move checks that it removed what it files. -/
theorem concurrent_moves_keep_one_copy (es : List MoveEv) (h : ∀ e ∈ es, e = .checked) :
    moveCopies (es.foldl moveStep { src := true, dst := 0 }) = 1 := by
  suffices ∀ (s : MoveSt), moveCopies s = 1 → moveCopies (es.foldl moveStep s) = 1 from this _ rfl
  induction es with
  | nil => intro s hs; exact hs
  | cons e es ih =>
    intro s hs
    have he : e = .checked := h e (List.mem_cons_self ..)
    subst he
    apply ih (fun x hx => h x (List.mem_cons_of_mem _ hx))
    cases hsrc : s.src
    · simpa [moveStep, hsrc] using hs
    · simp only [moveCopies, hsrc, if_true] at hs
      have hd : s.dst = 0 := by omega
      simp [moveStep, hsrc, moveCopies, hd]

/-- …and twice after two moves that do not check (the defect repaired in aa5a0f9: two sessions adding Junk to one message) -/
theorem unchecked_moves_duplicate :
    moveCopies ([MoveEv.unchecked, MoveEv.unchecked].foldl moveStep { src := true, dst := 0 }) = 2 := by decide

/-- the code is the checked machine (regenerated from /repo on every run): the move consults `RowsAffected` of its DELETE -/
theorem move_checks_what_it_removed : Raven.Gen.moveChecks = [((b!"message.MoveMessageToMailbox"), true)] := by decide

end Raven.Props.C08
