import RavenModel.Model.PartTree
import RavenModel.Model.Split
/-! # C14 — the attributes of a message agree with each other -/
namespace Raven.Props.C14
open Raven

/-- C14.1  `BODY[HEADER]` followed by `BODY[TEXT]` is `BODY[]`, for every message text (with or without a blank line). -/
theorem header_plus_text (msg : Bytes) : Split.header msg ++ Split.text msg = msg := Split.header_append_text msg

/-- C14.1'  hence the sizes add up: RFC822.SIZE (the length of BODY[]) = |HEADER| + |TEXT|. -/
theorem size_is_sum (msg : Bytes) : msg.length = (Split.header msg).length + (Split.text msg).length := by
  have h := congrArg List.length (Split.header_append_text msg)
  simp only [List.length_append] at h
  exact h.symm

/-- C14.2  section paths: following a path through the stored rows (root container invisible, children by relative number)
reaches exactly the part the path denotes in the submitted tree, and an absent path yields nothing on both sides — for every
tree and every path. -/
theorem mapPath_correct (t : PartTree.Tree) (path : List Nat) :
    match PartTree.mapPath (PartTree.flatten t) path, PartTree.subtreeAt t path with
    | some j, some s => PartTree.Rep (PartTree.flatten t) j s
    | none, none => True
    | _, _ => False :=
  PartTree.mapPath_flatten t path

/-- C14.3  a partial fetch `<o.n>` returns exactly that slice (and a negative origin is refused, not sliced). -/
theorem partial_is_slice (payload : Bytes) (o n : Nat) :
    Split.cut payload (o : Int) n = some ((payload.drop o).take n) ∧ Split.cut payload (-(o : Int) - 1) n = none := by
  refine ⟨Split.cut_is_slice payload o n, ?_⟩
  simp [Split.cut]; omega

-- non-vacuity
example : Split.header (b!"A: b\r\n\r\nbody") = b!"A: b\r\n\r\n" ∧ Split.text (b!"A: b\r\n\r\nbody") = b!"body" := by decide
example : PartTree.mapPath (PartTree.flatten (.multi [1] [.leaf [2], .multi [3] [.leaf [4], .leaf [5]]])) [2, 2] = some 4 := by decide
example : PartTree.mapPath (PartTree.flatten (.multi [1] [.leaf [2], .multi [3] [.leaf [4], .leaf [5]]])) [3] = none := by decide

end Raven.Props.C14
