import RavenModel.Model.PartTree
import RavenModel.Model.Split
import RavenModel.Model.Slices
/-! # C14 — the attributes of a message agree with each other -/
namespace Raven.Props.C14
open Raven

/-- C14.1  `BODY[HEADER]` followed by `BODY[TEXT]` is `BODY[]`, for every message text (with or without a blank line). -/
theorem header_plus_text (msg : Bytes) : Split.header msg ++ Split.text msg = msg := Split.header_append_text msg

/-- C14.1'  hence the sizes add up: RFC822.SIZE (the length of BODY[]) = |HEADER| + |TEXT|. -/
theorem size_is_sum (msg : Bytes) : msg.length = (Split.header msg).length + (Split.text msg).length := by
  have h := congrArg List.length (Split.header_append_text msg)
  simp only [List.length_append] at h
  exact h.symm

/-- C14.2  section paths: following a path through the stored rows (root container invisible, children by relative number)
reaches exactly the part the path denotes in the submitted tree, and an absent path yields nothing on both sides — for every
tree and every path. -/
theorem mapPath_correct (t : PartTree.Tree) (path : List Nat) :
    match PartTree.mapPath (PartTree.flatten t) path, PartTree.subtreeAt t path with
    | some j, some s => PartTree.Rep (PartTree.flatten t) j s
    | none, none => True
    | _, _ => False :=
  PartTree.mapPath_flatten t path

/-- C14.3  a partial fetch `<o.n>` returns exactly that slice (and a negative origin is refused, not sliced). -/
theorem partial_is_slice (payload : Bytes) (o n : Nat) :
    Split.cut payload (o : Int) n = some ((payload.drop o).take n) ∧ Split.cut payload (-(o : Int) - 1) n = none := by
  refine ⟨Split.cut_is_slice payload o n, ?_⟩
  simp [Split.cut]; omega

/-- C14.4  ENVELOPE address lists: the split of an address header loses nothing — the pieces, joined again with the commas
that separated them, are the header value, for every header value. -/
theorem envelope_split_lossless (v : Bytes) : GoStr.joinWith b_comma (Slices.splitAddresses v) = v :=
  Slices.splitAddresses_join v

/-- C14.4'  each address structure is the header text taken apart, nothing lost and nothing invented: the piece is either
all address, or `name <address> rest` cut at the first `<` and `>` outside quoted strings; the display name is what precedes
`<` without surrounding blanks and quotes; mailbox and host are the address cut at its first `@` (no `@`: all mailbox). -/
theorem envelope_address_faithful (piece name mb host : Bytes) (h : Slices.parseOne piece = some (name, mb, host)) :
    ∃ n e, ((n = [] ∧ e = piece) ∨ ∃ rest, piece = n ++ 60 :: (e ++ 62 :: rest)) ∧
      name = Slices.trimQuotes (GoStr.trimSpace n) ∧
      ((e = mb ++ 64 :: host ∧ 64 ∉ mb) ∨ (64 ∉ e ∧ mb = e ∧ host = [])) := by
  obtain ⟨n, e, hc, hn, hm⟩ := Slices.parseOne_faithful piece name mb host h
  exact ⟨n, e, Slices.addrCut_faithful piece n e hc, hn, hm⟩

/-- C14.4''  quoted display names may contain commas, angle brackets and escaped quotes without disturbing the address. -/
theorem envelope_quoted_names :
    Slices.addressList (b!"\"Doe, John\" <jd@x>, o@y") = some [((b!"Doe, John"), (b!"jd"), (b!"x")), ([], (b!"o"), (b!"y"))] ∧
    Slices.addressList (b!"\"a <b>\" <m@h>") = some [((b!"a <b>"), (b!"m"), (b!"h"))] ∧
    Slices.addressList (b!"\"x \\\" y, z\" <m@h>") = some [((b!"x \\\" y, z"), (b!"m"), (b!"h"))] :=
  ⟨by decide, by decide, by decide⟩

-- non-vacuity
example : Split.header (b!"A: b\r\n\r\nbody") = b!"A: b\r\n\r\n" ∧ Split.text (b!"A: b\r\n\r\nbody") = b!"body" := by decide
example : PartTree.mapPath (PartTree.flatten (.multi [1] [.leaf [2], .multi [3] [.leaf [4], .leaf [5]]])) [2, 2] = some 4 := by decide
example : PartTree.mapPath (PartTree.flatten (.multi [1] [.leaf [2], .multi [3] [.leaf [4], .leaf [5]]])) [3] = none := by decide

end Raven.Props.C14
