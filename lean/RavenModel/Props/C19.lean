import RavenModel.Model.SearchImpl
import RavenModel.Base.GoStrSub
/-! # C19 — SEARCH returns exactly the messages that satisfy the criteria -/
namespace Raven.Props.C19
open Raven Raven.Search

/-- C19.1  for every message and **every program of the search-key language** — simple keys (flag keys, KEYWORD/UNKEYWORD,
sequence and UID sets, sizes, header / body / text substrings, internal and sent dates), HEADER, NOT over any key, OR over any two
keys, parenthesised groups, nested to any depth, and their implicit AND — the evaluator reads the printed program back as the
same keys and computes exactly what the reference evaluator computes on the key tree; in the specification's mode, in
SEARCH's and in UID SEARCH's. -/
theorem eval_correct (P : Prim) (m : Mode) (ks : Keys) (fuel : Nat) (h : ks.cost ≤ fuel) :
    evalKeys P m fuel ks.print = some (ks.eval P) :=
  evalKeys_print P m ks fuel h

/-- …in particular such a program is never refused -/
theorem language_is_wellformed (P : Prim) (m : Mode) (ks : Keys) : (evalKeys P m ks.cost ks.print).isSome = true := by
  rw [eval_correct P m ks ks.cost (Nat.le_refl _)]; rfl

/-- C19.2  an incomplete key (an argument or a sub-key missing after NOT, OR, HEADER, FROM …, at the end of the program or
of a group) has no value: it is an error, not an index beyond the end of the token list (the OR panic cannot return) and not
some other program's result -/
theorem or_one_key_none (P : Prim) (m : Mode) (a : Bytes) : ∀ fuel, evalKey P m fuel [.orT, .kw0 a] = none := by
  intro fuel
  cases fuel with
  | zero => rfl
  | succ f =>
    cases f with
    | zero => simp [evalKey]
    | succ g => cases g <;> simp [evalKey]

theorem keys_none_of_key_none (P : Prim) (m : Mode) (t : Tok) (r : List Tok) (h : ∀ fuel, evalKey P m fuel (t :: r) = none) :
    ∀ fuel, evalKeys P m fuel (t :: r) = none := by
  intro fuel
  cases fuel with
  | zero => rfl
  | succ f => simp [evalKeys, h f]

theorem incomplete_is_error (P : Prim) (m : Mode) (fuel : Nat) :
    evalKeys P m fuel [.orT, .kw0 (b!"SEEN")] = none ∧ evalKeys P m fuel [.notT] = none ∧
    evalKeys P m fuel [.kw1 (b!"FROM")] = none ∧ evalKeys P m fuel [.hdr, .other (b!"Subject")] = none ∧
    evalKeys P m fuel [.kw0 (b!"SEEN"), .group (b!"(OR SEEN)") [.orT, .kw0 (b!"SEEN")]] = none := by
  have hor := keys_none_of_key_none P m _ _ (or_one_key_none P m (b!"SEEN"))
  refine ⟨hor fuel, ?_, ?_, ?_, ?_⟩
  · apply keys_none_of_key_none
    intro f; cases f with
    | zero => rfl
    | succ g => cases g <;> simp [evalKey]
  · apply keys_none_of_key_none
    intro f; cases f <;> simp [evalKey]
  · apply keys_none_of_key_none
    intro f; cases f <;> simp [evalKey]
  · cases fuel with
    | zero => rfl
    | succ f =>
      cases f with
      | zero => simp [evalKeys, evalKey]
      | succ g =>
        have hgk : ∀ f, evalKey P m f [Tok.group (b!"(OR SEEN)") [.orT, .kw0 (b!"SEEN")]] = none := by
          intro f; cases f with
          | zero => rfl
          | succ k => simp [evalKey, hor k]
        have hg := keys_none_of_key_none P m _ _ hgk (g + 1)
        rw [evalKeys]
        simp only [evalKey, hg]

/-- C19.3  whether a program is refused does not depend on the mailbox content -/
theorem refusal_is_about_the_program (P Q : Prim) (m : Mode) (fuel : Nat) (ts : List Tok) :
    (evalKeys P m fuel ts).isSome = (evalKeys Q m fuel ts).isSome :=
  (wellformed_indep P m Q fuel).2 ts

/-- C19.4  ascending order without duplicates: the answer is the selected mailbox's numbering filtered, so it inherits
strict ascent from the mailbox (sequence numbers 1..N, UIDs ascending: C03/C09). -/
theorem ascending_nodup (uidMode : Bool) (crit : Bytes) (box : List Msg) (ns : List Nat)
    (hs : (box.map (fun m => if uidMode then m.uid else m.seq)).Pairwise (· < ·))
    (h : search uidMode crit box = .hits ns) : ns.Pairwise (· < ·) := by
  have key : ∀ (md : Mode) (fuel : Nat) (toks : List Tok), (hitsOf uidMode md fuel toks box).Pairwise (· < ·) := by
    intro md fuel toks
    unfold hitsOf
    rw [List.pairwise_map] at hs ⊢
    exact List.Pairwise.sublist List.filter_sublist hs
  unfold search at h
  simp only [] at h
  split at h
  · cases h
  · split at h
    · rename_i hu
      simp only [Answer.hits.injEq] at h
      subst h
      have := key .uid (fuelFor crit) (tokens crit)
      simpa [hu] using this
    · rename_i hu
      split at h
      · simp only [Answer.hits.injEq] at h
        subst h
        have := key .search (fuelFor crit) (tokens crit)
        simpa [hu] using this
      · cases h

/-- C19.5  on every program the specification evaluates, SEARCH and UID SEARCH as coded answer what the specification answers -/
theorem impl_meets_spec_on_supported (uidMode : Bool) (crit : Bytes) (box : List Msg)
    (h : wellFormed .spec (fuelFor crit) (tokens crit) = true) (hne : (tokens crit).isEmpty = false) :
    search uidMode crit box = searchSpec uidMode crit box := by
  have same : ∀ (md : Mode), Mode.le .spec md = true → ∀ m : Msg,
      (evalKeys (primOf m) md (fuelFor crit) (tokens crit)).getD false =
      (evalKeys (primOf m) .spec (fuelFor crit) (tokens crit)).getD false := by
    intro md hle m
    have hs : (evalKeys (primOf m) .spec (fuelFor crit) (tokens crit)).isSome = true := by
      rw [refusal_is_about_the_program (primOf m) (primOf noMsg)]; exact h
    cases hv : evalKeys (primOf m) .spec (fuelFor crit) (tokens crit) with
    | none => simp [hv] at hs
    | some v => rw [(eval_mode_mono (primOf m) hle (fuelFor crit)).2 _ v hv]
  have wf : wellFormed .search (fuelFor crit) (tokens crit) = true := by
    unfold wellFormed at h ⊢
    cases hv : evalKeys (primOf noMsg) .spec (fuelFor crit) (tokens crit) with
    | none => simp [hv] at h
    | some v => rw [(eval_mode_mono (primOf noMsg) (a := .spec) (b := .search) rfl (fuelFor crit)).2 _ v hv]; rfl
  unfold search searchSpec
  simp only [hne, h, wf, Bool.not_true, Bool.false_eq_true, or_self, if_false, if_true]
  cases uidMode
  · simp only [Bool.false_eq_true, if_false, hitsOf]
    congr 2
    apply List.filter_congr
    intro m _
    rw [same .search rfl m]
  · simp only [if_true, hitsOf]
    congr 2
    apply List.filter_congr
    intro m _
    rw [same .uid rfl m]

/-- C19.6 (full statement, true of the specification)  a program outside the search-key language is an error -/
theorem spec_unsupported_is_error (uidMode : Bool) (crit : Bytes) (box : List Msg)
    (h : wellFormed .spec (fuelFor crit) (tokens crit) = false) : searchSpec uidMode crit box = .bad := by
  unfold searchSpec
  simp [h]

/-- C19.6 partial (what the code achieves)  SEARCH refuses every program its walk rejects: incomplete keys and unclosed
groups. What is missing from the full statement: a bare unknown word is skipped by SEARCH (C19-F2) and UID SEARCH refuses
nothing (C19-F1); both are pinned by existing tests. -/
theorem unsupported_is_error_partial (crit : Bytes) (box : List Msg)
    (h : wellFormed .search (fuelFor crit) (tokens crit) = false) : search false crit box = .bad := by
  unfold search
  simp [h]

/-- the two recorded gaps as witnesses against the full statement for the code as it is, and the programs that used to be
misread, now evaluated or refused -/
theorem gap_witnesses :
    search false (b!"BOGUS") [] = .hits [] ∧ searchSpec false (b!"BOGUS") [] = .bad ∧
    search true (b!"FROM") [] = .hits [] ∧ searchSpec true (b!"FROM") [] = .bad ∧
    search false (b!"(SEEN") [] = .bad ∧ search false (b!"OR OR SEEN FLAGGED") [] = .bad ∧
    search false (b!"NOT NOT") [] = .bad ∧ search false (b!"FROM") [] = .bad ∧ search false (b!"OR (FROM) SEEN") [] = .bad := by decide

/-- groups and nested operators are evaluated: message 1 is seen and flagged, message 2 only seen -/
theorem nested_examples :
    let m1 : Msg := { seq := 1, uid := 4, flags := [(b!"\\Seen"), (b!"\\Flagged")], idate := (2026, 1, 1), sdate := none, raw := [], maxSeq := 2, maxUid := 9 }
    let m2 : Msg := { seq := 2, uid := 9, flags := [(b!"\\Seen")], idate := (2026, 1, 1), sdate := none, raw := [], maxSeq := 2, maxUid := 9 }
    search false (b!"(SEEN FLAGGED)") [m1, m2] = .hits [1] ∧
    search false (b!"NOT (SEEN FLAGGED)") [m1, m2] = .hits [2] ∧
    search false (b!"OR OR DELETED FLAGGED NOT SEEN") [m1, m2] = .hits [1] ∧
    search true (b!"NOT NOT (OR (FLAGGED) DRAFT)") [m1, m2] = .hits [4] ∧
    search false (b!"SEEN (NOT (FLAGGED))") [m1, m2] = .hits [2] ∧
    searchSpec true (b!"SEEN (NOT (FLAGGED))") [m1, m2] = .hits [9] := by decide

/-- sequence sets inside SEARCH address what they denote: `*` is the last message only, comma lists are unions -/
theorem set_examples :
    setMatches 3 5 (b!"*") = false ∧ setMatches 5 5 (b!"*") = true ∧ setMatches 2 5 (b!"1,3:*") = false ∧
    setMatches 4 5 (b!"1,3:*") = true ∧ setMatches 2 5 (b!"3:1") = true := by decide

/-- C19.9  the substring keys (FROM, TO, CC, BCC, SUBJECT, HEADER, BODY, TEXT) test for a **factor**, without regard to ASCII
letter case: the key holds exactly when the searched text, in upper case, is `a ++ needle ++ b` for some `a` and `b` — wherever
the occurrence lies and whatever precedes it, a false start of the needle included. -/
theorem substring_key_is_factor (text needle : Bytes) :
    GoStr.containsSub (toUpper text) (toUpper needle) = true ↔ ∃ a b, toUpper text = a ++ toUpper needle ++ b :=
  GoStr.containsSub_iff _ _

/-- occurrences that begin inside a false start of the needle -/
theorem substring_false_starts :
    GoStr.containsSub (toUpper (b!"ref 00012")) (toUpper (b!"0012")) = true ∧
    GoStr.containsSub (toUpper (b!"xaaab")) (toUpper (b!"AAB")) = true ∧
    GoStr.containsSub (toUpper (b!"mamamma mia")) (toUpper (b!"mamma")) = true ∧
    GoStr.containsSub (toUpper (b!"abcabcabd")) (toUpper (b!"abcabd")) = true ∧
    GoStr.containsSub (toUpper (b!"abcabcabe")) (toUpper (b!"abcabd")) = false := by decide

end Raven.Props.C19
