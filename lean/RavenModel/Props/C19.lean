import RavenModel.Model.SearchImpl
/-! # C19 — SEARCH returns exactly the messages that satisfy the criteria -/
namespace Raven.Props.C19
open Raven Raven.Search

/-- C19.1 (supported fragment)  for every message and every program of the supported fragment — implicit AND of simple keys
(flag keys, KEYWORD/UNKEYWORD, sequence and UID sets, sizes, header / body / text substrings, internal and sent dates), HEADER,
NOT over a simple key, OR over two simple keys — the token loop computes exactly the conjunction the reference evaluator gives. -/
theorem eval_correct_fragment (P : Prim) (items : List Item) :
    eval P (items.flatMap Item.print) = some (items.all (Item.eval P)) :=
  Search.eval_correct P items

/-- C19.1'  …and such programs pass both validation passes (they are never refused). -/
theorem fragment_is_valid (items : List Item) :
    strictValid (items.flatMap Item.print) = true ∧ valid (items.flatMap Item.print) = true :=
  ⟨valid_print false items, valid_print true items⟩

/-- C19.2  the evaluator is total: whatever the token list (missing arguments after OR / NOT / HEADER included), it answers —
there is no index beyond the end of the token list. -/
theorem never_panics (P : Prim) (ts : List Tok) : (eval P ts).isSome = true := eval_total P ts

/-- C19.3  ascending order without duplicates: the answer is the selected mailbox's numbering filtered, so it inherits
strict ascent from the mailbox (sequence numbers 1..N, UIDs ascending: C03/C09). -/
theorem ascending_nodup (uidMode : Bool) (crit : Bytes) (box : List Msg) (ns : List Nat)
    (hs : (box.map (fun m => if uidMode then m.uid else m.seq)).Pairwise (· < ·))
    (h : search uidMode crit box = .hits ns) : ns.Pairwise (· < ·) := by
  unfold search at h
  simp only [] at h
  split at h
  · cases h
  · simp only [Answer.hits.injEq] at h
    subst h
    unfold hitsOf
    rw [List.pairwise_map] at hs ⊢
    exact List.Pairwise.sublist List.filter_sublist hs

/-- C19.4  on every program the strict pass lets through — the supported fragment — SEARCH and UID SEARCH as coded answer what
the specification answers. -/
theorem impl_meets_spec_on_supported (uidMode : Bool) (crit : Bytes) (box : List Msg)
    (h : strictValid ((tokenise crit).map classify) = true) : search uidMode crit box = searchSpec uidMode crit box := by
  unfold search searchSpec
  have h2 := strict_le _ h
  cases uidMode <;> simp [h, h2]

/-- C19.5 (full statement, true of the specification)  a program outside the supported fragment is an error. -/
theorem spec_unsupported_is_error (uidMode : Bool) (crit : Bytes) (box : List Msg)
    (h : strictValid ((tokenise crit).map classify) = false) : searchSpec uidMode crit box = .bad := by
  unfold searchSpec
  simp [h]

/-- C19.5 partial (what the code achieves)  SEARCH refuses every program its validation pass rejects: parenthesised groups,
NOT / OR over anything but simple keys, missing arguments. What is missing from the full statement: a bare unknown word is
skipped by SEARCH (C19-F2) and UID SEARCH validates nothing (C19-F1); both are pinned by existing tests. -/
theorem unsupported_is_error_partial (crit : Bytes) (box : List Msg)
    (h : valid ((tokenise crit).map classify) = false) : search false crit box = .bad := by
  unfold search
  simp [h]

/-- the two recorded gaps, as witnesses against the full statement for the code as it is -/
theorem gap_witnesses :
    search false (b!"BOGUS") [] = .hits [] ∧ searchSpec false (b!"BOGUS") [] = .bad ∧
    search true (b!"(SEEN)") [] = .hits [] ∧ searchSpec true (b!"(SEEN)") [] = .bad ∧
    search false (b!"(SEEN)") [] = .bad ∧ search false (b!"OR OR SEEN FLAGGED DELETED") [] = .bad ∧
    search false (b!"NOT NOT SEEN") [] = .bad ∧ search false (b!"FROM") [] = .bad := by decide

/-- sequence sets inside SEARCH address what they denote: `*` is the last message only, comma lists are unions -/
theorem set_examples :
    setMatches 3 5 (b!"*") = false ∧ setMatches 5 5 (b!"*") = true ∧ setMatches 2 5 (b!"1,3:*") = false ∧
    setMatches 4 5 (b!"1,3:*") = true ∧ setMatches 2 5 (b!"3:1") = true := by decide

end Raven.Props.C19
