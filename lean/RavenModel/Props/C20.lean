import RavenModel.Gen.Facts
import RavenModel.Model.Plan
import RavenModel.Model.Lifetime
/-! # C20 — sessions end when their client is gone; services shut down cleanly -/
namespace Raven.Props.C20
open Raven.Lifetime

/-- C20.1  a client that is gone ends the session from every state: at most two failed reads (the second one in the command
loop the first returned to) and the handler has returned. -/
theorem eof_closes (s : St) : fail (fail s .eof) .eof = .closed := by cases s <;> rfl

/-- …and one failed read suffices wherever the wait is the command loop itself or IDLE -/
theorem eof_closes_at_once (s : St) (h : s = .imapCmd ∨ s = .imapIdle ∨ s = .lmtpCmd ∨ s = .saslCmd) : fail s .eof = .closed := by
  rcases h with rfl | rfl | rfl | rfl <;> rfl

/-- C20.2  a client that falls silent is logged off in bounded time **in every state**: outside IDLE after the state's read
deadline plus, where the failed read returns to the command loop, that loop's deadline — at most 35 minutes for IMAP, twice
the configured timeout for LMTP, 30 s for SASL. -/
theorem silence_closes (t : Nat) (s : St) (h : s ≠ .imapIdle) :
    ∃ b, silenceBound t s = some b ∧ fail (fail s .deadline) .deadline = .closed ∧ b ≤ max (35 * 60 * 1000) (2 * t * 1000) := by
  cases s <;> first | (exact absurd rfl h) | (refine ⟨_, rfl, rfl, ?_⟩; simp [deadlineMs, fail] <;> omega)

/-- C20.2'  …and inside IDLE (formerly finding C20-F1: no limit at all): whatever a round of the loop costs (`d` > 0 ms), the
session of a silent client is closed at the head of round `⌈limit/d⌉`, less than one round after the 30-minute limit. -/
theorem idle_silence_closes (d : Nat) (hd : 0 < d) :
    ∃ n e, n ≤ idleLimitMs / d + 2 ∧ silentRun d n (.imapIdle, 0) = (.closed, e) ∧ idleLimitMs ≤ e ∧ e < idleLimitMs + d := by
  -- k = the number of rounds that begin before the limit
  obtain ⟨k, hk1, hk2, hk3⟩ : ∃ k, idleLimitMs ≤ k * d ∧ k * d < idleLimitMs + d ∧ k ≤ idleLimitMs / d + 1 := by
    generalize idleLimitMs = L
    have h1 := Nat.div_add_mod L d
    have h2 := Nat.mod_lt L hd
    by_cases hz : L % d = 0
    · refine ⟨L / d, ?_, ?_, by omega⟩
      · rw [Nat.mul_comm]; omega
      · rw [Nat.mul_comm]; omega
    · refine ⟨L / d + 1, ?_, ?_, by omega⟩
      · rw [Nat.add_mul, Nat.mul_comm]; omega
      · rw [Nat.add_mul, Nat.mul_comm]; omega
  refine ⟨k + 1, k * d, by omega, ?_, hk1, hk2⟩
  have hrun : silentRun d k (.imapIdle, 0) = (.imapIdle, 0 + k * d) := by
    apply idle_rounds d k 0 (by omega) (by omega)
    intro j hj
    -- a round that begins at or after the limit would make k smaller
    have : (j + 1) * d ≤ k * d := Nat.mul_le_mul_right d (by omega)
    rw [Nat.succ_mul] at this
    have hlt : k * d < idleLimitMs + d := hk2
    omega
  have happ : ∀ (a b : Nat) (x : St × Nat), silentRun d (a + b) x = silentRun d b (silentRun d a x) := by
    intro a
    induction a with
    | zero => intro b x; simp [silentRun]
    | succ a ih => intro b x; rw [Nat.succ_add]; simp only [silentRun]; exact ih b _
  rw [happ k 1, hrun]
  simp only [silentRun, silentStep, Nat.zero_add]
  have : k * d ≥ idleLimitMs := hk1
  simp [this]

/-- the bound the harness waits for: defined in every state -/
theorem silence_bound_total (t : Nat) (s : St) : (silenceBound t s).isSome = true := by
  cases s <;> simp [silenceBound, deadlineMs, fail]

-- non-vacuity: with rounds of 7 minutes the session is closed at the head of the sixth round, 35 minutes after IDLE began
example : silentRun 420000 6 (.imapIdle, 0) = (.closed, 2100000) ∧ silentRun 420000 5 (.imapIdle, 0) = (.imapIdle, 2100000) := by decide

/-- every deadline the code sets is one of the documented ones (30 min command, 5 min literal, 30 s authentication / SASL,
the 50 ms poll inside IDLE) -/
theorem deadlines (t : Nat) :
    deadlineMs t .imapCmd = some 1800000 ∧ deadlineMs t .imapLiteral = some 300000 ∧ deadlineMs t .imapAuthWait = some 30000 ∧
    deadlineMs t .saslCmd = some 30000 ∧ deadlineMs t .lmtpCmd = some (t * 1000) ∧ deadlineMs t .lmtpData = some (t * 1000) ∧
    deadlineMs t .imapIdle = some 50 ∧ idleLimitMs = 1800000 := by
  simp [deadlineMs, idleLimitMs]

/-! ## shutdown -/
/-- C20.3  after Shutdown no dial is accepted, whatever else happens -/
theorem no_accept_after_shutdown : ∀ (es : List SEv) (s : Srv), s.listening = false → ∀ a ∈ (srun s es).2, a = false
  | [], _, _, a, h => by simp [srun] at h
  | e :: es, s, hl, a, h => by
    have hstep : (sstep s e).1.listening = false ∧ (sstep s e).2 = false := by
      cases e <;> simp [sstep, hl]
      split <;> simp [hl]
    simp only [srun, List.mem_cons] at h
    rcases h with h | h
    · rw [h]; exact hstep.2
    · exact no_accept_after_shutdown es _ hstep.1 a h

theorem shutdown_stops_listening (s : Srv) : (sstep s .shutdown).1.listening = false ∧ (sstep s .shutdown).1.stopping = true := by
  simp [sstep]

/-- C20.4  once shutdown is signalled, the accept loops have left and the connections in flight have ended, `Start()` returns;
and it cannot return while a connection goroutine is still running -/
theorem start_returns_iff (s : Srv) : startReturned s = true ↔ s.conns = 0 ∧ s.acceptors = 0 := by
  simp [startReturned]

/-- the connection count never goes up after shutdown: with C20.1/2 each remaining session ends in bounded time, so the wait is bounded -/
theorem conns_monotone_after_shutdown : ∀ (es : List SEv) (s : Srv), s.listening = false → (srun s es).1.conns ≤ s.conns
  | [], _, _ => by simp [srun]
  | e :: es, s, hl => by
    have h1 : (sstep s e).1.listening = false := by
      cases e <;> simp [sstep, hl]
      split <;> simp [hl]
    have h2 : (sstep s e).1.conns ≤ s.conns := by
      cases e <;> simp [sstep, hl]
      split <;> simp
    have := conns_monotone_after_shutdown es _ h1
    simp only [srun]
    omega

example : (srun { listening := true, stopping := false, conns := 0, acceptors := 1 } [.dial, .shutdown, .dial, .connDone, .acceptorExit]) =
    ({ listening := false, stopping := true, conns := 0, acceptors := 0 }, [true, false, false, false, false]) := by decide

/-! ## the deadlines the code arms (regenerated from /repo on every run) -/

/-- C20.11  the read deadlines of `deadlineMs` are the ones in the code: every waiting loop arms the deadline the model
gives its state (command line 30 min, literal 5 min with a 100 ms drain, AUTHENTICATE response 30 s, IDLE poll 50 ms, SASL
30 s at both reads, LMTP the configured `timeout` at both waits — as a deadline for reads **and writes**, so that a client
that stops reading cannot hold the session in a write), no deadline is ever lifted (`time.Time{}`), and nothing
else in the services touches a deadline. -/
theorem plan_deadlines :
    Raven.Plan.deadlinesAt (b!"server.handleClient") = (deadlineMs 300 .imapCmd).toList.map Int.ofNat ∧
    Raven.Plan.deadlinesAt (b!"message.HandleAppendWithReader") = 100 :: (deadlineMs 300 .imapLiteral).toList.map Int.ofNat ∧
    Raven.Plan.deadlinesAt (b!"auth.HandleAuthenticate") = (deadlineMs 300 .imapAuthWait).toList.map Int.ofNat ∧
    Raven.Plan.deadlinesAt (b!"extension.HandleIdle") = (deadlineMs 300 .imapIdle).toList.map Int.ofNat ∧
    Raven.Plan.deadlinesAt (b!"sasl.Server.handleConnection") = ((deadlineMs 300 .saslCmd).toList ++ (deadlineMs 300 .saslCmd).toList).map Int.ofNat ∧
    ((Raven.Gen.deadlines.filter (fun d => d.at' = (b!"lmtp.Session.Handle"))).map (fun d => (d.call, d.ms, d.var))) =
      [((b!"SetDeadline"), -1, (b!"timeout")), ((b!"SetDeadline"), -1, (b!"timeout"))] ∧
    Raven.Gen.deadlines.all (fun d => d.ms ≠ 0) = true ∧
    Raven.Gen.deadlines.length = 11 := by
  decide

/-- C20.12  the limit of a silent IDLE is measured from one moment: the variable compared with `IdleTimeout` is assigned once,
before the polling loop, and nowhere inside it — so what `idle_silence_closes` counts as rounds of silence is the client's
silence, whatever the mailbox does meanwhile (a loop that restarts the clock on every change of the mailbox never ends under a
steady stream of deliveries). Regenerated from /repo on every run. -/
theorem idle_clock_counts_silence : Raven.Gen.idleClock = ((b!"idleSince"), 1, 0) := by decide

/-- C20.13  a session that waits for the authentication backend waits for a bounded time: every HTTP client the services
build (IMAP login, SASL) carries an overall `Timeout` — which covers the dial, the TLS handshake, the headers and the body —
and nothing uses the package-level client, which has none. A session whose client has gone away therefore ends when its
request does, and `Shutdown`, which waits for the sessions, returns. Regenerated from /repo on every run. -/
theorem backend_requests_bounded :
    Raven.Gen.httpClients = [((b!"auth.authenticateUser"), true), ((b!"sasl.Server.authenticate"), true)] := by decide

end Raven.Props.C20
