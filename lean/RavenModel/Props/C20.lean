import RavenModel.Model.Lifetime
/-! # C20 — sessions end when their client is gone; services shut down cleanly -/
namespace Raven.Props.C20
open Raven.Lifetime

/-- C20.1  a client that is gone ends the session from every state: at most two failed reads (the second one in the command
loop the first returned to) and the handler has returned. -/
theorem eof_closes (s : St) : fail (fail s .eof) .eof = .closed := by cases s <;> rfl

/-- …and one failed read suffices wherever the wait is the command loop itself or IDLE -/
theorem eof_closes_at_once (s : St) (h : s = .imapCmd ∨ s = .imapIdle ∨ s = .lmtpCmd ∨ s = .saslCmd) : fail s .eof = .closed := by
  rcases h with rfl | rfl | rfl | rfl <;> rfl

/-- C20.2 partial  a client that falls silent is logged off after the state's deadline plus, where the failed read returns to
the command loop, that loop's deadline: a bound exists in every state **except inside IDLE**, and it is at most 35 minutes for
IMAP, twice the configured timeout for LMTP, 30 s for SASL. Missing from the full statement: inside IDLE the code polls with a
50 ms deadline and has no overall limit (finding C20-F1). -/
theorem silence_closes_partial (t : Nat) (s : St) (h : s ≠ .imapIdle) :
    ∃ b, silenceBound t s = some b ∧ fail (fail s .deadline) .deadline = .closed ∧ b ≤ max (35 * 60 * 1000) (2 * t * 1000) := by
  cases s <;> first | (exact absurd rfl h) | (refine ⟨_, rfl, rfl, ?_⟩; simp [deadlineMs, fail] <;> omega)

/-- the missing case, as the model has it: silence inside IDLE never ends the session -/
def failN : Nat → St → St
  | 0, s => s
  | n + 1, s => failN n (fail s .deadline)

theorem idle_silence_unbounded (t : Nat) : silenceBound t .imapIdle = none ∧ ∀ n : Nat, failN n .imapIdle = .imapIdle := by
  refine ⟨rfl, ?_⟩
  intro n
  induction n with
  | zero => rfl
  | succ k ih => simpa [failN, fail] using ih

/-- every deadline the code sets is one of the documented ones (30 min command, 5 min literal, 30 s authentication / SASL) -/
theorem deadlines (t : Nat) :
    deadlineMs t .imapCmd = some 1800000 ∧ deadlineMs t .imapLiteral = some 300000 ∧ deadlineMs t .imapAuthWait = some 30000 ∧
    deadlineMs t .saslCmd = some 30000 ∧ deadlineMs t .lmtpCmd = some (t * 1000) ∧ deadlineMs t .lmtpData = some (t * 1000) := by
  simp [deadlineMs]

/-! ## shutdown -/
/-- C20.3  after Shutdown no dial is accepted, whatever else happens -/
theorem no_accept_after_shutdown : ∀ (es : List SEv) (s : Srv), s.listening = false → ∀ a ∈ (srun s es).2, a = false
  | [], _, _, a, h => by simp [srun] at h
  | e :: es, s, hl, a, h => by
    have hstep : (sstep s e).1.listening = false ∧ (sstep s e).2 = false := by
      cases e <;> simp [sstep, hl]
      split <;> simp [hl]
    simp only [srun, List.mem_cons] at h
    rcases h with h | h
    · rw [h]; exact hstep.2
    · exact no_accept_after_shutdown es _ hstep.1 a h

theorem shutdown_stops_listening (s : Srv) : (sstep s .shutdown).1.listening = false ∧ (sstep s .shutdown).1.stopping = true := by
  simp [sstep]

/-- C20.4  once shutdown is signalled, the accept loops have left and the connections in flight have ended, `Start()` returns;
and it cannot return while a connection goroutine is still running -/
theorem start_returns_iff (s : Srv) : startReturned s = true ↔ s.conns = 0 ∧ s.acceptors = 0 := by
  simp [startReturned]

/-- the connection count never goes up after shutdown: with C20.1/2 each remaining session ends in bounded time, so the wait is bounded -/
theorem conns_monotone_after_shutdown : ∀ (es : List SEv) (s : Srv), s.listening = false → (srun s es).1.conns ≤ s.conns
  | [], _, _ => by simp [srun]
  | e :: es, s, hl => by
    have h1 : (sstep s e).1.listening = false := by
      cases e <;> simp [sstep, hl]
      split <;> simp [hl]
    have h2 : (sstep s e).1.conns ≤ s.conns := by
      cases e <;> simp [sstep, hl]
      split <;> simp
    have := conns_monotone_after_shutdown es _ h1
    simp only [srun]
    omega

example : (srun { listening := true, stopping := false, conns := 0, acceptors := 1 } [.dial, .shutdown, .dial, .connDone, .acceptorExit]) =
    ({ listening := false, stopping := true, conns := 0, acceptors := 0 }, [true, false, false, false, false]) := by decide

end Raven.Props.C20
