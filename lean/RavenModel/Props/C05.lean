import RavenModel.Model.MailValidity
import RavenModel.Model.Plan
import RavenModel.Model.World
/-! # C05 — a session reaches only its own stores and only the mailbox it selected -/
namespace Raven.Props.C05
open Raven Raven.Gen Raven.Proto Raven.World

/-- table fact (regenerated from /repo): every selected-state command — FETCH, STORE, COPY, SEARCH, EXPUNGE, CLOSE, CHECK, IDLE,
the UID forms — and NOOP's polling obtains its database through the selected-store accessor, for reads and writes alike. -/
theorem table_selected_store_only : commands.all SelectedStoreOnly = true := by decide

/-- table fact: no handler opens the store of a user id other than the session's own. -/
theorem table_no_foreign_store : commands.all NoForeignStore = true := by decide

/-- C05.1  in every protocol state, every database a selected-state command can reach is the store of the selection (or the
shared blob store, which holds no mailbox). -/
theorem selected_state_uses_selected_store (s : State) (sess : Sess) (c : Command) (hc : c ∈ commands)
    (hsel : (isSelectedStateCmd c || c.name = b!"NOOP") = true) :
    ∀ a ∈ reach s c, ownerOf sess a.kind = sess.sel.map (·.1) ∨ ownerOf sess a.kind = none := by
  intro a ha
  rcases reach_selected_only s c hsel (List.all_eq_true.mp table_selected_store_only c hc) a ha with h | h
  · left; rw [h]; rfl
  · right; rw [h]; rfl

/-- C05.1'  every other command reaches only the session user's own store (LIST/LSUB/SELECT additionally open role stores,
after the assignment check of C05.2). -/
theorem other_commands_use_own_store (s : State) (sess : Sess) (c : Command) (hc : c ∈ commands) :
    ∀ a ∈ reach s c, a.kind = .user → ownerOf sess a.kind = some (.user sess.uid) := by
  intro a _ h; rw [h]; rfl

/-- C05.2  a selection designates the user's own store or a role mailbox that was assigned to the user at that moment —
for every path (own, foreign, non-existent, malformed `Roles/…`). -/
theorem selection_authorised (dir : Dir) (uid : Nat) (path : Bytes) (o : Owner) (m : Bytes)
    (h : selectTarget dir uid path = some (o, m)) :
    o = .user uid ∨ ∃ r, o = .role r ∧ dir.assigned uid r = true :=
  select_authorised dir uid path o m h

/-- C05.3 (frame)  an operation applied to the store of owner `o` leaves the store of every other owner exactly as it was:
no command sequence of one user changes another user's store, or a role store it did not select. -/
theorem frame (w : World) (o o' : Owner) (f : Mail.Store → Mail.Store) (h : o' ≠ o) :
    (w.update o f).store o' = w.store o' :=
  update_frame w o o' f h

theorem frame_seq (w : World) (o o' : Owner) (fs : List (Mail.Store → Mail.Store)) (h : o' ≠ o) :
    (fs.foldl (fun w f => w.update o f) w).store o' = w.store o' := by
  induction fs generalizing w with
  | nil => rfl
  | cons f rest ih => simp only [List.foldl_cons]; rw [ih, update_frame w o o' f h]

/-- C05.4  whatever happens on a connection — logins accepted and refused, second logins, selections of every path, CLOSE,
assignments and un-assignments in between — the mailbox that selected-state commands act on was selected by the identity
the connection holds: its own store, or a role store assigned to that identity at the moment of the SELECT. -/
theorem selection_belongs_to_identity (d : Dir) (es : List CEv) : ConnOK (crun true (Conn.fresh d) es) :=
  crun_ok _ es (by simp [ConnOK, Conn.fresh])

/-- …which fails when a second LOGIN is accepted and keeps the selection (the code before the repair): user 1, assigned to
role 7, selects it; user 2, assigned to nothing, logs in on the same connection and holds the role mailbox. -/
def secondLoginWitness : Conn :=
  crun false (Conn.fresh ⟨fun _ => some 7, fun u r => u = 1 && r = 7⟩)
    [.login 1 true, .select (b!"Roles/s@x/INBOX"), .login 2 true]

theorem second_login_refuted : ¬ ConnOK secondLoginWitness := by
  intro h
  have hu : secondLoginWitness.uid = some 2 := by decide
  obtain ⟨m, d, hs, hd⟩ : ∃ m d, secondLoginWitness.sel = some (.role 7, m, d) ∧ d.assigned 2 7 = false :=
    ⟨_, _, rfl, rfl⟩
  unfold ConnOK at h
  rw [hs] at h
  obtain ⟨u, hu', hor⟩ := h
  rw [hu] at hu'
  cases hu'
  rcases hor with h1 | ⟨r, h1, h2⟩
  · cases h1
  · cases h1
    rw [hd] at h2
    cases h2

-- non-vacuity: a malformed and a foreign role path select nothing; an assigned one selects the role store
example : selectTarget ⟨fun a => if a = b!"sales@x" then some 7 else none, fun u r => u = 1 && r = 7⟩ 1 (b!"Roles/sales@x/INBOX")
    = some (.role 7, b!"INBOX") := by decide
example : selectTarget ⟨fun a => if a = b!"sales@x" then some 7 else none, fun u r => u = 1 && r = 7⟩ 2 (b!"Roles/sales@x/INBOX")
    = none := by decide
example : selectTarget ⟨fun _ => none, fun _ _ => true⟩ 1 (b!"Roles/sales@x") = none := by decide

/-! ## whose store an address or a name resolves to (plan regenerated from /repo on every run) -/

/-- C05.10  recipients, users, role mailboxes, role assignments and mailbox names are resolved by equality: none of the
statements on the path from an address or a name to a store or a mailbox uses `LIKE` — so no address is a pattern for another
one (`sales_@…` vs `sales0@…`), for logins and deliveries alike. -/
theorem plan_resolution_exact :
    [(b!"db.GetUserByUsername"), (b!"db.GetUserByEmail"), (b!"db.GetRoleMailboxByEmail"), (b!"db.RoleMailboxExists"),
     (b!"db.GetOrCreateUserInitialized"), (b!"db.GetOrCreateDomain"), (b!"db.IsUserAssignedToRoleMailbox"),
     (b!"db.GetMailboxByNamePerUser"), (b!"db.MailboxExistsPerUser"), (b!"storage.DeliverMessage")].all
      (fun f => Plan.free (b!"LIKE(") (Plan.trace f) && !(Plan.trace f).isEmpty) = true := by
  decide

/-! ## the selection is a mailbox, not a row id (repair d33c862) -/

/-- C05.11  a session remembers the UIDVALIDITY of the mailbox it selected and, before every command, looks the mailbox up
again and compares (`dropStaleSelection`). Whatever happens in between — the mailbox deleted by this session or another one,
its row id handed to a mailbox created or renamed later, any history at all and any clock — a mailbox that passes the
comparison **is the incarnation that was selected**: no other mailbox of the store ever carries that UIDVALIDITY
(`Mail.validity_identifies_incarnation`). Before the repair the session went by the row id alone: after `SELECT common`,
`DELETE common`, `RENAME INBOX y` it read, flagged and expunged `y`. -/
theorem selection_denotes_selected_incarnation (now : Nat) (ops more : List Mail.Op) :
    ∀ b ∈ (Mail.run (Mail.Store.init now) ops).boxes, ∀ b' ∈ (Mail.run (Mail.Store.init now) (ops ++ more)).boxes,
      b'.validity = b.validity → b'.inc = b.inc := by
  intro b hb b' hb' hv
  exact (Mail.validity_identifies_incarnation now ops more b hb b' hb' hv.symm).symm

-- non-vacuity: `common` selected, deleted, and INBOX renamed to a new mailbox: the new mailbox has another UIDVALIDITY
example :
    ((Mail.run (Mail.Store.init 5) [.create (b!"common") 5]).boxes.map (fun b => (b.name, b.validity))).getLast? = some ((b!"common"), 10) ∧
    ((Mail.run (Mail.Store.init 5) [.create (b!"common") 5, .delete (b!"common"), .rename (b!"INBOX") (b!"y") 5]).boxes.map
      (fun b => (b.name, b.validity))).getLast? = some ((b!"y"), 11) := by decide

end Raven.Props.C05
