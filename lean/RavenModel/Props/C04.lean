import RavenModel.Model.Plan
import RavenModel.Model.AuthJson
import RavenModel.Model.Auth
/-! # C04 — only the identity the auth backend verified is authenticated -/
namespace Raven.Props.C04
open Raven Raven.Auth

/-- C04.1  the request body is faithful: whatever the address and password (quotes, backslashes, control characters,
`<>&`, U+2028/9, …), a strict JSON reader recovers exactly them from the body `encoding/json` builds. -/
theorem body_faithful (email pw : List Char) : Json.readBody (Json.mkBody email pw) = some (email, pw) :=
  Json.body_faithful email pw

/-- …which the `Sprintf` body of the pinned tree did not: a quote in the name rewrote the object. -/
theorem sprintf_body_unfaithful :
    (Json.readBody (Json.mkBodyPinned "m\",\"password\":\"x".toList "pw".toList)).map (·.1) ≠ some "m\",\"password\":\"x".toList := by
  decide

/-- C04.2  the session is bound to the store of exactly the address the backend verified: for every admissible typed
name (at most one `@`) and every default domain, `local@domain` of the binding is the address sent. -/
theorem binding_is_verified_address (user dom : Bytes) (h : admissible user = true) :
    emailFor user dom = (bind user dom).1 ++ at' :: (bind user dom).2 :=
  bind_is_email user dom h

/-- …and names with two `@` cannot be admitted: there the two would differ. -/
theorem two_at_would_mismatch :
    emailFor (b!"a@b@c") (b!"example.com") ≠ (bind (b!"a@b@c") (b!"example.com")).1 ++ at' :: (bind (b!"a@b@c") (b!"example.com")).2 :=
  two_at_mismatch

/-- C04.3  decision: access is granted for status 200 only — every other backend behaviour (401, 500, any other status,
transport error, timeout, garbage) is a refusal. -/
inductive Backend where
  | status (code : Nat)
  | transportError          -- refused connection, timeout, reset, malformed reply
def decide' : Backend → Bool
  | .status 200 => true
  | _ => false
theorem accept_iff_200 (b : Backend) : decide' b = true ↔ b = .status 200 := by
  cases b with
  | status c => by_cases h : c = 200 <;> simp [decide', h]
  | transportError => simp [decide']

/-- C04.4  each SASL answer is a single line carrying the request's id. -/
theorem sasl_one_line (id user : Bytes) (hid : ∀ c ∈ id, c ≠ b_lf ∧ c ≠ b_tab) (hu : ∀ c ∈ user, isCtl c = false) :
    ((okLine id user).filter (· = b_lf)).length = 1 ∧ (GoStr.splitOn b_tab (okLine id user)).take 2 = [(b!"OK"), id] :=
  ok_is_one_line id user hid hu

/-- C04.5  for an RFC 4616 message `authzid NUL authcid NUL passwd` exactly `authcid` and `passwd` are used. -/
theorem plain_fields_exact (z u p : Bytes) (hz : ∀ c ∈ z, c ≠ 0) (hu : ∀ c ∈ u, c ≠ 0) (hp : ∀ c ∈ p, c ≠ 0) :
    plainSplit (z ++ 0 :: (u ++ 0 :: p)) = some (u, p) :=
  Auth.plain_fields_exact z u p hz hu hp

/-! ## where acceptance is decided (plan regenerated from /repo on every run) -/

/-- C04.6  acceptance is decided by exactly one comparison, `resp.StatusCode == 200`, made after the backend request: in
`authenticateUser` nothing is written to any store and the session is not marked authenticated before it, and the session is
marked authenticated in one place; the SASL service's `authenticate` returns `true` in one place, after the same comparison.
This is `Auth.decide` (`accept ⇔ status = 200`) read off the code. -/
theorem plan_accept_only_after_200 :
    let t := Plan.trace (b!"auth.authenticateUser")
    let s := Plan.trace (b!"sasl.authenticate")
    let cond := (b!"cond resp.StatusCode == 200")
    Plan.before (Plan.idx (b!"backend request") t) (Plan.idx cond t) = true ∧
    Plan.count (fun e => GoStr.hasPrefix e (b!"cond ")) t = 1 ∧
    Plan.before (Plan.idx cond t) (Plan.idx (b!"set state.Authenticated = true") t) = true ∧
    Plan.count (fun e => GoStr.hasPrefix e (b!"set state.Authenticated")) t = 1 ∧
    (t.take ((Plan.idx cond t).getD 0)).any Plan.isSqlWrite = false ∧
    s = [(b!"backend request"), cond, (b!"return true")] := by
  decide

/-- C04.6'  the identity is looked up by equality: no statement that finds a user, a domain or a role mailbox by name uses
`LIKE` (in which `_` and `%` of an address would be wild cards). -/
theorem plan_identity_lookups_exact :
    [(b!"db.GetUserByUsername"), (b!"db.GetUserByEmail"), (b!"db.GetRoleMailboxByEmail"), (b!"db.RoleMailboxExists"),
     (b!"db.GetOrCreateUserInitialized"), (b!"db.GetOrCreateDomain"), (b!"db.IsUserAssignedToRoleMailbox"),
     (b!"auth.authenticateUser")].all (fun f => Plan.free (b!"LIKE(") (Plan.trace f) && !(Plan.trace f).isEmpty) = true := by
  decide

end Raven.Props.C04
