import RavenModel.Model.AuthJson
import RavenModel.Model.Auth
/-! # C04 — only the identity the auth backend verified is authenticated -/
namespace Raven.Props.C04
open Raven Raven.Auth

/-- C04.1  the request body is faithful: whatever the address and password (quotes, backslashes, control characters,
`<>&`, U+2028/9, …), a strict JSON reader recovers exactly them from the body `encoding/json` builds. -/
theorem body_faithful (email pw : List Char) : Json.readBody (Json.mkBody email pw) = some (email, pw) :=
  Json.body_faithful email pw

/-- …which the `Sprintf` body of the pinned tree did not: a quote in the name rewrote the object. -/
theorem sprintf_body_unfaithful :
    (Json.readBody (Json.mkBodyPinned "m\",\"password\":\"x".toList "pw".toList)).map (·.1) ≠ some "m\",\"password\":\"x".toList := by
  decide

/-- C04.2  the session is bound to the store of exactly the address the backend verified: for every admissible typed
name (at most one `@`) and every default domain, `local@domain` of the binding is the address sent. -/
theorem binding_is_verified_address (user dom : Bytes) (h : admissible user = true) :
    emailFor user dom = (bind user dom).1 ++ at' :: (bind user dom).2 :=
  bind_is_email user dom h

/-- …and names with two `@` cannot be admitted: there the two would differ. -/
theorem two_at_would_mismatch :
    emailFor (b!"a@b@c") (b!"example.com") ≠ (bind (b!"a@b@c") (b!"example.com")).1 ++ at' :: (bind (b!"a@b@c") (b!"example.com")).2 :=
  two_at_mismatch

/-- C04.3  decision: access is granted for status 200 only — every other backend behaviour (401, 500, any other status,
transport error, timeout, garbage) is a refusal. -/
inductive Backend where
  | status (code : Nat)
  | transportError          -- refused connection, timeout, reset, malformed reply
def decide' : Backend → Bool
  | .status 200 => true
  | _ => false
theorem accept_iff_200 (b : Backend) : decide' b = true ↔ b = .status 200 := by
  cases b with
  | status c => by_cases h : c = 200 <;> simp [decide', h]
  | transportError => simp [decide']

/-- C04.4  each SASL answer is a single line carrying the request's id. -/
theorem sasl_one_line (id user : Bytes) (hid : ∀ c ∈ id, c ≠ b_lf ∧ c ≠ b_tab) (hu : ∀ c ∈ user, isCtl c = false) :
    ((okLine id user).filter (· = b_lf)).length = 1 ∧ (GoStr.splitOn b_tab (okLine id user)).take 2 = [(b!"OK"), id] :=
  ok_is_one_line id user hid hu

/-- C04.5  for an RFC 4616 message `authzid NUL authcid NUL passwd` exactly `authcid` and `passwd` are used. -/
theorem plain_fields_exact (z u p : Bytes) (hz : ∀ c ∈ z, c ≠ 0) (hu : ∀ c ∈ u, c ≠ 0) (hp : ∀ c ∈ p, c ≠ 0) :
    plainSplit (z ++ 0 :: (u ++ 0 :: p)) = some (u, p) :=
  Auth.plain_fields_exact z u p hz hu hp

end Raven.Props.C04
