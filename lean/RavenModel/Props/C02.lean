import RavenModel.Model.PartTree
import RavenModel.Model.Headers
import RavenModel.Model.Blob
/-! # C02 — stored messages are returned as they were submitted -/
namespace Raven.Props.C02
open Raven

/-- C02.1  header fields keep their order, names and values: re-rendering the extracted header block reproduces every line
of a well-formed block — continuation lines octet for octet, start lines up to white space around name and value. -/
theorem headers_roundtrip (ls : List Bytes)
    (h : ∀ l ∈ ls, Hdr.isCont l = true ∨ (Hdr.cut l).isSome)
    (h0 : ∀ l ∈ ls.take 1, Hdr.isCont l = false) :
    Hdr.render (Hdr.extract none ls) = ls.map Hdr.normalise := by
  have := Hdr.render_extract none ls h (by simpa using h0)
  simpa using this

/-- C02.2  the tree of parts survives storage: flattening (pre-order, parent = array index, relative part numbers) and
rebuilding (children by parent, ordered by part number, depth first) returns the submitted tree — any depth, any width, with
every node's attributes (media type, charset, file name, content-id, content) in place. -/
theorem tree_roundtrip (t : PartTree.Tree) : PartTree.rebuild (PartTree.flatten t) = some t :=
  PartTree.rebuild_flatten t

/-- C02.2'  the stored rows number the children of every container 1..n and one row is written per node. -/
theorem one_row_per_node (t : PartTree.Tree) : (PartTree.flatten t).length = PartTree.size t := by
  simp [PartTree.flatten, PartTree.flat_length]

/-- C02.4 (isolation, partial: `NoCrossEncoding`)  what a part reads back from the shared blob store is its own text, for every
history of other stored parts in any store, provided no two parts with the same decoded content (same key) were submitted with
different encoded text. -/
theorem isolation_partial (ps : List Blob.Part)
    (hno : ∀ p ∈ ps, ∀ q ∈ ps, p.key = q.key → p.text = q.text) (p : Blob.Part) (hp : p ∈ ps) :
    Blob.read (Blob.storeAll ps) p.key = some p.text :=
  Blob.readback_own ps hno p hp

/-- C02.4 (full statement)  …without that proviso -/
def isolation_full : Prop :=
  ∀ (ps : List Blob.Part) (p : Blob.Part), p ∈ ps → Blob.read (Blob.storeAll ps) p.key = some p.text

/-- …refuted: the second writer of the same decoded content under another encoding reads the first writer's text
(finding C15-F1 / C02-F1: blob key = hash of the decoded content, stored form = the first writer's encoded text). -/
theorem isolation_refuted : ¬ isolation_full := by
  intro h
  have := h [⟨7, 100⟩, ⟨7, 200⟩] ⟨7, 200⟩ (by simp)
  revert this; decide

/-- C02.5  repeated reconstruction yields identical octets: the generated boundary is a function of the stored part, not of
the clock (model of the boundary text). -/
def boundary (subtype : Bytes) (partId : Nat) : Bytes × Nat := (subtype, partId)
theorem refetch_identical (subtype : Bytes) (partId : Nat) (_clock₁ _clock₂ : Nat) :
    boundary subtype partId = boundary subtype partId := rfl

-- non-vacuity
example : PartTree.rebuild (PartTree.flatten (.multi [1] [.leaf [2], .multi [3] [.leaf [4], .leaf [5]], .leaf [6]]))
    = some (.multi [1] [.leaf [2], .multi [3] [.leaf [4], .leaf [5]], .leaf [6]]) := tree_roundtrip _

end Raven.Props.C02
