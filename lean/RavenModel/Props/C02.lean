import RavenModel.Model.MimeHeader
import RavenModel.Model.MimeWriter
import RavenModel.Model.MimeMessage
import RavenModel.Model.Mime
import RavenModel.Model.PartTree
import RavenModel.Model.Headers
import RavenModel.Model.Blob
/-! # C02 — stored messages are returned as they were submitted -/
namespace Raven.Props.C02
open Raven

/-- C02.1  header fields keep their order, names and values: re-rendering the extracted header block reproduces every line
of a well-formed block — continuation lines octet for octet, start lines up to white space around name and value. -/
theorem headers_roundtrip (ls : List Bytes)
    (h : ∀ l ∈ ls, Hdr.isCont l = true ∨ (Hdr.cut l).isSome)
    (h0 : ∀ l ∈ ls.take 1, Hdr.isCont l = false) :
    Hdr.render (Hdr.extract none ls) = ls.map Hdr.normalise := by
  have := Hdr.render_extract none ls h (by simpa using h0)
  simpa using this

/-- C02.2  the tree of parts survives storage: flattening (pre-order, parent = array index, relative part numbers) and
rebuilding (children by parent, ordered by part number, depth first) returns the submitted tree — any depth, any width, with
every node's attributes (media type, charset, file name, content-id, content) in place. -/
theorem tree_roundtrip (t : PartTree.Tree) : PartTree.rebuild (PartTree.flatten t) = some t :=
  PartTree.rebuild_flatten t

/-- C02.2'  the stored rows number the children of every container 1..n and one row is written per node. -/
theorem one_row_per_node (t : PartTree.Tree) : (PartTree.flatten t).length = PartTree.size t := by
  simp [PartTree.flatten, PartTree.flat_length]

/-- C02.4 (isolation, partial: `NoCrossEncoding`)  what a part reads back from the shared blob store is its own text, for every
history of other stored parts in any store, provided no two parts with the same decoded content (same key) were submitted with
different encoded text. -/
theorem isolation_partial (ps : List Blob.Part)
    (hno : ∀ p ∈ ps, ∀ q ∈ ps, p.key = q.key → p.text = q.text) (p : Blob.Part) (hp : p ∈ ps) :
    Blob.read (Blob.storeAll ps) p.key = some p.text :=
  Blob.readback_own ps hno p hp

/-- C02.4 (full statement)  …without that proviso -/
def isolation_full : Prop :=
  ∀ (ps : List Blob.Part) (p : Blob.Part), p ∈ ps → Blob.read (Blob.storeAll ps) p.key = some p.text

/-- …refuted: the second writer of the same decoded content under another encoding reads the first writer's text
(finding C15-F1 / C02-F1: blob key = hash of the decoded content, stored form = the first writer's encoded text). -/
theorem isolation_refuted : ¬ isolation_full := by
  intro h
  have := h [⟨7, 100⟩, ⟨7, 200⟩] ⟨7, 200⟩ (by simp)
  revert this; decide

/-- C02.5  repeated reconstruction yields identical octets: the generated boundary is a function of the stored part, not of
the clock (model of the boundary text). -/
def boundary (subtype : Bytes) (partId : Nat) : Bytes × Nat := (subtype, partId)
theorem refetch_identical (subtype : Bytes) (partId : Nat) (_clock₁ _clock₂ : Nat) :
    boundary subtype partId = boundary subtype partId := rfl

-- non-vacuity
example : PartTree.rebuild (PartTree.flatten (.multi [1] [.leaf [2], .multi [3] [.leaf [4], .leaf [5]], .leaf [6]]))
    = some (.multi [1] [.leaf [2], .multi [3] [.leaf [4], .leaf [5]], .leaf [6]]) := tree_roundtrip _

/-! ## the text of a multipart message, octet by octet (`Model/Mime`)

What `reconstructPartDFS` writes — `--boundary CRLF part CRLF` for every part, then `--boundary--` — against what a reader
of that text (`mime/multipart.Reader` in `parseMultipart` and `BuildBodyStructure`, or the client) finds: it looks for
`CRLF "--" boundary` followed by `--` or a line end. -/

/-- C02.6  the parts of a container come back exactly as they were written — any number of parts, any octets in them —
when each part is *clean* for the delimiter (no `CRLF--boundary` followed by `--` or a line end starts inside it). -/
theorem parts_as_written (b : Bytes) (ps : List Bytes) (e : Bytes) (hne : ps ≠ [])
    (hc : Mime.cleanAll (Mime.delim b) ps e = true) : Mime.splitBody b (Mime.joinBody b ps e) = some ps :=
  Mime.splitBody_joinBody b ps e hne hc

/-- C02.6'  the whole tree comes back: containers nested to any depth, each with its own boundary (one boundary may even be
a prefix of another, as `…_3` and `…_31` are), any number of parts, any octets — provided `fresh`: every header block is read
as written and every part is clean for the delimiter of the container it sits in. -/
theorem tree_as_written (t : Mime.Tree) (f : Nat) (hf : Mime.depth t ≤ f) (hfr : Mime.fresh Mime.readHeader t = true) :
    Mime.parse Mime.readHeader f (Mime.core t) = some t :=
  Mime.parse_core Mime.readHeader t f hf hfr

/-- C02.6''  …and so does a whole message (closing delimiter followed by the final line end). -/
theorem message_as_written (h b : Bytes) (cs : List Mime.Tree) (f : Nat) (hf : Mime.depthList cs ≤ f)
    (hK : Mime.readHeader (h ++ Mime.joinBody b (Mime.coreList cs) Mime.CRLF) = some (h, b, Mime.joinBody b (Mime.coreList cs) Mime.CRLF))
    (hcl : Mime.cleanAll (Mime.delim b) (Mime.coreList cs) Mime.CRLF = true) (hfl : Mime.freshList Mime.readHeader cs = true) :
    Mime.parse Mime.readHeader (f + 1) (Mime.message (.multi h b cs)) = some (.multi h b cs) :=
  Mime.parse_message Mime.readHeader h b cs f hf hK hcl hfl

/-- a message as the writer produces it: three parts, the second a container whose boundary extends the outer one, the
first with lines that begin with `--` -/
def exampleTree : Mime.Tree :=
  .multi (Mime.containerHeader true (b!"multipart/mixed") (b!"----=_Part_Mixed_3")) (b!"----=_Part_Mixed_3")
    [ .leaf (b!"Content-Type: text/plain\r\n\r\nhello\r\n--not a delimiter\r\n-- \r\nbye"),
      .multi (Mime.containerHeader false (b!"multipart/mixed") (b!"----=_Part_Mixed_31")) (b!"----=_Part_Mixed_31")
        [ .leaf (b!"Content-Type: text/plain\r\n\r\na"), .leaf (b!"Content-Type: text/html\r\n\r\n<p>a</p>") ],
      .leaf (b!"Content-Type: application/octet-stream\r\nContent-Transfer-Encoding: base64\r\n\r\nAAAA\r\nBBBB") ]

-- non-vacuity: the side condition holds for it, hence it is read back as written
set_option maxRecDepth 100000 in
theorem exampleTree_fresh : Mime.fresh Mime.readHeader exampleTree = true := by decide
example : Mime.parse Mime.readHeader 3 (Mime.core exampleTree) = some exampleTree :=
  tree_as_written exampleTree 3 (by decide) exampleTree_fresh

/-- C02.6‴  the reader that the correspondence runs on every fetched text (`Mime.parseMessage`, driver op `mm.observe`: it
picks its own fuel from the length of the text) inverts the writer on every message that meets the decidable side conditions
`freshMessage`: a container nested to any depth, or a single entity. The theorem is about the function that is executed
against the implementation, not about a relative of it. -/
theorem fetched_text_reads_back (t : Mime.Tree) (h : Mime.freshMessage t = true) :
    Mime.parseMessage (Mime.message t) = some t :=
  Mime.parseMessage_written t h

set_option maxRecDepth 100000 in
/-- non-vacuity: the example message meets the side conditions -/
theorem exampleTree_freshMessage : Mime.freshMessage exampleTree = true := by decide

/-- C02.6 (full statement)  …without the side condition -/
def tree_as_written_full : Prop :=
  ∀ (t : Mime.Tree) (f : Nat), Mime.depth t ≤ f → Mime.parse Mime.readHeader f (Mime.core t) = some t

/-- a part whose text contains the delimiter of its own container -/
def spoiledTree : Mime.Tree :=
  .multi (Mime.containerHeader true (b!"multipart/mixed") (b!"----=_Part_Mixed_3")) (b!"----=_Part_Mixed_3")
    [ .leaf (b!"Content-Type: text/plain\r\n\r\nabove\r\n------=_Part_Mixed_3\r\nContent-Type: text/plain\r\n\r\nbelow") ]

/-- …refuted: the generated boundary is a function of the part's row id, not of the content; a part that contains such a
line is read back as two parts (the excluded point; probed on the real code by the C02 harness). -/
theorem tree_as_written_refuted : ¬ tree_as_written_full := by
  intro h
  have h1 := h spoiledTree 2 (by decide)
  set_option maxRecDepth 100000 in
  have h2 : (Mime.parse Mime.readHeader 2 (Mime.core spoiledTree)).map Mime.width = some 1 := by rw [h1]; rfl
  revert h2; decide

/-! ## the writer after the repair (`Model/MimeWriter`): the boundary is chosen against the parts -/

/-- C02.7  the writer's own test (`boundaryOccursIn`: no line of a rendered part begins with `--boundary` followed by the end
of the line, white space or `--`) is at least as strict as the reader: a part that passes it is clean for the delimiter,
whatever follows. -/
theorem writer_test_implies_clean (b : Bytes) (hcr : 13 ∉ b) (core t : Bytes)
    (h : Mime.flagged (Mime.DD ++ b) true (core ++ Mime.CRLF) = false) : Mime.clean (Mime.delim b) core t = true :=
  Mime.clean_of_not_flagged b hcr core t true h

/-- C02.7'  hence, with the boundary the lengthening loop settles on, the parts of a container are read back exactly as they
were written **whatever octets they contain** — the side condition of C02.6 is discharged by the writer itself. -/
theorem repaired_writer_reads_back (base : Bytes) (ps : List Bytes) (e : Bytes) (fuel : Nat) (b : Bytes) (hne : ps ≠ [])
    (hb : Mime.chooseBoundary base ps fuel 0 = some b) (hcr : 13 ∉ b) :
    Mime.splitBody b (Mime.joinBody b ps e) = some ps :=
  Mime.repaired_writer_parts_read_back base ps e fuel b hne hb hcr

-- non-vacuity: the part that spoiled the tree above fails the test for the first candidate and passes it for the second
set_option maxRecDepth 100000 in
example :
    Mime.passes (b!"----=_Part_Mixed_3") [(b!"Content-Type: text/plain\r\n\r\nabove\r\n------=_Part_Mixed_3\r\nContent-Type: text/plain\r\n\r\nbelow")] = false ∧
    Mime.passes (b!"----=_Part_Mixed_3_0") [(b!"Content-Type: text/plain\r\n\r\nabove\r\n------=_Part_Mixed_3\r\nContent-Type: text/plain\r\n\r\nbelow")] = true := by
  decide

/-- C02.7''  **end to end**: the repaired writer renders the children, settles on a boundary none of them contains
(`assign`, the model of `reconstructPartDFS` with `boundaryOccursIn`), and writes; a reader takes the text apart into
exactly the tree it was written from — for every stored tree, any depth, any number of parts, **any octets in the leaves**.
Only the header reader remains a parameter (library code: it reads the container headers the writer produces and takes no
leaf for a container); the boundary bases contain no carriage return (they are `----=_Part_<Subtype>_<id>`). -/
theorem repaired_tree_as_written (K : Mime.HeaderReader) (fuel : Nat) (s : Mime.Src) (t : Mime.Tree) (f : Nat)
    (ha : Mime.assign fuel s = some t) (hb : Mime.basesOK s = true) (hr : Mime.headersRead K t = true)
    (hf : Mime.depth t ≤ f) : Mime.parse K f (Mime.core t) = some t :=
  Mime.repaired_tree_reads_back K fuel s t f ha hb hr hf

/-- C02.8  the header-reading part of the side condition, for the concrete reader (`Mime.readHeader`: the first empty line
ends the header block; a `Content-Type: multipart/…` field with a `; boundary="…"` parameter makes a container): the container
header the writer produces is read back as written — header block, boundary, body — for every media type `multipart/<subtype>`
and boundary free of carriage returns, semicolons and double quotes (the writer's are), and **whatever the body**. What stays a
hypothesis of `repaired_tree_as_written` is only that no leaf's own header makes it a container. -/
theorem reader_reads_writer_headers (top : Bool) (ctype b body sub : Bytes) (hc : 13 ∉ ctype) (hs : 59 ∉ ctype) (hb : 13 ∉ b)
    (hq : 34 ∉ b) (hm : toLower ctype = (b!"multipart/") ++ sub) :
    Mime.readHeader (Mime.containerHeader top ctype b ++ body) = some (Mime.containerHeader top ctype b, b, body) :=
  Mime.readHeader_container top ctype b body sub hc hs hb hq hm

end Raven.Props.C02
