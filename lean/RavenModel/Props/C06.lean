import RavenModel.Model.Proto
/-! # C06 — protocol state machine and TLS gate hold for every command sequence

The tables `Gen.commands` and `Gen.authEvents` are regenerated from /repo on every run; the `decide` facts below are
therefore re-checked against what the dispatch loop and the handlers say *now*. -/
namespace Raven.Props.C06
open Raven Raven.Gen Raven.Proto

/-- the dispatch alphabet is the one the model knows (a new `case` label is a broken obligation) -/
theorem alphabet_known : commands.all (fun c => knownNames.contains c.name) = true := by decide

/-- table fact: every database accessor outside LOGIN/AUTHENTICATE is dominated by the authentication guard -/
theorem table_auth_gated : commands.all AuthGated = true := by decide

/-- table fact: every accessor of a selected-state command is dominated by the selection guard -/
theorem table_sel_gated : commands.all SelGated = true := by decide

/-- table fact: a session becomes authenticated in exactly one place (authenticateUser), and every call of it is
dominated by the TLS check -/
theorem table_tls_gate :
    authEvents.all (fun e => if e.isSet then e.at' = b!"auth.authenticateUser" else e.tlsGuard) = true ∧
    (authEvents.filter (·.isSet)).length = 1 := by decide

/-- C06.1  before authentication no command whatsoever (valid or malformed arguments, any state of selection) reaches a store. -/
theorem no_data_before_auth (s : State) (c : Command) (hc : c ∈ commands) (hs : s.authed = false)
    (hl : isLoginCmd c = false) : reach s c = [] :=
  reach_nil_of_unauth s c hs hl (List.all_eq_true.mp table_auth_gated c hc)

/-- C06.2  with no mailbox selected, every selected-state command (and NOOP's polling) reaches no store. -/
theorem selected_only (s : State) (c : Command) (hc : c ∈ commands) (hs : s.selected = false)
    (hsel : (isSelectedStateCmd c || c.name = b!"NOOP") = true) : reach s c = [] :=
  reach_nil_of_unselected s c hs hsel (List.all_eq_true.mp table_sel_gated c hc)

/-- C06.3 (TLS gate, every command sequence)  on a connection that is not protected by TLS no sequence of commands, whatever
the backend would answer, makes the session authenticated. -/
theorem tls_gate (s : State) (is : List Input) (htls : (run s is).tls = false) (hs : s.authed = false) :
    (run s is).authed = false := by
  induction is generalizing s with
  | nil => exact hs
  | cons i rest ih =>
    simp only [run] at htls ⊢
    apply ih (next s i) htls
    -- the connection is still unprotected at the end, hence was all along
    have hrest : ∀ (t : State) (js : List Input), (run t js).tls = false → t.tls = false := by
      intro t js
      induction js generalizing t with
      | nil => exact id
      | cons j js' ih' => intro h; exact next_tls_false t j (ih' (next t j) h)
    have h1 : (next s i).tls = false := hrest _ _ htls
    have h0 : s.tls = false := next_tls_false s i h1
    cases hn : (next s i).authed with
    | false => rfl
    | true =>
      rcases next_authed s i hn with h | ⟨_, h, _⟩
      · rw [hs] at h; cases h
      · rw [h0] at h; cases h

/-- C06.3'  after STARTTLS the session continues unauthenticated, with nothing selected. -/
theorem starttls_fresh (s : State) (i : Input) (hc : i.cmd.uidSub = false) (hn : i.cmd.name = b!"STARTTLS") (ht : s.tls = false) :
    next s i = { tls := true, authed := false, selected := false, readOnly := false } := by
  have h1 : isLoginCmd i.cmd = false := by simp [isLoginCmd, hn]
  simp [next, h1, hc, hn, ht]

/-- C06.1 for every command sequence: as long as no LOGIN/AUTHENTICATE has succeeded, nothing reaches a store. -/
theorem no_data_before_auth_seq (s : State) (is : List Input) (hs : s.authed = false)
    (hno : ∀ i ∈ is, isLoginCmd i.cmd = true → (s.tls && i.backendOK) = false ∨ i.backendOK = false) :
    (∀ i ∈ is, i.backendOK = false) → (run s is).authed = false := by
  intro hb
  induction is generalizing s with
  | nil => exact hs
  | cons i rest ih =>
    simp only [run]
    apply ih (next s i)
    · cases hn : (next s i).authed with
      | false => rfl
      | true =>
        rcases next_authed s i hn with h | ⟨_, _, h⟩
        · rw [hs] at h; cases h
        · rw [hb i (by simp)] at h; cases h
    · intro j hj hl; right; exact hb j (by simp [hj])
    · intro j hj; exact hb j (by simp [hj])

/-- C06.5  a failed SELECT/EXAMINE leaves no mailbox selected. -/
theorem failed_select_unselects (s : State) (i : Input) (hc : i.cmd.uidSub = false)
    (hn : i.cmd.name = b!"SELECT" ∨ i.cmd.name = b!"EXAMINE") (ha : s.authed = true) (hf : i.selectOK = false) :
    (next s i).selected = false := by
  have h1 : isLoginCmd i.cmd = false := by
    rcases hn with h | h <;> simp [isLoginCmd, h] <;> decide
  have h2 : (i.cmd.name = b!"SELECT" || i.cmd.name = b!"EXAMINE") = true := by
    rcases hn with h | h <;> simp [h]
  simp [next, h1, hc, h2, ha, hf]

end Raven.Props.C06
