import RavenModel.Model.Names
/-! # C11 — mailbox names form an exact set; operations touch only what they name

`Store.names` is the abstraction map to the specification (a set of exact, case-sensitive octet strings under the
`/` hierarchy). Statements hold for **every** store and every argument; with `Props.C03.reach_inv` they hold in
particular in every reachable store. -/
namespace Raven.Props.C11
open Raven Raven.Mail Raven.GoStr

/-- C11.1a  CREATE succeeds exactly for a non-empty name that is not INBOX (any case), is neither `Roles` nor a name below it — the
part of the hierarchy SELECT reads as role mailboxes, where a personal mailbox could be filled but never opened (repair 817e6d4)
— and does not exist yet… -/
theorem create_ok_iff (s : Store) (arg : Bytes) (now : Nat) :
    (s.create arg now).2 = .ok ↔ createdName arg ≠ [] ∧ toUpper (createdName arg) ≠ inboxName ∧
      underRoles (createdName arg) = false ∧ createdName arg ∉ s.names :=
  Mail.create_ok_iff s arg now

/-- C11.1b  …and then adds exactly that name and its missing (non-empty) ancestors; a refused CREATE changes nothing. -/
theorem create_adds_exactly (s : Store) (arg : Bytes) (now : Nat) :
    ((s.create arg now).2 = .ok → ∀ m, m ∈ (s.create arg now).1.names ↔
        m ∈ s.names ∨ (m ∈ ancestors (createdName arg) ∧ m ≠ []) ∨ m = createdName arg) ∧
    ((s.create arg now).2 ≠ .ok → (s.create arg now).1 = s) :=
  ⟨fun h m => create_names s arg now h m, create_refused s arg now⟩

/-- C11.2  DELETE succeeds exactly for an existing name that is not INBOX, has no `name/` child (exact, case-sensitive
prefix) and is not one of the protected defaults; it removes that name and nothing else; refused, it changes nothing. -/
theorem delete_removes_only_it (s : Store) (arg : Bytes) :
    ((s.delete arg).2 = .ok ↔
      trimQuotes arg ≠ [] ∧ toUpper (trimQuotes arg) ≠ inboxName ∧ trimQuotes arg ∈ s.names ∧
      (∀ m ∈ s.names, isChildOf (trimQuotes arg) m = false) ∧
      (∀ p ∈ protectedNames, equalFold (trimQuotes arg) p = false)) ∧
    ((s.delete arg).2 = .ok → (s.delete arg).1.names = s.names.filter (· ≠ trimQuotes arg)) ∧
    ((s.delete arg).2 ≠ .ok → (s.delete arg).1 = s) :=
  ⟨delete_ok_iff s arg, (delete_names s arg).1, (delete_names s arg).2⟩

/-- C11.3  RENAME (not of INBOX) creates the missing ancestors of the new name, renames the mailbox and exactly the
other mailboxes below `old/` (exact, case-sensitive prefix), keeping every mailbox record (messages, UIDs, flags,
UIDVALIDITY) as it is, and touches nothing else. -/
theorem rename_moves_exactly (s : Store) (oa na : Bytes) (now : Nat)
    (hinb : toUpper (trimQuotes oa) ≠ inboxName) (hok : (s.rename oa na now).2 = .ok) :
    (s.rename oa na now).1.boxes =
      (s.newBoxes (ancestors (trimQuotes na)) now).boxes.map
        (fun b => { b with name := renamedName (trimQuotes oa) (trimQuotes na) b.name }) :=
  rename_boxes s oa na now hinb hok

/-- renaming a mailbox below itself moves it (and its children) there: `RENAME a a/b` yields `a/b`. -/
theorem rename_into_own_subtree :
    ((Store.init 1).create (b!"a") 2).1.rename (b!"a") (b!"a/b") 3 |>.1.names
      = [(b!"INBOX"), (b!"Sent"), (b!"Drafts"), (b!"Trash"), (b!"Spam"), (b!"a/b")] := by decide

/-- a name with SQL LIKE wildcards renames only itself and its true children (the pinned tree also moved `axb/c`). -/
theorem rename_like_safe :
    (((Store.init 1).create (b!"a_b") 2).1.create (b!"axb/c") 2).1.rename (b!"a_b") (b!"zz") 3 |>.1.names
      = [(b!"INBOX"), (b!"Sent"), (b!"Drafts"), (b!"Trash"), (b!"Spam"), (b!"zz"), (b!"axb"), (b!"axb/c")] := by decide

/-- C11.4  `LIST "" "*"` shows every mailbox: the star pattern matches every name, so `FilterMailboxes` keeps the whole
set (C18.2 says it adds nothing but INBOX). -/
theorem list_star_is_set (s : Store) : ∀ m ∈ s.names, m ∈ ListMatch.filter s.names [] [b_star] := by
  intro m hm
  rw [ListMatch.mem_filter]
  left
  refine ⟨hm, ?_⟩
  have : ListMatch.canonical [] [b_star] = [b_star] := by decide
  rw [this]
  exact (ListMatch.matchWildcard_iff m [b_star]).mp (star_matches_all m)

/-- C11.5  the subscription list changes only through SUBSCRIBE and UNSUBSCRIBE: every other operation of the machine
leaves it exactly as it was. -/
theorem subs_only_by_subscribe (s : Store) (op : Op) (h : op.isSubOp = false) : (step s op).subs = s.subs :=
  subs_step s op h

/-- C11.5'  an empty list is presented as the default mailboxes, a non-empty one as it is. -/
theorem presented_subs (s : Store) : s.shownSubs = if s.subs.isEmpty then defaultNames else s.subs := rfl

-- non-vacuity
example : ((Store.init 1).create (b!"x/y/") 2).1.names =
    [(b!"INBOX"), (b!"Sent"), (b!"Drafts"), (b!"Trash"), (b!"Spam"), (b!"x"), (b!"x/y")] := by decide


/-- C11.1c  RENAME to `Roles` or to a name below it is refused and changes nothing (a mailbox renamed to `Roles` would take its
children below it). -/
theorem rename_refuses_reserved (s : Store) (oa na : Bytes) (now : Nat) (hne : ¬ (trimQuotes oa = [] ∨ trimQuotes na = []))
    (hr : underRoles (trimSuffix (trimQuotes na) slash) = true) : s.rename oa na now = (s, .no) :=
  Mail.rename_refuses_roles s oa na now hne hr

-- non-vacuity: the names the harness found, and the folder itself
example : underRoles (b!"Roles/x@example.com/foo") = true ∧ underRoles (b!"Roles") = true ∧ underRoles (b!"roles/z") = false ∧
    underRoles (b!"Rolesx") = false := by decide


end Raven.Props.C11
