import RavenModel.Model.Plan
import RavenModel.Model.Session
import RavenModel.Model.MailInv
/-! # C10 — flag updates are exact, persistent and respect read-only selection -/
namespace Raven.Props.C10
open Raven Raven.Mail Raven.Flags Raven.GoStr

/-- C10.1  STORE is exact set algebra: FLAGS replaces, +FLAGS adds, -FLAGS removes exactly the named flags
(`\Recent` is never client-settable), for every current flag list and every argument list. -/
theorem store_algebra (cur new : List Bytes) (t : Bytes) :
    (t ∈ newFlags cur new .set ↔ t ∈ new ∧ t ≠ recent) ∧
    (t ∈ newFlags cur new .add ↔ t ∈ cur ∨ (t ∈ new ∧ t ≠ recent)) ∧
    (t ∈ newFlags cur new .del ↔ t ∈ cur ∧ ¬ (t ∈ new ∧ t ≠ recent)) :=
  calc_mem cur new t

/-- C10.1'  the stored flag string round-trips: `strings.Fields (strings.Join ts " ") = ts` for every list of tokens,
so the set written by one STORE is the set read by the next command and by every later session. -/
theorem flags_persist (ts : List Bytes) (h : ∀ t ∈ ts, Tok t) : fields (join ts) = ts := fields_join ts h

/-- C10.1''  a flag update addresses exactly the named message: with UID STORE every link with another UID keeps its
flags, message and UID; the addressed one gets exactly the computed set. -/
theorem store_targets_exactly (ls : List Link) (u : Nat) (upd : List Bytes) (x : Link)
    (hx : x ∈ ls.map (fun x => if x.uid = u then { x with flags := upd } else x)) :
    ∃ y ∈ ls, x.uid = y.uid ∧ x.msg = y.msg ∧ (if y.uid = u then x.flags = upd else x.flags = y.flags) := by
  obtain ⟨y, hy, rfl⟩ := List.mem_map.mp hx
  refine ⟨y, hy, ?_⟩
  by_cases h : y.uid = u <;> simp [h]

/-- C10.2  an operation on one mailbox leaves every other mailbox of the store untouched (frame): in particular flags
of a copy in another mailbox are independent of the original. -/
theorem frame_modify (s : Store) (n m : Bytes) (f : Mbox → Mbox) (hne : m ≠ n) (hf : ∀ b, (f b).name = b.name) :
    (s.modify n f).find m = s.find m := by
  unfold Store.modify Store.find
  simp only []
  induction s.boxes with
  | nil => rfl
  | cons b bs ih =>
    simp only [List.map_cons, List.find?_cons]
    by_cases hb : b.name = n
    · have h1 : ¬ ((f b).name = m) := fun h => hne (by rw [← h, hf, hb])
      have h2 : ¬ (b.name = m) := fun h => hne (by rw [← h, hb])
      have h3 : ¬ (n = m) := fun h => hne h.symm
      simp only [hb, if_true, h1, h2, h3, decide_false]
      exact ih
    · simp only [hb, if_false]
      by_cases hm : b.name = m
      · simp [hm]
      · simp only [hm, decide_false]; exact ih

/-- C10.3  the flag tests (`hasFlag`, `(' '||flags||' ') LIKE '% \Seen %'`) are token membership, never substring: -/
theorem flag_test_is_membership (fl : List Bytes) (t : Bytes) : hasTok fl t = true ↔ ∃ f ∈ fl, equalFold f t = true := by
  simp [hasTok]

/-- …and the substring test the pinned tree used is *not* membership (witness: keyword `\Seenish` vs `\Seen`). -/
theorem substring_is_not_membership :
    containsSub (b!"\\Seenish") seen = true ∧ hasTok [(b!"\\Seenish")] seen = false := by decide

/-- C10.4  a mailbox opened with EXAMINE is never modified by that session: any sequence of STORE, UID STORE, EXPUNGE,
UID EXPUNGE, CLOSE, UNSELECT, EXAMINE commands issued while the selection is read-only (or absent) leaves the store
exactly as it was. -/
theorem examine_never_mutates (s : Store) (sel : Option Sel) (cs : List Cmd) (hro : roSel sel = true)
    (hc : ∀ c ∈ cs, c.isSelect = false) : (sessRun s sel cs).1 = s :=
  sessRun_ro s sel cs hro hc

-- non-vacuity
example : (sessRun (Store.add (Store.init 1) (b!"INBOX") 1 []).1 none
    [.examine (b!"INBOX"), .store [deleted] .add [1], .expunge, .close]).1 = (Store.add (Store.init 1) (b!"INBOX") 1 []).1 :=
  examine_never_mutates _ _ _ rfl (by decide)
example : newFlags [seen, (b!"kw")] [(b!"kw"), recent, deleted] .add = [seen, (b!"kw"), deleted] := by decide

/-! ## the statements behind the conditional flag write and COPY (plan regenerated from /repo on every run) -/

/-- C10.8  `ApplyFlagChange` is the compare-and-swap loop the model's `casStore` step describes: **inside** the retry loop the new
flag list is computed from the flags last read, written under the condition that they are still the stored ones, and re-read
when they are not — a value computed once outside the loop would write a stale list over another session's change. -/
theorem plan_flag_change_recomputes :
    Raven.Plan.trace (b!"message.ApplyFlagChange") =
      [(b!"loop {"), (b!"call message.CalculateNewFlags"), (b!"sql UPDATE message_mailbox"), (b!"sql SELECT message_mailbox"), (b!"}")] := by
  decide

set_option maxRecDepth 100000 in
/-- C10.9  the commands that only look — SELECT / EXAMINE (one handler), UNSELECT, SEARCH, NOOP, IDLE — issue no statement
that writes, in any state and whatever the mailbox holds: opening a mailbox, leaving it without CLOSE, searching it and
waiting in it change no flag (`\Recent` included) and nothing else. Plans regenerated from /repo on every run. -/
theorem plan_looking_writes_nothing :
    [(b!"selection.HandleSelect"), (b!"selection.HandleUnselect"), (b!"message.HandleSearch"), (b!"extension.HandleNoop"),
     (b!"extension.HandleIdle")].all (fun f =>
      !(Plan.trace f).isEmpty && !(Plan.trace f).any Plan.isSqlWrite && !(Plan.trace f).any Plan.isDetachedWrite &&
      Plan.free (b!"tx begin") (Plan.trace f)) = true := by
  decide

end Raven.Props.C10
