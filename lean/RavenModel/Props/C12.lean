import RavenModel.Model.Slices
import RavenModel.Model.Search
import RavenModel.Gen.Facts
/-! # C12 — no input can take a service down

Three layers. (1) Over the table of `go` statements regenerated from the source: every goroutine that serves a connection
installs a deferred `recover`, every other goroutine is one of the known accept loops, and the service packages contain no
call that ends the process; with the process model below a panic then ends one connection and nothing else. (2) The
hand-written slicing cores are total functions: no input reaches a slice out of range. (3) The malformed-input sweep with a
canary session (harness/cmd/c12) ties (1) and (2) to the running services and searches for what no model covers. -/
namespace Raven.Props.C12
open Raven Raven.Slices

/-! ## (1) goroutine roots -/
/-- goroutines whose body reads bytes a client sent -/
def isConnRoot (g : Gen.GoFact) : Bool :=
  (g.pkg = (b!"lmtp") && g.target = (b!"s.handleConnection")) ||
  (g.pkg = (b!"sasl") && g.target = (b!"s.handleConnection")) ||
  (g.pkg = (b!"cmd_server") && (g.target = (b!"imapServer.HandleConnection") || g.target = (b!"imapServer.HandleSSLConnection")))

/-- goroutines that only accept connections, wait for signals or run a listener: no client byte reaches them -/
def isInfra (g : Gen.GoFact) : Bool :=
  (g.target = (b!"s.acceptConnections") && (g.pkg = (b!"lmtp") || g.pkg = (b!"sasl"))) ||
  (g.target = (b!"func-literal") && g.inFunc = (b!"main") &&
    (g.pkg = (b!"cmd_server") || g.pkg = (b!"cmd_delivery") || g.pkg = (b!"cmd_sasl")))

/-- every `go` statement of the three services is classified: a new goroutine (say, a helper spawned per IDLE) breaks this
until it is looked at -/
theorem roots_classified : Gen.goroutines.all (fun g => isConnRoot g || isInfra g) = true := by decide

/-- every connection-serving goroutine defers a recover -/
theorem roots_recover : Gen.goroutines.all (fun g => !isConnRoot g || g.recovers) = true := by decide

/-- non-vacuity: the table does contain the connection roots of all three services -/
theorem roots_present : (Gen.goroutines.filter isConnRoot).length = 4 := by decide

/-- no `panic`, `os.Exit`, `log.Fatal*` in the service packages -/
theorem no_exit_calls : Gen.exitCalls.length = 0 := by decide

/-- every loop that takes connections off a listener (IMAP 143 and 993 in cmd/server, LMTP, SASL) goes round again after a
failed `Accept` — out of descriptors, a connection reset before it was accepted — and leaves only through the service's own
shutdown channel: one failed accept does not end the service (regenerated from /repo on every run). -/
theorem accept_loops_persist :
    Gen.acceptLoops.length = 4 ∧ Gen.acceptLoops.all (fun a => !a.leavesOnError && a.continues) = true := by decide

/-! ### what a recover at the root buys (Go's semantics of panic / recover, stated as a model: trusted) -/
structure G where
  id : Nat
  recovers : Bool
  conn : Bool            -- serves a connection (its input is the adversary's)
deriving DecidableEq

structure Proc where
  alive : Bool
  gs : List G

inductive Ev where
  | spawn (g : G)
  | panicIn (id : Nat)   -- a run-time panic (slice out of range, nil map, failed assertion …) inside goroutine `id`
  | finish (id : Nat)

def step (p : Proc) : Ev → Proc
  | .spawn g => { p with gs := g :: p.gs }
  | .finish id => { p with gs := p.gs.filter (·.id ≠ id) }
  | .panicIn id =>
    match p.gs.find? (·.id = id) with
    | some g => if g.recovers then { p with gs := p.gs.filter (·.id ≠ id) } else { alive := false, gs := [] }
    | none => p

/-- panics arise only where client input is processed -/
def connOnly (p : Proc) : Ev → Bool
  | .panicIn id => (p.gs.find? (·.id = id)).all (·.conn)
  | _ => true

def Good (p : Proc) : Prop := p.alive = true ∧ ∀ g ∈ p.gs, g.conn = true → g.recovers = true

theorem step_good (p : Proc) (e : Ev) (h : Good p) (hs : ∀ g, e = .spawn g → g.conn = true → g.recovers = true)
    (hc : connOnly p e = true) : Good (step p e) := by
  obtain ⟨ha, hr⟩ := h
  cases e with
  | spawn g =>
    refine ⟨ha, ?_⟩
    intro x hx hcx
    simp only [step, List.mem_cons] at hx
    rcases hx with rfl | hx
    · exact hs _ rfl hcx
    · exact hr x hx hcx
  | finish id =>
    refine ⟨ha, ?_⟩
    intro x hx hcx
    simp only [step, List.mem_filter] at hx
    exact hr x hx.1 hcx
  | panicIn id =>
    simp only [step]
    cases hf : p.gs.find? (·.id = id) with
    | none => exact ⟨ha, hr⟩
    | some g =>
      have hg : g ∈ p.gs := List.mem_of_find?_eq_some hf
      have hconn : g.conn = true := by simpa [connOnly, hf] using hc
      have := hr g hg hconn
      simp only [this, if_true]
      refine ⟨ha, ?_⟩
      intro x hx hcx
      simp only [List.mem_filter] at hx
      exact hr x hx.1 hcx

/-- a panic in a connection goroutine removes that goroutine and nothing else: every other goroutine is still there -/
theorem panic_is_local (p : Proc) (id : Nat) (h : Good p) (hc : connOnly p (.panicIn id) = true) (g : G) (hg : g ∈ p.gs)
    (hne : g.id ≠ id) : g ∈ (step p (.panicIn id)).gs := by
  simp only [step]
  cases hf : p.gs.find? (·.id = id) with
  | none => exact hg
  | some x =>
    have hx : x ∈ p.gs := List.mem_of_find?_eq_some hf
    have hconn : x.conn = true := by simpa [connOnly, hf] using hc
    simp only [h.2 x hx hconn, if_true, List.mem_filter]
    exact ⟨hg, by simpa using hne⟩

def runEvs : Proc → List Ev → Proc
  | p, [] => p
  | p, e :: es => runEvs (step p e) es

def Admissible : Proc → List Ev → Prop
  | _, [] => True
  | p, e :: es => (∀ g, e = .spawn g → g.conn = true → g.recovers = true) ∧ connOnly p e = true ∧ Admissible (step p e) es

/-- the process outlives every history of spawns, terminations and panics in which connection goroutines are spawned with a
recover (which `roots_recover` establishes for the code) -/
theorem process_survives : ∀ (es : List Ev) (p : Proc), Good p → Admissible p es → (runEvs p es).alive = true
  | [], p, h, _ => h.1
  | e :: es, p, h, ha => process_survives es (step p e) (step_good p e h ha.1 ha.2.1) ha.2.2

example : Good { alive := true, gs := [{ id := 1, recovers := true, conn := true }, { id := 2, recovers := false, conn := false }] } ∧
    Admissible { alive := true, gs := [{ id := 1, recovers := true, conn := true }, { id := 2, recovers := false, conn := false }] }
      [.panicIn 1, .spawn { id := 3, recovers := true, conn := true }, .panicIn 3] := by
  refine ⟨⟨rfl, by decide⟩, ?_⟩
  simp [Admissible, connOnly, step]

/-! ## (2) slicing cores -/
/-- `s[i+len(sub):]` after `i := strings.Index(s, sub)`, `i != -1`, stays inside `s` -/
theorem index_then_slice (sub s : Bytes) (i : Nat) (h : indexSub sub s = some i) :
    (slice s (i + sub.length) s.length).isSome = true ∧ (slice s 0 (i + sub.length)).isSome = true := by
  have := indexSub_bound sub s i h
  constructor <;> (rw [slice_isSome]; omega)

/-- the header / body cuts at the first blank line answer for every message -/
theorem header_body_total (msg : Bytes) : (bodyCut msg).isSome = true ∧ (headerCut msg).isSome = true :=
  ⟨bodyCut_total msg, headerCut_total msg⟩

/-- `BODY[…]<start.len>`: for every payload and every pair of integers (negative, beyond the end, as large as one likes)
the cut is defined… -/
theorem partial_total (p : Bytes) (s l : Int) : (partialCut p s l).isSome = true := partialCut_total p s l

/-- …and for a well-formed range it is exactly the announced octets, labelled with the origin -/
theorem partial_exact (p : Bytes) (s l : Int) (hs : 0 ≤ s) (hl : 0 ≤ l) :
    partialCut p s l = some (some s.toNat, (p.drop s.toNat).take l.toNat) := partialCut_spec p s l hs hl

/-- the address-list parser answers for every header value (`>a<` included) -/
theorem address_total (s : Bytes) : (addressList s).isSome = true := addressList_total s

theorem unquote_total (arg : Bytes) : (unquoteCut arg).isSome = true := unquoteCut_total arg

/-- the SEARCH evaluator is a total function on token lists: a key whose argument or sub-key is missing has no value (an
error answer), there is no index beyond the end of the list (shared with C19) -/
theorem search_total (P : Search.Prim) (m : Search.Mode) (fuel : Nat) (ts : List Search.Tok) :
    Search.evalKeys P m fuel ts = none ∨ ∃ b, Search.evalKeys P m fuel ts = some b := by
  cases h : Search.evalKeys P m fuel ts with
  | none => exact Or.inl rfl
  | some b => exact Or.inr ⟨b, rfl⟩

/-- the cuts on inputs that used to end the process -/
theorem witnesses :
    addressList (b!">a<") = some [([], (b!">a<"), [])] ∧
    partialCut (b!"hello") (-5) 10 = some (none, (b!"hello")) ∧
    partialCut (b!"hello") 1 9223372036854775807 = some (some 1, (b!"ello")) ∧
    partialCut (b!"hello") 7 2 = some (some 7, []) := by decide

/-- address lists: the separating commas, not those inside a quoted display name -/
theorem address_examples :
    addressList (b!"Bob <b@x>, c@y") = some [((b!"Bob"), (b!"b"), (b!"x")), ([], (b!"c"), (b!"y"))] ∧
    addressList (b!"\"Doe, John\" <jd@x>, o@y") = some [((b!"Doe, John"), (b!"jd"), (b!"x")), ([], (b!"o"), (b!"y"))] := by decide

end Raven.Props.C12
