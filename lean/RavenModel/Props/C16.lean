import RavenModel.Model.Lmtp
import RavenModel.Model.LmtpLines
/-! # C16 — the LMTP dialogue stays in step with the client and is transparent to data -/
namespace Raven.Props.C16
open Raven Raven.Lmtp

/-- C16.1 (order and limits)  for **every** byte stream a client may send (pipelined or not, any commands, any data), the
session state always satisfies: a sender is recorded only after LHLO, recipients only after an accepted MAIL, the DATA
phase is entered only with at least one accepted recipient, and there are never more recipients than `max_recipients`. -/
theorem order_and_limits (cfg : Cfg) (env : Env) (input : Bytes) :
    WF cfg (runLines cfg env St.init (lines input)).1 :=
  wf_runLines cfg env St.init _ (wf_init cfg)

/-- C16.1'  the refusals themselves: MAIL before LHLO, RCPT before MAIL, DATA before RCPT are answered 503 and change
nothing; RCPT beyond the limit is answered 452. -/
theorem refusals (cfg : Cfg) (st : St) :
    (st.helo = [] → stepCmd cfg st (b!"MAIL FROM:<a@b>\r\n") = (st, [503])) ∧
    (st.mailFrom = [] → stepCmd cfg st (b!"RCPT TO:<a@b>\r\n") = (st, [503])) ∧
    (st.mailFrom ≠ [] → st.rcpts = [] → stepCmd cfg st (b!"DATA\r\n") = (st, [503])) ∧
    (st.mailFrom ≠ [] → st.rcpts.length ≥ cfg.maxRcpt → stepCmd cfg st (b!"RCPT TO:<a@b>\r\n") = (st, [452])) := by
  refine ⟨?_, ?_, ?_, ?_⟩
  · intro h
    have : stepCmd cfg st (b!"MAIL FROM:<a@b>\r\n") = (if st.helo = [] then (st, [503]) else
        if st.mailFrom ≠ [] then (st, [503]) else ({ st with mailFrom := b!"a@b" }, [250])) := by
      unfold stepCmd; rfl
    rw [this, if_pos h]
  · intro h
    have : stepCmd cfg st (b!"RCPT TO:<a@b>\r\n") = (if st.mailFrom = [] then (st, [503]) else
        if st.rcpts.length ≥ cfg.maxRcpt then (st, [452]) else ({ st with rcpts := st.rcpts ++ [(b!"a@b")] }, [250])) := by
      unfold stepCmd; rfl
    rw [this, if_pos h]
  · intro h1 h2
    have : stepCmd cfg st (b!"DATA\r\n") = (if st.mailFrom = [] then (st, [503]) else
        if st.rcpts = [] then (st, [503]) else ({ st with mode := .data [] 0 false }, [354])) := by
      unfold stepCmd; rfl
    rw [this, if_neg h1, if_pos h2]
  · intro h1 h2
    have : stepCmd cfg st (b!"RCPT TO:<a@b>\r\n") = (if st.mailFrom = [] then (st, [503]) else
        if st.rcpts.length ≥ cfg.maxRcpt then (st, [452]) else ({ st with rcpts := st.rcpts ++ [(b!"a@b")] }, [250])) := by
      unfold stepCmd; rfl
    rw [this, if_neg h1, if_pos h2]

/-- C16.2 (transparency)  in the DATA phase a dot-stuffed body followed by the terminator (`.CRLF` or `.LF`) yields exactly the
body's octets — lines of dots, bare LF, lines that are LMTP commands, anything — as long as it is within the size limit;
no body line reaches the command interpreter. -/
theorem transparent (cfg : Cfg) (env : Env) (st : St) (body : List Bytes) (term : Bytes)
    (hq : st.quit = false) (hm : st.mode = .data [] 0 false)
    (hne : ∀ l ∈ body, l ≠ []) (hterm : isTerm term = true)
    (hsize : (body.flatten).length ≤ cfg.maxSize) :
    runLines cfg env st (stuff body ++ [term]) = endOfData env st (some body.flatten) := by
  have := data_transparent cfg env st body term [] 0 hq hm hne hterm (by omega)
  simpa using this

/-- C16.3 (over-size stays in step)  once the limit is exceeded the rest of the message is still consumed up to the terminator
and the transaction is answered like any other: nothing of the message is executed as a command. -/
theorem oversize_stays_in_step (cfg : Cfg) (env : Env) (st : St) (ls : List Bytes) (term : Bytes) (size : Nat)
    (hq : st.quit = false) (hm : st.mode = .data [] size true)
    (hnt : ∀ l ∈ ls, isTerm l = false) (hterm : isTerm term = true) :
    runLines cfg env st (ls ++ [term]) = endOfData env st none :=
  oversize_in_step cfg env st ls term size hq hm hnt hterm

/-- C16.4  after the terminating dot exactly one reply per accepted recipient is sent, in RCPT order, whatever the message
(parsable or not, over-size or not), and the session is ready for the next transaction. -/
theorem one_reply_per_recipient (env : Env) (st : St) (msg : Option Bytes) :
    (endOfData env st msg).2.length = st.rcpts.length ∧
    (endOfData env st msg).1.mailFrom = [] ∧ (endOfData env st msg).1.rcpts = [] ∧ (endOfData env st msg).1.mode = .cmd :=
  endOfData_replies env st msg

/-- C16.4'  the i-th reply is the outcome for the i-th recipient. -/
theorem replies_in_rcpt_order (env : Env) (st : St) (m : Bytes) (h : env.accept m = true) :
    (endOfData env st (some m)).2 = st.rcpts.map (fun r => if env.deliver m r then 250 else 550) := by
  simp [endOfData, h]

-- non-vacuity: a pipelined session whose body contains a line of dots and an LMTP command
example : run ⟨1000, 2⟩ ⟨fun _ => true, fun _ _ => true⟩
    (b!"LHLO x\r\nMAIL FROM:<a@b>\r\nRCPT TO:<c@d>\r\nRcpt To:<e@f> NOTIFY=NEVER\r\nRCPT TO:<g@h>\r\nDATA\r\nSubject: x\r\n\r\n..\r\nQUIT\r\n.\r\nNOOP\r\n")
    = [220, 250, 250, 250, 250, 250, 250, 250, 250, 452, 354, 250, 250, 250] := by decide

/-- C16.7  the byte stream is read line by line and a line is what lies between two line feeds, **however long it is**: the
reader hands out exactly the lines that were written — none cut in pieces, none merged — and an unterminated tail is no line.
(The end-of-data test and the unstuffing of `runLines` therefore see true line starts only; a reader that hands a long line out
in buffer-sized pieces would test a dot in the middle of a line.) -/
theorem lines_as_written (ls : List Bytes) (tail : Bytes) (h : ∀ l ∈ ls, IsLine l) (ht : (10 : UInt8) ∉ tail) :
    lines (ls.flatten ++ tail) = ls :=
  lines_written ls tail h ht

/-- C16.2' (transparency on the byte stream)  the octets of a dot-stuffed body followed by the terminator yield exactly the
body, for lines of every length -/
theorem transparent_on_bytes (cfg : Cfg) (env : Env) (st : St) (body : List Bytes) (term : Bytes)
    (hq : st.quit = false) (hm : st.mode = .data [] 0 false)
    (hl : ∀ l ∈ body, IsLine l) (hterm : isTerm term = true) (hsize : (body.flatten).length ≤ cfg.maxSize) :
    runLines cfg env st (lines ((stuff body ++ [term]).flatten)) = endOfData env st (some body.flatten) :=
  data_bytes_transparent cfg env st body term hq hm hl hterm hsize

/-- non-vacuity: three lines (one a lone dot, stuffed on the wire), the terminator, and a tail without line end -/
example : lines (b!"ab\r\n..\r\n\n.\r\nQUI") = [(b!"ab\r\n"), (b!"..\r\n"), (b!"\n"), (b!".\r\n")] := by decide

end Raven.Props.C16
