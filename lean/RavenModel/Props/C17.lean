import RavenModel.Model.Policy
/-! # C17 — mail is filed where its recipient and the policy say -/
namespace Raven.Props.C17
open Raven Raven.Policy Raven.GoStr

/-- C17.1  RCPT-time policy = the documented one, for **every** configuration, directory content, recipient count and
address: a recipient is accepted iff the transaction has room (`max_recipients`), its domain is allowed (`allowed_domains`,
empty = all, compared case-insensitively) and — with `reject_unknown_user` — the address is a role mailbox or a user of
that very domain. -/
theorem rcpt_policy_matches_docs (cfg : Cfg) (dir : Dir) (count : Nat) (addr : Bytes) :
    rcptImpl cfg dir count addr = 250 ↔ DocAccept cfg dir count addr :=
  rcpt_accept_iff cfg dir count addr

/-- C17.1'  a refusal is 452 exactly when the transaction is full, otherwise 550 (450 if the address cannot be looked up). -/
theorem rcpt_refusals (cfg : Cfg) (dir : Dir) (count : Nat) (addr : Bytes) :
    rcptImpl cfg dir count addr ∈ [250, 452, 550, 450] ∧ (count ≥ cfg.maxRcpt → rcptImpl cfg dir count addr = 452) :=
  rcpt_refusal_codes cfg dir count addr

/-- C17.2  filing: the folder is Spam exactly when the spam-filter headers mark the message, else the configured default;
the store is the role mailbox's exactly when the address is one, else that user's. -/
theorem filing_exact (cfg : Cfg) (dir : Dir) (rspamd spamStatus : Option Bytes) (addr l d : Bytes)
    (h : splitAddr addr = some (l, d)) :
    (targetFolder cfg rspamd spamStatus = if isSpam rspamd spamStatus then spamFolder else cfg.defaultFolder) ∧
    (dir.isRole addr = true → targetOwner dir addr = some (.role addr)) ∧
    (dir.isRole addr = false → dir.disabled l d = false → targetOwner dir addr = some (.user l d)) := by
  refine ⟨rfl, ?_, ?_⟩
  · intro hr; simp [targetOwner, h, hr]
  · intro hr hd; simp [targetOwner, h, hr, hd]

/-- C17.2'  the spam markers, as documented in storage.go: X-Rspamd-Action ∈ {reject, rewrite subject, add header} or
X-Spam-Status starting with "yes" — case-insensitively and ignoring surrounding blanks. -/
theorem spam_markers :
    isSpam (some (b!" Reject ")) none = true ∧ isSpam (some (b!"ADD HEADER")) none = true ∧
    isSpam (some (b!"rewrite subject")) none = true ∧ isSpam none (some (b!"Yes, score=9.1")) = true ∧
    isSpam (some (b!"no action")) (some (b!"No, score=0.1")) = false ∧ isSpam (some (b!"greylist")) none = false ∧
    isSpam none none = false := by decide

/-- C17.3  the quota decides acceptance as documented ("Enable quota checking", "Quota limit in bytes"): a recipient is
refused for its quota exactly when checking is enabled and what its store holds plus the message exceeds the limit. -/
theorem quota_enforced (cfg : Cfg) (usage size : Nat) : quotaImpl cfg usage size = true ↔ QuotaDoc cfg usage size := by
  unfold quotaImpl QuotaDoc
  cases cfg.quotaEnabled <;> simp

/-- the boundary: exactly at the limit is accepted, one octet more is refused -/
theorem quota_boundary :
    quotaImpl ⟨[], false, 100, 1000, true, 13, b!"INBOX"⟩ 8 5 = true ∧ quotaImpl ⟨[], false, 100, 1000, true, 12, b!"INBOX"⟩ 8 5 = false ∧
    quotaImpl ⟨[], false, 100, 1000, false, 1, b!"INBOX"⟩ 8 5 = true := by decide

/-- C17.3'  with quota checking disabled (the default) the quota never refuses anything, as documented. -/
theorem quota_disabled (cfg : Cfg) (usage size : Nat) (h : cfg.quotaEnabled = false) : QuotaDoc cfg usage size := by
  intro h'; rw [h] at h'; cases h'

/-- C17.4  the size limit: a message of more than `max_size` octets is refused, one of at most `max_size` is not refused
for its size. -/
theorem size_limit (cfg : Cfg) (size : Nat) : sizeOk cfg size = true ↔ size ≤ cfg.maxSize := by
  simp [sizeOk]

/-- C17.5  the letter case of the recipient's domain never matters: two spellings of one address pass the same checks and
are filed in the same store (the local part is taken as written). -/
theorem domain_case_irrelevant (cfg : Cfg) (dir : Dir) (count : Nat) (l d d' : Bytes) (hd : 64 ∉ d) (hd' : 64 ∉ d')
    (h : toLower d = toLower d') :
    rcptWire cfg dir count (l ++ 64 :: d) = rcptWire cfg dir count (l ++ 64 :: d') ∧
    ownerWire dir (l ++ 64 :: d) = ownerWire dir (l ++ 64 :: d') := by
  unfold rcptWire ownerWire
  rw [lowerDomain_at l d hd, lowerDomain_at l d' hd', h]
  exact ⟨rfl, rfl⟩

/-- …and the store is the one of the lower-case spelling: `alice@Example.COM` is `alice` of `example.com`, accepted under
`allowed_domains: [example.com]` (the case that used to be refused, formerly finding C17-F2). -/
theorem domain_case_example :
    ownerWire ⟨fun _ _ => false, fun _ _ => false, fun _ => false⟩ (b!"alice@Example.COM") = some (.user (b!"alice") (b!"example.com")) ∧
    rcptWire ⟨[b!"example.com"], false, 3, 1000, false, 0, b!"INBOX"⟩ ⟨fun _ _ => false, fun _ _ => false, fun _ => false⟩ 0 (b!"alice@Example.COM") = 250 ∧
    rcptWire ⟨[b!"example.com"], false, 3, 1000, false, 0, b!"INBOX"⟩ ⟨fun _ _ => false, fun _ _ => false, fun _ => false⟩ 0 (b!"alice@example.org") = 550 := by
  decide

end Raven.Props.C17
