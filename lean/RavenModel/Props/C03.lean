import RavenModel.Model.Plan
import RavenModel.Model.MailInv
import RavenModel.Model.MailMono
import RavenModel.Model.MailValidity
/-! # C03 — UIDs are unique, ascending and never reused; UIDNEXT tells the truth

Property theorems only; the machine is `Model/Mail.lean`, its invariant `Model/MailInv.lean`.
Every statement quantifies over every clock reading and **every finite history** of the machine's operations
(delivery/APPEND, COPY, UID COPY, STORE incl. Junk/NonJunk moves, EXPUNGE/CLOSE, UID EXPUNGE, CREATE, DELETE,
RENAME incl. INBOX, SUBSCRIBE, UNSUBSCRIBE) from a freshly created store. -/
namespace Raven.Props.C03
open Raven Raven.Mail

/-- the store reached by a history -/
abbrev reach (now : Nat) (ops : List Op) : Store := run (Store.init now) ops

theorem reach_inv (now : Nat) (ops : List Op) : Inv (reach now ops) := inv_run _ ops (inv_init now)

/-- C03.1  within one incarnation of a mailbox, every UID assigned is greater than every UID assigned before
(the ghost log lists assignments newest first). -/
theorem uid_strict_mono (now : Nat) (ops : List Op) :
    (reach now ops).log.Pairwise (fun newer older => newer.inc = older.inc → older.uid < newer.uid) :=
  (reach_inv now ops).logMono

/-- C03.2  no UID is ever given to a second message: the log never contains one `(incarnation, uid)` twice. -/
theorem uid_never_reused (now : Nat) (ops : List Op) :
    ((reach now ops).log.map (fun e => (e.inc, e.uid))).Nodup := by
  have h := uid_strict_mono now ops
  rw [List.Nodup, List.pairwise_map]
  refine h.imp ?_
  intro a b hab heq
  simp only [Prod.mk.injEq] at heq
  have := hab heq.1
  omega

/-- C03.2'  every message listed in a mailbox is there under the UID the log recorded for it. -/
theorem links_are_logged (now : Nat) (ops : List Op) :
    ∀ b ∈ (reach now ops).boxes, ∀ l ∈ b.links, ∃ e ∈ (reach now ops).log, e.inc = b.inc ∧ e.uid = l.uid ∧ e.msg = l.msg :=
  (reach_inv now ops).linkLogged

/-- C03.3  UIDNEXT is greater than every UID in the mailbox and than every UID ever assigned in this incarnation,
and the mailbox is listed in strictly ascending UID order without duplicates. -/
theorem uidnext_truthful (now : Nat) (ops : List Op) :
    ∀ b ∈ (reach now ops).boxes,
      (∀ l ∈ b.links, l.uid < b.uidNext) ∧
      (∀ e ∈ (reach now ops).log, e.inc = b.inc → e.uid < b.uidNext) ∧
      (b.links.map (·.uid)).Pairwise (· < ·) := by
  intro b hb
  have hi := reach_inv now ops
  exact ⟨(hi.box b hb).bound, fun e he h => hi.logBound e he b hb h.symm, (hi.box b hb).asc⟩

/-- C03.4  APPENDUID is truthful: the UID announced for an added message is the UID under which the message is then
found in that mailbox, and it is the UIDNEXT advertised before. -/
theorem appenduid_truthful (s : Store) (n : Bytes) (msg : Nat) (fl : List Bytes) (s' : Store) (u : Nat)
    (h : s.add n msg fl = (s', some u)) :
    ∃ b0, s.find n = some b0 ∧ u = b0.uidNext ∧
      ∃ b ∈ s'.boxes, b.name = n ∧ { uid := u, msg := msg, flags := fl } ∈ b.links := by
  unfold Store.add at h
  cases hf : s.find n with
  | none => simp [hf] at h
  | some b0 =>
    simp only [hf, Prod.mk.injEq, Option.some.injEq] at h
    obtain ⟨rfl, rfl⟩ := h
    refine ⟨b0, rfl, rfl, b0.push msg fl, ?_, ?_, ?_⟩
    · simp only [Store.modify, List.mem_map]
      exact ⟨b0, find_mem hf, by simp [find_name hf]⟩
    · simp [Mbox.push, find_name hf]
    · simp [Mbox.push]

/-- C03.4'  an add to a missing mailbox is refused and changes nothing. -/
theorem add_missing (s : Store) (n : Bytes) (msg : Nat) (fl : List Bytes) (h : s.find n = none) :
    s.add n msg fl = (s, none) := by
  simp [Store.add, h]

/-- C03.5 (full statement)  two different incarnations never show the same `(name, UIDVALIDITY)`. -/
def validity_fresh_full : Prop :=
  ∀ (now : Nat) (ops₁ ops₂ : List Op), ∀ b₁ ∈ (reach now ops₁).boxes, ∀ b₂ ∈ (reach now (ops₁ ++ ops₂)).boxes,
    b₁.name = b₂.name → b₁.validity = b₂.validity → b₁.inc = b₂.inc

/-- C03.5  …proved, for every history and whatever the clock does (also when it stands still or goes back between a DELETE and
the CREATE or RENAME that follows): since repair 090198b a store never issues a UIDVALIDITY twice — the new value is the clock
reading or the successor of the last value issued, whichever is larger (`Store.freshValidity`) — so UIDVALIDITY alone already
identifies the incarnation. Before the repair the value was the clock reading alone and the statement was refuted by
`[create tmp, delete tmp, create tmp]` within one second (finding C03-F1, now closed). -/
theorem validity_fresh : validity_fresh_full := by
  intro now ops₁ ops₂ b₁ hb₁ b₂ hb₂ _ hv
  exact validity_identifies_incarnation now ops₁ ops₂ b₁ hb₁ b₂ hb₂ hv

-- non-vacuity: DELETE and CREATE at the same clock reading give the name another UIDVALIDITY
example : ((reach 7 [.create (b!"tmp") 9]).boxes.map (fun b => (b.name, b.validity))).getLast? = some ((b!"tmp"), 12) ∧
    ((reach 7 [.create (b!"tmp") 9, .delete (b!"tmp"), .create (b!"tmp") 9]).boxes.map (fun b => (b.name, b.validity))).getLast? = some ((b!"tmp"), 13) := by
  decide

/-- C03.6  UIDNEXT never goes back: however the history continues, a mailbox incarnation that is still there advertises a
UIDNEXT at least as large as it did before (so a client that cached UIDNEXT never sees a smaller one under the same
UIDVALIDITY incarnation). -/
theorem uidnext_monotone (now : Nat) (ops more : List Op) :
    ∀ b ∈ (reach now ops).boxes, ∀ b' ∈ (reach now (ops ++ more)).boxes, b'.inc = b.inc → b.uidNext ≤ b'.uidNext := by
  have hrun : reach now (ops ++ more) = run (reach now ops) more := by simp [reach, run, List.foldl_append]
  rw [hrun]
  exact uidNext_le_of_desc (reach_inv now ops) (desc_run more _)

/-- C03.6'  …and every mailbox of the continued history is either such a survivor or a new incarnation, numbered from the
earlier store's counter upwards: an incarnation number is never handed out twice. -/
theorem incarnation_descends (now : Nat) (ops more : List Op) :
    ∀ b' ∈ (reach now (ops ++ more)).boxes,
      (∃ b ∈ (reach now ops).boxes, b.inc = b'.inc ∧ b.uidNext ≤ b'.uidNext) ∨ (reach now ops).nextInc ≤ b'.inc := by
  have hrun : reach now (ops ++ more) = run (reach now ops) more := by simp [reach, run, List.foldl_append]
  rw [hrun]
  exact (desc_run more _).2

-- non-vacuity of C03.6: INBOX survives an EXPUNGE of everything and a RENAME of INBOX with its UIDNEXT intact
example : ((reach 1 [.add (b!"INBOX") 1 [b!"\\Deleted"], .add (b!"INBOX") 2 []]).boxes.map (fun b => (b.inc, b.uidNext))).head? = some (0, 3) ∧
    ((reach 1 ([.add (b!"INBOX") 1 [b!"\\Deleted"], .add (b!"INBOX") 2 []] ++ [.expunge (b!"INBOX"), .rename (b!"INBOX") (b!"Old") 2])).boxes.map
      (fun b => (b.inc, b.uidNext))).head? = some (0, 3) := by decide

-- non-vacuity: a concrete history in which UIDs are assigned by all four routes
example : ((reach 1 [.add (b!"INBOX") 1 [], .add (b!"INBOX") 2 [], .copy (b!"INBOX") [1, 2] (b!"Sent"),
    .store (b!"INBOX") [b!"Junk"] .add [1], .rename (b!"INBOX") (b!"Old") 2, .add (b!"INBOX") 3 []]).log.map (fun e => (e.inc, e.uid)))
    = [(0, 3), (5, 2), (4, 1), (1, 2), (1, 1), (0, 2), (0, 1)] := by decide

/-! ## the statements behind the machine's `add` and `copy` (plan regenerated from /repo on every run) -/

/-- C03.7  a UID is allocated by **one** statement (`UPDATE mailboxes … RETURNING`) directly followed by the insertion of the
link: `AddMessageToMailboxPerUser` issues these two statements and nothing else — no separate read of the counter, no
`MAX(uid)`. This is the `add` step of `Model/Mail` and the allocation step of `Durable`. -/
theorem plan_uid_allocation :
    Plan.sqlOnly (Plan.trace (b!"db.AddMessageToMailboxPerUser")) = [(b!"sql UPDATE mailboxes RETURNING"), (b!"sql INSERT message_mailbox")] := by
  decide

/-- C03.7'  COPY and UID COPY take the new UIDs from the destination's counter inside one transaction (read the counter,
insert the links, write the counter back), never from `MAX(uid)`. -/
theorem plan_copy_from_counter :
    [(b!"message.HandleCopy"), (b!"uid.handleUIDCopy")].all (fun op =>
      let tx := Plan.inTx (Plan.trace op)
      Plan.free (b!"MAX(uid)") tx &&
      Plan.before (Plan.idx (b!"sql SELECT mailboxes") tx) (Plan.idx (b!"sql INSERT message_mailbox") tx) &&
      Plan.before (Plan.idx (b!"sql INSERT message_mailbox") tx) (Plan.idx (b!"sql UPDATE mailboxes") tx)) = true := by
  decide

/-- C03.7''  the UID announced by APPENDUID is **read from the link of the appended message**: in the plan of APPEND the
insertion of the link is followed by a look-up in `message_mailbox` and only then by the tagged OK (a UID derived from the
mailbox's counter — `uid_next - 1` — is another session's UID whenever an addition of that session lands in between). -/
theorem plan_appenduid_from_link :
    let t := Plan.trace (b!"message.HandleAppendWithReader")
    Plan.before (Plan.lastIdx (· = (b!"sql INSERT message_mailbox")) t) (Plan.lastIdx (· = (b!"sql SELECT message_mailbox")) t) = true ∧
    Plan.before (Plan.lastIdx (· = (b!"sql SELECT message_mailbox")) t) (Plan.lastIdx Plan.isAck t) = true := by
  decide

end Raven.Props.C03
