import RavenModel.Model.Resp
import RavenModel.Gen.Facts
/-! # C13 — every IMAP response is well-formed, whatever the stored data

`Resp.readVal` / `readLine` / `readResponse` are the strict reader the harness runs on the server's raw byte stream; the
theorems say that everything built from the token constructors below — with arbitrary content — is accepted by that
reader and decodes to exactly what was put in. -/
namespace Raven.Props.C13
open Raven Raven.Resp

/-- C13.1  reader ∘ renderer = identity on every well-formed token tree — NIL, numbers, atoms, quoted strings (escaped),
literals with **any** octets (CR, LF, parentheses, braces, text that looks like responses), lists nested to any depth —
followed by any delimiter: literal counts are exact and parentheses balance by construction. -/
theorem recognise_render (r : R) (rest : Bytes) (fuel : Nat) (hw : WF r) (hd : isDelim rest = true) (hf : need r ≤ fuel) :
    readVal fuel (render r ++ rest) = some (r, rest) :=
  readVal_render r rest fuel hw hd hf

/-- C13.2  a quoted string with the `\` and `"` of its content escaped is read back exactly, for every content free of CR, LF
and NUL (content with those must travel as a literal: C13.3). -/
theorem quoted_roundtrip (s rest : Bytes) (h : QSafe s) : readQBody (escape s ++ 34 :: rest) = some (s, rest) :=
  readQBody_escape s rest h

/-- C13.3  a literal is followed by exactly the announced number of octets, whatever they are. -/
theorem literal_roundtrip (s rest : Bytes) : readLit (lit s ++ rest) = some (s, rest) :=
  readLit_lit s rest

/-- the nstring builder (`QuoteOrNIL` and the literal fallback): NIL for the empty string, a quoted string when the content is
quote-safe, else a literal -/
def nstring (s : Bytes) : R :=
  if s = [] then .nil else if s.all (fun c => c ≠ 13 ∧ c ≠ 10 ∧ c ≠ 0) then .quoted s else .literal s

/-- C13.2'  every string whatsoever has a well-formed nstring rendering (so any header value, name or address can be sent). -/
theorem nstring_wf (s : Bytes) : WF (nstring s) := by
  unfold nstring
  split
  · trivial
  · split
    · rename_i h
      simp only [WF, QSafe]
      intro c hc
      have := List.all_eq_true.mp h c hc
      simpa using this
    · trivial

/-- a FETCH response body: each requested item's name directly followed by its own value -/
def assemble (items : List (Bytes × R)) : R := .list (items.flatMap (fun p => [R.atom p.1, p.2]))

theorem wfList_flatMap (items : List (Bytes × R)) (h : ∀ p ∈ items, AtomOK p.1 ∧ WF p.2) :
    WFList (items.flatMap (fun p => [R.atom p.1, p.2])) := by
  induction items with
  | nil => trivial
  | cons p ps ih =>
    have hp := h p (by simp)
    simp only [List.flatMap_cons, List.cons_append, List.nil_append, WFList, WF]
    exact ⟨hp.1, hp.2, ih (fun q hq => h q (by simp [hq]))⟩

/-- C13.4  the assembled FETCH data, for every combination of items (several literal-valued ones included), is read back as the
same list: every requested item appears once, in order, directly followed by its own value. -/
theorem fetch_assembly_wf (items : List (Bytes × R)) (rest : Bytes) (fuel : Nat)
    (h : ∀ p ∈ items, AtomOK p.1 ∧ WF p.2) (hd : isDelim rest = true) (hf : need (assemble items) ≤ fuel) :
    readVal fuel (render (assemble items) ++ rest) = some (assemble items, rest) :=
  readVal_render _ rest fuel (by simp only [assemble, WF]; exact wfList_flatMap items h) hd hf

-- non-vacuity: two literal-valued items, the second containing text that looks like a response
example : readVal 20 (render (assemble [((b!"BODY[HEADER]"), .literal (b!"A: b\r\n\r\n")), ((b!"UID"), .num 7)]) ++ [13, 10])
    = some (assemble [((b!"BODY[HEADER]"), .literal (b!"A: b\r\n\r\n")), ((b!"UID"), .num 7)], [13, 10]) := by
  apply readVal_render
  · simp only [assemble, WF, List.flatMap_cons, List.flatMap_nil, List.cons_append, List.nil_append, List.append_nil, WFList, AtomOK]
    decide
  · decide
  · decide

/-- C13.7  nothing the three protocol services send is produced by Go's own string quoting (`strconv.Quote…`, the `%q` verb):
its escapes (`\x..`, `\u....`, `\t`) put a backslash in front of characters that are not quoted-specials, which a strict
reader refuses; what is quoted goes through the escaping that `quoted_roundtrip` is about. Regenerated from /repo on every
run. -/
theorem no_go_quoting : Raven.Gen.goQuoting = [] := by decide

end Raven.Props.C13
