import RavenModel.Model.Blob
import RavenModel.Gen.Facts
import RavenModel.Model.Plan
/-! # C15 — out-of-line blob storage and de-duplication are invisible to readers -/
namespace Raven.Props.C15
open Raven Raven.Blob

/-- C15.1  for every sequence of stored parts, a part reads back the text of the first part ever stored under its key… -/
theorem reads_first_writer (ps : List Part) (k : Nat) : read (storeAll ps) k = firstText ps k := read_storeAll ps k

/-- C15.1'  …hence its own text whenever equal keys (equal decoded content) mean equal encoded text. -/
theorem no_fault_readback_partial (ps : List Part)
    (hno : ∀ p ∈ ps, ∀ q ∈ ps, p.key = q.key → p.text = q.text) (p : Part) (hp : p ∈ ps) :
    read (storeAll ps) p.key = some p.text := readback_own ps hno p hp

/-- the unconditional statement is false (finding C15-F1, pinned by six unit tests that require cross-encoding de-duplication) -/
theorem cross_encoding_refuted : read (storeAll [⟨7, 100⟩, ⟨7, 200⟩]) 7 = some 100 := by decide

/-- C15.2  identical content is stored once with a reference count equal to its users: after any sequence of stores the count
of a key is the number of parts stored under it. -/
theorem refcount_exact (ps : List Part) (k : Nat) : refs (storeAll ps) k = (ps.filter (fun p => p.key == k)).length :=
  refs_storeAll ps k

/-- placement rule: a part goes out of line iff it is larger than the threshold or carries a file name -/
def outOfLine (threshold size : Nat) (hasName : Bool) : Bool := size > threshold || hasName

/-- storing with fallback: S3, else the local blob table, else inline; `none` never happens — a store fault moves the content to
another place, it never yields a link to missing content -/
inductive Place where | s3 | localBlob | inline
deriving DecidableEq, Repr
def place (s3Enabled s3Ok localOk : Bool) : Place :=
  if s3Enabled && s3Ok then .s3 else if localOk then .localBlob else .inline

/-- C15.3  a fault while storing falls back to another place: every fault combination has a placement, and a placement in S3
or in the blob table is chosen only when that backend accepted the content. -/
theorem store_fault_safe (s3Enabled s3Ok localOk : Bool) :
    (place s3Enabled s3Ok localOk = .s3 → s3Enabled = true ∧ s3Ok = true) ∧
    (place s3Enabled s3Ok localOk = .localBlob → localOk = true) := by
  cases s3Enabled <;> cases s3Ok <;> cases localOk <;> simp [place]

/-- what a reader gets for a part: its stored text, a reported error, or — silently — nothing -/
inductive ReadOut where | content | error | empty
deriving DecidableEq, Repr

/-- reading a part (`parser.LoadBlobContent`, used by the reconstruction of the whole message and by section fetches alike):
inline text and the blob table are always at hand; an object is at hand when the reader has the object store and the store
hands it out; otherwise the read is an error, which FETCH reports (tagged NO, nothing sent for the message). -/
def readPart (pl : Place) (readerS3 objOk : Bool) : ReadOut :=
  match pl with
  | .inline => .content
  | .localBlob => .content
  | .s3 => if readerS3 && objOk then .content else .error

/-- the three read sites before repair: an object that could not be read was skipped -/
def readPartOld (pl : Place) (readerS3 objOk : Bool) : ReadOut :=
  match pl with
  | .inline => .content
  | .localBlob => .content
  | .s3 => if readerS3 && objOk then .content else .empty

/-- C15.4  a failure while reading is reported as an error, never as silently empty content: for every placement, reader
configuration and object-store answer the outcome is the content or an error, and it is an error exactly when the part lives
in the object store and the reader has no object store or the store does not hand the object out. -/
theorem read_fault_reported (pl : Place) (readerS3 objOk : Bool) :
    readPart pl readerS3 objOk ≠ .empty ∧
    (readPart pl readerS3 objOk = .error ↔ (pl = .s3 ∧ (readerS3 = false ∨ objOk = false))) := by
  cases pl <;> cases readerS3 <;> cases objOk <;> simp [readPart]

/-- …which was false before the repair (finding C15-F2 until then): a missing object, and an object store the reader does not
have, both read as nothing. -/
theorem old_read_silently_empty : readPartOld .s3 true false = .empty ∧ readPartOld .s3 false true = .empty := by decide

/-- C15.4'  the code has one place that reads from the object store, and it hands the error on (regenerated from /repo on
every run: every call of `Retrieve`, and whether it is followed by `if err != nil { return …, err }`) — a new read site, or
one that looks at the error only to skip the content, breaks this. -/
theorem read_errors_handed_on : Gen.retrieveSites = [((b!"parser.LoadBlobContent"), true)] := by decide

/-- C15.5  content that is shared is never taken away under a reader: removing messages — EXPUNGE, UID EXPUNGE, CLOSE, DELETE
of a mailbox — touches no row of the shared blob table (the message rows that reference the content stay, and so does the
content; `refcount_exact` counts stores, nothing decrements). A removal that released blob references by the wrong key would
empty *another* store's messages. Plans regenerated from /repo on every run. -/
theorem plan_removal_keeps_blobs :
    [(b!"message.HandleExpunge"), (b!"uid.handleUIDExpunge"), (b!"selection.HandleClose"), (b!"mailbox.HandleDelete")].all (fun f =>
      !(Plan.trace f).isEmpty && Plan.free (b!"blobs") (Plan.trace f) && Plan.free (b!"Blob") (Plan.trace f)) = true := by
  decide

/-- C15.6  a row id is taken only from an insert that inserts: every `LastInsertId()` in the database layer follows a plain
`INSERT` — not `INSERT OR IGNORE`, not `… ON CONFLICT …`, after which SQLite's last row id is that of some *earlier* insert on
the connection (another user's blob, another user's account). The de-duplicating paths look the existing row up instead.
Regenerated from /repo on every run; ten sites (blobs, messages, parts, mailboxes, users, domains, role mailboxes). -/
theorem ids_from_plain_inserts :
    Gen.insertIds.all (fun r => r.2 = (b!"plain")) = true ∧ Gen.insertIds.length = 10 ∧
    Gen.insertIds.any (fun r => r.1 = (b!"db.StoreBlobWithEncoding")) = true ∧
    Gen.insertIds.any (fun r => r.1 = (b!"db.GetOrCreateUserInitialized")) = true := by decide

end Raven.Props.C15
