import RavenModel.Model.Plan
import RavenModel.Model.Durable
/-! # C07 — a crash at any instant leaves usable stores and keeps acknowledged work -/
namespace Raven.Props.C07
open Raven.Durable

/-- C07.1–3  for every sequence of statement commits of any number of sessions **and crashes at any point between them**:
every message listed in the mailbox is complete (its message and part rows were all committed before its link), UIDs — linked
or allocated — are distinct and below UIDNEXT, every acknowledged addition is listed, exactly once, and no session is refused. -/
theorem crash_anywhere (evs : List Ev) : Inv (evs.foldl step init) := inv_run evs

/-- listed ⇒ complete, spelled out -/
theorem listed_is_complete (evs : List Ev) : ∀ l ∈ (evs.foldl step init).links, complete (evs.foldl step init) l.2 :=
  (inv_run evs).visibleComplete

/-- acknowledged ⇒ still there after any later crashes -/
theorem ack_durable (evs : List Ev) (c : Nat) (h : c ∈ (evs.foldl step init).acked) :
    ∃ u, (u, c) ∈ (evs.foldl step init).links :=
  (inv_run evs).ackedLinked c h

/-- the UID rules survive: linked UIDs are distinct and below UIDNEXT -/
theorem uid_rules (evs : List Ev) :
    ((evs.foldl step init).links.map (·.1)).Nodup ∧ ∀ u ∈ (evs.foldl step init).links.map (·.1), u < (evs.foldl step init).uidNext := by
  have h := inv_run evs
  exact ⟨(List.nodup_append.mp h.uidsNodup).2.1, fun u hu => h.uidsLt u (List.mem_append_right _ hu)⟩

/-- a crash loses only what was volatile: with no statement sequence in flight it changes nothing (a clean stop and restart
loses nothing) -/
theorem clean_restart_identity (s : St) (h : s.active = []) : step s .crash = s := by
  cases s; simp_all [step]

/-- acknowledged work and the mailbox are never touched by a crash -/
theorem crash_keeps_durable (s : St) :
    (step s .crash).links = s.links ∧ (step s .crash).acked = s.acked ∧ (step s .crash).uidNext = s.uidNext ∧ (step s .crash).msgs = s.msgs := by
  simp [step]

/-- C07.4  store creation is restartable: killed after any number k of its commits, the next open completes it -/
theorem creation_restartable (n k : Nat) : usable n (openDb n (crashedAt n k)) = true := by
  unfold openDb crashedAt usable
  by_cases h : k > n
  · have : min k n = n := by omega
    simp [h, this]
  · simp [h]

/-- …which the earlier rule did not achieve: a kill after one of five commits left the store unusable for good -/
theorem old_rule_refuted : usable 5 (openDbOld 5 (crashedAt 5 1)) = false := by decide

/-- non-vacuity: a run with two sessions, a crash in the middle of the second and a retry -/
example : (([Ev.start 1, .adv 1, .adv 1, .start 2, .adv 2, .adv 1, .crash, .start 3, .adv 3, .adv 3, .adv 3] : List Ev).foldl step init).links = [(2, 3), (1, 1)] ∧
    (([Ev.start 1, .adv 1, .adv 1, .start 2, .adv 2, .adv 1, .crash, .start 3, .adv 3, .adv 3, .adv 3] : List Ev).foldl step init).acked = [3, 1] := by decide

/-! ## acknowledged ⇒ committed, in the code's own statement order (plan regenerated from /repo on every run) -/

/-- the operations whose acknowledgement the property protects -/
def ackedOps : List Raven.Bytes :=
  [(b!"lmtp.handleDATA"), (b!"message.HandleAppendWithReader"), (b!"message.HandleCopy"), (b!"uid.handleUIDCopy"),
   (b!"message.HandleStore"), (b!"message.HandleExpunge"), (b!"uid.handleUIDExpunge"), (b!"selection.HandleClose"),
   (b!"mailbox.HandleCreate"), (b!"mailbox.HandleDelete"), (b!"mailbox.HandleRename"), (b!"mailbox.HandleSubscribe"),
   (b!"mailbox.HandleUnsubscribe")]

/-- C07.9  in the plan of every acknowledged operation the last write precedes the acknowledgement, every transaction that
is begun is committed in line before it, and no write or commit sits in a deferred call or a goroutine: when the client reads
`250` / the tagged `OK`, every statement of the operation has been committed (the `ack` event of `Durable` is the last step). -/
theorem plan_ack_after_commit : ackedOps.all (fun op => Raven.Plan.ackAfterCommit (Raven.Plan.trace op)) = true := by decide

/-- C07.9'  both ways of adding a message (delivery, APPEND) perform the steps of the machine in the machine's order:
message row, part rows, UID allocation, link row, acknowledgement. -/
theorem plan_machine_order :
    Raven.Plan.deliveryOrder (Raven.Plan.trace (b!"lmtp.handleDATA")) = true ∧
    Raven.Plan.deliveryOrder (Raven.Plan.trace (b!"message.HandleAppendWithReader")) = true := by decide

/-- C07.10  opening a store — a process's first contact with it: after a crash, after a restart, or while another process is
in the middle of an operation on it — creates what is missing and **deletes and rewrites nothing**; whether the store is
complete is decided by the marker (`userDBInitialized`) before anything is created. -/
theorem plan_open_deletes_nothing :
    [(b!"db.DBManager.GetUserDB"), (b!"db.DBManager.GetRoleMailboxDB"), (b!"db.DBManager.initUserDB")].all (fun f =>
      let t := Raven.Plan.trace f
      !t.isEmpty && Raven.Plan.free (b!"sql DELETE") t && Raven.Plan.free (b!"sql UPDATE") t && Raven.Plan.free (b!"sql DROP") t) = true ∧
    [(b!"db.DBManager.GetUserDB"), (b!"db.DBManager.GetRoleMailboxDB")].all (fun f =>
      Raven.Plan.before (Raven.Plan.idx (b!"call db.userDBInitialized") (Raven.Plan.trace f))
        (Raven.Plan.idx (b!"call db.DBManager.initUserDB") (Raven.Plan.trace f))) = true := by
  decide

/-- C07.11  every statement that creates a table or an index of a store is repeatable (`… IF NOT EXISTS`): `creation_restartable`
completes an interrupted creation by running it again, which is sound only if no step fails the second time. -/
theorem plan_creation_repeatable :
    ((Raven.Plan.trace (b!"db.DBManager.initUserDB")).filter (fun e => Raven.GoStr.hasPrefix e (b!"sql CREATE"))).all
      (fun e => e = (b!"sql CREATE TABLE IF") || e = (b!"sql CREATE INDEX IF") || e = (b!"sql CREATE UNIQUE INDEX")) = true ∧
    10 ≤ ((Raven.Plan.trace (b!"db.DBManager.initUserDB")).filter (fun e => Raven.GoStr.hasPrefix e (b!"sql CREATE"))).length := by
  decide

end Raven.Props.C07
