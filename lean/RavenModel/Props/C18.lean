import RavenModel.Model.Lsub
import RavenModel.Model.ListMatch
/-! # C18 — LIST/LSUB wildcard matching follows RFC 3501 and stays polynomial

Property theorems only. Model: `Model/Wildcard.lean` (the backtracking recursion the pinned tree had),
`Model/WildcardDP.lean` (the table-driven `doWildcardMatch`), `Model/ListMatch.lean`
(`MatchWildcard`, `BuildCanonicalPattern`, `FilterMailboxes`). -/
namespace Raven.Props.C18
open Raven Wild ListMatch

/-- C18.1  the matcher accepts exactly the RFC 3501 relation (`*` any string, `%` any string without
the delimiter, every other octet itself), INBOX case-insensitively — all patterns, all names. -/
theorem match_iff_rfc (name pattern : Bytes) :
    matchWildcard name pattern = true ↔ Matches (normInbox pattern) (normInbox name) :=
  matchWildcard_iff name pattern

/-- C18.1'  the table-driven matcher and the backtracking recursion it replaced agree on every input
(the repair changed cost, not meaning). -/
theorem table_eq_backtracking (p t : Bytes) : dpMatch p t = wmatch p t := by
  rw [dpMatch_eq_wm, wm_eq_wmatch]

/-- C18.2  `FilterMailboxes` returns exactly the listed names matching reference+pattern, plus INBOX when
the upper-cased canonical pattern matches it and no listed match is INBOX already. -/
theorem filter_exact (mbs : List Bytes) (ref pat n : Bytes) :
    n ∈ filter mbs ref pat ↔
      (n ∈ mbs ∧ MatchesCI (canonical ref pat) n) ∨
      (n = inbox ∧ MatchesCI (toUpper (canonical ref pat)) inbox ∧
        ∀ m ∈ mbs, MatchesCI (canonical ref pat) m → toUpper m ≠ inbox) :=
  mem_filter mbs ref pat n

/-- C18.3  cost: the matcher writes exactly `(|pattern|+1)·(|name|+1)` table cells — polynomial. -/
theorem cost_polynomial (p t : Bytes) : cellsWritten p t = (p.length + 1) * (t.length + 1) :=
  cellsWritten_eq p t

/-- the result is read off the table whose cells are counted in `cost_polynomial` -/
theorem result_from_table (p t : Bytes) : dpMatch p t = hd ((dpRows p t).headD []) := by
  rw [dpRows_head]; rfl

-- non-vacuity: concrete instances of the relation, decided through the theorem
example : Matches (b!"a/%/*x") (b!"a/bc/d/ex") :=
  (dpMatch_iff _ _).mp (by decide)
example : ¬ Matches (b!"a/%") (b!"a/b/c") :=
  fun h => absurd ((dpMatch_iff _ _).mpr h) (by decide)
example : matchWildcard (b!"inbox") (b!"InBoX") = true := by decide

/-! ## LSUB: subscribed matches and implied parents (`Model/Lsub`) -/

/-- C18.6  the names `HandleLsub` announces as `\Noselect` are exactly the implied parents of RFC 3501 6.3.9: for a pattern
with `%`, the names that are not subscribed themselves, match reference + pattern, and are a proper ancestor (a leading run
of hierarchy components) of a subscribed name — at whatever depth below whatever subscribed ancestor. -/
theorem lsub_implied_exact (subs : List Bytes) (ref pat p : Bytes) :
    p ∈ Lsub.implied subs ref pat ↔
      pat.contains Lsub.pct = true ∧ p ∉ subs ∧ MatchesCI (canonical ref pat) p ∧ ∃ m ∈ subs, Lsub.ProperAncestor p m :=
  Lsub.mem_implied subs ref pat p

-- non-vacuity: `w` and `w/p/q/r` subscribed, the two levels between them not: `w/%` shows `w/p`, `w/%/%` shows `w/p/q`
example : Lsub.implied [(b!"w"), (b!"w/p/q/r")] [] (b!"w/%") = [(b!"w/p")] ∧
    Lsub.implied [(b!"w"), (b!"w/p/q/r")] [] (b!"w/%/%") = [(b!"w/p/q")] ∧
    Lsub.implied [(b!"w"), (b!"w/p/q/r")] (b!"w/p/") (b!"%") = [(b!"w/p/q")] ∧
    Lsub.implied [(b!"w"), (b!"w/p/q/r")] [] (b!"*") = [] := by decide

end Raven.Props.C18
