import RavenModel.Model.ListMatch
/-! # C18 — LIST/LSUB wildcard matching follows RFC 3501 and stays polynomial

Property theorems only. Model: `Model/Wildcard.lean` (the backtracking recursion the pinned tree had),
`Model/WildcardDP.lean` (the table-driven `doWildcardMatch`), `Model/ListMatch.lean`
(`MatchWildcard`, `BuildCanonicalPattern`, `FilterMailboxes`). -/
namespace Raven.Props.C18
open Raven Wild ListMatch

/-- C18.1  the matcher accepts exactly the RFC 3501 relation (`*` any string, `%` any string without
the delimiter, every other octet itself), INBOX case-insensitively — all patterns, all names. -/
theorem match_iff_rfc (name pattern : Bytes) :
    matchWildcard name pattern = true ↔ Matches (normInbox pattern) (normInbox name) :=
  matchWildcard_iff name pattern

/-- C18.1'  the table-driven matcher and the backtracking recursion it replaced agree on every input
(the repair changed cost, not meaning). -/
theorem table_eq_backtracking (p t : Bytes) : dpMatch p t = wmatch p t := by
  rw [dpMatch_eq_wm, wm_eq_wmatch]

/-- C18.2  `FilterMailboxes` returns exactly the listed names matching reference+pattern, plus INBOX when
the upper-cased canonical pattern matches it and no listed match is INBOX already. -/
theorem filter_exact (mbs : List Bytes) (ref pat n : Bytes) :
    n ∈ filter mbs ref pat ↔
      (n ∈ mbs ∧ MatchesCI (canonical ref pat) n) ∨
      (n = inbox ∧ MatchesCI (toUpper (canonical ref pat)) inbox ∧
        ∀ m ∈ mbs, MatchesCI (canonical ref pat) m → toUpper m ≠ inbox) :=
  mem_filter mbs ref pat n

/-- C18.3  cost: the matcher writes exactly `(|pattern|+1)·(|name|+1)` table cells — polynomial. -/
theorem cost_polynomial (p t : Bytes) : cellsWritten p t = (p.length + 1) * (t.length + 1) :=
  cellsWritten_eq p t

/-- the result is read off the table whose cells are counted in `cost_polynomial` -/
theorem result_from_table (p t : Bytes) : dpMatch p t = hd ((dpRows p t).headD []) := by
  rw [dpRows_head]; rfl

-- non-vacuity: concrete instances of the relation, decided through the theorem
example : Matches (b!"a/%/*x") (b!"a/bc/d/ex") :=
  (dpMatch_iff _ _).mp (by decide)
example : ¬ Matches (b!"a/%") (b!"a/b/c") :=
  fun h => absurd ((dpMatch_iff _ _).mpr h) (by decide)
example : matchWildcard (b!"inbox") (b!"InBoX") = true := by decide

end Raven.Props.C18
