import RavenModel.Model.Proto
import RavenModel.Model.Mail
/-! Several stores (one per user, one per role mailbox) and which of them a session's command may reach (C05). -/
namespace Raven.World
open Raven Raven.Gen Raven.Mail

inductive Owner where
  | user (id : Nat)
  | role (id : Nat)
deriving Repr, DecidableEq

structure World where
  store : Owner → Store

def World.update (w : World) (o : Owner) (f : Store → Store) : World :=
  { store := fun o' => if o' = o then f (w.store o') else w.store o' }

theorem update_frame (w : World) (o o' : Owner) (f : Store → Store) (h : o' ≠ o) : (w.update o f).store o' = w.store o' := by
  simp [World.update, h]

theorem update_same (w : World) (o : Owner) (f : Store → Store) : (w.update o f).store o = f (w.store o) := by
  simp [World.update]

structure Sess where
  uid : Nat
  sel : Option (Owner × Bytes)      -- owner and mailbox chosen by the last successful SELECT / EXAMINE
deriving Repr

/-- which store an accessor call opens: `GetSelectedDB(state)` the selected owner's, `GetUserDB(state.UserID)` the
session user's; the shared database holds no mailbox -/
def ownerOf (sess : Sess) : Kind → Option Owner
  | .selected => sess.sel.map (·.1)
  | .user => some (.user sess.uid)
  | .userOther => none
  | .shared => none
  | .role => none

/-- SELECT / EXAMINE of a path: `Roles/<address>/<mailbox>` opens that role mailbox's store iff the role exists and is
assigned to the user at this moment; any other name is the user's own (`HandleSelect`) -/
structure Dir where
  roleOf : Bytes → Option Nat            -- enabled role mailbox with this address
  assigned : Nat → Nat → Bool            -- user, role

def rolesPrefix : Bytes := b!"Roles/"

def selectTarget (dir : Dir) (uid : Nat) (path : Bytes) : Option (Owner × Bytes) :=
  if GoStr.hasPrefix path rolesPrefix then
    match GoStr.splitOn b_slash path with
    | _ :: addr :: m :: rest =>
      match dir.roleOf addr with
      | none => none
      | some r => if dir.assigned uid r then some (.role r, GoStr.joinWith b_slash (m :: rest)) else none
    | _ => none
  else some (.user uid, path)

/-- a selection, if any, designates the user's own store or a role store that was assigned to the user when selected -/
theorem select_authorised (dir : Dir) (uid : Nat) (path : Bytes) (o : Owner) (m : Bytes)
    (h : selectTarget dir uid path = some (o, m)) :
    o = .user uid ∨ ∃ r, o = .role r ∧ dir.assigned uid r = true := by
  unfold selectTarget at h
  split at h
  · split at h
    · split at h
      · cases h
      · split at h
        · rename_i r _ ha
          simp only [Option.some.injEq, Prod.mk.injEq] at h
          exact Or.inr ⟨r, h.1.symm, ha⟩
        · cases h
    · cases h
  · simp only [Option.some.injEq, Prod.mk.injEq] at h
    exact Or.inl h.1.symm

/-! ## the connection: who is logged in and what that identity selected

Events of one connection as the dispatcher sees them. The directory of role assignments changes under the session's feet
(`assign`), the session itself logs in, selects and unselects. `Conn.sel` remembers, next to the selection, the directory
as it was at the moment of the SELECT (a ghost: the code keeps only the ids). -/
inductive CEv where
  | login (uid : Nat) (ok : Bool)        -- LOGIN / AUTHENTICATE with the backend's verdict
  | select (path : Bytes)                -- SELECT / EXAMINE
  | unselect                             -- CLOSE / UNSELECT
  | assign (dir : Dir)                   -- the administrator changes assignments: the directory is now `dir`

structure Conn where
  uid : Option Nat                               -- none: not authenticated
  sel : Option (Owner × Bytes × Dir)             -- the selection and the directory it was made under
  dir : Dir

/-- `strict = true`: LOGIN is refused once the connection is authenticated (RFC 3501: valid only in the not-authenticated
state) — the code as repaired. `strict = false`: what the code did before: a second successful LOGIN replaces the identity
and leaves the selection of the first in place. -/
def cstep (strict : Bool) (c : Conn) : CEv → Conn
  | .login u ok =>
    match c.uid with
    | none => if ok then { c with uid := some u } else c
    | some _ => if strict then c else (if ok then { c with uid := some u } else c)
  | .select path =>
    match c.uid with
    | none => c
    | some u =>
      match selectTarget c.dir u path with
      | some (o, m) => { c with sel := some (o, m, c.dir) }
      | none => { c with sel := none }            -- a failed SELECT leaves nothing selected
  | .unselect => { c with sel := none }
  | .assign d => { c with dir := d }

def crun (strict : Bool) (c : Conn) : List CEv → Conn
  | [] => c
  | e :: es => crun strict (cstep strict c e) es

/-- the selection belongs to the identity the connection holds now: its own store, or a role store assigned to it when it
selected; and nothing is selected on a connection nobody is logged in on -/
def ConnOK (c : Conn) : Prop :=
  match c.sel with
  | none => True
  | some (o, _, d) => ∃ u, c.uid = some u ∧ (o = .user u ∨ ∃ r, o = .role r ∧ d.assigned u r = true)

theorem cstep_ok (c : Conn) (e : CEv) (h : ConnOK c) : ConnOK (cstep true c e) := by
  cases e with
  | login u ok =>
    unfold cstep
    cases hu : c.uid with
    | none =>
      -- nobody logged in: nothing is selected
      have hs : c.sel = none := by
        unfold ConnOK at h
        cases hsel : c.sel with
        | none => rfl
        | some x => obtain ⟨o, m, d⟩ := x; simp only [hsel] at h; obtain ⟨u', hu', _⟩ := h; rw [hu] at hu'; cases hu'
      by_cases hok : ok = true
      · simp only [hok, if_true]; unfold ConnOK; simp [hs]
      · simp only [hok]; exact h
    | some v => simpa using h
  | select path =>
    unfold cstep
    cases hu : c.uid with
    | none => exact h
    | some u =>
      simp only []
      cases ht : selectTarget c.dir u path with
      | none => unfold ConnOK; simp
      | some x =>
        obtain ⟨o, m⟩ := x
        unfold ConnOK
        simp only []
        exact ⟨u, rfl, select_authorised c.dir u path o m ht⟩
  | unselect => unfold cstep ConnOK; simp
  | assign d =>
    unfold cstep ConnOK
    unfold ConnOK at h
    cases hsel : c.sel with
    | none => simp
    | some x => obtain ⟨o, m, d'⟩ := x; simp only [hsel] at h ⊢; exact h

theorem crun_ok (c : Conn) (es : List CEv) (h : ConnOK c) : ConnOK (crun true c es) := by
  induction es generalizing c with
  | nil => exact h
  | cons e es ih => exact ih _ (cstep_ok c e h)

def Conn.fresh (d : Dir) : Conn := { uid := none, sel := none, dir := d }

end Raven.World
