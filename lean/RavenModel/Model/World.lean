import RavenModel.Model.Proto
import RavenModel.Model.Mail
/-! Several stores (one per user, one per role mailbox) and which of them a session's command may reach (C05). -/
namespace Raven.World
open Raven Raven.Gen Raven.Mail

inductive Owner where
  | user (id : Nat)
  | role (id : Nat)
deriving Repr, DecidableEq

structure World where
  store : Owner → Store

def World.update (w : World) (o : Owner) (f : Store → Store) : World :=
  { store := fun o' => if o' = o then f (w.store o') else w.store o' }

theorem update_frame (w : World) (o o' : Owner) (f : Store → Store) (h : o' ≠ o) : (w.update o f).store o' = w.store o' := by
  simp [World.update, h]

theorem update_same (w : World) (o : Owner) (f : Store → Store) : (w.update o f).store o = f (w.store o) := by
  simp [World.update]

structure Sess where
  uid : Nat
  sel : Option (Owner × Bytes)      -- owner and mailbox chosen by the last successful SELECT / EXAMINE
deriving Repr

/-- which store an accessor call opens: `GetSelectedDB(state)` the selected owner's, `GetUserDB(state.UserID)` the
session user's; the shared database holds no mailbox -/
def ownerOf (sess : Sess) : Kind → Option Owner
  | .selected => sess.sel.map (·.1)
  | .user => some (.user sess.uid)
  | .userOther => none
  | .shared => none
  | .role => none

/-- SELECT / EXAMINE of a path: `Roles/<address>/<mailbox>` opens that role mailbox's store iff the role exists and is
assigned to the user at this moment; any other name is the user's own (`HandleSelect`) -/
structure Dir where
  roleOf : Bytes → Option Nat            -- enabled role mailbox with this address
  assigned : Nat → Nat → Bool            -- user, role

def rolesPrefix : Bytes := b!"Roles/"

def selectTarget (dir : Dir) (uid : Nat) (path : Bytes) : Option (Owner × Bytes) :=
  if GoStr.hasPrefix path rolesPrefix then
    match GoStr.splitOn b_slash path with
    | _ :: addr :: m :: rest =>
      match dir.roleOf addr with
      | none => none
      | some r => if dir.assigned uid r then some (.role r, GoStr.joinWith b_slash (m :: rest)) else none
    | _ => none
  else some (.user uid, path)

/-- a selection, if any, designates the user's own store or a role store that was assigned to the user when selected -/
theorem select_authorised (dir : Dir) (uid : Nat) (path : Bytes) (o : Owner) (m : Bytes)
    (h : selectTarget dir uid path = some (o, m)) :
    o = .user uid ∨ ∃ r, o = .role r ∧ dir.assigned uid r = true := by
  unfold selectTarget at h
  split at h
  · split at h
    · split at h
      · cases h
      · split at h
        · rename_i r _ ha
          simp only [Option.some.injEq, Prod.mk.injEq] at h
          exact Or.inr ⟨r, h.1.symm, ha⟩
        · cases h
    · cases h
  · simp only [Option.some.injEq, Prod.mk.injEq] at h
    exact Or.inl h.1.symm

end Raven.World
