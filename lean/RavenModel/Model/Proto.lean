import RavenModel.Gen.Facts
/-! The IMAP protocol state machine as far as store access is concerned, assembled from the regenerated tables
(`Gen.commands`: per command every database accessor reachable from its handler with the guards that dominate it;
`Gen.authEvents`: where a session becomes authenticated and whether a TLS check dominates it). -/
namespace Raven.Proto
open Raven Raven.Gen

structure State where
  tls : Bool
  authed : Bool
  selected : Bool
  readOnly : Bool
deriving Repr, DecidableEq

/-- can this accessor call execute in state `s`? Its dominating guards must hold. -/
def Access.enabled (s : State) (a : Access) : Bool :=
  (!a.guards.auth || s.authed) && (!a.guards.sel || s.selected) && (!a.guards.rw || !s.readOnly)

/-- the accessor calls a command can reach in state `s` -/
def reach (s : State) (c : Command) : List Access := c.accesses.filter (Access.enabled s)

def isLoginCmd (c : Command) : Bool := !c.uidSub && (c.name = b!"LOGIN" || c.name = b!"AUTHENTICATE")

/-- RFC 3501 selected-state commands -/
def selectedStateNames : List Bytes :=
  [(b!"FETCH"), (b!"SEARCH"), (b!"STORE"), (b!"COPY"), (b!"IDLE"), (b!"CHECK"), (b!"CLOSE"), (b!"EXPUNGE"), (b!"UID"), (b!"UNSELECT")]
def isSelectedStateCmd (c : Command) : Bool := c.uidSub || selectedStateNames.contains c.name

/-! ## facts about the tables — re-checked by the kernel whenever /repo changes -/
/-- every accessor outside LOGIN/AUTHENTICATE is dominated by the authentication guard -/
def AuthGated (c : Command) : Bool := isLoginCmd c || c.accesses.all (fun a => a.guards.auth)
/-- every accessor of a selected-state command (and NOOP's) is dominated by the selection guard -/
def SelGated (c : Command) : Bool := !(isSelectedStateCmd c || c.name = b!"NOOP") || c.accesses.all (fun a => a.guards.sel)
/-- selected-state commands (and NOOP) reach the selected store only (plus the shared blob store) -/
def SelectedStoreOnly (c : Command) : Bool :=
  !(isSelectedStateCmd c || c.name = b!"NOOP") || c.accesses.all (fun a => a.kind = .selected || a.kind = .shared)
/-- no handler opens the store of a user other than the session's -/
def NoForeignStore (c : Command) : Bool := c.accesses.all (fun a => a.kind ≠ .userOther)
/-- commands that change the selected mailbox's content are guarded by the read-only flag -/
def mutatingNames : List Bytes := [(b!"STORE"), (b!"EXPUNGE")]
def ReadOnlyGated (c : Command) : Bool :=
  !(mutatingNames.contains c.name) || c.accesses.all (fun a => a.kind ≠ .selected || a.guards.rw)

/-- every command of the alphabet the model knows -/
def knownNames : List Bytes :=
  [(b!"CAPABILITY"), (b!"LOGIN"), (b!"AUTHENTICATE"), (b!"LIST"), (b!"LSUB"), (b!"CREATE"), (b!"DELETE"), (b!"RENAME"), (b!"SELECT"),
   (b!"EXAMINE"), (b!"FETCH"), (b!"SEARCH"), (b!"STORE"), (b!"COPY"), (b!"STATUS"), (b!"UID"), (b!"IDLE"), (b!"NAMESPACE"),
   (b!"UNSELECT"), (b!"APPEND"), (b!"NOOP"), (b!"CHECK"), (b!"CLOSE"), (b!"EXPUNGE"), (b!"SUBSCRIBE"), (b!"UNSUBSCRIBE"),
   (b!"LOGOUT"), (b!"STARTTLS"), (b!"default")]

/-! ## lifting to states and command sequences -/
theorem reach_nil_of_unauth (s : State) (c : Command) (hs : s.authed = false) (hl : isLoginCmd c = false)
    (hg : AuthGated c = true) : reach s c = [] := by
  unfold reach
  apply List.filter_eq_nil_iff.mpr
  intro a ha
  simp only [AuthGated, hl, Bool.false_or, List.all_eq_true] at hg
  have := hg a ha
  simp [Access.enabled, this, hs]

theorem reach_nil_of_unselected (s : State) (c : Command) (hs : s.selected = false)
    (hc : (isSelectedStateCmd c || c.name = b!"NOOP") = true) (hg : SelGated c = true) : reach s c = [] := by
  unfold reach
  apply List.filter_eq_nil_iff.mpr
  intro a ha
  simp only [SelGated, hc, Bool.not_true, Bool.false_or, List.all_eq_true] at hg
  have := hg a ha
  simp [Access.enabled, this, hs]

theorem reach_selected_only (s : State) (c : Command)
    (hc : (isSelectedStateCmd c || c.name = b!"NOOP") = true) (hg : SelectedStoreOnly c = true) :
    ∀ a ∈ reach s c, a.kind = .selected ∨ a.kind = .shared := by
  intro a ha
  have hm : a ∈ c.accesses := (List.mem_filter.mp ha).1
  simp only [SelectedStoreOnly, hc, Bool.not_true, Bool.false_or, List.all_eq_true] at hg
  simpa using hg a hm

/-- what the environment decides: does the backend accept the credentials, does the mailbox exist -/
structure Input where
  cmd : Command
  backendOK : Bool
  selectOK : Bool
  examine : Bool

/-- the session-state part of one command; a session becomes authenticated only through LOGIN / AUTHENTICATE on a TLS
connection (`Gen.authEvents`: the only assignment is in authenticateUser, each of whose calls is dominated by the TLS check) -/
def next (s : State) (i : Input) : State :=
  if isLoginCmd i.cmd then
    if s.tls && i.backendOK then { s with authed := true } else s
  else if !i.cmd.uidSub && (i.cmd.name = b!"SELECT" || i.cmd.name = b!"EXAMINE") then
    if s.authed then
      (if i.selectOK then { s with selected := true, readOnly := i.cmd.name = b!"EXAMINE" }
       else { s with selected := false, readOnly := false })         -- a failed SELECT leaves no mailbox selected
    else s
  else if !i.cmd.uidSub && (i.cmd.name = b!"CLOSE" || i.cmd.name = b!"UNSELECT") then
    if s.authed && s.selected then { s with selected := false, readOnly := false } else s
  else if !i.cmd.uidSub && i.cmd.name = b!"STARTTLS" then
    if s.tls then s else { tls := true, authed := false, selected := false, readOnly := false }   -- fresh ClientState
  else s

def run (s : State) : List Input → State
  | [] => s
  | i :: is => run (next s i) is

theorem next_authed (s : State) (i : Input) (h : (next s i).authed = true) :
    s.authed = true ∨ (isLoginCmd i.cmd = true ∧ s.tls = true ∧ i.backendOK = true) := by
  unfold next at h
  split at h
  · rename_i hl
    split at h
    · rename_i hc
      simp only [Bool.and_eq_true] at hc
      exact Or.inr ⟨hl, hc.1, hc.2⟩
    · exact Or.inl h
  · split at h
    · split at h
      · rename_i ha; exact Or.inl ha
      · exact Or.inl h
    · split at h
      · split at h <;> exact Or.inl (by simpa using h)
      · split at h
        · split at h
          · exact Or.inl h
          · simp at h
        · exact Or.inl h

theorem next_tls_false (s : State) (i : Input) (h : (next s i).tls = false) : s.tls = false := by
  unfold next at h
  split at h
  · split at h <;> simpa using h
  · split at h
    · split at h
      · split at h <;> simpa using h
      · exact h
    · split at h
      · split at h <;> simpa using h
      · split at h
        · split at h
          · exact h
          · simp at h
        · exact h

end Raven.Proto
