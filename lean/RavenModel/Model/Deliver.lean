import RavenModel.Model.Policy
/-! The DATA phase of an LMTP transaction as `Session.handleDATA → DeliverMessage` has it: one delivery attempt and one reply
per accepted recipient, in RCPT order; what a mailbox holds afterwards. Parsing (`net/mail`, `mime/multipart`) is library
code: its verdicts are parameters of the transaction. -/
namespace Raven.Deliver
open Raven Raven.Policy

/-- a mailbox: the store of an owner and a folder in it -/
abbrev Key := Owner × Bytes

structure Tx where
  valid : Bool                   -- ParseMessage and ValidateMessage accepted the message (From, a recipient header, size)
  mimeOK : Bool                  -- ParseMIMEMessage returned a part list
  folder : Bytes                 -- target folder (default folder, or Spam by the spam headers)
  owners : List (Option Owner)   -- the store each accepted RCPT resolves to, in RCPT order (`none`: no such store)

abbrev Counts := Key → Nat

def bump (c : Counts) (k : Key) : Counts := fun x => if x = k then c x + 1 else c x

/-- one recipient: the new counts and the reply code -/
def attempt (tx : Tx) (c : Counts) (o : Option Owner) : Counts × Nat :=
  if !tx.valid then (c, 554)            -- rejectTransaction: one 554 per recipient, nothing stored
  else match o with
    | none => (c, 550)
    | some ow => if tx.mimeOK then (bump c (ow, tx.folder), 250) else (c, 550)

def deliverFrom (tx : Tx) : Counts → List (Option Owner) → Counts × List Nat
  | c, [] => (c, [])
  | c, o :: os =>
    let (c1, r) := attempt tx c o
    let (c2, rs) := deliverFrom tx c1 os
    (c2, r :: rs)

def deliverAll (tx : Tx) (c : Counts) : Counts × List Nat := deliverFrom tx c tx.owners

/-- how many of the attempts were answered 2xx and aimed at mailbox `k` -/
def acceptedFor (tx : Tx) (k : Key) : List (Option Owner) → List Nat → Nat
  | o :: os, r :: rs => (if r = 250 ∧ o = some k.1 ∧ tx.folder = k.2 then 1 else 0) + acceptedFor tx k os rs
  | _, _ => 0

theorem deliverFrom_length (tx : Tx) : ∀ (os : List (Option Owner)) (c : Counts), (deliverFrom tx c os).2.length = os.length
  | [], _ => rfl
  | o :: os, c => by simp [deliverFrom, deliverFrom_length tx os]

theorem attempt_count (tx : Tx) (c : Counts) (o : Option Owner) (k : Key) :
    (attempt tx c o).1 k = c k + (if (attempt tx c o).2 = 250 ∧ o = some k.1 ∧ tx.folder = k.2 then 1 else 0) := by
  unfold attempt
  by_cases hv : tx.valid = true
  · cases o with
    | none => simp [hv]
    | some ow =>
      by_cases hm : tx.mimeOK = true
      · simp only [hv, hm, Bool.not_true, Bool.false_eq_true, if_false, if_true, bump, true_and]
        by_cases hk : k = (ow, tx.folder)
        · subst hk; simp
        · have : ¬ (some ow = some k.1 ∧ tx.folder = k.2) := by
            rintro ⟨h1, h2⟩
            apply hk
            cases k
            simp_all
          simp only [hk, if_false]
          have : ¬ (ow = k.1 ∧ tx.folder = k.2) := fun ⟨h1, h2⟩ => this ⟨by rw [h1], h2⟩
          simp [this]
      · simp [hv, hm]
  · simp [hv]

/-- the mailbox count afterwards is the count before plus the number of 2xx replies given for that mailbox -/
theorem deliverFrom_count (tx : Tx) (k : Key) : ∀ (os : List (Option Owner)) (c : Counts),
    (deliverFrom tx c os).1 k = c k + acceptedFor tx k os (deliverFrom tx c os).2
  | [], c => by simp [deliverFrom, acceptedFor]
  | o :: os, c => by
    simp only [deliverFrom, acceptedFor]
    rw [deliverFrom_count tx k os, attempt_count tx c o k]
    omega

/-- every reply is one of the three codes the code sends after the end of data -/
theorem deliverFrom_codes (tx : Tx) : ∀ (os : List (Option Owner)) (c : Counts), ∀ r ∈ (deliverFrom tx c os).2, r = 250 ∨ r = 550 ∨ r = 554
  | [], _, r, h => by simp [deliverFrom] at h
  | o :: os, c, r, h => by
    simp only [deliverFrom, List.mem_cons] at h
    rcases h with h | h
    · subst h
      unfold attempt
      split
      · simp
      · split
        · simp
        · split <;> simp
    · exact deliverFrom_codes tx os _ r h

/-! ## how many part rows a stored message has (`ParseMIMEMessage`'s branch structure) -/
inductive Ct where
  | single                  -- not multipart, or an unparsable Content-Type (read as text/plain)
  | multipart (children : Nat)   -- multipart/* with a boundary parameter: the container row plus what the reader yields
  | multipartNoBoundary     -- multipart/* without a usable boundary: stored as one part holding the whole body

def partRows : Ct → Nat
  | .single => 1
  | .multipart n => 1 + n
  | .multipartNoBoundary => 1

end Raven.Deliver
