import RavenModel.Model.Search
/-! The concrete layer of SEARCH: tokeniser, token classification, the message-dependent primitives over a message view
(sequence number, UID, flag tokens, dates, the reconstructed text), and the whole command. -/
namespace Raven.Search
open Raven Raven.GoStr

/-- `parseSearchTokens`: blanks separate tokens except inside quotes and parentheses -/
def tokAux : Bytes → Bool → Int → Bytes → List Bytes
  | [], _, _, cur => if cur.isEmpty then [] else [cur.reverse]
  | c :: cs, inQ, par, cur =>
    if c = b_dq then tokAux cs (!inQ) par (c :: cur)
    else if c = b_lp then tokAux cs inQ (if inQ then par else par + 1) (c :: cur)
    else if c = b_rp then tokAux cs inQ (if inQ then par else par - 1) (c :: cur)
    else if c = b_sp ∨ c = b_tab then
      if inQ ∨ par > 0 then tokAux cs inQ par (c :: cur)
      else if cur.isEmpty then tokAux cs inQ par cur else cur.reverse :: tokAux cs inQ par []
    else tokAux cs inQ par (c :: cur)
def tokenise (s : Bytes) : List Bytes := tokAux s false 0 []

notation "b_rp'" => (41 : UInt8)

/-- `isSequenceSet` on the upper-cased token: digits, `:`, `*`, `,`; starting with a digit or `*` -/
def isSeqSetTok (t : Bytes) : Bool :=
  t.all (fun c => isDigit c || c = b_colon || c = b_star || c = b_comma) &&
  (match t with | c :: _ => isDigit c || c = b_star | [] => false)

def kw0Names : List Bytes :=
  [(b!"ALL"), (b!"ANSWERED"), (b!"DELETED"), (b!"DRAFT"), (b!"FLAGGED"), (b!"NEW"), (b!"OLD"), (b!"RECENT"), (b!"SEEN"),
   (b!"UNANSWERED"), (b!"UNDELETED"), (b!"UNDRAFT"), (b!"UNFLAGGED"), (b!"UNSEEN")]
def kw1Names : List Bytes :=
  [(b!"BCC"), (b!"CC"), (b!"FROM"), (b!"SUBJECT"), (b!"TO"), (b!"BODY"), (b!"TEXT"), (b!"KEYWORD"), (b!"UNKEYWORD"), (b!"LARGER"),
   (b!"SMALLER"), (b!"UID"), (b!"BEFORE"), (b!"ON"), (b!"SINCE"), (b!"SENTBEFORE"), (b!"SENTON"), (b!"SENTSINCE")]

def classify (t : Bytes) : Tok :=
  let u := toUpper t
  if isSeqSetTok u then .seq u
  else if kw0Names.contains u then .kw0 u
  else if kw1Names.contains u then .kw1 u
  else if u = b!"HEADER" then .hdr
  else if u = b!"NOT" then .notT
  else if u = b!"OR" then .orT
  else .other t

/-- `searchGroup`: what is between the parentheses of a token that begins with `(` and ends with `)` -/
def groupInner (t : Bytes) : Option Bytes :=
  if t.length ≥ 2 ∧ t.head? = some b_lp ∧ t.getLast? = some b_rp then some ((t.drop 1).take (t.length - 2)) else none

/-- a token with the tokens inside its parentheses (the code tokenises the inside again when it evaluates the group); the
fuel bounds the nesting depth, the length of the text always suffices -/
def classifyDeep : Nat → Bytes → Tok
  | 0, t => classify t
  | f + 1, t =>
    match classify t with
    | .other x =>
      (match groupInner x with
       | some inner => .group x ((tokenise inner).map (classifyDeep f))
       | none => .other x)
    | k => k

def tokens (criteria : Bytes) : List Tok := (tokenise criteria).map (classifyDeep criteria.length)

/-- the text of a token when it stands in argument position -/
def Tok.text : Tok → Bytes
  | .seq s => s | .kw0 a => a | .kw1 a => a | .hdr => b!"HEADER" | .notT => b!"NOT" | .orT => b!"OR" | .other x => x
  | .group raw _ => raw

/-- `unquote` -/
def unquote (s0 : Bytes) : Bytes :=
  let s := trimSpace s0
  if s.length ≥ 2 ∧ s.head? = some b_dq ∧ s.getLast? = some b_dq then (s.drop 1).take (s.length - 2) else s

/-! ### sequence / UID sets inside SEARCH: `n`, `a:b` in either order, `*` = the largest number in use, comma lists -/
def endVal (mx : Nat) (e : Bytes) : Option Nat := if e = [b_star] then some mx else Dec.atoi e
def partMatches (n mx : Nat) (part : Bytes) : Bool :=
  match splitOn b_colon part with
  | [a] => endVal mx a = some n
  | [a, b] => (match endVal mx a, endVal mx b with
      | some x, some y => decide (min x y ≤ n ∧ n ≤ max x y)
      | _, _ => false)
  | _ => false
def setMatches (n mx : Nat) (set : Bytes) : Bool := (splitOn b_comma set).any (partMatches n mx)

/-! ### the message view -/
structure Msg where
  seq : Nat
  uid : Nat
  flags : List Bytes
  idate : Nat × Nat × Nat        -- internal date (y, m, d)
  sdate : Option (Nat × Nat × Nat) -- Date header, when it parses
  raw : Bytes                    -- the reconstructed message
  maxSeq : Nat
  maxUid : Nat

def hasFlag (m : Msg) (f : Bytes) : Bool := m.flags.any (fun x => equalFold x f)

/-- physical header lines (before the first empty line), CR stripped -/
def headerLines (raw : Bytes) : List Bytes :=
  ((splitOn b_lf raw).map (fun l => if l.getLast? = some b_cr then l.dropLast else l)).takeWhile (· ≠ [])

/-- `headerContains`: the values of every field of that name, continuation lines joined by one blank, compared case-insensitively -/
def headerValueAux (name : Bytes) : List Bytes → Bool → Bytes → Bytes
  | [], _, acc => acc
  | l :: ls, inT, acc =>
    if (match l with | c :: _ => c = b_sp || c = b_tab | [] => false) then
      headerValueAux name ls inT (if inT then acc ++ [b_sp] ++ trimSpace l else acc)
    else if hasPrefix (toUpper l) (toUpper name ++ [b_colon]) then
      headerValueAux name ls true (acc ++ trimSpace (l.drop (name.length + 1)))
    else headerValueAux name ls false acc
def headerContains (raw name s : Bytes) : Bool :=
  containsSub (toUpper (headerValueAux name (headerLines raw) false [])) (toUpper s)
def hasHeader (raw name : Bytes) : Bool :=
  (headerLines raw).any (fun l => hasPrefix (toUpper l) (toUpper name ++ [b_colon]))

/-- the part from the first blank line on (`rawMsg[headerEnd:]`) -/
def bodyFrom : Bytes → Bytes
  | 13 :: 10 :: 13 :: 10 :: r => 13 :: 10 :: 13 :: 10 :: r
  | _ :: r => bodyFrom r
  | [] => []

/-- `d-Mon-yyyy` -/
def monthOf (m : Bytes) : Option Nat :=
  let names : List Bytes := [(b!"JAN"), (b!"FEB"), (b!"MAR"), (b!"APR"), (b!"MAY"), (b!"JUN"), (b!"JUL"), (b!"AUG"), (b!"SEP"), (b!"OCT"), (b!"NOV"), (b!"DEC")]
  (names.findIdx? (· = toUpper m)).map (· + 1)
def parseDate (s : Bytes) : Option (Nat × Nat × Nat) :=
  match splitOn 45 s with
  | [d, m, y] => (match Dec.atoi d, monthOf m, Dec.atoi y with
      | some dd, some mm, some yy => if 1 ≤ dd ∧ dd ≤ 31 ∧ d.length ≤ 2 ∧ y.length = 4 then some (yy, mm, dd) else none
      | _, _, _ => none)
  | _ => none
def dateLt (a b : Nat × Nat × Nat) : Bool :=
  a.1 < b.1 || (a.1 = b.1 && (a.2.1 < b.2.1 || (a.2.1 = b.2.1 && a.2.2 < b.2.2)))
def dateCmp (cmp : Bytes) (msgDate : Nat × Nat × Nat) (arg : Bytes) : Bool :=
  match parseDate (unquote arg) with
  | none => false
  | some t =>
    if cmp = b!"BEFORE" then dateLt msgDate t
    else if cmp = b!"ON" then msgDate = t
    else if cmp = b!"SINCE" then !(dateLt msgDate t)
    else false

/-- the primitives of one message -/
def primOf (m : Msg) : Prim where
  seqOK s := setMatches m.seq m.maxSeq s
  a0 a :=
    if a = b!"ALL" then true
    else if a = b!"ANSWERED" then hasFlag m (b!"\\Answered")
    else if a = b!"DELETED" then hasFlag m (b!"\\Deleted")
    else if a = b!"DRAFT" then hasFlag m (b!"\\Draft")
    else if a = b!"FLAGGED" then hasFlag m (b!"\\Flagged")
    else if a = b!"NEW" then hasFlag m (b!"\\Recent") && !hasFlag m (b!"\\Seen")
    else if a = b!"OLD" then !hasFlag m (b!"\\Recent")
    else if a = b!"RECENT" then hasFlag m (b!"\\Recent")
    else if a = b!"SEEN" then hasFlag m (b!"\\Seen")
    else if a = b!"UNANSWERED" then !hasFlag m (b!"\\Answered")
    else if a = b!"UNDELETED" then !hasFlag m (b!"\\Deleted")
    else if a = b!"UNDRAFT" then !hasFlag m (b!"\\Draft")
    else if a = b!"UNFLAGGED" then !hasFlag m (b!"\\Flagged")
    else if a = b!"UNSEEN" then !hasFlag m (b!"\\Seen")
    else true
  a1 a x :=
    let arg := x.text
    if a = b!"KEYWORD" then hasFlag m (unquote arg)
    else if a = b!"UNKEYWORD" then !hasFlag m (unquote arg)
    else if a = b!"LARGER" then (match Dec.atoiGo arg with | some n => decide ((m.raw.length : Int) > n) | none => false)
    else if a = b!"SMALLER" then (match Dec.atoiGo arg with | some n => decide ((m.raw.length : Int) < n) | none => false)
    else if a = b!"UID" then setMatches m.uid m.maxUid (toUpper arg)
    else if a = b!"FROM" then headerContains m.raw (b!"From") (unquote arg)
    else if a = b!"TO" then headerContains m.raw (b!"To") (unquote arg)
    else if a = b!"CC" then headerContains m.raw (b!"Cc") (unquote arg)
    else if a = b!"BCC" then headerContains m.raw (b!"Bcc") (unquote arg)
    else if a = b!"SUBJECT" then headerContains m.raw (b!"Subject") (unquote arg)
    else if a = b!"BODY" then containsSub (toUpper (bodyFrom m.raw)) (toUpper (unquote arg))
    else if a = b!"TEXT" then containsSub (toUpper m.raw) (toUpper (unquote arg))
    else if a = b!"BEFORE" ∨ a = b!"ON" ∨ a = b!"SINCE" then dateCmp a m.idate arg
    else if a = b!"SENTBEFORE" ∨ a = b!"SENTON" ∨ a = b!"SENTSINCE" then
      (match m.sdate with | some d => dateCmp (a.drop 4) d arg | none => false)
    else false
  h2 f v :=
    let name := unquote f.text
    let s := unquote v.text
    if s = [] then hasHeader m.raw name else headerContains m.raw name s

inductive Answer where
  | bad                       -- unsupported key / charset / missing argument: an error, not a wrong result
  | hits (ns : List Nat)
deriving DecidableEq, Repr

def fuelFor (criteria : Bytes) : Nat := 2 * criteria.length + 4

def hitsOf (uidMode : Bool) (md : Mode) (fuel : Nat) (toks : List Tok) (box : List Msg) : List Nat :=
  (box.filter (fun m => (evalKeys (primOf m) md fuel toks).getD false)).map (fun m => if uidMode then m.uid else m.seq)

/-- a message on which well-formedness is judged (it does not depend on the message: `Search.wellformed`) -/
def noMsg : Msg := { seq := 0, uid := 0, flags := [], idate := (0, 0, 0), sdate := none, raw := [], maxSeq := 0, maxUid := 0 }

def wellFormed (md : Mode) (fuel : Nat) (toks : List Tok) : Bool := (evalKeys (primOf noMsg) md fuel toks).isSome

/-- SEARCH / UID SEARCH as the code has them, on the selected mailbox's messages (ascending UID order): sequence numbers or
UIDs. SEARCH first walks the program (`validateSearchTokens`) and answers BAD when a key is incomplete; a bare unknown word
is skipped (finding C19-F2). UID SEARCH walks nothing: an incomplete key makes the message not match, unknown words are
skipped (pinned by TestUIDSearch_DefaultBehavior: finding C19-F1). -/
def search (uidMode : Bool) (criteria : Bytes) (box : List Msg) : Answer :=
  let toks := tokens criteria
  let fuel := fuelFor criteria
  if toks.isEmpty then .bad
  else if uidMode then .hits (hitsOf true .uid fuel toks box)
  else if wellFormed .search fuel toks then .hits (hitsOf false .search fuel toks box) else .bad

/-- what the property demands: a program of the search-key language is evaluated, everything else is an error -/
def searchSpec (uidMode : Bool) (criteria : Bytes) (box : List Msg) : Answer :=
  let toks := tokens criteria
  let fuel := fuelFor criteria
  if toks.isEmpty ∨ !wellFormed .spec fuel toks then .bad else .hits (hitsOf uidMode .spec fuel toks box)

end Raven.Search
