import RavenModel.Base.GoStr
/-! Identity handling of the IMAP login path and the SASL service (auth.authenticateUser, IMAPServer.ExtractUsername /
GetUserDomain, HandleAuthenticate's PLAIN decoding, sasl.handlePlain / authenticate). -/
namespace Raven.Auth
open Raven Raven.GoStr

def at' : UInt8 := 64

def countAt (u : Bytes) : Nat := (u.filter (· = at')).length
def hasAt (u : Bytes) : Bool := u.contains at'

/-- the address sent to the backend: the typed name, or name@default-domain -/
def emailFor (user dom : Bytes) : Bytes := if hasAt user then user else user ++ at' :: dom

/-- `ExtractUsername`: everything before the first `@` -/
def localOf (user : Bytes) : Bytes := match splitOn at' user with | l :: _ => l | [] => user
/-- `GetUserDomain`: the part after `@` when there is exactly one, else the configured domain -/
def domainOf (user dom : Bytes) : Bytes :=
  if hasAt user then (match splitOn at' user with | [_, d] => d | _ => dom) else dom

/-- the store a successful login is bound to -/
def bind (user dom : Bytes) : Bytes × Bytes := (localOf user, domainOf user dom)

/-- admitted to the backend at all: at most one `@` (valid UTF-8 is checked on the Go side) -/
def admissible (user : Bytes) : Bool := countAt user ≤ 1

theorem splitOn_noAt (u : Bytes) (h : hasAt u = false) : splitOn at' u = [u] := by
  apply splitOn_nosep
  intro c hc e
  subst e
  have : hasAt u = true := List.contains_iff_mem.mpr hc
  rw [h] at this; cases this

theorem splitOn_oneAt : ∀ (u : Bytes), countAt u = 1 → ∃ l d, splitOn at' u = [l, d] ∧ u = l ++ at' :: d
  | [], h => by simp [countAt] at h
  | c :: cs, h => by
    by_cases hc : c = at'
    · subst hc
      have h0 : countAt cs = 0 := by simpa [countAt] using h
      have hno : hasAt cs = false := by
        rw [Bool.eq_false_iff]; intro hh
        have hm : at' ∈ cs := List.contains_iff_mem.mp hh
        have : 0 < (cs.filter (· = at')).length := List.length_pos_of_mem (List.mem_filter.mpr ⟨hm, by simp⟩)
        simp only [countAt] at h0; omega
      exact ⟨[], cs, by simp [splitOn, splitOn_noAt cs hno], rfl⟩
    · have h1 : countAt cs = 1 := by simpa [countAt, hc] using h
      obtain ⟨l, d, hs, hu⟩ := splitOn_oneAt cs h1
      exact ⟨c :: l, d, by simp [splitOn, hc, hs], by simp [hu]⟩

theorem hasAt_iff (u : Bytes) : hasAt u = true ↔ 0 < countAt u := by
  unfold hasAt countAt
  constructor
  · intro h
    exact List.length_pos_of_mem (List.mem_filter.mpr ⟨List.contains_iff_mem.mp h, by simp⟩)
  · intro h
    obtain ⟨x, hx⟩ := List.exists_mem_of_length_pos h
    have := List.mem_filter.mp hx
    have hx' : x = at' := by simpa using this.2
    subst hx'
    exact List.contains_iff_mem.mpr this.1

/-- **C04.2** for an admissible name the session is bound to exactly the address the backend verified -/
theorem bind_is_email (user dom : Bytes) (h : admissible user = true) :
    emailFor user dom = (bind user dom).1 ++ at' :: (bind user dom).2 := by
  unfold admissible at h
  have hle : countAt user ≤ 1 := by simpa using h
  by_cases h0 : countAt user = 0
  · have hno : hasAt user = false := by
      rw [Bool.eq_false_iff]; intro hh; have := (hasAt_iff user).mp hh; omega
    simp [emailFor, bind, localOf, domainOf, hno, splitOn_noAt user hno]
  · have h1 : countAt user = 1 := by omega
    have hyes : hasAt user = true := (hasAt_iff user).mpr (by omega)
    obtain ⟨l, d, hs, hu⟩ := splitOn_oneAt user h1
    simp only [emailFor, bind, localOf, domainOf, hyes, hs, if_true]
    exact hu

/-- two `@`: the backend would verify one address and the session be bound to another (the pinned tree did that) -/
theorem two_at_mismatch :
    emailFor (b!"a@b@c") (b!"example.com") ≠ (bind (b!"a@b@c") (b!"example.com")).1 ++ at' :: (bind (b!"a@b@c") (b!"example.com")).2 := by
  decide

/-! ## SASL PLAIN -/
/-- `strings.Split(decoded, "\x00")`: ≥3 fields → [1],[2]; 2 fields → [0],[1] -/
def plainSplit (decoded : Bytes) : Option (Bytes × Bytes) :=
  match splitOn 0 decoded with
  | [u, p] => some (u, p)
  | _ :: u :: p :: _ => some (u, p)
  | _ => none

/-- RFC 4616 message `authzid NUL authcid NUL passwd` without further NULs: exactly authcid and passwd are used -/
theorem plain_fields_exact (z u p : Bytes) (hz : ∀ c ∈ z, c ≠ 0) (hu : ∀ c ∈ u, c ≠ 0) (hp : ∀ c ∈ p, c ≠ 0) :
    plainSplit (z ++ 0 :: (u ++ 0 :: p)) = some (u, p) := by
  unfold plainSplit
  rw [splitOn_append 0 z _ hz, splitOn_append 0 u _ hu, splitOn_nosep 0 p hp]

def isCtl (c : UInt8) : Bool := c < 32 || c = 127

/-- the one-line answers of the SASL service -/
def okLine (id user : Bytes) : Bytes := b!"OK\t" ++ id ++ b!"\tuser=" ++ user ++ [b_lf]
def failLine (id : Bytes) : Bytes := b!"FAIL\t" ++ id ++ b!"\treason=x" ++ [b_lf]

/-- **C04.4** an OK answer is a single line whose second field is the request id, provided the user name carries no
control character (such names are refused before the backend is asked) -/
theorem ok_is_one_line (id user : Bytes) (hid : ∀ c ∈ id, c ≠ b_lf ∧ c ≠ b_tab) (hu : ∀ c ∈ user, isCtl c = false) :
    ((okLine id user).filter (· = b_lf)).length = 1 ∧
    (splitOn b_tab (okLine id user)).take 2 = [b!"OK", id] := by
  have hu1 : ∀ c ∈ user, c ≠ b_lf := by
    intro c hc e; subst e; have := hu _ hc; simp [isCtl] at this
  have hu2 : ∀ c ∈ user, c ≠ b_tab := by
    intro c hc e; subst e; have := hu _ hc; simp [isCtl] at this
  constructor
  · unfold okLine
    simp only [List.filter_append]
    have e1 : id.filter (· = b_lf) = [] := List.filter_eq_nil_iff.mpr (fun c hc => by simpa using (hid c hc).1)
    have e2 : user.filter (· = b_lf) = [] := List.filter_eq_nil_iff.mpr (fun c hc => by simpa using hu1 c hc)
    simp [e1, e2]
  · unfold okLine
    have h1 : (b!"OK\t" ++ id ++ b!"\tuser=" ++ user ++ [b_lf] : Bytes) = (b!"OK") ++ b_tab :: (id ++ b_tab :: ((b!"user=") ++ user ++ [b_lf])) := by
      simp
    rw [h1, splitOn_append b_tab (b!"OK") _ (by decide), splitOn_append b_tab id _ (fun c hc => (hid c hc).2)]
    simp

end Raven.Auth
