import RavenModel.Model.Durable
/-! What the Durable machine assumes and what happens without it: UID allocation as two statements (read `uid_next`, then bump
it), a flag update as read – compute – write back, and the double-checked handle cache of the database manager. -/
namespace Raven.Interleave

/-! ## UID allocation in two statements -/
structure St2 where
  uidNext : Nat
  locals : List (Nat × Nat)     -- (writer, the uid_next it read)
  links : List (Nat × Nat)      -- (uid, writer)
  failed : List Nat             -- writers whose INSERT hit UNIQUE(mailbox_id, uid)
deriving Repr, DecidableEq

inductive Ev2 where
  | read (w : Nat)     -- SELECT uid_next
  | bump (w : Nat)     -- UPDATE … SET uid_next = uid_next + 1
  | insert (w : Nat)   -- INSERT INTO message_mailbox
deriving Repr, DecidableEq

def step2 (s : St2) : Ev2 → St2
  | .read w => { s with locals := (w, s.uidNext) :: s.locals }
  | .bump _ => { s with uidNext := s.uidNext + 1 }
  | .insert w =>
    match s.locals.find? (·.1 == w) with
    | none => s
    | some (_, u) => if s.links.any (·.1 == u) then { s with failed := w :: s.failed } else { s with links := (u, w) :: s.links }

/-! ## a flag update as read – compute – write back -/
structure StF where
  flags : List Nat              -- the stored flag set
  locals : List (Nat × List Nat)
  acked : List (Nat × Nat)      -- (session, the flag it was told is set)
deriving Repr, DecidableEq

inductive EvF where
  | read (w : Nat)
  | write (w f : Nat)           -- UPDATE … SET flags = (what it read) ∪ {f}; answered OK
deriving Repr, DecidableEq

def stepF (s : StF) : EvF → StF
  | .read w => { s with locals := (w, s.flags) :: s.locals }
  | .write w f =>
    match s.locals.find? (·.1 == w) with
    | none => s
    | some (_, old) => { s with flags := (f :: old).eraseDups, acked := (w, f) :: s.acked }

/-- the same update as one statement (or inside one write transaction) -/
def stepFAtomic (s : StF) (w f : Nat) : StF := { s with flags := (f :: s.flags).eraseDups, acked := (w, f) :: s.acked }

/-! ## the handle cache: look up; if absent take the write lock, look up again, open and install -/
structure Cache where
  handles : List (Nat × Nat)    -- (store id, handle)
  opened : Nat                  -- handles opened so far (the next handle number)
deriving Repr, DecidableEq

/-- one `GetUserDB` (the part under the write lock is atomic) -/
def getDB (c : Cache) (id : Nat) : Cache × Nat :=
  match c.handles.find? (·.1 == id) with
  | some (_, h) => (c, h)
  | none => ({ handles := (id, c.opened) :: c.handles, opened := c.opened + 1 }, c.opened)

def getAll : Cache → List Nat → Cache
  | c, [] => c
  | c, id :: ids => getAll (getDB c id).1 ids

theorem getDB_nodup (c : Cache) (id : Nat) (h : (c.handles.map (·.1)).Nodup) : ((getDB c id).1.handles.map (·.1)).Nodup := by
  unfold getDB
  cases hf : c.handles.find? (·.1 == id) with
  | some p => obtain ⟨a, b⟩ := p; simpa using h
  | none =>
    simp only [List.map_cons, List.nodup_cons]
    refine ⟨?_, h⟩
    intro hm
    obtain ⟨x, hx, hxe⟩ := List.mem_map.mp hm
    have := List.find?_eq_none.mp hf x hx
    simp [hxe] at this

theorem getAll_nodup : ∀ (ids : List Nat) (c : Cache), (c.handles.map (·.1)).Nodup → ((getAll c ids).handles.map (·.1)).Nodup
  | [], _, h => h
  | id :: ids, c, h => getAll_nodup ids _ (getDB_nodup c id h)

end Raven.Interleave
