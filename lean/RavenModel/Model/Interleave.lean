import RavenModel.Model.Durable
/-! What the Durable machine assumes and what happens without it: UID allocation as two statements (read `uid_next`, then bump
it), a flag update as read – compute – write back, and the double-checked handle cache of the database manager. -/
namespace Raven.Interleave

/-! ## UID allocation in two statements -/
structure St2 where
  uidNext : Nat
  locals : List (Nat × Nat)     -- (writer, the uid_next it read)
  links : List (Nat × Nat)      -- (uid, writer)
  failed : List Nat             -- writers whose INSERT hit UNIQUE(mailbox_id, uid)
deriving Repr, DecidableEq

inductive Ev2 where
  | read (w : Nat)     -- SELECT uid_next
  | bump (w : Nat)     -- UPDATE … SET uid_next = uid_next + 1
  | insert (w : Nat)   -- INSERT INTO message_mailbox
deriving Repr, DecidableEq

def step2 (s : St2) : Ev2 → St2
  | .read w => { s with locals := (w, s.uidNext) :: s.locals }
  | .bump _ => { s with uidNext := s.uidNext + 1 }
  | .insert w =>
    match s.locals.find? (·.1 == w) with
    | none => s
    | some (_, u) => if s.links.any (·.1 == u) then { s with failed := w :: s.failed } else { s with links := (u, w) :: s.links }

/-! ## a flag update as read – compute – write back -/
structure StF where
  flags : List Nat              -- the stored flag set
  locals : List (Nat × List Nat)
  acked : List (Nat × Nat)      -- (session, the flag it was told is set)
deriving Repr, DecidableEq

inductive EvF where
  | read (w : Nat)
  | write (w f : Nat)           -- UPDATE … SET flags = (what it read) ∪ {f}; answered OK
deriving Repr, DecidableEq

def stepF (s : StF) : EvF → StF
  | .read w => { s with locals := (w, s.flags) :: s.locals }
  | .write w f =>
    match s.locals.find? (·.1 == w) with
    | none => s
    | some (_, old) => { s with flags := (f :: old).eraseDups, acked := (w, f) :: s.acked }

/-- the same update as one statement (or inside one write transaction) -/
def stepFAtomic (s : StF) (w f : Nat) : StF := { s with flags := (f :: s.flags).eraseDups, acked := (w, f) :: s.acked }

/-! ## the flag update as the code has it now: read, compute, write back **if the flags are still what was read**, else read again -/
inductive EvC where
  | read (w : Nat)
  | cas (w f : Nat)       -- UPDATE … SET flags = (read ∪ {f}) WHERE … AND flags = (read); answered OK only when a row was changed
deriving Repr, DecidableEq

def stepC (s : StF) : EvC → StF
  | .read w => { s with locals := (w, s.flags) :: s.locals.filter (fun p => !(p.1 == w)) }
  | .cas w f =>
    match s.locals.find? (·.1 == w) with
    | none => s
    | some (_, old) =>
      if old = s.flags then { s with flags := (f :: s.flags).eraseDups, acked := (w, f) :: s.acked }
      else { s with locals := (w, s.flags) :: s.locals.filter (fun p => !(p.1 == w)) }   -- no row changed: read again, no OK yet

def AckedPresent (s : StF) : Prop := ∀ a ∈ s.acked, a.2 ∈ s.flags

theorem stepC_acked (s : StF) (e : EvC) (h : AckedPresent s) : AckedPresent (stepC s e) := by
  cases e with
  | read w => exact h
  | cas w f =>
    cases hf : s.locals.find? (·.1 == w) with
    | none => simp only [stepC, hf]; exact h
    | some p =>
      obtain ⟨w', old⟩ := p
      by_cases hc : old = s.flags
      · simp only [stepC, hf, hc, if_true]
        intro a ha
        simp only [List.mem_cons] at ha
        simp only [List.mem_eraseDups, List.mem_cons]
        rcases ha with rfl | ha
        · exact Or.inl rfl
        · exact Or.inr (h a ha)
      · simp only [stepC, hf, hc, if_false]
        exact h

theorem runC_acked : ∀ (sched : List EvC) (s : StF), AckedPresent s → AckedPresent (sched.foldl stepC s)
  | [], _, h => h
  | e :: es, s, h => runC_acked es _ (stepC_acked s e h)

/-! ## the handle cache: look up; if absent take the write lock, look up again, open and install -/
structure Cache where
  handles : List (Nat × Nat)    -- (store id, handle)
  opened : Nat                  -- handles opened so far (the next handle number)
deriving Repr, DecidableEq

/-- one `GetUserDB` (the part under the write lock is atomic) -/
def getDB (c : Cache) (id : Nat) : Cache × Nat :=
  match c.handles.find? (·.1 == id) with
  | some (_, h) => (c, h)
  | none => ({ handles := (id, c.opened) :: c.handles, opened := c.opened + 1 }, c.opened)

def getAll : Cache → List Nat → Cache
  | c, [] => c
  | c, id :: ids => getAll (getDB c id).1 ids

theorem getDB_nodup (c : Cache) (id : Nat) (h : (c.handles.map (·.1)).Nodup) : ((getDB c id).1.handles.map (·.1)).Nodup := by
  unfold getDB
  cases hf : c.handles.find? (·.1 == id) with
  | some p => obtain ⟨a, b⟩ := p; simpa using h
  | none =>
    simp only [List.map_cons, List.nodup_cons]
    refine ⟨?_, h⟩
    intro hm
    obtain ⟨x, hx, hxe⟩ := List.mem_map.mp hm
    have := List.find?_eq_none.mp hf x hx
    simp [hxe] at this

theorem getAll_nodup : ∀ (ids : List Nat) (c : Cache), (c.handles.map (·.1)).Nodup → ((getAll c ids).handles.map (·.1)).Nodup
  | [], _, h => h
  | id :: ids, c, h => getAll_nodup ids _ (getDB_nodup c id h)

end Raven.Interleave
