import RavenModel.Base.Bytes
import RavenModel.Base.GoStr
import RavenModel.Base.Dec
/-! Multipart bodies **at the octet level**: what `ReconstructMessage… / reconstructPartDFS` writes (delimiter lines made
from a generated boundary around the parts, a closing delimiter) and what a reader of that text — `mime/multipart.Reader`
as used by `parser.parseMultipart` and by `response.BuildBodyStructure`, or any client — finds when it takes it apart again:
it scans for `CRLF "--" boundary` followed by `--` (closing) or a line end (next part); an occurrence followed by anything
else (a longer boundary of a nested container, say) is text.

`render` / `parse` are mutually inverse on every tree whose parts are *clean* for the boundaries around them
(`Fresh`, a decidable predicate): any depth, any number of parts, any octets. Where a part is not clean — its text
contains a line that looks like a delimiter of an enclosing container — the reader sees other parts than were written:
that is the excluded point, probed on the real code by the C02 harness. -/
namespace Raven.Mime
open Raven Raven.GoStr

def CRLF : Bytes := [13, 10]
def DD : Bytes := [45, 45]

/-- what follows an occurrence of the delimiter: `--` closes the container, a line end starts the next part, anything else
means the occurrence is not a delimiter -/
def classify : Bytes → Option Bool
  | 45 :: 45 :: _ => some true
  | 13 :: 10 :: _ => some false
  | _ => none

/-- scan for the next delimiter `d` (= CRLF "--" boundary): the octets before it, whether it closes, what follows its line -/
def scan (d : Bytes) : Bytes → Option (Bytes × Bool × Bytes)
  | [] => none
  | c :: s =>
    if hasPrefix (c :: s) d then
      match classify ((c :: s).drop d.length) with
      | some cl => some ([], cl, (c :: s).drop (d.length + 2))
      | none => (scan d s).map (fun x => (c :: x.1, x.2.1, x.2.2))
    else (scan d s).map (fun x => (c :: x.1, x.2.1, x.2.2))

/-- the parts of a container body that starts right after a delimiter line -/
def parts (d : Bytes) : Nat → Bytes → Option (List Bytes)
  | 0, _ => none
  | f + 1, s =>
    match scan d s with
    | none => none
    | some (p, true, _) => some [p]
    | some (p, false, r) => (parts d f r).map (p :: ·)

/-- the delimiter of a boundary -/
def delim (b : Bytes) : Bytes := CRLF ++ DD ++ b

/-- a container body as the reader takes it apart: the preamble (everything before the first delimiter line; the body's first
line may itself be that line) is dropped; a closing delimiter right away means no parts -/
def splitBody (b : Bytes) (body : Bytes) : Option (List Bytes) :=
  match scan (delim b) (CRLF ++ body) with
  | some (_, false, r) => parts (delim b) (r.length + 1) r
  | some (_, true, _) => some []
  | none => none

/-- what the writer produces for the parts `ps` under boundary `b`: `--b CRLF part CRLF` for each, then `--b--` and what
follows (`CRLF` at the end of a message; inside an enclosing container that line end belongs to the next delimiter) -/
def joinBody (b : Bytes) (ps : List Bytes) (e : Bytes) : Bytes :=
  (ps.flatMap fun p => DD ++ b ++ CRLF ++ p ++ CRLF) ++ DD ++ b ++ DD ++ e

/-! ### occurrences -/

/-- `s` begins with a delimiter: `d` followed by `--` or a line end -/
def hitHere (d s : Bytes) : Bool := hasPrefix s d && (classify (s.drop d.length)).isSome

/-- none of the first `k` positions of `s` begins a delimiter (one pass over the text) -/
def cleanGo (d : Bytes) : Bytes → Nat → Bool
  | _, 0 => true
  | [], _ + 1 => true
  | c :: s, k + 1 => !hitHere d (c :: s) && cleanGo d s k

/-- `p` followed by `d ++ t` holds no delimiter that starts inside `p` -/
def clean (d p t : Bytes) : Bool := cleanGo d (p ++ d ++ t) p.length

theorem hasPrefix_append (d t : Bytes) : hasPrefix (d ++ t) d = true := by
  induction d with
  | nil => cases t <;> rfl
  | cons c cs ih => simp [hasPrefix, ih]

theorem clean_cons {d : Bytes} {c : UInt8} {p t : Bytes} (h : clean d (c :: p) t = true) :
    hitHere d (c :: (p ++ (d ++ t))) = false ∧ clean d p t = true := by
  simp only [clean, List.cons_append, List.length_cons, cleanGo, Bool.and_eq_true, Bool.not_eq_true', List.append_assoc] at h ⊢
  exact h

/-- the scan lemma: a clean part in front of a delimiter is found as written -/
theorem scan_clean (d : Bytes) (hd : d ≠ []) : ∀ (p t : Bytes) (cl : Bool), clean d p t = true → classify t = some cl →
    scan d (p ++ d ++ t) = some (p, cl, t.drop 2)
  | [], t, cl, _, hc => by
    cases d with
    | nil => exact absurd rfl hd
    | cons c cs =>
      have hp : hasPrefix (c :: (cs ++ t)) (c :: cs) = true := by
        have := hasPrefix_append (c :: cs) t; simpa using this
      have hdrop : (c :: (cs ++ t)).drop (c :: cs).length = t := by simp
      have hdrop2 : (c :: (cs ++ t)).drop ((c :: cs).length + 2) = t.drop 2 := by
        rw [← List.drop_drop, hdrop]
      simp only [List.nil_append, List.cons_append, scan, hp, if_true, hdrop, hc, hdrop2]
  | c :: p, t, cl, hcl, hc => by
    obtain ⟨h0, hrest⟩ := clean_cons hcl
    have ih : scan d (p ++ (d ++ t)) = some (p, cl, t.drop 2) := by
      have := scan_clean d hd p t cl hrest hc
      simpa [List.append_assoc] using this
    simp only [hitHere, Bool.and_eq_false_iff] at h0
    simp only [List.cons_append, List.append_assoc, scan]
    rcases h0 with h0 | h0
    · simp only [h0, Bool.false_eq_true, if_false, ih, Option.map_some]
    · by_cases hp : hasPrefix (c :: (p ++ (d ++ t))) d = true
      · have hn : classify ((c :: (p ++ (d ++ t))).drop d.length) = none := by
          cases h : classify ((c :: (p ++ (d ++ t))).drop d.length) with
          | none => rfl
          | some _ => simp [h] at h0
        simp only [hp, if_true, hn, ih, Option.map_some]
      · simp [hp, ih]

/-- the octets after the first delimiter line: each part followed by the delimiter, `CRLF` between parts, `--` after the last -/
def stream (d : Bytes) : List Bytes → Bytes → Bytes
  | [], e => e
  | [p], e => p ++ d ++ (DD ++ e)
  | p :: q :: ps, e => p ++ d ++ (CRLF ++ stream d (q :: ps) e)

/-- every part is clean in front of what follows it -/
def cleanAll (d : Bytes) : List Bytes → Bytes → Bool
  | [], _ => true
  | [p], e => clean d p (DD ++ e)
  | p :: q :: ps, e => clean d p (CRLF ++ stream d (q :: ps) e) && cleanAll d (q :: ps) e

theorem classify_dd (e : Bytes) : classify (DD ++ e) = some true := rfl
theorem classify_crlf (e : Bytes) : classify (CRLF ++ e) = some false := rfl

/-- the parts come back as they were written -/
theorem parts_stream (d : Bytes) (hd : d ≠ []) : ∀ (ps : List Bytes) (e : Bytes) (f : Nat), ps ≠ [] → ps.length ≤ f →
    cleanAll d ps e = true → parts d f (stream d ps e) = some ps
  | [], _, _, h, _, _ => absurd rfl h
  | [p], e, f, _, hf, hc => by
    cases f with
    | zero => simp at hf
    | succ f =>
      simp only [cleanAll] at hc
      simp only [stream, parts, scan_clean d hd p (DD ++ e) true hc (classify_dd e)]
  | p :: q :: ps, e, f, _, hf, hc => by
    cases f with
    | zero => simp at hf
    | succ f =>
      simp only [cleanAll, Bool.and_eq_true] at hc
      have ih := parts_stream d hd (q :: ps) e f (by simp) (by simpa using hf) hc.2
      have hdrop : (CRLF ++ stream d (q :: ps) e).drop 2 = stream d (q :: ps) e := rfl
      simp only [stream, parts, scan_clean d hd p (CRLF ++ stream d (q :: ps) e) false hc.1 (classify_crlf _), hdrop, ih,
        Option.map_some]

theorem stream_length (d : Bytes) (hd : d ≠ []) : ∀ (ps : List Bytes) (e : Bytes), ps.length ≤ (stream d ps e).length
  | [], _ => by simp
  | [p], e => by
    have : 0 < d.length := List.length_pos_iff.mpr hd
    simp [stream]; omega
  | p :: q :: ps, e => by
    have ih := stream_length d hd (q :: ps) e
    have : 0 < d.length := List.length_pos_iff.mpr hd
    simp only [stream, List.length_append, List.length_cons] at ih ⊢
    omega

/-- the written body is the first delimiter line followed by the stream of parts -/
theorem crlf_joinBody (b : Bytes) : ∀ (ps : List Bytes) (e : Bytes), ps ≠ [] →
    CRLF ++ joinBody b ps e = [] ++ delim b ++ (CRLF ++ stream (delim b) ps e)
  | [], _, h => absurd rfl h
  | [p], e, _ => by simp [joinBody, stream, delim, List.append_assoc]
  | p :: q :: ps, e, _ => by
    have ih := crlf_joinBody b (q :: ps) e (by simp)
    simp only [joinBody, List.flatMap_cons, List.append_assoc, List.nil_append, stream, delim] at ih ⊢
    rw [← ih]

/-- **split ∘ join**: a reader of the written container body finds exactly the parts that were written — whatever their number
and their octets — provided each part is clean in front of what follows it -/
theorem splitBody_joinBody (b : Bytes) (ps : List Bytes) (e : Bytes) (hne : ps ≠ [])
    (hc : cleanAll (delim b) ps e = true) : splitBody b (joinBody b ps e) = some ps := by
  have hd : delim b ≠ [] := by simp [delim, CRLF]
  unfold splitBody
  rw [crlf_joinBody b ps e hne, scan_clean (delim b) hd [] (CRLF ++ stream (delim b) ps e) false (by simp [clean, cleanGo]) (classify_crlf _)]
  have hdrop : (CRLF ++ stream (delim b) ps e).drop 2 = stream (delim b) ps e := rfl
  simp only [hdrop]
  exact parts_stream (delim b) hd ps e _ hne (Nat.le_succ_of_le (stream_length (delim b) hd ps e)) hc

/-- a container without parts is read as one without parts -/
theorem splitBody_empty (b e : Bytes) : splitBody b (joinBody b [] e) = some [] := by
  have hd : delim b ≠ [] := by simp [delim, CRLF]
  have h : CRLF ++ joinBody b [] e = [] ++ delim b ++ (DD ++ e) := by simp [joinBody, delim, List.append_assoc]
  unfold splitBody
  rw [h, scan_clean (delim b) hd [] (DD ++ e) true (by simp [clean, cleanGo]) (classify_dd _)]

/-! ### trees of entities -/

/-- an entity: a leaf is its text (header block, blank line, content) without the final line end; a container has its header
block (including the blank line), its boundary and its parts -/
inductive Tree where
  | leaf (text : Bytes) : Tree
  | multi (hdr : Bytes) (b : Bytes) (cs : List Tree) : Tree
deriving Repr

mutual
/-- the entity as written inside a container (`reconstructPartDFS`), up to the line end that precedes the next delimiter -/
def core : Tree → Bytes
  | .leaf t => t
  | .multi h b cs => h ++ joinBody b (coreList cs) []
def coreList : List Tree → List Bytes
  | [] => []
  | t :: ts => core t :: coreList ts
end

/-- a whole multipart message: the closing delimiter is followed by a line end -/
def message : Tree → Bytes
  | .leaf t => t ++ CRLF
  | .multi h b cs => h ++ joinBody b (coreList cs) CRLF

mutual
def depth : Tree → Nat
  | .leaf _ => 1
  | .multi _ _ cs => depthList cs + 1
def depthList : List Tree → Nat
  | [] => 0
  | t :: ts => max (depth t) (depthList ts)
end

/-- the reader of an entity's header block is a parameter (`mime.ParseMediaType` on the Content-Type field, library code):
for a container it yields the header block, the boundary and the body; for anything else nothing -/
abbrev HeaderReader := Bytes → Option (Bytes × Bytes × Bytes)

/-- take an entity apart, as deep as it goes -/
def parse (K : HeaderReader) : Nat → Bytes → Option Tree
  | 0, _ => none
  | f + 1, text =>
    match K text with
    | none => some (.leaf text)
    | some (h, b, body) =>
      match splitBody b body with
      | none => none
      | some ps => (ps.mapM (parse K f)).map (Tree.multi h b)

mutual
/-- the decidable side condition: every header block is read as what it was written from, and every part is clean for the
delimiter of the container it sits in (its own text and that of everything nested in it included) -/
def fresh (K : HeaderReader) : Tree → Bool
  | .leaf t => (K t).isNone
  | .multi h b cs =>
    (K (h ++ joinBody b (coreList cs) []) == some (h, b, joinBody b (coreList cs) [])) &&
    cleanAll (delim b) (coreList cs) [] && freshList K cs
def freshList (K : HeaderReader) : List Tree → Bool
  | [] => true
  | t :: ts => fresh K t && freshList K ts
end

theorem coreList_ne_nil : ∀ cs : List Tree, cs ≠ [] → coreList cs ≠ []
  | [], h => absurd rfl h
  | _ :: _, _ => by simp [coreList]

mutual
/-- **parse ∘ render** on trees of any depth and width -/
theorem parse_core (K : HeaderReader) : ∀ (t : Tree) (f : Nat), depth t ≤ f → fresh K t = true → parse K f (core t) = some t
  | .leaf t, f, hf, hfr => by
    cases f with
    | zero => simp [depth] at hf
    | succ f =>
      simp only [fresh, Option.isNone_iff_eq_none] at hfr
      simp [parse, core, hfr]
  | .multi h b cs, f, hf, hfr => by
    cases f with
    | zero => simp [depth] at hf
    | succ f =>
      simp only [fresh, Bool.and_eq_true, beq_iff_eq] at hfr
      obtain ⟨⟨hK, hcl⟩, hfl⟩ := hfr
      have hd : depthList cs ≤ f := by simp only [depth] at hf; omega
      have hkids := parseList_core K cs f hd hfl
      cases cs with
      | nil =>
        simp only [coreList] at hK
        simp [parse, core, coreList, hK, splitBody_empty]
      | cons c cs' =>
        have hne : coreList (c :: cs') ≠ [] := coreList_ne_nil _ (by simp)
        simp only [parse, core, hK, splitBody_joinBody b _ [] hne hcl, hkids, Option.map_some]
theorem parseList_core (K : HeaderReader) : ∀ (cs : List Tree) (f : Nat), depthList cs ≤ f → freshList K cs = true →
    (coreList cs).mapM (parse K f) = some cs
  | [], _, _, _ => by simp [coreList]
  | t :: ts, f, hf, hfr => by
    simp only [freshList, Bool.and_eq_true] at hfr
    simp only [depthList] at hf
    have h1 := parse_core K t f (by omega) hfr.1
    have h2 := parseList_core K ts f (by omega) hfr.2
    simp [coreList, List.mapM_cons, h1, h2]
end

/-- the same for a whole message (closing delimiter followed by its line end) -/
theorem parse_message (K : HeaderReader) (h b : Bytes) (cs : List Tree) (f : Nat) (hf : depthList cs ≤ f)
    (hK : K (h ++ joinBody b (coreList cs) CRLF) = some (h, b, joinBody b (coreList cs) CRLF))
    (hcl : cleanAll (delim b) (coreList cs) CRLF = true) (hfl : freshList K cs = true) :
    parse K (f + 1) (message (.multi h b cs)) = some (.multi h b cs) := by
  have hkids := parseList_core K cs f hf hfl
  cases cs with
  | nil =>
    simp only [coreList] at hK
    simp [parse, message, coreList, hK, splitBody_empty]
  | cons c cs' =>
    have hne : coreList (c :: cs') ≠ [] := coreList_ne_nil _ (by simp)
    simp only [parse, message, hK, splitBody_joinBody b _ CRLF hne hcl, hkids, Option.map_some]

/-! ### the concrete header reader, the writer's boundaries, observations for the correspondence -/

/-- first occurrence of a pattern: what precedes it and what follows it -/
def findSub (pat : Bytes) : Bytes → Option (Bytes × Bytes)
  | [] => if pat.isEmpty then some ([], []) else none
  | c :: s =>
    if hasPrefix (c :: s) pat then some ([], (c :: s).drop pat.length)
    else (findSub pat s).map (fun x => (c :: x.1, x.2))

def lit_ctMulti : Bytes := b!"content-type: multipart/"
def lit_boundary : Bytes := b!"; boundary=\""

/-- header block = everything up to and including the first empty line; an entity is a container when its header block has
a `Content-Type: multipart/…` field with a quoted `boundary` parameter (the form the writer produces) -/
def readHeader : HeaderReader := fun text =>
  match findSub (CRLF ++ CRLF) text with
  | none => none
  | some (h, body) =>
    if containsSub (toLower h) lit_ctMulti then
      match findSub lit_boundary h with
      | none => none
      | some (_, r) =>
        match findSub [34] r with
        | some (b, _) => some (h ++ CRLF ++ CRLF, b, body)
        | none => none
    else none

/-- `fmt.Sprintf("----=_Part_%s_%d", Subtype, id)`: the writer's boundary for the container stored as part row `id` -/
def boundaryFor (subtype : Bytes) (id : Nat) : Bytes :=
  let cap := match subtype with
    | [] => []
    | c :: cs => toUpperB c :: cs
  (b!"----=_Part_") ++ cap ++ [95] ++ Dec.print id

/-- the writer's header block of a container (`MIME-Version` only at the top) -/
def containerHeader (top : Bool) (ctype b : Bytes) : Bytes :=
  (if top then (b!"MIME-Version: 1.0\r\n") else []) ++ (b!"Content-Type: ") ++ ctype ++ (b!"; boundary=\"") ++ b ++ (b!"\"\r\n\r\n")

/-- a leaf's content as the writer emits it: a line end is appended unless there is one; as a part, the entity therefore
ends where that line end begins -/
def strip1 (c : Bytes) : Bytes := if hasSuffix c CRLF then c.take (c.length - 2) else c

mutual
/-- shape of a tree with the length of each leaf's body (the octets after the leaf's first empty line) -/
def digest : Tree → String
  | .leaf t =>
    match findSub (CRLF ++ CRLF) t with
    | some (_, body) => s!"L{body.length}"
    | none => "L-"
  | .multi _ b cs => "(" ++ digestList cs ++ ")" ++ s!"B{b.length}"
def digestList : List Tree → String
  | [] => ""
  | t :: ts => digest t ++ (if ts.isEmpty then "" else " ") ++ digestList ts
end

mutual
/-- the bodies of the leaves in document order, each with its IMAP section path -/
def leaves (pre : List Nat) : Tree → List (List Nat × Bytes)
  | .leaf t =>
    match findSub (CRLF ++ CRLF) t with
    | some (_, body) => [(pre, body)]
    | none => [(pre, [])]
  | .multi _ _ cs => leavesList pre 1 cs
def leavesList (pre : List Nat) (n : Nat) : List Tree → List (List Nat × Bytes)
  | [] => []
  | t :: ts => leaves (pre ++ [n]) t ++ leavesList pre (n + 1) ts
end

/-- number of parts of a container (0 for a leaf) -/
def width : Tree → Nat
  | .leaf _ => 0
  | .multi _ _ cs => cs.length

/-- a whole message as a reader takes it apart (the final line end of the text is the writer's) -/
def parseMessage (text : Bytes) : Option Tree :=
  match readHeader text with
  | none => some (.leaf (if hasSuffix text CRLF then text.take (text.length - 2) else text))
  | some (h, b, body) =>
    match splitBody b body with
    | none => none
    | some ps => (ps.mapM (parse readHeader (text.length + 1))).map (Tree.multi h b)

/-- the side conditions of `parse_message` for a whole message -/
def freshMessage : Tree → Bool
  | .leaf t => (readHeader (t ++ CRLF)).isNone
  | .multi h b cs =>
    (readHeader (h ++ joinBody b (coreList cs) CRLF) == some (h, b, joinBody b (coreList cs) CRLF)) &&
    cleanAll (delim b) (coreList cs) CRLF && freshList readHeader cs

def pathS (p : List Nat) : String := if p.isEmpty then "-" else ".".intercalate (p.map toString)

/-- what the correspondence asks about a fetched message text: is it in the image of the writer (`message (parse text) =
text`), do the side conditions of the theorem hold for it, its shape, and the body of every leaf with its section path -/
def observe (text : Bytes) : String :=
  match parseMessage text with
  | none => "unreadable"
  | some t =>
    let rt := message t == text
    s!"ok fresh={freshMessage t} image={rt} shape={(digest t).replace " " ","} " ++
      " ".intercalate ((leaves [] t).map (fun (p, b) => pathS p ++ ":" ++ hexOut b))

end Raven.Mime
