import RavenModel.Base.GoStr
import RavenModel.Gen.Plan
/-! The *plan* of an operation: its effects in the order the source has them now (`Gen.traces`, regenerated from /repo on
every run by harness/facts/plan.go: SQL statements, transaction brackets, replies, assignments to the session state, with the
repository's own calls inlined).  This file holds the decidable checks over plans and the lemmas that turn a checked plan
into the ordering facts the hand-written machines (`Durable`, `Deliver`, `Proto`, `Auth`) are built on: the machines'
statement order is thereby an obligation over what the code says, not something read off by hand once. -/
namespace Raven.Plan
open Raven

def trace (name : Bytes) : List Bytes :=
  match Gen.traces.find? (fun p => p.1 = name) with
  | some p => p.2
  | none => []

def isSqlWrite (e : Bytes) : Bool :=
  GoStr.hasPrefix e (b!"sql INSERT") || GoStr.hasPrefix e (b!"sql UPDATE") || GoStr.hasPrefix e (b!"sql DELETE") ||
  GoStr.hasPrefix e (b!"sql REPLACE") || e = (b!"sql ?")

/-- a write in a deferred call or in a goroutine happens at a moment the plan does not fix -/
def isDetachedWrite (e : Bytes) : Bool :=
  (GoStr.hasPrefix e (b!"defer ") || GoStr.hasPrefix e (b!"go ")) &&
  (GoStr.containsSub e (b!"sql INSERT") || GoStr.containsSub e (b!"sql UPDATE") || GoStr.containsSub e (b!"sql DELETE") ||
   GoStr.containsSub e (b!"tx commit"))

def isAck (e : Bytes) : Bool := e = (b!"reply OK") || e = (b!"reply 250")

/-- position of the first occurrence -/
def idx (e : Bytes) : List Bytes → Option Nat
  | [] => none
  | x :: xs => if x = e then some 0 else (idx e xs).map (· + 1)

def lastIdxAux (p : Bytes → Bool) : List Bytes → Nat → Option Nat → Option Nat
  | [], _, acc => acc
  | x :: xs, i, acc => lastIdxAux p xs (i + 1) (if p x then some i else acc)
/-- position of the last event satisfying `p` -/
def lastIdx (p : Bytes → Bool) (t : List Bytes) : Option Nat := lastIdxAux p t 0 none

def before (a b : Option Nat) : Bool :=
  match a, b with
  | some i, some j => i < j
  | _, _ => false

def nondecreasing : List Nat → Bool
  | a :: b :: r => a ≤ b && nondecreasing (b :: r)
  | _ => true

theorem nondecreasing_pairwise : ∀ l : List Nat, nondecreasing l = true → l.Pairwise (· ≤ ·)
  | [], _ => List.Pairwise.nil
  | [a], _ => List.pairwise_singleton _ a
  | a :: b :: r, h => by
    simp only [nondecreasing, Bool.and_eq_true, decide_eq_true_eq] at h
    have ih := nondecreasing_pairwise (b :: r) h.2
    refine List.Pairwise.cons ?_ ih
    intro x hx
    rcases List.mem_cons.mp hx with rfl | hx
    · exact h.1
    · exact Nat.le_trans h.1 (List.rel_of_pairwise_cons ih hx)

/-- the transaction bracket: walking the plan, is a transaction open at the end? (a deferred rollback is no event) -/
def openTxAtEnd : List Bytes → Bool → Bool
  | [], open' => open'
  | e :: r, open' =>
    if e = (b!"tx begin") then openTxAtEnd r true
    else if e = (b!"tx commit") then openTxAtEnd r false
    else openTxAtEnd r open'

/-- **acknowledged ⇒ committed** as a check over a plan: the last write is followed by an acknowledgement, every
transaction that was begun is committed in line (not in a deferred call) before the plan ends, and no write is detached. -/
def ackAfterCommit (t : List Bytes) : Bool :=
  before (lastIdx isSqlWrite t) (lastIdx isAck t) &&
  !openTxAtEnd t false &&
  !t.any isDetachedWrite &&
  (match lastIdx (· = (b!"tx commit")) t with
   | some c => before (some c) (lastIdx isAck t)
   | none => true)

/-- no event of the plan mentions the marker (e.g. `LIKE(`, `DISTINCT`, `MAX(uid)`) -/
def free (marker : Bytes) (t : List Bytes) : Bool := !t.any (fun e => GoStr.containsSub e marker)

def count (p : Bytes → Bool) (t : List Bytes) : Nat := (t.filter p).length

/-- the steps of the delivery machine `Durable` (message row; header, address, blob and part rows; UID allocation; link row;
acknowledgement) as the statements of the code -/
def deliveryPhase (e : Bytes) : Option Nat :=
  if e = (b!"sql INSERT messages") then some 0
  else if e = (b!"sql INSERT message_headers") || e = (b!"sql INSERT addresses") || e = (b!"sql INSERT message_parts") ||
          e = (b!"sql INSERT blobs") || e = (b!"sql UPDATE blobs") then some 1
  else if e = (b!"sql UPDATE mailboxes RETURNING") then some 2
  else if e = (b!"sql INSERT message_mailbox") then some 3
  else if isAck e then some 4
  else none

/-- all five steps occur, in the machine's order -/
def deliveryOrder (t : List Bytes) : Bool :=
  let ph := t.filterMap deliveryPhase
  nondecreasing ph && ph.contains 0 && ph.contains 1 && ph.contains 2 && ph.contains 3 && ph.contains 4 &&
  (ph.filter (· = 3)).length = 1 && (ph.filter (· = 2)).length = 1

def sqlOnly (t : List Bytes) : List Bytes := t.filter (fun e => GoStr.hasPrefix e (b!"sql "))

/-- the events between the first `tx begin` and the following `tx commit` -/
def inTx (t : List Bytes) : List Bytes :=
  ((t.dropWhile (· ≠ (b!"tx begin"))).drop 1).takeWhile (· ≠ (b!"tx commit"))

/-- the read deadlines (ms) armed in a function, ascending -/
def deadlinesAt (f : Bytes) : List Int := (Gen.deadlines.filter (fun d => d.at' = f)).map (·.ms)

theorem free_spec (m : Bytes) (t : List Bytes) (h : free m t = true) : ∀ e ∈ t, GoStr.containsSub e m = false := by
  intro e he
  simp only [free, Bool.not_eq_true', List.any_eq_false] at h
  simpa using h e he

end Raven.Plan
