import RavenModel.Model.Mail
/-! EXPUNGE notices vs a client's view; ranks by OFFSET, by COUNT(uid ≤ ·) (C09). -/
namespace Raven.Mail
open Raven

/-- client side: remove the n-th (1-based) element of the view -/
def removeNth {β} : Nat → List β → List β
  | _, [] => []
  | 0, xs => xs            -- `* 0 EXPUNGE` is not a valid notice: ignored
  | 1, _ :: xs => xs
  | n+2, x :: xs => x :: removeNth (n+1) xs

/-- a client applying the untagged EXPUNGE responses in order -/
def replay {β} (view : List β) (ns : List Nat) : List β := ns.foldl (fun v n => removeNth n v) view

theorem removeNth_append {β} (pre : List β) (x : β) (post : List β) :
    removeNth (pre.length + 1) (pre ++ x :: post) = pre ++ post := by
  induction pre with
  | nil => simp [removeNth]
  | cons a as ih =>
    simp only [List.length_cons, List.cons_append]
    show removeNth (as.length + 2) (a :: (as ++ x :: post)) = _
    simp [removeNth, ih]

/-- generalised: `kept` are the survivors already passed (the client's view prefix) -/
theorem replay_notices (doomed : Link → Bool) (kept : List Link) (xs : List Link) (r k : Nat)
    (hr : r = kept.length + k + 1) :
    replay (kept ++ xs) (notices doomed r k xs) = kept ++ xs.filter (fun l => !doomed l) := by
  induction xs generalizing kept r k with
  | nil => simp [notices, replay]
  | cons x xs ih =>
    by_cases hd : doomed x = true
    · simp only [notices, hd, if_true, replay, List.foldl_cons]
      have : r - k = kept.length + 1 := by omega
      rw [this, removeNth_append]
      have := ih kept (r+1) (k+1) (by omega)
      simpa [replay, hd] using this
    · simp only [notices, hd, if_false, Bool.false_eq_true]
      have := ih (kept ++ [x]) (r+1) k (by simp; omega)
      simpa [replay, hd] using this

theorem expunge_replay (doomed : Link → Bool) (xs : List Link) :
    replay xs (notices doomed 1 0 xs) = xs.filter (fun l => !doomed l) := by
  simpa using replay_notices doomed [] xs 1 0 (by simp)

/-! ranks -/
theorem filter_le_head (a : Nat) (l : List Nat) (h : (a :: l).Pairwise (· < ·)) :
    (a :: l).filter (· ≤ a) = [a] := by
  rw [List.pairwise_cons] at h
  simp only [List.filter_cons, Nat.le_refl, decide_true, if_true]
  congr 1
  apply List.filter_eq_nil_iff.mpr
  intro x hx
  have := h.1 x hx
  simp only [decide_eq_true_eq]; omega

/-- in a strictly ascending list, the number of elements `≤ l[i]` is `i + 1`: rank by `COUNT(uid <= ?)` equals
rank by `OFFSET`/`ROW_NUMBER` -/
theorem count_le_eq_index (l : List Nat) (h : l.Pairwise (· < ·)) (i : Nat) (x : Nat) (hx : l[i]? = some x) :
    (l.filter (· ≤ x)).length = i + 1 := by
  induction l generalizing i with
  | nil => simp at hx
  | cons a as ih =>
    cases i with
    | zero =>
      simp only [List.getElem?_cons_zero, Option.some.injEq] at hx; subst hx
      rw [filter_le_head a as h]; rfl
    | succ j =>
      simp only [List.getElem?_cons_succ] at hx
      have hp := List.pairwise_cons.mp h
      have hmem : x ∈ as := List.mem_of_getElem? hx
      have hax : a < x := hp.1 x hmem
      simp only [List.filter_cons, show decide (a ≤ x) = true by simp; omega, if_true, List.length_cons]
      rw [ih hp.2 j hx]

end Raven.Mail
