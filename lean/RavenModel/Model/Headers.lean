import RavenModel.Base.Bytes
/-! `parser.extractAllHeaders` and the header re-rendering loop of `ReconstructMessage…` (C02.1). Lines are the physical lines of the
header block, already split and stripped of CR LF. -/
namespace Raven.Hdr
open Raven

def isWs (c : UInt8) : Bool := c = 32 || (9 ≤ c && c ≤ 13)
def trimL : Bytes → Bytes
  | [] => []
  | c :: cs => if isWs c then trimL cs else c :: cs
def trimR (s : Bytes) : Bytes := (trimL s.reverse).reverse
def trim (s : Bytes) : Bytes := trimR (trimL s)

/-- split at the first colon -/
def cut : Bytes → Option (Bytes × Bytes)
  | [] => none
  | c :: cs => if c = 58 then some ([], cs) else (cut cs).map (fun p => (c :: p.1, p.2))

def isCont (l : Bytes) : Bool := match l with
  | c :: _ => c = 32 || c = 9
  | [] => false

/-- a stored header: name, and the value as its list of physical lines (first line trimmed, continuation lines raw);
    the Go code keeps them joined with CRLF in one string -/
structure H where
  name : Bytes
  lines : List Bytes
deriving Repr, DecidableEq

/-- mirrors extractAllHeaders on the header block (the lines before the first empty line).
    `cur` = header being accumulated (its lines reversed) -/
def extract : Option (Bytes × List Bytes) → List Bytes → List H
  | cur, [] => match cur with
    | some (n, ls) => [⟨n, ls.reverse⟩]
    | none => []
  | cur, l :: rest =>
    if isCont l then
      match cur with
      | some (n, ls) => extract (some (n, l :: ls)) rest
      | none => extract none rest                       -- continuation of a malformed line: dropped
    else
      let flush : List H := match cur with
        | some (n, ls) => [⟨n, ls.reverse⟩]
        | none => []
      match cut l with
      | some (n, v) => flush ++ extract (some (trim n, [trim v])) rest
      | none => flush ++ extract none rest              -- malformed header line: skipped

/-- mirrors the "%s: %s\r\n" loop (value lines re-joined with CRLF), as physical lines -/
def renderH (h : H) : List Bytes := match h.lines with
  | [] => [h.name ++ [58, 32]]
  | v :: more => (h.name ++ [58, 32] ++ v) :: more
def render (hs : List H) : List Bytes := hs.flatMap renderH

/-- what the property allows to change: white space around the name and around the first-line value -/
def normalise (l : Bytes) : Bytes :=
  if isCont l then l else
  match cut l with
  | some (n, v) => trim n ++ [58, 32] ++ trim v
  | none => l

def WellFormed (ls : List Bytes) : Prop :=
  (∀ l ∈ ls, isCont l = true ∨ (cut l).isSome) ∧ (match ls with | l :: _ => isCont l = false | [] => True)

/-- order, names and values of the header fields survive storage; only surrounding white space changes -/
theorem render_extract (cur : Option (Bytes × List Bytes)) (ls : List Bytes)
    (h : ∀ l ∈ ls, isCont l = true ∨ (cut l).isSome)
    (hcur : match cur with | some (_, acc) => acc ≠ [] | none => ∀ l ∈ ls.take 1, isCont l = false) :
    render (extract cur ls) =
      (match cur with | some (n, acc) => renderH ⟨n, acc.reverse⟩ | none => []) ++ ls.map normalise := by
  induction ls generalizing cur with
  | nil =>
    cases cur with
    | none => simp [extract, render]
    | some p => obtain ⟨n, acc⟩ := p; simp [extract, render]
  | cons l rest ih =>
    have hl := h l (by simp)
    have hrest : ∀ x ∈ rest, isCont x = true ∨ (cut x).isSome := fun x hx => h x (by simp [hx])
    by_cases hc : isCont l = true
    · -- continuation line
      cases cur with
      | none =>
        have := hcur l (by simp)
        rw [hc] at this; exact absurd this (by decide)
      | some p =>
        obtain ⟨n, acc⟩ := p
        simp only [extract, hc, if_true]
        rw [ih (some (n, l :: acc)) hrest (by simp)]
        simp only [List.map_cons, normalise, hc, if_true]
        -- renderH of (acc ++ [l]) = renderH acc ++ [l]  when acc ≠ []
        have hne : acc.reverse ≠ [] := by simpa using hcur
        cases hr : acc.reverse with
        | nil => exact absurd hr hne
        | cons v more =>
          simp [renderH, List.reverse_cons, hr]
    · -- a new header line
      have hc' : isCont l = false := by simpa using hc
      have hcut : (cut l).isSome := by
        rcases hl with h1 | h1
        · exact absurd h1 hc
        · exact h1
      obtain ⟨⟨n', v'⟩, hcv⟩ := Option.isSome_iff_exists.mp hcut
      simp only [extract, hc', Bool.false_eq_true, if_false, hcv]
      have hrender_app : ∀ a b, render (a ++ b) = render a ++ render b := by
        intro a b; simp [render]
      rw [hrender_app, ih (some (trim n', [trim v'])) hrest (by simp)]
      simp only [List.map_cons, normalise, hc', Bool.false_eq_true, if_false, hcv, List.reverse_cons, List.reverse_nil, List.nil_append]
      cases cur with
      | none => simp [render, renderH]
      | some p => obtain ⟨n, acc⟩ := p; simp [render, renderH]
end Raven.Hdr
