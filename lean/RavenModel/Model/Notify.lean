/-! The counters behind `* n EXISTS`: what NOOP, the command loop's `announceNewMessages` and IDLE tell a session that keeps a
mailbox selected while messages arrive.  The session keeps `last` (`state.LastMessageCount`: the count it has announced);
IDLE keeps a counter of its own (`prev`, a local of `HandleIdle`) and leaves `last` alone.  `told` is the client's side: the
number of messages it knows of.  Removals by other sessions are outside this model (finding C09-F1); the session's own
EXPUNGE is `Model/SessionView`. -/
namespace Raven.Notify

structure St where
  srv : Nat    -- messages in the mailbox
  last : Nat   -- state.LastMessageCount
  prev : Nat   -- HandleIdle's prevCount
  told : Nat   -- the client's count: the last EXISTS it received
deriving Repr, DecidableEq

inductive Ev where
  | arrive                 -- a delivery, another session's APPEND or COPY
  | noop                   -- NOOP / CHECK / announceNewMessages: `if count > last then EXISTS count`; `last := count`
  | idleBegin              -- `prevCount := count`
  | idlePoll               -- `if count > prevCount then EXISTS count`; `prevCount := count`
  | idleEnd                -- DONE: nothing is written back
  | idleEndWriteBack       -- the variant that stores IDLE's counter in the session (`state.LastMessageCount = prevCount`)
deriving Repr, DecidableEq

def step (s : St) : Ev → St
  | .arrive => { s with srv := s.srv + 1 }
  | .noop => { s with told := if s.srv > s.last then s.srv else s.told, last := s.srv }
  | .idleBegin => { s with prev := s.srv }
  | .idlePoll => { s with told := if s.srv > s.prev then s.srv else s.told, prev := s.srv }
  | .idleEnd => s
  | .idleEndWriteBack => { s with last := s.prev }

def run (s : St) (es : List Ev) : St := es.foldl step s

/-- SELECT: the client is told the count, the session records it -/
def select (n : Nat) : St := ⟨n, n, 0, n⟩

/-- what the session has announced never runs ahead of what the client was told, which never runs ahead of the mailbox -/
def Inv (s : St) : Prop := s.last ≤ s.told ∧ s.told ≤ s.srv

def current : Ev → Bool
  | .idleEndWriteBack => false
  | _ => true

theorem inv_select (n : Nat) : Inv (select n) := ⟨Nat.le_refl _, Nat.le_refl _⟩

theorem inv_step (s : St) (e : Ev) (h : Inv s) (he : current e = true) : Inv (step s e) := by
  obtain ⟨h1, h2⟩ := h
  cases e with
  | arrive => exact ⟨h1, Nat.le_succ_of_le h2⟩
  | noop =>
    simp only [step, Inv]
    by_cases hc : s.srv > s.last
    · simp [hc]
    · simp only [hc, if_false]; omega
  | idleBegin => exact ⟨h1, h2⟩
  | idlePoll =>
    simp only [step, Inv]
    by_cases hc : s.srv > s.prev
    · simp only [hc, if_true]; omega
    · simp only [hc, if_false]; exact ⟨h1, h2⟩
  | idleEnd => exact ⟨h1, h2⟩
  | idleEndWriteBack => simp [current] at he

theorem inv_run (es : List Ev) : ∀ (s : St), Inv s → (∀ e ∈ es, current e = true) → Inv (run s es) := by
  induction es with
  | nil => intro s h _; exact h
  | cons e es ih =>
    intro s h hall
    exact ih (step s e) (inv_step s e h (hall e (List.mem_cons_self ..))) (fun x hx => hall x (List.mem_cons_of_mem _ hx))

/-- after a NOOP the client knows of exactly the messages there are -/
theorem noop_tells_all (s : St) (h : Inv s) : (step s .noop).told = (step s .noop).srv := by
  obtain ⟨h1, h2⟩ := h
  simp only [step]
  by_cases hc : s.srv > s.last
  · simp [hc]
  · simp only [hc, if_false]; omega

end Raven.Notify
