import RavenModel.Base.GoStr
/-! Go's slice expression as a partial function (`none` = the run-time panic "slice bounds out of range"), the index
functions whose results the code slices with, and the hand-written slicing cores of the response builders: the address cut
of `parseAddressList`, the partial-range cut of FETCH `BODY[…]<start.len>`, the header/body cut at the first blank line. -/
namespace Raven.Slices
open Raven Raven.GoStr

/-- `s[lo:hi]` -/
def slice (s : Bytes) (lo hi : Int) : Option Bytes :=
  if 0 ≤ lo ∧ lo ≤ hi ∧ hi ≤ (s.length : Int) then some ((s.drop lo.toNat).take (hi - lo).toNat) else none

theorem slice_isSome (s : Bytes) (lo hi : Int) : (slice s lo hi).isSome = true ↔ 0 ≤ lo ∧ lo ≤ hi ∧ hi ≤ (s.length : Int) := by
  unfold slice; split <;> simp_all

/-- `strings.IndexByte` (`none` = -1) -/
def indexByte (c : UInt8) : Bytes → Option Nat
  | [] => none
  | x :: xs => if x = c then some 0 else (indexByte c xs).map (· + 1)

theorem indexByte_lt (c : UInt8) : ∀ (s : Bytes) (i : Nat), indexByte c s = some i → i < s.length
  | [], _, h => by simp [indexByte] at h
  | x :: xs, i, h => by
    unfold indexByte at h
    split at h
    · cases h; simp
    · cases hq : indexByte c xs with
      | none => simp [hq] at h
      | some j =>
        simp [hq] at h; subst h
        have := indexByte_lt c xs j hq
        simp; omega

/-- `strings.Index` (`none` = -1) -/
def indexSub (sub : Bytes) : Bytes → Option Nat
  | [] => if sub = [] then some 0 else none
  | x :: xs => if hasPrefix (x :: xs) sub then some 0 else (indexSub sub xs).map (· + 1)

theorem hasPrefix_length : ∀ (s p : Bytes), hasPrefix s p = true → p.length ≤ s.length
  | _, [], _ => by simp
  | [], _ :: _, h => by simp [hasPrefix] at h
  | a :: s, b :: p, h => by
    simp only [hasPrefix, Bool.and_eq_true] at h
    have := hasPrefix_length s p h.2
    simp; omega

/-- what makes every `s[idx+len(sub):]` and `s[:idx+len(sub)]` of the code safe -/
theorem indexSub_bound (sub : Bytes) : ∀ (s : Bytes) (i : Nat), indexSub sub s = some i → i + sub.length ≤ s.length
  | [], i, h => by
    unfold indexSub at h
    split at h
    · cases h; simp_all
    · cases h
  | x :: xs, i, h => by
    unfold indexSub at h
    split at h
    · rename_i hp; cases h; have := hasPrefix_length _ _ hp; omega
    · cases hq : indexSub sub xs with
      | none => simp [hq] at h
      | some j =>
        simp [hq] at h; subst h
        have := indexSub_bound sub xs j hq
        simp; omega

/-! ## header / body cut: `idx := strings.Index(msg, "\r\n\r\n"); msg[idx+4:]`, `msg[:idx+4]` -/
def crlf2 : Bytes := [13, 10, 13, 10]
def bodyCut (msg : Bytes) : Option Bytes :=
  match indexSub crlf2 msg with
  | some i => slice msg (i + 4) msg.length
  | none => some []
def headerCut (msg : Bytes) : Option Bytes :=
  match indexSub crlf2 msg with
  | some i => slice msg 0 (i + 4)
  | none => some msg

theorem bodyCut_total (msg : Bytes) : (bodyCut msg).isSome = true := by
  unfold bodyCut
  split
  · rename_i i h
    have := indexSub_bound crlf2 msg i h
    simp only [crlf2, List.length_cons, List.length_nil] at this
    rw [slice_isSome]; omega
  · rfl
theorem headerCut_total (msg : Bytes) : (headerCut msg).isSome = true := by
  unfold headerCut
  split
  · rename_i i h
    have := indexSub_bound crlf2 msg i h
    simp only [crlf2, List.length_cons, List.length_nil] at this
    rw [slice_isSome]; omega
  · rfl

/-! ## the partial-range cut: `<start.len>` after a section, scanned with `%d.%d` (so both numbers may be negative and as
large as an int64) -/
/-- the origin to print (`none`: the range is ignored and the whole payload answered) and the octets -/
def partialCut (payload : Bytes) (start len : Int) : Option (Option Nat × Bytes) :=
  if 0 ≤ start ∧ 0 ≤ len then
    if start < (payload.length : Int) then
      let endPos : Int := if len < (payload.length : Int) - start then start + len else payload.length
      (slice payload start endPos).map (fun b => (some start.toNat, b))
    else some (some start.toNat, [])
  else some (none, payload)

theorem partialCut_total (p : Bytes) (s l : Int) : (partialCut p s l).isSome = true := by
  unfold partialCut
  split
  · split
    · simp only [Option.isSome_map]
      rw [slice_isSome]
      split <;> omega
    · rfl
  · rfl

/-- within int64, no wrap-around is involved: every intermediate value lies between 0 and the payload length -/
theorem partialCut_spec (p : Bytes) (s l : Int) (hs : 0 ≤ s) (hl : 0 ≤ l) :
    partialCut p s l = some (some s.toNat, (p.drop s.toNat).take l.toNat) := by
  unfold partialCut
  simp only [hs, hl, and_self, if_true]
  split
  · rename_i hlt
    split
    · rename_i h2
      have : slice p s (s + l) = some ((p.drop s.toNat).take l.toNat) := by
        unfold slice
        have h3 : 0 ≤ s ∧ s ≤ s + l ∧ s + l ≤ (p.length : Int) := by omega
        simp only [h3, and_self, if_true]
        congr 2
        omega
      simp [this]
    · rename_i h2
      have : slice p s p.length = some (p.drop s.toNat) := by
        unfold slice
        have h3 : 0 ≤ s ∧ s ≤ (p.length : Int) ∧ (p.length : Int) ≤ (p.length : Int) := by omega
        simp only [h3, and_self, if_true]
        congr 1
        apply List.take_of_length_le
        simp; omega
      simp only [this, Option.map_some]
      congr 2
      symm
      apply List.take_of_length_le
      simp; omega
  · rename_i h2
    congr 2
    have : p.length ≤ s.toNat := by omega
    simp [List.drop_eq_nil_of_le this]

/-! ## the address cut of `parseAddressList` -/
/-- `indexUnquoted`: the first `c` that is not inside a quoted string (where a backslash quotes the next octet) -/
def indexUnq (c : UInt8) : Bytes → Bool → Option Nat
  | [], _ => none
  | x :: xs, q =>
    if x = b_bs ∧ q = true then
      match xs with
      | _ :: ds => (indexUnq c ds q).map (· + 2)
      | [] => none
    else if x = b_dq then (indexUnq c xs (!q)).map (· + 1)
    else if x = c ∧ q = false then some 0
    else (indexUnq c xs q).map (· + 1)

theorem indexUnq_spec (c : UInt8) (s : Bytes) (q : Bool) (i : Nat) (h : indexUnq c s q = some i) :
    s = s.take i ++ c :: s.drop (i + 1) := by
  fun_induction indexUnq c s q generalizing i
  case case1 => cases h
  case case3 => cases h
  case case5 hx => cases h; obtain ⟨rfl, _⟩ := hx; simp
  case case2 ih =>
    simp only [Option.map_eq_some_iff] at h
    obtain ⟨j, hj, rfl⟩ := h
    have := ih j hj
    show _ = List.take (j + 1 + 1) _ ++ c :: List.drop (j + 1 + 1 + 1) _
    simp only [List.take_succ_cons, List.drop_succ_cons, List.cons_append]
    rw [← this]
  all_goals
    rename_i ih
    simp only [Option.map_eq_some_iff] at h
    obtain ⟨j, hj, rfl⟩ := h
    have := ih j hj
    simp only [List.take_succ_cons, List.drop_succ_cons, List.cons_append]
    rw [← this]

theorem indexUnq_lt (c : UInt8) (s : Bytes) (q : Bool) (i : Nat) (h : indexUnq c s q = some i) : i < s.length := by
  have h1 := congrArg List.length (indexUnq_spec c s q i h)
  simp only [List.length_append, List.length_cons, List.length_take, List.length_drop] at h1
  omega
theorem indexByte_spec (c : UInt8) : ∀ (s : Bytes) (i : Nat), indexByte c s = some i →
    s = s.take i ++ c :: s.drop (i + 1) ∧ c ∉ s.take i
  | [], _, h => by simp [indexByte] at h
  | x :: xs, i, h => by
    unfold indexByte at h
    split at h
    · rename_i hx; cases h; subst hx; simp
    · rename_i hx
      cases hq : indexByte c xs with
      | none => simp [hq] at h
      | some j =>
        simp [hq] at h; subst h
        obtain ⟨h1, h2⟩ := indexByte_spec c xs j hq
        refine ⟨?_, ?_⟩
        · simp only [List.take_succ_cons, List.drop_succ_cons, List.cons_append]
          rw [← h1]
        · simp only [List.take_succ_cons, List.mem_cons, not_or]
          exact ⟨fun e => hx e.symm, h2⟩

theorem indexByte_none (c : UInt8) : ∀ (s : Bytes), indexByte c s = none → c ∉ s
  | [], _ => by simp
  | x :: xs, h => by
    unfold indexByte at h
    split at h
    · cases h
    · rename_i hx
      cases hq : indexByte c xs with
      | none => simp only [List.mem_cons, not_or]; exact ⟨fun e => hx e.symm, indexByte_none c xs hq⟩
      | some j => simp [hq] at h

/-- `name = addr[:start]`, `email = addr[start+1:end]` when an unquoted `<` precedes the first unquoted `>`; otherwise the whole
text is the address -/
def addrCut (addr : Bytes) : Option (Bytes × Bytes) :=
  match indexUnq 60 addr false, indexUnq 62 addr false with
  | some st, some en =>
    if st < en then
      match slice addr 0 st, slice addr (st + 1) en with
      | some n, some e => some (n, e)
      | _, _ => none
    else some ([], addr)
  | _, _ => some ([], addr)

theorem addrCut_total (addr : Bytes) : (addrCut addr).isSome = true := by
  unfold addrCut
  split
  · rename_i st en h1 h2
    have := indexUnq_lt 62 addr false en h2
    split
    · rename_i hlt
      have a : (slice addr 0 st).isSome = true := by rw [slice_isSome]; omega
      have b : (slice addr (st + 1) en).isSome = true := by rw [slice_isSome]; omega
      cases ha : slice addr 0 st <;> cases hb : slice addr (↑st + 1) ↑en <;> simp_all
    · rfl
  · rfl

/-- the address cut takes the header text apart without losing or inventing an octet: either the whole text is the address, or
the text is `name < address > rest` -/
theorem addrCut_faithful (addr n e : Bytes) (h : addrCut addr = some (n, e)) :
    (n = [] ∧ e = addr) ∨ (∃ rest, addr = n ++ 60 :: (e ++ 62 :: rest)) := by
  unfold addrCut at h
  split at h
  · rename_i st en h1 h2
    split at h
    · rename_i hlt
      have a1 := indexUnq_spec 60 addr false st h1
      have b1 := indexUnq_spec 62 addr false en h2
      have hen := indexUnq_lt 62 addr false en h2
      have hs1 : slice addr 0 st = some (addr.take st) := by
        unfold slice
        have : (0:Int) ≤ 0 ∧ (0:Int) ≤ (st:Int) ∧ (st:Int) ≤ (addr.length:Int) := by omega
        simp [this]
      have hs2 : slice addr (st + 1) en = some ((addr.drop (st + 1)).take (en - (st + 1))) := by
        unfold slice
        have : (0:Int) ≤ (st:Int) + 1 ∧ (st:Int) + 1 ≤ (en:Int) ∧ (en:Int) ≤ (addr.length:Int) := by omega
        simp only [this, and_self, if_true]
        congr 2 <;> omega
      simp only [hs1, hs2, Option.some.injEq, Prod.mk.injEq] at h
      obtain ⟨rfl, rfl⟩ := h
      right
      refine ⟨addr.drop (en + 1), ?_⟩
      have hd : addr.drop (st + 1) = (addr.drop (st + 1)).take (en - (st + 1)) ++ (addr.drop (st + 1)).drop (en - (st + 1)) :=
        (List.take_append_drop _ _).symm
      have hdd : (addr.drop (st + 1)).drop (en - (st + 1)) = addr.drop en := by
        rw [List.drop_drop]; congr 1; omega
      have hde : addr.drop en = 62 :: addr.drop (en + 1) := by
        have := congrArg (List.drop en) b1
        rw [List.drop_left' (by simp; omega)] at this
        exact this
      rw [hdd, hde] at hd
      calc addr = addr.take st ++ 60 :: addr.drop (st + 1) := a1
        _ = _ := by rw [← hd]
    · simp only [Option.some.injEq, Prod.mk.injEq] at h
      exact Or.inl ⟨h.1.symm, h.2.symm⟩
  · simp only [Option.some.injEq, Prod.mk.injEq] at h
    exact Or.inl ⟨h.1.symm, h.2.symm⟩

def trimQuotes (s : Bytes) : Bytes := trimP (· = b_dq) s

/-- one address: (name, mailbox, host) -/
def parseOne (addr : Bytes) : Option (Bytes × Bytes × Bytes) :=
  (addrCut addr).map fun (n, e) =>
    let name := trimQuotes (trimSpace n)
    match indexByte 64 e with
    | some i => (name, e.take i, e.drop (i + 1))
    | none => (name, e, [])

/-- mailbox and host are the address cut at its first `@` (no `@`: all mailbox), the display name is the text before `<`
without surrounding blanks and quotes -/
theorem parseOne_faithful (addr name mb host : Bytes) (h : parseOne addr = some (name, mb, host)) :
    ∃ n e, addrCut addr = some (n, e) ∧ name = trimQuotes (trimSpace n) ∧
      ((e = mb ++ 64 :: host ∧ 64 ∉ mb) ∨ (64 ∉ e ∧ mb = e ∧ host = [])) := by
  unfold parseOne at h
  cases hc : addrCut addr with
  | none => simp [hc] at h
  | some p =>
    obtain ⟨n, e⟩ := p
    refine ⟨n, e, rfl, ?_⟩
    simp only [hc, Option.map_some, Option.some.injEq] at h
    cases hi : indexByte 64 e with
    | none =>
      simp only [hi, Prod.mk.injEq] at h
      obtain ⟨rfl, rfl, rfl⟩ := h
      exact ⟨rfl, Or.inr ⟨indexByte_none 64 e hi, rfl, rfl⟩⟩
    | some i =>
      simp only [hi, Prod.mk.injEq] at h
      obtain ⟨rfl, rfl, rfl⟩ := h
      obtain ⟨h1, h2⟩ := indexByte_spec 64 e i hi
      exact ⟨rfl, Or.inl ⟨h1, h2⟩⟩
/-- `splitAddressList`: split at the commas that separate addresses — not those inside a quoted display name (where a
backslash quotes the next octet) or inside angle brackets -/
def splitAddrAux : Bytes → Bool → Bool → Bytes → List Bytes
  | [], _, _, cur => [cur.reverse]
  | c :: cs, q, a, cur =>
    if c = b_bs ∧ q = true then
      match cs with
      | d :: ds => splitAddrAux ds q a (d :: c :: cur)
      | [] => [(c :: cur).reverse]
    else if c = b_dq then splitAddrAux cs (!q) a (c :: cur)
    else if c = 60 ∧ q = false then splitAddrAux cs q true (c :: cur)
    else if c = 62 ∧ q = false then splitAddrAux cs q false (c :: cur)
    else if c = b_comma ∧ q = false ∧ a = false then cur.reverse :: splitAddrAux cs q a []
    else splitAddrAux cs q a (c :: cur)
def splitAddresses (s : Bytes) : List Bytes := splitAddrAux s false false []

theorem splitAddrAux_ne_nil (s : Bytes) (q a : Bool) (cur : Bytes) : splitAddrAux s q a cur ≠ [] := by
  fun_induction splitAddrAux s q a cur <;> simp_all

theorem joinWith_cons (sep : UInt8) (x : Bytes) (l : List Bytes) (h : l ≠ []) :
    joinWith sep (x :: l) = x ++ sep :: joinWith sep l := by
  cases l with
  | nil => exact absurd rfl h
  | cons y r => rfl

/-- the split loses nothing: the pieces, put together again with the commas that separated them, are the header value -/
theorem splitAddrAux_join (s : Bytes) (q a : Bool) (cur : Bytes) :
    joinWith b_comma (splitAddrAux s q a cur) = cur.reverse ++ s := by
  fun_induction splitAddrAux s q a cur
  case case7 ih =>
    rw [joinWith_cons _ _ _ (splitAddrAux_ne_nil _ _ _ _), ih]
    simp_all
  all_goals simp_all [joinWith]

theorem splitAddresses_join (s : Bytes) : joinWith b_comma (splitAddresses s) = s := by
  simpa [splitAddresses] using splitAddrAux_join s false false []
/-- the whole list: split at the separating commas, blank entries dropped -/
def addressList (s : Bytes) : Option (List (Bytes × Bytes × Bytes)) :=
  (((splitAddresses s).map trimSpace).filter (· ≠ [])).mapM parseOne

theorem mapM_total {α β : Type} (f : α → Option β) (h : ∀ a, (f a).isSome = true) : ∀ l : List α, (l.mapM f).isSome = true
  | [] => rfl
  | a :: l => by
    have ha := h a
    have hl := mapM_total f h l
    cases hfa : f a <;> cases hfl : l.mapM f <;> simp_all [List.mapM_cons]

theorem addressList_total (s : Bytes) : (addressList s).isSome = true := by
  unfold addressList
  apply mapM_total
  intro a
  unfold parseOne
  simp [addrCut_total]

/-! ## quoted argument: `arg[1:len(arg)-1]` under the guard the code uses -/
def unquoteCut (arg : Bytes) : Option Bytes :=
  if arg.length ≥ 2 ∧ arg.head? = some b_dq ∧ arg.getLast? = some b_dq then slice arg 1 (arg.length - 1) else some arg

theorem unquoteCut_total (arg : Bytes) : (unquoteCut arg).isSome = true := by
  unfold unquoteCut
  split
  · rw [slice_isSome]; omega
  · rfl

end Raven.Slices
