import RavenModel.Base.GoStr
/-! The LMTP session (internal/delivery/lmtp/session.go) and the DATA reader (parser.ReadDataCommand) as one machine
that consumes the byte stream line by line (`bufio.Reader.ReadString('\n')`). -/
namespace Raven.Lmtp
open Raven Raven.GoStr

/-- split at LF, every line keeping its LF; an unterminated tail is dropped (ReadString returns an error) -/
def linesAux : Bytes → Bytes → List Bytes
  | _, [] => []
  | cur, c :: cs => if c = b_lf then (cur.reverse ++ [c]) :: linesAux [] cs else linesAux (c :: cur) cs
def lines (s : Bytes) : List Bytes := linesAux [] s

def isTerm (l : Bytes) : Bool := l == [b_dot, b_cr, b_lf] || l == [b_dot, b_lf]

/-- `strings.HasPrefix(line, "..")` → drop one dot -/
def unstuff : Bytes → Bytes
  | a :: b :: r => if a = b_dot ∧ b = b_dot then b :: r else a :: b :: r
  | l => l

structure Cfg where
  maxSize : Nat
  maxRcpt : Nat
deriving Repr

/-- what the environment decides about a completed message: is it parsable (ParseMessage + ValidateMessage), and is
the delivery to a recipient successful -/
structure Env where
  accept : Bytes → Bool
  deliver : Bytes → Bytes → Bool

inductive Mode where
  | cmd
  | data (acc : Bytes) (size : Nat) (tooLarge : Bool)
deriving Repr, DecidableEq

structure St where
  helo : Bytes
  mailFrom : Bytes
  rcpts : List Bytes
  mode : Mode
  quit : Bool
deriving Repr, DecidableEq

def St.init : St := { helo := [], mailFrom := [], rcpts := [], mode := .cmd, quit := false }

abbrev Reply := Nat   -- the reply code; LHLO's five-line answer is five 250s

def fromPrefix : Bytes := b!"FROM:"
def toPrefix : Bytes := b!"TO:"

def trimLt (s : Bytes) : Bytes := match s with | 60 :: r => r | _ => s
def trimGt (s : Bytes) : Bytes := if s.getLast? = some 62 then s.dropLast else s

/-- `parseMailFrom`: prefix compared case-insensitively, stripped by length; brackets; first blank-separated field -/
def parseMailFrom (args0 : Bytes) : Option Bytes :=
  let args := trimSpace args0
  if !hasPrefix (toUpper args) fromPrefix then none
  else
    let a := trimGt (trimLt (trimSpace (args.drop 5)))
    match fields a with
    | p :: _ => some p
    | [] => some a

/-- `parseRcptTo`: as above; ESMTP parameters after the address are dropped; the domain is put in lower case -/
def parseRcptTo (args0 : Bytes) : Option Bytes :=
  let args := trimSpace args0
  if !hasPrefix (toUpper args) toPrefix then none
  else
    let a := trimSpace (args.drop 3)
    let a := match fields a with | p :: _ => p | [] => a
    some (lowerDomain (trimGt (trimLt a)))

/-- `strings.SplitN(line, " ", 2)` -/
def splitCmd : Bytes → Bytes × Bytes
  | [] => ([], [])
  | c :: cs => if c = b_sp then ([], cs) else let (a, b) := splitCmd cs; (c :: a, b)

def reset (st : St) : St := { st with mailFrom := [], rcpts := [], mode := .cmd }

/-- one reply per accepted recipient, in RCPT order -/
def endOfData (env : Env) (st : St) (msg : Option Bytes) : St × List Reply :=
  match msg with
  | none => (reset st, st.rcpts.map (fun _ => 554))                      -- over-size: rejectTransaction
  | some m =>
    if env.accept m then (reset st, st.rcpts.map (fun r => if env.deliver m r then 250 else 550))
    else (reset st, st.rcpts.map (fun _ => 554))                          -- unparsable: rejectTransaction

def stepCmd (cfg : Cfg) (st : St) (line0 : Bytes) : St × List Reply :=
  let line := trimSpace line0
  if line = [] then (st, [])
  else
    let (c, args) := splitCmd line
    let cmd := toUpper c
    if cmd = b!"LHLO" then
      if args = [] then (st, [501]) else ({ st with helo := args }, [250, 250, 250, 250, 250])
    else if cmd = b!"MAIL" then
      if st.helo = [] then (st, [503])
      else if st.mailFrom ≠ [] then (st, [503])
      else match parseMailFrom args with
        | none => (st, [501])
        | some f => ({ st with mailFrom := f }, [250])
    else if cmd = b!"RCPT" then
      if st.mailFrom = [] then (st, [503])
      else if st.rcpts.length ≥ cfg.maxRcpt then (st, [452])
      else match parseRcptTo args with
        | none => (st, [501])
        | some t => ({ st with rcpts := st.rcpts ++ [t] }, [250])
    else if cmd = b!"DATA" then
      if st.mailFrom = [] then (st, [503])
      else if st.rcpts = [] then (st, [503])
      else ({ st with mode := .data [] 0 false }, [354])
    else if cmd = b!"RSET" then (reset st, [250])
    else if cmd = b!"NOOP" then (st, [250])
    else if cmd = b!"QUIT" then ({ st with quit := true }, [221])
    else if cmd = b!"VRFY" then (st, [252])
    else if cmd = b!"HELP" then (st, [214])
    else (st, [500])

/-- one line of input -/
def stepLine (cfg : Cfg) (env : Env) (st : St) (line : Bytes) : St × List Reply :=
  if st.quit then (st, [])
  else match st.mode with
    | .cmd => stepCmd cfg st line
    | .data acc size tooLarge =>
      if isTerm line then endOfData env st (if tooLarge then none else some acc)
      else if tooLarge then (st, [])                                        -- discarded up to the terminator
      else
        let l := unstuff line
        let size' := size + l.length
        if size' > cfg.maxSize then ({ st with mode := .data [] size' true }, [])
        else ({ st with mode := .data (acc ++ l) size' false }, [])

def runLines (cfg : Cfg) (env : Env) : St → List Bytes → St × List Reply
  | st, [] => (st, [])
  | st, l :: ls =>
    let (st1, r1) := stepLine cfg env st l
    let (st2, r2) := runLines cfg env st1 ls
    (st2, r1 ++ r2)

/-- the whole session on a byte stream: greeting, then the replies -/
def run (cfg : Cfg) (env : Env) (input : Bytes) : List Reply := 220 :: (runLines cfg env St.init (lines input)).2

/-! ## client side of SMTP transparency (RFC 5321 §4.5.2) -/
def stuffLine : Bytes → Bytes
  | a :: r => if a = b_dot then b_dot :: a :: r else a :: r
  | [] => []
def stuff (body : List Bytes) : List Bytes := body.map stuffLine

theorem unstuff_stuff (l : Bytes) : unstuff (stuffLine l) = l := by
  cases l with
  | nil => simp [stuffLine, unstuff]
  | cons a r =>
    by_cases h : a = b_dot
    · subst h; simp [stuffLine, unstuff]
    · simp only [stuffLine, h, if_false]
      cases r with
      | nil => simp [unstuff]
      | cons b r' => simp [unstuff, h]

theorem stuff_not_term (l : Bytes) (hl : l ≠ []) : isTerm (stuffLine l) = false := by
  cases l with
  | nil => exact absurd rfl hl
  | cons a r =>
    by_cases h : a = b_dot
    · subst h
      simp [stuffLine, isTerm]
    · simp only [stuffLine, h, if_false, isTerm]
      simp [h]

/-- the DATA phase passes every body through exactly and returns to command mode at the terminator: none of the
body's lines is ever handed to the command interpreter, whatever they contain -/
theorem data_transparent (cfg : Cfg) (env : Env) (st : St) (body : List Bytes) (term : Bytes) (acc : Bytes) (size : Nat)
    (hq : st.quit = false) (hm : st.mode = .data acc size false)
    (hne : ∀ l ∈ body, l ≠ []) (hterm : isTerm term = true)
    (hsize : size + (body.flatten).length ≤ cfg.maxSize) :
    runLines cfg env st (stuff body ++ [term]) = endOfData env st (some (acc ++ body.flatten)) := by
  induction body generalizing st acc size with
  | nil =>
    simp only [stuff, List.map_nil, List.nil_append, runLines, stepLine, hq, hm, hterm, if_true,
      Bool.false_eq_true, if_false, List.flatten_nil, List.append_nil]
  | cons l ls ih =>
    have hl : l ≠ [] := hne l (by simp)
    have hsz : ¬ (size + l.length > cfg.maxSize) := by
      simp only [List.flatten_cons, List.length_append] at hsize; omega
    simp only [stuff, List.map_cons, List.cons_append, runLines, stepLine, hq, hm, stuff_not_term l hl,
      unstuff_stuff, Bool.false_eq_true, if_false, hsz, List.nil_append]
    have := ih { st with mode := .data (acc ++ l) (size + l.length) false } (acc ++ l) (size + l.length) hq rfl
      (fun x hx => hne x (by simp [hx])) (by simp only [List.flatten_cons, List.length_append] at hsize ⊢; omega)
    simp only [stuff, hq] at this
    rw [this]
    simp [endOfData, reset, List.append_assoc, hq]

/-- beyond the size limit the reader still consumes through the terminator (nothing of the message reaches the
command interpreter) and answers once per recipient -/
theorem oversize_in_step (cfg : Cfg) (env : Env) (st : St) (ls : List Bytes) (term : Bytes) (size : Nat)
    (hq : st.quit = false) (hm : st.mode = .data [] size true)
    (hnt : ∀ l ∈ ls, isTerm l = false) (hterm : isTerm term = true) :
    runLines cfg env st (ls ++ [term]) = endOfData env st none := by
  induction ls with
  | nil => simp [runLines, stepLine, hq, hm, hterm]
  | cons l rest ih =>
    have h1 : isTerm l = false := hnt l (by simp)
    simp only [List.cons_append, runLines, stepLine, hq, hm, h1, Bool.false_eq_true, if_false, if_true, List.nil_append]
    exact ih (fun x hx => hnt x (by simp [hx]))

/-- exactly one reply per accepted recipient, whatever the message; and the session is ready for the next transaction -/
theorem endOfData_replies (env : Env) (st : St) (msg : Option Bytes) :
    (endOfData env st msg).2.length = st.rcpts.length ∧
    (endOfData env st msg).1.mailFrom = [] ∧ (endOfData env st msg).1.rcpts = [] ∧ (endOfData env st msg).1.mode = .cmd := by
  unfold endOfData
  cases msg with
  | none => simp [reset]
  | some m => by_cases h : env.accept m = true <;> simp [h, reset]


/-! ## ordering and limits, for every input stream -/
/-- recipients exist only after an accepted MAIL, a sender only after LHLO, the DATA phase only with at least one
accepted recipient, and never more recipients than the limit -/
structure WF (cfg : Cfg) (st : St) : Prop where
  mailAfterHelo : st.mailFrom ≠ [] → st.helo ≠ []
  rcptAfterMail : st.rcpts ≠ [] → st.mailFrom ≠ []
  dataAfterRcpt : st.mode ≠ .cmd → st.rcpts ≠ []
  limit : st.rcpts.length ≤ cfg.maxRcpt

theorem wf_init (cfg : Cfg) : WF cfg St.init := ⟨by simp [St.init], by simp [St.init], by simp [St.init], by simp [St.init]⟩

theorem wf_reset (cfg : Cfg) (st : St) (h : WF cfg st) : WF cfg (reset st) := by
  have := h.limit
  exact ⟨by simp [reset], by simp [reset], by simp [reset], by simp [reset]⟩

theorem wf_stepCmd (cfg : Cfg) (st : St) (line : Bytes) (h : WF cfg st) (hm : st.mode = .cmd) : WF cfg (stepCmd cfg st line).1 := by
  unfold stepCmd
  simp only []
  split
  · exact h
  · split
    · split
      · exact h
      · rename_i ha
        exact ⟨fun _ => ha, h.rcptAfterMail, by simp [hm], h.limit⟩
    · split
      · split
        · exact h
        · split
          · exact h
          · split
            · exact h
            · rename_i hh hmf _ f hp
              refine ⟨fun _ => hh, fun hr => ?_, by simp [hm], h.limit⟩
              exact absurd (h.rcptAfterMail hr) (by simpa using hmf)
      · split
        · split
          · exact h
          · split
            · exact h
            · split
              · exact h
              · rename_i hmf hlim _ t hp
                refine ⟨h.mailAfterHelo, fun _ => hmf, by simp [hm], ?_⟩
                simp only [List.length_append, List.length_cons, List.length_nil]
                omega
        · split
          · split
            · exact h
            · split
              · exact h
              · rename_i hmf hr
                exact ⟨h.mailAfterHelo, h.rcptAfterMail, fun _ => hr, h.limit⟩
          · split
            · exact wf_reset cfg st h
            · split
              · exact h
              · split
                · exact ⟨h.mailAfterHelo, h.rcptAfterMail, by simp [hm], h.limit⟩
                · split
                  · exact h
                  · split <;> exact h

theorem wf_endOfData (cfg : Cfg) (env : Env) (st : St) (msg : Option Bytes) (h : WF cfg st) : WF cfg (endOfData env st msg).1 := by
  unfold endOfData
  cases msg with
  | none => exact wf_reset cfg st h
  | some m => simp only []; split <;> exact wf_reset cfg st h

theorem wf_stepLine (cfg : Cfg) (env : Env) (st : St) (line : Bytes) (h : WF cfg st) : WF cfg (stepLine cfg env st line).1 := by
  unfold stepLine
  split
  · exact h
  · split
    · rename_i hm; exact wf_stepCmd cfg st line h hm
    · rename_i acc size tl hm
      split
      · exact wf_endOfData cfg env st _ h
      · split
        · exact h
        · simp only []
          have hr : st.rcpts ≠ [] := h.dataAfterRcpt (by rw [hm]; simp)
          split
          · exact ⟨h.mailAfterHelo, h.rcptAfterMail, fun _ => hr, h.limit⟩
          · exact ⟨h.mailAfterHelo, h.rcptAfterMail, fun _ => hr, h.limit⟩

theorem wf_runLines (cfg : Cfg) (env : Env) (st : St) (ls : List Bytes) (h : WF cfg st) : WF cfg (runLines cfg env st ls).1 := by
  induction ls generalizing st with
  | nil => exact h
  | cons l rest ih => simp only [runLines]; exact ih _ (wf_stepLine cfg env st l h)

end Raven.Lmtp
