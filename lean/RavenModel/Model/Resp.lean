import RavenModel.Base.Dec
/-! IMAP response token trees, the renderer, a strict RFC 3501 reader and their round trip (C13). -/
namespace Raven.Resp
open Raven Raven.Dec

local notation "DQ" => (34 : UInt8)
local notation "BS" => (92 : UInt8)
local notation "CR" => (13 : UInt8)
local notation "LF" => (10 : UInt8)
local notation "SP" => (32 : UInt8)
local notation "LP" => (40 : UInt8)
local notation "RP" => (41 : UInt8)
local notation "LB" => (123 : UInt8)
local notation "RB" => (125 : UInt8)

/-! #### quoted strings -/
def escape : Bytes → Bytes
  | [] => []
  | c :: cs => if c = BS ∨ c = DQ then BS :: c :: escape cs else c :: escape cs
def quote (s : Bytes) : Bytes := DQ :: escape s ++ [DQ]

def QSafe (s : Bytes) : Prop := ∀ c ∈ s, c ≠ CR ∧ c ≠ LF ∧ c ≠ 0

/-- strict reader after the opening quote; `esc` = previous byte was an unescaped backslash -/
def readQ : Bool → Bytes → Option (Bytes × Bytes)
  | _, [] => none
  | true, c :: cs => if c = BS ∨ c = DQ then (readQ false cs).map (fun p => (c :: p.1, p.2)) else none
  | false, c :: cs =>
    if c = DQ then some ([], cs)
    else if c = CR ∨ c = LF ∨ c = 0 then none
    else if c = BS then readQ true cs
    else (readQ false cs).map (fun p => (c :: p.1, p.2))
def readQBody (b : Bytes) := readQ false b

theorem readQBody_escape (s rest : Bytes) (h : QSafe s) : readQBody (escape s ++ DQ :: rest) = some (s, rest) := by
  unfold readQBody
  induction s with
  | nil => simp [escape, readQ]
  | cons c cs ih =>
    have hc := h c (by simp)
    have ih' := ih (fun x hx => h x (by simp [hx]))
    by_cases hq : c = BS ∨ c = DQ
    · simp only [escape, hq, if_true, List.cons_append]
      rcases hq with rfl | rfl
      · simp [readQ, ih']
      · simp [readQ, ih']
    · simp only [escape, hq, if_false, List.cons_append]
      have h1 : c ≠ BS := fun e => hq (Or.inl e)
      have h2 : c ≠ DQ := fun e => hq (Or.inr e)
      simp [readQ, ih', h1, h2, hc.1, hc.2.1, hc.2.2]

/-! #### literals -/
def lit (s : Bytes) : Bytes := LB :: print s.length ++ [RB, CR, LF] ++ s

def spanDigits : Bytes → Bytes × Bytes
  | [] => ([], [])
  | c :: cs => if isDigit c then let (d, r) := spanDigits cs; (c :: d, r) else ([], c :: cs)

theorem spanDigits_print (ds rest : Bytes) (hd : ds.all isDigit = true) (c : UInt8) (hc : isDigit c = false) :
    spanDigits (ds ++ c :: rest) = (ds, c :: rest) := by
  induction ds with
  | nil => simp [spanDigits, hc]
  | cons d ds ih =>
    simp only [List.all_cons, Bool.and_eq_true] at hd
    simp [spanDigits, hd.1, ih hd.2]

def readLit : Bytes → Option (Bytes × Bytes)
  | c :: cs =>
    if c = LB then
      let (ds, r) := spanDigits cs
      match atoi ds, r with
      | some n, a :: b :: d :: r' =>
        if a = RB ∧ b = CR ∧ d = LF ∧ n ≤ r'.length then some (r'.take n, r'.drop n) else none
      | _, _ => none
    else none
  | [] => none

theorem print_all_digits (n : Nat) : (print n).all isDigit = true := by
  rw [List.all_eq_true]; intro b hb
  obtain ⟨d, hd, rfl⟩ := List.mem_map.mp hb
  exact isDigit_digitChar d (toDigits_lt n d hd)

theorem readLit_lit (s rest : Bytes) : readLit (lit s ++ rest) = some (s, rest) := by
  have hsp : spanDigits (print s.length ++ RB :: (CR :: LF :: (s ++ rest))) = (print s.length, RB :: (CR :: LF :: (s ++ rest))) :=
    spanDigits_print _ _ (print_all_digits _) RB (by decide)
  have hshape : lit s ++ rest = LB :: (print s.length ++ RB :: (CR :: LF :: (s ++ rest))) := by
    simp [lit]
  rw [hshape]
  unfold readLit
  simp only [if_true, hsp, atoi_print]
  simp

/-! #### token trees -/
/-- atom octets: anything but SP, CTL, parentheses, braces, quote, backslash-less specials; a bracketed section
`[ … ]` (FETCH section specs, response codes) is read as part of the atom, blanks and parentheses inside included -/
def isAtomChar (c : UInt8) : Bool :=
  !(c ≤ 32 || c = 127 || c = LP || c = RP || c = LB || c = DQ || c = 91 || c = 93)

/-- `depth` = inside a bracketed section -/
def spanAtom : Bool → Bytes → Bytes × Bytes
  | _, [] => ([], [])
  | false, c :: cs =>
    if c = 91 then let (a, r) := spanAtom true cs; (c :: a, r)
    else if isAtomChar c then let (a, r) := spanAtom false cs; (c :: a, r)
    else ([], c :: cs)
  | true, c :: cs =>
    if c = 93 then let (a, r) := spanAtom false cs; (c :: a, r)
    else if c = CR ∨ c = LF then ([], c :: cs)
    else let (a, r) := spanAtom true cs; (c :: a, r)

inductive R where
  | nil
  | num (n : Nat)
  | quoted (s : Bytes)
  | literal (s : Bytes)
  | list (xs : List R)
  | atom (s : Bytes)

mutual
def render : R → Bytes
  | .nil => [78, 73, 76]
  | .num n => print n
  | .quoted s => quote s
  | .literal s => lit s
  | .list xs => LP :: renderList xs ++ [RP]
  | .atom s => s
def renderList : List R → Bytes
  | [] => []
  | [x] => render x
  | x :: y :: ys => render x ++ SP :: renderList (y :: ys)
end

/-- the shape `spanAtom` consumes completely: atom octets, with bracketed sections `[ … ]` (free of CR and LF) anywhere -/
def atomShape : Bool → Bytes → Bool
  | d, [] => !d
  | false, c :: cs => if c = 91 then atomShape true cs else isAtomChar c && atomShape false cs
  | true, c :: cs => if c = 93 then atomShape false cs else (c ≠ CR && c ≠ LF) && atomShape true cs

/-- an atom (FETCH item names with section specs and partials included): non-empty, of atom shape, not starting with a
digit, and not the word NIL -/
def AtomOK (s : Bytes) : Prop :=
  s ≠ [] ∧ atomShape false s = true ∧ (∀ c, s.head? = some c → isDigit c = false) ∧ s ≠ [78, 73, 76]

mutual
def WF : R → Prop
  | .nil => True
  | .num _ => True
  | .quoted s => QSafe s
  | .literal _ => True
  | .list xs => WFList xs
  | .atom s => AtomOK s
def WFList : List R → Prop
  | [] => True
  | x :: xs => WF x ∧ WFList xs
end

/-- strict reader with fuel; a value must be followed by SP, ')' , CR or end of input -/
def isDelim : Bytes → Bool
  | [] => true
  | c :: _ => c == SP || c == RP || c == CR

mutual
def readVal : Nat → Bytes → Option (R × Bytes)
  | 0, _ => none
  | f+1, inp =>
    match inp with
    | [] => none
    | c :: cs =>
      if c = DQ then (readQBody cs).map (fun (s, r) => (R.quoted s, r))
      else if c = LB then (readLit (c :: cs)).map (fun (s, r) => (R.literal s, r))
      else if c = LP then
        match cs with
        | d :: ds => if d = RP then some (R.list [], ds) else (readItems f cs).map (fun (xs, r) => (R.list xs, r))
        | [] => none
      else if isDigit c then
        let (ds, r) := spanDigits (c :: cs)
        if isDelim r then (atoi ds).map (fun n => (R.num n, r)) else none
      else
        let (a, r) := spanAtom false (c :: cs)
        if a = [] ∨ !isDelim r then none
        else if a = [78, 73, 76] then some (R.nil, r) else some (R.atom a, r)
/-- one or more values separated by single SP, closed by ')' -/
def readItems : Nat → Bytes → Option (List R × Bytes)
  | 0, _ => none
  | f+1, inp =>
    match readVal f inp with
    | none => none
    | some (x, r) =>
      match r with
      | c :: cs =>
        if c = RP then some ([x], cs)
        else if c = SP then (readItems f cs).map (fun (xs, r') => (x :: xs, r'))
        else none
      | [] => none
end

mutual
def need : R → Nat
  | .list xs => 1 + needList xs
  | .nil => 1
  | .num _ => 1
  | .quoted _ => 1
  | .literal _ => 1
  | .atom _ => 1
def needList : List R → Nat
  | [] => 0
  | x :: xs => 1 + need x + needList xs
end

theorem spanDigits_delim (ds rest : Bytes) (hd : ds.all isDigit = true) (hr : isDelim rest = true) :
    spanDigits (ds ++ rest) = (ds, rest) := by
  cases rest with
  | nil =>
    induction ds with
    | nil => simp [spanDigits]
    | cons d ds ih =>
      simp only [List.all_cons, Bool.and_eq_true] at hd
      have := ih hd.2
      simp only [List.append_nil] at this ⊢
      simp [spanDigits, hd.1, this]
  | cons c cs =>
    apply spanDigits_print _ _ hd
    simp only [isDelim, Bool.or_eq_true, beq_iff_eq] at hr
    rcases hr with (rfl | rfl) | rfl <;> decide

theorem print_ne_nil (n : Nat) : print n ≠ [] := by
  unfold print; intro h; exact toDigits_ne_nil n (List.map_eq_nil_iff.mp h)

theorem spanAtom_atom (d : Bool) (s rest : Bytes) (h : atomShape d s = true) (hd : isDelim rest = true) :
    spanAtom d (s ++ rest) = (s, rest) := by
  induction s generalizing d with
  | nil =>
    cases d with
    | true => simp [atomShape] at h
    | false =>
      cases rest with
      | nil => simp [spanAtom]
      | cons c cs =>
        simp only [isDelim, Bool.or_eq_true, beq_iff_eq] at hd
        rcases hd with (rfl | rfl) | rfl <;> simp [spanAtom, isAtomChar]
  | cons c cs ih =>
    cases d with
    | false =>
      simp only [atomShape] at h
      by_cases hc : c = 91
      · simp only [hc, if_true] at h
        simp [spanAtom, hc, ih true h]
      · simp only [hc, if_false, Bool.and_eq_true] at h
        simp [spanAtom, hc, h.1, ih false h.2]
    | true =>
      simp only [atomShape] at h
      by_cases hc : c = 93
      · simp only [hc, if_true] at h
        simp [spanAtom, hc, ih false h]
      · simp only [hc, if_false, Bool.and_eq_true, Bool.and_eq_true, bne_iff_ne, ne_eq, decide_eq_true_eq] at h
        have h1 : ¬ (c = CR ∨ c = LF) := by
          intro e; rcases e with e | e
          · exact h.1.1 e
          · exact h.1.2 e
        simp [spanAtom, hc, h1, ih true h.2]

theorem atomHead_facts (c : UInt8) (cs : Bytes) (h : atomShape false (c :: cs) = true) :
    c ≠ DQ ∧ c ≠ LB ∧ c ≠ LP ∧ c ≠ RP ∧ c ≠ SP := by
  simp only [atomShape] at h
  by_cases hc : c = 91
  · subst hc; decide
  · simp only [hc, if_false, Bool.and_eq_true] at h
    refine ⟨?_, ?_, ?_, ?_, ?_⟩ <;> (intro e; subst e; exact absurd h.1 (by decide))


/-- first byte of a rendered value -/
theorem render_head : ∀ r : R, WF r → ∃ c cs, render r = c :: cs ∧ c ≠ RP ∧ c ≠ SP
  | .nil, _ => ⟨78, [73, 76], rfl, by decide, by decide⟩
  | .num n, _ => by
    have hne := print_ne_nil n
    have hall := print_all_digits n
    cases h : print n with
    | nil => exact absurd h hne
    | cons c cs =>
      refine ⟨c, cs, by simp [render, h], ?_, ?_⟩
      · rw [h] at hall; simp only [List.all_cons, Bool.and_eq_true] at hall
        intro e; subst e; exact absurd hall.1 (by decide)
      · rw [h] at hall; simp only [List.all_cons, Bool.and_eq_true] at hall
        intro e; subst e; exact absurd hall.1 (by decide)
  | .quoted s, _ => ⟨DQ, escape s ++ [DQ], rfl, by decide, by decide⟩
  | .literal s, _ => ⟨LB, print s.length ++ [RB, CR, LF] ++ s, by simp [render, lit], by decide, by decide⟩
  | .list xs, _ => ⟨LP, renderList xs ++ [RP], rfl, by decide, by decide⟩
  | .atom s, hw => by
    obtain ⟨hne, hall, _, _⟩ := hw
    cases hs : s with
    | nil => exact absurd hs hne
    | cons c cs =>
      rw [hs] at hall
      obtain ⟨_, _, _, h4, h5⟩ := atomHead_facts c cs hall
      exact ⟨c, cs, by simp [render], h4, h5⟩

mutual
theorem readVal_render : ∀ (r : R) (rest : Bytes) (f : Nat), WF r → isDelim rest = true → need r ≤ f →
    readVal f (render r ++ rest) = some (r, rest)
  | .nil, rest, f, _, hd, hf => by
    cases f with
    | zero => simp [need] at hf
    | succ f =>
      have hsp := spanAtom_atom false [78, 73, 76] rest (by decide) hd
      simp only [List.cons_append, List.nil_append] at hsp
      simp [render, readVal, hsp, hd, show isDigit 78 = false by decide]
  | .atom s, rest, f, hw, hd, hf => by
    cases f with
    | zero => simp [need] at hf
    | succ f =>
      obtain ⟨hne, hall, hdig, hnil⟩ := hw
      have hsp := spanAtom_atom false s rest hall hd
      cases hs : s with
      | nil => exact absurd hs hne
      | cons c cs =>
        rw [hs] at hsp hall hdig hnil
        obtain ⟨h1, h2, h3, _, _⟩ := atomHead_facts c cs hall
        have h4 : isDigit c = false := hdig c rfl
        simp only [List.cons_append] at hsp
        simp [render, readVal, h1, h2, h3, h4, hsp, hd, hnil]
  | .num n, rest, f, _, hd, hf => by
    cases f with
    | zero => simp [need] at hf
    | succ f =>
      have hne := print_ne_nil n
      have hall := print_all_digits n
      have hsp := spanDigits_delim (print n) rest hall hd
      cases h : print n with
      | nil => exact absurd h hne
      | cons c cs =>
        rw [h] at hall hsp
        simp only [List.all_cons, Bool.and_eq_true] at hall
        have hc1 : c ≠ DQ := by intro e; subst e; exact absurd hall.1 (by decide)
        have hc2 : c ≠ LB := by intro e; subst e; exact absurd hall.1 (by decide)
        have hc3 : c ≠ LP := by intro e; subst e; exact absurd hall.1 (by decide)
        simp only [render, h, List.cons_append, readVal, hc1, hc2, hc3, if_false, hall.1, if_true]
        simp only [List.cons_append] at hsp
        rw [hsp]
        simp [hd, ← h, atoi_print]
  | .quoted s, rest, f, hw, _, hf => by
    cases f with
    | zero => simp [need] at hf
    | succ f =>
      have := readQBody_escape s rest hw
      simp [render, quote, readVal, this]
  | .literal s, rest, f, _, _, hf => by
    cases f with
    | zero => simp [need] at hf
    | succ f =>
      have h := readLit_lit s rest
      have hshape : render (.literal s) ++ rest = LB :: (print s.length ++ [RB, CR, LF] ++ s ++ rest) := by
        simp [render, lit]
      rw [hshape]
      have hshape2 : LB :: (print s.length ++ [RB, CR, LF] ++ s ++ rest) = lit s ++ rest := by simp [lit]
      simp only [readVal, if_true]
      rw [hshape2, h]
      simp
  | .list [], rest, f, _, _, hf => by
    cases f with
    | zero => simp [need] at hf
    | succ f => simp [render, renderList, readVal]
  | .list (x :: xs), rest, f, hw, _, hf => by
    cases f with
    | zero => simp [need] at hf
    | succ f =>
      obtain ⟨c, cs, hx, hc, _⟩ := render_head x (by simp only [WF, WFList] at hw; exact hw.1)
      have hitems := readItems_render x xs rest f (by simpa [WF] using hw) (by simp only [need] at hf; omega)
      have hshape : render (.list (x :: xs)) ++ rest = LP :: (renderList (x :: xs) ++ RP :: rest) := by
        simp [render]
      have hhead : ∃ ds, renderList (x :: xs) ++ RP :: rest = c :: ds := by
        cases xs with
        | nil => exact ⟨cs ++ RP :: rest, by simp [renderList, hx]⟩
        | cons y ys => exact ⟨cs ++ SP :: renderList (y :: ys) ++ RP :: rest, by simp [renderList, hx]⟩
      obtain ⟨ds, hds⟩ := hhead
      rw [hshape]
      simp only [readVal, if_true]
      rw [hds] at hitems ⊢
      simp only [hc, if_false]
      rw [hitems]; rfl
theorem readItems_render : ∀ (x : R) (xs : List R) (rest : Bytes) (f : Nat), WFList (x :: xs) → needList (x :: xs) ≤ f →
    readItems f (renderList (x :: xs) ++ RP :: rest) = some (x :: xs, rest)
  | x, [], rest, f, hw, hf => by
    cases f with
    | zero => simp [needList] at hf
    | succ f =>
      have := readVal_render x (RP :: rest) f hw.1 (by simp [isDelim]) (by simp only [needList] at hf; omega)
      simp [renderList, readItems, this]
  | x, y :: ys, rest, f, hw, hf => by
    cases f with
    | zero => simp [needList] at hf
    | succ f =>
      have h1 := readVal_render x (SP :: (renderList (y :: ys) ++ RP :: rest)) f hw.1 (by simp [isDelim])
        (by simp only [needList] at hf; omega)
      have h2 := readItems_render y ys rest f hw.2 (by simp only [needList] at hf ⊢; omega)
      have hshape : renderList (x :: y :: ys) ++ RP :: rest = render x ++ SP :: (renderList (y :: ys) ++ RP :: rest) := by
        simp [renderList]
      rw [hshape]
      simp only [readItems, h1]
      simp [h2]
end

/-! ## whole responses: the strict recogniser the harness runs on the server's raw byte stream -/
def statusWords : List Bytes := [[79, 75], [78, 79], [66, 65, 68], [66, 89, 69], [80, 82, 69, 65, 85, 84, 72]]  -- OK NO BAD BYE PREAUTH

/-- human-readable text up to CRLF: no NUL, no bare CR or LF -/
def readText : Bytes → Option Bytes
  | [] => none
  | [_] => none
  | c :: d :: rest =>
    if c = CR ∧ d = LF then some rest
    else if c = CR ∨ c = LF ∨ c = 0 then none
    else readText (d :: rest)

/-- `v (SP v)* CRLF` -/
def readValues : Nat → Bytes → Option (List R × Bytes)
  | 0, _ => none
  | f+1, inp =>
    match readVal (f+1) inp with
    | none => none
    | some (x, r) =>
      match r with
      | c :: d :: rest =>
        if c = CR ∧ d = LF then some ([x], rest)
        else if c = SP then (readValues f (d :: rest)).map (fun (xs, r') => (x :: xs, r'))
        else none
      | _ => none

inductive Line where
  | cont                       -- `+ …`
  | status (tag word : Bytes)  -- `tag OK …`, `* NO …`
  | data (vals : List R)       -- `* …` data
deriving Inhabited

def readLine (fuel : Nat) (inp : Bytes) : Option (Line × Bytes) :=
  match inp with
  | 43 :: r => (readText r).map (fun rest => (Line.cont, rest))
  | _ =>
    let (tag, r) := spanAtom false inp
    match r with
    | c :: r1 =>
      if tag = [] ∨ c ≠ SP then none
      else
        let (w, r2) := spanAtom false r1
        if statusWords.contains w then
          match r2 with
          | 13 :: 10 :: rest => some (Line.status tag w, rest)
          | 32 :: r3 => (readText r3).map (fun rest => (Line.status tag w, rest))
          | _ => none
        else if tag = [42] then (readValues fuel r1).map (fun (vs, rest) => (Line.data vs, rest))
        else none
    | [] => none

def readResponse (fuel : Nat) : Nat → Bytes → Option (List Line)
  | 0, _ => none
  | _, [] => some []
  | n+1, inp =>
    match readLine fuel inp with
    | none => none
    | some (l, rest) => (readResponse fuel n rest).map (fun ls => l :: ls)

/-- number of complete lines before the first malformed one (diagnostics) -/
def goodLines (fuel : Nat) : Nat → Bytes → Nat
  | 0, _ => 0
  | _, [] => 0
  | n+1, inp =>
    match readLine fuel inp with
    | none => 0
    | some (_, rest) => 1 + goodLines fuel n rest

end Raven.Resp
