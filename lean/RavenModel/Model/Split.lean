import RavenModel.Base.Bytes
/-! Cutting a reconstructed message: header part / text part at the first CRLFCRLF (BODY[HEADER], BODY[TEXT], RFC822.HEADER,
RFC822.TEXT), and partial fetches `<o.n>`. -/
namespace Raven.Split
open Raven

/-- index just after the first CR LF CR LF, if any -/
def headerEnd : Bytes → Option Nat
  | 13 :: 10 :: 13 :: 10 :: _ => some 4
  | _ :: rest => (headerEnd rest).map (· + 1)
  | [] => none

/-- `BODY[HEADER]`: everything up to and including the blank line; the whole message if there is none -/
def header (msg : Bytes) : Bytes := match headerEnd msg with | some k => msg.take k | none => msg
/-- `BODY[TEXT]`: everything after the blank line; nothing if there is none -/
def text (msg : Bytes) : Bytes := match headerEnd msg with | some k => msg.drop k | none => []

theorem header_append_text (msg : Bytes) : header msg ++ text msg = msg := by
  unfold header text
  cases headerEnd msg with
  | none => simp
  | some k => exact List.take_append_drop k msg

/-- a partial fetch `<o.n>`; `none` for a negative origin (which must be refused, not sliced) -/
def cut (payload : Bytes) (o : Int) (n : Nat) : Option Bytes :=
  if o < 0 then none else some ((payload.drop o.toNat).take n)

theorem cut_is_slice (payload : Bytes) (o n : Nat) : cut payload (o : Int) n = some ((payload.drop o).take n) := by
  simp [cut]

theorem cut_length (payload : Bytes) (o n : Nat) (r : Bytes) (h : cut payload (o : Int) n = some r) :
    r.length = min n (payload.length - o) := by
  simp only [cut_is_slice, Option.some.injEq] at h
  subst h
  simp [List.length_take, List.length_drop]

end Raven.Split
