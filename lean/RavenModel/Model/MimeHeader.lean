import RavenModel.Model.MimeWriter
/-! The concrete header reader on the container headers the writer produces: `readHeader (containerHeader top ctype b ++ body)`
finds the header block, the boundary and the body again — for every media type and boundary free of carriage returns and double
quotes (the writer's are `multipart/<subtype>` and `----=_Part_<Subtype>_<id>[_<n>]`), and whatever the body is. With this the
end-to-end theorem of `MimeWriter` holds for the concrete reader; what remains a hypothesis is only that no *leaf* is mistaken
for a container (a leaf whose own header says `Content-Type: multipart/…; boundary="…"` is one). -/
namespace Raven.Mime
open Raven Raven.GoStr

/-- searching past a stretch that cannot begin a match: no octet of `a` is the pattern's first octet -/
theorem findSub_skip (p0 : UInt8) (pt : Bytes) : ∀ (a r : Bytes), (∀ c ∈ a, c ≠ p0) →
    findSub (p0 :: pt) (a ++ r) = (findSub (p0 :: pt) r).map (fun x => (a ++ x.1, x.2))
  | [], r, _ => by cases h : findSub (p0 :: pt) r <;> simp [h]
  | c :: a, r, h => by
    have hc : c ≠ p0 := h c (by simp)
    have ih := findSub_skip p0 pt a r (fun x hx => h x (by simp [hx]))
    simp only [List.cons_append, findSub, hasPrefix, hc, decide_false, Bool.false_and, Bool.false_eq_true, if_false, ih]
    cases findSub (p0 :: pt) r <;> simp

/-- a match right here -/
theorem findSub_here (pat r : Bytes) (hne : pat ≠ []) : findSub pat (pat ++ r) = some ([], r) := by
  cases pat with
  | nil => exact absurd rfl hne
  | cons p0 pt =>
    have hp : hasPrefix (p0 :: (pt ++ r)) (p0 :: pt) = true := by
      have := hasPrefix_append (p0 :: pt) r; simpa using this
    simp [findSub, hp]

/-- a stretch free of the pattern's first octet, then the pattern -/
theorem findSub_after (p0 : UInt8) (pt a r : Bytes) (h : ∀ c ∈ a, c ≠ p0) :
    findSub (p0 :: pt) (a ++ (p0 :: pt) ++ r) = some (a, r) := by
  rw [List.append_assoc, findSub_skip p0 pt a _ h, findSub_here (p0 :: pt) r (by simp)]
  simp

theorem findSub_step (pat : Bytes) (c : UInt8) (s : Bytes) (h : hasPrefix (c :: s) pat = false) :
    findSub pat (c :: s) = (findSub pat s).map (fun x => (c :: x.1, x.2)) := by
  simp [findSub, h]

theorem containsSub_here (p y : Bytes) : containsSub (p ++ y) p = true := by
  cases p with
  | nil => cases y <;> simp [containsSub, hasPrefix]
  | cons a p =>
    have h := hasPrefix_append (a :: p) y
    simp only [List.cons_append] at h
    simp only [List.cons_append, containsSub, h, Bool.true_or]

theorem containsSub_append_left : ∀ (x s p : Bytes), containsSub s p = true → containsSub (x ++ s) p = true
  | [], _, _, h => h
  | c :: x, s, p, h => by
    simp only [List.cons_append, containsSub, containsSub_append_left x s p h, Bool.or_true]

theorem toLower_append (x y : Bytes) : toLower (x ++ y) = toLower x ++ toLower y := by simp [toLower]

def lit_mimeVersion : Bytes := b!"MIME-Version: 1.0"
def lit_contentType : Bytes := b!"Content-Type: "

/-- the header block without its closing empty line -/
def headLines (top : Bool) (ctype b : Bytes) : Bytes :=
  (if top then lit_mimeVersion ++ CRLF else []) ++ lit_contentType ++ ctype ++ lit_boundary ++ b ++ [34]

theorem containerHeader_eq (top : Bool) (ctype b : Bytes) :
    containerHeader top ctype b = headLines top ctype b ++ (CRLF ++ CRLF) := by
  cases top <;> simp [containerHeader, headLines, lit_mimeVersion, lit_contentType, lit_boundary, CRLF, List.append_assoc]

/-- the first empty line of the text is the one that closes the writer's header block -/
theorem findSub_blank (top : Bool) (ctype b body : Bytes) (hc : 13 ∉ ctype) (hb : 13 ∉ b) :
    findSub (CRLF ++ CRLF) (containerHeader top ctype b ++ body) = some (headLines top ctype b, body) := by
  rw [containerHeader_eq, List.append_assoc]
  have hfree : ∀ c ∈ lit_contentType ++ ctype ++ lit_boundary ++ b ++ [34], c ≠ 13 := by
    intro c hcm heq
    subst heq
    simp only [List.mem_append, List.mem_singleton] at hcm
    rcases hcm with (((h | h) | h) | h) | h
    · revert h; decide
    · exact hc h
    · revert h; decide
    · exact hb h
    · revert h; decide
  cases top with
  | false =>
    have := findSub_after 13 [10, 13, 10] (lit_contentType ++ ctype ++ lit_boundary ++ b ++ [34]) body hfree
    simpa [headLines, CRLF, List.append_assoc] using this
  | true =>
    -- the line end after MIME-Version is followed by `C`, not by another line end
    have hM : ∀ c ∈ lit_mimeVersion, c ≠ 13 := by decide
    have hrest : ∀ c ∈ (10 : UInt8) :: (lit_contentType ++ ctype ++ lit_boundary ++ b ++ [34]), c ≠ 13 := by
      intro c hcm
      rcases List.mem_cons.mp hcm with rfl | h
      · decide
      · exact hfree c h
    have h2 := findSub_after 13 [10, 13, 10] ((10 : UInt8) :: (lit_contentType ++ ctype ++ lit_boundary ++ b ++ [34])) body hrest
    have hnot : hasPrefix ((13 : UInt8) :: ((10 : UInt8) :: (lit_contentType ++ ctype ++ lit_boundary ++ b ++ [34]) ++ [13, 10, 13, 10] ++ body)) [13, 10, 13, 10] = false := by
      simp [hasPrefix, lit_contentType]
    have h1 := findSub_skip 13 [10, 13, 10] lit_mimeVersion
      ((13 : UInt8) :: ((10 : UInt8) :: (lit_contentType ++ ctype ++ lit_boundary ++ b ++ [34]) ++ [13, 10, 13, 10] ++ body)) hM
    rw [findSub_step _ _ _ hnot, h2] at h1
    simpa [headLines, CRLF, List.append_assoc] using h1

/-- **the concrete reader reads the writer's container header**: header block, boundary and body come back, whatever the body -/
theorem readHeader_container (top : Bool) (ctype b body sub : Bytes) (hc : 13 ∉ ctype) (hs : 59 ∉ ctype) (hb : 13 ∉ b)
    (hq : 34 ∉ b) (hm : toLower ctype = (b!"multipart/") ++ sub) :
    readHeader (containerHeader top ctype b ++ body) = some (containerHeader top ctype b, b, body) := by
  unfold readHeader
  rw [findSub_blank top ctype b body hc hb]
  simp only []
  -- the media type
  have hct : containsSub (toLower (headLines top ctype b)) lit_ctMulti = true := by
    have hcore : toLower (lit_contentType ++ ctype ++ lit_boundary ++ b ++ [34]) =
        lit_ctMulti ++ (sub ++ toLower (lit_boundary ++ b ++ [34])) := by
      rw [List.append_assoc, List.append_assoc, List.append_assoc, toLower_append, toLower_append, hm]
      simp [lit_contentType, lit_ctMulti, toLower, toLowerB, isUpper, List.append_assoc]
    unfold headLines
    rw [List.append_assoc, List.append_assoc, List.append_assoc, List.append_assoc, toLower_append]
    apply containsSub_append_left
    have : toLower (lit_contentType ++ (ctype ++ (lit_boundary ++ (b ++ [34])))) = lit_ctMulti ++ (sub ++ toLower (lit_boundary ++ b ++ [34])) := by
      simpa [List.append_assoc] using hcore
    rw [this]
    exact containsSub_here _ _
  simp only [hct, if_true]
  -- the boundary parameter: the first `; boundary="` is the writer's
  have hsemi : ∀ c ∈ (if top then lit_mimeVersion ++ CRLF else []) ++ lit_contentType ++ ctype, c ≠ 59 := by
    intro c hcm heq
    subst heq
    simp only [List.mem_append] at hcm
    rcases hcm with (h | h) | h
    · cases top
      · simp at h
      · revert h; decide
    · revert h; decide
    · exact hs h
  have hfb : findSub lit_boundary (headLines top ctype b) = some ((if top then lit_mimeVersion ++ CRLF else []) ++ lit_contentType ++ ctype, b ++ [34]) := by
    have := findSub_after 59 (b!" boundary=\"") ((if top then lit_mimeVersion ++ CRLF else []) ++ lit_contentType ++ ctype) (b ++ [34]) hsemi
    simpa [headLines, lit_boundary, List.append_assoc] using this
  rw [hfb]
  simp only []
  have hfq : findSub [34] (b ++ [34]) = some (b, []) := by
    have := findSub_after 34 [] b [] (fun c hcm heq => hq (heq ▸ hcm))
    simpa using this
  rw [hfq]
  simp [containerHeader_eq, List.append_assoc]

end Raven.Mime
