/-! One micro-step semantics for adding a message to a mailbox (LMTP delivery, APPEND): the statements of
`StoreMessagePerUser… → AddMessageToMailboxPerUser` as separate atomic commits — message row, part rows, UID allocation, link
row, then the acknowledgement. Sequential runs, a crash at any point (C07) and any interleaving of any number of sessions (C08)
are all event sequences over this one machine. SQLite's atomic, serialised commits are the trusted ground (each `adv` is one). -/
namespace Raven.Durable

structure Client where
  id : Nat          -- also the id of the message it delivers
  pc : Nat          -- 1: message row written; 2: all parts written; 3: UID allocated
  uid : Nat
deriving Repr, DecidableEq

structure St where
  uidNext : Nat
  msgs : List (Nat × Bool)      -- (message id, complete?)
  links : List (Nat × Nat)      -- (uid, message id)         -- what IMAP shows
  active : List Client          -- volatile: lost in a crash
  acked : List Nat              -- replies the clients have seen (250 / tagged OK)
  failed : List Nat             -- clients that were told 5xx
deriving Repr

inductive Ev where
  | start (c : Nat)      -- INSERT INTO messages …
  | adv (c : Nat)        -- the client's next statement
  | crash                -- the process dies; a new one opens the same files
deriving Repr, DecidableEq

def setComplete (c : Nat) (msgs : List (Nat × Bool)) := msgs.map (fun m => if m.1 = c then (c, true) else m)

def known (s : St) (c : Nat) : Bool :=
  s.active.any (·.id == c) || s.msgs.any (·.1 == c)

def step (s : St) : Ev → St
  | .start c =>
    if known s c then s
    else { s with msgs := (c, false) :: s.msgs, active := ⟨c, 1, 0⟩ :: s.active }
  | .adv c =>
    match s.active.find? (·.id == c) with
    | none => s
    | some cl =>
      let others := s.active.filter (fun x => !(x.id == c))
      if cl.pc = 1 then        -- last part row: the message becomes complete
        { s with msgs := setComplete c s.msgs, active := { cl with pc := 2 } :: others }
      else if cl.pc = 2 then   -- UPDATE mailboxes SET uid_next = uid_next + 1 … RETURNING
        { s with uidNext := s.uidNext + 1, active := { cl with pc := 3, uid := s.uidNext } :: others }
      else                     -- INSERT INTO message_mailbox, then the acknowledgement
        if s.links.any (·.1 == cl.uid) then { s with active := others, failed := c :: s.failed }
        else { s with links := (cl.uid, c) :: s.links, active := others, acked := c :: s.acked }
  | .crash => { s with active := [] }

def complete (s : St) (m : Nat) : Prop := (m, true) ∈ s.msgs

def pendingUids (s : St) : List Nat := (s.active.filter (·.pc = 3)).map (·.uid)

structure Inv (s : St) : Prop where
  /-- C07: every message listed in the mailbox is complete -/
  visibleComplete : ∀ l ∈ s.links, complete s l.2
  /-- C03/C08: UIDs, linked or in flight, are distinct and below UIDNEXT -/
  uidsNodup : (pendingUids s ++ s.links.map (·.1)).Nodup
  uidsLt : ∀ u ∈ pendingUids s ++ s.links.map (·.1), u < s.uidNext
  /-- a client past its last part row has a complete message -/
  progress : ∀ cl ∈ s.active, 2 ≤ cl.pc → complete s cl.id
  pcRange : ∀ cl ∈ s.active, 1 ≤ cl.pc ∧ cl.pc ≤ 3
  idsNodup : (s.active.map (·.id)).Nodup
  /-- C01/C07: an acknowledged delivery is in the mailbox, exactly once -/
  ackedLinked : ∀ c ∈ s.acked, ∃ u, (u, c) ∈ s.links
  msgOnce : (s.links.map (·.2)).Nodup
  activeUnlinked : ∀ cl ∈ s.active, cl.id ∉ s.links.map (·.2)
  msgExists : ∀ cl ∈ s.active, ∃ b, (cl.id, b) ∈ s.msgs
  /-- C08: nobody is refused because of somebody else -/
  noFailure : s.failed = []

def init : St := ⟨1, [], [], [], [], []⟩

theorem inv_init : Inv init := by
  refine { visibleComplete := ?_, uidsNodup := ?_, uidsLt := ?_, progress := ?_, pcRange := ?_, idsNodup := ?_,
           ackedLinked := ?_, msgOnce := ?_, activeUnlinked := ?_, msgExists := ?_, noFailure := rfl } <;> simp [init, pendingUids]


/-! ### helper lemmas -/

theorem find_spec {s : St} {c : Nat} {cl : Client} (h : s.active.find? (·.id == c) = some cl) :
    cl ∈ s.active ∧ cl.id = c := by
  refine ⟨List.mem_of_find?_eq_some h, ?_⟩
  have := List.find?_some h; simpa using this

theorem mem_others {s : St} {c : Nat} {x : Client} (h : x ∈ s.active.filter (fun x => !(x.id == c))) :
    x ∈ s.active ∧ x.id ≠ c := by
  obtain ⟨h1, h2⟩ := List.mem_filter.mp h
  exact ⟨h1, by simpa using h2⟩

theorem others_sublist (s : St) (c : Nat) : (s.active.filter (fun x => !(x.id == c))).Sublist s.active :=
  List.filter_sublist

theorem pend_others_sub (s : St) (c : Nat) :
    (((s.active.filter (fun x => !(x.id == c))).filter (·.pc = 3)).map (·.uid)).Sublist (pendingUids s) := by
  unfold pendingUids
  exact ((others_sublist s c).filter _).map _

theorem eq_of_id {l : List Client} (hnd : (l.map (·.id)).Nodup) {a b : Client} (ha : a ∈ l) (hb : b ∈ l)
    (h : a.id = b.id) : a = b := by
  induction l with
  | nil => cases ha
  | cons x xs ih =>
    simp only [List.map_cons, List.nodup_cons] at hnd
    simp only [List.mem_cons] at ha hb
    rcases ha with rfl | ha <;> rcases hb with rfl | hb
    · rfl
    · exact absurd (List.mem_map.mpr ⟨_, hb, h.symm⟩) hnd.1
    · exact absurd (List.mem_map.mpr ⟨_, ha, h⟩) hnd.1
    · exact ih hnd.2 ha hb

/-- the uid of a client at pc 3 is not among the other pending uids -/
theorem uid_not_in_others {s : St} (hi : Inv s) {c : Nat} {cl : Client} (hcl : cl ∈ s.active) (hid : cl.id = c)
    (hpc : cl.pc = 3) :
    cl.uid ∉ ((s.active.filter (fun x => !(x.id == c))).filter (·.pc = 3)).map (·.uid) := by
  intro hm
  obtain ⟨x, hx, hxu⟩ := List.mem_map.mp hm
  obtain ⟨hx1, hx3⟩ := List.mem_filter.mp hx
  obtain ⟨hxa, hxc⟩ := mem_others hx1
  -- both cl and x are pending with the same uid: contradiction with Nodup of pending uids
  have hnd : (pendingUids s).Nodup := (List.nodup_append.mp hi.uidsNodup).1
  unfold pendingUids at hnd
  have hclp : cl ∈ s.active.filter (·.pc = 3) := List.mem_filter.mpr ⟨hcl, by simpa using hpc⟩
  have hxp : x ∈ s.active.filter (·.pc = 3) := List.mem_filter.mpr ⟨hxa, hx3⟩
  have : x = cl := by
    clear hm hx hx1
    generalize s.active.filter (·.pc = 3) = l at hnd hclp hxp
    induction l with
    | nil => cases hclp
    | cons y ys ih =>
      simp only [List.map_cons, List.nodup_cons] at hnd
      simp only [List.mem_cons] at hclp hxp
      rcases hclp with rfl | hclp <;> rcases hxp with rfl | hxp
      · rfl
      · exact absurd (List.mem_map.mpr ⟨_, hxp, hxu⟩) hnd.1
      · exact absurd (List.mem_map.mpr ⟨_, hclp, hxu.symm⟩) hnd.1
      · exact ih hnd.2 hclp hxp
  subst this
  exact hxc hid

theorem nodup_append_sub {α} {a a' b : List α} (h : (a ++ b).Nodup) (hs : a'.Sublist a) : (a' ++ b).Nodup :=
  (hs.append_right b).nodup h

theorem complete_mono_map (c m : Nat) (msgs : List (Nat × Bool)) (h : (m, true) ∈ msgs) : (m, true) ∈ setComplete c msgs := by
  unfold setComplete
  refine List.mem_map.mpr ⟨(m, true), h, ?_⟩
  by_cases hm : m = c
  · simp [hm]
  · simp [hm]

theorem complete_after_set (c : Nat) (b : Bool) (msgs : List (Nat × Bool)) (h : (c, b) ∈ msgs) : (c, true) ∈ setComplete c msgs := by
  unfold setComplete
  exact List.mem_map.mpr ⟨(c, b), h, by simp⟩

theorem exists_after_set (c x : Nat) (b : Bool) (msgs : List (Nat × Bool)) (h : (x, b) ∈ msgs) : ∃ b', (x, b') ∈ setComplete c msgs := by
  by_cases hx : x = c
  · subst hx; exact ⟨true, complete_after_set _ b msgs h⟩
  · exact ⟨b, List.mem_map.mpr ⟨(x, b), h, by simp [hx]⟩⟩

theorem inv_step (s : St) (e : Ev) (hi : Inv s) : Inv (step s e) := by
  cases e with
  | crash =>
    simp only [step]
    exact {
      visibleComplete := hi.visibleComplete
      uidsNodup := by simpa [pendingUids] using (List.nodup_append.mp hi.uidsNodup).2.1
      uidsLt := fun u hu => hi.uidsLt u (by simp only [pendingUids, List.filter_nil, List.map_nil, List.nil_append] at hu; exact List.mem_append_right _ hu)
      progress := by simp
      pcRange := by simp
      idsNodup := by simp
      ackedLinked := hi.ackedLinked
      msgOnce := hi.msgOnce
      activeUnlinked := by simp
      msgExists := by simp
      noFailure := hi.noFailure }
  | start c =>
    by_cases hk : known s c = true
    · simp only [step, hk, if_true]; exact hi
    · simp only [step, hk, Bool.false_eq_true, if_false]
      have hk' : known s c = false := by simpa using hk
      simp only [known, Bool.or_eq_false_iff] at hk'
      have hnotActive : c ∉ s.active.map (·.id) := by
        intro hm; obtain ⟨x, hx, hxe⟩ := List.mem_map.mp hm
        have : s.active.any (·.id == c) = true := List.any_eq_true.mpr ⟨x, hx, by simpa using hxe⟩
        rw [hk'.1] at this; exact absurd this (by decide)
      have hnotMsg : ∀ b, (c, b) ∉ s.msgs := by
        intro b hm
        have : s.msgs.any (·.1 == c) = true := List.any_eq_true.mpr ⟨(c, b), hm, by simp⟩
        rw [hk'.2] at this; exact absurd this (by decide)
      have hpend : pendingUids { s with msgs := (c, false) :: s.msgs, active := ⟨c, 1, 0⟩ :: s.active } = pendingUids s := by
        simp [pendingUids, List.filter_cons]
      exact {
        visibleComplete := fun l hl => List.mem_cons_of_mem _ (hi.visibleComplete l hl)
        uidsNodup := by rw [hpend]; exact hi.uidsNodup
        uidsLt := by rw [hpend]; exact hi.uidsLt
        progress := by
          intro cl hcl hpc
          simp only [List.mem_cons] at hcl
          rcases hcl with rfl | hcl
          · simp at hpc
          · exact List.mem_cons_of_mem _ (hi.progress cl hcl hpc)
        pcRange := by
          intro cl hcl
          simp only [List.mem_cons] at hcl
          rcases hcl with rfl | hcl
          · simp
          · exact hi.pcRange cl hcl
        idsNodup := by
          simp only [List.map_cons, List.nodup_cons]
          exact ⟨hnotActive, hi.idsNodup⟩
        ackedLinked := hi.ackedLinked
        msgOnce := hi.msgOnce
        activeUnlinked := by
          intro cl hcl
          simp only [List.mem_cons] at hcl
          rcases hcl with rfl | hcl
          · intro hm
            obtain ⟨l, hl, hle⟩ := List.mem_map.mp hm
            have := hi.visibleComplete l hl
            simp only at hle
            rw [hle] at this
            exact hnotMsg true this
          · exact hi.activeUnlinked cl hcl
        msgExists := by
          intro cl hcl
          simp only [List.mem_cons] at hcl
          rcases hcl with rfl | hcl
          · exact ⟨false, by simp⟩
          · obtain ⟨b, hb⟩ := hi.msgExists cl hcl
            exact ⟨b, List.mem_cons_of_mem _ hb⟩
        noFailure := hi.noFailure }
  | adv c =>
    cases hfind : s.active.find? (·.id == c) with
    | none => simp only [step, hfind]; exact hi
    | some cl =>
      obtain ⟨hcl, hid⟩ := find_spec hfind
      have hrange := hi.pcRange cl hcl
      have hothersNd : ((s.active.filter (fun x => !(x.id == c))).map (·.id)).Nodup :=
        ((others_sublist s c).map _).nodup hi.idsNodup
      have hcNotOthers : c ∉ (s.active.filter (fun x => !(x.id == c))).map (·.id) := by
        intro hm; obtain ⟨x, hx, hxe⟩ := List.mem_map.mp hm
        exact (mem_others hx).2 hxe
      by_cases h1 : cl.pc = 1
      · -- the last part row
        simp only [step, hfind, h1, if_true]
        have hpend : pendingUids { s with msgs := setComplete c s.msgs, active := { cl with pc := 2 } :: s.active.filter (fun x => !(x.id == c)) }
            = ((s.active.filter (fun x => !(x.id == c))).filter (·.pc = 3)).map (·.uid) := by
          simp [pendingUids, List.filter_cons]
        show Inv { s with msgs := setComplete c s.msgs, active := { cl with pc := 2 } :: s.active.filter (fun x => !(x.id == c)) }
        exact {
          visibleComplete := fun l hl => complete_mono_map c _ _ (hi.visibleComplete l hl)
          uidsNodup := by rw [hpend]; exact nodup_append_sub hi.uidsNodup (pend_others_sub s c)
          uidsLt := by
            rw [hpend]; intro u hu
            apply hi.uidsLt
            rcases List.mem_append.mp hu with h | h
            · exact List.mem_append_left _ ((pend_others_sub s c).subset h)
            · exact List.mem_append_right _ h
          progress := by
            intro x hx hpc
            simp only [List.mem_cons] at hx
            rcases hx with rfl | hx
            · obtain ⟨b, hb⟩ := hi.msgExists cl hcl
              show (cl.id, true) ∈ setComplete c s.msgs
              rw [hid] at hb ⊢
              exact complete_after_set c b _ hb
            · exact complete_mono_map c _ _ (hi.progress x (mem_others hx).1 hpc)
          pcRange := by
            intro x hx
            simp only [List.mem_cons] at hx
            rcases hx with rfl | hx
            · simp
            · exact hi.pcRange x (mem_others hx).1
          idsNodup := by
            simp only [List.map_cons, List.nodup_cons]
            exact ⟨by rw [hid]; exact hcNotOthers, hothersNd⟩
          ackedLinked := hi.ackedLinked
          msgOnce := hi.msgOnce
          activeUnlinked := by
            intro x hx
            simp only [List.mem_cons] at hx
            rcases hx with rfl | hx
            · exact hi.activeUnlinked cl hcl
            · exact hi.activeUnlinked x (mem_others hx).1
          msgExists := by
            intro x hx
            simp only [List.mem_cons] at hx
            rcases hx with rfl | hx
            · obtain ⟨b, hb⟩ := hi.msgExists cl hcl
              exact exists_after_set c _ b _ hb
            · obtain ⟨b, hb⟩ := hi.msgExists x (mem_others hx).1
              exact exists_after_set c _ b _ hb
          noFailure := hi.noFailure }
      · by_cases h2 : cl.pc = 2
        · -- atomic UID allocation
          simp only [step, hfind, h2, show ¬ (2 : Nat) = 1 by decide, if_false, if_true]
          have hpend : pendingUids { s with uidNext := s.uidNext + 1, active := { cl with pc := 3, uid := s.uidNext } :: s.active.filter (fun x => !(x.id == c)) }
              = s.uidNext :: ((s.active.filter (fun x => !(x.id == c))).filter (·.pc = 3)).map (·.uid) := by
            simp [pendingUids, List.filter_cons]
          exact {
            visibleComplete := hi.visibleComplete
            uidsNodup := by
              rw [hpend]
              simp only [List.cons_append, List.nodup_cons]
              refine ⟨?_, nodup_append_sub hi.uidsNodup (pend_others_sub s c)⟩
              intro hm
              have : s.uidNext < s.uidNext := hi.uidsLt _ (by
                rcases List.mem_append.mp hm with h | h
                · exact List.mem_append_left _ ((pend_others_sub s c).subset h)
                · exact List.mem_append_right _ h)
              exact Nat.lt_irrefl _ this
            uidsLt := by
              rw [hpend]; intro u hu
              simp only [List.cons_append, List.mem_cons] at hu
              rcases hu with rfl | hu
              · show s.uidNext < s.uidNext + 1; omega
              · have : u < s.uidNext := hi.uidsLt u (by
                  rcases List.mem_append.mp hu with h | h
                  · exact List.mem_append_left _ ((pend_others_sub s c).subset h)
                  · exact List.mem_append_right _ h)
                show u < s.uidNext + 1; omega
            progress := by
              intro x hx hpc
              simp only [List.mem_cons] at hx
              rcases hx with rfl | hx
              · exact hi.progress cl hcl (by omega)
              · exact hi.progress x (mem_others hx).1 hpc
            pcRange := by
              intro x hx
              simp only [List.mem_cons] at hx
              rcases hx with rfl | hx
              · simp
              · exact hi.pcRange x (mem_others hx).1
            idsNodup := by
              simp only [List.map_cons, List.nodup_cons]
              exact ⟨by rw [hid]; exact hcNotOthers, hothersNd⟩
            ackedLinked := hi.ackedLinked
            msgOnce := hi.msgOnce
            activeUnlinked := by
              intro x hx
              simp only [List.mem_cons] at hx
              rcases hx with rfl | hx
              · exact hi.activeUnlinked cl hcl
              · exact hi.activeUnlinked x (mem_others hx).1
            msgExists := by
              intro x hx
              simp only [List.mem_cons] at hx
              rcases hx with rfl | hx
              · exact hi.msgExists cl hcl
              · exact hi.msgExists x (mem_others hx).1
            noFailure := hi.noFailure }
        · -- INSERT of the link, then the acknowledgement
          have h3 : cl.pc = 3 := by omega
          have huPend : cl.uid ∈ pendingUids s := by
            unfold pendingUids
            exact List.mem_map.mpr ⟨cl, List.mem_filter.mpr ⟨hcl, by simpa using h3⟩, rfl⟩
          have huNotLinked : cl.uid ∉ s.links.map (·.1) := fun hl =>
            (List.nodup_append.mp hi.uidsNodup).2.2 _ huPend _ hl rfl
          have hany : s.links.any (fun x => x.1 == cl.uid) = false := by
            rw [Bool.eq_false_iff]; intro h
            obtain ⟨x, hx, hxe⟩ := List.any_eq_true.mp h
            exact huNotLinked (List.mem_map.mpr ⟨x, hx, by simpa using hxe⟩)
          simp only [step, hfind, h1, h2, if_false, hany, Bool.false_eq_true]
          have hpend : pendingUids { s with links := (cl.uid, c) :: s.links, active := s.active.filter (fun x => !(x.id == c)), acked := c :: s.acked }
              = ((s.active.filter (fun x => !(x.id == c))).filter (·.pc = 3)).map (·.uid) := rfl
          exact {
            visibleComplete := by
              intro l hl
              simp only [List.mem_cons] at hl
              rcases hl with rfl | hl
              · have := hi.progress cl hcl (by omega)
                rw [hid] at this; exact this
              · exact hi.visibleComplete l hl
            uidsNodup := by
              rw [hpend]
              simp only [List.map_cons]
              have hbase := nodup_append_sub hi.uidsNodup (pend_others_sub s c)
              refine List.nodup_append.mpr ⟨(List.nodup_append.mp hbase).1, ?_, ?_⟩
              · exact List.nodup_cons.mpr ⟨huNotLinked, (List.nodup_append.mp hi.uidsNodup).2.1⟩
              · intro a ha b hb hab
                subst hab
                simp only [List.mem_cons] at hb
                rcases hb with rfl | hb
                · exact uid_not_in_others hi hcl hid h3 ha
                · exact (List.nodup_append.mp hbase).2.2 a ha a hb rfl
            uidsLt := by
              rw [hpend]; intro u hu
              apply hi.uidsLt
              simp only [List.map_cons, List.mem_append, List.mem_cons] at hu
              rcases hu with h | rfl | h
              · exact List.mem_append_left _ ((pend_others_sub s c).subset h)
              · exact List.mem_append_left _ huPend
              · exact List.mem_append_right _ h
            progress := fun x hx hpc => hi.progress x (mem_others hx).1 hpc
            pcRange := fun x hx => hi.pcRange x (mem_others hx).1
            idsNodup := hothersNd
            ackedLinked := by
              intro a ha
              simp only [List.mem_cons] at ha
              rcases ha with rfl | ha
              · exact ⟨cl.uid, by simp⟩
              · obtain ⟨u, hu⟩ := hi.ackedLinked a ha
                exact ⟨u, List.mem_cons_of_mem _ hu⟩
            msgOnce := by
              simp only [List.map_cons, List.nodup_cons]
              refine ⟨?_, hi.msgOnce⟩
              have := hi.activeUnlinked cl hcl
              rw [hid] at this; exact this
            activeUnlinked := by
              intro x hx
              obtain ⟨hxa, hxc⟩ := mem_others hx
              simp only [List.map_cons, List.mem_cons, not_or]
              exact ⟨hxc, hi.activeUnlinked x hxa⟩
            msgExists := fun x hx => hi.msgExists x (mem_others hx).1
            noFailure := hi.noFailure }

/-- C07 + C08 + C01 for deliveries: whatever the interleaving of any number of clients and wherever the
    process crashes, every listed message is complete, UIDs are distinct and below UIDNEXT, every
    acknowledged delivery is listed exactly once, and nobody is refused -/
theorem inv_run (evs : List Ev) : Inv (evs.foldl step init) := by
  suffices ∀ s, Inv s → Inv (evs.foldl step s) from this _ inv_init
  induction evs with
  | nil => exact fun s h => h
  | cons e es ih => exact fun s h => ih _ (inv_step s e h)

end Raven.Durable

namespace Raven.Durable

/-! ## store creation: `initUserDB` as n repeatable steps and a completion mark -/
structure DbFile where
  exists_ : Bool        -- the file is there
  done : Nat            -- how many of the n initialisation steps have been committed
  marked : Bool         -- PRAGMA user_version = 1, the last step
deriving DecidableEq, Repr

/-- killed after k commits of a first contact (k ≤ n: schema steps; k = n+1: the mark as well) -/
def crashedAt (n k : Nat) : DbFile := { exists_ := k > 0 || true, done := min k n, marked := k > n }

/-- `GetUserDB` on open: run the (repeatable) initialisation unless the mark is there -/
def openDb (n : Nat) (f : DbFile) : DbFile := if f.marked then f else { exists_ := true, done := n, marked := true }

/-- the earlier rule: the file's existence is taken as proof of a schema -/
def openDbOld (n : Nat) (f : DbFile) : DbFile := if f.exists_ then f else { exists_ := true, done := n, marked := true }

def usable (n : Nat) (f : DbFile) : Bool := f.done = n

end Raven.Durable
