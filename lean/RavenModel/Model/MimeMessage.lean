import RavenModel.Model.Mime
/-! The executable reader of a whole message, `Mime.parseMessage` — the function the driver runs on every fetched text
(`mm.observe`) — reads a written message back: `parse_message` is about `parse` with any sufficient fuel; here the fuel
`parseMessage` picks for itself (the length of the text) is shown to suffice, so the theorem is about the very function the
correspondence executes. -/
namespace Raven.Mime
open Raven Raven.GoStr

theorem length_le_flatMap (f : Bytes → Bytes) : ∀ (ps : List Bytes) (p : Bytes), p ∈ ps → (f p).length ≤ (ps.flatMap f).length
  | [], _, h => by simp at h
  | q :: qs, p, h => by
    simp only [List.flatMap_cons, List.length_append]
    rcases List.mem_cons.mp h with rfl | h
    · omega
    · have := length_le_flatMap f qs p h; omega

mutual
/-- a tree is never deeper than its text is long -/
theorem depth_le_length : ∀ t : Tree, depth t ≤ (core t).length + 1
  | .leaf t => by simp [depth]
  | .multi h b cs => by
    have := depthList_le_length cs b []
    simp only [depth, core, List.length_append] at *
    omega
theorem depthList_le_length : ∀ (cs : List Tree) (b e : Bytes), depthList cs ≤ (joinBody b (coreList cs) e).length
  | [], _, _ => by simp [depthList]
  | t :: ts, b, e => by
    have h1 := depth_le_length t
    have h2 := depthList_le_length ts b e
    simp only [depthList, coreList, joinBody, List.flatMap_cons, List.length_append, DD, CRLF, List.length_cons, List.length_nil] at *
    omega
end

/-- **the executable reader reads the writer's message back**: for every container — any depth, any number of parts, any octets —
that meets the decidable side conditions `freshMessage` -/
theorem parseMessage_message (h b : Bytes) (cs : List Tree) (hfm : freshMessage (.multi h b cs) = true) :
    parseMessage (message (.multi h b cs)) = some (.multi h b cs) := by
  simp only [freshMessage, Bool.and_eq_true, beq_iff_eq] at hfm
  obtain ⟨⟨hK, hcl⟩, hfl⟩ := hfm
  have hdep : depthList cs ≤ (h ++ joinBody b (coreList cs) CRLF).length + 1 := by
    have := depthList_le_length cs b CRLF
    simp only [List.length_append]; omega
  have hkids := parseList_core readHeader cs _ hdep hfl
  cases cs with
  | nil =>
    simp only [coreList] at hK
    simp [parseMessage, message, coreList, hK, splitBody_empty]
  | cons c cs' =>
    have hne : coreList (c :: cs') ≠ [] := coreList_ne_nil _ (by simp)
    simp only [parseMessage, message, hK, splitBody_joinBody b _ CRLF hne hcl, hkids, Option.map_some]

theorem hasSuffix_append (t s : Bytes) : hasSuffix (t ++ s) s = true := by
  simp only [hasSuffix, List.reverse_append]
  exact hasPrefix_append _ _

/-- …and a message that is not a container comes back as the one leaf it is -/
theorem parseMessage_leaf (t : Bytes) (hfm : freshMessage (.leaf t) = true) : parseMessage (message (.leaf t)) = some (.leaf t) := by
  simp only [freshMessage, Option.isNone_iff_eq_none] at hfm
  have hlen : (t ++ CRLF).length - 2 = t.length := by simp [CRLF]
  simp only [parseMessage, message, hfm, hasSuffix_append, if_true, hlen, List.take_left']

/-- the whole statement: the executable reader inverts the writer on every message that meets `freshMessage` -/
theorem parseMessage_written : ∀ t : Tree, freshMessage t = true → parseMessage (message t) = some t
  | .leaf t, h => parseMessage_leaf t h
  | .multi h b cs, hf => parseMessage_message h b cs hf

end Raven.Mime
