import RavenModel.Base.GoStr
/-! `CalculateNewFlags` (message.go and utils/flags.go): the flag string as a token set. The Go code goes through a
map, so results are duplicate-free lists in arbitrary order; everything downstream compares them as sets. -/
namespace Raven.Flags
open Raven Raven.GoStr

def recent : Bytes := b!"\\Recent"
def deleted : Bytes := b!"\\Deleted"
def seen : Bytes := b!"\\Seen"
def junk : Bytes := b!"Junk"
def nonJunk : Bytes := b!"NonJunk"

def dedup : List Bytes → List Bytes
  | [] => []
  | t :: ts => if t ∈ ts then dedup ts else t :: dedup ts

theorem mem_dedup (t : Bytes) (ts : List Bytes) : t ∈ dedup ts ↔ t ∈ ts := by
  induction ts with
  | nil => simp [dedup]
  | cons a as ih =>
    simp only [dedup]
    split
    · rename_i h; simp only [ih, List.mem_cons]
      constructor
      · exact Or.inr
      · rintro (rfl | h') <;> assumption
    · simp [ih]

theorem dedup_nodup (ts : List Bytes) : (dedup ts).Nodup := by
  induction ts with
  | nil => simp [dedup]
  | cons a as ih =>
    simp only [dedup]
    split
    · exact ih
    · rename_i h
      exact List.nodup_cons.mpr ⟨fun hm => h ((mem_dedup a as).mp hm), ih⟩

inductive Mode | set | add | del
deriving DecidableEq, Repr

/-- `CalculateNewFlags(currentFlags, newFlags, operation)` on the tokens of the current flag string -/
def newFlags (cur new : List Bytes) : Mode → List Bytes
  | .set => dedup (new.filter (· ≠ recent))
  | .add => dedup (cur ++ new.filter (· ≠ recent))
  | .del => (dedup cur).filter (fun t => !(t ∈ new.filter (· ≠ recent)))

/-- C10.1: STORE is exact set algebra on the named flags (`\Recent` is never client-settable) -/
theorem calc_mem (cur new : List Bytes) (t : Bytes) :
    (t ∈ newFlags cur new .set ↔ t ∈ new ∧ t ≠ recent) ∧
    (t ∈ newFlags cur new .add ↔ t ∈ cur ∨ (t ∈ new ∧ t ≠ recent)) ∧
    (t ∈ newFlags cur new .del ↔ t ∈ cur ∧ ¬ (t ∈ new ∧ t ≠ recent)) := by
  refine ⟨?_, ?_, ?_⟩
  · simp [newFlags, mem_dedup]
  · simp [newFlags, mem_dedup]
  · simp only [newFlags, List.mem_filter, mem_dedup, Bool.not_eq_true', decide_eq_false_iff_not, decide_eq_true_eq, ne_eq]

theorem calc_nodup (cur new : List Bytes) (m : Mode) : (newFlags cur new m).Nodup := by
  cases m
  · exact dedup_nodup _
  · exact dedup_nodup _
  · exact List.Nodup.sublist List.filter_sublist (dedup_nodup _)

/-- mode from the data item after `.SILENT` has been stripped and the text upper-cased -/
def modeOf (item : Bytes) : Option Mode :=
  if item = b!"FLAGS" then some .set else if item = b!"+FLAGS" then some .add
  else if item = b!"-FLAGS" then some .del else none

end Raven.Flags
