import RavenModel.Base.GoStr
/-! Delivery policy (internal/delivery/lmtp/session.go handleRCPT / handleDATA, storage.DeliverMessage,
determineTargetFolder / isSpamByHeaders) and the documented decision table of config/delivery.yaml. -/
namespace Raven.Policy
open Raven Raven.GoStr

structure Cfg where
  allowed : List Bytes        -- allowed_domains (empty = accept all)
  rejectUnknown : Bool        -- reject_unknown_user
  maxRcpt : Nat               -- max_recipients
  maxSize : Nat               -- max_size
  quotaEnabled : Bool
  quotaLimit : Nat
  defaultFolder : Bytes

/-- what the shared database knows -/
structure Dir where
  userIn : Bytes → Bytes → Bool     -- enabled user `local` in `domain`
  disabled : Bytes → Bytes → Bool   -- a disabled user row exists
  isRole : Bytes → Bool             -- enabled role mailbox with this address

/-- `strings.Split(email, "@")` must give exactly two parts (`ExtractLocalPart` / `ExtractDomain`) -/
def splitAddr (a : Bytes) : Option (Bytes × Bytes) :=
  match splitOn 64 a with
  | [l, d] => some (l, d)
  | _ => none

/-! ## the implementation's decision order -/
/-- `handleRCPT` after the address has been parsed out of the command -/
def rcptImpl (cfg : Cfg) (dir : Dir) (count : Nat) (addr : Bytes) : Nat :=
  if count ≥ cfg.maxRcpt then 452
  else
    let domOk : Option Nat :=
      if cfg.allowed ≠ [] then
        match splitAddr addr with
        | none => some 550
        | some (_, d) => if cfg.allowed.any (fun a => equalFold d a) then none else some 550
      else none
    match domOk with
    | some c => c
    | none =>
      if cfg.rejectUnknown then
        match splitAddr addr with
        | none => 450                       -- CheckRecipientExists returns an error: "temporary failure"
        | some (l, d) => if dir.isRole addr || dir.userIn l d then 250 else 550
      else 250

/-! ## the documented decision -/
def domainAllowed (cfg : Cfg) (addr : Bytes) : Prop :=
  cfg.allowed = [] ∨ ∃ l d, splitAddr addr = some (l, d) ∧ ∃ a ∈ cfg.allowed, equalFold d a = true

def known (dir : Dir) (addr : Bytes) : Prop :=
  ∃ l d, splitAddr addr = some (l, d) ∧ (dir.isRole addr = true ∨ dir.userIn l d = true)

/-- config/delivery.yaml: a recipient is accepted iff the transaction has room for it, its domain is allowed
("empty = accept all") and — with reject_unknown_user — it is in the database -/
def DocAccept (cfg : Cfg) (dir : Dir) (count : Nat) (addr : Bytes) : Prop :=
  count < cfg.maxRcpt ∧ domainAllowed cfg addr ∧ (cfg.rejectUnknown = true → known dir addr)

theorem rcpt_accept_iff (cfg : Cfg) (dir : Dir) (count : Nat) (addr : Bytes) :
    rcptImpl cfg dir count addr = 250 ↔ DocAccept cfg dir count addr := by
  unfold rcptImpl DocAccept domainAllowed known
  by_cases hc : count ≥ cfg.maxRcpt
  · simp only [hc, if_true]; constructor
    · intro h; simp at h
    · intro h; omega
  · simp only [hc, if_false]
    have hlt : count < cfg.maxRcpt := by omega
    by_cases ha : cfg.allowed = []
    · simp only [ha, ne_eq, not_true_eq_false, if_false, true_or, true_and, hlt]
      by_cases hr : cfg.rejectUnknown = true
      · simp only [hr, if_true, forall_const]
        cases hs : splitAddr addr with
        | none => simp
        | some p =>
          obtain ⟨l, d⟩ := p
          simp only [Option.some.injEq, Prod.mk.injEq]
          constructor
          · intro h
            refine ⟨l, d, ⟨rfl, rfl⟩, ?_⟩
            by_cases h1 : (dir.isRole addr || dir.userIn l d) = true
            · simpa [Bool.or_eq_true] using h1
            · simp [h1] at h
          · rintro ⟨l', d', ⟨rfl, rfl⟩, h⟩
            have : (dir.isRole addr || dir.userIn l d) = true := by simpa [Bool.or_eq_true] using h
            simp only [this, if_true]
      · simp [hr]
    · simp only [ne_eq, ha, not_false_eq_true, if_true, false_or, hlt, true_and]
      cases hs : splitAddr addr with
      | none => simp
      | some p =>
        obtain ⟨l, d⟩ := p
        simp only [Option.some.injEq, Prod.mk.injEq]
        by_cases hany : (cfg.allowed.any fun a => equalFold d a) = true
        · simp only [hany, if_true]
          have hdom : ∃ l' d', (l = l' ∧ d = d') ∧ ∃ a ∈ cfg.allowed, equalFold d' a = true := by
            simp only [List.any_eq_true] at hany
            obtain ⟨a, ha1, ha2⟩ := hany
            exact ⟨l, d, ⟨rfl, rfl⟩, a, ha1, ha2⟩
          by_cases hr : cfg.rejectUnknown = true
          · simp only [hr, if_true, forall_const]
            constructor
            · intro h
              refine ⟨hdom, l, d, ⟨rfl, rfl⟩, ?_⟩
              by_cases h1 : (dir.isRole addr || dir.userIn l d) = true
              · simpa [Bool.or_eq_true] using h1
              · simp [h1] at h
            · rintro ⟨_, l', d', ⟨rfl, rfl⟩, h⟩
              have : (dir.isRole addr || dir.userIn l d) = true := by simpa [Bool.or_eq_true] using h
              simp only [this, if_true]
          · simp only [hr, Bool.false_eq_true, if_false, false_implies, and_true, true_iff]
            exact hdom
        · simp only [hany, Bool.false_eq_true, if_false]
          constructor
          · intro h; simp at h
          · rintro ⟨⟨l', d', ⟨rfl, rfl⟩, a, ha1, ha2⟩, _⟩
            exfalso; apply hany
            simp only [List.any_eq_true]
            exact ⟨a, ha1, ha2⟩

/-- a refused recipient is told so with the documented class of reply: 452 when the transaction is full, otherwise a
5xx (or 450 when the address cannot even be looked up) -/
theorem rcpt_refusal_codes (cfg : Cfg) (dir : Dir) (count : Nat) (addr : Bytes) :
    rcptImpl cfg dir count addr ∈ [250, 452, 550, 450] ∧ (count ≥ cfg.maxRcpt → rcptImpl cfg dir count addr = 452) := by
  unfold rcptImpl
  constructor
  · split
    · simp
    · simp only []
      split
      · rename_i c hc
        split at hc
        · split at hc
          · cases hc; simp
          · split at hc
            · cases hc
            · cases hc; simp
        · cases hc
      · split
        · split
          · simp
          · split <;> simp
        · simp
  · intro h; simp [h]

/-! ## spam routing and filing -/
def lowerTrim (v : Bytes) : Bytes := toLower (trimSpace v)

/-- `isSpamByHeaders` on the first X-Rspamd-Action and the first X-Spam-Status value -/
def isSpam (rspamd : Option Bytes) (spamStatus : Option Bytes) : Bool :=
  (match rspamd with
   | some a => let x := lowerTrim a; x = b!"reject" || x = b!"rewrite subject" || x = b!"add header"
   | none => false) ||
  (match spamStatus with
   | some s => hasPrefix (lowerTrim s) (b!"yes")
   | none => false)

def spamFolder : Bytes := b!"Spam"

/-- `determineTargetFolder` -/
def targetFolder (cfg : Cfg) (rspamd spamStatus : Option Bytes) : Bytes :=
  if isSpam rspamd spamStatus then spamFolder else cfg.defaultFolder

inductive Owner where
  | role (addr : Bytes)
  | user (loc dom : Bytes)
deriving Repr, DecidableEq

/-- `DeliverMessage`: the store of exactly that address — the role mailbox's if the address is one, else the user's
(created on first delivery); `none` = delivery fails (odd syntax, disabled user) -/
def targetOwner (dir : Dir) (addr : Bytes) : Option Owner :=
  match splitAddr addr with
  | none => none
  | some (l, d) => if dir.isRole addr then some (.role addr) else if dir.disabled l d then none else some (.user l d)

/-! ## the recipient as written on the wire -/
/-- `handleRCPT` from the address between the angle brackets: `parseRcptTo` keeps it with its domain in lower case, and
that spelling is what every check and the filing see -/
def rcptWire (cfg : Cfg) (dir : Dir) (count : Nat) (raw : Bytes) : Nat := rcptImpl cfg dir count (lowerDomain raw)
def ownerWire (dir : Dir) (raw : Bytes) : Option Owner := targetOwner dir (lowerDomain raw)

/-! ## DATA-time checks -/
/-- the size limit as enforced (reader + ValidateMessage): strictly more than max_size octets is refused -/
def sizeOk (cfg : Cfg) (size : Nat) : Bool := size ≤ cfg.maxSize

/-- the documented quota rule -/
def QuotaDoc (cfg : Cfg) (usage size : Nat) : Prop := cfg.quotaEnabled = true → usage + size ≤ cfg.quotaLimit
/-- what the code does with the quota (`CheckRecipientQuota`, answered 552 when it fails): the store of exactly that address
is over quota when what it holds plus the message exceeds the limit; role mailboxes have none -/
def quotaImpl (cfg : Cfg) (usage size : Nat) : Bool := !cfg.quotaEnabled || decide (usage + size ≤ cfg.quotaLimit)

end Raven.Policy
