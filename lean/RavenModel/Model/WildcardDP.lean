import RavenModel.Model.Wildcard
/-! Prototype: table-driven matcher (the planned fix) = backtracking matcher = RFC relation; cost is a product -/
namespace Wild

def hd (l : List Bool) : Bool := l.headD false

/-- one pattern character: from the row for `ps` (indexed by suffixes of `t`) to the row for `c :: ps` -/
def stepRow (c : UInt8) : List UInt8 → List Bool → List Bool
  | [], nx => [if c = star ∨ c = pct then hd nx else false]
  | d :: ts, nx =>
    let rest := stepRow c ts nx.tail
    let here :=
      if c = star then hd nx || hd rest
      else if c = pct then hd nx || (if d = delim then false else hd rest)
      else (if d = c then hd nx.tail else false)
    here :: rest

def baseRow : List UInt8 → List Bool
  | [] => [true]
  | _ :: ts => false :: baseRow ts

def dpRow (p t : List UInt8) : List Bool := p.foldr (fun c row => stepRow c t row) (baseRow t)
def dpMatch (p t : List UInt8) : Bool := hd (dpRow p t)

/-- number of table cells written: the cost model of the fixed matcher -/
def cells (p t : List UInt8) : Nat := (p.length + 1) * (t.length + 1)

/-- reference without the end-of-pattern shortcuts -/
def wm : List UInt8 → List UInt8 → Bool
  | [], t => t.isEmpty
  | c :: ps, t =>
    if c = star then starLoop (wm ps) t
    else if c = pct then pctLoop (wm ps) t
    else match t with
      | [] => false
      | d :: ts => if d = c then wm ps ts else false

/-- row of a matcher over all suffixes -/
def rowOf (k : List UInt8 → Bool) : List UInt8 → List Bool
  | [] => [k []]
  | d :: ts => k (d :: ts) :: rowOf k ts

theorem rowOf_hd (k : List UInt8 → Bool) (t : List UInt8) : hd (rowOf k t) = k t := by
  cases t <;> simp [rowOf, hd]
theorem rowOf_tail (k : List UInt8 → Bool) (d : UInt8) (ts : List UInt8) : (rowOf k (d :: ts)).tail = rowOf k ts := by
  simp [rowOf]

theorem baseRow_eq (t : List UInt8) : baseRow t = rowOf (wm []) t := by
  induction t with
  | nil => simp [baseRow, rowOf, wm]
  | cons d ts ih => simp [baseRow, rowOf, wm, ih]

theorem stepRow_eq (c : UInt8) (ps t : List UInt8) : stepRow c t (rowOf (wm ps) t) = rowOf (wm (c :: ps)) t := by
  induction t with
  | nil =>
    simp only [stepRow, rowOf, hd, List.headD_cons]
    by_cases hs : c = star
    · simp [hs, wm, starLoop]
    · by_cases hp : c = pct
      · subst hp; simp [wm, pctLoop, show pct ≠ star by decide]
      · simp [hs, hp, wm]
  | cons d ts ih =>
    simp only [stepRow, rowOf_tail, ih, rowOf_hd]
    simp only [rowOf]
    congr 1
    by_cases hs : c = star
    · simp [hs, wm, starLoop, hd]
    · by_cases hp : c = pct
      · subst hp; simp [wm, pctLoop, hd, hs]
      · simp [hs, hp, wm, hd, rowOf_hd]

theorem dpRow_eq (p t : List UInt8) : dpRow p t = rowOf (wm p) t := by
  induction p with
  | nil => simp [dpRow, baseRow_eq]
  | cons c ps ih =>
    have : dpRow (c :: ps) t = stepRow c t (dpRow ps t) := rfl
    rw [this, ih, stepRow_eq]

theorem dpMatch_eq_wm (p t : List UInt8) : dpMatch p t = wm p t := by
  simp [dpMatch, dpRow_eq, rowOf_hd]

theorem wm_nil : wm [] = fun x => x.isEmpty := by funext x; simp [wm]

theorem starLoop_all (t : List UInt8) : starLoop (wm []) t = true := by
  rw [wm_nil]
  induction t with
  | nil => simp [starLoop]
  | cons d ts ih => simp [starLoop, ih]

theorem pctLoop_end (t : List UInt8) : pctLoop (wm []) t = !(t.contains delim) := by
  rw [wm_nil]
  induction t with
  | nil => simp [pctLoop]
  | cons d ts ih =>
    by_cases hd' : d = delim
    · subst hd'; simp [pctLoop]
    · have h2 : ¬ delim = d := fun h => hd' h.symm
      simp only [pctLoop, List.isEmpty_cons, Bool.false_or, hd', if_false, ih]
      simp [h2]

theorem wm_eq_wmatch (p t : List UInt8) : wm p t = wmatch p t := by
  induction p generalizing t with
  | nil => simp [wm, wmatch]
  | cons c ps ih =>
    have hk : wm ps = wmatch ps := funext ih
    unfold wm wmatch
    by_cases hs : c = star
    · simp only [hs, if_true]
      by_cases he : ps.isEmpty
      · have : ps = [] := by simpa using he
        subst this; simp [starLoop_all]
      · simp [he, hk]
    · by_cases hp : c = pct
      · subst hp
        simp only [show ¬ pct = star by decide, if_true, if_false]
        by_cases he : ps.isEmpty
        · have : ps = [] := by simpa using he
          subst this; simp [pctLoop_end]
        · simp [he, hk]
      · simp only [hs, hp, if_false]
        cases t with
        | nil => rfl
        | cons d ts => simp [ih]

/-- C18: the table-driven matcher accepts exactly the RFC 3501 relation, in (|p|+1)(|n|+1) cells -/
theorem dpMatch_iff (p t : List UInt8) : dpMatch p t = true ↔ Matches p t := by
  rw [dpMatch_eq_wm, wm_eq_wmatch, wmatch_iff]
theorem dpRow_cells (p t : List UInt8) : (dpRow p t).length = t.length + 1 := by
  rw [dpRow_eq]; induction t with
  | nil => simp [rowOf]
  | cons d ts ih => simp [rowOf, ih]
end Wild

namespace Wild
/-- every row the table-driven matcher writes, newest first (cost model: one cell = one basic step) -/
def dpRows : List UInt8 → List UInt8 → List (List Bool)
  | [], t => [baseRow t]
  | c :: ps, t => let rs := dpRows ps t; stepRow c t (rs.headD []) :: rs

theorem dpRows_head (p t : List UInt8) : (dpRows p t).headD [] = dpRow p t := by
  induction p with
  | nil => simp [dpRows, dpRow]
  | cons c ps ih => simp only [dpRows, List.headD_cons, ih]; rfl

theorem dpRows_length (p t : List UInt8) : (dpRows p t).length = p.length + 1 := by
  induction p with
  | nil => simp [dpRows]
  | cons c ps ih => simp [dpRows, ih]

theorem dpRows_row_length (p t : List UInt8) : ∀ r ∈ dpRows p t, r.length = t.length + 1 := by
  induction p with
  | nil => intro r hr; simp [dpRows] at hr; subst hr; simpa [dpRow] using dpRow_cells [] t
  | cons c ps ih =>
    intro r hr
    simp only [dpRows, List.mem_cons] at hr
    rcases hr with rfl | hr
    · rw [dpRows_head]; exact dpRow_cells (c :: ps) t
    · exact ih r hr

def cellsWritten (p t : List UInt8) : Nat := ((dpRows p t).map List.length).sum

theorem sum_const (l : List Nat) (k : Nat) (h : ∀ x ∈ l, x = k) : l.sum = l.length * k := by
  induction l with
  | nil => simp
  | cons a as ih =>
    simp only [List.sum_cons, List.length_cons]
    rw [ih (fun x hx => h x (List.mem_cons_of_mem _ hx)), h a (List.mem_cons_self ..)]
    rw [Nat.add_mul, Nat.one_mul, Nat.add_comm]

theorem cellsWritten_eq (p t : List UInt8) : cellsWritten p t = (p.length + 1) * (t.length + 1) := by
  unfold cellsWritten
  rw [sum_const _ (t.length + 1)]
  · simp [dpRows_length]
  · intro x hx
    simp only [List.mem_map] at hx
    obtain ⟨r, hr, rfl⟩ := hx
    exact dpRows_row_length p t r hr
end Wild
