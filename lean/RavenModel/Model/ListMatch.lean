import RavenModel.Model.WildcardDP
/-! `utils.MatchWildcard`, `utils.BuildCanonicalPattern`, `utils.FilterMailboxes` (internal/server/utils/pattern.go) -/
namespace Raven.ListMatch
open Raven Wild

/-- "INBOX" -/
def inbox : Bytes := [73, 78, 66, 79, 88]

/-- `if strings.ToUpper(x) == "INBOX" { x = "INBOX" }` -/
def normInbox (x : Bytes) : Bytes := if toUpper x = inbox then inbox else x

/-- `utils.MatchWildcard(text, pattern, "/")` on the table-driven `doWildcardMatch` -/
def matchWildcard (text pattern : Bytes) : Bool := dpMatch (normInbox pattern) (normInbox text)

/-- `utils.BuildCanonicalPattern(reference, pattern, "/")` -/
def canonical (ref pat : Bytes) : Bytes :=
  if pat.head? = some delim then pat
  else if ref = [] then pat
  else if ref.getLast? ≠ some delim then ref ++ delim :: pat
  else ref ++ pat

/-- `utils.FilterMailboxes` -/
def filter (mbs : List Bytes) (ref pat : Bytes) : List Bytes :=
  let c := canonical ref pat
  let ms := mbs.filter (fun m => matchWildcard m c)
  if matchWildcard inbox (toUpper c) && !(ms.any fun m => toUpper m = inbox) then ms ++ [inbox] else ms

/-- the RFC 3501 relation with the INBOX rule -/
def MatchesCI (pattern name : Bytes) : Prop := Matches (normInbox pattern) (normInbox name)

theorem matchWildcard_iff (text pattern : Bytes) : matchWildcard text pattern = true ↔ MatchesCI pattern text := by
  unfold matchWildcard MatchesCI; exact dpMatch_iff _ _

theorem mem_filter (mbs : List Bytes) (ref pat n : Bytes) :
    n ∈ filter mbs ref pat ↔
      (n ∈ mbs ∧ MatchesCI (canonical ref pat) n) ∨
      (n = inbox ∧ MatchesCI (toUpper (canonical ref pat)) inbox ∧
        ∀ m ∈ mbs, MatchesCI (canonical ref pat) m → toUpper m ≠ inbox) := by
  unfold filter
  simp only []
  split
  · rename_i h
    simp only [Bool.and_eq_true, Bool.not_eq_true', List.any_eq_false, List.mem_filter, decide_eq_true_eq,
      matchWildcard_iff, and_imp] at h
    simp only [List.mem_append, List.mem_filter, matchWildcard_iff, List.mem_singleton]
    constructor
    · rintro (h1 | h1)
      · exact Or.inl h1
      · exact Or.inr ⟨h1, h.1, fun m hm hc => h.2 m hm hc⟩
    · rintro (h1 | h1)
      · exact Or.inl h1
      · exact Or.inr h1.1
  · rename_i h
    simp only [List.mem_filter, matchWildcard_iff]
    constructor
    · intro h1; exact Or.inl h1
    · rintro (h1 | ⟨_, h2, h3⟩)
      · exact h1
      · exfalso; apply h
        simp only [Bool.and_eq_true, Bool.not_eq_true', List.any_eq_false, List.mem_filter, decide_eq_true_eq,
          matchWildcard_iff, and_imp]
        exact ⟨h2, fun m hm hc => h3 m hm hc⟩

end Raven.ListMatch
