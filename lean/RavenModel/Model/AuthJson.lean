/-! C04.1 — the request body built with `encoding/json`'s string escaping is read back exactly by a strict JSON reader.
Strings are sequences of Unicode code points (what a JSON string is once the UTF-8 has been validated). -/
namespace Raven.Json

def hexDigit (d : Nat) : Char :=
  if d < 10 then Char.ofNat (48 + d) else Char.ofNat (87 + d)      -- 0-9 a-f

def hexVal (c : Char) : Option Nat :=
  let n := c.toNat
  if 48 ≤ n ∧ n ≤ 57 then some (n - 48)
  else if 97 ≤ n ∧ n ≤ 102 then some (n - 87)
  else if 65 ≤ n ∧ n ≤ 70 then some (n - 55)
  else none

theorem hexVal_hexDigit (d : Nat) (h : d < 16) : hexVal (hexDigit d) = some d := by
  have : d = 0 ∨ d = 1 ∨ d = 2 ∨ d = 3 ∨ d = 4 ∨ d = 5 ∨ d = 6 ∨ d = 7 ∨ d = 8 ∨ d = 9 ∨ d = 10 ∨ d = 11 ∨ d = 12 ∨ d = 13 ∨ d = 14 ∨ d = 15 := by omega
  rcases this with rfl|rfl|rfl|rfl|rfl|rfl|rfl|rfl|rfl|rfl|rfl|rfl|rfl|rfl|rfl|rfl <;> decide

def hex4 (n : Nat) : List Char :=
  [hexDigit (n / 4096 % 16), hexDigit (n / 256 % 16), hexDigit (n / 16 % 16), hexDigit (n % 16)]

/-- which characters encoding/json.Marshal writes as \uXXXX (escapeHTML on) -/
def needsU (c : Char) : Bool :=
  c.toNat < 32 || c = '<' || c = '>' || c = '&' || c.toNat = 0x2028 || c.toNat = 0x2029

def escapeChar (c : Char) : List Char :=
  if c = '"' then ['\\', '"']
  else if c = '\\' then ['\\', '\\']
  else if c = '\n' then ['\\', 'n']
  else if c = '\r' then ['\\', 'r']
  else if c = '\t' then ['\\', 't']
  else if c.toNat = 8 then ['\\', 'b']
  else if c.toNat = 12 then ['\\', 'f']
  else if needsU c then '\\' :: 'u' :: hex4 c.toNat
  else [c]

def escape (s : List Char) : List Char := s.flatMap escapeChar

def pre1 : List Char := ['{', '\"', 'e', 'm', 'a', 'i', 'l', '\"', ':', '\"']
def mid : List Char := [',', '\"', 'p', 'a', 's', 's', 'w', 'o', 'r', 'd', '\"', ':', '\"']
def mkBody (email pw : List Char) : List Char :=
  pre1 ++ escape email ++ '"' :: mid ++ escape pw ++ ['"', '}']

inductive St where
  | norm
  | esc
  | u (k acc : Nat)     -- inside \\uXXXX: k hex digits read, value so far

/-- strict JSON string reader (after the opening quote), one character per step -/
def readS : St → List Char → Option (List Char × List Char)
  | _, [] => none
  | .norm, c :: cs =>
    if c = '"' then some ([], cs)
    else if c.toNat < 32 then none
    else if c = '\\' then readS .esc cs
    else (readS .norm cs).map (fun p => (c :: p.1, p.2))
  | .esc, e :: cs =>
    if e = '"' then (readS .norm cs).map (fun p => ('"' :: p.1, p.2))
    else if e = '\\' then (readS .norm cs).map (fun p => ('\\' :: p.1, p.2))
    else if e = '/' then (readS .norm cs).map (fun p => ('/' :: p.1, p.2))
    else if e = 'n' then (readS .norm cs).map (fun p => ('\n' :: p.1, p.2))
    else if e = 'r' then (readS .norm cs).map (fun p => ('\r' :: p.1, p.2))
    else if e = 't' then (readS .norm cs).map (fun p => ('\t' :: p.1, p.2))
    else if e = 'b' then (readS .norm cs).map (fun p => (Char.ofNat 8 :: p.1, p.2))
    else if e = 'f' then (readS .norm cs).map (fun p => (Char.ofNat 12 :: p.1, p.2))
    else if e = 'u' then readS (.u 0 0) cs
    else none
  | .u k acc, h :: cs =>
    match hexVal h with
    | none => none
    | some v =>
      let n := acc * 16 + v
      if k = 3 then
        if 0xD800 ≤ n ∧ n ≤ 0xDFFF then none
        else (readS .norm cs).map (fun p => (Char.ofNat n :: p.1, p.2))
      else readS (.u (k+1) n) cs
def readStr (s : List Char) := readS .norm s

theorem needsU_lt (c : Char) (h : needsU c = true) : c.toNat < 65536 ∧ ¬ (0xD800 ≤ c.toNat ∧ c.toNat ≤ 0xDFFF) := by
  simp only [needsU, Bool.or_eq_true, decide_eq_true_eq] at h
  rcases h with ((((h | h) | h) | h) | h) | h
  · omega
  · subst h; decide
  · subst h; decide
  · subst h; decide
  · omega
  · omega

theorem hex4_val (n : Nat) (h : n < 65536) :
    (((0 * 16 + n / 4096 % 16) * 16 + n / 256 % 16) * 16 + n / 16 % 16) * 16 + n % 16 = n := by omega

theorem readS_hex4 (n : Nat) (hlt : n < 65536) (hsur : ¬ (0xD800 ≤ n ∧ n ≤ 0xDFFF)) (rest : List Char) :
    readS (.u 0 0) (hex4 n ++ rest) = (readS .norm rest).map (fun p => (Char.ofNat n :: p.1, p.2)) := by
  simp only [hex4, List.cons_append, List.nil_append, readS,
    hexVal_hexDigit _ (Nat.mod_lt _ (by decide : 0 < 16))]
  simp only [show ¬ (0 : Nat) = 3 by decide, show ¬ (0 + 1 : Nat) = 3 by decide, show ¬ (0 + 1 + 1 : Nat) = 3 by decide,
    if_false, if_true, show (0 + 1 + 1 + 1 : Nat) = 3 by decide]
  rw [hex4_val n hlt]
  simp only [hsur, if_false]

theorem readStr_escapeChar (c : Char) (rest : List Char) :
    readS .norm (escapeChar c ++ rest) = (readS .norm rest).map (fun p => (c :: p.1, p.2)) := by
  unfold escapeChar
  by_cases h1 : c = '"'
  · subst h1; simp [readS]
  · by_cases h2 : c = '\\'
    · subst h2; simp [readS]
    · by_cases h3 : c = '\n'
      · subst h3; simp [readS]
      · by_cases h4 : c = '\r'
        · subst h4; simp [readS]
        · by_cases h5 : c = '\t'
          · subst h5; simp [readS]
          · by_cases h6 : c.toNat = 8
            · have : c = Char.ofNat 8 := by rw [← h6, Char.ofNat_toNat]
              subst this; simp [readS]
            · by_cases h7 : c.toNat = 12
              · have : c = Char.ofNat 12 := by rw [← h7, Char.ofNat_toNat]
                subst this; simp [readS]
              · simp only [h1, h2, h3, h4, h5, h6, h7, if_false]
                by_cases hu : needsU c = true
                · obtain ⟨hlt, hsur⟩ := needsU_lt c hu
                  simp only [hu, if_true, List.cons_append]
                  have := readS_hex4 c.toNat hlt hsur rest
                  simp only [Char.ofNat_toNat] at this
                  simp [readS, this]
                · have hu' : needsU c = false := by simpa using hu
                  have hge : ¬ c.toNat < 32 := by
                    intro hlt; simp [needsU, hlt] at hu'
                  simp only [hu', Bool.false_eq_true, if_false, List.cons_append, List.nil_append]
                  simp [readS, h1, h2, hge]

theorem readStr_escape (s rest : List Char) : readStr (escape s ++ '"' :: rest) = some (s, rest) := by
  unfold readStr
  induction s with
  | nil => simp [escape, readS]
  | cons c cs ih =>
    have : escape (c :: cs) ++ '"' :: rest = escapeChar c ++ (escape cs ++ '"' :: rest) := by
      simp [escape]
    rw [this, readStr_escapeChar, ih]; rfl

/-- C04.1: the body the backend receives decodes to exactly the address and password supplied -/
def readBody (b : List Char) : Option (List Char × List Char) :=
  if b.take 10 = pre1 then
    match readStr (b.drop 10) with
    | none => none
    | some (e, r) =>
      if r.take 13 = mid then
        match readStr (r.drop 13) with
        | some (p, r') => if r' = ['}'] then some (e, p) else none
        | none => none
      else none
  else none

theorem body_faithful (e p : List Char) : readBody (mkBody e p) = some (e, p) := by
  unfold readBody mkBody
  have h0 : (pre1 ++ escape e ++ '"' :: mid ++ escape p ++ ['"', '}']).take 10 = pre1 := by
    simp [pre1]
  have h1 : (pre1 ++ escape e ++ '"' :: mid ++ escape p ++ ['"', '}']).drop 10
      = escape e ++ '"' :: (mid ++ (escape p ++ '"' :: ['}'])) := by
    simp [pre1]
  have h2 : (mid ++ (escape p ++ '"' :: ['}'])).take 13 = mid := by simp [mid]
  have h3 : (mid ++ (escape p ++ '"' :: ['}'])).drop 13 = escape p ++ '"' :: ['}'] := by simp [mid]
  simp only [h0, if_true, h1, readStr_escape, h2, h3]

/-- the pinned Sprintf body: a quote in the address rewrites the object -/
def mkBodyPinned (email pw : List Char) : List Char := pre1 ++ email ++ '"' :: mid ++ pw ++ ['"', '}']
example : (readBody (mkBodyPinned "m\",\"password\":\"x".toList "pw".toList)).map (·.1) ≠ some "m\",\"password\":\"x".toList := by
  decide
end Raven.Json
