import RavenModel.Model.SeqSet
import RavenModel.Model.Flags
/-! The per-store mailbox machine: what IMAP commands and LMTP deliveries do to one store (a user's or a role
mailbox's SQLite file), at the level the properties observe: mailbox names, UIDVALIDITY, UIDNEXT, the links
(UID, message, flags) of every mailbox and the subscription list. Mirrors db/user_schema.go, message.go, uid.go,
selection.go, mailbox.go. Ghost state (`inc`, `log`) records incarnations and every UID assignment ever made. -/
namespace Raven.Mail
open Raven Raven.GoStr Raven.Flags Raven.SeqSet

structure Link where
  uid : Nat
  msg : Nat
  flags : List Bytes
deriving Repr, DecidableEq

structure Mbox where
  name : Bytes
  validity : Nat
  uidNext : Nat
  links : List Link      -- ascending UID order
  inc : Nat              -- ghost: incarnation number, never reused
deriving Repr, DecidableEq

structure Entry where    -- ghost: one UID assignment
  inc : Nat
  name : Bytes
  validity : Nat
  uid : Nat
  msg : Nat
deriving Repr, DecidableEq

structure Store where
  boxes : List Mbox
  subs : List Bytes
  nextInc : Nat
  log : List Entry       -- newest first
  vseq : Nat := 0        -- `uid_validity_seq.last`: the last UIDVALIDITY this store has issued
deriving Repr

def inboxName : Bytes := b!"INBOX"
def spamName : Bytes := b!"Spam"
def defaultNames : List Bytes := [b!"INBOX", b!"Sent", b!"Drafts", b!"Trash", b!"Spam"]

/-- a freshly initialised store (`createDefaultMailboxes`), created at clock reading `now` -/
def Store.init (now : Nat) : Store :=
  { boxes := (defaultNames.zipIdx).map (fun (n, i) => { name := n, validity := now + i, uidNext := 1, links := [], inc := i })
    subs := []
    nextInc := defaultNames.length
    log := []
    vseq := now + (defaultNames.length - 1) }

/-- `nextUIDValidity`: the clock reading, or the successor of the last value issued, whichever is larger -/
def Store.freshValidity (s : Store) (now : Nat) : Nat := max (s.vseq + 1) now

def Store.find (s : Store) (n : Bytes) : Option Mbox := s.boxes.find? (fun b => b.name = n)
def Store.has (s : Store) (n : Bytes) : Bool := s.boxes.any (fun b => b.name = n)
def Store.modify (s : Store) (n : Bytes) (f : Mbox → Mbox) : Store :=
  { s with boxes := s.boxes.map (fun b => if b.name = n then f b else b) }

/-- exact-token flag test, ASCII case-insensitive (`hasFlag`, and `(' '||flags||' ') LIKE '% \Deleted %'`) -/
def hasTok (flags : List Bytes) (t : Bytes) : Bool := flags.any (fun f => equalFold f t)

/-! ### adding links: `uid := uid_next; uid_next := uid_next + 1; INSERT` (one atomic allocation) -/
def Mbox.push (b : Mbox) (msg : Nat) (flags : List Bytes) : Mbox :=
  { b with uidNext := b.uidNext + 1, links := b.links ++ [{ uid := b.uidNext, msg := msg, flags := flags }] }

def Mbox.entry (b : Mbox) (msg : Nat) : Entry :=
  { inc := b.inc, name := b.name, validity := b.validity, uid := b.uidNext, msg := msg }

/-- add one message to mailbox `n`; `none` when the mailbox does not exist -/
def Store.add (s : Store) (n : Bytes) (msg : Nat) (flags : List Bytes) : Store × Option Nat :=
  match s.find n with
  | none => (s, none)
  | some b => ({ s.modify n (fun b => b.push msg flags) with log := b.entry msg :: s.log }, some b.uidNext)

def Store.addMany (s : Store) (n : Bytes) : List (Nat × List Bytes) → Store
  | [] => s
  | (msg, fl) :: rest => ((s.add n msg fl).1).addMany n rest

/-! ### COPY / UID COPY -/
def copyFlags (fl : List Bytes) : List Bytes :=
  if fl.any (fun f => containsSub f recent) then fl else fl ++ [recent]

inductive Res where | ok | no | bad
deriving Repr, DecidableEq

/-- COPY of the links at `ranks` (1-based, resolved against the source before anything is inserted) -/
def Store.copy (s : Store) (src : Bytes) (ranks : List Nat) (dst : Bytes) : Store × Res :=
  match s.find src with
  | none => (s, .no)
  | some sb =>
    if ranks.isEmpty then (s, .bad)
    else if !s.has dst then (s, .no)
    else
      let picked := ranks.map (fun r => sb.links[r - 1]?)
      if picked.all Option.isSome = false then (s, .no)
      else (s.addMany dst (picked.filterMap (fun o => o.map (fun l => (l.msg, copyFlags l.flags)))), .ok)

/-- UID COPY: the UIDs present in the set, in the parser's order -/
def Store.uidCopy (s : Store) (src : Bytes) (uids : List Nat) (dst : Bytes) : Store × Res :=
  match s.find src with
  | none => (s, .no)
  | some sb =>
    if uids.isEmpty then (s, .ok)
    else if !s.has dst then (s, .no)
    else
      let picked := uids.filterMap (fun u => sb.links.find? (fun l => l.uid = u))
      (s.addMany dst (picked.map (fun l => (l.msg, copyFlags l.flags))), .ok)

/-! ### STORE / UID STORE with the Junk / NonJunk auto-move -/
inductive Note where
  | fetch (rank : Nat) (uid : Nat) (flags : List Bytes)
  | expunge (rank : Nat)
deriving Repr

/-- `MoveMessageToMailbox`: `none` = error (destination missing, or `ErrAlreadyInMailbox` when source = destination:
the caller then stores the flags as usual), `some s'` = moved -/
def Store.move (s : Store) (src : Bytes) (l : Link) (dst : Bytes) (flags : List Bytes) : Option Store :=
  if !s.has dst then none
  else if src = dst then none
  else
    let s1 := (s.add dst l.msg flags).1
    some (s1.modify src (fun b => { b with links := b.links.filter (fun x => x.uid ≠ l.uid) }))

/-- one message of a STORE / UID STORE: the link is addressed by `(mailbox, uid)` -/
def Store.storeOne (s : Store) (box : Bytes) (l : Link) (rank : Nat) (new : List Bytes) (mode : Mode) :
    Store × List Note :=
  let upd := newFlags l.flags new mode
  let junkAdded := !(junk ∈ l.flags) && (junk ∈ upd)
  let nonJunkAdded := !(nonJunk ∈ l.flags) && (nonJunk ∈ upd)
  let setFlags (s : Store) : Store × List Note :=
    (s.modify box (fun b => { b with links := b.links.map (fun x =>
        if x.uid = l.uid then { x with flags := upd } else x) }),
     [.fetch rank l.uid upd])
  if junkAdded then
    match s.move box l spamName (upd.filter (· ≠ nonJunk)) with
    | some s' => (s', [.expunge rank])
    | none => setFlags s
  else if nonJunkAdded then
    match s.move box l inboxName (upd.filter (· ≠ junk)) with
    | some s' => (s', [.expunge rank])
    | none => setFlags s
  else setFlags s

def rankOf (links : List Link) (uid : Nat) : Nat := (links.filter (fun l => l.uid ≤ uid)).length

def Store.storeUid (s : Store) (box : Bytes) (new : List Bytes) (mode : Mode) : List Nat → Store × List Note
  | [] => (s, [])
  | u :: us =>
    match (s.find box).bind (fun b => (b.links.find? (fun l => l.uid = u)).map (fun l => (l, rankOf b.links u))) with
    | none => s.storeUid box new mode us
    | some (l, r) =>
      let (s1, n1) := s.storeOne box l r new mode
      let (s2, n2) := s1.storeUid box new mode us
      (s2, n1 ++ n2)

/-- STORE: the sequence numbers are resolved to messages before anything is changed (a Junk / NonJunk move renumbers what is
behind it); each addressed message is then handled like a UID STORE of it, its notice carrying its number at that moment -/
def Store.storeSeq (s : Store) (box : Bytes) (new : List Bytes) (mode : Mode) (ranks : List Nat) : Store × List Note :=
  match s.find box with
  | none => (s, [])
  | some b => s.storeUid box new mode (ranks.filterMap (fun r => (b.links[r - 1]?).map (·.uid)))

/-! ### EXPUNGE, UID EXPUNGE, CLOSE -/
/-- notices of an expunge: original rank minus the number already announced -/
def notices (doomed : Link → Bool) : (rank : Nat) → (gone : Nat) → List Link → List Nat
  | _, _, [] => []
  | r, k, l :: ls => if doomed l then (r - k) :: notices doomed (r + 1) (k + 1) ls else notices doomed (r + 1) k ls

def Store.expungeBy (s : Store) (box : Bytes) (doomed : Link → Bool) : Store × List Nat :=
  match s.find box with
  | none => (s, [])
  | some b => (s.modify box (fun b => { b with links := b.links.filter (fun l => !doomed l) }), notices doomed 1 0 b.links)

def isDeleted (l : Link) : Bool := hasTok l.flags deleted
def Store.expunge (s : Store) (box : Bytes) : Store × List Nat := s.expungeBy box isDeleted
def Store.uidExpunge (s : Store) (box : Bytes) (uids : List Nat) : Store × List Nat :=
  s.expungeBy box (fun l => isDeleted l && uids.contains l.uid)

/-! ### mailbox names: CREATE, DELETE, RENAME, SUBSCRIBE, UNSUBSCRIBE -/
def slash : Bytes := [b_slash]

/-- proper ancestors of `a/b/c`: `a`, `a/b` (`strings.Split` + `Join` of the leading components) -/
def ancestors (name : Bytes) : List Bytes :=
  let comps := splitOn b_slash name
  ((List.range (comps.length - 1)).map (fun i => joinWith b_slash (comps.take (i + 1)))).filter
    (fun a => toUpper a ≠ inboxName)    -- INBOX exists under every spelling: never created as an implied parent

def Store.newBox (s : Store) (n : Bytes) (now : Nat) : Store :=
  if n = [] ∨ s.has n then s
  else { s with boxes := s.boxes ++ [{ name := n, validity := s.freshValidity now, uidNext := 1, links := [], inc := s.nextInc }]
                nextInc := s.nextInc + 1
                vseq := s.freshValidity now }

def Store.newBoxes (s : Store) (ns : List Bytes) (now : Nat) : Store := ns.foldl (fun s n => s.newBox n now) s

/-- `Roles/`: the part of the hierarchy under which SELECT and EXAMINE address role mailboxes; no personal mailbox is created
or moved there (repair 817e6d4) -/
def rolesPrefix : Bytes := b!"Roles/"
/-- `isRoleMailboxPath`: the folder `Roles` itself and everything below it -/
def underRoles (n : Bytes) : Bool := n = (b!"Roles") || hasPrefix n rolesPrefix

/-- `HandleCreate` (argument as tokenised: quotes trimmed, one trailing `/` removed) -/
def Store.create (s : Store) (arg : Bytes) (now : Nat) : Store × Res :=
  let n := trimSuffix (trimQuotes arg) slash
  if n = [] then (s, .no)
  else if toUpper n = inboxName then (s, .no)
  else if underRoles n then (s, .no)
  else if s.has n then (s, .no)
  else ((s.newBoxes (ancestors n) now).newBox n now, .ok)

/-- children by exact, case-sensitive prefix `name/` -/
def isChildOf (parent child : Bytes) : Bool := hasPrefix child (parent ++ slash)

def protectedNames : List Bytes := [b!"Sent", b!"Drafts", b!"Trash"]

/-- `HandleDelete` + `DeleteMailboxPerUser` -/
def Store.delete (s : Store) (arg : Bytes) : Store × Res :=
  let n := trimQuotes arg
  if n = [] then (s, .bad)
  else if toUpper n = inboxName then (s, .no)
  else if !s.has n then (s, .no)
  else if s.boxes.any (fun b => isChildOf n b.name) then (s, .no)
  else if protectedNames.any (fun p => equalFold n p) then (s, .no)
  else ({ s with boxes := s.boxes.filter (fun b => b.name ≠ n) }, .ok)

def relog (b : Mbox) : List Entry :=
  (b.links.map (fun l => ({ inc := b.inc, name := b.name, validity := b.validity, uid := l.uid, msg := l.msg } : Entry))).reverse

/-- what RENAME does to one name: the mailbox itself, and everything below `old/` keeps its suffix -/
def renamedName (o n m : Bytes) : Bytes :=
  if m = o then n else if isChildOf o m then n ++ m.drop o.length else m

def namesNodup (bs : List Mbox) : Bool := decide ((bs.map (fun b => b.name)).Nodup)

/-- `HandleRename` + `RenameMailboxPerUser` / `renameInboxPerUser` -/
def Store.rename (s : Store) (oldArg newArg : Bytes) (now : Nat) : Store × Res :=
  let o := trimQuotes oldArg
  let n := trimQuotes newArg
  if o = [] ∨ n = [] then (s, .bad)
  else if underRoles (trimSuffix n slash) then (s, .no)
  else if toUpper n = inboxName then (s, .no)
  else if toUpper o = inboxName then
    -- INBOX: a new mailbox takes over the links and continues INBOX's UID sequence; INBOX stays, empty
    if s.has n then (s, .no)
    else match s.find inboxName with
      | none => (s, .no)
      | some ib =>
        let nb : Mbox := { name := n, validity := s.freshValidity now, uidNext := ib.uidNext, links := ib.links, inc := s.nextInc }
        ({ s with boxes := (s.boxes.map (fun b => if b.name = inboxName then { b with links := [] } else b)) ++ [nb]
                  nextInc := s.nextInc + 1
                  vseq := s.freshValidity now
                  log := relog nb ++ s.log }, .ok)
  else if !s.has o then (s, .no)
  else if s.has n then (s, .no)
  else
    let s1 := s.newBoxes (ancestors n) now
    -- the mailbox itself, and every *other* mailbox whose name starts with `old/` (exact prefix), in one transaction
    let renamed := s1.boxes.map (fun b => { b with name := renamedName o n b.name })
    if namesNodup renamed then ({ s1 with boxes := renamed }, .ok) else (s1, .no)

def stripQuotes (a : Bytes) : Bytes :=
  if a.length ≥ 2 ∧ a.head? = some b_dq ∧ a.getLast? = some b_dq then (a.drop 1).take (a.length - 2) else a

def Store.subscribe (s : Store) (arg : Bytes) : Store × Res :=
  let n := stripQuotes arg
  if n = [] then (s, .bad) else (if n ∈ s.subs then s else { s with subs := s.subs ++ [n] }, .ok)

def Store.unsubscribe (s : Store) (arg : Bytes) : Store × Res :=
  let n := stripQuotes arg
  if n = [] then (s, .bad)
  else if n ∈ s.subs then ({ s with subs := s.subs.filter (· ≠ n) }, .ok) else (s, .no)

/-- LSUB's view: an empty list is presented as the default mailboxes -/
def Store.shownSubs (s : Store) : List Bytes := if s.subs.isEmpty then defaultNames else s.subs

end Raven.Mail
