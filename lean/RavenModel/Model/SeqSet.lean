import RavenModel.Base.Dec
import RavenModel.Base.GoStr
/-! Sequence-set and UID-set parsers of internal/server/utils/parser.go, the RFC 3501 denotation of a set,
and the proofs that the parsers return exactly the denoted messages (C09.1). -/
namespace Raven.SeqSet
open Raven Raven.Dec Raven.GoStr

/-! ## the specification: RFC 3501 `sequence-set` -/
inductive End where | num (n : Nat) | star
deriving Repr, DecidableEq
inductive Item where | one (e : End) | rng (a b : End)
deriving Repr, DecidableEq

/-- value of an endpoint when the largest number in use is `top` -/
def End.val (top : Nat) : End → Nat
  | .num n => n
  | .star => top
def End.print : End → Bytes
  | .num n => Dec.print n
  | .star => [b_star]
def Item.print : Item → Bytes
  | .one e => e.print
  | .rng a b => a.print ++ b_colon :: b.print
def printSet (s : List Item) : Bytes := joinWith b_comma (s.map Item.print)

/-- RFC 3501: `n` is one number, `a:b` is every number between the two endpoints in either order -/
def Item.covers (top : Nat) (n : Nat) : Item → Prop
  | .one e => n = e.val top
  | .rng a b => min (a.val top) (b.val top) ≤ n ∧ n ≤ max (a.val top) (b.val top)

instance (top n : Nat) (i : Item) : Decidable (i.covers top n) := by
  cases i <;> unfold Item.covers <;> infer_instance

/-- the set a sequence-set denotes -/
def denotes (s : List Item) (top n : Nat) : Prop := ∃ i ∈ s, i.covers top n

/-- well-formed: numbers are non-zero and fit IMAP's 32 bits (we only need `< 2^63`) -/
def End.ok : End → Prop
  | .num n => 0 < n ∧ n < 9223372036854775808
  | .star => True
def Item.ok : Item → Prop
  | .one e => e.ok
  | .rng a b => a.ok ∧ b.ok

/-! ## `ParseSequenceSetWithDB` (message sequence numbers; `total` = COUNT of the mailbox) -/
def range (lo hi : Nat) : List Nat := (List.range (hi + 1 - lo)).map (· + lo)

theorem mem_range (lo hi n : Nat) : n ∈ range lo hi ↔ lo ≤ n ∧ n ≤ hi := by
  simp only [range, List.mem_map, List.mem_range]
  constructor
  · rintro ⟨k, hk, rfl⟩; omega
  · rintro ⟨h1, h2⟩; exact ⟨n - lo, by omega, by omega⟩

def parsePart (total : Nat) (part0 : Bytes) : List Nat :=
  let part := trimSpace part0
  if part.contains b_colon then
    match splitOn b_colon part with
    | [a, b] =>
      match atoiGo a, atoiGo b with
      | some x, some y =>
        if 0 < x ∧ 0 < y then range (min x.toNat y.toNat) (min (max x.toNat y.toNat) total) else []
      | _, _ => []
    | _ => []
  else
    match atoiGo part with
    | some n => if 0 < n ∧ n ≤ (total : Int) then [n.toNat] else []
    | none => []

/-- `strings.ReplaceAll(s, "*", fmt.Sprintf("%d", total))` -/
def replaceStar (total : Nat) (s : Bytes) : Bytes := s.flatMap (fun c => if c = b_star then Dec.print total else [c])

def parseSeq (s : Bytes) (total : Nat) : List Nat :=
  if total = 0 then [] else (splitOn b_comma (replaceStar total s)).flatMap (parsePart total)

/-! ## `ParseUIDSequenceSetWithDB` (`uids` = the mailbox's UIDs in ascending order) -/
def maxOf (l : List Nat) : Nat := l.foldl max 0

/-- `strconv.Atoi` with the error ignored: 0 on syntax errors -/
def atoiOr0 (s : Bytes) : Int := (atoiGo s).getD 0

def uidEnd (mx : Nat) (s : Bytes) : Int := if s = [b_star] then (mx : Int) else atoiOr0 s

def parseUidPart (uids : List Nat) (mx : Nat) (part0 : Bytes) : List Nat :=
  let part := trimSpace part0
  if part = [b_star] then [mx]
  else if part.contains b_colon then
    match splitOn b_colon part with
    | [a, b] =>
      let x := uidEnd mx a
      let y := uidEnd mx b
      let lo := min x y
      let hi := max x y
      uids.filter (fun u => lo ≤ (u : Int) ∧ (u : Int) ≤ hi)
    | _ => []
  else
    match atoiGo part with
    | some n => if uids.any (fun u => (u : Int) = n) then [n.toNat] else []
    | none => []

def parseUid (s : Bytes) (uids : List Nat) : List Nat :=
  let mx := maxOf uids
  if mx = 0 then [] else (splitOn b_comma s).flatMap (parseUidPart uids mx)

/-! ## FETCH's syntactic validation (each bound is `*` or a positive number, at most one colon per item) -/
def fetchBoundOk (b : Bytes) : Bool :=
  b = [b_star] || (match atoiGo b with | some n => decide (1 ≤ n) | none => false)
def fetchSetOk (s : Bytes) : Bool :=
  (splitOn b_comma s).all (fun part =>
    let bs := splitOn b_colon part
    decide (bs.length ≤ 2) && bs.all fetchBoundOk)

/-! ## lemmas about printed text -/
theorem digit_ne (c : UInt8) (h : isDigit c = true) : c ≠ b_comma ∧ c ≠ b_colon ∧ c ≠ b_star ∧ isSpace c = false := by
  refine ⟨?_, ?_, ?_, ?_⟩
  · intro e; subst e; exact absurd h (by decide)
  · intro e; subst e; exact absurd h (by decide)
  · intro e; subst e; exact absurd h (by decide)
  · unfold isDigit at h; unfold isSpace
    simp only [Bool.and_eq_true, decide_eq_true_eq] at h
    have h1 : (48 : UInt8) ≤ c := h.1
    have h3 : c ≠ 32 := by
      intro e; subst e; exact absurd h1 (by decide)
    have h4 : ¬ (c ≤ 13) := by
      intro h5
      have : (48 : UInt8) ≤ 13 := UInt8.le_trans h1 h5
      exact absurd this (by decide)
    simp [h3, h4]

theorem trimLeftP_id (p : UInt8 → Bool) (s : Bytes) (h : ∀ c, s.head? = some c → p c = false) : trimLeftP p s = s := by
  cases s with
  | nil => rfl
  | cons c cs => simp [trimLeftP, h c rfl]

theorem trimSpace_id (s : Bytes) (h : ∀ c ∈ s, isSpace c = false) : trimSpace s = s := by
  unfold trimSpace trimP trimRightP
  rw [trimLeftP_id isSpace s (fun c hc => h c (by cases s <;> simp_all))]
  rw [trimLeftP_id isSpace s.reverse (fun c hc => h c (by
    have : c ∈ s.reverse := by cases hs : s.reverse <;> simp_all
    simpa using this))]
  simp

theorem replaceStar_append (t : Nat) (a b : Bytes) : replaceStar t (a ++ b) = replaceStar t a ++ replaceStar t b := by
  simp [replaceStar]
theorem replaceStar_digits (t : Nat) (a : Bytes) (h : ∀ c ∈ a, isDigit c = true) : replaceStar t a = a := by
  induction a with
  | nil => rfl
  | cons c cs ih =>
    have hc := (digit_ne c (h c (by simp))).2.2.1
    simp only [replaceStar, List.flatMap_cons, hc, if_false] at *
    rw [ih (fun x hx => h x (by simp [hx]))]; rfl

theorem replaceStar_end (t : Nat) (e : End) : replaceStar t e.print = Dec.print (e.val t) := by
  cases e with
  | num n => exact replaceStar_digits t _ (print_digits n)
  | star => simp [End.print, replaceStar, End.val]

def itemText (t : Nat) : Item → Bytes
  | .one e => Dec.print (e.val t)
  | .rng a b => Dec.print (a.val t) ++ b_colon :: Dec.print (b.val t)

theorem replaceStar_item (t : Nat) (i : Item) : replaceStar t i.print = itemText t i := by
  cases i with
  | one e => exact replaceStar_end t e
  | rng a b =>
    simp only [Item.print, itemText]
    rw [replaceStar_append, replaceStar_end]
    have : replaceStar t (b_colon :: b.print) = b_colon :: replaceStar t b.print := by
      simp [replaceStar]
    rw [this, replaceStar_end]

theorem replaceStar_join (t : Nat) : ∀ is : List Item, replaceStar t (printSet is) = joinWith b_comma (is.map (itemText t))
  | [] => rfl
  | [i] => by simp [printSet, joinWith, replaceStar_item]
  | i :: j :: is => by
    have ih := replaceStar_join t (j :: is)
    simp only [printSet, List.map_cons, joinWith] at ih ⊢
    rw [replaceStar_append, replaceStar_item]
    have : replaceStar t (b_comma :: joinWith b_comma (j.print :: is.map Item.print)) =
        b_comma :: replaceStar t (joinWith b_comma (j.print :: is.map Item.print)) := by simp [replaceStar]
    rw [this, ih]

theorem itemText_nocomma (t : Nat) (i : Item) : ∀ c ∈ itemText t i, c ≠ b_comma := by
  intro c hc
  cases i with
  | one e => exact (digit_ne c (print_digits _ c hc)).1
  | rng a b =>
    simp only [itemText, List.mem_append, List.mem_cons] at hc
    rcases hc with hc | rfl | hc
    · exact (digit_ne c (print_digits _ c hc)).1
    · decide
    · exact (digit_ne c (print_digits _ c hc)).1

theorem itemText_nospace (t : Nat) (i : Item) : ∀ c ∈ itemText t i, isSpace c = false := by
  intro c hc
  cases i with
  | one e => exact (digit_ne c (print_digits _ c hc)).2.2.2
  | rng a b =>
    simp only [itemText, List.mem_append, List.mem_cons] at hc
    rcases hc with hc | rfl | hc
    · exact (digit_ne c (print_digits _ c hc)).2.2.2
    · decide
    · exact (digit_ne c (print_digits _ c hc)).2.2.2

theorem contains_colon_digits (n : Nat) : (Dec.print n).contains b_colon = false := by
  rw [Bool.eq_false_iff]; intro h
  have := List.contains_iff_mem.mp h
  exact (digit_ne _ (print_digits n _ this)).2.1 rfl

theorem End.val_pos (t : Nat) (ht : 0 < t) (e : End) (h : e.ok) : 0 < e.val t := by
  cases e with
  | num k => exact h.1
  | star => exact ht

theorem End.val_lt (t : Nat) (ht : t < 9223372036854775808) (e : End) (h : e.ok) : e.val t < 9223372036854775808 := by
  cases e with
  | num k => exact h.2
  | star => exact ht

/-- one item, parsed from its text -/
theorem parsePart_item (t : Nat) (ht : 0 < t) (hb : t < 9223372036854775808) (i : Item) (hok : i.ok) (n : Nat) :
    n ∈ parsePart t (itemText t i) ↔ i.covers t n ∧ 1 ≤ n ∧ n ≤ t := by
  unfold parsePart
  simp only [trimSpace_id _ (itemText_nospace t i)]
  cases i with
  | one e =>
    have hv := End.val_lt t hb e hok
    have hp := End.val_pos t ht e hok
    simp only [itemText, contains_colon_digits, Bool.false_eq_true, if_false, atoiGo_print _ hv, Item.covers]
    split
    · rename_i h; simp only [Int.toNat_natCast, List.mem_singleton]; omega
    · rename_i h; simp only [List.not_mem_nil, false_iff]; omega
  | rng a b =>
    have hsplit : splitOn b_colon (Dec.print (a.val t) ++ b_colon :: Dec.print (b.val t)) = [Dec.print (a.val t), Dec.print (b.val t)] := by
      rw [splitOn_append _ _ _ (fun c hc => (digit_ne c (print_digits _ c hc)).2.1),
          splitOn_nosep _ _ (fun c hc => (digit_ne c (print_digits _ c hc)).2.1)]
    have hcont : (Dec.print (a.val t) ++ b_colon :: Dec.print (b.val t)).contains b_colon = true := by
      apply List.contains_iff_mem.mpr; simp
    have ha := End.val_pos t ht a hok.1
    have hb' := End.val_pos t ht b hok.2
    have hva := End.val_lt t hb a hok.1
    have hvb := End.val_lt t hb b hok.2
    simp only [itemText, hcont, if_true, hsplit, atoiGo_print _ hva, atoiGo_print _ hvb, Item.covers]
    split
    · simp only [Int.toNat_natCast, mem_range]; omega
    · rename_i h; exfalso; apply h; omega

/-- **C09.1 (sequence numbers)**: every well-formed set addresses exactly the messages it denotes -/
theorem parseSeq_denotes (s : List Item) (hne : s ≠ []) (hok : ∀ i ∈ s, i.ok) (t n : Nat) (hb : t < 9223372036854775808) :
    n ∈ parseSeq (printSet s) t ↔ denotes s t n ∧ 1 ≤ n ∧ n ≤ t := by
  unfold parseSeq denotes
  by_cases ht : t = 0
  · simp [ht]; omega
  · simp only [ht, if_false]
    rw [replaceStar_join, splitOn_join b_comma (s.map (itemText t)) (by simpa using hne)
      (by intro p hp; obtain ⟨i, _, rfl⟩ := List.mem_map.mp hp; exact itemText_nocomma t i)]
    simp only [List.mem_flatMap, List.mem_map]
    constructor
    · rintro ⟨p, ⟨i, hi, rfl⟩, hn⟩
      have := (parsePart_item t (by omega) hb i (hok i hi) n).mp hn
      exact ⟨⟨i, hi, this.1⟩, this.2⟩
    · rintro ⟨⟨i, hi, hc⟩, h1, h2⟩
      exact ⟨itemText t i, ⟨i, hi, rfl⟩, (parsePart_item t (by omega) hb i (hok i hi) n).mpr ⟨hc, h1, h2⟩⟩


theorem foldl_max_mem (l : List Nat) (a : Nat) : l.foldl max a = a ∨ l.foldl max a ∈ l := by
  induction l generalizing a with
  | nil => left; rfl
  | cons x xs ih =>
    simp only [List.foldl_cons, List.mem_cons]
    rcases ih (max a x) with h | h
    · rw [h]
      rcases Nat.le_total a x with hax | hax
      · right; left; exact Nat.max_eq_right hax
      · left; exact Nat.max_eq_left hax
    · right; right; exact h

theorem maxOf_mem (l : List Nat) (h : maxOf l ≠ 0) : maxOf l ∈ l := by
  rcases foldl_max_mem l 0 with h' | h'
  · exact absurd h' h
  · exact h'

theorem End.print_nocomma (e : End) : ∀ c ∈ e.print, c ≠ b_comma ∧ c ≠ b_colon ∧ isSpace c = false := by
  intro c hc
  cases e with
  | num k => have := digit_ne c (print_digits _ c hc); exact ⟨this.1, this.2.1, this.2.2.2⟩
  | star => simp [End.print] at hc; subst hc; decide

theorem Item.print_nocomma (i : Item) : ∀ c ∈ i.print, c ≠ b_comma ∧ isSpace c = false := by
  intro c hc
  cases i with
  | one e => have := End.print_nocomma e c hc; exact ⟨this.1, this.2.2⟩
  | rng a b =>
    simp only [Item.print, List.mem_append, List.mem_cons] at hc
    rcases hc with hc | rfl | hc
    · have := End.print_nocomma a c hc; exact ⟨this.1, this.2.2⟩
    · decide
    · have := End.print_nocomma b c hc; exact ⟨this.1, this.2.2⟩

theorem print_ne_star (k : Nat) : Dec.print k ≠ [b_star] := by
  intro h
  have := print_digits k b_star (by rw [h]; simp)
  exact absurd this (by decide)

theorem uidEnd_print (mx : Nat) (e : End) (h : e.ok) : uidEnd mx e.print = (e.val mx : Int) := by
  cases e with
  | num k =>
    simp only [End.print, uidEnd, print_ne_star, if_false, atoiOr0, atoiGo_print _ h.2, Option.getD_some, End.val]
  | star => simp [End.print, uidEnd, End.val]

theorem parseUidPart_item (uids : List Nat) (mx : Nat) (hmx : mx ∈ uids) (i : Item) (hok : i.ok) (n : Nat) :
    n ∈ parseUidPart uids mx i.print ↔ n ∈ uids ∧ i.covers mx n := by
  unfold parseUidPart
  simp only [trimSpace_id _ (fun c hc => (Item.print_nocomma i c hc).2)]
  cases i with
  | one e =>
    cases e with
    | star =>
      simp only [Item.print, End.print, if_true, List.mem_singleton, Item.covers, End.val]
      constructor
      · rintro rfl; exact ⟨hmx, rfl⟩
      · rintro ⟨_, h⟩; exact h
    | num k =>
      have hk : k < 9223372036854775808 := hok.2
      simp only [Item.print, End.print, print_ne_star, if_false, contains_colon_digits, Bool.false_eq_true,
        atoiGo_print _ hk, Item.covers, End.val]
      split
      · rename_i h
        simp only [List.any_eq_true, decide_eq_true_eq] at h
        obtain ⟨u, hu, he⟩ := h
        have : u = k := by omega
        subst this
        simp only [Int.toNat_natCast, List.mem_singleton]
        constructor
        · rintro rfl; exact ⟨hu, rfl⟩
        · rintro ⟨_, h⟩; exact h
      · rename_i h
        simp only [List.any_eq_true, decide_eq_true_eq, not_exists, not_and] at h
        simp only [List.not_mem_nil, false_iff, not_and]
        intro hn he; subst he
        exact h n hn rfl
  | rng a b =>
    have hne : a.print ++ b_colon :: b.print ≠ [b_star] := by
      intro h
      have : b_colon ∈ a.print ++ b_colon :: b.print := by simp
      rw [h] at this; simp at this
    have hcont : (a.print ++ b_colon :: b.print).contains b_colon = true := by
      apply List.contains_iff_mem.mpr; simp
    have hsplit : splitOn b_colon (a.print ++ b_colon :: b.print) = [a.print, b.print] := by
      rw [splitOn_append _ _ _ (fun c hc => (End.print_nocomma a c hc).2.1),
          splitOn_nosep _ _ (fun c hc => (End.print_nocomma b c hc).2.1)]
    simp only [Item.print, hne, if_false, hcont, if_true, hsplit, uidEnd_print mx a hok.1, uidEnd_print mx b hok.2,
      List.mem_filter, decide_eq_true_eq, Item.covers]
    rcases Nat.le_total (a.val mx) (b.val mx) with h | h
    · rw [Nat.min_eq_left h, Nat.max_eq_right h, Int.min_eq_left (by omega), Int.max_eq_right (by omega)]
      constructor <;> rintro ⟨h1, h2, h3⟩ <;> exact ⟨h1, by omega, by omega⟩
    · rw [Nat.min_eq_right h, Nat.max_eq_left h, Int.min_eq_right (by omega), Int.max_eq_left (by omega)]
      constructor <;> rintro ⟨h1, h2, h3⟩ <;> exact ⟨h1, by omega, by omega⟩

/-- **C09.1 (UIDs)**: a UID set addresses exactly the existing UIDs it denotes (`*` = the largest UID in use) -/
theorem parseUid_denotes (s : List Item) (hne : s ≠ []) (hok : ∀ i ∈ s, i.ok) (uids : List Nat) (n : Nat) :
    n ∈ parseUid (printSet s) uids ↔ n ∈ uids ∧ denotes s (maxOf uids) n ∧ maxOf uids ≠ 0 := by
  unfold parseUid denotes
  simp only []
  by_cases hm : maxOf uids = 0
  · simp [hm]
  · simp only [hm, if_false]
    have hsp : splitOn b_comma (printSet s) = s.map Item.print := by
      unfold printSet
      exact splitOn_join b_comma (s.map Item.print) (by simpa using hne)
        (by intro p hp; obtain ⟨i, _, rfl⟩ := List.mem_map.mp hp; exact fun c hc => (Item.print_nocomma i c hc).1)
    rw [hsp]
    simp only [List.mem_flatMap, List.mem_map]
    have hmem := maxOf_mem uids hm
    constructor
    · rintro ⟨p, ⟨i, hi, rfl⟩, hn⟩
      have := (parseUidPart_item uids _ hmem i (hok i hi) n).mp hn
      exact ⟨this.1, ⟨i, hi, this.2⟩, fun h => hm h⟩
    · rintro ⟨hn, ⟨i, hi, hc⟩, _⟩
      exact ⟨i.print, ⟨i, hi, rfl⟩, (parseUidPart_item uids _ hmem i (hok i hi) n).mpr ⟨hn, hc⟩⟩
end Raven.SeqSet
