import RavenModel.Base.Bytes
/-! Prototype: IMAP LIST wildcard matcher vs relational spec -/
namespace Wild

def star : UInt8 := 42
def pct  : UInt8 := 37
def delim : UInt8 := 47

inductive Matches : List UInt8 → List UInt8 → Prop
  | nil : Matches [] []
  | star (pre rest ps t) : t = pre ++ rest → Matches ps rest → Matches (star :: ps) t
  | pct (pre rest ps t) : t = pre ++ rest → delim ∉ pre → Matches ps rest → Matches (pct :: ps) t
  | chr (c ps ts) : c ≠ star → c ≠ pct → Matches ps ts → Matches (c :: ps) (c :: ts)

def starLoop (k : List UInt8 → Bool) : List UInt8 → Bool
  | [] => k []
  | d :: ts => k (d :: ts) || starLoop k ts

def pctLoop (k : List UInt8 → Bool) : List UInt8 → Bool
  | [] => k []
  | d :: ts => k (d :: ts) || (if d = delim then false else pctLoop k ts)

def wmatch : List UInt8 → List UInt8 → Bool
  | [], t => t.isEmpty
  | c :: ps, t =>
    if c = star then
      if ps.isEmpty then true else starLoop (wmatch ps) t
    else if c = pct then
      if ps.isEmpty then !(t.contains delim) else pctLoop (wmatch ps) t
    else
      match t with
      | [] => false
      | d :: ts => if d = c then wmatch ps ts else false

theorem starLoop_iff (k : List UInt8 → Bool) (t : List UInt8) :
    starLoop k t = true ↔ ∃ pre rest, t = pre ++ rest ∧ k rest = true := by
  induction t with
  | nil =>
    simp only [starLoop]
    constructor
    · intro h; exact ⟨[], [], rfl, h⟩
    · rintro ⟨pre, rest, he, h⟩
      have : rest = [] := by
        cases pre with
        | nil => simpa using he.symm
        | cons a as => simp at he
      subst this; exact h
  | cons d ts ih =>
    simp only [starLoop, Bool.or_eq_true, ih]
    constructor
    · rintro (h | ⟨pre, rest, rfl, h⟩)
      · exact ⟨[], _, rfl, h⟩
      · exact ⟨d :: pre, rest, rfl, h⟩
    · rintro ⟨pre, rest, he, h⟩
      cases pre with
      | nil => left; simp at he; subst he; exact h
      | cons x xs =>
        right; simp at he; obtain ⟨rfl, rfl⟩ := he
        exact ⟨xs, rest, rfl, h⟩

theorem pctLoop_iff (k : List UInt8 → Bool) (t : List UInt8) :
    pctLoop k t = true ↔ ∃ pre rest, t = pre ++ rest ∧ delim ∉ pre ∧ k rest = true := by
  induction t with
  | nil =>
    simp only [pctLoop]
    constructor
    · intro h; exact ⟨[], [], rfl, by simp, h⟩
    · rintro ⟨pre, rest, he, _, h⟩
      have : rest = [] := by
        cases pre with
        | nil => simpa using he.symm
        | cons a as => simp at he
      subst this; exact h
  | cons d ts ih =>
    simp only [pctLoop, Bool.or_eq_true]
    constructor
    · rintro (h | h)
      · exact ⟨[], _, rfl, by simp, h⟩
      · by_cases hd : d = delim
        · simp [hd] at h
        · simp only [hd, if_false] at h
          obtain ⟨pre, rest, rfl, hn, h⟩ := ih.mp h
          refine ⟨d :: pre, rest, rfl, ?_, h⟩
          simp only [List.mem_cons, not_or]
          exact ⟨fun h => hd h.symm, hn⟩
    · rintro ⟨pre, rest, he, hn, h⟩
      cases pre with
      | nil => left; simp at he; subst he; exact h
      | cons x xs =>
        right; simp at he; obtain ⟨rfl, rfl⟩ := he
        simp only [List.mem_cons, not_or] at hn
        have hx : ¬ d = delim := fun h => hn.1 h.symm
        simp only [hx, if_false]
        exact ih.mpr ⟨xs, rest, rfl, hn.2, h⟩

theorem contains_delim (t : List UInt8) : t.contains delim = true ↔ delim ∈ t := by
  simp

theorem wmatch_iff (p t : List UInt8) : wmatch p t = true ↔ Matches p t := by
  induction p generalizing t with
  | nil =>
    cases t with
    | nil => simp [wmatch]; exact Matches.nil
    | cons a as => simp [wmatch]; intro h; cases h
  | cons c ps ih =>
    unfold wmatch
    by_cases hs : c = star
    · subst hs; simp only [if_true]
      by_cases he : ps.isEmpty
      · have : ps = [] := by simpa using he
        subst this
        simp
        exact Matches.star t [] [] t (by simp) Matches.nil
      · rw [if_neg he, starLoop_iff]
        constructor
        · rintro ⟨pre, rest, rfl, h⟩; exact Matches.star _ _ _ _ rfl ((ih _).mp h)
        · intro h; cases h with
          | star pre rest _ _ he h => exact ⟨pre, rest, he, (ih _).mpr h⟩
          | chr _ _ _ h1 => exact absurd rfl h1
    · rw [if_neg hs]
      by_cases hp : c = pct
      · subst hp; simp only [if_true]
        by_cases he : ps.isEmpty
        · have : ps = [] := by simpa using he
          subst this
          simp only [List.isEmpty_nil, if_true, Bool.not_eq_true', ← Bool.not_eq_true, contains_delim]
          constructor
          · intro h
            exact Matches.pct t [] [] t (by simp) h Matches.nil
          · intro h; cases h with
            | pct pre rest _ _ he hn h => cases h; simp at he; subst he; exact hn
            | chr _ _ _ _ h2 => exact absurd rfl h2
        · rw [if_neg he, pctLoop_iff]
          constructor
          · rintro ⟨pre, rest, rfl, hn, h⟩; exact Matches.pct _ _ _ _ rfl hn ((ih _).mp h)
          · intro h; cases h with
            | pct pre rest _ _ he hn h => exact ⟨pre, rest, he, hn, (ih _).mpr h⟩
            | chr _ _ _ _ h2 => exact absurd rfl h2
      · rw [if_neg hp]
        cases t with
        | nil =>
          simp
          intro h
          cases h with
          | star => exact absurd rfl hs
          | pct => exact absurd rfl hp
        | cons d ts =>
          simp only
          by_cases hd : d = c
          · subst hd; simp only [if_true]
            constructor
            · intro h; exact Matches.chr _ _ _ hs hp ((ih _).mp h)
            · intro h; cases h with
              | chr _ _ _ _ _ h => exact (ih _).mpr h
              | star => exact absurd rfl hs
              | pct => exact absurd rfl hp
          · simp only [hd, if_false]
            constructor
            · intro h; cases h
            · intro h; cases h with
              | chr _ _ _ _ _ h => exact absurd rfl hd
              | star => exact absurd rfl hs
              | pct => exact absurd rfl hp
end Wild
