import RavenModel.Model.Lmtp
/-! The byte stream of an LMTP connection is consumed line by line, and a line is what lies between two line feeds — however
long it is. `lines` (the model of `bufio.Reader.ReadString('\n')` as the session and the DATA reader use it) hands out exactly
the lines that were written: no line is cut in pieces, none are merged, an unterminated tail is not a line. The end-of-data
test and the dot-unstuffing of `Lmtp.runLines` are applied to these lines, hence at true line starts only. -/
namespace Raven.Lmtp
open Raven Raven.GoStr

/-- a line as it is written: octets without a line feed, then the line feed -/
def IsLine (l : Bytes) : Prop := ∃ body, l = body ++ [b_lf] ∧ b_lf ∉ body

theorem linesAux_body : ∀ (body cur rest : Bytes), b_lf ∉ body →
    linesAux cur (body ++ b_lf :: rest) = (cur.reverse ++ body ++ [b_lf]) :: linesAux [] rest
  | [], cur, rest, _ => by simp [linesAux]
  | c :: body, cur, rest, h => by
    have hc : c ≠ b_lf := fun e => h (by simp [e])
    have hb : b_lf ∉ body := fun m => h (List.mem_cons_of_mem _ m)
    simp only [List.cons_append, linesAux, hc, if_false]
    rw [linesAux_body body (c :: cur) rest hb]
    simp

theorem linesAux_tail : ∀ (tail cur : Bytes), b_lf ∉ tail → linesAux cur tail = []
  | [], _, _ => by simp [linesAux]
  | c :: tail, cur, h => by
    have hc : c ≠ b_lf := fun e => h (by simp [e])
    simp only [linesAux, hc, if_false]
    exact linesAux_tail tail (c :: cur) (fun m => h (List.mem_cons_of_mem _ m))

/-- **the reader hands out the lines that were written**, whatever their lengths, and drops an unterminated tail -/
theorem lines_written : ∀ (ls : List Bytes) (tail : Bytes), (∀ l ∈ ls, IsLine l) → b_lf ∉ tail →
    lines (ls.flatten ++ tail) = ls
  | [], tail, _, ht => by simpa [lines] using linesAux_tail tail [] ht
  | l :: ls, tail, h, ht => by
    obtain ⟨body, rfl, hb⟩ := h l (List.mem_cons_self ..)
    have ih := lines_written ls tail (fun x hx => h x (List.mem_cons_of_mem _ hx)) ht
    simp only [lines] at ih ⊢
    simp only [List.flatten_cons, List.append_assoc, List.cons_append]
    rw [linesAux_body body [] _ hb]
    simp only [List.nil_append, List.reverse_nil, ih]

theorem isLine_ne_nil {l : Bytes} (h : IsLine l) : l ≠ [] := by
  obtain ⟨body, rfl, _⟩ := h
  simp

theorem isLine_stuffLine {l : Bytes} (h : IsLine l) : IsLine (stuffLine l) := by
  obtain ⟨body, rfl, hb⟩ := h
  cases body with
  | nil => exact ⟨[], by simp [stuffLine], by simp⟩
  | cons a r =>
    by_cases ha : a = b_dot
    · refine ⟨b_dot :: a :: r, by simp [stuffLine, ha], ?_⟩
      intro m
      rcases List.mem_cons.mp m with e | m
      · exact absurd e (by decide)
      · exact hb m
    · exact ⟨a :: r, by simp [stuffLine, ha], hb⟩

theorem isLine_of_isTerm {t : Bytes} (h : isTerm t = true) : IsLine t := by
  simp only [isTerm, Bool.or_eq_true, beq_iff_eq] at h
  rcases h with rfl | rfl
  · exact ⟨[b_dot, b_cr], rfl, by decide⟩
  · exact ⟨[b_dot], rfl, by decide⟩

/-- the DATA phase **on the byte stream**: the octets of a dot-stuffed body followed by the terminator, read line by line
(lines of any length), yield exactly the body -/
theorem data_bytes_transparent (cfg : Cfg) (env : Env) (st : St) (body : List Bytes) (term : Bytes)
    (hq : st.quit = false) (hm : st.mode = .data [] 0 false)
    (hl : ∀ l ∈ body, IsLine l) (hterm : isTerm term = true)
    (hsize : (body.flatten).length ≤ cfg.maxSize) :
    runLines cfg env st (lines ((stuff body ++ [term]).flatten)) = endOfData env st (some body.flatten) := by
  have hall : ∀ l ∈ stuff body ++ [term], IsLine l := by
    intro l hm'
    rcases List.mem_append.mp hm' with h | h
    · obtain ⟨x, hx, rfl⟩ := List.mem_map.mp h
      exact isLine_stuffLine (hl x hx)
    · rw [List.mem_singleton.mp h]; exact isLine_of_isTerm hterm
  have := lines_written (stuff body ++ [term]) [] hall (by simp)
  rw [List.append_nil] at this
  rw [this]
  have := data_transparent cfg env st body term [] 0 hq hm (fun l h => isLine_ne_nil (hl l h)) hterm (by omega)
  simpa using this

end Raven.Lmtp
