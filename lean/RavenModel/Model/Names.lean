import RavenModel.Model.MailInv
import RavenModel.Model.ListMatch
/-! The set of mailbox names of a store and what CREATE / DELETE / RENAME / LIST do to it (C11). -/
namespace Raven.Mail
open Raven Raven.GoStr

/-- the abstraction: a store's mailbox names -/
def Store.names (s : Store) : List Bytes := s.boxes.map (·.name)

theorem has_iff_names (s : Store) (n : Bytes) : s.has n = true ↔ n ∈ s.names := has_iff s n

theorem mem_newBox (s : Store) (n : Bytes) (now : Nat) (m : Bytes) :
    m ∈ (s.newBox n now).names ↔ m ∈ s.names ∨ (m = n ∧ n ≠ []) := by
  unfold Store.newBox
  split
  · rename_i h
    constructor
    · exact Or.inl
    · rintro (h1 | ⟨rfl, h2⟩)
      · exact h1
      · rcases h with h | h
        · exact absurd h h2
        · exact (has_iff_names s m).mp h
  · rename_i h
    simp only [Store.names, List.map_append, List.map_cons, List.map_nil, List.mem_append, List.mem_singleton]
    constructor
    · rintro (h1 | rfl)
      · exact Or.inl h1
      · exact Or.inr ⟨rfl, fun e => h (Or.inl e)⟩
    · rintro (h1 | ⟨rfl, _⟩)
      · exact Or.inl h1
      · exact Or.inr rfl

theorem mem_newBoxes (s : Store) (ns : List Bytes) (now : Nat) (m : Bytes) :
    m ∈ (s.newBoxes ns now).names ↔ m ∈ s.names ∨ (m ∈ ns ∧ m ≠ []) := by
  unfold Store.newBoxes
  induction ns generalizing s with
  | nil => simp
  | cons n rest ih =>
    simp only [List.foldl_cons]
    rw [ih, mem_newBox]
    simp only [List.mem_cons]
    constructor
    · rintro ((h | ⟨rfl, h⟩) | ⟨h1, h2⟩)
      · exact Or.inl h
      · exact Or.inr ⟨Or.inl rfl, h⟩
      · exact Or.inr ⟨Or.inr h1, h2⟩
    · rintro (h | ⟨rfl | h1, h2⟩)
      · exact Or.inl (Or.inl h)
      · exact Or.inl (Or.inr ⟨rfl, h2⟩)
      · exact Or.inr ⟨h1, h2⟩

/-- the name CREATE stores for an argument -/
def createdName (arg : Bytes) : Bytes := trimSuffix (trimQuotes arg) slash

theorem create_ok_iff (s : Store) (arg : Bytes) (now : Nat) :
    (s.create arg now).2 = .ok ↔ createdName arg ≠ [] ∧ toUpper (createdName arg) ≠ inboxName ∧
      underRoles (createdName arg) = false ∧ createdName arg ∉ s.names := by
  unfold Store.create createdName
  simp only []
  split
  · rename_i h; simp [h]
  · split
    · rename_i h1 h2; simp [h2]
    · split
      · rename_i h1 h2 h3; simp [h3]
      · split
        · rename_i h1 h2 h3 h4; simp [(has_iff_names _ _).mp h4]
        · rename_i h1 h2 h3 h4
          have : ¬ (trimSuffix (trimQuotes arg) slash ∈ s.names) := fun h => h4 ((has_iff_names _ _).mpr h)
          simp [h1, h2, h3, this]

theorem create_names (s : Store) (arg : Bytes) (now : Nat) (hok : (s.create arg now).2 = .ok) (m : Bytes) :
    m ∈ (s.create arg now).1.names ↔
      m ∈ s.names ∨ (m ∈ ancestors (createdName arg) ∧ m ≠ []) ∨ m = createdName arg := by
  have h := (create_ok_iff s arg now).mp hok
  unfold Store.create at *
  unfold createdName at *
  simp only [] at *
  have h3 : ¬ (s.has (trimSuffix (trimQuotes arg) slash) = true) := fun hh => h.2.2.2 ((has_iff_names _ _).mp hh)
  have h3' : s.has (trimSuffix (trimQuotes arg) slash) = false := by simpa using h3
  simp only [h.1, h.2.1, h.2.2.1, h3', if_false, Bool.false_eq_true]
  rw [mem_newBox, mem_newBoxes]
  constructor
  · rintro ((h1 | h1) | ⟨rfl, _⟩)
    · exact Or.inl h1
    · exact Or.inr (Or.inl h1)
    · exact Or.inr (Or.inr rfl)
  · rintro (h1 | h1 | rfl)
    · exact Or.inl (Or.inl h1)
    · exact Or.inl (Or.inr h1)
    · exact Or.inr ⟨rfl, h.1⟩

theorem create_refused (s : Store) (arg : Bytes) (now : Nat) (h : (s.create arg now).2 ≠ .ok) : (s.create arg now).1 = s := by
  unfold Store.create at *
  simp only [] at *
  split
  · rfl
  · split
    · rfl
    · split
      · rfl
      · split
        · rfl
        · rename_i h1 h2 h3 h4; simp [h1, h2, h3, h4] at h

/-- RENAME to a name in the part of the hierarchy reserved for role mailboxes is refused and changes nothing -/
theorem rename_refuses_roles (s : Store) (oa na : Bytes) (now : Nat) (hne : ¬ (trimQuotes oa = [] ∨ trimQuotes na = []))
    (hr : underRoles (trimSuffix (trimQuotes na) slash) = true) : s.rename oa na now = (s, .no) := by
  unfold Store.rename
  simp only [hne, hr, if_false, if_true]

theorem delete_names (s : Store) (arg : Bytes) :
    ((s.delete arg).2 = .ok → (s.delete arg).1.names = s.names.filter (· ≠ trimQuotes arg)) ∧
    ((s.delete arg).2 ≠ .ok → (s.delete arg).1 = s) := by
  unfold Store.delete
  simp only []
  split
  · simp
  · split
    · simp
    · split
      · simp
      · split
        · simp
        · split
          · simp
          · simp only [Store.names, forall_const, ne_eq, not_true_eq_false, false_implies, and_true]
            rw [List.filter_map]
            congr 1

theorem delete_ok_iff (s : Store) (arg : Bytes) :
    (s.delete arg).2 = .ok ↔
      trimQuotes arg ≠ [] ∧ toUpper (trimQuotes arg) ≠ inboxName ∧ trimQuotes arg ∈ s.names ∧
      (∀ m ∈ s.names, isChildOf (trimQuotes arg) m = false) ∧
      (∀ p ∈ protectedNames, equalFold (trimQuotes arg) p = false) := by
  unfold Store.delete
  simp only []
  split
  · rename_i h; simp [h]
  · split
    · rename_i h1 h2; simp [h2]
    · split
      · rename_i h1 h2 h3
        have : ¬ (trimQuotes arg ∈ s.names) := fun h => by
          have := (has_iff_names _ _).mpr h; simp [this] at h3
        simp [this]
      · split
        · rename_i h1 h2 h3 h4
          simp only [List.any_eq_true] at h4
          obtain ⟨b, hb, hc⟩ := h4
          have : ¬ (∀ m ∈ s.names, isChildOf (trimQuotes arg) m = false) := by
            intro h; have := h b.name (List.mem_map.mpr ⟨b, hb, rfl⟩); simp [hc] at this
          simp [this]
        · split
          · rename_i h1 h2 h3 h4 h5
            simp only [List.any_eq_true] at h5
            obtain ⟨p, hp, hc⟩ := h5
            have : ¬ (∀ p ∈ protectedNames, equalFold (trimQuotes arg) p = false) := by
              intro h; have := h p hp; simp [hc] at this
            simp [this]
          · rename_i h1 h2 h3 h4 h5
            have e3 : trimQuotes arg ∈ s.names := by
              apply (has_iff_names _ _).mp; simpa using h3
            have e4 : ∀ m ∈ s.names, isChildOf (trimQuotes arg) m = false := by
              intro m hm
              obtain ⟨b, hb, rfl⟩ := List.mem_map.mp hm
              simp only [List.any_eq_true, not_exists, not_and] at h4
              simpa using h4 b hb
            have e5 : ∀ p ∈ protectedNames, equalFold (trimQuotes arg) p = false := by
              intro p hp
              simp only [List.any_eq_true, not_exists, not_and] at h5
              simpa using h5 p hp
            simp only [h1, h2, e3, not_false_eq_true, true_and, ne_eq]
            exact ⟨fun _ => ⟨e4, e5⟩, fun _ => trivial⟩

/-- `LIST "" "*"`: the star pattern matches every name -/
theorem star_matches_all (n : Bytes) : ListMatch.matchWildcard n [b_star] = true := by
  rw [ListMatch.matchWildcard_iff]
  unfold ListMatch.MatchesCI
  have : ListMatch.normInbox [b_star] = [b_star] := by decide
  rw [this]
  exact Wild.Matches.star (ListMatch.normInbox n) [] [] _ (by simp) Wild.Matches.nil


/-- RENAME (not of INBOX): missing ancestors of the new name are created, the mailbox and exactly the other mailboxes
below `old/` are renamed — the mailbox records (UIDs, messages, flags, UIDVALIDITY) travel unchanged — and nothing
else happens. -/
theorem rename_boxes (s : Store) (oa na : Bytes) (now : Nat)
    (hinb : toUpper (trimQuotes oa) ≠ inboxName) (hok : (s.rename oa na now).2 = .ok) :
    (s.rename oa na now).1.boxes =
      (s.newBoxes (ancestors (trimQuotes na)) now).boxes.map
        (fun b => { b with name := renamedName (trimQuotes oa) (trimQuotes na) b.name }) := by
  unfold Store.rename at *
  simp only [] at *
  split at hok
  · simp at hok
  · split at hok
    · simp at hok
    · split at hok
      · simp at hok
      · rename_i h1 h2 h3
        simp only [h1, h2, h3, hinb, if_false] at hok ⊢
        split at hok
        · simp at hok
        · split at hok
          · simp at hok
          · rename_i h4 h5
            simp only [h4, h5, if_false] at hok ⊢
            split at hok
            · rename_i hnd
              simp [hnd]
            · simp at hok

theorem rename_refused (s : Store) (oa na : Bytes) (now : Nat) (h : (s.rename oa na now).2 = .bad) : (s.rename oa na now).1 = s := by
  unfold Store.rename at *
  simp only [] at *
  split
  · rfl
  · exfalso
    rename_i h1
    simp only [h1, if_false] at h
    split at h
    · simp at h
    · split at h
      · simp at h
      · split at h
        · split at h
          · simp at h
          · split at h <;> simp at h
        · split at h
          · simp at h
          · split at h
            · simp at h
            · split at h <;> simp at h

/-- the subscription list is touched by SUBSCRIBE and UNSUBSCRIBE only -/
theorem subs_modify (s : Store) (n : Bytes) (f : Mbox → Mbox) : (s.modify n f).subs = s.subs := rfl
theorem subs_add (s : Store) (n : Bytes) (m : Nat) (fl : List Bytes) : (s.add n m fl).1.subs = s.subs := by
  unfold Store.add; split <;> rfl
theorem subs_addMany (s : Store) (n : Bytes) (items : List (Nat × List Bytes)) : (s.addMany n items).subs = s.subs := by
  induction items generalizing s with
  | nil => rfl
  | cons it rest ih => obtain ⟨m, fl⟩ := it; simp only [Store.addMany]; rw [ih, subs_add]
theorem subs_newBox (s : Store) (n : Bytes) (now : Nat) : (s.newBox n now).subs = s.subs := by
  unfold Store.newBox; split <;> rfl
theorem subs_newBoxes (s : Store) (ns : List Bytes) (now : Nat) : (s.newBoxes ns now).subs = s.subs := by
  unfold Store.newBoxes
  induction ns generalizing s with
  | nil => rfl
  | cons n rest ih => simp only [List.foldl_cons]; rw [ih, subs_newBox]
theorem subs_move (s s' : Store) (src : Bytes) (l : Link) (dst : Bytes) (fl : List Bytes) (h : s.move src l dst fl = some s') :
    s'.subs = s.subs := by
  unfold Store.move at h
  split at h
  · cases h
  · split at h
    · cases h
    · cases h; simp only [subs_modify, subs_add]
theorem subs_storeOne (s : Store) (box : Bytes) (l : Link) (r : Nat) (new : List Bytes) (mode : Flags.Mode) :
    (s.storeOne box l r new mode).1.subs = s.subs := by
  unfold Store.storeOne
  simp only []
  split
  · split
    · rename_i s' hm; exact subs_move _ _ _ _ _ _ hm
    · rfl
  · split
    · split
      · rename_i s' hm; exact subs_move _ _ _ _ _ _ hm
      · rfl
    · rfl
theorem subs_storeUid (s : Store) (box : Bytes) (new : List Bytes) (mode : Flags.Mode) (uids : List Nat) :
    (s.storeUid box new mode uids).1.subs = s.subs := by
  induction uids generalizing s with
  | nil => rfl
  | cons u us ih =>
    unfold Store.storeUid
    split
    · exact ih s
    · simp only []; rw [ih, subs_storeOne]
theorem subs_storeSeq (s : Store) (box : Bytes) (new : List Bytes) (mode : Flags.Mode) (ranks : List Nat) :
    (s.storeSeq box new mode ranks).1.subs = s.subs := by
  unfold Store.storeSeq
  split
  · rfl
  · exact subs_storeUid s box new mode _

def Op.isSubOp : Op → Bool
  | .subscribe _ => true
  | .unsubscribe _ => true
  | _ => false

theorem subs_step (s : Store) (op : Op) (h : op.isSubOp = false) : (step s op).subs = s.subs := by
  cases op with
  | add b m f => exact subs_add s b m f
  | copy a r d =>
    simp only [step, Store.copy]
    split
    · rfl
    · split
      · rfl
      · split
        · rfl
        · split
          · rfl
          · exact subs_addMany _ _ _
  | uidCopy a u d =>
    simp only [step, Store.uidCopy]
    split
    · rfl
    · split
      · rfl
      · split
        · rfl
        · exact subs_addMany _ _ _
  | store b n m r => exact subs_storeSeq s b n m r
  | uidStore b n m u => exact subs_storeUid s b n m u
  | expunge b => simp only [step, Store.expunge, Store.expungeBy]; split <;> rfl
  | uidExpunge b u => simp only [step, Store.uidExpunge, Store.expungeBy]; split <;> rfl
  | create a now =>
    simp only [step, Store.create]
    split
    · rfl
    · split
      · rfl
      · split
        · rfl
        · split
          · rfl
          · simp only [subs_newBox, subs_newBoxes]
  | delete a =>
    simp only [step, Store.delete]
    split
    · rfl
    · split
      · rfl
      · split
        · rfl
        · split
          · rfl
          · split <;> rfl
  | rename o n now =>
    simp only [step, Store.rename]
    split
    · rfl
    · split
      · rfl
      · split
        · rfl
        · split
          · split
            · rfl
            · split <;> rfl
          · split
            · rfl
            · split
              · rfl
              · split
                · simp only [subs_newBoxes]
                · simp only [subs_newBoxes]
  | subscribe a => simp [Op.isSubOp] at h
  | unsubscribe a => simp [Op.isSubOp] at h

end Raven.Mail
